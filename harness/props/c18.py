"""C18 — Signals and slices alias state, isolate accumulations and reset cleanly (pymoto/core_objects.py:68-290)

correspondence: random operation sequences on real `Signal` / `SignalSlice` objects vs the Lean heap model
                `Core/Signal.lean` (driver op c18.run); after EVERY operation the full observable state is compared
                exactly: all states, all sensitivities, keep_alloc, all slice getters, the contents of every array the
                harness handed over, the `is`-identity classes of the held objects, the raised exception class.
                Plus c18.sel: index sets of slice specs (slice.indices normalisation) vs numpy.
oracle        : (a) a pure-numpy reference of the abstract spec (slice = index list into the base; get = gather,
                set = scatter, add = scatter-add into a zero-initialised base sensitivity, reset semantics) that never
                aliases anything, evaluated next to the real objects in the "owned" streams; (b) local property checks
                after every operation in all streams (add creates no alias, slice operations change only their entries,
                reset clears / zeroes in place).
"""
import json
import warnings

import numpy as np

from ..common import errname

RULE = ("random operation sequences (<=12 ops quick, <=40 thorough) over 1-3 base signals (None / Python int / complex / "
        "1-D..3-D int64 / complex128 Gaussian-integer arrays) with 2-4 slices per base (basic, tuple, integer array, nested); "
        "streams: owned (spec oracle applies), free (arbitrary aliasing through plain assignments), malformed (mixed dtypes, "
        "bad shapes, bad indices, repeats, unsliceable states); one evaluation = one operation whose complete observation "
        "agrees; distinct = (case, op) pairs; all non-trivial (at least one signal holds data)")
ASSUMPTIONS = [
    "boolean-mask indices are not generated (outside the property's quantifier; no model); plain integers occur inside mixed tuples",
    "integer index arrays with repeats, mixed real/complex additions, shape mismatches and slices of non-array states "
    "are generated only in the malformed stream (model behaviour = numpy behaviour, error class compared)",
    "plain attribute assignment `sig.state = v` / `sig.sensitivity = v` aliases v (Python semantics, modelled literally); "
    "the abstract-spec oracle therefore runs on the streams where assigned arrays are handed over for good",
    "values stay far below 2**53 so int64 / complex128 arithmetic is exact",
    "slice specs cover basic slices, tuples of slices, an integer array on axis 0 and mixed tuples of slices, integers and ONE "
    "integer array at any axis (a 0-d result — every axis indexed by an integer — is a numpy scalar in numpy and in the model; it "
    "arises when a sensitivity has fewer axes than the state the spec was drawn for); tuples with two or more integer arrays are "
    "not generated",
    "rank-0 ndarrays (shape (), mutable) are generated as states and as arguments in all streams and are heap arrays in the model; "
    "numpy scalars (results of ufuncs on rank-0 arrays and of indexing every axis with an integer) and Python numbers are the "
    "immutable ones",
    "integer index arrays are handed to pymoto as ndarray objects or as Python lists (spec key `lst`), alone or inside tuples at any "
    "position; the model has one representation for both (numpy treats them alike)",
    "nested basic slices include chains (depth 2-3, 1-D slice objects and per-axis tuples) whose inner start / stop overshoot the "
    "outer slice's extent, with positive and negative steps and empty results",
    "dtype variety (float32 / float64 / complex64 next to int64 / complex128, Python float) is an ORACLE-LEVEL stream on plain "
    "signals: the real code is compared with a pure-numpy accumulation spec (deepcopy at the first add, numpy's own += and its "
    "casting errors afterwards, [...] = 0 for kept allocation) for values, dtype and error class; the Lean model itself carries "
    "only the int64 / complex128 tag (same-kind casting between these two), so float dtypes are not compared with the model",
    "for generated cases pymoto.core_objects.get_init_str (creation-site string used only in error messages) is replaced by a "
    "constant inside the harness process for speed; the fixed corpus cases use the original",
]


def _pm():
    import pymoto
    return pymoto


class fast_init_loc:
    """`Signal.__init__` calls `inspect.stack()` only to remember where the signal was created (7 ms per signal, used in
    error MESSAGES only). For the generated cases this diagnostic helper is replaced from outside by a constant; the fixed
    corpus cases run with the original."""

    def __enter__(self):
        import pymoto.core_objects as co
        self.co, self.orig = co, co.get_init_str
        co.get_init_str = lambda: "File \"<verif>\", line 0, in harness"

    def __exit__(self, *a):
        self.co.get_init_str = self.orig


# ------------------------------------------------------------------------------------------------
# encoding of values / specs
# ------------------------------------------------------------------------------------------------
def enc_val(x):
    if x is None:
        return None
    if isinstance(x, bool):
        return ["other", "bool"]
    if isinstance(x, np.generic):          # numpy scalar (every axis indexed by an integer)
        if isinstance(x, np.int64):
            return ["npsc", False, int(x), 0]
        if isinstance(x, np.complex128) and x.real == int(x.real) and x.imag == int(x.imag):
            return ["npsc", True, int(x.real), int(x.imag)]
        return ["other", type(x).__name__]
    if isinstance(x, int):
        return ["sc", False, x, 0]
    if isinstance(x, complex):
        if x.real != int(x.real) or x.imag != int(x.imag):
            return ["other", "complex-nonint"]
        return ["sc", True, int(x.real), int(x.imag)]
    if isinstance(x, np.ndarray):
        if x.dtype == np.int64:
            return ["arr", False, list(x.shape), [int(v) for v in x.reshape(-1)]]
        if x.dtype == np.complex128:
            f = x.reshape(-1)
            if np.any(f.real != np.round(f.real)) or np.any(f.imag != np.round(f.imag)):
                return ["other", "complex-nonint"]
            return ["arr", True, list(x.shape), [int(v) for v in f.real], [int(v) for v in f.imag]]
        return ["other", str(x.dtype)]
    return ["other", type(x).__name__]


def mk_array(d):
    if d["c"]:
        a = np.array(d["re"], dtype=np.complex128) + 1j * np.array(d["im"], dtype=np.complex128)
    else:
        a = np.array(d["re"], dtype=np.int64)
    a = a.reshape(d["shape"]).copy()         # owns its buffer (`.base is None`)
    if d.get("F") and a.ndim >= 2:
        a = np.asfortranarray(a)             # same logical array, Fortran memory order (the model does not know about layouts)
    return a


def py_spec(sp):
    k = sp["k"]
    if k == "basic":
        return slice(*sp["sl"])
    if k == "tuple":
        return tuple(slice(*s) for s in sp["sl"])
    lst = sp.get("lst")          # the index array is handed over as a Python LIST (numpy treats it like an ndarray)
    if k == "mixed":
        return tuple(slice(*it) if isinstance(it, list) else
                     (list(it["a"]) if lst else np.array(it["a"], dtype=np.int64)) if isinstance(it, dict) else int(it)
                     for it in sp["sl"])
    return list(sp["sl"]) if lst else np.array(sp["sl"], dtype=np.int64)


def is_copy_spec(sp):
    """advanced indexing (an integer array anywhere in the index) gives a COPY"""
    return sp["k"] == "int" or (sp["k"] == "mixed" and any(isinstance(it, dict) for it in sp["sl"]))


# ------------------------------------------------------------------------------------------------
# the abstract spec (pure numpy, nothing is ever aliased)
# ------------------------------------------------------------------------------------------------
class Undefined(Exception):
    """the abstract spec does not define this situation (outside the property's quantifier)"""


def _cp(v):
    return v.copy() if isinstance(v, np.ndarray) else v


def _is_c(v):
    return isinstance(v, complex) or (isinstance(v, np.ndarray) and v.dtype == np.complex128)


class Spec:
    def __init__(self):
        self.state, self.sens = [], []

    def idx(self, chain, shape):
        if len(shape) == 0:
            raise Undefined("index into a rank-0 array")
        a = np.arange(int(np.prod(shape)), dtype=np.int64).reshape(shape)
        for sp in chain:
            try:
                a = a[py_spec(sp)]
            except Exception:
                raise Undefined("index")
        return a

    @staticmethod
    def bval(v, shape, target_c):
        if v is None:
            raise Undefined("None value")
        if _is_c(v) and not target_c:
            raise Undefined("complex into real")
        if isinstance(v, np.ndarray):
            if v.ndim > len(shape):
                raise Undefined("rank")
            try:
                return np.broadcast_to(v, shape)
            except ValueError:
                raise Undefined("shape")
        return v

    def get(self, i, chain, fld):
        b = (self.state if fld == "state" else self.sens)[i]
        if b is None:
            return None
        if not isinstance(b, np.ndarray):
            raise Undefined("slice of scalar")
        return b.reshape(-1)[self.idx(chain, b.shape)]

    def set_state(self, i, chain, v):
        if not chain:
            self.state[i] = _cp(v)
            return
        b = self.state[i]
        if not isinstance(b, np.ndarray):
            raise Undefined("slice of non-array state")
        ix = self.idx(chain, b.shape)
        b.reshape(-1)[ix] = self.bval(v, ix.shape, b.dtype == np.complex128)

    def _ensure_sens(self, i):
        if self.sens[i] is None:
            if not isinstance(self.state[i], np.ndarray) or self.state[i].ndim == 0:
                raise Undefined("no array state (rank >= 1) to size the sensitivity")
            self.sens[i] = np.zeros_like(self.state[i])
        if not isinstance(self.sens[i], np.ndarray):
            raise Undefined("slice of scalar sensitivity")

    def set_sens(self, i, chain, v):
        if not chain:
            self.sens[i] = _cp(v)
            return
        if self.sens[i] is None and v is None:
            return
        self._ensure_sens(i)
        b = self.sens[i]
        ix = self.idx(chain, b.shape)
        b.reshape(-1)[ix] = self.bval(0 if v is None else v, ix.shape, b.dtype == np.complex128)

    def add(self, i, chain, v):
        if v is None:
            return
        if not chain:
            cur = self.sens[i]
            if cur is None:
                self.sens[i] = _cp(v)
            elif isinstance(cur, np.ndarray):
                new = cur.copy()                 # (an expression `cur + v` would turn a rank-0 array into a numpy scalar)
                new += self.bval(v, cur.shape, cur.dtype == np.complex128)
                self.sens[i] = new
            else:
                self.sens[i] = cur + (_cp(v))
            return
        self._ensure_sens(i)
        b = self.sens[i]
        ix = self.idx(chain, b.shape)
        f = b.reshape(-1)
        f[ix] = f[ix] + self.bval(v, ix.shape, b.dtype == np.complex128)

    def reset(self, i, chain, ka, keep_default):
        cur = self.sens[i]
        if cur is None:
            return
        if not chain:
            k = keep_default if ka is None else ka
            if k and isinstance(cur, np.ndarray):
                z = cur.copy()
                z[...] = 0
                self.sens[i] = z
            else:
                self.sens[i] = (cur * 0) if k else None
            return
        if not isinstance(cur, np.ndarray):
            raise Undefined("slice of scalar sensitivity")
        cur.reshape(-1)[self.idx(chain, cur.shape)] = 0


def same_val(a, b):
    return enc_val(a) == enc_val(b)


# ------------------------------------------------------------------------------------------------
# the real world
# ------------------------------------------------------------------------------------------------
class Impl:
    """real pymoto objects driven by the op dictionaries that are also sent to the model"""

    def __init__(self, slice_decls, oracle=True):
        self.pm = _pm()
        self.decls = slice_decls
        self.sigs, self.exts = [], []
        self.slice_objs = [None] * len(slice_decls)
        self.spec = Spec() if oracle else None     # abstract-spec oracle (owned streams)
        self.spec_live = oracle
        self.oracle_msgs = []
        self.transferred = set()                   # ids of exts handed over for good by a plain assignment
        self.stats = {"spec_checked": 0, "spec_undefined": 0, "local_checked": 0}

    # -- references ------------------------------------------------------------------------------
    def root_chain(self, ref):
        chain = []
        while "s" in ref:
            d = self.decls[ref["s"]]
            chain.append(d)
            ref = d["p"]
        return ref["b"], chain[::-1]

    def sig(self, ref):
        if "b" in ref:
            return self.sigs[ref["b"]]
        j = ref["s"]
        if self.slice_objs[j] is None:
            self.slice_objs[j] = self.sig(self.decls[j]["p"])[py_spec(self.decls[j])]   # Signal.__getitem__
        return self.slice_objs[j]

    def arg(self, a):
        if a is None:
            return None
        if "sc" in a:
            c, x, y = a["sc"]
            return complex(x, y) if c else int(x)
        if "new" in a:
            arr = mk_array(a["new"])
            self.exts.append(arr)
            return arr
        if "ext" in a:
            return self.exts[a["ext"]]
        i, f = a["held"]
        return self.sigs[i].state if f == "state" else self.sigs[i].sensitivity

    # -- one operation -----------------------------------------------------------------------------
    def apply(self, op):
        """returns the exception class name or None"""
        kind = op["op"]
        before = self.snapshot() if kind != "new_signal" else None
        err = None
        st = se = val = None
        if kind == "new_signal":
            st, se = self.arg(op["st"]), self.arg(op["se"])
        elif kind != "reset":
            val = self.arg(op["a"])
        val_before = _cp(val)                      # the operation itself may change `val` (self-aliasing)
        with warnings.catch_warnings():
            warnings.simplefilter("ignore")
            try:
                if kind == "new_signal":
                    if st is None and se is None:
                        s = self.pm.make_signals(f"s{len(self.sigs)}")[f"s{len(self.sigs)}"]
                    else:
                        s = self.pm.Signal(f"s{len(self.sigs)}", state=st, sensitivity=se)
                    self.sigs.append(s)
                    for v in (st, se):
                        if isinstance(v, np.ndarray):
                            self.transferred.add(id(v))
                    if self.spec is not None:
                        self.spec.state.append(_cp(st))
                        self.spec.sens.append(_cp(se))
                elif kind == "mutate":
                    if isinstance(val, np.ndarray):
                        val += op["k"]
                else:
                    s = self.sig(op["sig"])
                    if kind == "reset":
                        r = s.reset() if op["ka"] is None and op.get("noarg") else s.reset(op["ka"])
                        if r is not s:
                            self.oracle_msgs.append("reset() did not return self")
                    else:
                        if kind == "set_state":
                            s.state = val
                        elif kind == "set_sens":
                            s.sensitivity = val
                        elif kind == "add":
                            s.add_sensitivity(val)
                        else:
                            raise KeyError(kind)
                        if kind in ("set_state", "set_sens") and "b" in op["sig"] and isinstance(val, np.ndarray):
                            self.transferred.add(id(val))
            except Exception as e:  # noqa
                err = errname(e)
        if before is not None:
            self.local_checks(op, val, before, err)
            self.spec_step(op, val, val_before, err)
        return err

    # -- observation (mirrors Drv/C18.lean `observe`) -------------------------------------------------
    def observe(self, err):
        sigs = [[enc_val(s.state), enc_val(s.sensitivity), bool(s.keep_alloc)] for s in self.sigs]
        sl = []
        for j, d in enumerate(self.decls):
            root, _ = self.root_chain({"s": j})
            if root >= len(self.sigs):
                sl.append(["na", "na"])
                continue
            o = self.sig({"s": j})
            row = []
            for f in ("state", "sensitivity"):
                with warnings.catch_warnings():
                    warnings.simplefilter("ignore")
                    try:
                        row.append(enc_val(getattr(o, f)))
                    except Exception as e:  # noqa
                        row.append({"err": errname(e)})
            sl.append(row)
        objs = [v for s in self.sigs for v in (s.state, s.sensitivity)] + list(self.exts)
        ident = []
        for k, v in enumerate(objs):
            if isinstance(v, np.ndarray) and v.base is None:
                ident.append(next(m for m in range(k + 1) if objs[m] is v))
            else:
                ident.append(-1)
        return {"err": err, "sigs": sigs, "slices": sl, "exts": [enc_val(v) for v in self.exts], "ident": ident}

    # -- local property checks (valid under arbitrary aliasing) ------------------------------------------
    def snapshot(self):
        return {"state": [(s.state, _cp(s.state)) for s in self.sigs],
                "sens": [(s.sensitivity, _cp(s.sensitivity)) for s in self.sigs],
                "exts": [e.copy() for e in self.exts]}

    def local_checks(self, op, val, before, err):
        kind = op["op"]
        if kind == "mutate":
            return
        self.stats["local_checked"] += 1
        root, chain = self.root_chain(op["sig"])
        s = self.sigs[root]
        msgs = []
        if kind == "add" and not chain and isinstance(val, np.ndarray) and err is None:
            old_obj = before["sens"][root][0]
            new = s.sensitivity
            if isinstance(new, np.ndarray):
                if new is val and old_obj is not val:
                    msgs.append("add_sensitivity stored the caller's object itself")
                elif old_obj is None and np.shares_memory(new, val):
                    msgs.append("add_sensitivity: held sensitivity shares memory with the caller's value")
                if old_obj is None:
                    for j, t in enumerate(self.sigs):
                        for what, o in (("state", t.state), ("sensitivity", t.sensitivity)):
                            if (j, what) != (root, "sensitivity") and isinstance(o, np.ndarray) and np.shares_memory(new, o):
                                msgs.append(f"add_sensitivity: new sensitivity shares memory with signal {j}.{what}")
        if chain and any(is_copy_spec(d) for d in chain[:-1]):
            chain_ok = False     # a slice of an integer-array slice works on a COPY (writes are lost): outside the property
        else:
            chain_ok = True
        if chain and chain_ok:
            # entries outside the slice's index set must be unchanged in the root's arrays (same object before/after)
            for f, cur in (("state", s.state), ("sens", s.sensitivity)):
                obj, old = before[f][root]
                if isinstance(obj, np.ndarray) and cur is obj:
                    try:
                        ix = Spec().idx(chain, obj.shape).reshape(-1)
                    except Undefined:
                        ix = None
                    if ix is not None:
                        mask = np.ones(obj.size, dtype=bool)
                        mask[ix] = False
                        if not np.array_equal(obj.reshape(-1)[mask], old.reshape(-1)[mask]):
                            msgs.append(f"slice operation {kind} changed entries of the base {f} outside its index set")
                        if kind == "reset" and f == "sens" and err is None and np.any(obj.reshape(-1)[ix] != 0):
                            msgs.append("slice reset left non-zero entries inside its index set")
                elif isinstance(obj, np.ndarray) and f == "state" and cur is not obj:
                    msgs.append("slice operation replaced the base state object")
            if kind != "set_state":
                obj, old = before["state"][root]
                if isinstance(obj, np.ndarray) and not np.array_equal(obj, old) and not any(
                        isinstance(t.sensitivity, np.ndarray) and np.shares_memory(t.sensitivity, obj) for t in self.sigs):
                    msgs.append(f"{kind} through a slice changed the base state")
        if kind == "reset" and not chain and err is None:
            obj, old = before["sens"][root]
            k = s.keep_alloc if op["ka"] is None else op["ka"]
            if obj is not None:
                if not k and s.sensitivity is not None:
                    msgs.append("reset() without kept allocation did not clear the sensitivity")
                if k and isinstance(obj, np.ndarray) and (s.sensitivity is not obj or np.any(obj != 0)):
                    msgs.append("reset(keep_alloc=True) did not zero the same sensitivity object in place")
        for m in msgs:
            self.oracle_msgs.append(m)

    # -- abstract-spec oracle ---------------------------------------------------------------------------------
    def spec_step(self, op, obj, val, err):
        """obj: the caller's object (identity), val: its value before the operation"""
        if self.spec is None or not self.spec_live:
            return
        kind = op["op"]
        sp = self.spec
        try:
            if kind == "mutate":
                a = op["a"]
                if "held" in a:
                    i, f = a["held"]
                    tgt = sp.state if f == "state" else sp.sens
                    if isinstance(tgt[i], np.ndarray):
                        tgt[i] = tgt[i].copy()
                        tgt[i] += op["k"]
                elif id(obj) in self.transferred:
                    raise Undefined("caller mutated an array it had assigned to a signal")
            else:
                root, chain = self.root_chain(op["sig"])
                if kind == "set_state":
                    sp.set_state(root, chain, val)
                elif kind == "set_sens":
                    sp.set_sens(root, chain, val)
                elif kind == "add":
                    sp.add(root, chain, val)
                elif kind == "reset":
                    sp.reset(root, chain, op["ka"], self.sigs[root].keep_alloc)
        except Undefined:
            self.spec_live = False
            self.stats["spec_undefined"] += 1
            return
        if err is not None:
            self.oracle_msgs.append(f"{kind} raised {err} although the abstract spec defines the operation")
            self.spec_live = False
            return
        self.stats["spec_checked"] += 1
        for i, s in enumerate(self.sigs):
            if not same_val(s.state, sp.state[i]):
                self.oracle_msgs.append(f"after {kind}: state of signal {i} is {enc_val(s.state)} but the spec says {enc_val(sp.state[i])}")
            if not same_val(s.sensitivity, sp.sens[i]):
                self.oracle_msgs.append(f"after {kind}: sensitivity of signal {i} is {enc_val(s.sensitivity)} but the spec says {enc_val(sp.sens[i])}")
        for j in range(len(self.decls)):
            root, chain = self.root_chain({"s": j})
            if root >= len(self.sigs):
                continue
            for f, attr in (("state", "state"), ("sens", "sensitivity")):
                try:
                    want = sp.get(root, chain, f)
                except Undefined:
                    continue
                try:
                    got = getattr(self.sig({"s": j}), attr)
                except Exception as e:  # noqa
                    self.oracle_msgs.append(f"slice {j} {attr} getter raised {errname(e)}; spec gives {enc_val(want)}")
                    continue
                if not same_val(got, want):
                    self.oracle_msgs.append(f"slice {j} {attr} reads {enc_val(got)} but the base entries are {enc_val(want)}")
        if self.oracle_msgs:
            self.spec_live = False


def run_case(req, oracle):
    """execute a recorded request on fresh real objects; returns (observations, oracle messages, stats)"""
    im = Impl(req["slices"], oracle)
    obs = []
    for op in req["ops"]:
        err = im.apply(op)
        obs.append(im.observe(err))
    return obs, im.oracle_msgs, im.stats


# ------------------------------------------------------------------------------------------------
# generators
# ------------------------------------------------------------------------------------------------
def rand_shape(rng, big, rank0=0.0):
    if rng.random() < rank0:
        return []                  # a rank-0 ndarray: MUTABLE, unlike numpy scalars and Python numbers
    nd = rng.choice([1, 1, 1, 2, 2, 3])
    if nd == 1:
        return [rng.randint(1, 8 if big else 6)]
    if nd == 2:
        return [rng.randint(1, 4), rng.randint(1, 4)]
    return [rng.randint(1, 3), rng.randint(1, 3), rng.randint(1, 3)]


def rand_new(rng, shape, cplx):
    n = int(np.prod(shape)) if shape else 1
    d = {"c": bool(cplx), "shape": list(shape), "re": [rng.randint(-20, 20) for _ in range(n)]}
    if cplx:
        d["im"] = [rng.randint(-20, 20) for _ in range(n)]
    return {"new": d}


def rand_sc(rng, cplx):
    return {"sc": [bool(cplx), rng.randint(-9, 9), rng.randint(-9, 9) if cplx else 0]}


def rand_slice(rng, d, allow_zero_step=False):
    def bound():
        return None if rng.random() < 0.3 else rng.randint(-d - 2, d + 2)
    steps = [None, None, 1, 1, 2, 3, -1, -1, -2, -3]
    if allow_zero_step:
        steps = steps + [0, 0, 0]
    return [bound(), bound(), rng.choice(steps)]


def rand_int_array(rng, d, malformed):
    k = rng.randint(0, d) if rng.random() < 0.9 else d
    idx = rng.sample(range(d), k)
    idx = [i - d if rng.random() < 0.3 else i for i in idx]
    if malformed and idx:
        m = rng.random()
        if m < 0.3:
            idx.append(rng.choice(idx))                       # repeat
        elif m < 0.5:
            idx[rng.randrange(len(idx))] = rng.choice([d, d + 1, -d - 1])    # out of range
    return idx


def rand_mixed(rng, shape, malformed):
    """tuple mixing slices, integers and at most ONE integer array at any axis (result keeps at least one axis)"""
    nd = len(shape)
    n = rng.randint(1, nd)
    with_arr = rng.random() < 0.8
    apos = rng.randrange(n) if with_arr else None
    items = []
    nint = 0
    for a in range(n):
        d = shape[a]
        if a == apos:
            items.append({"a": rand_int_array(rng, d, malformed and rng.random() < 0.4)})
        elif rng.random() < 0.4 and d >= 1 and (with_arr or nint + 1 < nd):
            i = rng.randrange(d)
            if malformed and rng.random() < 0.1:
                i = d + rng.randint(0, 1)
            items.append(i - d if rng.random() < 0.3 and i < d else i)
            nint += 1
        else:
            items.append(rand_slice(rng, d, malformed and rng.random() < 0.05))
    if malformed and rng.random() < 0.08:
        items = items + [rand_slice(rng, 2)] * (nd + 1 - n)        # too many indices
    if with_arr and rng.random() < 0.4:
        return {"k": "mixed", "sl": items, "lst": True}
    return {"k": "mixed", "sl": items}


def rand_spec(rng, shape, malformed=False):
    """a slice spec for an array of the given shape"""
    r = rng.random()
    d0 = shape[0]
    if len(shape) >= 2 and rng.random() < 0.45 or rng.random() < 0.05:
        return rand_mixed(rng, shape, malformed)
    if r < 0.35:
        return {"k": "basic", "sl": rand_slice(rng, d0, malformed and rng.random() < 0.15)}
    if r < 0.65:
        n = rng.randint(1, len(shape)) if rng.random() < 0.93 else 0
        if malformed and rng.random() < 0.2:
            n = len(shape) + 1
        dims = list(shape) + [2]
        return {"k": "tuple", "sl": [rand_slice(rng, dims[a]) for a in range(n)]}
    k = rng.randint(0, d0) if rng.random() < 0.9 else d0
    idx = rng.sample(range(d0), k)
    idx = [i - d0 if rng.random() < 0.3 else i for i in idx]
    if malformed and idx:
        m = rng.random()
        if m < 0.3:
            idx.append(rng.choice(idx))                       # repeat
        elif m < 0.5:
            idx[rng.randrange(len(idx))] = rng.choice([d0, d0 + 1, -d0 - 1])    # out of range
    if rng.random() < 0.4:
        return {"k": "int", "sl": idx, "lst": True}
    return {"k": "int", "sl": idx}


def overshoot_slice(rng, L, first):
    """a basic slice on an axis of length L; `first`: strictly inside (entries remain beyond its stop), otherwise the
    start / stop run past the end of the axis"""
    if first:
        if L < 2:
            return [None, None, None]
        if rng.random() < 0.75:
            a = rng.randint(0, max(0, L - 2))
            b = rng.randint(a + 1, max(a + 1, L - 1))
            return [a if a or rng.random() < 0.5 else None, b, rng.choice([None, 1, 1, 2])]
        b = rng.randint(0, L - 2)                           # negative step, stops before the beginning
        return [rng.randint(b + 1, L - 1), b, rng.choice([-1, -1, -2])]
    r = rng.random()
    if r < 0.7:
        return [rng.choice([None, 0, 1, min(2, L), L, L + 1, L + 3]), rng.choice([L, L + 1, L + 2, L + 4, 2 * L + 3]),
                rng.choice([None, 1, 1, 2])]
    if r < 0.85:
        return [rng.choice([L, L + 2, 2 * L + 1]), rng.choice([None, 0]), rng.choice([-1, -2])]
    return [rng.choice([None, 0, 1]), rng.choice([None, -1, L - 1 if L > 1 else None]), rng.choice([None, 1])]


def overshoot_chain(rng, i, shape, decls, slice_shape):
    """appends a chain s[outer][inner]([inner2]) of basic slices (1-D: `slice` objects; n-D: per-axis tuples) to decls;
    returns the indices of the nested members"""
    out = []
    cur = list(shape)
    parent = {"b": i}
    depth = rng.choice([2, 2, 3])
    for lvl in range(depth):
        if len(cur) == 1 and rng.random() < 0.8:
            sp = {"k": "basic", "sl": overshoot_slice(rng, cur[0], lvl == 0)}
        else:
            nax = rng.randint(1, len(cur))
            sp = {"k": "tuple", "sl": [overshoot_slice(rng, cur[a], lvl == 0) for a in range(nax)]}
        shp = spec_shape(cur, sp)
        if shp is None:
            break
        decls.append({"p": parent, **sp})
        slice_shape.append(shp)
        j = len(decls) - 1
        parent = {"s": j}
        if lvl > 0:
            out.append(j)
        cur = shp
    return out


def spec_shape(shape, sp):
    try:
        return list(np.empty(shape, dtype=np.int8)[py_spec(sp)].shape)
    except Exception:
        return None


def gen_case(ctx, stream, maxops):
    """builds a request by driving a live Impl (the next operation may look at the current real state)"""
    rng = ctx.rng
    malformed = stream == "malformed"
    owned = stream == "owned"
    nsig = rng.choice([1, 2, 2, 3])
    ops, decls, shapes, cplxs = [], [], [], []
    # base signals
    for i in range(nsig):
        r = rng.random()
        cplx = rng.random() < 0.3
        se = None
        if r < 0.06:
            st, shape = None, None
        elif r < 0.16:
            st, shape = rand_sc(rng, cplx), None
        else:
            shape = rand_shape(rng, not ctx.quick, 0.1)
            st = rand_new(rng, shape, cplx)
            if rng.random() < 0.2:
                se = rand_new(rng, shape, cplx)
        ops.append({"op": "new_signal", "st": st, "se": se})
        shapes.append(shape)
        cplxs.append(cplx)
    # slices
    slice_shape = []
    for i in range(nsig):
        shape = shapes[i]
        if shape is None or shape == []:
            if malformed or rng.random() < 0.3:
                decls.append({"p": {"b": i}, **rand_spec(rng, [3], malformed)})
                slice_shape.append(None)
            if shape == [] and rng.random() < 0.5:
                decls.append({"p": {"b": i}, "k": "tuple", "sl": []})       # `s[()]` of a rank-0 array: a numpy scalar
                slice_shape.append(None)
            continue
        mine = []
        for _ in range(rng.randint(2, 4)):
            cands = [j for j in mine if slice_shape[j] and len(slice_shape[j]) >= 1 and slice_shape[j][0] >= 1
                     and (not is_copy_spec(decls[j]) or malformed)]
            if cands and rng.random() < 0.35:
                pj = rng.choice(cands)
                sp = rand_spec(rng, slice_shape[pj], malformed)
                if is_copy_spec(decls[pj]) and not malformed:
                    continue
                if owned and sp["k"] == "int" and len({x % slice_shape[pj][0] for x in sp["sl"]}) != len(sp["sl"]):
                    continue
                d = {"p": {"s": pj}, **sp}
                shp = spec_shape(slice_shape[pj], sp)
            else:
                sp = rand_spec(rng, shape, malformed)
                d = {"p": {"b": i}, **sp}
                shp = spec_shape(shape, sp)
            decls.append(d)
            slice_shape.append(shp)
            mine.append(len(decls) - 1)
    # nested basic slices whose inner start / stop overshoot the outer slice's extent (numpy clips at EVERY level)
    hot = []
    for i in range(nsig):
        shape = shapes[i]
        if not shape or rng.random() < 0.4:
            continue
        hot += overshoot_chain(rng, i, shape, decls, slice_shape)
    im = Impl(decls, oracle=owned)
    obs = []
    for op in ops:
        obs.append(im.observe(im.apply(op)))
    refs = ([{"b": i} for i in range(nsig)] + [{"s": j} for j in range(len(decls))] * 2   # slices are used more often
            + [{"s": j} for j in hot] * 3)
    free_exts = lambda: [k for k, e in enumerate(im.exts) if id(e) not in im.transferred]  # noqa

    def target_info(ref, fld):
        """(shape or None for scalar / unknown, complex?) of what the reference currently shows"""
        o = im.sig(ref)
        try:
            with warnings.catch_warnings():
                warnings.simplefilter("ignore")
                v = o.state if fld == "state" else o.sensitivity
                if v is None and fld == "sens":
                    v = o.state
        except Exception:
            return None, False
        if isinstance(v, np.ndarray):
            return list(v.shape), v.dtype == np.complex128
        return None, isinstance(v, complex)

    def rand_value(shape, cplx_ok, plain_set):
        """an argument expression matching `shape` (None = scalar)"""
        r = rng.random()
        c = cplx_ok and rng.random() < 0.6
        if malformed and rng.random() < 0.25:
            m = rng.random()
            if m < 0.4:
                c = True                                            # possibly complex into real
            elif m < 0.8 and shape is not None:
                shape = [max(0, d + rng.choice([-1, 1, 1])) for d in shape] if rng.random() < 0.6 else shape + [2]
            else:
                return None
        if shape is None:
            return rand_sc(rng, c) if r < 0.6 else rand_new(rng, rand_shape(rng, False, 0.5), c)
        if r < 0.12:
            return rand_sc(rng, c)
        if r < 0.18 and not plain_set:
            return rand_new(rng, [], c)          # rank-0 array: broadcasts like a scalar but is a mutable object
        if r < 0.30 and not plain_set:
            # broadcastable
            bs = [1 if rng.random() < 0.5 else d for d in shape]
            bs = bs[rng.randint(0, len(bs) - 1):] if len(bs) > 1 else bs
            return rand_new(rng, bs, c)
        if r < 0.50 and not (owned and plain_set):
            # an object that is already around: handed-over array or something held by a signal
            cands = [{"ext": k} for k in (free_exts() if owned else range(len(im.exts)))
                     if list(im.exts[k].shape) == shape and (cplx_ok or im.exts[k].dtype == np.int64)]
            for i, s in enumerate(im.sigs):
                for f, v in (("state", s.state), ("sens", s.sensitivity)):
                    if isinstance(v, np.ndarray) and list(v.shape) == shape and (cplx_ok or v.dtype == np.int64):
                        cands.append({"held": [i, f]})
            if cands:
                return rng.choice(cands)
        return rand_new(rng, shape, c)

    nops = rng.randint(max(2, maxops // 3), maxops)
    while len(ops) < nsig + nops:
        r = rng.random()
        ref = rng.choice(refs)
        plain = "b" in ref
        if r < 0.40:
            shp, c = target_info(ref, "sens")
            if plain and im.sigs[ref["b"]].sensitivity is None:
                c = True
            op = {"op": "add", "sig": ref, "a": None if rng.random() < 0.04 else rand_value(shp, c, False)}
        elif r < 0.55:
            shp, c = target_info(ref, "state")
            if plain and not malformed and rng.random() < 0.9 and im.sigs[ref["b"]].state is not None:
                c = isinstance(im.sigs[ref["b"]].state, complex) or (
                    isinstance(im.sigs[ref["b"]].state, np.ndarray) and im.sigs[ref["b"]].state.dtype == np.complex128)
            elif plain:
                c = rng.random() < 0.3
            op = {"op": "set_state", "sig": ref, "a": rand_value(shp, c, plain)}
            rst = im.sigs[im.root_chain(ref)[0]].state
            if op["a"] is None and not plain and isinstance(rst, np.ndarray) and rst.dtype == np.complex128:
                continue        # numpy stores NaN for `complex_array[...] = None`: outside the model's number domain
        elif r < 0.65:
            shp, c = target_info(ref, "sens")
            a = None if rng.random() < 0.2 else rand_value(shp, c or plain and rng.random() < 0.2, plain)
            op = {"op": "set_sens", "sig": ref, "a": a}
        elif r < 0.80:
            op = {"op": "reset", "sig": ref, "ka": rng.choice([None, None, True, False])}
            if op["ka"] is None and rng.random() < 0.5:
                op["noarg"] = True
        else:
            cands = [{"ext": k} for k in (free_exts() if owned else range(len(im.exts)))]
            for i, s in enumerate(im.sigs):
                for f, v in (("state", s.state), ("sens", s.sensitivity)):
                    if isinstance(v, np.ndarray):
                        cands.append({"held": [i, f]})
            if not cands:
                continue
            op = {"op": "mutate", "a": rng.choice(cands), "k": rng.randint(1, 9)}
        next_ext = len(im.exts)
        ops.append(op)
        obs.append(im.observe(im.apply(op)))
        # alias probe: the caller changes the array it has just passed to add_sensitivity / a slice setter
        if len(im.exts) > next_ext and id(im.exts[next_ext]) not in im.transferred and rng.random() < 0.7:
            op = {"op": "mutate", "a": {"ext": next_ext}, "k": rng.randint(1, 9)}
            ops.append(op)
            obs.append(im.observe(im.apply(op)))
    # finally every handed-over array is changed once more
    for k in (free_exts() if owned else range(len(im.exts))):
        if rng.random() < (0.5 if owned else 0.25):
            op = {"op": "mutate", "a": {"ext": k}, "k": rng.randint(1, 9)}
            ops.append(op)
            obs.append(im.observe(im.apply(op)))
    return {"m": "c18.run", "slices": decls, "ops": ops}, obs, im


# ------------------------------------------------------------------------------------------------
# fixed corpus (one case per modelled branch; also the smallest witnesses of the property's claims)
# ------------------------------------------------------------------------------------------------
def _new(shape, re, im=None):
    d = {"c": im is not None, "shape": shape, "re": re}
    if im is not None:
        d["im"] = im
    return {"new": d}


def fixed_cases():
    b0, s = {"b": 0}, lambda j: {"s": j}  # noqa
    sig5 = {"op": "new_signal", "st": _new([5], [1, 2, 3, 4, 5]), "se": None}
    cases = []
    # add twice the same object, then the caller changes it
    cases.append(("owned", {"slices": [], "ops": [sig5, {"op": "new_signal", "st": None, "se": None},
                  {"op": "add", "sig": b0, "a": _new([5], [1, 1, 1, 1, 1])}, {"op": "add", "sig": {"b": 1}, "a": {"ext": 1}},
                  {"op": "mutate", "a": {"ext": 1}, "k": 5}, {"op": "add", "sig": b0, "a": {"ext": 1}},
                  {"op": "reset", "sig": b0, "ka": True}, {"op": "reset", "sig": {"b": 1}, "ka": None, "noarg": True}]}))
    # nested basic slices with negative steps, integer array, slice reset
    cases.append(("owned", {"slices": [{"p": b0, "k": "basic", "sl": [1, None, None]}, {"p": s(0), "k": "basic", "sl": [None, None, -2]},
                                      {"p": b0, "k": "int", "sl": [0, -1]}],
                  "ops": [sig5, {"op": "add", "sig": s(1), "a": _new([2], [10, 20])}, {"op": "add", "sig": s(2), "a": {"sc": [False, 7, 0]}},
                          {"op": "set_state", "sig": s(1), "a": {"sc": [False, -1, 0]}}, {"op": "reset", "sig": s(0), "ka": None},
                          {"op": "set_sens", "sig": s(2), "a": _new([2], [3, 4])}, {"op": "reset", "sig": b0, "ka": None}]}))
    # 2-D tuple slices, complex data, broadcasting
    cases.append(("owned", {"slices": [{"p": b0, "k": "tuple", "sl": [[None, None, None], [0, 2, None]]}, {"p": b0, "k": "tuple", "sl": [[1, None, None]]}],
                  "ops": [{"op": "new_signal", "st": _new([2, 3], [1, 2, 3, 4, 5, 6], [0, 1, 0, 1, 0, 1]), "se": None},
                          {"op": "add", "sig": s(0), "a": _new([2], [1, 2], [3, 4])}, {"op": "add", "sig": s(1), "a": {"sc": [True, 0, 1]}},
                          {"op": "add", "sig": b0, "a": {"held": [0, "state"]}}, {"op": "reset", "sig": s(0), "ka": None}]}))
    # errors with side effects: scalar state sliced, complex into real through a slice, shape mismatch
    cases.append(("malformed", {"slices": [{"p": b0, "k": "basic", "sl": [0, 2, None]}, {"p": {"b": 1}, "k": "basic", "sl": [0, 2, None]},
                                          {"p": {"b": 1}, "k": "int", "sl": [0, 7]}],
                  "ops": [{"op": "new_signal", "st": {"sc": [False, 5, 0]}, "se": None}, sig5,
                          {"op": "add", "sig": s(0), "a": {"sc": [False, 1, 0]}}, {"op": "add", "sig": s(1), "a": {"sc": [True, 1, 1]}},
                          {"op": "add", "sig": s(1), "a": _new([3], [1, 2, 3])}, {"op": "add", "sig": s(2), "a": {"sc": [False, 1, 0]}},
                          {"op": "set_state", "sig": s(1), "a": None}, {"op": "set_state", "sig": s(1), "a": _new([2], [1, 2], [5, 5])},
                          {"op": "reset", "sig": b0, "ka": True}, {"op": "add", "sig": {"b": 1}, "a": {"sc": [True, 0, 1]}}]}))
    # keep_alloc from the constructor; scalars; scalar + array
    cases.append(("free", {"slices": [], "ops": [{"op": "new_signal", "st": _new([2], [1, 2]), "se": _new([2], [5, 6])},
                  {"op": "new_signal", "st": {"sc": [False, 3, 0]}, "se": None},
                  {"op": "add", "sig": b0, "a": {"ext": 1}}, {"op": "reset", "sig": b0, "ka": None, "noarg": True},
                  {"op": "add", "sig": {"b": 1}, "a": {"sc": [False, 2, 0]}}, {"op": "add", "sig": {"b": 1}, "a": {"sc": [True, 2, 1]}},
                  {"op": "add", "sig": {"b": 1}, "a": {"ext": 0}}, {"op": "reset", "sig": {"b": 1}, "ka": True},
                  {"op": "set_sens", "sig": {"b": 1}, "a": {"ext": 0}}, {"op": "add", "sig": {"b": 1}, "a": {"ext": 0}},
                  {"op": "set_sens", "sig": {"b": 1}, "a": {"sc": [True, 1, 1]}}, {"op": "reset", "sig": {"b": 1}, "ka": True}]}))
    # mixed tuples: slice before an integer array (numpy's copy has a non-None `.base`), integer + array, array + slice,
    # non-adjacent advanced indices on a 3-D base (array dimension moves to the front)
    cases.append(("owned", {"slices": [{"p": b0, "k": "mixed", "sl": [[None, None, None], {"a": [2, 0]}]},
                                      {"p": b0, "k": "mixed", "sl": [1, {"a": [1]}]},
                                      {"p": b0, "k": "mixed", "sl": [{"a": [-1]}, [1, 3, None]]},
                                      {"p": {"b": 1}, "k": "mixed", "sl": [0, [None, None, None], {"a": [3, 1]}]},
                                      {"p": {"b": 1}, "k": "mixed", "sl": [[None, None, None], [1, 3, None], {"a": [0]}]},
                                      {"p": {"b": 1}, "k": "mixed", "sl": [1, [None, None, -1]]}],
                  "ops": [{"op": "new_signal", "st": _new([2, 3], [1, 2, 3, 4, 5, 6]), "se": None},
                          {"op": "new_signal", "st": _new([2, 3, 4], list(range(24))), "se": None},
                          {"op": "add", "sig": s(0), "a": _new([2, 2], [10, 20, 30, 40])},
                          {"op": "add", "sig": s(1), "a": {"sc": [False, 5, 0]}},
                          {"op": "add", "sig": s(2), "a": _new([1, 2], [7, 8])},
                          {"op": "set_state", "sig": s(0), "a": {"sc": [False, -1, 0]}},
                          {"op": "add", "sig": s(3), "a": _new([2, 3], [1, 2, 3, 4, 5, 6])},
                          {"op": "add", "sig": s(4), "a": _new([2, 2, 1], [1, 2, 3, 4])},
                          {"op": "add", "sig": s(5), "a": _new([3, 4], list(range(12)))},
                          {"op": "set_sens", "sig": s(3), "a": _new([2, 3], [9, 9, 9, 8, 8, 8])},
                          {"op": "reset", "sig": s(0), "ka": None}, {"op": "reset", "sig": s(4), "ka": None}]}))
    # nested basic slices whose inner stop / start overshoot the outer extent: x[2:5][1:4] is entries 3, 4; x[3:6][5:9] is empty
    x10 = {"op": "new_signal", "st": _new([10], list(range(10))), "se": None}
    cases.append(("owned", {"slices": [{"p": b0, "k": "basic", "sl": [2, 5, None]}, {"p": s(0), "k": "basic", "sl": [1, 4, None]},
                                      {"p": b0, "k": "basic", "sl": [3, 6, None]}, {"p": s(2), "k": "basic", "sl": [5, 9, None]},
                                      {"p": b0, "k": "basic", "sl": [1, 8, 2]}, {"p": s(4), "k": "basic", "sl": [1, 9, 2]},
                                      {"p": s(1), "k": "basic", "sl": [None, 7, None]}],
                  "ops": [x10, {"op": "add", "sig": s(1), "a": {"sc": [False, 1, 0]}}, {"op": "add", "sig": s(3), "a": {"sc": [False, 5, 0]}},
                          {"op": "add", "sig": s(5), "a": _new([2], [10, 20])}, {"op": "set_state", "sig": s(1), "a": {"sc": [False, -1, 0]}},
                          {"op": "set_state", "sig": s(6), "a": _new([2], [7, 8])}, {"op": "set_sens", "sig": s(5), "a": {"sc": [False, 3, 0]}},
                          {"op": "add", "sig": b0, "a": {"sc": [False, 100, 0]}}, {"op": "reset", "sig": s(1), "ka": None},
                          {"op": "reset", "sig": s(5), "ka": None}, {"op": "reset", "sig": s(3), "ka": None}]}))
    # index arrays handed over as Python lists: x[[1, 3]], x[[0, 2], :], x[:, [2, 0]]
    cases.append(("owned", {"slices": [{"p": b0, "k": "int", "sl": [1, 3], "lst": True},
                                      {"p": {"b": 1}, "k": "mixed", "sl": [{"a": [0, 2]}, [None, None, None]], "lst": True},
                                      {"p": {"b": 1}, "k": "mixed", "sl": [[None, None, None], {"a": [1, 0]}], "lst": True},
                                      {"p": {"b": 1}, "k": "mixed", "sl": [{"a": [2, 0]}, [None, None, None]]}],
                  "ops": [x10, {"op": "new_signal", "st": _new([3, 2], [1, 2, 3, 4, 5, 6]), "se": None},
                          {"op": "add", "sig": s(0), "a": _new([2], [5, 6])}, {"op": "add", "sig": s(1), "a": _new([2, 2], [1, 2, 3, 4])},
                          {"op": "add", "sig": s(2), "a": {"sc": [False, 10, 0]}}, {"op": "add", "sig": s(3), "a": _new([2], [7, 9])},
                          {"op": "set_state", "sig": s(0), "a": {"sc": [False, 0, 0]}}, {"op": "reset", "sig": s(1), "ka": None}]}))
    # rank-0 ndarrays are mutable objects: first add must copy; caller mutation, same object to two signals, keep-alloc reset
    cases.append(("owned", {"slices": [{"p": b0, "k": "tuple", "sl": []}],
                  "ops": [{"op": "new_signal", "st": _new([], [3]), "se": None}, {"op": "new_signal", "st": None, "se": None},
                          {"op": "add", "sig": b0, "a": _new([], [2])}, {"op": "add", "sig": {"b": 1}, "a": {"ext": 1}},
                          {"op": "mutate", "a": {"ext": 1}, "k": 5}, {"op": "add", "sig": b0, "a": {"ext": 1}},
                          {"op": "add", "sig": {"b": 1}, "a": _new([], [1], [1])}, {"op": "reset", "sig": b0, "ka": True},
                          {"op": "add", "sig": b0, "a": {"sc": [False, 4, 0]}}, {"op": "reset", "sig": {"b": 1}, "ka": None},
                          {"op": "add", "sig": {"b": 1}, "a": {"sc": [False, 4, 0]}}, {"op": "add", "sig": {"b": 1}, "a": {"ext": 0}},
                          {"op": "add", "sig": s(0), "a": {"sc": [False, 1, 0]}}]}))
    # the SAME slice objects used again after somebody else replaced / dropped the base's sensitivity array (base reset + base add,
    # direct assignment on the base, another slice re-creating the zero array first): every add goes to the CURRENT array
    sl_a, sl_b = {"p": b0, "k": "basic", "sl": [0, 3, None]}, {"p": b0, "k": "basic", "sl": [5, 9, 2]}
    sl_n = {"p": s(0), "k": "basic", "sl": [1, None, None]}
    cases.append(("owned", {"slices": [sl_a, sl_b, sl_n],
                  "ops": [x10, {"op": "add", "sig": s(0), "a": _new([3], [1, 2, 3])}, {"op": "add", "sig": s(1), "a": {"sc": [False, 4, 0]}},
                          {"op": "reset", "sig": b0, "ka": None}, {"op": "add", "sig": b0, "a": _new([10], list(range(10, 20)))},
                          {"op": "add", "sig": s(0), "a": _new([3], [100, 200, 300])}, {"op": "add", "sig": s(2), "a": {"sc": [False, 7, 0]}},
                          {"op": "set_sens", "sig": b0, "a": _new([10], [1] * 10)}, {"op": "add", "sig": s(1), "a": _new([2], [50, 60])},
                          {"op": "add", "sig": s(0), "a": {"sc": [False, 1000, 0]}}, {"op": "reset", "sig": b0, "ka": None},
                          {"op": "add", "sig": s(1), "a": {"sc": [False, 2, 0]}}, {"op": "add", "sig": s(0), "a": _new([3], [5, 6, 7])},
                          {"op": "add", "sig": s(2), "a": _new([2], [8, 9])}]}))
    cases.append(("owned", {"slices": [{"p": b0, "k": "tuple", "sl": [[None, None, None], [0, 2, None]]}, {"p": b0, "k": "tuple", "sl": [[1, None, None]]},
                                      {"p": s(0), "k": "tuple", "sl": [[0, 1, None]]}],
                  "ops": [{"op": "new_signal", "st": _new([2, 3], [1, 2, 3, 4, 5, 6], [0, 1, 0, 1, 0, 1]), "se": None},
                          {"op": "add", "sig": s(0), "a": _new([2, 2], [1, 2, 3, 4], [1, 1, 1, 1])}, {"op": "add", "sig": s(2), "a": {"sc": [True, 0, 1]}},
                          {"op": "set_sens", "sig": b0, "a": _new([2, 3], [9, 8, 7, 6, 5, 4], [0, 0, 0, 0, 0, 0])},
                          {"op": "add", "sig": s(0), "a": {"sc": [True, 1, 1]}}, {"op": "add", "sig": s(1), "a": _new([3], [1, 1, 1], [2, 2, 2])},
                          {"op": "reset", "sig": b0, "ka": None}, {"op": "add", "sig": s(2), "a": {"sc": [False, 3, 0]}},
                          {"op": "add", "sig": s(0), "a": _new([2, 2], [1, 0, 0, 1], [0, 0, 0, 0])}]}))
    # a sensitivity held in Fortran order (the first add deep-copies the layout of the argument): keep-alloc reset must zero it
    fnew = lambda shape, re: {"new": {"c": False, "shape": shape, "re": re, "F": True}}   # noqa
    cases.append(("owned", {"slices": [{"p": b0, "k": "tuple", "sl": [[None, None, None], [1, None, None]]}],
                  "ops": [{"op": "new_signal", "st": _new([2, 3], [1, 2, 3, 4, 5, 6]), "se": None},
                          {"op": "add", "sig": b0, "a": fnew([2, 3], [1, 2, 3, 4, 5, 6])}, {"op": "reset", "sig": b0, "ka": True},
                          {"op": "add", "sig": b0, "a": fnew([2, 3], [10, 20, 30, 40, 50, 60])}, {"op": "add", "sig": s(0), "a": {"sc": [False, 1, 0]}},
                          {"op": "reset", "sig": b0, "ka": True}, {"op": "add", "sig": b0, "a": _new([2, 3], [7, 7, 7, 7, 7, 7])},
                          {"op": "set_sens", "sig": b0, "a": fnew([2, 3], [1, 0, 0, 0, 1, 0])}, {"op": "reset", "sig": b0, "ka": True},
                          {"op": "add", "sig": b0, "a": {"sc": [False, 2, 0]}}]}))
    # a slice assigned from the signal's OWN state seen through another view (reversal / shift inside one array): numpy copies first
    cases.append(("owned", {"slices": [{"p": b0, "k": "basic", "sl": [None, None, -1]}, {"p": b0, "k": "basic", "sl": [1, 5, None]},
                                      {"p": b0, "k": "basic", "sl": [0, 4, None]}],
                  "ops": [sig5, {"op": "set_state", "sig": s(0), "a": {"held": [0, "state"]}},
                          {"op": "add", "sig": b0, "a": _new([5], [1, 1, 1, 1, 1])}, {"op": "set_sens", "sig": s(0), "a": {"held": [0, "sens"]}}]}))
    return [(st, {"m": "c18.run", **c}) for st, c in cases]


# ------------------------------------------------------------------------------------------------
# correspondence
# ------------------------------------------------------------------------------------------------
def _first_diff(a, b):
    if len(a) != len(b):
        return f"number of observations {len(a)} != {len(b)}"
    for k, (x, y) in enumerate(zip(a, b)):
        if x != y:
            for f in ("err", "sigs", "slices", "exts", "ident"):
                if x.get(f) != y.get(f):
                    return f"op {k}: field {f}: impl={json.dumps(x.get(f))[:300]} model={json.dumps(y.get(f))[:300]}"
    return ""


def compare_case(ctx, stream, cid, req, obs, res):
    if "ok" not in res:
        ctx.disagree(stream, req, [o["err"] for o in obs], res, "model error")
        return False
    mo = res["ok"]
    if len(mo) != len(obs):
        ctx.disagree(stream, req, len(obs), len(mo), "number of observations")
        return False
    for k, (x, y) in enumerate(zip(obs, mo)):
        ctx.mode("E")
        if x == y:
            ctx.agree((stream, cid, k))
        else:
            ctx.disagree(stream, {**req, "ops": req["ops"][:k + 1]}, x, y, _first_diff(obs[:k + 1], mo[:k + 1]))
            return False
    return True


def sel_cases(ctx):
    rng = ctx.rng
    out = []
    N = 3 if ctx.quick else 5
    vals = [None] + list(range(-N - 2, N + 3))
    steps = [None, 1, 2, 3, -1, -2, -3, 0]
    full = [(n, a, b, c) for n in range(0, N + 1) for a in vals for b in vals for c in steps]
    if ctx.quick:
        full = rng.sample(full, 600)
    for n, a, b, c in full:
        out.append({"m": "c18.sel", "shape": [n], "k": "basic", "sl": [a, b, c]})
    for _ in range(100 if ctx.quick else 1500):
        shape = [rng.randint(0, 4) for _ in range(rng.choice([2, 2, 3]))]
        sp = rand_spec(rng, [max(1, d) for d in shape], rng.random() < 0.2)
        out.append({"m": "c18.sel", "shape": shape, **sp})
    for _ in range(200 if ctx.quick else 3000):            # mixed tuples: where does the array dimension land, C-order of positions
        shape = [rng.randint(1, 4) for _ in range(rng.choice([1, 2, 2, 3, 3]))]
        out.append({"m": "c18.sel", "shape": shape, **rand_mixed(rng, shape, rng.random() < 0.15)})
    return out


def impl_sel(c):
    n = int(np.prod(c["shape"]))
    a = np.arange(n, dtype=np.int64).reshape(c["shape"])
    try:
        v = a[py_spec(c)]
    except Exception as e:  # noqa
        return {"err": errname(e)}
    return {"pos": [int(x) for x in v.reshape(-1)], "shape": list(v.shape)}



# ----------------------------------------------------------------------------------------------------------------
# object-valued sensitivities (DyadCarrier = sparse-matrix sensitivity type, and a user container with __iadd__):
# the no-aliasing and accumulation clauses of C18 checked against the dense / list semantics on the real code
# ----------------------------------------------------------------------------------------------------------------
class _Bag:
    """a user sensitivity type holding a nested mutable container; `+=` mutates in place (as DyadCarrier does)"""
    def __init__(self, items):
        self.items = [list(i) for i in items]

    def __iadd__(self, other):
        self.items.extend([list(i) for i in other.items])
        return self

    def total(self):
        return sorted(tuple(i) for i in self.items)


def object_alias_cases(ctx, n):
    pm = _pm()
    import numpy as _np
    from pymoto import DyadCarrier
    rng = ctx.rng
    for t in range(n):
        kind = "dyad" if t % 2 == 0 else "bag"
        nsig = rng.randint(2, 3)
        sigs = [pm.Signal(f"s{i}") for i in range(nsig)]
        if kind == "dyad":
            sh = (rng.randint(1, 4), rng.randint(1, 4))

            def newv():
                k = rng.randint(1, 2)
                return DyadCarrier([_np.array([rng.randint(-3, 3) for _ in range(sh[0])], dtype=float) for _ in range(k)],
                                   [_np.array([rng.randint(-3, 3) for _ in range(sh[1])], dtype=float) for _ in range(k)], shape=sh)

            def val(v):
                return None if v is None else v.todense().tolist()

            def zero():
                return _np.zeros(sh).tolist()

            def addv(a, b):
                return (_np.array(a) + _np.array(b)).tolist()
        else:
            def newv():
                return _Bag([[rng.randint(-3, 3) for _ in range(rng.randint(1, 3))] for _ in range(rng.randint(1, 2))])

            def val(v):
                return None if v is None else v.total()

            def zero():
                return []

            def addv(a, b):
                return sorted(list(a) + list(b))
        expect = [None] * nsig
        objs = [newv() for _ in range(3)]
        oexp = [val(o) for o in objs]
        ops = []
        ok = True
        for step in range(rng.randint(3, 8)):
            i = rng.randrange(nsig)
            j = rng.randrange(len(objs))
            r = rng.random()
            if r < 0.7:
                ops.append(("add", i, j))
                sigs[i].add_sensitivity(objs[j])
                expect[i] = oexp[j] if expect[i] is None else addv(expect[i], oexp[j])
            elif r < 0.85:
                ops.append(("reset", i))
                sigs[i].reset()
                expect[i] = None
            else:
                ops.append(("mutate-arg", j))   # the caller changes the object it handed over earlier
                extra = newv()
                objs[j] += extra
                oexp[j] = addv(oexp[j], val(extra))
            got = [val(sg.sensitivity) for sg in sigs]
            gobj = [val(o) for o in objs]
            if got != expect or gobj != oexp:
                ctx.oracle_fail(f"add_sensitivity with a {kind}-valued sensitivity aliases its argument or another signal: after {ops} the "
                                f"signals hold {got} (expected {expect}), the caller's objects {gobj} (expected {oexp})",
                                {"stream": "object-alias", "kind": kind, "ops": ops})
                ok = False
                break
        ctx.evaluations += 1
        ctx.branch("object-alias." + kind)
        if ok:
            ctx.distinct.add(("object-alias", kind, str(ops)))


# ----------------------------------------------------------------------------------------------------------------
# dtype histories on plain signals (oracle-level stream: the Lean model carries int64 / complex128 only)
# ----------------------------------------------------------------------------------------------------------------
DTYPES = [np.int64, np.float32, np.float64, np.complex64, np.complex128]


def _dt_enc(v):
    """(kind, dtype, shape, values) with exact values"""
    if v is None:
        return None
    if isinstance(v, np.ndarray):
        return ["arr", str(v.dtype), list(v.shape), [float(complex(x).real) for x in v.reshape(-1)],
                [float(complex(x).imag) for x in v.reshape(-1)]]
    return ["sc", type(v).__name__, float(complex(v).real), float(complex(v).imag)]


def _dt_dec(e):
    if e is None:
        return None
    if e[0] == "arr":
        a = np.array(e[3]) + 1j * np.array(e[4])
        dt = np.dtype(e[1])
        return (a if dt.kind == "c" else a.real).astype(dt).reshape(e[2]).copy()
    x = complex(e[2], e[3])
    return {"int": lambda: int(x.real), "float": lambda: float(x.real), "complex": lambda: x}[e[1]]()


def _dt_value(rng, shape):
    """a value (encoded) whose entries are multiples of 1/4 (exact in every float type; integers for int64)"""
    r = rng.random()
    if r < 0.15:
        k = rng.random()
        if k < 0.34:
            return ["sc", "int", float(rng.randint(-5, 5)), 0.0]
        if k < 0.67:
            return ["sc", "float", rng.randint(-20, 20) / 4, 0.0]
        return ["sc", "complex", rng.randint(-20, 20) / 4, rng.randint(-20, 20) / 4]
    dt = rng.choice(DTYPES)
    n = int(np.prod(shape))
    if dt is np.int64:
        return ["arr", "int64", list(shape), [float(rng.randint(-9, 9)) for _ in range(n)], [0.0] * n]
    cplx = dt in (np.complex64, np.complex128)
    return ["arr", str(np.dtype(dt)), list(shape), [rng.randint(-40, 40) / 4 for _ in range(n)],
            [rng.randint(-40, 40) / 4 if cplx else 0.0 for _ in range(n)]]


def run_dtype_log(log):
    """execute a plain-signal history on real Signals next to the pure-numpy accumulation spec
    (`acc = deepcopy(ds)` at the first add after None, numpy's own `+=` afterwards incl. its casting errors,
    `acc[...] = 0` for kept allocation); returns a description of the first difference or None"""
    import copy as _copy
    pm = _pm()
    sigs, acc, keep = [], [], []
    for k, ent in enumerate(log):
        gerr = werr = None
        with warnings.catch_warnings():
            warnings.simplefilter("ignore")
            if ent[0] == "new":
                se = _dt_dec(ent[2])
                sigs.append(pm.Signal(f"d{len(sigs)}", state=_dt_dec(ent[1]), sensitivity=se))
                acc.append(_copy.deepcopy(se))
                keep.append(se is not None)
            elif ent[0] == "add":
                i, v = ent[1], _dt_dec(ent[2])
                vcopy = _copy.deepcopy(v)
                try:
                    sigs[i].add_sensitivity(v)
                except Exception as e:  # noqa
                    gerr = errname(e)
                try:                              # the specification, on its own objects
                    if acc[i] is None:
                        acc[i] = _copy.deepcopy(vcopy)
                    else:
                        a = acc[i]
                        a += vcopy
                        acc[i] = a
                except Exception as e:  # noqa
                    werr = errname(e)
                if isinstance(v, np.ndarray):
                    if _dt_enc(v) != _dt_enc(vcopy):
                        return f"step {k}: add_sensitivity changed its argument to {_dt_enc(v)}"
                    v += 1                        # the caller changes its array afterwards
            elif ent[0] == "reset":
                i, ka = ent[1], ent[2]
                try:
                    sigs[i].reset() if ka is None else sigs[i].reset(ka)
                except Exception as e:  # noqa
                    gerr = errname(e)
                if acc[i] is not None:
                    if keep[i] if ka is None else ka:
                        if isinstance(acc[i], np.ndarray):
                            acc[i][...] = 0
                        else:
                            acc[i] = acc[i] * 0
                    else:
                        acc[i] = None
            elif ent[0] == "set_state":
                sigs[ent[1]].state = _dt_dec(ent[2])
        got = [_dt_enc(sg.sensitivity) for sg in sigs]
        want = [_dt_enc(a) for a in acc]
        if got != want or gerr != werr:
            return (f"plain-signal history, step {k} {ent[0]}: sensitivities are {got} (error {gerr}) but plain numpy "
                    f"accumulation gives {want} (error {werr})")
    return None


def gen_dtype_log(ctx):
    rng = ctx.rng
    nsig = rng.randint(1, 2)
    shape = rand_shape(rng, False, 0.2)
    log = [["new", _dt_value(rng, shape), _dt_value(rng, shape) if rng.random() < 0.2 else None] for _ in range(nsig)]
    for _ in range(rng.randint(3, 10 if ctx.quick else 16)):
        i = rng.randrange(nsig)
        r = rng.random()
        if r < 0.62:
            log.append(["add", i, _dt_value(rng, shape if rng.random() < 0.93 else rand_shape(rng, False))])
        elif r < 0.92:
            log.append(["reset", i, rng.choice([None, None, True, False])])
        else:
            log.append(["set_state", i, _dt_value(rng, shape)])
    return log


def dtype_history_cases(ctx, n):
    """oracle-level stream: dtype variety on plain signals (the Lean model carries int64 / complex128 only)"""
    for t in range(n):
        log = gen_dtype_log(ctx)
        why = run_dtype_log(log)
        ctx.evaluations += 1
        ctx.mode("E")
        ctx.branch("dtype-history")
        if why:
            for m in range(1, len(log) + 1):                  # shortest failing prefix
                w2 = run_dtype_log(log[:m])
                if w2:
                    why, log = w2, log[:m]
                    break
            ctx.oracle_fail(why, {"stream": "dtype", "log": log})
        else:
            ctx.distinct.add(("dtype", json.dumps(log)))


def correspondence(ctx):
    # ---- index sets --------------------------------------------------------------------------------
    cases = sel_cases(ctx)
    res = ctx.model(cases)
    for c, m in zip(cases, res):
        i = impl_sel(c)
        ctx.branch("sel." + c["k"] + (".err" if "err" in i else ""))
        if "ok" not in m:
            ctx.disagree("sel", c, i, m, "model error")
        else:
            ctx.compare_exact("sel", c, i, m["ok"], nontrivial="err" not in i and len(i["pos"]) > 0)
    # ---- operation sequences ----------------------------------------------------------------------------
    maxops = 12 if ctx.quick else 40
    n = {"owned": 150, "free": 90, "malformed": 60} if ctx.quick else {"owned": 1400, "free": 900, "malformed": 500}
    batch = [(st, req) + tuple(run_case(req, st == "owned")) for st, req in fixed_cases()]
    with fast_init_loc():
        for stream, cnt in n.items():
            for _ in range(cnt):
                req, obs, im = gen_case(ctx, stream, maxops)
                batch.append((stream, req, obs, im.oracle_msgs, im.stats))
    res = ctx.model([b[1] for b in batch])
    tot = {"spec_checked": 0, "spec_undefined": 0, "local_checked": 0}
    for cid, ((stream, req, obs, msgs, stats), r) in enumerate(zip(batch, res)):
        compare_case(ctx, stream, cid, req, obs, r)
        for k in tot:
            tot[k] += stats[k]
        ctx.branch("case." + stream)
        for op, o in zip(req["ops"], obs):
            tgt = "" if "sig" not in op else (".plain" if "b" in op["sig"] else "." + req["slices"][op["sig"]["s"]]["k"]
                                              + (".nested" if "s" in req["slices"][op["sig"]["s"]]["p"] else ""))
            ctx.branch("op." + op["op"] + tgt + (".err:" + o["err"] if o["err"] else ""))
        if msgs:
            wreq, wmsg = req, msgs[0]
            for m in range(1, len(req["ops"])):               # shortest failing prefix
                _, pm_, _ = run_case({**req, "ops": req["ops"][:m]}, stream == "owned")
                if pm_:
                    wreq, wmsg = {**req, "ops": req["ops"][:m]}, pm_[0]
                    break
            ctx.oracle_fail(wmsg, {"stream": stream, "request": wreq})
    object_alias_cases(ctx, 60 if ctx.quick else 1500)
    with fast_init_loc():
        dtype_history_cases(ctx, 150 if ctx.quick else 3000)
    ctx.notes.append(f"oracle: {tot}")
    if batch:
        ctx.sample({"request": batch[1][1], "last_observation": batch[1][2][-1]})
        ctx.sample({"request": batch[len(batch) // 2][1], "errors": [o["err"] for o in batch[len(batch) // 2][2]]})


def search(ctx, disagreements):
    found = []
    for d in disagreements:
        c = d.get("case") or {}
        if c.get("m") != "c18.run":
            continue
        for n in range(1, len(c["ops"]) + 1):           # shortest failing prefix
            _, msgs, _ = run_case({**c, "ops": c["ops"][:n]}, d.get("stream") == "owned")
            if msgs:
                found.append({"what": msgs[0], "witness": {"stream": d.get("stream"), "request": {**c, "ops": c["ops"][:n]}}})
                break
        if len(found) >= 3:
            break
    if not found:
        for _ in range(300):
            req, obs, im = gen_case(ctx, "owned", 12)
            if im.oracle_msgs:
                found.append({"what": im.oracle_msgs[0], "witness": {"stream": "owned", "request": req}})
                break
    found.sort(key=lambda w: len(json.dumps(w["witness"])))
    return found


def replay(ctx, data):
    w = data.get("witness", {})
    w = w.get("witness", w)
    if w.get("stream") == "dtype" and w.get("log"):
        why = run_dtype_log(w["log"])
        return {"still_failing": bool(why), "what": why}
    req = w.get("request")
    if not req:
        return {"still_failing": False, "note": "replay file names no failing input (see no_longer_checks)"}
    _, msgs, _ = run_case(req, w.get("stream") == "owned")
    return {"still_failing": bool(msgs), "what": msgs[:3]}
