"""C19 — finite_difference is a faithful and non-destructive derivative check (pymoto/routines.py:23-285).

correspondence: small networks of harness-defined `pymoto.Module` subclasses (`FDMod`: the C02 kinds lin/mul/dot/sq/fan/cat on
    float64 / complex128 data with dyadic values, array / matrix / 0-d / Python-scalar / sparse-matrix inputs, sparse-matrix outputs, modules
    with a deliberately WRONG `_sensitivity`) are handed to the real `pymoto.finite_difference` with dx = 2^-k, random
    fromsig / tosig, relative_dx, keep_zero_structure, use_df / ones / `np.random.rand` (replaced inside the harness process
    by a recording dyadic generator); the tuples passed to `test_fn` (in order) and ALL signal states / sensitivities after
    the call are compared EXACTLY with the Lean model `Core/FD.lean` (driver op c19.fd, exact rationals).
oracle / search (on the real code, independent of the Lean model): an exact rational evaluator of the spec gives the
    polynomial G(t) = sum_o w_o f_o(x + t e) of every (input entry, output) pair; the reported analytical value must equal
    the sensitivity back-propagated by a fresh copy of the real network for the seed used (and G'(0) for a correct module),
    the numerical value must equal G'(0) exactly for affine paths, G'(0) + dx*c for quadratic ones (c independent of dx) and
    lie within dx*sum|c_k| in general; a wrong module must be reported with a non-matching pair, a correct one with a
    matching pair; every entry (or every non-zero entry) is visited, complex ones in both directions; afterwards every
    input state is bitwise what it was and every sensitivity of the examined sub-network is None (or zero when the signal
    keeps its allocation).
"""
import contextlib
import copy
import io
import json
import random as _random
import warnings
from fractions import Fraction

import numpy as np

from ..common import call_impl, q

RULE = ("networks of 1-5 FDMod modules (kinds lin/mul/dot/sq/fan/cat; outputs handed out as views, fresh arrays, a reused preallocated "
        "buffer (same object every call), a view of a reused internal buffer, or written into caller-owned containers through slice "
        "outputs; modules optionally keeping a reference to their input arrays; input states optionally views of larger arrays; "
        "optional nesting, basic-slice inputs, slice outputs into "
        "containers, sparse-matrix terminal outputs, wrong-sensitivity variants of lin/sq/cat), real or complex dyadic data, "
        "inputs 1-D / matrix / 0-d / Python scalar with zero entries, plain Module or Network, fromsig/tosig None or random subsets "
        "(sources, intermediates), dx=2^-k, relative_dx, keep_zero_structure, seeds use_df/ones/recorded rand, stale sensitivities, "
        "keep_alloc inputs; plus a malformed stream (no overlapping module, None states). distinct = distinct specs; non-trivial = at "
        "least one test_fn call or an error class compared")
ASSUMPTIONS = [
    "module semantics are those of the harness-defined FDMod kinds (exact polynomial maps with coded adjoints; a wrong module runs the "
    "adjoint of another kind / matrix)",
    "dense input states are C-contiguous float64/complex128 arrays, 0-d arrays or Python scalars (np.nditer visits non-contiguous views "
    "in memory order; integer dtypes cannot be perturbed in place); sparse-matrix inputs are csr / csc / coo without duplicate entries "
    "(other formats: TypeError, compared as an error class); FD inputs are plain Signals, basic-slice or integer-array SignalSlices "
    "(distinct indices)",
    "an FD input that the selected sub-network itself overwrites is not an independent variable: such calls are kept out of the stream. "
    "With the DEFAULT fromsig this happens by itself when Network.sig_in contains a SignalSlice of an internally produced signal (open "
    "finding fd-default-input-is-slice-of-internal-signal); a fromsig used only inside a nested Network is invisible to the selection "
    "(open finding fd-fromsig-inside-nested-network). A few cases of both classes are judged by the oracle, tagged with the finding key",
    "all data are dyadic and sized so that every float operation of the implementation is exact; cases whose exact results need more "
    "than 50 bits are skipped as boundary",
    "a whole spec is real or complex (no mixed dtypes inside one network)",
]

KEY_SLICE = "fd-default-input-is-slice-of-internal-signal"
KEY_NESTED = "fd-fromsig-inside-nested-network"

BITS = 50


def _pm():
    import pymoto
    return pymoto


# ------------------------------------------------------------------------------------------------------------------
# harness-defined module
# ------------------------------------------------------------------------------------------------------------------
_FDMOD = None


def fdmod_class():
    global _FDMOD
    if _FDMOD is not None:
        return _FDMOD
    pm = _pm()
    import scipy.sparse as sp

    def kind_f(k, x, A, kk):
        n = x.size
        h = n // 2
        if k == "lin":
            return A @ x if (n and A.shape[0]) else np.zeros(A.shape[0], dtype=np.result_type(A, x))
        if k == "mul":
            return x[:h] * x[h:]
        if k == "dot":
            return np.array([np.sum(x[:h] * x[h:])])
        if k == "sq":
            return x * x
        if k == "fan":
            return np.tile(x, kk)
        if k == "cat":
            return x.copy()
        raise RuntimeError(k)

    def kind_adj(k, x, w, A, kk):
        n = x.size
        h = n // 2
        if k == "lin":
            return A.T @ w if (n and A.shape[0]) else np.zeros(n, dtype=np.result_type(A, w))
        if k == "mul":
            return np.concatenate([x[h:] * w, x[:h] * w])
        if k == "dot":
            return np.concatenate([x[h:] * w[0], x[:h] * w[0]])
        if k == "sq":
            return x * w + x * w
        if k == "fan":
            return w.reshape(kk, n).sum(axis=0) if kk > 0 else np.zeros(n, dtype=w.dtype)
        if k == "cat":
            return w.copy()
        raise RuntimeError(k)

    class FDMod(pm.Module):
        def _prepare(self, kind, out_shapes, A=None, n=None, sparse=None, wrong=None, cx=False, store=None, keepref=False):
            # store[i]: how output i is handed out - "view" (a view of a temporary), "fresh" (a new array owning its data),
            # "buf" (written into a preallocated buffer, the SAME array object is returned on every call), "bufview" (a view of
            # an internal, larger buffer that is reused on every call);  keepref: the module keeps a reference to its input
            # arrays and reads them in _sensitivity (legal: they are the states it was called with)
            self.store = list(store) if store is not None else ["view"] * len(out_shapes)
            self.keepref = keepref
            self.last_inp = None
            self.buf = {}
            self.kind = kind
            self.out_shapes = [tuple(s) for s in out_shapes]
            self.out_sizes = [int(np.prod(s)) for s in self.out_shapes]
            self.dt = np.complex128 if cx else np.float64
            self.A = None if A is None else np.array(A, dtype=self.dt).reshape(len(A), -1)
            self.k = n
            self.sparse = list(sparse) if sparse is not None else [False] * len(out_shapes)
            self.wkind, self.wA, self.wk = kind, self.A, n
            if wrong is not None:
                self.wkind = wrong["k"]
                self.wA = None if wrong.get("A") is None else np.array(wrong["A"], dtype=self.dt).reshape(len(wrong["A"]), -1)
                self.wk = wrong.get("n")

        def _cat(self, arrs):
            arrs = [np.asarray(a.toarray() if sp.issparse(a) else a, dtype=self.dt).ravel() for a in arrs]
            return np.concatenate(arrs) if arrs else np.zeros(0, dtype=self.dt)

        def _response(self, *inp):
            if any(a is None for a in inp):
                raise TypeError("FDMod: input state is None")
            x = self._cat(inp)
            y = kind_f(self.kind, x, self.A, self.k)
            c = np.concatenate([[0], np.cumsum(self.out_sizes)]).astype(int)
            out = []
            if self.keepref:
                self.last_inp = list(inp)
            for i, shp in enumerate(self.out_shapes):
                v = y[c[i]:c[i + 1]].reshape(shp)
                mode = self.store[i]
                if self.sparse[i]:
                    out.append(sp.csr_matrix(v))          # re-created on every call
                elif mode == "fresh":
                    o = np.empty(shp, dtype=v.dtype)
                    o[...] = v
                    out.append(o)
                elif mode == "buf":
                    if i not in self.buf:
                        self.buf[i] = np.empty(shp, dtype=self.dt)
                    self.buf[i][...] = v
                    out.append(self.buf[i])
                elif mode == "bufview":
                    z = self.out_sizes[i]
                    if i not in self.buf:
                        self.buf[i] = np.zeros(z + 2, dtype=self.dt)
                    w = self.buf[i][1:1 + z]
                    w[...] = v.ravel()
                    out.append(w.reshape(shp))
                else:
                    out.append(v)
            return out

        def _sensitivity(self, *dy):
            inp = self.last_inp if (self.keepref and self.last_inp is not None) else [s.state for s in self.sig_in]
            if any(a is None for a in inp):
                raise TypeError("FDMod: input state is None")
            x = self._cat(inp)
            w = self._cat([np.zeros(z, dtype=self.dt) if d is None else d for d, z in zip(dy, self.out_sizes)])
            ds = kind_adj(self.wkind, x, w, self.wA, self.wk)
            sizes = [int(np.prod(a.shape)) if sp.issparse(a) else int(np.size(a)) for a in inp]
            c = np.concatenate([[0], np.cumsum(sizes)]).astype(int)
            out = []
            for i, a in enumerate(inp):
                v = ds[c[i]:c[i + 1]]
                out.append(v.reshape(a.shape) if (isinstance(a, np.ndarray) or sp.issparse(a)) else v[0])
            return out

    _FDMOD = FDMod
    return FDMod


# ------------------------------------------------------------------------------------------------------------------
# exact complex rationals (oracle evaluator)
# ------------------------------------------------------------------------------------------------------------------
class CF:
    __slots__ = ("re", "im")

    def __init__(self, re=0, im=0):
        self.re = Fraction(re)
        self.im = Fraction(im)

    def __add__(self, o):
        return CF(self.re + o.re, self.im + o.im)

    def __sub__(self, o):
        return CF(self.re - o.re, self.im - o.im)

    def __mul__(self, o):
        return CF(self.re * o.re - self.im * o.im, self.re * o.im + self.im * o.re)

    def scale(self, f):
        return CF(self.re * f, self.im * f)

    def __eq__(self, o):
        return self.re == o.re and self.im == o.im

    def absf(self):
        return float(abs(self.re) + abs(self.im))


def cf(v):
    """spec number ([re, im] floats or a float) -> CF"""
    if isinstance(v, (list, tuple)):
        return CF(Fraction(v[0]), Fraction(v[1]))
    return CF(Fraction(v), 0)


def enc(z):
    """complex/float/CF -> [q(re), q(im)] as the driver prints it"""
    if isinstance(z, CF):
        return [q(z.re), q(z.im)]
    z = complex(z)
    return [q(z.real), q(z.imag)]


def enc_arr(a):
    if a is None:
        return None
    if hasattr(a, "toarray"):
        a = a.toarray()
    return [enc(v) for v in np.asarray(a).ravel().tolist()]


# ------------------------------------------------------------------------------------------------------------------
# generator
# ------------------------------------------------------------------------------------------------------------------
def dy(rng, den=2, lo=-3, hi=3, nz=False):
    """a dyadic value k/den in [lo, hi]"""
    while True:
        v = rng.randint(lo * den, hi * den) / den
        if not nz or v != 0:
            return v


def num(rng, cx, zero_p=0.0, pow2=False):
    """[re, im] spec number"""
    if rng.random() < zero_p:
        return [0.0, 0.0]
    if pow2:   # |z| is a power of two (relative_dx must stay exact)
        m = rng.choice([0.5, 1.0, 2.0, 4.0]) * rng.choice([1, -1])
        if cx and rng.random() < 0.5:
            return [0.0, m]
        return [m, 0.0]
    return [dy(rng), dy(rng) if cx else 0.0]


class Gen:
    def __init__(self, rng, cx, rel, nmods):
        self.rng, self.cx, self.rel, self.nmods = rng, cx, rel, nmods
        self.bases, self.sigs, self.mods = [], [], []
        self.readable = []
        self.deg = {}
        self.writer = {}     # base -> module index (plain outputs / containers)
        self.consumed = set()

    def new_base(self, shape, state, keep=False, sens=None, sparse=False):
        n = 1 if shape == "py" else int(np.prod(shape))
        self.bases.append({"len": n, "shape": shape, "keep": keep, "cx": self.cx, "state": state, "sens": sens,
                           "sparse": sparse})
        return len(self.bases) - 1

    def sig(self, b, sl=None):
        for i, s in enumerate(self.sigs):
            if s["base"] == b and s["sl"] == sl:
                return i
        idx = None if sl is None else (list(sl[1]) if sl[0] == "arr" else list(range(sl[0], sl[1])))
        self.sigs.append({"base": b, "idx": idx, "sl": sl})
        return len(self.sigs) - 1

    def sig_len(self, sid):
        s = self.sigs[sid]
        return self.bases[s["base"]]["len"] if s["idx"] is None else len(s["idx"])

    def source(self, n=None):
        rng = self.rng
        r = rng.random()
        if n is not None:
            shape = [n]
        elif r < 0.5:
            shape = [rng.randint(1, 4)]
        elif r < 0.7:
            shape = [rng.randint(1, 2), rng.randint(1, 3)]
        elif r < 0.78:
            shape = []
        elif r < 0.88:
            shape = "py"
        else:
            shape = [rng.randint(1, 3), rng.randint(1, 3)]
        spfmt = None
        if n is None and r >= 0.88:
            spfmt = rng.choice(["csr", "csc", "coo"])
        ln = 1 if shape == "py" else int(np.prod(shape))
        st = [num(rng, self.cx, zero_p=0.25, pow2=self.rel) for _ in range(ln)]
        keep = rng.random() < 0.12 and shape != "py"
        sens = None
        if rng.random() < 0.12 and shape != "py":
            sens = [num(rng, self.cx) for _ in range(ln)]       # stale sensitivity
        b = self.new_base(shape, st, keep, sens)
        if shape != "py" and len(shape) >= 1 and not spfmt and rng.random() < 0.3:
            self.bases[b]["inview"] = [rng.randint(0, 2), rng.randint(0, 2)]     # state = view of a larger array (pad before/after)
        elif shape != "py" and len(shape) == 2 and not spfmt and min(shape) >= 2 and rng.random() < 0.5:
            self.bases[b]["lay"] = "F"       # Fortran-ordered array: finite_difference visits its entries in memory order
        if spfmt:
            # a sparse-matrix source: a non-empty set of stored positions (explicit zeros allowed), zero elsewhere
            pos = rng.sample(range(ln), rng.randint(1, ln))
            nc = shape[1]
            if spfmt == "csr":
                pos.sort()
            elif spfmt == "csc":
                pos.sort(key=lambda p_: (p_ % nc, p_ // nc))
            for e in range(ln):
                if e not in pos:
                    st[e] = [0.0, 0.0]
            self.bases[b]["spfmt"] = spfmt
            self.bases[b]["stored"] = pos
        self.readable.append(b)
        self.deg[b] = 1
        return b

    def pick_in(self, length=None, maxdeg=99):
        rng = self.rng
        cands = [b for b in self.readable if (length is None or self.bases[b]["len"] >= length) and self.deg[b] <= maxdeg
                 and not self.bases[b]["sparse"] and not (length is not None and self.bases[b].get("spfmt"))]
        if not cands or rng.random() < 0.2:
            b = self.source(length)
        else:
            fresh = [b for b in cands if b not in self.consumed]
            b = rng.choice(fresh) if fresh and rng.random() < 0.6 else rng.choice(cands)
        bd = self.bases[b]
        n = bd["len"]
        one_d = bd["shape"] != "py" and len(bd["shape"]) == 1
        if length is not None and length != n:
            if not one_d:
                return self.pick_in(length, maxdeg)
            if rng.random() < 0.3:
                sid = self.sig(b, ["arr", rng.sample(range(n), length)])      # integer-array slice (a copy)
            else:
                s0 = rng.randint(0, n - length)
                sid = self.sig(b, [s0, s0 + length])
        elif length is None and one_d and n >= 2 and rng.random() < 0.22:
            if rng.random() < 0.45:
                sid = self.sig(b, ["arr", rng.sample(range(n), rng.randint(1, n))])
            else:
                s0 = rng.randint(0, n - 1)
                s1 = rng.randint(s0 + 1, n)
                sid = self.sig(b, [s0, s1])
        else:
            sid = self.sig(b, None)
        self.consumed.add(b)
        return sid

    def add_module(self, last):
        rng = self.rng
        kind = rng.choice(["lin", "lin", "lin", "mul", "dot", "sq", "sq", "fan", "cat"])
        m = {"k": kind, "wrong": None}
        if kind in ("mul", "dot"):
            a = self.pick_in(None, maxdeg=2)
            la = self.sig_len(a)
            b = a if rng.random() < 0.2 else self.pick_in(la, maxdeg=4 - self.deg[self.sigs[a]["base"]])
            ins = [a, b]
            dg = self.deg[self.sigs[a]["base"]] + self.deg[self.sigs[b]["base"]]
            nout = la if kind == "mul" else 1
        elif kind == "sq":
            a = self.pick_in(None, maxdeg=2)
            ins = [a]
            dg = 2 * self.deg[self.sigs[a]["base"]]
            nout = self.sig_len(a)
        else:
            nin = {"lin": rng.choice([1, 1, 2]), "fan": 1, "cat": rng.choice([1, 2])}[kind]
            ins = [self.pick_in(None) for _ in range(nin)]
            n = sum(self.sig_len(s) for s in ins)
            dg = max(self.deg[self.sigs[s]["base"]] for s in ins)
            if kind == "lin":
                rows = rng.randint(1, 3)
                m["A"] = [[[float(rng.choice([0, 1, -1, 2, -2, 3])), float(rng.choice([0, 0, 1, -1])) if self.cx else 0.0]
                           for _ in range(n)] for _ in range(rows)]
                nout = rows
            elif kind == "fan":
                m["n"] = rng.choice([1, 2, 2, 3])
                nout = m["n"] * n
            else:
                nout = n
        if dg > 4:
            return self.add_module(last)
        # outputs
        if kind == "fan" and rng.random() < 0.7:
            sizes = [nout // m["n"]] * m["n"]
        elif kind == "cat" and nout >= 2 and rng.random() < 0.6:
            c = rng.randint(1, nout - 1)
            sizes = [c, nout - c]
        else:
            sizes = [nout]
        outs, shapes, sparse = [], [], []
        mi = len(self.mods)
        for z in sizes:
            r = rng.random()
            if r < 0.12 and z >= 2 and z % 2 == 0:
                shape = [2, z // 2]
            else:
                shape = [z]
            spm = False
            if last and rng.random() < 0.35:
                shape = [1, z] if len(shape) == 1 else shape
                spm = True
            room = None
            if not spm and len(shape) == 1 and rng.random() < 0.5:
                # a free stretch of a container that an EARLIER module already fills partly (one pre-allocated vector
                # assembled by several modules through slice outputs)
                for cb, free in getattr(self, "containers", {}).items():
                    starts = [a for a in range(len(free) - z + 1) if all(free[a:a + z])]
                    # (not once a module has READ the container: it would see the later writer's entries of the previous
                    # evaluation, the network would not be a function of its inputs any more)
                    if starts and cb not in self.consumed and cb not in [self.sigs[s_]["base"] for s_ in ins]:
                        room = (cb, rng.choice(starts))
                        break
            if room is not None:
                b, s0 = room
                for e in range(s0, s0 + z):
                    self.containers[b][e] = False
                sid = self.sig(b, [s0, s0 + z])
            elif not spm and r > 0.85 and len(shape) == 1:
                # slice of a fresh container (state pre-allocated)
                nn = z + rng.randint(1, 4)
                b = self.new_base([nn], [num(rng, self.cx, pow2=self.rel) for _ in range(nn)])
                s0 = rng.randint(0, nn - z)
                sid = self.sig(b, [s0, s0 + z])
                if not hasattr(self, "containers"):
                    self.containers = {}
                self.containers[b] = [not (s0 <= e < s0 + z) for e in range(nn)]
            else:
                b = self.new_base(shape, None, sparse=spm)
                sid = self.sig(b, None)
            self.writer[b] = mi
            self.deg[b] = max(dg, 1, self.deg.get(b, 1) if room is not None else 1)
            self.readable.append(b)
            outs.append(sid)
            shapes.append(shape)
            sparse.append(spm)
        m.update({"ins": ins, "outs": outs, "osz": sizes, "oshape": shapes, "sparse": sparse,
                  "store": [rng.choice(["view", "fresh", "buf", "buf", "bufview"]) for _ in sizes],
                  "keepref": rng.random() < 0.3})
        self.mods.append(m)

    def make_wrong(self):
        rng = self.rng
        cands = [m for m in self.mods if m["k"] in ("lin", "sq", "cat")]
        if not cands:
            return False
        m = rng.choice(cands)
        if m["k"] == "lin":
            A = copy.deepcopy(m["A"])
            r, c = rng.randrange(len(A)), rng.randrange(len(A[0]))
            A[r][c] = [A[r][c][0] + rng.choice([1.0, -1.0, 2.0]), A[r][c][1]]
            m["wrong"] = {"k": "lin", "A": A}
        elif m["k"] == "sq":
            m["wrong"] = {"k": "cat"}
        else:
            m["wrong"] = {"k": "sq"}
        return True

    def nest(self, items):
        rng = self.rng
        out, i = [], 0
        while i < len(items):
            if rng.random() < 0.25:
                ln = rng.randint(1, min(3, len(items) - i))
                out.append({"net": items[i:i + ln]})
                i += ln
            else:
                out.append(items[i])
                i += 1
        return out


def flat_mods(prog):
    out = []
    for it in prog:
        if "net" in it:
            out.extend(flat_mods(it["net"]))
        else:
            out.append(it)
    return out


def item_io(spec, it):
    """(bases of sig_in, bases of sig_out) of a top-level item, as `Network.append` computes them"""
    sg = spec["sigs"]
    if "net" not in it:
        return [sg[s]["base"] for s in it["ins"]], [sg[s]["base"] for s in it["outs"]]

    def sets(items):
        ai, ao = set(), set()
        for x in items:
            if "net" in x:
                i2, o2 = sets(x["net"])
                ai |= i2 - o2
                ao |= o2
            else:
                ai |= set(x["ins"])
                ao |= set(x["outs"])
        return ai, ao
    ai, ao = sets(it["net"])
    return [sg[s]["base"] for s in ai - ao], [sg[s]["base"] for s in ao]


def selection(spec, inps, outps):
    """(i_first, i_last) or None, from the spec alone"""
    sg = spec["sigs"]
    ib = {sg[s]["base"] for s in inps}
    ob = {sg[s]["base"] for s in outps}
    fi, la = -1, -1
    for i, it in enumerate(spec["prog"]):
        a, b = item_io(spec, it)
        if fi < 0 and ib & set(a):
            fi = i
        if ob & set(b):
            la = i
    return fi, la


def make_case(rng, quick, stream="main"):
    cx = rng.random() < 0.35
    rel = rng.random() < 0.3
    single = stream == "module" or (stream == "main" and rng.random() < 0.2)
    nm = 1 if single else rng.randint(1, 4 if quick else 5)
    g = Gen(rng, cx, rel, nm)
    for _ in range(rng.randint(1, 2)):
        g.source()
    for i in range(nm):
        g.add_module(last=(i == nm - 1))
    wrong = rng.random() < 0.35 and g.make_wrong()
    prog = list(g.mods) if single else g.nest(list(g.mods))
    spec = {"bases": g.bases, "sigs": g.sigs, "prog": prog, "isnet": not single, "cx": cx, "wrong": bool(wrong)}
    mods = g.mods
    written = {g.sigs[s]["base"] for m in mods for s in m["outs"]}
    srcs = [b for b in range(len(g.bases)) if b not in written and g.bases[b]["state"] is not None and b in g.consumed]
    # fromsig / tosig
    r = rng.random()
    if r < 0.45:
        spec["fromsig"] = None
    else:
        cand = [s for m in mods for s in m["ins"]]
        if rel:   # |x0| must be a power of two: only signals that no module writes
            cand = [s for s in cand if g.sigs[s]["base"] not in written] or cand[:1]
            if g.sigs[cand[0]]["base"] in written:
                spec["rel"] = rel = False
        k = rng.randint(1, min(2, len(cand)))
        spec["fromsig"] = list(dict.fromkeys(rng.sample(cand, k)))
    r = rng.random()
    if r < 0.45:
        spec["tosig"] = None
    else:
        cand = [s for m in mods for s in m["outs"]]
        # a caller-owned container that modules fill through slice outputs, taken as a whole as output of interest
        for b_ in sorted({g.sigs[s]["base"] for s in cand if g.sigs[s]["idx"] is not None}):
            cand.append(g.sig(b_, None))
        k = rng.randint(1, min(2, len(cand)))
        spec["tosig"] = list(dict.fromkeys(rng.sample(cand, k)))
    deg = max([g.deg[b] for b in g.deg] + [1])
    spec["deg"] = deg
    spec["dx_exp"] = rng.randint(2, 7 if deg > 2 else 12)
    spec["rel"] = rel
    spec["keepzero"] = rng.random() < 0.6
    spec["seedmode"] = rng.choice(["usedf", "ones", "rand", "rand"])
    spec["rseed"] = rng.randrange(10 ** 9)
    spec["verbose"] = rng.random() < 0.15
    spec["srcs"] = srcs
    if stream == "keepout":
        # a plain keep_alloc OUTPUT signal (seed zeroed in place by reset)
        outs_b = [g.sigs[s]["base"] for s in mods[-1]["outs"] if g.sigs[s]["idx"] is None]
        for b in outs_b:
            if not g.bases[b]["sparse"]:
                g.bases[b]["keep"] = True
    return spec


def make_malformed(rng):
    spec = make_case(rng, True, "net")
    kind = rng.choice(["no_in", "no_out", "none_state", "none_out", "sparse_lil", "sparse_lil"])
    if kind == "sparse_lil":
        sp_b = [b for b in spec["bases"] if b.get("spfmt")]
        if sp_b:
            rng.choice(sp_b)["spfmt"] = "lil"       # not iterable by np.nditer: TypeError when it is an input of interest
        else:
            kind = "no_in"
    spec["isnet"] = True
    if "net" not in spec["prog"][0] and len(spec["prog"]) == 1 and rng.random() < 0.3:
        spec["isnet"] = False
    bases, sigs = spec["bases"], spec["sigs"]
    if kind == "no_in":
        bases.append({"len": 2, "shape": [2], "keep": False, "cx": spec["cx"], "state": [[1.0, 0.0], [2.0, 0.0]], "sens": None,
                      "sparse": False})
        sigs.append({"base": len(bases) - 1, "idx": None, "sl": None})
        spec["fromsig"] = [len(sigs) - 1]
    elif kind == "no_out":
        bases.append({"len": 2, "shape": [2], "keep": False, "cx": spec["cx"], "state": [[1.0, 0.0], [2.0, 0.0]], "sens": None,
                      "sparse": False})
        sigs.append({"base": len(bases) - 1, "idx": None, "sl": None})
        spec["tosig"] = [len(sigs) - 1]
    elif kind == "none_state":
        if spec["srcs"]:
            b = rng.choice(spec["srcs"])
            bases[b]["state"] = None
            bases[b]["sens"] = None
    elif kind == "none_out":
        # an extra output of interest that no module produces and that has no state (warned and skipped)
        bases.append({"len": 1, "shape": [1], "keep": False, "cx": spec["cx"], "state": None, "sens": None, "sparse": False})
        sigs.append({"base": len(bases) - 1, "idx": None, "sl": None})
        mods = flat_mods(spec["prog"])
        spec["tosig"] = [len(sigs) - 1, mods[-1]["outs"][0]] if rng.random() < 0.5 else [mods[-1]["outs"][0], len(sigs) - 1]
    spec["kind"] = kind
    return spec


# ------------------------------------------------------------------------------------------------------------------
# the real implementation
# ------------------------------------------------------------------------------------------------------------------
def _arr(vals, shape, cx):
    dt = np.complex128 if cx else np.float64
    a = np.array([complex(v[0], v[1]) if cx else v[0] for v in vals], dtype=dt)
    if shape == "py":
        return complex(a[0]) if cx else float(a[0])
    return a.reshape(shape)


def build(spec):
    import pymoto.core_objects as co
    saved = co.get_init_loc
    co.get_init_loc = lambda: ("N/A", "N/A", "N/A")
    try:
        return _build(spec)
    finally:
        co.get_init_loc = saved


def _build(spec):
    pm = _pm()
    FDMod = fdmod_class()
    cx = spec["cx"]
    bases = []
    bigs = {}
    allmods = []
    for i, b in enumerate(spec["bases"]):
        st = None if b["state"] is None else _arr(b["state"], b["shape"], cx)
        if st is not None and b.get("inview") and isinstance(st, np.ndarray):
            p0, p1 = b["inview"]
            big = np.full(p0 + st.size + p1, 7.5, dtype=st.dtype)
            big[p0:p0 + st.size] = st.ravel()
            st = big[p0:p0 + st.size].reshape(st.shape)          # a C-contiguous view that does not own its data
            bigs[i] = big
        if st is not None and isinstance(st, np.ndarray) and st.ndim >= 2 and b.get("lay") == "F":
            # Fortran-ordered state (same logical array): which entry is perturbed / looked up must go by the LOGICAL index
            st = np.asfortranarray(st)
        if st is not None and b.get("spfmt"):
            import scipy.sparse as sp
            nc = b["shape"][1]
            pos = b["stored"]
            flat = st.ravel()
            m = sp.coo_matrix((np.array([flat[p_] for p_ in pos], dtype=st.dtype), ([p_ // nc for p_ in pos], [p_ % nc for p_ in pos])),
                              shape=tuple(b["shape"]))
            st = {"csr": m.tocsr, "csc": m.tocsc, "coo": m.copy, "lil": m.tolil}[b["spfmt"]]()
        if b["keep"]:
            s = pm.Signal(f"b{i}", state=st, sensitivity=np.zeros(1))
            s.sensitivity = None
        else:
            s = pm.Signal(f"b{i}", state=st)
        if b["sens"] is not None:
            s.sensitivity = _arr(b["sens"], b["shape"], cx)
        bases.append(s)
    sigs = []
    for s in spec["sigs"]:
        o = bases[s["base"]]
        if s["sl"] is not None:
            o = o[np.array(s["sl"][1], dtype=np.int64)] if s["sl"][0] == "arr" else o[s["sl"][0]:s["sl"][1]]
        sigs.append(o)

    def mk(items):
        mods = []
        for it in items:
            if "net" in it:
                mods.append(pm.Network(mk(it["net"])))
            else:
                A = None if it.get("A") is None else [[complex(v[0], v[1]) if cx else v[0] for v in row] for row in it["A"]]
                w = it.get("wrong")
                if w is not None and w.get("A") is not None:
                    w = dict(w)
                    w["A"] = [[complex(v[0], v[1]) if cx else v[0] for v in row] for row in w["A"]]
                mods.append(FDMod([sigs[i] for i in it["ins"]], [sigs[i] for i in it["outs"]], it["k"], it["oshape"],
                                  A=A, n=it.get("n"), sparse=it["sparse"], wrong=w, cx=cx, store=it.get("store"),
                                  keepref=it.get("keepref", False)))
                allmods.append(mods[-1])
        return mods
    mods = mk(spec["prog"])
    blk = pm.Network(mods) if spec["isnet"] else mods[0]
    blk._c19_bigs = bigs
    blk._c19_mods = allmods
    return blk, bases, sigs


def snapshot(bases):
    return {"st": [enc_arr(b.state) for b in bases], "se": [enc_arr(b.sensitivity) for b in bases]}


def raw_states(bases):
    out = []
    for b in bases:
        s = b.state
        if s is None:
            out.append(None)
        elif isinstance(s, np.ndarray):
            out.append(("nd", s.dtype.str, s.shape, s.tobytes()))
        elif hasattr(s, "toarray"):
            c_ = s.tocoo()
            out.append(("sp", s.format, s.dtype.str, s.shape, np.asarray(s.data).tobytes() if isinstance(s.data, np.ndarray) else None,
                        c_.row.tolist(), c_.col.tolist(), s.toarray().tobytes()))
        else:
            out.append((type(s).__name__, repr(s)))
    return out


@contextlib.contextmanager
def patched_rand(seed, record):
    """np.random.rand replaced by a recording generator of dyadic values k/8"""
    rr = _random.Random(seed)
    saved = np.random.rand

    def rand(*shape):
        n = int(np.prod(shape)) if shape else 1
        vals = np.array([rr.randrange(0, 8) / 8 for _ in range(n)])
        record.append(vals.tolist())
        return vals.reshape(shape) if shape else float(vals[0])
    np.random.rand = rand
    try:
        yield
    finally:
        np.random.rand = saved


def usedf_values(spec, nout_sizes):
    rr = _random.Random(spec["rseed"] + 1)
    cx = spec["cx"]
    return [[[rr.randint(-8, 8) / 4, rr.randint(-8, 8) / 4 if cx else 0.0] for _ in range(z)] for z in nout_sizes]


def run_impl(spec):
    """returns a dict with err / calls / st / se and the bookkeeping the model request and the oracle need"""
    pm = _pm()
    import pymoto.core_objects as co
    with warnings.catch_warnings():
        warnings.simplefilter("ignore")
        blk, bases, sigs = build(spec)
        ids = {id(s): i for i, s in enumerate(sigs)}
        fromsig = None if spec["fromsig"] is None else [sigs[i] for i in spec["fromsig"]]
        tosig = None if spec["tosig"] is None else [sigs[i] for i in spec["tosig"]]
        inps = [ids[id(s)] for s in (blk.sig_in if fromsig is None else fromsig)]
        outps = [ids[id(s)] for s in (blk.sig_out if tosig is None else tosig)]
        out = {"inps": inps, "outps": outps, "raw_before": raw_states(bases),
               "bigs_before": {k: v.tobytes() for k, v in blk._c19_bigs.items()}}
        if spec["isnet"]:
            out["sigin"] = sorted(ids[id(s)] for s in blk.sig_in)
            out["sigout"] = sorted(ids[id(s)] for s in blk.sig_out)
        sizes = [len(spec["sigs"][s]["idx"]) if spec["sigs"][s]["idx"] is not None else spec["bases"][spec["sigs"][s]["base"]]["len"]
                 for s in outps]
        use_df = None
        if spec["seedmode"] == "usedf":
            vals = usedf_values(spec, sizes)
            out["usedf"] = vals
            use_df = []
            for s, v in zip(outps, vals):
                sg = spec["sigs"][s]
                shape = spec["bases"][sg["base"]]["shape"] if sg["idx"] is None else [len(sg["idx"])]
                use_df.append(_arr(v, shape if shape != "py" else [], spec["cx"]))
        calls = []

        def test_fn(x0, dx, an, fd):
            calls.append([enc(np.asarray(x0).ravel()[0]), enc(dx), enc(np.asarray(an).ravel()[0]), enc(np.asarray(fd).ravel()[0])])
        rec = []
        saved = co.get_init_loc
        co.get_init_loc = lambda: ("N/A", "N/A", "N/A")
        try:
            with patched_rand(spec["rseed"], rec), contextlib.redirect_stdout(io.StringIO()):
                r = call_impl(pm.finite_difference, blk, fromsig, tosig, dx=2.0 ** -spec["dx_exp"], relative_dx=spec["rel"],
                              random=spec["seedmode"] == "rand", use_df=use_df, test_fn=test_fn,
                              keep_zero_structure=spec["keepzero"], verbose=spec["verbose"])
        finally:
            co.get_init_loc = saved
        out["rand"] = rec
        out["calls"] = calls
        out["err"] = None
        if r[0] == "err":
            out["err"] = r[1]
            out["msg"] = r[2][:300]
        out.update(snapshot(bases))
        out["raw_after"] = raw_states(bases)
        out["bigs_after"] = {k: v.tobytes() for k, v in blk._c19_bigs.items()}
        out["view_ok"] = all((not isinstance(bases[k].state, np.ndarray)) or np.shares_memory(bases[k].state, v)
                             for k, v in blk._c19_bigs.items())
        # a module that kept a reference to a plain ndarray input must still see the state of that signal
        out["ref_bad"] = None
        for mi, m_ in enumerate(blk._c19_mods):
            if m_.keepref and m_.last_inp is not None:
                for s_, ref in zip(m_.sig_in, m_.last_inp):
                    if type(s_) is pm.Signal and isinstance(ref, np.ndarray) and isinstance(s_.state, np.ndarray):
                        if not (ref is s_.state or (ref.shape == s_.state.shape and ref.tobytes() == s_.state.tobytes())):
                            out["ref_bad"] = {"module": mi, "signal": s_.tag}
        out["cxflags"] = [None if b.state is None else bool(np.iscomplexobj(b.state)) for b in bases]
        out["sp_order_ok"] = True
        for b, bd in zip(bases, spec["bases"]):
            if bd.get("spfmt") in ("csr", "csc", "coo") and b.state is not None:
                c_ = b.state.tocoo()
                if [int(r_) * bd["shape"][1] + int(c2) for r_, c2 in zip(c_.row, c_.col)] != list(bd["stored"]):
                    out["sp_order_ok"] = False
        out["out_has_state"] = [sigs[s].state is not None for s in outps]
        return out


def _inp_req(spec, s):
    bd = spec["bases"][spec["sigs"][s]["base"]]
    d = {"sig": s, "py": bd["shape"] == "py"}
    if bd.get("spfmt") and bd["state"] is not None:
        d["visit"] = list(bd["stored"])
        d["bad"] = bd["spfmt"] not in ("csr", "csc", "coo")
    return d


def model_req(spec, impl):
    cx = spec["cx"]

    def n_(v):
        return [q(v[0]), q(v[1])]
    bases = [{"len": b["len"], "keep": b["keep"], "cx": cx,
              "state": None if b["state"] is None else [n_(v) for v in b["state"]],
              "sens": None if b["sens"] is None else [n_(v) for v in b["sens"]]} for b in spec["bases"]]

    def conv(items):
        out = []
        for it in items:
            if "net" in it:
                out.append({"net": conv(it["net"])})
                continue
            m = {"k": it["k"], "ins": it["ins"], "outs": it["outs"], "osz": it["osz"]}
            if it.get("A") is not None:
                m["A"] = [[n_(v) for v in row] for row in it["A"]]
            if it.get("n") is not None:
                m["n"] = it["n"]
            w = it.get("wrong")
            if w is not None:
                ww = {"k": w["k"]}
                if w.get("A") is not None:
                    ww["A"] = [[n_(v) for v in row] for row in w["A"]]
                if w.get("n") is not None:
                    ww["n"] = w["n"]
                m["wrong"] = ww
            out.append(m)
        return out
    outps = impl["outps"]
    mode = spec["seedmode"]
    seeds = []
    if mode == "usedf":
        seeds = [[n_(v) for v in vals] for vals in impl["usedf"]]
    elif mode == "ones":
        seeds = [None for _ in outps]
    else:
        rec = list(impl["rand"])
        for has in impl["out_has_state"]:
            if not has or not rec:
                seeds.append([[], []])
                continue
            r1 = rec.pop(0)
            r2 = rec.pop(0) if (cx and rec) else []
            seeds.append([[q(v) for v in r1], [q(v) for v in r2]])
    return {"m": "c19.fd", "bases": bases, "sigs": [{"base": s["base"], "idx": s["idx"]} for s in spec["sigs"]],
            "prog": conv(spec["prog"]), "isnet": spec["isnet"],
            "inps": [_inp_req(spec, s) for s in impl["inps"]],
            "outps": outps, "seedmode": mode, "seeds": seeds,
            "dx": q(2.0 ** -spec["dx_exp"]), "rel": spec["rel"], "keepzero": spec["keepzero"]}


# ------------------------------------------------------------------------------------------------------------------
# oracle (independent of the Lean model)
# ------------------------------------------------------------------------------------------------------------------
def _kind_f(k, x, A, kk):
    n = len(x)
    h = n // 2
    if k == "lin":
        out = []
        for row in A:
            s = CF()
            for a, v in zip(row, x):
                s = s + a * v
            out.append(s)
        return out
    if k == "mul":
        return [x[i] * x[h + i] for i in range(h)]
    if k == "dot":
        s = CF()
        for i in range(h):
            s = s + x[i] * x[h + i]
        return [s]
    if k == "sq":
        return [v * v for v in x]
    if k == "fan":
        return list(x) * kk
    if k == "cat":
        return list(x)
    raise RuntimeError(k)


def evaluate(spec, states, frozen, upto=None):
    """run the modules of the top-level items [0, upto] in order on `states` (dict base -> list of CF or None); entries in
    `frozen` are not overwritten"""
    sg = spec["sigs"]
    for m in flat_mods(spec["prog"] if upto is None else spec["prog"][:upto + 1]):
        x = []
        for s in m["ins"]:
            b = sg[s]["base"]
            ents = range(spec["bases"][b]["len"]) if sg[s]["idx"] is None else sg[s]["idx"]
            x.extend(states[b][e] for e in ents)
        A = None if m.get("A") is None else [[cf(v) for v in row] for row in m["A"]]
        y = _kind_f(m["k"], x, A, m.get("n"))
        off = 0
        for s, z in zip(m["outs"], m["osz"]):
            b = sg[s]["base"]
            ents = list(range(spec["bases"][b]["len"])) if sg[s]["idx"] is None else sg[s]["idx"]
            if states[b] is None:
                states[b] = [CF() for _ in range(spec["bases"][b]["len"])]
            for j, e in enumerate(ents):
                if (b, e) not in frozen:
                    states[b][e] = y[off + j]
            off += z
    return states


def poly_coeffs(vals):
    """monomial coefficients of the polynomial through (t, vals[t]), t = 0..D (Fractions)"""
    D = len(vals) - 1
    M = [[Fraction(t) ** k for k in range(D + 1)] + [vals[t]] for t in range(D + 1)]
    for c in range(D + 1):
        p = next(r for r in range(c, D + 1) if M[r][c] != 0)
        M[c], M[p] = M[p], M[c]
        pv = M[c][c]
        M[c] = [v / pv for v in M[c]]
        for r in range(D + 1):
            if r != c and M[r][c] != 0:
                f = M[r][c]
                M[r] = [a - f * b for a, b in zip(M[r], M[c])]
    return [M[k][D + 1] for k in range(D + 1)]


def seeds_of(spec, impl):
    """the seed vector (list of CF) of every output of interest, None where the output had no state"""
    cx = spec["cx"]
    mode = spec["seedmode"]
    out = []
    rec = list(impl["rand"])
    for k, (s, has) in enumerate(zip(impl["outps"], impl["out_has_state"])):
        sg = spec["sigs"][s]
        z = len(sg["idx"]) if sg["idx"] is not None else spec["bases"][sg["base"]]["len"]
        if not has:
            out.append(None)
        elif mode == "usedf":
            out.append([cf(v) for v in impl["usedf"][k]])
        elif mode == "ones":
            out.append([CF(1, 1 if cx else 0) for _ in range(z)])
        else:
            r1 = rec.pop(0)
            r2 = rec.pop(0) if cx else [0] * len(r1)
            out.append([CF(Fraction(a), Fraction(b)) for a, b in zip(r1, r2)])
    return out


def backprop_real(spec, impl, seeds):
    """input sensitivities per output, from a FRESH copy of the real network (response, seed, sensitivity)"""
    res = []
    with warnings.catch_warnings():
        warnings.simplefilter("ignore")
        for k, s_out in enumerate(impl["outps"]):
            if seeds[k] is None:
                res.append(None)
                continue
            blk, bases, sigs = build(spec)
            for b in bases:
                b.sensitivity = None
            # the whole network (not the slice) is run: modules outside the slice must not matter
            blk.response()
            sg = spec["sigs"][s_out]
            bshape = spec["bases"][sg["base"]]["shape"]
            shape = bshape if sg["idx"] is None else [len(sg["idx"])]
            w = np.array([complex(v.re, v.im) for v in seeds[k]])
            if not spec["cx"]:
                w = w.real.copy()
            sigs[s_out].sensitivity = w.reshape(shape if shape != "py" else [])
            if spec["isnet"]:
                # only modules up to the last one producing an output of interest may contribute; later ones see no seed
                blk.sensitivity()
            else:
                blk.sensitivity()
            row = []
            for s_in in impl["inps"]:
                se = sigs[s_in].sensitivity
                row.append(None if se is None else [CF(Fraction(complex(v).real), Fraction(complex(v).imag))
                                                    for v in np.asarray(se).ravel().tolist()])
            res.append(row)
    return res


def default_input_internal_slice(spec, inps):
    """open finding KEY_SLICE: default fromsig, and Network.sig_in contains a SignalSlice of a signal that a module writes"""
    if spec["fromsig"] is not None or not spec["isnet"]:
        return False
    sg = spec["sigs"]
    written = {sg[s]["base"] for m in flat_mods(spec["prog"]) for s in m["outs"]}
    return any(sg[s]["idx"] is not None and sg[s]["base"] in written for s in inps)


def nested_internal_input(spec, inps):
    """open finding KEY_NESTED: an FD input that is read inside a nested Network but is not among that item's sig_in"""
    if not spec["isnet"]:
        return False
    sg = spec["sigs"]
    ib = {sg[s]["base"] for s in inps}
    for it in spec["prog"]:
        if "net" in it:
            vis = set(item_io(spec, it)[0])
            for m in flat_mods(it["net"]):
                if any(sg[s2]["base"] in ib and sg[s2]["base"] not in vis for s2 in m["ins"]):
                    return True
    return False


def sub_entries(spec, impl):
    """(base, entry) pairs covered by the signals of the selected sub-network"""
    mods = spec["prog"]
    if spec["isnet"]:
        fi, la = selection(spec, impl["inps"], impl["outps"])
        if fi < 0 or la < 0:
            return set()
        mods = mods[fi:la + 1]
    sg, bs = spec["sigs"], spec["bases"]
    out = set()
    for s in [s for m in flat_mods(mods) for s in m["ins"] + m["outs"]] + list(impl["inps"]) + list(impl["outps"]):
        b = sg[s]["base"]
        for e in (range(bs[b]["len"]) if sg[s]["idx"] is None else sg[s]["idx"]):
            out.add((b, e))
    return out


def overwritten_input(spec, inps, outps):
    """an FD input entry that the selected sub-network itself writes (not an independent variable: misuse; the in-place /
    rebinding details of that situation are outside the model)"""
    sg, bs = spec["sigs"], spec["bases"]
    frozen = {(sg[s]["base"], e) for s in inps
              for e in (range(bs[sg[s]["base"]]["len"]) if sg[s]["idx"] is None else sg[s]["idx"])}
    items = spec["prog"]
    if spec["isnet"]:
        fi, la = selection(spec, inps, outps)
        items = items[fi:la + 1] if (fi >= 0 and la >= 0) else []
    for m in flat_mods(items):
        for so in m["outs"]:
            bb = sg[so]["base"]
            for e in (range(bs[bb]["len"]) if sg[so]["idx"] is None else sg[so]["idx"]):
                if (bb, e) in frozen:
                    return True
    return False


def sub_bases(spec, impl):
    """bases of all signals of the selected sub-network (None = nothing selected)"""
    mods = spec["prog"]
    if spec["isnet"]:
        fi, la = selection(spec, impl["inps"], impl["outps"])
        if fi < 0 or la < 0:
            return None
        mods = mods[fi:la + 1]
    sg = spec["sigs"]
    return {sg[s]["base"] for m in flat_mods(mods) for s in m["ins"] + m["outs"]} | \
        {sg[s]["base"] for s in list(impl["inps"]) + list(impl["outps"])}


def oracle(spec, impl=None, finding=False):
    """None, a "skip:..." string or (what, detail): the property checked on the real code for one spec.  `finding=True` judges a
    case of one of the two open-finding input classes (normally kept out)."""
    if impl is None:
        impl = run_impl(spec)
    if impl["err"] is not None:
        if finding:
            return ("finite_difference raises " + str(impl.get("msg"))[:200], {"err": impl["err"]})
        return None
    sg, bs = spec["sigs"], spec["bases"]
    cx = spec["cx"]
    inps, outps = impl["inps"], impl["outps"]
    dxv = Fraction(2) ** -spec["dx_exp"]
    if not finding:
        if nested_internal_input(spec, inps):
            return "skip:" + KEY_NESTED
        if default_input_internal_slice(spec, inps):
            return "skip:" + KEY_SLICE
        if overwritten_input(spec, inps, outps):
            return "skip:overwritten_input"
    cover = sub_entries(spec, impl)
    # -- non-destructive: states of every signal that is not written by the network are bitwise what they were
    written = {sg[s]["base"] for m in flat_mods(spec["prog"]) for s in m["outs"]}
    for b in range(len(bs)):
        if b not in written and impl["raw_before"][b] != impl["raw_after"][b]:
            return ("a state that finite_difference should not change was not restored exactly",
                    {"base": b, "before": str(impl["raw_before"][b])[:200], "after": str(impl["raw_after"][b])[:200]})
    for k in impl.get("bigs_before", {}):
        if impl["bigs_before"][k] != impl["bigs_after"][k] and k not in written:
            return ("the array an input state is a view of was changed by finite_difference", {"base": k})
    if not impl.get("view_ok", True):
        return ("an input state that was a view of a larger array was replaced by another array", {})
    if impl.get("ref_bad") and not overwritten_input(spec, inps, outps):
        return ("a module that kept a reference to its input array no longer sees the state of that signal",
                impl["ref_bad"])
    # -- no sensitivity left set on the examined sub-network (entries of a container that no signal of the sub-network
    #    covers keep whatever stale value they had before the call)
    sub = sub_bases(spec, impl) or set()
    cover = sub_entries(spec, impl)
    for b in sub:
        se = impl["se"][b]
        if se is None:
            continue
        stale = bs[b]["sens"]
        for e, v in enumerate(se):
            want = [0, 0] if ((b, e) in cover or stale is None) else enc(cf(stale[e]))
            if v != want:
                return ("a sensitivity is left set after finite_difference", {"base": b, "entry": e, "sens": se})
        if not bs[b]["keep"] and all((b, e) in cover for e in range(bs[b]["len"])) and \
                not any(s2["base"] == b and s2["idx"] is not None for s2 in sg):
            return ("a zero sensitivity array is left on a signal that does not keep its allocation", {"base": b})
    # -- unperturbed values of everything
    upto = None
    if spec["isnet"]:
        fi, la = selection(spec, inps, outps)
        upto = max(la, fi - 1)      # `blks_pre` (items before i_first) and the slice are executed, later items are not
    st0 = evaluate(spec, {b: (None if bd["state"] is None else [cf(v) for v in bd["state"]]) for b, bd in enumerate(bs)}, set(),
                   upto)
    frozen = {(sg[s]["base"], e) for s in inps
              for e in (range(bs[sg[s]["base"]]["len"]) if sg[s]["idx"] is None else sg[s]["idx"])}
    # -- expected visiting order
    seeds = seeds_of(spec, impl)
    expected = []
    for iin, s in enumerate(inps):
        b = sg[s]["base"]
        ents = list(range(bs[b]["len"])) if sg[s]["idx"] is None else sg[s]["idx"]
        py = bs[b]["shape"] == "py"
        order = list(bs[b]["stored"]) if bs[b].get("spfmt") else list(range(len(ents)))     # stored values of a sparse matrix
        if bs[b].get("lay") == "F" and sg[s]["idx"] is None:
            r_, c_ = bs[b]["shape"]
            order = [(k % r_) * c_ + k // r_ for k in range(r_ * c_)]     # memory (column-major) order of the logical entries
        for j in order:
            e = ents[j]
            x0 = st0[b][e]
            if x0 == CF() and spec["keepzero"] and not py:
                continue
            for imag in ([False, True] if cx else [False]):
                for k, so in enumerate(outps):
                    if seeds[k] is not None:
                        expected.append((iin, s, j, b, e, imag, k, so, x0))
    if len(expected) != len(impl["calls"]):
        return ("the entries visited by finite_difference are not all (non-zero) entries of the inputs, each once per output "
                "and direction", {"expected_calls": len(expected), "observed_calls": len(impl["calls"])})
    if not expected:
        return None
    back = backprop_real(spec, impl, seeds)
    D = int(spec["deg"])
    cache = {}
    for (iin, s, j, b, e, imag, k, so, x0), call in zip(expected, impl["calls"]):
        x0c, dxc, anc, fdc = [CF(Fraction(v[0]), Fraction(v[1])) for v in call]
        if not (x0c == x0) or not (dxc == CF(dxv)):
            return ("test_fn received a wrong x0 / dx", {"call": call, "expected_x0": enc(x0)})
        if anc.im != 0 or fdc.im != 0:
            return ("test_fn received a complex analytical / numerical value", {"call": call})
        part = (lambda z: z.im) if imag else (lambda z: z.re)
        # analytical value = back-propagated sensitivity of the real network for this seed
        row = back[k]
        bp = CF() if row[iin] is None else row[iin][j]
        if anc.re != part(bp):
            return ("reported analytical value differs from the back-propagated sensitivity for the seed used",
                    {"input": s, "entry": j, "imag": imag, "output": so, "reported": enc(anc), "backprop": enc(bp)})
        # G(t) = sum_o w_o * state_o(x + t * dir * e_entry)
        key = (b, e, imag, k)
        if key not in cache:
            vals = []
            so_b = sg[so]["base"]
            so_e = list(range(bs[so_b]["len"])) if sg[so]["idx"] is None else sg[so]["idx"]
            for t in range(D + 1):
                st = {bb: (None if v is None else list(v)) for bb, v in st0.items()}
                st[b][e] = st[b][e] + (CF(0, t) if imag else CF(t, 0))
                st = evaluate(spec, st, frozen, upto)
                G = CF()
                for w, oe in zip(seeds[k], so_e):
                    G = G + w * st[so_b][oe]
                vals.append(G)
            cre = poly_coeffs([v.re for v in vals])
            cim = poly_coeffs([v.im for v in vals])
            cache[key] = [CF(a, c) for a, c in zip(cre, cim)]
        co = cache[key]      # G(t) = sum co[k] t^k, t real, direction included
        # per pass: value = part(G'(0) / dir), dir = 1 or i ;  1/i = -i
        def dirdiv(z):
            return CF(z.im, -z.re) if imag else z
        true = part(dirdiv(co[1])) if D >= 1 else Fraction(0)
        sf = Fraction(1)
        if spec["rel"]:
            a2 = x0.re * x0.re + x0.im * x0.im
            if a2 != 0:
                # |x0| is a power of two by construction
                sf = Fraction(abs(x0.re) + abs(x0.im))
        h = dxv * sf
        higher = [part(dirdiv(c)) for c in co[2:]]
        exact_fd = true + sum(c * h ** (i + 1) for i, c in enumerate(higher))
        bound = h * sum(abs(c) for c in higher)
        err = fdc.re - true
        det = {"input": s, "entry": j, "imag": imag, "output": so, "an": enc(anc), "fd": enc(fdc), "true": q(true)}
        if all(c == 0 for c in higher):
            if err != 0:
                return ("affine path: numerical value differs from the exact directional derivative", det)
        elif all(c == 0 for c in higher[1:]):
            if err != h * higher[0]:
                return ("quadratic path: numerical - true is not dx*c with c independent of dx", det)
        if abs(err) > bound or fdc.re != exact_fd:
            return ("numerical value is not within O(dx) of the true directional derivative", det)
        right = anc.re == true
        if right:
            if abs(fdc.re - anc.re) > bound:
                return ("a correct sensitivity is reported with a non-matching pair", det)
        elif abs(anc.re - true) > bound:
            if fdc.re == anc.re:
                return ("a wrong sensitivity is reported with a matching pair", det)
        if not spec["wrong"] and not right:
            return ("analytical value of a correct module differs from the true derivative", det)
    return None


# ------------------------------------------------------------------------------------------------------------------
# correspondence
# ------------------------------------------------------------------------------------------------------------------
def _strip(spec):
    return spec


def _bits(v):
    """largest bit length among numerators / denominators of a model answer"""
    m = 0
    if isinstance(v, list):
        for w in v:
            m = max(m, _bits(w))
    elif isinstance(v, int):
        m = abs(v).bit_length()
    elif isinstance(v, str):
        f = Fraction(v)
        m = max(abs(f.numerator).bit_length(), f.denominator.bit_length() - 1 + abs(f.numerator).bit_length())
    return m


def _dyadic(v):
    if isinstance(v, list):
        return all(_dyadic(w) for w in v)
    if isinstance(v, str):
        d = Fraction(v).denominator
        return d & (d - 1) == 0
    return True


def compare_case(ctx, stream, spec, impl, m, judge=True):
    # the two open-finding input classes are kept out of the stream; a few of them are judged by the oracle, tagged with the key
    fkey = KEY_NESTED if nested_internal_input(spec, impl["inps"]) else \
        KEY_SLICE if default_input_internal_slice(spec, impl["inps"]) else None
    if fkey:
        ctx.branch("excluded." + fkey)
        if stream != "malformed" and ctx.branches.get("finding_oracle." + fkey, 0) < (6 if ctx.quick else 40):
            ctx.branch("finding_oracle." + fkey)
            r = call_impl(oracle, spec, impl, True)
            if r[0] == "ok" and r[1] and not isinstance(r[1], str):
                ctx.branch("finding_oracle_fails." + fkey)
                ctx.oracle_fail(r[1][0], {"spec": spec, "detail": r[1][1]}, key=fkey)
        return False
    if impl["err"] is None and overwritten_input(spec, impl["inps"], impl["outps"]):
        ctx.branch("excluded.overwritten_input")
        return False
    if impl["err"] is None and any(spec["bases"][spec["sigs"][s_]["base"]].get("lay") == "F" for s_ in impl["inps"]):
        # the model visits entries in logical order, the code in memory order (the order of the test_fn calls is not part of
        # the property): these cases are judged by the independent rational oracle alone
        ctx.branch("layout.fortran_input.oracle_only")
        if stream != "malformed":
            r = call_impl(oracle, spec, impl)
            ctx.evaluations += 1
            if r[0] == "err":
                ctx.oracle_fail("oracle raised " + r[2], {"spec": spec})
            elif r[1] and not isinstance(r[1], str):
                ctx.oracle_fail(r[1][0], {"spec": spec, "detail": r[1][1]})
            else:
                ctx.distinct.add(("layoutF", json.dumps(spec, sort_keys=True, default=str)))
        return False
    if not impl.get("sp_order_ok", True):
        ctx.disagree(stream, _strip(spec), None, None, "scipy stored the values of a sparse input in an unexpected order (harness)")
        return False
    if "ok" not in m:
        if m.get("err") in ("IllSized", "IrrationalAbs"):
            ctx.branch("model_refused." + m["err"])
            ctx.disagree(stream, _strip(spec), impl.get("err"), m, "model refused a generated case")
            return False
        ctx.disagree(stream, _strip(spec), impl.get("err"), m, "model error")
        return False
    mo = m["ok"]
    if impl["err"] is not None or mo["err"] is not None:
        ok = ctx.compare_exact(stream, _strip(spec), {"err": impl["err"]}, {"err": mo["err"]},
                               key=(stream, json.dumps(spec, sort_keys=True, default=str)))
        ctx.branch("err." + str(impl["err"]))
        return ok
    mcalls = [c[4:] for c in mo["calls"]]
    payload_m = {"calls": mcalls, "st": mo["st"], "se": mo["se"]}
    if not _dyadic(payload_m) or _bits(payload_m) > BITS:
        ctx.skipped_boundary += 1
        return True
    payload_i = {"calls": impl["calls"], "st": impl["st"], "se": impl["se"]}
    if spec["isnet"] and (spec["fromsig"] is None or spec["tosig"] is None):
        payload_m["sigin"], payload_m["sigout"] = mo["sigin"], mo["sigout"]
        payload_i["sigin"], payload_i["sigout"] = impl["sigin"], impl["sigout"]
    # the static dtype flags handed to the model must be the dtypes the implementation produced
    for b, f in enumerate(impl["cxflags"]):
        if f is not None and f != spec["cx"]:
            ctx.disagree(stream, _strip(spec), f, spec["cx"], f"dtype flag of base {b} differs (harness)")
            return False
    ok = ctx.compare_exact(stream, _strip(spec), payload_i, payload_m,
                           key=(stream, json.dumps(spec, sort_keys=True, default=str)), nontrivial=len(impl["calls"]) > 0)
    # bookkeeping
    ctx.branch(f"{stream}.calls={min(len(impl['calls']), 40) // 10 * 10}+")
    ctx.branch("dtype." + ("complex" if spec["cx"] else "real"))
    ctx.branch("blk." + ("network" if spec["isnet"] else "module"))
    ctx.branch("fromsig." + ("default" if spec["fromsig"] is None else "given"))
    ctx.branch("tosig." + ("default" if spec["tosig"] is None else "given"))
    ctx.branch("seed." + spec["seedmode"])
    ctx.branch("relative_dx=%s" % spec["rel"])
    ctx.branch("keep_zero=%s" % spec["keepzero"])
    ctx.branch("wrong=%s" % spec["wrong"])
    for mm in flat_mods(spec["prog"]):
        ctx.branch("kind." + mm["k"])
        for st_, sp_ in zip(mm.get("store", []), mm["sparse"]):
            ctx.branch("outstore." + ("sparse-recreated" if sp_ else st_))
        if mm.get("keepref"):
            ctx.branch("module_keeps_input_reference")
        if any(mm["sparse"]):
            ctx.branch("sparse_output")
    for s in impl["outps"]:
        if spec["sigs"][s]["idx"] is None and any(s2["base"] == spec["sigs"][s]["base"] and s2["idx"] is not None
                                                   for m_ in flat_mods(spec["prog"]) for s2 in [spec["sigs"][o_] for o_ in m_["outs"]]):
            ctx.branch("output.container_filled_through_slices")
    for s in impl["inps"]:
        if spec["bases"][spec["sigs"][s]["base"]].get("inview"):
            ctx.branch("input.state_is_view_of_larger_array")
        sh = spec["bases"][spec["sigs"][s]["base"]]["shape"]
        sl = spec["sigs"][s]["sl"]
        ctx.branch("input." + ("pyscalar" if sh == "py" else ("sparse-" + spec["bases"][spec["sigs"][s]["base"]]["spfmt"])
                               if spec["bases"][spec["sigs"][s]["base"]].get("spfmt") else
                               ("intarray-slice" if sl[0] == "arr" else "basic-slice") if sl is not None else "%dd" % len(sh)))
    if spec["isnet"]:
        fi, la = selection(spec, impl["inps"], impl["outps"])
        ctx.branch("slice." + ("whole" if (fi == 0 and la == len(spec["prog"]) - 1) else "proper"))
    if judge and ok:
        r = call_impl(oracle, spec, impl)
        ctx.branch("oracle.cases")
        if r[0] == "err":
            ctx.oracle_fail("oracle raised " + r[2], {"spec": spec})
        elif isinstance(r[1], str):
            ctx.branch("oracle." + r[1])
        elif r[1]:
            ctx.oracle_fail(r[1][0], {"spec": spec, "detail": r[1][1]})
    return ok


def correspondence(ctx):
    rng = ctx.rng
    n_main = 700 if ctx.quick else 7000
    n_mod = 150 if ctx.quick else 1500
    n_keep = 30 if ctx.quick else 300
    n_bad = 80 if ctx.quick else 800
    specs = []
    for _ in range(n_main):
        specs.append(("main", make_case(rng, ctx.quick, "main")))
    for _ in range(n_mod):
        specs.append(("module", make_case(rng, ctx.quick, "module")))
    for _ in range(n_keep):
        specs.append(("keepout", make_case(rng, ctx.quick, "keepout")))
    for _ in range(n_bad):
        specs.append(("malformed", make_malformed(rng)))
    impls = [run_impl(s) for _, s in specs]
    res = ctx.model([model_req(s, i) for (_, s), i in zip(specs, impls)])
    n_s = 0
    for (stream, spec), impl, m in zip(specs, impls, res):
        ok = compare_case(ctx, stream, spec, impl, m, judge=stream != "malformed")
        if stream == "malformed":
            ctx.branch("malformed." + spec["kind"])
        if ok and n_s < 3 and stream == "main" and 0 < len(impl["calls"]) <= 6 and spec["wrong"] == (n_s == 1):
            n_s += 1
            ctx.sample({"spec": spec, "calls(x0,dx,an,fd)": impl["calls"]})

    # self-test of the comparison: a flipped dx in the model's input must be seen as a disagreement
    if not ctx.quick:
        for _ in range(20):
            spec = make_case(rng, True, "module")
            impl = run_impl(spec)
            if impl["err"] is None and impl["calls"]:
                req = model_req(spec, impl)
                req["keepzero"] = not req["keepzero"]
                req["dx"] = q(2.0 ** -(spec["dx_exp"] + 1))
                mo = ctx.model([req])[0].get("ok")
                if mo is not None and [c[4:] for c in mo["calls"]] == impl["calls"]:
                    ctx.disagree("selftest", spec, impl["calls"][:1], mo["calls"][:1], "self-test failed")
                else:
                    ctx.branch("selftest.detected")
                break


# ------------------------------------------------------------------------------------------------------------------
# open known findings: the witness scripts are replayed on the implementation
# ------------------------------------------------------------------------------------------------------------------
def _probe(script):
    def run(ctx):
        import os
        import subprocess
        import sys
        from ..common import VERIF
        f = os.path.join(VERIF, "corpus", "defects", "pending", script)
        if not os.path.exists(f):
            return None
        p_ = subprocess.run([sys.executable, f], capture_output=True, text=True, timeout=300)
        if p_.returncode == 0:
            return None
        lines = [ln for ln in (p_.stdout + p_.stderr).strip().split("\n") if ln.strip()]
        return "witness %s still fails: %s" % (script, " | ".join(lines[-2:])[:300])
    return run


FINDING_PROBES = {
    KEY_SLICE: _probe("c19_default_input_internal_slice.py"),
    KEY_NESTED: _probe("c19_nested_internal_input.py"),
}


# ------------------------------------------------------------------------------------------------------------------
# search / replay
# ------------------------------------------------------------------------------------------------------------------
def search(ctx, disagreements):
    found = []
    seen = set()
    for d in disagreements:
        spec = d.get("case")
        if not isinstance(spec, dict) or "prog" not in spec or d.get("stream") in ("malformed",):
            continue
        key = json.dumps(spec, sort_keys=True, default=str)
        if key in seen:
            continue
        seen.add(key)
        r = call_impl(oracle, spec)
        if r[0] == "err":
            found.append({"what": f"oracle raises {r[2][:300]}", "witness": {"spec": spec}})
        elif r[1] and not isinstance(r[1], str):
            found.append({"what": r[1][0], "witness": {"spec": spec, "detail": r[1][1]}})
        if len(found) >= 3:
            break
    if not found:
        for i in range(200 if ctx.quick else 2000):
            spec = make_case(ctx.rng, True, "main" if i % 3 else "module")
            r = call_impl(oracle, spec)
            if r[0] == "err":
                found.append({"what": f"oracle raises {r[2][:300]}", "witness": {"spec": spec}})
            elif r[1] and not isinstance(r[1], str):
                found.append({"what": r[1][0], "witness": {"spec": spec, "detail": r[1][1]}})
            if len(found) >= 5:
                break
    found.sort(key=lambda w: len(json.dumps(w["witness"].get("spec", {}), default=str)))
    return found


def replay(ctx, data):
    w = data.get("witness", {})
    w = w.get("witness", w)
    spec = w.get("spec")
    if not spec:
        return {"still_failing": False, "note": "replay file names no failing input (see no_longer_checks)"}
    r = call_impl(oracle, spec)
    if r[0] == "err":
        return {"still_failing": True, "what": r[2]}
    if isinstance(r[1], str) or not r[1]:
        return {"still_failing": False}
    return {"still_failing": True, "what": r[1][0], "detail": r[1][1]}
