"""C20 — result files decode back to the data that was written
(pymoto/common/domain.py write_to_vti, pymoto/modules/io.py WriteToVTI / ScalarToFile)

correspondence: the real code writes into a temp dir outside /repo and /verif; the bytes of every file are
                compared with the bytes produced by the Lean model `Core/IO.lean` (driver ops c20.*), mode E.
                The model receives what external libraries decide: the float32 little-endian bytes of every
                entry (computed here independently with struct.pack('<f')), the decimal texts Python prints
                for origin*scale and element_size*scale, and the texts `__format__` returns for logged values.
oracle        : independent decode of the REAL files with base64 / struct / xml.etree (VTI) and str.split (log).
"""
import base64
import json
import os
import shutil
import struct
import tempfile
import warnings
import xml.etree.ElementTree as ET

import numpy as np

from ..common import call_impl

RULE = ("streams: b64 (random byte strings of every length mod 3 vs base64.b64encode, strict decoder vs b64decode), "
        "names (os.path.splitext / iteration names), vti (direct DomainDefinition.write_to_vti: random 2-D/3-D domains, "
        "1-5 vectors / block vectors / unclassifiable / malformed, scales, origins, file names), wvti (WriteToVTI module "
        "histories of 1-6 iterations, overwrite on/off), log (ScalarToFile histories of 1-6 calls, formats, separators, "
        ".csv/.txt, array states in all memory layouts; the oracle reads the header labels and checks that the column labelled "
        "tag[i, j] holds state[i, j] in EVERY row, also when the layout changes between calls). distinct = distinct request keys whose result is a written file (or a decoded byte string)")
ASSUMPTIONS = [
    "float64 -> float32 rounding is numpy's; the expected payload is struct.pack('<f', value) per entry (no NaN, |x| <= 3e38)",
    "decimal formatting of header floats and of logged values is Python's (external); the model receives the texts",
    "little-endian host (sys.byteorder == 'little'); the big-endian branch of the model is not exercised",
    "file names are ASCII apart from vector names (UTF-8)",
    "ScalarToFile array states come in every memory layout (C, Fortran, transposed, permuted, strided, reversed axes) and the "
    "layout of a signal's state may change from call to call; the layout (axes by decreasing |stride|, reversed axes) is sent to "
    "the model, which - like the code since 7a67c87 - ignores it; zero strides (broadcast views) are not generated; the SHAPE of a "
    "signal's state stays fixed over the calls of one history (the header is written once, at iteration 0)",
    "a vector whose size is a multiple of BOTH nel and nnodes is written as cell data (the code tests nel first); "
    "the cell/point oracle is applied only to sizes that are a multiple of exactly one of them",
]

TROOT = b"/T"  # the temp dir is replaced by this fixed prefix in everything sent to the model / kept as evidence


def _pm():
    import pymoto
    return pymoto


def H(b):
    return bytes(b).hex()


def U(h):
    return bytes.fromhex(h)


def f32bytes(arr):
    """independent float32 encoding of every entry in C order"""
    return b"".join(struct.pack("<f", float(x)) for x in np.asarray(arr).flatten(order="C").tolist())


# ------------------------------------------------------------------------------------------------
# generators
# ------------------------------------------------------------------------------------------------
SPECIAL = [0.0, -0.0, 1.0, -1.0, 0.5, 1e-45, -1e-40, 3.0e38, float("inf"), float("-inf"), 1 / 3, 16777217.0, 1e-3]


def rand_values(rng, n):
    out = []
    for _ in range(n):
        r = rng.random()
        if r < 0.12:
            out.append(rng.choice(SPECIAL))
        elif r < 0.3:
            out.append(float(rng.randint(-50, 50)))
        elif r < 0.4:
            out.append(rng.uniform(-1, 1) * 10.0 ** rng.randint(-30, 30))
        else:
            out.append(rng.uniform(-10, 10))
    return out


def good_domain(nel, nnodes):
    return nnodes % nel != 0 and nel % nnodes != 0


def rand_domain(rng, want_good=True, large=False):
    for _ in range(200):
        if large:   # arrays of more than 2^13 single-precision values (payloads beyond 32 KiB / 64 KiB)
            if rng.random() < 0.6:
                nelx, nely, nelz = rng.randint(60, 110), rng.randint(85, 150), 0
            else:
                nelx, nely, nelz = rng.randint(14, 22), rng.randint(18, 24), rng.randint(20, 26)
        elif rng.random() < 0.55:
            nelx, nely, nelz = rng.randint(1, 6), rng.randint(1, 5), 0
        else:
            nelx, nely, nelz = rng.randint(1, 4), rng.randint(1, 3), rng.randint(1, 3)
        nel = nelx * nely * max(nelz, 1)
        nn = (nelx + 1) * (nely + 1) * (nelz + 1)
        if good_domain(nel, nn) == want_good:
            break
    units = [rng.choice([1.0, 0.5, 0.25, 2.0, 0.1, rng.uniform(0.01, 5.0)]) for _ in range(3)]
    return nelx, nely, nelz, units


NAME_ALPHA = "abcdefghijklmnopqrstuvwxyzABCDEFGHIJKLMNOPQRSTUVWXYZ0123456789_-. "


def rand_name(rng):
    n = rng.randint(1, 8)
    s = "".join(rng.choice(NAME_ALPHA) for _ in range(n))
    if rng.random() < 0.1:
        s += rng.choice(["é", "λ", "ü", "(1)", "[0]", "x=y", "'q'"])
    return s


def rand_vector(rng, nel, nn, dim, kind=None):
    """returns (array, kindlabel)"""
    if kind is None:
        r = rng.random()
        kind = ("cell1" if r < 0.2 else "point1" if r < 0.45 else "cellblk" if r < 0.6 else "pointblk" if r < 0.8
                else "skip" if r < 0.88 else "malformed")
    if kind == "cell1":
        shape = (rng.choice([1, 1, 1, 2, 3]) * nel,)
    elif kind == "point1":
        shape = (rng.choice([1, 2, 2, 3, 3, 4]) * nn,)
    elif kind in ("cellblk", "pointblk"):
        N = nel if kind == "cellblk" else nn
        k = rng.choice([1, 1, 2, 3]) if kind == "cellblk" else rng.choice([1, 2, 2, 3])
        m = rng.choice([1, 2, 2, 3, 4, 5, 10, 11, 12]) if rng.random() < 0.9 else rng.choice([100, 101])
        if m * k * N > 4000:
            m = 2
        shape = (m, k * N) if rng.random() < 0.7 else (k * N, m)
    elif kind == "skip":
        for _ in range(100):
            s = rng.randint(1, 3 * nn + 2)
            if s % nel != 0 and s % nn != 0:
                break
        else:
            s = nel * nn + 1
        shape = (s,) if rng.random() < 0.7 else (1, s)
    else:  # malformed / edge shapes
        shape = rng.choice([(), (0,), (1, 1, nel), (1, nn, 1), (2, 2, nn), (nel, 0), (0, nn), (0, 3),
                            (2, nel) if nel % 2 else (2, nel // 2 * 3 + 1), (1, 2 * nn), (2 * nn, 1), (1, nn), (nel, 1),
                            (2, 3)])
    size = int(np.prod(shape)) if len(shape) else 1
    r = rng.random()
    if r < 0.12:
        a = np.array([rng.randint(-1000, 1000) for _ in range(size)], dtype=np.int64).reshape(shape)
    elif r < 0.24:
        a = np.array(rand_values(rng, size), dtype=np.float64).astype(np.float32).reshape(shape)
    elif r < 0.34 and len(shape) == 1 and size > 0:
        base = np.array(rand_values(rng, 2 * size), dtype=np.float64)
        a = base[::2]  # non-contiguous view
    elif r < 0.42 and len(shape) == 2:
        a = np.asfortranarray(np.array(rand_values(rng, size), dtype=np.float64).reshape(shape))
    elif r < 0.50 and len(shape) == 2:
        a = np.array(rand_values(rng, size), dtype=np.float64).reshape(shape[::-1]).T      # transposed view
    elif r < 0.56 and len(shape) in (1, 2) and size > 0:
        a = np.array(rand_values(rng, size), dtype=np.float64).reshape(shape)[::-1]       # negative stride
    elif r < 0.60 and len(shape) == 2 and size > 0:
        a = np.array(rand_values(rng, 4 * size), dtype=np.float64).reshape(2 * shape[0], 2 * shape[1])[::2, 1::2]
    else:
        a = np.array(rand_values(rng, size), dtype=np.float64).reshape(shape)
    return a, kind


def hdr_texts(units, scale, origin):
    """the texts Python prints for the header floats (same expressions as the f-strings of the code)"""
    es = np.array([units[0], units[1], units[2]])
    dx, dy, dz = es[0:3] * scale
    return [f"{origin[0]*scale}", f"{origin[1]*scale}", f"{origin[2]*scale}", f"{dx}", f"{dy}", f"{dz}"]


def vec_req(name, a):
    return {"name": H(name.encode()), "shape": [int(s) for s in a.shape], "data": H(f32bytes(a))}


def rand_scale(rng):
    return rng.choice([1.0, 1.0, 0.5, 2.0, 1e-3, 2, -1.0, rng.uniform(0.1, 10.0), 1e6, 1 / 3])


def rand_origin(rng):
    r = rng.random()
    if r < 0.4:
        return (0.0, 0.0, 0.0)
    if r < 0.5:
        return (1, 2, 3)
    return tuple(rng.choice([0.0, 1.0, -2.5, rng.uniform(-5, 5), 1e-7]) for _ in range(3))


# ------------------------------------------------------------------------------------------------
# independent decoding of a real VTI file (oracle)
# ------------------------------------------------------------------------------------------------
def decode_vti(raw):
    root = ET.fromstring(raw)
    out = {"root": root.tag, "attrs": dict(root.attrib)}
    img = root.find("ImageData")
    piece = img.find("Piece")
    out["whole"] = img.attrib["WholeExtent"]
    out["piece"] = piece.attrib["Extent"]
    out["origin"] = [float(t) for t in img.attrib["Origin"].split(" ")]
    out["spacing"] = [float(t) for t in img.attrib["Spacing"].split(" ")]
    for sec in ("PointData", "CellData"):
        el = piece.find(sec)
        arrs = []
        if el is not None:
            for da in el.findall("DataArray"):
                txt = da.text.strip().encode()
                n = struct.unpack("<Q", base64.b64decode(txt[:12], validate=True))[0]
                payload = base64.b64decode(txt[12:], validate=True)
                arrs.append({"name": da.attrib["Name"], "ncomp": int(da.attrib["NumberOfComponents"]),
                             "type": da.attrib["type"], "format": da.attrib["format"], "payload": payload,
                             "hdr": n, "enclen": len(txt) - 12})
        out[sec] = arrs if el is not None else None
    return out


def expected_arrays(nel, nn, dim, items):
    """what the PROPERTY demands for the well-formed inputs: list of (section, key, index|None, ncomp, float32 bytes).
    Inputs outside the property's wording (ambiguous size, unusual shapes) give None (= no expectation)."""
    exp = []
    for key, a in items:
        size = a.size
        c, p = size % nel == 0, size % nn == 0
        if size == 0 or (c and p) or not (c or p):
            exp.append((key, None))
            continue
        N = nel if c else nn
        sec = "CellData" if c else "PointData"
        if a.ndim == 1:
            cols = [(None, a)]
        elif a.ndim == 2:
            ax = [i for i, s in enumerate(a.shape) if s % N == 0]
            m = a.shape[1 - ax[0]] if ax else 0
            if len(ax) != 1 or m < 1:
                exp.append((key, None))
                continue
            if m == 1:   # a block holding one vector is written under the plain key
                cols = [(None, a.reshape(-1))]
            else:
                cols = [(i, a[i, :] if ax[0] == 1 else a[:, i]) for i in range(m)]
        else:
            exp.append((key, None))
            continue
        lst = []
        for i, col in cols:
            k = col.size // N
            v32 = [struct.unpack("<f", struct.pack("<f", float(x)))[0] for x in col.tolist()]
            if sec == "PointData" and k == 2 and dim == 2:
                v = []
                for n in range(N):
                    v += [v32[2 * n], v32[2 * n + 1], 0.0]
                k = 3
            else:
                v = v32
            lst.append((sec, i, k, b"".join(struct.pack("<f", x) for x in v)))
        exp.append((key, lst))
    return exp


def oracle_vti(raw, nelx, nely, nelz, units, scale, origin, items):
    """returns a description of a violated claim of the property, or None"""
    nel = nelx * nely * max(nelz, 1)
    nn = (nelx + 1) * (nely + 1) * (nelz + 1)
    dim = 2 if nelz == 0 else 3
    try:
        doc = decode_vti(raw)
    except Exception as e:  # noqa
        return f"file is not well-formed: {type(e).__name__}: {e}"
    if doc["root"] != "VTKFile" or doc["attrs"].get("type") != "ImageData":
        return "not an ImageData VTKFile"
    if doc["attrs"].get("byte_order") != "LittleEndian" or doc["attrs"].get("header_type") != "UInt64":
        return "byte order / header type attribute wrong"
    ext = f"0 {nelx} 0 {nely} 0 {nelz}"
    if doc["whole"] != ext or doc["piece"] != ext:
        return f"extent {doc['whole']!r}/{doc['piece']!r} does not describe the domain ({ext})"
    want_o = [origin[i] * scale for i in range(3)]
    want_s = [units[i] * scale for i in range(3)]
    if doc["origin"] != [float(v) for v in want_o]:
        return f"origin {doc['origin']} != {want_o}"
    if not all(abs(a - float(b)) <= 1e-15 * abs(float(b)) for a, b in zip(doc["spacing"], want_s)):
        return f"spacing {doc['spacing']} != {want_s}"
    for sec in ("PointData", "CellData"):
        for a in doc[sec] or []:
            if a["type"] != "Float32" or a["format"] != "binary":
                return "array type/format attribute wrong"
            if len(a["payload"]) % 4 != 0:
                return "payload is not a whole number of float32"
            N = nn if sec == "PointData" else nel
            if a["ncomp"] and len(a["payload"]) != 4 * a["ncomp"] * N:
                return f"array {a['name']}: {len(a['payload'])//4} values for {a['ncomp']} components x {N}"
    for key, lst in expected_arrays(nel, nn, dim, items):
        if lst is None:
            continue
        for sec, i, k, payload in lst:
            other = "CellData" if sec == "PointData" else "PointData"
            cands = [a for a in (doc[sec] or []) if a["name"] == key or (a["name"].startswith(key + "(") and a["name"].endswith(")"))]
            wrong = [a for a in (doc[other] or []) if a["name"] == key or (a["name"].startswith(key + "(") and a["name"].endswith(")")
                                                                         and a["name"][len(key) + 1:-1].isdigit())]
            if i is None:
                hit = [a for a in cands if a["name"] == key]
            else:
                hit = [a for a in cands if a["name"][len(key) + 1:-1].isdigit() and int(a["name"][len(key) + 1:-1]) == i
                       and a["name"] != key]
            if not hit:
                if wrong:
                    return f"vector {key!r} was written as {other} instead of {sec}"
                return f"vector {key!r} (block {i}) is missing from {sec}"
            a = hit[0]
            if a["ncomp"] != k:
                return f"vector {key!r} (block {i}): NumberOfComponents {a['ncomp']} expected {k}"
            if a["payload"] != payload:
                return f"vector {key!r} (block {i}): decoded float32 data differ from the input"
    return None


# ------------------------------------------------------------------------------------------------
# running the real code
# ------------------------------------------------------------------------------------------------
class TmpDir:
    def __enter__(self):
        self.path = tempfile.mkdtemp(prefix="c20_")
        real = os.path.realpath(self.path)
        assert not real.startswith("/repo") and not real.startswith("/verif"), real
        return self

    def __exit__(self, *a):
        shutil.rmtree(self.path, ignore_errors=True)

    def snapshot(self):
        out = {}
        for root, _, files in os.walk(self.path):
            for f in files:
                p = os.path.join(root, f)
                out[TROOT.decode() + p[len(self.path):]] = open(p, "rb").read()
        return out

    def clear(self):
        for f in os.listdir(self.path):
            p = os.path.join(self.path, f)
            shutil.rmtree(p) if os.path.isdir(p) else os.remove(p)


def impl_vti(tmp, dom, items, fname, scale, origin):
    pm = _pm()
    nelx, nely, nelz, units = dom
    d = pm.DomainDefinition(nelx, nely, nelz, *units)
    full = os.path.join(tmp.path, fname)
    os.makedirs(os.path.dirname(full), exist_ok=True)
    with warnings.catch_warnings(record=True) as w:
        warnings.simplefilter("always")
        r = call_impl(d.write_to_vti, dict(items), full, scale, origin)
    skipped = [str(x.message) for x in w if "neither cell- nor point-data" in str(x.message)]
    snap = tmp.snapshot()
    if r[0] == "err":
        return {"err": r[1], "msg": r[2]}
    return {"skipped": len(skipped), "files": snap}


VTI_NAMES = ["out.vti", "out.vti", "out", "res.VTI", "a.b.vtix", "x.vtk", ".vti", "sub/out.vti", "sub.d/noext", "..vti",
             "my file.Vti", "out.vti.bak"]


def gen_vti_case(rng, malformed_ok=True, large=False):
    dom = rand_domain(rng, want_good=rng.random() < 0.85, large=large)
    nelx, nely, nelz, units = dom
    nel = nelx * nely * max(nelz, 1)
    nn = (nelx + 1) * (nely + 1) * (nelz + 1)
    dim = 2 if nelz == 0 else 3
    items, kinds = [], []
    used = set()
    for _ in range(rng.randint(1, 2) if large else rng.randint(1, 5)):
        name = rand_name(rng)
        if name in used:
            continue
        used.add(name)
        a, kind = rand_vector(rng, nel, nn, dim)
        if kind == "malformed" and not malformed_ok:
            a, kind = rand_vector(rng, nel, nn, dim, "point1")
        items.append((name, a))
        kinds.append(kind)
    return dom, items, kinds, rng.choice(VTI_NAMES), rand_scale(rng), rand_origin(rng)


def vti_request(dom, items, fname, scale, origin):
    nelx, nely, nelz, units = dom
    return {"m": "c20.vti", "nelx": nelx, "nely": nely, "nelz": nelz,
            "hdr": {"le": True, "txt": [H(t.encode()) for t in hdr_texts(units, scale, origin)]},
            "vecs": [vec_req(k, a) for k, a in items], "filename": H(TROOT + b"/" + fname.encode())}


def model_files(ok):
    """model answer of c20.vti / one wvti step -> {name: bytes}"""
    f = ok.get("file")
    return {} if f is None else {U(f["name"]).decode(): U(f["bytes"])}


def run_vti_stream(ctx, n):
    rng = ctx.rng
    reqs, impls, metas = [], [], []
    with TmpDir() as tmp:
        nlarge = 3 if ctx.quick else 12
        for it in range(n):
            large = it < nlarge
            dom, items, kinds, fname, scale, origin = gen_vti_case(rng, large=large)
            if large:
                ctx.branch("vti.large_arrays")
            tmp.clear()
            impl = impl_vti(tmp, dom, items, fname, scale, origin)
            reqs.append(vti_request(dom, items, fname, scale, origin))
            impls.append(impl)
            metas.append((dom, items, kinds, fname, scale, origin))
            for k in kinds:
                ctx.branch("vti.vec." + k)
            ctx.branch("vti.dim%d" % (2 if dom[2] == 0 else 3))
            if "err" not in impl:
                for name, raw in impl["files"].items():
                    why = oracle_vti(raw, dom[0], dom[1], dom[2], dom[3], scale, origin, items)
                    if why:
                        ctx.oracle_fail(why, witness_vti(dom, items, fname, scale, origin))
    res = ctx.model(reqs)
    parse_reqs, parse_expect = [], []
    for req, impl, meta, m in zip(reqs, impls, metas, res):
        case = {"stream": "vti", "dom": list(meta[0][:3]), "file": meta[3], "shapes": [list(a.shape) for _, a in meta[1]]}
        key = ("vti", json.dumps(req, sort_keys=True))
        if "err" in impl:
            ctx.branch("vti.err." + impl["err"])
            ctx.compare_exact("vti", case, {"err": impl["err"]}, {"err": m.get("err")}, key=key, nontrivial=False)
            continue
        if "ok" not in m:
            ctx.disagree("vti", case, "ok", m, "model rejects what the code accepts")
            continue
        mf = model_files(m["ok"])
        ctx.branch("vti.file" if mf else "vti.nothing_to_write")
        ok = ctx.compare_exact("vti", case, {"skipped": impl["skipped"], "files": {k: H(v) for k, v in impl["files"].items()}},
                               {"skipped": len(m["ok"]["skipped"]), "files": {k: H(v) for k, v in mf.items()}},
                               key=key, nontrivial=bool(mf))
        if not m["ok"]["roundtrip"]:
            ctx.disagree("vti.roundtrip", case, None, None, "model parser does not invert the model renderer")
        if ok and impl["files"]:
            raw = list(impl["files"].values())[0]
            parse_reqs.append({"m": "c20.parse", "data": H(raw)})
            parse_expect.append((case, meta))
    # the model's PARSER on the real bytes: the decoded document must describe the inputs
    pres = ctx.model(parse_reqs)
    for (case, meta), m in zip(parse_expect, pres):
        dom, items = meta[0], meta[1]
        if m.get("ok") is None:
            ctx.disagree("vti.parse", case, "file", m, "model parser rejects the real file")
            continue
        doc = m["ok"]
        good = (doc["extent"] == [dom[0], dom[1], dom[2]] and
                [U(t).decode() for t in doc["origin"] + doc["spacing"]] == hdr_texts(dom[3], meta[4], meta[5]))
        ctx.compare_exact("vti.parse", case, True, good, key=("vti.parse", json.dumps(case)), nontrivial=True)
    if reqs:
        i = next((i for i, im in enumerate(impls) if im.get("files")), 0)
        ctx.sample({"stream": "vti", "domain": list(metas[i][0][:3]), "file": metas[i][3],
                    "shapes": [list(a.shape) for _, a in metas[i][1]],
                    "real_file_head": list(impls[i].get("files", {"": b""}).values())[0][:200].decode("utf8", "replace")})


def witness_vti(dom, items, fname, scale, origin):
    return {"op": "vti", "dom": [dom[0], dom[1], dom[2], list(dom[3])], "file": fname, "scale": scale, "origin": list(origin),
            "vectors": [{"name": k, "shape": list(a.shape), "dtype": str(a.dtype), "values": np.asarray(a, dtype=float).flatten().tolist()}
                        for k, a in items]}


def replay_vti(w):
    dom = (w["dom"][0], w["dom"][1], w["dom"][2], w["dom"][3])
    items = []
    for v in w["vectors"]:
        vals = [float(x) for x in v["values"]]
        items.append((v["name"], np.array(vals, dtype=float).astype(v.get("dtype", "float64")).reshape(v["shape"])))
    with TmpDir() as tmp:
        impl = impl_vti(tmp, dom, items, w["file"], w["scale"], tuple(w["origin"]))
    if "err" in impl:
        return f"write_to_vti raises {impl['msg']}"
    for name, raw in impl["files"].items():
        why = oracle_vti(raw, dom[0], dom[1], dom[2], dom[3], w["scale"], tuple(w["origin"]), items)
        if why:
            return why
    return None


# ------------------------------------------------------------------------------------------------
# WriteToVTI module histories
# ------------------------------------------------------------------------------------------------
SAVETO = ["out.vti", "out.vti", "run/out.vti", "out", "res.VTI", "a.b/c.d.vti", "x.vtk", ".vti", "deep/er/o.vti"]


def gen_wvti(rng):
    dom = rand_domain(rng, want_good=rng.random() < 0.9)
    nelx, nely, nelz, units = dom
    nel = nelx * nely * max(nelz, 1)
    nn = (nelx + 1) * (nely + 1) * (nelz + 1)
    dim = 2 if nelz == 0 else 3
    nsig = rng.randint(1, 4)
    tags = []
    for _ in range(nsig):
        t = rand_name(rng)
        if tags and rng.random() < 0.08:
            t = rng.choice(tags)  # duplicate tag: later signal replaces the dict entry
        tags.append(t)
    kinds = [rng.choice(["cell1", "point1", "point1", "cellblk", "pointblk"]) for _ in range(nsig)]
    niter = rng.randint(1, 6)
    calls = []
    for it in range(niter):
        states = []
        for s in range(nsig):
            kind = kinds[s]
            r = rng.random()
            if r < 0.06:
                kind = "skip"
            elif r < 0.09:
                kind = "malformed"
            states.append(rand_vector(rng, nel, nn, dim, kind)[0])
        calls.append(states)
    return dom, tags, calls, rng.choice(SAVETO), rng.random() < 0.4, rand_scale(rng)


def impl_wvti(tmp, dom, tags, calls, saveto, overwrite, scale):
    pm = _pm()
    nelx, nely, nelz, units = dom
    d = pm.DomainDefinition(nelx, nely, nelz, *units)
    sigs = [pm.Signal(t) for t in tags]
    mod = pm.WriteToVTI(sigs, domain=d, saveto=os.path.join(tmp.path, saveto), overwrite=overwrite, scale=scale)
    out = []
    inplace = bool(overwrite) or (len(tags) + len(calls) + nelx) % 3 != 0
    for states in calls:
        for s, st in zip(sigs, states):
            cur = s.state
            if inplace and isinstance(cur, np.ndarray) and isinstance(st, np.ndarray) and cur.shape == st.shape and cur.dtype == st.dtype \
                    and cur.flags.writeable:
                cur[...] = st          # the optimisation loop updates the state arrays IN PLACE between the iterations
            else:
                s.state = np.array(st, copy=True) if isinstance(st, np.ndarray) else st
        with warnings.catch_warnings(record=True) as w:
            warnings.simplefilter("always")
            r = call_impl(mod.response)
        nskip = len([x for x in w if "neither cell- nor point-data" in str(x.message)])
        out.append({"err": r[1]} if r[0] == "err" else {"skipped": nskip, "iter": int(mod.iter)})
        out[-1]["files"] = tmp.snapshot()
    return out


def run_wvti_stream(ctx, n):
    rng = ctx.rng
    reqs, impls, metas = [], [], []
    with TmpDir() as tmp:
        for _ in range(n):
            dom, tags, calls, saveto, ow, scale = gen_wvti(rng)
            tmp.clear()
            impl = impl_wvti(tmp, dom, tags, calls, saveto, ow, scale)
            reqs.append({"m": "c20.wvti", "nelx": dom[0], "nely": dom[1], "nelz": dom[2],
                         "hdr": {"le": True, "txt": [H(t.encode()) for t in hdr_texts(dom[3], scale, (0.0, 0.0, 0.0))]},
                         "saveto": H(TROOT + b"/" + saveto.encode()), "overwrite": ow,
                         "calls": [[vec_req(t, a) for t, a in zip(tags, states)] for states in calls]})
            impls.append(impl)
            metas.append((dom, tags, calls, saveto, ow, scale))
            ctx.branch("wvti.overwrite" if ow else "wvti.numbered")
            ctx.branch("wvti.iters.%d" % len(calls))
            # oracle: one file per successful iteration, named <root>.<iter:04d><ext>, decoding to this iteration's data
            it = 0
            for states, o in zip(calls, impl):
                if "err" in o:
                    continue
                root, ext = os.path.splitext(saveto)
                want = TROOT.decode() + "/" + (saveto if ow else f"{root}.{it:04d}{ext}")
                if ".vti" not in os.path.splitext(want)[1].lower():
                    want += ".vti"
                items = list(dict(zip(tags, states)).items())
                nel = dom[0] * dom[1] * max(dom[2], 1)
                nn = (dom[0] + 1) * (dom[1] + 1) * (dom[2] + 1)
                writes = any(a.size % nel == 0 or a.size % nn == 0 for _, a in items)
                if writes:
                    if want not in o["files"]:
                        ctx.oracle_fail(f"iteration {it}: file {want} was not written (present: {sorted(o['files'])})",
                                        witness_wvti(dom, tags, calls, saveto, ow, scale))
                    else:
                        why = oracle_vti(o["files"][want], dom[0], dom[1], dom[2], dom[3], scale, (0.0, 0.0, 0.0), items)
                        if why:
                            ctx.oracle_fail(f"iteration {it}: {why}", witness_wvti(dom, tags, calls, saveto, ow, scale))
                it += 1
    res = ctx.model(reqs)
    for req, impl, meta, m in zip(reqs, impls, metas, res):
        case = {"stream": "wvti", "dom": list(meta[0][:3]), "saveto": meta[3], "overwrite": meta[4], "iters": len(meta[2])}
        if "ok" not in m:
            ctx.disagree("wvti", case, "ok", m, "model error")
            continue
        fs = {}
        ok_all = True
        anyfile = False
        for k, (o, mo) in enumerate(zip(impl, m["ok"])):
            if "err" in o or "err" in mo:
                ctx.branch("wvti.err." + str(o.get("err")))
                if o.get("err") != mo.get("err"):
                    ctx.disagree("wvti", dict(case, call=k), o.get("err", "ok"), mo.get("err", "ok"), "error class differs")
                    ok_all = False
                    break
                # an exception may leave a partially written file behind: it is not compared, but the model's
                # file system is re-synchronised with what is on disk
                fs = dict(o["files"])
                continue
            mf = model_files(mo)
            anyfile = anyfile or bool(mf)
            fs.update(mf)
            if (o["skipped"], o["iter"]) != (len(mo["skipped"]), mo["iter"]) or \
                    {a: H(b) for a, b in o["files"].items()} != {a: H(b) for a, b in fs.items()}:
                ctx.disagree("wvti", dict(case, call=k), {"skipped": o["skipped"], "iter": o["iter"], "files": sorted(o["files"])},
                             {"skipped": len(mo["skipped"]), "iter": mo["iter"], "files": sorted(fs)}, "files after the call differ")
                ok_all = False
                break
        if ok_all:
            ctx.mode("E")
            ctx.agree(("wvti", json.dumps(req, sort_keys=True)), nontrivial=anyfile)
    if metas:
        ctx.sample({"stream": "wvti", "saveto": metas[0][3], "overwrite": metas[0][4],
                    "files_after_last_call": sorted(impls[0][-1]["files"]) if impls[0] else []})


def witness_wvti(dom, tags, calls, saveto, ow, scale):
    return {"op": "wvti", "dom": [dom[0], dom[1], dom[2], list(dom[3])], "tags": tags, "saveto": saveto, "overwrite": ow,
            "scale": scale, "calls": [[{"shape": list(a.shape), "dtype": str(a.dtype),
                                        "values": np.asarray(a, dtype=float).flatten().tolist()} for a in st] for st in calls]}


# ------------------------------------------------------------------------------------------------
# ScalarToFile histories
# ------------------------------------------------------------------------------------------------
FORMATS = [".10e", ".10e", "e", "f", ".3e", ".5g", ".3f", "g", "", "+.4e", ".0f", "12.4e", ">10.3f", ",.2f", ".17g", "E"]
SEPS = ["\t", "\t", ",", ";", " ", ", ", " | ", "::", "e"]
LOGNAMES = ["log.txt", "log.txt", "out.log", "log.csv", "data.csv.txt", "LOG.CSV", "noext", "sub/dir/log.csv", "a.csvx", "log.dat",
            "sub/log.txt", "hist.tsv"]


def rand_layout(rng, ndim):
    """memory layout of an array state: axes from slowest to fastest in memory, slicing steps, reversed axes.
    None = plain C-contiguous np.array(...)"""
    r = rng.random()
    if r < 0.3:
        return None
    ident = list(range(ndim))
    if r < 0.45:    # transposed view of a C array / Fortran order
        return {"perm": ident[::-1], "steps": [1] * ndim, "negs": [False] * ndim, "how": rng.choice(["T", "F"])}
    perm = ident[:]
    rng.shuffle(perm)
    if r < 0.6:     # axes permuted
        return {"perm": perm, "steps": [1] * ndim, "negs": [False] * ndim, "how": "view"}
    if r < 0.75:    # strided slice of a larger C array
        return {"perm": ident, "steps": [rng.randint(1, 3) for _ in range(ndim)], "negs": [False] * ndim, "how": "view"}
    if r < 0.87:    # reversed axes
        return {"perm": ident, "steps": [1] * ndim, "negs": [rng.random() < 0.6 for _ in range(ndim)], "how": "view"}
    return {"perm": perm, "steps": [rng.randint(1, 3) for _ in range(ndim)], "negs": [rng.random() < 0.4 for _ in range(ndim)],
            "how": "view"}


def build_state(spec):
    """spec -> the object handed to the signal.  spec: {"py": kind, "shape", "dtype", "values" (logical C order), "layout"}"""
    py = spec["py"]
    if py == "float":
        return float(spec["values"][0])
    if py == "int":
        return int(spec["values"][0])
    if py == "float64":
        return np.float64(spec["values"][0])
    shape = tuple(spec["shape"])
    logical = np.array(spec["values"], dtype=spec["dtype"]).reshape(shape)
    lay = spec.get("layout")
    if lay is None or len(shape) == 0:
        return logical
    if lay["how"] == "F":
        return np.asfortranarray(logical)
    if lay["how"] == "T":
        base = np.zeros(shape[::-1], dtype=spec["dtype"])
        a = base.T
        a[...] = logical
        return a
    perm, steps, negs = lay["perm"], lay["steps"], lay["negs"]
    base = np.zeros([shape[a] * steps[a] for a in perm], dtype=spec["dtype"])
    view = base[tuple(slice(None, None, -steps[a] if negs[a] else steps[a]) for a in perm)]
    inv = [perm.index(a) for a in range(len(shape))]
    a = view.transpose(inv)
    assert a.shape == shape, (a.shape, shape)
    a[...] = logical
    return a


def memory_layout(a):
    """(perm, flip) of an ndarray: axes by decreasing |stride| (ties keep C order), axes with a negative stride.
    Sent to the model as the description of the layout; the model (like the repaired code) must not depend on it."""
    perm = sorted(range(a.ndim), key=lambda ax: (-abs(a.strides[ax]), ax))
    return perm, [bool(a.strides[ax] < 0) for ax in range(a.ndim)]


def rand_spec(rng, kind, fixed=None):
    """fixed = (shape, dtype, layout, vary) chosen once per signal and history; the values are new in every call and, if
    `vary`, so is the memory layout (the shape never changes: the header is written once, at iteration 0)"""
    v = rand_values(rng, 1)[0]
    if kind == "pyfloat":
        return {"py": "float", "shape": [], "dtype": "float64", "values": [v], "layout": None}
    if kind == "pyint":
        return {"py": "int", "shape": [], "dtype": "int64", "values": [rng.randint(-10 ** 6, 10 ** 6)], "layout": None}
    if kind == "npfloat":
        return {"py": "float64", "shape": [], "dtype": "float64", "values": [v], "layout": None}
    if kind == "arr0d":
        return {"py": "ndarray", "shape": [], "dtype": "float64", "values": [v], "layout": None}
    if kind == "size1":
        return {"py": "ndarray", "shape": list(rng.choice([(1,), (1, 1)])), "dtype": "float64", "values": [v], "layout": None}
    if kind == "size0":
        return {"py": "ndarray", "shape": [0], "dtype": "float64", "values": [], "layout": None}
    shape, dtype, layout, vary = fixed
    if vary:
        layout = rand_layout(rng, len(shape))
    n = int(np.prod(shape))
    vals = [rng.randint(-99, 99) for _ in range(n)] if dtype == "int64" else rand_values(rng, n)
    return {"py": "ndarray", "shape": list(shape), "dtype": dtype, "values": vals, "layout": layout}


def rand_fixed(rng, kind):
    if kind == "vec":
        shape = (rng.randint(2, 4),)
    elif kind == "ivec":
        shape = (rng.randint(2, 3),)
    elif kind == "mat":
        shape = rng.choice([(2, 2), (2, 3), (3, 2), (1, 3), (3, 1), (2, 1, 2), (2, 3, 2), (2, 2, 2), (3, 2, 1)])
    else:
        return None
    return shape, ("int64" if kind == "ivec" or rng.random() < 0.1 else "float64"), rand_layout(rng, len(shape)), rng.random() < 0.6


def state_tokens(state, fmt):
    """(shape|None, texts, perm, flip): texts exactly as Python formats the entries (external to the model), in the
    C order of the LOGICAL index (texts[flat(idx)] = format(state[idx])), and the memory layout of the array"""
    if isinstance(state, np.ndarray) and state.ndim >= 1:
        perm, flip = memory_layout(state)
        if state.size > 1:
            return list(state.shape), [format(state[idx].item(), fmt) for idx in np.ndindex(state.shape)], perm, flip
        return list(state.shape), ([format(state, "")] if fmt == "" else ["?"]), perm, flip
    return None, [format(state.item() if isinstance(state, np.ndarray) else state, fmt)], [], []


def gen_log(rng):
    nsig = rng.randint(1, 4)
    kinds = [rng.choice(["pyfloat", "pyfloat", "pyint", "npfloat", "arr0d", "vec", "vec", "ivec", "mat", "mat", "mat"]) for _ in range(nsig)]
    fixed = [rand_fixed(rng, k) for k in kinds]
    tags = [rand_name(rng).replace("\t", "") for _ in range(nsig)]
    fmt = rng.choice(FORMATS)
    sep = rng.choice(SEPS)
    name = rng.choice(LOGNAMES)
    ncalls = rng.randint(1, 6)
    calls = []
    for it in range(ncalls):
        sts = []
        for k, fx in zip(kinds, fixed):
            r = rng.random()
            sts.append(rand_spec(rng, "size1" if r < 0.012 else "size0" if r < 0.018 else k, fx))
        calls.append(sts)
    file0 = None
    if rng.random() < 0.2:
        file0 = rng.choice([b"old content\n", b"Iteration\tx\n0\t1\n1\t2\n", b"no newline"])
    return tags, fmt, sep, name, calls, file0


def impl_log(tmp, tags, fmt, sep, name, calls, file0):
    """calls: lists of specs"""
    pm = _pm()
    full = os.path.join(tmp.path, name)
    sigs = [pm.Signal(t) for t in tags]
    mod = pm.ScalarToFile(sigs, saveto=full, fmt=fmt, separator=sep)
    if file0 is not None:
        with open(full, "wb") as f:
            f.write(file0)
    outs = []
    for sts in calls:
        for s, st in zip(sigs, sts):
            s.state = build_state(st)
        r = call_impl(mod.response)
        outs.append(r[1] if r[0] == "err" else "ok")
    data = open(full, "rb").read() if os.path.exists(full) else None
    return {"calls": outs, "iter": int(mod.iter), "file": data, "sep": mod.separator}


def split_header(line, sep):
    """header columns; a separator inside the `[i, j]` index list of a label (`, ` / `,` / blank) does not split"""
    cols, cur, depth, i = [], "", 0, 0
    while i < len(line):
        ch = line[i]
        if depth == 0 and line.startswith(sep, i):
            cols.append(cur)
            cur = ""
            i += len(sep)
            continue
        if ch == "[":
            depth += 1
        elif ch == "]" and depth > 0:
            depth -= 1
        cur += ch
        i += 1
    cols.append(cur)
    return cols


def expected_columns(tags, sts, fmt):
    """what the PROPERTY demands of a row: {label: (text, value)} with label `tag` for scalars and `tag[i, j]` for the
    entry state[i, j] of an array -- independent of the memory layout; None if labels are not unique"""
    exp = {}
    for t, st in zip(tags, sts):
        a = np.asarray(st)
        if isinstance(st, np.ndarray) and st.ndim >= 1 and st.size > 1:
            items = [(f"{t}{list(int(i) for i in idx)}", st[idx].item()) for idx in np.ndindex(st.shape)]
        elif isinstance(st, np.ndarray) and st.ndim >= 1:
            items = [(t, None)]   # size <= 1 with ndim >= 1: only reachable with the empty format (text is str(arr))
        else:
            items = [(t, a.item())]
        for lab, v in items:
            if lab in exp:
                return None
            exp[lab] = (format(st, "") if v is None else format(v, fmt), v)
    return exp


def oracle_log(impl, tags, fmt, sep_arg, name, calls):
    """header once, one row per successful call, and in every row the column under the header label `tag[i, j]`
    parses back to state[i, j] (columns under plain `tag` to the scalar), first column = iteration number.
    calls: lists of the actual state objects."""
    if impl["file"] is None:
        return None if all(c != "ok" for c in impl["calls"]) else "no log file although a call succeeded"
    if all(c != "ok" for c in impl["calls"]):
        return None
    sep = "," if ".csv" in name else sep_arg
    text = impl["file"].decode("utf8")
    if not text.endswith("\n"):
        return "log does not end with a newline"
    lines = text[:-1].split("\n")
    rows = [sts for sts, c in zip(calls, impl["calls"]) if c == "ok"]
    exps = [expected_columns(tags, sts, fmt) for sts in rows]
    if any(e is None for e in exps):
        return None                       # duplicate labels: no column can be attributed
    contract = all(sep not in txt and "\n" not in txt for e in exps for txt, _ in e.values()) and sep not in "0123456789" \
        and all("\n" not in t and "[" not in t and "]" not in t and sep not in t for t in tags) and sep not in "Iteration"
    if not contract:
        return None
    if len(lines) != 1 + len(rows):
        return f"{len(lines)} lines for {len(rows)} calls (expected one header + one row per call)"
    head = split_header(lines[0], sep)
    if head[0] != "Iteration":
        return "header does not start with the iteration column"
    labels = head[1:]
    if sorted(labels) != sorted(exps[0]):
        return f"header labels {labels} do not name the entries of the logged states {sorted(exps[0])}"
    for i, (line, exp) in enumerate(zip(lines[1:], exps)):
        cols = line.split(sep)
        if len(cols) != 1 + len(exp):
            return f"row {i}: {len(cols)} columns, expected {1 + len(exp)}"
        if not cols[0].isdigit() or int(cols[0]) != i:
            return f"row {i}: first column {cols[0]!r} is not the iteration number"
        if sorted(exp) != sorted(labels):
            continue                      # the shape of a state changed after the header was written: no labels for this row
        # every row is in the header's column order, whatever the memory layout of the state in that call
        for lab, c in zip(labels, cols[1:]):
            w, v = exp[lab]
            if c != w:
                return (f"row {i}: the column labelled {lab!r} holds {c!r}, but that entry of the state is {v!r} "
                        f"(= {w!r} in format {fmt!r})")
            if fmt in (".10e", ".17g", "e", ".3e", "E", "+.4e") and v is not None and np.isfinite(v):
                digits = {".10e": 10, ".17g": 16, "e": 6, "E": 6, ".3e": 3, "+.4e": 4}[fmt]
                if abs(float(c) - v) > 0.51 * 10.0 ** (-digits) * abs(v) * 10 + 1e-300:
                    return f"row {i}: column {lab!r} = {c!r} does not parse back to {v!r}"
    return None


def layout_name(st):
    if not isinstance(st, np.ndarray) or st.ndim == 0 or st.size <= 1:
        return None
    if st.ndim == 1:
        return "1d.reversed" if st.strides[0] < 0 else ("1d.contig" if st.flags.c_contiguous else "1d.strided")
    if st.flags.c_contiguous and not st.flags.f_contiguous:
        return "nd.C"
    if st.flags.f_contiguous and not st.flags.c_contiguous:
        return "nd.F_or_T"
    if st.flags.c_contiguous:
        return "nd.C_and_F"
    return "nd.neg_stride" if any(s < 0 for s in st.strides) else "nd.strided_or_permuted"


def run_log_stream(ctx, n):
    rng = ctx.rng
    reqs, impls, metas = [], [], []
    with TmpDir() as tmp:
        for _ in range(n):
            tags, fmt, sep, name, calls, file0 = gen_log(rng)
            tmp.clear()
            states = [[build_state(sp) for sp in sts] for sts in calls]
            changes = False
            for k in range(len(tags)):
                lays = {json.dumps(memory_layout(sts[k])) for sts in states
                        if isinstance(sts[k], np.ndarray) and sts[k].ndim >= 1 and sts[k].size > 1}
                changes = changes or len(lays) > 1
            for sts in states:
                for st in sts:
                    if layout_name(st):
                        ctx.branch("log.layout." + layout_name(st))
            ctx.branch("log.layout_changes_between_calls" if changes else "log.layout_constant")
            r = call_impl(impl_log, tmp, tags, fmt, sep, name, calls, file0)
            if r[0] == "err":
                ctx.disagree("log", {"fmt": fmt, "name": name}, r[2], None, "ScalarToFile could not be constructed / read back")
                continue
            impl = r[1]
            sigcalls = []
            for sts in states:
                sc = []
                for t, st in zip(tags, sts):
                    shape, toks, perm, flip = state_tokens(st, fmt)
                    sc.append({"tag": H(t.encode()), "shape": shape, "toks": [H(x.encode()) for x in toks], "perm": perm, "flip": flip})
                sigcalls.append(sc)
            reqs.append({"m": "c20.log", "saveto": H(TROOT + b"/" + name.encode()), "sep": H(sep.encode()), "fmt_empty": fmt == "",
                         "file0": None if file0 is None else H(file0), "calls": sigcalls})
            impls.append(impl)
            metas.append((tags, fmt, sep, name, calls, file0))
            ctx.branch("log.fmt." + (fmt or "<empty>"))
            ctx.branch("log.csv" if ".csv" in name else "log.sep." + repr(sep))
            ctx.branch("log.calls.%d" % len(calls))
            why = oracle_log(impl, tags, fmt, sep, name, states)
            if why:
                ctx.oracle_fail(why, witness_log(tags, fmt, sep, name, calls, file0))
    res = ctx.model(reqs)
    for req, impl, meta, m in zip(reqs, impls, metas, res):
        case = {"stream": "log", "fmt": meta[1], "sep": meta[2], "name": meta[3], "calls": len(meta[4])}
        if "ok" not in m:
            ctx.disagree("log", case, "ok", m, "model error")
            continue
        mo = m["ok"]
        for c in impl["calls"]:
            if c != "ok":
                ctx.branch("log.err." + c)
        ctx.compare_exact("log", case,
                          {"calls": impl["calls"], "iter": impl["iter"], "sep": H(impl["sep"].encode()),
                           "file": None if impl["file"] is None else H(impl["file"])},
                          {"calls": mo["calls"], "iter": mo["iter"], "sep": mo["sep"], "file": mo["file"]},
                          key=("log", json.dumps(req, sort_keys=True)), nontrivial=impl["iter"] > 0)
    if metas:
        i = next((i for i, mt in enumerate(metas) if any(sp.get("layout") for sts in mt[4] for sp in sts)), 0)
        ctx.sample({"stream": "log", "fmt": metas[i][1], "sep": metas[i][2], "name": metas[i][3],
                    "layouts": [sp.get("layout") for sp in metas[i][4][0]],
                    "real_file": (impls[i]["file"] or b"").decode("utf8", "replace")[:300]})


def witness_log(tags, fmt, sep, name, calls, file0):
    return {"op": "log", "tags": tags, "fmt": fmt, "sep": sep, "name": name, "file0": None if file0 is None else H(file0),
            "calls": calls}


# ------------------------------------------------------------------------------------------------
# base64 and file names
# ------------------------------------------------------------------------------------------------
def run_b64_stream(ctx, n):
    rng = ctx.rng
    datas = [bytes(rng.randrange(256) for _ in range(L)) for L in range(0, 20)]
    datas += [bytes([v]) * L for v in (0, 255) for L in (1, 2, 3, 4, 5)]
    for _ in range(n):
        datas.append(bytes(rng.randrange(256) for _ in range(rng.randint(0, 64 if rng.random() < 0.9 else 700))))
    reqs = [{"m": "c20.b64", "data": H(d)} for d in datas]
    res = ctx.model(reqs)
    for d, m in zip(datas, res):
        ctx.branch("b64.len%%3=%d" % (len(d) % 3))
        enc = base64.b64encode(d)
        ctx.compare_exact("b64", {"data": H(d)}, {"enc": H(enc), "dec": H(d), "len": len(enc)}, m.get("ok"),
                          key=("b64", H(d)), nontrivial=len(d) > 0)
        if base64.b64decode(enc, validate=True) != d:
            ctx.oracle_fail("base64 of the standard library does not round-trip", {"op": "b64", "data": H(d)})
    # strict decoder on damaged text: classes on which RFC 4648 and Python (validate=True) agree
    texts, wants = [], []
    for _ in range(n // 2):
        d = bytes(rng.randrange(256) for _ in range(rng.randint(1, 30)))
        enc = bytearray(base64.b64encode(d))
        r = rng.random()
        if r < 0.3:
            enc[rng.randrange(len(enc))] = rng.choice(b"!#$%&()*,-.:;<>?@[]^_`{|}~ \n")
            ctx.branch("b64dec.badchar")
        elif r < 0.55:
            k = rng.randrange(len(enc))
            if enc[k] != 61 and k < len(enc) - 2:
                enc[k] = 61
            ctx.branch("b64dec.pad_inside")
        elif r < 0.8:
            enc = enc.rstrip(b"=")
            cut = rng.randint(0, 3)
            enc = enc[:len(enc) - cut] if cut else enc
            ctx.branch("b64dec.truncated")
        else:
            ctx.branch("b64dec.valid")
        enc = bytes(enc)
        try:
            want = H(base64.b64decode(enc, validate=True))
        except Exception:  # binascii.Error
            want = None
        texts.append(enc)
        wants.append(want)
    res = ctx.model([{"m": "c20.b64dec", "data": H(t)} for t in texts])
    for t, w, m in zip(texts, wants, res):
        ctx.compare_exact("b64dec", {"text": t.decode("latin1")}, w, m.get("ok"), key=("b64dec", H(t)), nontrivial=w is not None)


PATHS = ["out.vti", "out", "a.b.c", ".vti", "..vti", "...", "dir.d/file", "dir.d/.hidden", "dir/.hidden.txt", "x.VTI", "x.Vtix",
         "/T/run/out.vti", "a/b.c/", "log.csv", "file.", "a..b", "/.a/b", "nodot/", "UPPER.CSV"]


def run_names_stream(ctx, n):
    rng = ctx.rng
    paths = list(PATHS)
    alpha = "ab.V/tiI_ csv"
    for _ in range(n):
        paths.append("".join(rng.choice(alpha) for _ in range(rng.randint(1, 10))))
    reqs, wants = [], []
    for p in paths:
        it = rng.choice([0, 1, 9, 10, 123, 9999, 10000, 123456])
        root, ext = os.path.splitext(p)
        vti = p if ".vti" in ext.lower() else p + ".vti"
        reqs.append({"m": "c20.names", "path": H(p.encode()), "iter": it})
        wants.append({"root": H(root.encode()), "ext": H(ext.encode()), "vti": H(vti.encode()),
                      "iter_name": H((root + ".{0:04d}".format(it) + ext).encode()), "ow_name": H((root + ext).encode()),
                      "csv": ".csv" in p})
    res = ctx.model(reqs)
    for p, w, m in zip(paths, wants, res):
        ctx.branch("names")
        ctx.compare_exact("names", {"path": p}, w, m.get("ok"), key=("names", p, w["iter_name"]))


# ------------------------------------------------------------------------------------------------
def correspondence(ctx):
    q = ctx.quick
    run_b64_stream(ctx, 150 if q else 1500)
    run_names_stream(ctx, 60 if q else 600)
    run_vti_stream(ctx, 160 if q else 2500)
    run_wvti_stream(ctx, 50 if q else 700)
    run_log_stream(ctx, 140 if q else 2000)
    if not q:
        selftest(ctx)


def selftest(ctx):
    """the harness must SEE a disagreement when one byte of the model's input stream is flipped"""
    rng = ctx.rng
    with TmpDir() as tmp:
        dom, items, kinds, fname, scale, origin = gen_vti_case(rng, malformed_ok=False)
        items = [(k, a) for k, a in items if a.size > 0][:1] or [("x", np.arange(float(dom[0] * dom[1] * max(dom[2], 1))))]
        dom = dom if items[0][0] != "x" else dom
        impl = impl_vti(tmp, dom, items, "o.vti", scale, origin)
    req = vti_request(dom, items, "o.vti", scale, origin)
    data = bytearray(U(req["vecs"][0]["data"]))
    if "err" in impl or not impl["files"] or not data:
        ctx.notes.append("selftest skipped (case wrote no file)")
        return
    data[0] ^= 1
    req["vecs"][0]["data"] = H(data)
    m = ctx.model([req])[0]
    same = "ok" in m and model_files(m["ok"]) == impl["files"]
    if same:
        ctx.disagreements.append({"stream": "selftest", "case": None, "impl": None, "model": None,
                                  "detail": "flipping a payload bit of the model input was not noticed"})
    else:
        ctx.branch("selftest.detected")


def search(ctx, disagreements):
    """re-run the property oracle on fresh cases of the streams that disagreed (the oracle ran on every generated case already)"""
    found = []
    streams = {d.get("stream", "").split(".")[0] for d in disagreements}
    rng = ctx.rng
    if "vti" in streams or not streams:
        with TmpDir() as tmp:
            for _ in range(300):
                dom, items, kinds, fname, scale, origin = gen_vti_case(rng, malformed_ok=False)
                tmp.clear()
                impl = impl_vti(tmp, dom, items, fname, scale, origin)
                if "err" in impl:
                    if all(k in ("cell1", "point1", "skip") for k in kinds):
                        found.append({"what": f"write_to_vti raises {impl['msg']} on plain vectors", "witness": witness_vti(dom, items, fname, scale, origin)})
                    continue
                for raw in impl["files"].values():
                    why = oracle_vti(raw, dom[0], dom[1], dom[2], dom[3], scale, origin, items)
                    if why:
                        found.append({"what": why, "witness": witness_vti(dom, items, fname, scale, origin)})
                if len(found) >= 3:
                    break
    if "log" in streams or not streams:
        with TmpDir() as tmp:
            for _ in range(300):
                tags, fmt, sep, name, calls, file0 = gen_log(rng)
                tmp.clear()
                r = call_impl(impl_log, tmp, tags, fmt, sep, name, calls, file0)
                if r[0] == "err":
                    continue
                why = oracle_log(r[1], tags, fmt, sep, name, [[build_state(sp) for sp in sts] for sts in calls])
                if why:
                    found.append({"what": why, "witness": witness_log(tags, fmt, sep, name, calls, file0)})
                if len(found) >= 5:
                    break
    found.sort(key=lambda w: len(json.dumps(w["witness"], default=str)))
    return found


def replay(ctx, data):
    w = data.get("witness", {})
    w = w.get("witness", w)
    op = w.get("op")
    if op == "vti":
        why = replay_vti(w)
    elif op == "wvti":
        dom = (w["dom"][0], w["dom"][1], w["dom"][2], w["dom"][3])
        calls = [[np.array(e["values"], dtype=float).astype(e["dtype"]).reshape(e["shape"]) for e in st] for st in w["calls"]]
        why = None
        with TmpDir() as tmp:
            impl = impl_wvti(tmp, dom, w["tags"], calls, w["saveto"], w["overwrite"], w["scale"])
        for it, (states, o) in enumerate(zip(calls, impl)):
            if "err" in o:
                why = f"response() raises {o['err']}"
                break
            for name, raw in o["files"].items():
                root, ext = os.path.splitext(w["saveto"])
                if w["overwrite"] or f".{it:04d}" in name:
                    why = why or oracle_vti(raw, dom[0], dom[1], dom[2], dom[3], w["scale"], (0.0, 0.0, 0.0),
                                            list(dict(zip(w["tags"], states)).items()))
    elif op == "log":
        calls = w["calls"]
        file0 = None if w.get("file0") is None else U(w["file0"])
        with TmpDir() as tmp:
            r = call_impl(impl_log, tmp, w["tags"], w["fmt"], w["sep"], w["name"], calls, file0)
        why = r[2] if r[0] == "err" else oracle_log(r[1], w["tags"], w["fmt"], w["sep"], w["name"],
                                                    [[build_state(sp) for sp in sts] for sts in calls])
    elif op == "b64":
        d = U(w["data"])
        why = None if base64.b64decode(base64.b64encode(d), validate=True) == d else "base64 round trip fails"
    else:
        return {"still_failing": False, "note": "replay file names no failing input (see no_longer_checks)"}
    return {"still_failing": bool(why), "what": why}
