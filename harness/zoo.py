"""Module zoo: generated configurations of every pyMOTO module that can be instantiated here, with the
generic property oracles that run on the REAL code:

  adjoint_oracle   (C01)  Re<g, v> == d/dt Re<w, y(x + t v)>   (exact Jacobians for affine modules,
                          Richardson-extrapolated central differences otherwise)
  linearity_oracle (C04)  seed linearity, second sensitivity() call doubles, states untouched
  history_oracle   (C03)  fresh-instance comparison after an arbitrary history

A `Case` describes one module configuration + one admissible input point:
  name      : module / option description (used as distinct key)
  make()    : fresh (module, input_signals) with the input states set
  states    : list of input states (numpy arrays / scalars / scipy sparse)
  freeze(m) : optional hook run after the first response (freezes documented memories: AggScaling, active set)
  affine    : the response is affine in the inputs (finite differences are exact up to rounding)
  dirs(rng) : admissible perturbation directions (one entry per input, None = input not perturbed)
  smooth_tol: relative tolerance for the finite-difference comparison
"""
import copy
import math

import numpy as np
import scipy.sparse as sps

import pymoto as pym
from pymoto import DyadCarrier


# ----------------------------------------------------------------------------------------------
# helpers on signal values
# ----------------------------------------------------------------------------------------------
def is_sparse(a):
    return sps.issparse(a)


def vcopy(a):
    if a is None:
        return None
    if isinstance(a, DyadCarrier):
        return a.copy()
    if is_sparse(a):
        return a.copy()
    return copy.deepcopy(a)


def _align(*arrs):
    """an empty (shape-less) DyadCarrier densifies to a (0, 0) array: read it as the zero matrix of the others' shape"""
    shp = next((a.shape for a in arrs if a.size), None)
    return [np.zeros(shp, dtype=a.dtype) if (shp is not None and a.size == 0) else a for a in arrs]


def todense(a):
    if isinstance(a, DyadCarrier):
        return a.todense()
    if is_sparse(a):
        return np.asarray(a.todense())
    return np.asarray(a)


def pair(g, v, pattern=None):
    """Re sum(g * v) (no conjugation), for arrays, scalars, sparse matrices and DyadCarriers.
    `pattern` (bool array) restricts the pairing to the admissible entries (sparse structure)."""
    if g is None or v is None:
        return 0.0
    G = todense(g)
    V = todense(v)
    if pattern is not None:
        return float(np.real(np.sum(G[pattern] * V[pattern])))
    return float(np.real(np.sum(G * V)))


def axpy(x, t, v):
    """x + t v keeping the container type of x"""
    if v is None:
        return vcopy(x)
    if is_sparse(x):
        r = x.copy().astype(np.result_type(x.dtype, np.asarray(t).dtype, v.dtype))
        r = r + t * v
        return type(x)(r)
    if np.isscalar(x) or (isinstance(x, np.ndarray) and x.ndim == 0):
        return x + t * v
    return x + t * v


def same(a, b):
    """exact equality of two signal values (type-insensitive for containers)"""
    if a is None or b is None:
        return a is None and b is None
    A, B = todense(a), todense(b)
    return A.shape == B.shape and np.array_equal(A, B)


def maxabs(a):
    if a is None:
        return 0.0
    A = todense(a)
    return float(np.max(np.abs(A))) if A.size else 0.0


def rand_like(rng, y, cplx=None):
    """random seed of the shape of y (complex if y is complex or cplx)"""
    Y = todense(y)
    c = np.iscomplexobj(Y) if cplx is None else cplx
    w = rng.standard_normal(Y.shape)
    if c:
        w = w + 1j * rng.standard_normal(Y.shape)
    if Y.ndim == 0:
        return complex(w) if c else float(w)
    return w


class Case:
    def __init__(self, name, make, affine=False, freeze=None, dirs=None, smooth_tol=2e-6, seed_kinds=None,
                 out_pattern=None, notes="", clip=None, hist_scale=0.3):
        self.clip = clip              # (lo, hi) admissible range of the (first) input, used by history generators
        self.hist_scale = hist_scale  # relative size of the input changes in histories
        self.name = name
        self.make = make
        self.affine = affine
        self.freeze = freeze
        self.dirs = dirs
        self.smooth_tol = smooth_tol
        self.seed_kinds = seed_kinds  # per output: "dense" / "dyad" / None
        self.out_pattern = out_pattern
        self.notes = notes


# ----------------------------------------------------------------------------------------------
# generic oracles
# ----------------------------------------------------------------------------------------------
def _default_dirs(rng, states):
    out = []
    for x in states:
        if is_sparse(x):
            d = x.copy().astype(float if not np.iscomplexobj(x.data) else complex)
            d.data = rng.standard_normal(d.data.shape) + (1j * rng.standard_normal(d.data.shape) if np.iscomplexobj(x.data) else 0)
            out.append(d)
        else:
            X = np.asarray(x)
            v = rng.standard_normal(X.shape)
            if np.iscomplexobj(X):
                v = v + 1j * rng.standard_normal(X.shape)
            out.append(v if X.ndim else (complex(v) if np.iscomplexobj(X) else float(v)))
    return out


def _set_states(sigs, states):
    for s, x in zip(sigs, states):
        s.state = vcopy(x)


def _phi(m, sigs, states, seeds):
    _set_states(sigs, states)
    m.response()
    tot = 0.0
    for so, w in zip(m.sig_out, seeds):
        if w is None:
            continue
        tot += pair(w, so.state)
    return tot


def _make_seeds(rng, m, case, partial=True):
    seeds = []
    nout = len(m.sig_out)
    for j, so in enumerate(m.sig_out):
        if partial and nout > 1 and rng.random() < 0.3:
            seeds.append(None)
            continue
        y = so.state
        kind = case.seed_kinds[j] if case.seed_kinds else "dense"
        cplx = np.iscomplexobj(todense(y)) or (rng.random() < 0.15 and not case.affine and False)
        if kind == "dyad":
            n0, n1 = y.shape
            k = int(rng.integers(1, 3))
            us = [rng.standard_normal(n0) + (1j * rng.standard_normal(n0) if cplx else 0) for _ in range(k)]
            vs = [rng.standard_normal(n1) + (1j * rng.standard_normal(n1) if cplx else 0) for _ in range(k)]
            seeds.append(DyadCarrier(us, vs))
        else:
            w = rand_like(rng, y, cplx)
            # structured seeds: all-zero columns (e.g. un-seeded eigenvectors) / zero entries
            if isinstance(w, np.ndarray) and w.ndim >= 1 and w.shape[-1] >= 2 and rng.random() < 0.35:
                keepc = rng.random(w.shape[-1]) < 0.5
                if not keepc.any():
                    keepc[int(rng.integers(0, w.shape[-1]))] = True
                w = w * keepc
            seeds.append(w)
    if all(s is None for s in seeds):
        j = int(rng.integers(0, nout))
        seeds[j] = rand_like(rng, m.sig_out[j].state)
    return seeds


def vary_layout(rng, sigs):
    """semantically irrelevant variation of the memory layout of dense 2-D input states (Fortran order / transposed view)"""
    for sg in sigs:
        x = sg.state
        if isinstance(x, np.ndarray) and x.ndim == 2 and rng.random() < 0.35:
            sg.state = np.asfortranarray(x) if rng.random() < 0.5 else np.ascontiguousarray(x.T).T


def admissible_point(case, rng, base, scale=None):
    """another admissible input point near `base` (used for warm-up responses and histories)"""
    vs = case.dirs(rng, base) if case.dirs else _default_dirs(rng, base)
    t = float(rng.uniform(0.15, 1.0)) * (case.hist_scale if scale is None else scale)
    xs = max([maxabs(x) for x in base] + [1e-3])
    vn = max([maxabs(v) for v in vs if v is not None] + [1e-12])
    pt = [axpy(x, t * xs / vn, v) for x, v in zip(base, vs)]
    if case.clip is not None:
        pt[0] = np.clip(pt[0], *case.clip)
    return pt


def warm_up(case, rng, m, sigs):
    """a response (and sometimes a seeded sensitivity + reset) at ANOTHER admissible point before the tested one, so that
    caches and documented memories are not in their initial state"""
    base = [vcopy(sg.state) for sg in sigs]
    full = getattr(case, "warm_full", False)   # components with per-mode / per-column caches: always warm them completely
    if full or rng.random() < 0.6:
        _set_states(sigs, admissible_point(case, rng, base))
        m.response()
        if full or rng.random() < 0.5:
            seeds = [rand_like(rng, so.state) for so in m.sig_out] if full else _make_seeds(rng, m, case, partial=True)
            for so, w in zip(m.sig_out, seeds):
                if w is not None:
                    so.sensitivity = vcopy(w)
            m.sensitivity()
        m.reset()
        _set_states(sigs, base)


def adjoint_oracle(case, rng, ndirs=2, partial=True):
    """returns None if the adjoint identity holds at this point, else a description string"""
    m, sigs = case.make()
    vary_layout(rng, sigs)
    try:
        warm_up(case, rng, m, sigs)
    except Exception:  # the warm-up point was not admissible (e.g. empty active set): start without warm-up
        m, sigs = case.make()
    states = [vcopy(s.state) for s in sigs]
    m.response()
    seeds = _make_seeds(rng, m, case, partial)
    for so, w in zip(m.sig_out, seeds):
        if w is not None:
            so.sensitivity = vcopy(w)
    m.sensitivity()
    grads = [vcopy(s.sensitivity) for s in sigs]
    if case.freeze:
        case.freeze(m)
    worst = None
    for _ in range(ndirs):
        vs = case.dirs(rng, states) if case.dirs else _default_dirs(rng, states)
        d_an = 0.0
        for g, v, x in zip(grads, vs, states):
            if v is None:
                continue
            if g is None:
                continue
            pat = (todense(x) != 0) if is_sparse(x) else None
            d_an += pair(g, v, pat)
        # step size relative to the input scale
        xs = max([maxabs(x) for x in states] + [1e-3])
        vsn = max([maxabs(v) for v in vs if v is not None] + [1e-12])
        h = 1e-3 * xs / vsn if not case.affine else 0.25 * xs / vsn

        def D(hh):
            fp = _phi(m, sigs, [axpy(x, hh, v) for x, v in zip(states, vs)], seeds)
            fm = _phi(m, sigs, [axpy(x, -hh, v) for x, v in zip(states, vs)], seeds)
            return (fp - fm) / (2 * hh), abs(fp) + abs(fm)

        if case.affine:
            d_fd, mag = D(h)
            unc = 1e-11 * mag / h
            scale = max(abs(d_fd), abs(d_an), 1e-8 * mag, 1e-12)
            tol = 1e-9 * scale + unc
        else:
            # Richardson extrapolation with a consistency test: near a non-differentiable point (sign
            # normalisation of eigenvectors, active-set switches) the step is reduced; if no consistent
            # estimate is found the direction is skipped (counted), never reported
            d_fd = None
            for attempt in range(4):
                d1, mag = D(h)
                d2, _ = D(h / 2)
                d4, _ = D(h / 4)
                r1, r2 = (4 * d2 - d1) / 3, (4 * d4 - d2) / 3
                scale = max(abs(r2), abs(d_an), 1e-8 * mag, 1e-12)
                rnd = 4e-10 * mag / h
                if abs(r1 - r2) <= 0.2 * case.smooth_tol * scale + rnd:
                    d_fd, unc = r2, abs(r1 - r2) + rnd
                    break
                h = h / 8
            if d_fd is None:
                case.skipped = getattr(case, "skipped", 0) + 1
                continue
            tol = case.smooth_tol * scale + unc
        err = abs(d_fd - d_an)
        if not err <= tol:
            if worst is None or err / scale > worst[0]:
                worst = (err / scale, d_an, d_fd)
    _set_states(sigs, states)
    if worst:
        return f"{case.name}: backpropagated Re<g,v> = {worst[1]:.10g} but directional derivative = {worst[2]:.10g} (rel.err {worst[0]:.2e})"
    return None


def linearity_oracle(case, rng):
    """C04: linear in the seed, second sensitivity() doubles, states untouched by sensitivity()/reset(),
    response() leaves inputs and sensitivities untouched"""
    m, sigs = case.make()
    vary_layout(rng, sigs)
    try:
        warm_up(case, rng, m, sigs)
    except Exception:  # the warm-up point was not admissible (e.g. empty active set): start without warm-up
        m, sigs = case.make()
    x0 = [vcopy(s.state) for s in sigs]
    m.response()
    for s, x in zip(sigs, x0):
        if not same(s.state, x):
            return f"{case.name}: response() changed the state of input '{s.tag}'"
    y0 = [vcopy(s.state) for s in m.sig_out]
    w1 = _make_seeds(rng, m, case, partial=False)
    w2 = _make_seeds(rng, m, case, partial=False)
    # complementary structure: a column that is un-seeded in the first passes and seeded in a later one
    for j, (u, v) in enumerate(zip(w1, w2)):
        if isinstance(u, np.ndarray) and u.ndim >= 1 and u.shape[-1] >= 2 and rng.random() < 0.5:
            col = int(rng.integers(0, u.shape[-1]))
            u = u.copy()
            u[..., col] = 0
            w1[j] = u
            if isinstance(v, np.ndarray) and not np.any(v[..., col]):
                v = v.copy()
                v[..., col] = rng.standard_normal(v[..., col].shape)
                w2[j] = v
    a, b = 0.5 * float(rng.integers(-4, 5) or 1), 0.25 * float(rng.integers(-8, 9) or 3)

    def comb(u, v):
        if isinstance(u, DyadCarrier):
            return a * u + b * v
        return a * u + b * v

    zerod = rng.random() < 0.5      # scalar seeds handed over as 0-d numpy arrays (mutable!) instead of Python / numpy scalars
    seed_changed = []

    def seedobj(w):
        if zerod and w is not None and not isinstance(w, DyadCarrier) and np.ndim(w) == 0:
            return np.array(w)
        return vcopy(w)

    def run(seeds, twice=False, thrice=False):
        m.reset()
        for so, w in zip(m.sig_out, seeds):
            so.sensitivity = seedobj(w)
        m.sensitivity()
        g1 = [vcopy(s.sensitivity) for s in sigs]
        for so, w in zip(m.sig_out, seeds):
            if w is not None and not isinstance(w, DyadCarrier) and not same(so.sensitivity, w):
                seed_changed.append(so.tag)
        if not twice:
            return g1, None
        m.sensitivity()
        g2 = [vcopy(s.sensitivity) for s in sigs]
        if thrice:
            m.sensitivity()
            return g1, g2, [vcopy(s.sensitivity) for s in sigs]
        return g1, g2

    g1, g1b, g1c = run(w1, twice=True, thrice=True)
    # (a seed modified in place is NOT reported: the property protects states, and e.g. AssembleGeneral masks the bc rows of a
    #  dense seed idempotently; what matters is that repeated calls keep adding the same contribution -> the three-call check)
    for i, (u, v) in enumerate(zip(g1, g1c)):
        if u is None or v is None:
            continue
        U, V = _align(todense(u), todense(v))
        if not np.allclose(V, 3 * U, rtol=1e-9, atol=1e-12 * max(maxabs(U), 1e-300)):
            return f"{case.name}: calling sensitivity() three times does not add the contribution three times (input {i}: max|g3-3g1| = {np.max(np.abs(V - 3 * U)):.3e})"
    # states must be untouched
    for s, x in zip(sigs, x0):
        if not same(s.state, x):
            return f"{case.name}: sensitivity() changed the state of input '{s.tag}'"
    for s, y in zip(m.sig_out, y0):
        if not same(s.state, y):
            return f"{case.name}: sensitivity() changed the state of output '{s.tag}'"
    for i, (u, v) in enumerate(zip(g1, g1b)):
        if u is None and v is None:
            continue
        if u is None or v is None:
            return f"{case.name}: second sensitivity() call changes None-ness of input {i}"
        U, V = _align(todense(u), todense(v))
        sc = max(maxabs(U), 1e-300)
        if not np.allclose(V, 2 * U, rtol=1e-9, atol=1e-12 * sc):
            return f"{case.name}: calling sensitivity() twice does not add the same contribution twice (input {i}: max|g2-2g1| = {np.max(np.abs(V - 2 * U)):.3e})"
    g2, _ = run(w2)
    # accumulation of two DIFFERENT seeds without reset = sum of the single contributions
    m.reset()
    for wk in (w1, w2):
        for so, w in zip(m.sig_out, wk):
            so.sensitivity = vcopy(w)
        m.sensitivity()
    gacc = [vcopy(s.sensitivity) for s in sigs]
    # the combined seed is evaluated in a NEW response cycle on the same inputs (response() must not matter)
    m.reset()
    if not getattr(case, "response_memory", False):
        m.response()
        for s, x in zip(sigs, x0):
            if not same(s.state, x):
                return f"{case.name}: a second response() changed the state of input '{s.tag}'"
        y0 = [vcopy(s.state) for s in m.sig_out]   # (an iterative eigensolver may return the outputs to tolerance only)
    g12, _ = run([comb(u, v) for u, v in zip(w1, w2)])
    for i, (u, v, uv) in enumerate(zip(g1, g2, gacc)):
        if u is None and v is None and uv is None:
            continue
        if u is None or v is None or uv is None:
            return f"{case.name}: None sensitivities inconsistent for input {i} when accumulating two seeds"
        U, V, UV = _align(todense(u), todense(v), todense(uv))
        sc = max(maxabs(U) + maxabs(V), 1e-300)
        if not np.allclose(UV, U + V, rtol=1e-8, atol=1e-10 * sc):
            return (f"{case.name}: two sensitivity() calls with seeds w1, w2 (no reset) do not accumulate g1 + g2 "
                    f"(input {i}: max deviation {np.max(np.abs(UV - U - V)):.3e}, scale {sc:.3e})")
    for i, (u, v, uv) in enumerate(zip(g1, g2, g12)):
        if u is None and v is None and uv is None:
            continue
        if u is None or v is None or uv is None:
            return f"{case.name}: None sensitivities inconsistent for input {i}"
        U, V, UV = _align(todense(u), todense(v), todense(uv))
        sc = max(maxabs(U) * abs(a) + maxabs(V) * abs(b), 1e-300)
        if not np.allclose(UV, a * U + b * V, rtol=1e-8, atol=1e-10 * sc):
            return f"{case.name}: sensitivity is not linear in the seed (input {i}: max deviation {np.max(np.abs(UV - a * U - b * V)):.3e}, scale {sc:.3e})"
    # linearity for ALL scalars: a seed scaled by a very small factor gives the equally scaled sensitivity
    tiny = 2.0 ** -40
    gt, _ = run([tiny * u for u in w1])
    for i, (u, ut) in enumerate(zip(g1, gt)):
        if u is None and ut is None:
            continue
        if u is None or ut is None:
            return f"{case.name}: sensitivity for the seed scaled by 2^-40 is None-inconsistent for input {i}"
        U, UT = _align(todense(u), todense(ut))
        sc = max(maxabs(U), 1e-300)
        if not np.allclose(UT, tiny * U, rtol=1e-7, atol=1e-9 * tiny * sc):
            return (f"{case.name}: sensitivity is not linear in the seed for a small factor (input {i}: seed scaled by 2^-40 gives "
                    f"max|g| = {maxabs(UT):.3e}, expected {tiny * sc:.3e})")
    m.reset()
    for s, x in zip(sigs, x0):
        if not same(s.state, x):
            return f"{case.name}: reset() changed the state of input '{s.tag}'"
    for s, y in zip(m.sig_out, y0):
        if not same(s.state, y):
            return f"{case.name}: reset() changed the state of output '{s.tag}'"
    for s in list(sigs) + list(m.sig_out):
        if s.sensitivity is not None and maxabs(s.sensitivity) != 0:
            return f"{case.name}: reset() left a sensitivity on '{s.tag}'"
    # response must not touch sensitivities
    for so, w in zip(m.sig_out, w1):
        so.sensitivity = vcopy(w)
    m.sensitivity()
    gs = [vcopy(s.sensitivity) for s in sigs]
    ws = [vcopy(s.sensitivity) for s in m.sig_out]
    m.response()
    for s, g in zip(sigs, gs):
        if not same(s.sensitivity, g):
            return f"{case.name}: response() changed the sensitivity of input '{s.tag}'"
    for s, w in zip(m.sig_out, ws):
        if not same(s.sensitivity, w):
            return f"{case.name}: response() changed the sensitivity of output '{s.tag}'"
    return None


# ----------------------------------------------------------------------------------------------
# case generators
# ----------------------------------------------------------------------------------------------
def _ri(rng, a, b):
    return int(rng.integers(a, b + 1))


def _domain(rng, dim=None, small=True, minlayers=1):
    if dim is None:
        dim = 2 if rng.random() < 0.6 else 3
    sizes = [float(2.0 ** _ri(rng, -1, 1)) if rng.random() < 0.5 else float(rng.uniform(0.3, 2.0)) for _ in range(3)]
    if dim == 2:
        nx, ny = _ri(rng, minlayers, 5 if small else 9), _ri(rng, minlayers, 5 if small else 9)
        return pym.DomainDefinition(nx, ny, 0, *sizes), f"2d{nx}x{ny}"
    nx, ny, nz = _ri(rng, minlayers, 3), _ri(rng, minlayers, 3), _ri(rng, minlayers, 3)
    return pym.DomainDefinition(nx, ny, nz, *sizes), f"3d{nx}x{ny}x{nz}"


def gen_assembly(rng):
    dom, dn = _domain(rng)
    kind = rng.choice(["general", "stiffness", "mass", "poisson"])
    ndof_geo = dom.dim
    bc = None
    kw = {}
    if kind == "general":
        ndof = _ri(rng, 1, 2)
        k = dom.elemnodes * ndof
        cplx_el = rng.random() < 0.2
        el = rng.standard_normal((k, k)) + (1j * rng.standard_normal((k, k)) if cplx_el else 0)
        args = dict(element_matrix=el)
        cls = pym.AssembleGeneral
        n = ndof * dom.nnodes
    elif kind == "stiffness":
        cls = pym.AssembleStiffness
        args = dict(e_modulus=float(rng.uniform(0.5, 3)), poisson_ratio=float(rng.uniform(0.0, 0.45)))
        if dom.dim == 2:
            args["plane"] = str(rng.choice(["strain", "stress"]))
        n = ndof_geo * dom.nnodes
    elif kind == "mass":
        ndof = _ri(rng, 1, 3)
        cls = pym.AssembleMass
        args = dict(material_property=float(rng.uniform(0.5, 2)), ndof=ndof)
        n = ndof * dom.nnodes
    else:
        cls = pym.AssemblePoisson
        args = dict(material_property=float(rng.uniform(0.5, 2)))
        n = dom.nnodes
    if rng.random() < 0.6:
        nb = _ri(rng, 1, max(1, n // 3))
        bc = np.sort(rng.choice(n, size=nb, replace=False))
        kw["bc"] = bc
        if rng.random() < 0.5:
            kw["bcdiagval"] = float(rng.uniform(0.5, 2))
    if rng.random() < 0.3:
        kw["add_constant"] = sps.csc_matrix(np.diag(rng.standard_normal(n)))
    mt = rng.choice(["csc", "csr", "coo"]) if "add_constant" not in kw else "csc"
    kw["matrix_type"] = {"csc": sps.csc_matrix, "csr": sps.csr_matrix, "coo": sps.coo_matrix}[mt]
    seedkind = "dyad" if rng.random() < 0.5 else "dense"
    cplx_x = rng.random() < 0.15
    x = rng.uniform(0.1, 1.0, dom.nel) + (1j * rng.uniform(-0.5, 0.5, dom.nel) if cplx_x else 0)

    def make():
        s = pym.Signal("x", x.copy())
        k2 = dict(kw)
        if "add_constant" in k2:
            k2["add_constant"] = k2["add_constant"].copy()
        return cls([s], domain=dom, **args, **k2), [s]

    return Case(f"Assemble.{kind}.{dn}.bc{0 if bc is None else len(bc)}.{mt}.seed{seedkind}{'.cx' if cplx_x else ''}",
                make, affine=True, seed_kinds=[seedkind])


def gen_elemop(rng):
    dom, dn = _domain(rng)
    kind = rng.choice(["general", "general_rep", "strain", "stress", "average"])
    if kind == "general":
        ndof = _ri(rng, 1, 3)
        lead = [(), (2,), (2, 3)][_ri(rng, 0, 2)]
        em = rng.standard_normal((*lead, dom.elemnodes * ndof))
        make_m = lambda s: pym.ElementOperation([s], domain=dom, element_matrix=em.copy())
    elif kind == "general_rep":
        ndof = _ri(rng, 2, 3)
        lead = [(), (2,)][_ri(rng, 0, 1)]
        em = rng.standard_normal((*lead, dom.elemnodes))
        make_m = lambda s: pym.ElementOperation([s], domain=dom, element_matrix=em.copy())
    elif kind == "strain":
        ndof = dom.dim
        voigt = bool(rng.random() < 0.5)
        make_m = lambda s: pym.Strain([s], domain=dom, voigt=voigt)
    elif kind == "stress":
        ndof = dom.dim
        kw = dict(e_modulus=float(rng.uniform(0.5, 3)), poisson_ratio=float(rng.uniform(0, 0.45)))
        if dom.dim == 2:
            kw["plane"] = str(rng.choice(["strain", "stress"]))
        make_m = lambda s: pym.Stress([s], domain=dom, **kw)
    else:
        ndof = _ri(rng, 1, 3)
        make_m = lambda s: pym.ElementAverage([s], domain=dom)
    cplx = rng.random() < 0.15 and kind in ("general", "average")
    u = rng.standard_normal(ndof * dom.nnodes) + (1j * rng.standard_normal(ndof * dom.nnodes) if cplx else 0)

    def make():
        s = pym.Signal("u", u.copy())
        return make_m(s), [s]

    return Case(f"ElementOperation.{kind}.{dn}.ndof{ndof}{'.cx' if cplx else ''}", make, affine=True)


def gen_nodalop(rng):
    dom, dn = _domain(rng)
    kind = rng.choice(["general", "thermo"])
    if kind == "general":
        ndof = _ri(rng, 1, 3)
        em = rng.standard_normal((dom.elemnodes * ndof,))
        make_m = lambda s: pym.NodalOperation([s], domain=dom, element_matrix=em.copy())
    else:
        kw = dict(e_modulus=float(rng.uniform(0.5, 3)), poisson_ratio=float(rng.uniform(0, 0.45)), alpha=float(rng.uniform(0.1, 2)))
        if dom.dim == 2:
            kw["plane"] = str(rng.choice(["strain", "stress"]))
        make_m = lambda s: pym.ThermoMechanical([s], domain=dom, **kw)
    x = rng.standard_normal(dom.nel)

    def make():
        s = pym.Signal("x", x.copy())
        return make_m(s), [s]

    return Case(f"NodalOperation.{kind}.{dn}", make, affine=True)


BC_MODES = ["symmetric", "edge", "wrap", 0.0, 1.0, 0.3]


def gen_filterconv(rng):
    dom, dn = _domain(rng)
    kw = {}
    for k in ["xmin_bc", "xmax_bc", "ymin_bc", "ymax_bc"] + (["zmin_bc", "zmax_bc"] if dom.dim == 3 else []):
        kw[k] = BC_MODES[_ri(rng, 0, len(BC_MODES) - 1)]
    if rng.random() < 0.5:
        kw["radius"] = float(rng.uniform(0.3, 3.5))
        kw["relative_units"] = bool(rng.random() < 0.5)
        desc = f"r{kw['radius']:.2f}{'rel' if kw['relative_units'] else 'abs'}"
    else:
        maxs = [dom.nelx, dom.nely] + ([dom.nelz] if dom.dim == 3 else [])
        shp = [2 * _ri(rng, 0, min(3, n + 1)) + 1 for n in maxs]
        kw["weights"] = rng.standard_normal(shp)
        desc = "w" + "x".join(map(str, shp))
    x = rng.uniform(0, 1, dom.nel)
    ovr = rng.random() < 0.25

    def make():
        s = pym.Signal("x", x.copy())
        k2 = {k: (v.copy() if isinstance(v, np.ndarray) else v) for k, v in kw.items()}
        m = pym.FilterConv([s], domain=dom, **k2)
        if ovr:
            m.override_values((slice(0, 1), slice(None), slice(None)), 0.5)
        return m, [s]

    modes = "".join(str(kw[k])[0] for k in sorted(kw) if k.endswith("_bc"))
    return Case(f"FilterConv.{dn}.{desc}.{modes}{'.ovr' if ovr else ''}", make, affine=True)


def gen_densityfilter(rng):
    dom, dn = _domain(rng)
    r = float(rng.uniform(0.5, 3.5))
    kw = dict(radius=r)
    if rng.random() < 0.3:
        kw["nonpadding"] = np.sort(rng.choice(dom.nel, size=_ri(rng, 1, dom.nel), replace=False))
    x = rng.uniform(0, 1, dom.nel)

    def make():
        s = pym.Signal("x", x.copy())
        return pym.DensityFilter([s], domain=dom, **kw), [s]

    return Case(f"DensityFilter.{dn}.r{r:.2f}{'.np' if 'nonpadding' in kw else ''}", make, affine=True)


def gen_overhang(rng):
    dom, dn = _domain(rng)
    if dom.dim == 2:
        d = [[1, 0], [-1, 0], [0, 1], [0, -1]][_ri(rng, 0, 3)]
        ns = 3
    else:
        d = [[1, 0, 0], [-1, 0, 0], [0, 1, 0], [0, -1, 0], [0, 0, 1], [0, 0, -1]][_ri(rng, 0, 5)]
        ns = [5, 9][_ri(rng, 0, 1)]
    kw = dict(direction=d, xi_0=float(rng.uniform(0.3, 0.7)), p=float(rng.uniform(5, 40)), eps=float(10 ** rng.uniform(-4, -2)), nsampling=ns)
    x = rng.uniform(0.05, 1.0, dom.nel)

    def make():
        s = pym.Signal("x", x.copy())
        return pym.OverhangFilter([s], domain=dom, **kw), [s]

    return Case(f"OverhangFilter.{dn}.dir{d}.ns{ns}", make, affine=False, smooth_tol=5e-5, clip=(0.0, 1.0))


MATH_EXPRS = [
    ("inp0*inp1", 2), ("inp0+2*inp1", 2), ("sin(inp0)*inp1", 2), ("inp0^2 + inp1/ (2+inp0^2)", 2),
    ("exp(inp0/3) - inp1*inp2", 3), ("sqrt(1+inp0^2)", 1), ("log(2+inp0^2)*cos(inp1)", 2), ("inp0*inp0*inp1 + inp2", 3),
]


def gen_mathgeneral(rng):
    expr, nin = MATH_EXPRS[_ri(rng, 0, len(MATH_EXPRS) - 1)]
    shapes_pool = [(), (3,), (2, 3), (1, 3), (2, 1)]
    shapes = [shapes_pool[_ri(rng, 0, len(shapes_pool) - 1)] for _ in range(nin)]
    cplx = [rng.random() < 0.2 for _ in range(nin)]
    xs = []
    for shp, c in zip(shapes, cplx):
        v = rng.uniform(0.2, 1.5, shp) + (1j * rng.uniform(-0.5, 0.5, shp) if c else 0)
        xs.append(v if len(shp) else (complex(v) if c else float(v)))

    def make():
        sigs = [pym.Signal(f"v{i}", vcopy(x)) for i, x in enumerate(xs)]
        return pym.MathGeneral(sigs, expression=expr), sigs

    return Case(f"MathGeneral.{expr}.{shapes}.{''.join('c' if c else 'r' for c in cplx)}", make, affine=False)


EINSUMS = [
    ("i->", [(4,)]), ("ij->", [(2, 3)]), ("ii->", [(3, 3)]), ("i,i->i", [(4,), (4,)]), ("i,i->", [(4,), (4,)]),
    ("i,j->ij", [(2,), (3,)]), ("ij,j->i", [(3, 4), (4,)]), ("i,ij,j->", [(3,), (3, 3), (3,)]),
    ("ij,ij->ij", [(2, 3), (2, 3)]), ("ji,ij->ij", [(3, 2), (2, 3)]), ("ji,jk,kl->il", [(3, 2), (3, 3), (3, 2)]),
    ("ij,jk->ik", [(2, 3), (3, 2)]), ("ijk,k->ij", [(2, 2, 3), (3,)]), ("ij->ji", [(2, 3)]), ("ij->i", [(2, 3)]),
]


def gen_einsum(rng):
    expr, shapes = EINSUMS[_ri(rng, 0, len(EINSUMS) - 1)]
    cplx = [rng.random() < 0.25 for _ in shapes]
    xs = [rng.standard_normal(s) + (1j * rng.standard_normal(s) if c else 0) for s, c in zip(shapes, cplx)]

    def make():
        sigs = [pym.Signal(f"a{i}", x.copy()) for i, x in enumerate(xs)]
        return pym.EinSum(sigs, expression=expr), sigs

    return Case(f"EinSum.{expr}.{''.join('c' if c else 'r' for c in cplx)}", make, affine=len(shapes) == 1, smooth_tol=1e-6)


def gen_concat(rng):
    n = _ri(rng, 1, 4)
    xs = []
    for _ in range(n):
        k = _ri(rng, 0, 2)
        xs.append(float(rng.standard_normal()) if k == 0 else rng.standard_normal(_ri(rng, 1, 4)))

    def make():
        sigs = [pym.Signal(f"c{i}", vcopy(x)) for i, x in enumerate(xs)]
        return pym.ConcatSignal(sigs), sigs

    return Case(f"ConcatSignal.{[np.size(x) for x in xs]}", make, affine=True)


def gen_complex(rng, k=None):
    kind = rng.choice(["make", "real", "imag", "norm"])
    shp = [(), (4,), (2, 3)][_ri(rng, 0, 2)]
    force_real = None
    if k is not None:    # stratified: every (module, input dtype) combination comes round
        kind, force_real = [("make", None), ("real", False), ("real", True), ("imag", False), ("imag", True), ("norm", False),
                            ("norm", True)][k % 7]
        shp = [(4,), (2, 3), ()][(k + k // 7) % 3]

    def r(c=False):
        v = rng.standard_normal(shp) + (1j * rng.standard_normal(shp) if c else 0)
        return v if len(shp) else (complex(v) if c else float(v))
    if kind == "make":
        xs = [r(), r()]
        cls = pym.MakeComplex
    else:
        realin = rng.random() < 0.35        # a REAL-typed input is admissible too (the real axis of the complex plane)
        if force_real is not None:
            realin = force_real
        xs = [r(not realin)]
        if realin and kind == "norm":       # |x| is not differentiable at 0: stay away from it
            v = rng.uniform(0.3, 2.0, shp) * rng.choice([-1.0, 1.0], shp)
            xs = [v if len(shp) else float(v)]
        cls = {"real": pym.RealPart, "imag": pym.ImagPart, "norm": pym.ComplexNorm}[kind]

    def make():
        sigs = [pym.Signal(f"z{i}", vcopy(x)) for i, x in enumerate(xs)]
        return cls(sigs), sigs

    tag = ".realin" if (kind != "make" and not np.iscomplexobj(xs[0])) else ""
    c = Case(f"Complex.{kind}.{shp}{tag}", make, affine=kind != "norm")
    if tag and kind == "norm":
        c.clip = None
        c.hist_scale = 0.1
    return c


def gen_aggregation(rng, k=None):
    kind = rng.choice(["pnorm", "soft", "ks"])
    n = _ri(rng, 1, 12)
    x = rng.uniform(0.2, 2.0, n)
    kw = {}
    want_sc = (rng.random() < 0.4) if k is None else bool(k % 2)             # stratified: scaling x active set x kind
    want_as = (rng.random() < 0.4) if k is None else bool((k // 2) % 2)
    if k is not None:
        kind = ["pnorm", "soft", "ks"][(k // 4) % 3]
    if want_sc:
        kw["scaling"] = ("max" if rng.random() < 0.5 else "min", float(rng.choice([0.0, 0.5, 0.9])))
    if want_as:
        kw["active_set"] = dict(lower_rel=float(rng.choice([0.0, 0.1])), upper_rel=float(rng.choice([1.0, 0.9])),
                                lower_amt=float(rng.choice([0.0, 0.2])), upper_amt=float(rng.choice([1.0, 0.85])))
    par = float(rng.choice([-8, -3, -1, 2, 4, 10]))
    if "active_set" in kw and not np.ones(n, dtype=bool)[pym.AggActiveSet(**kw["active_set"])(x)].any():
        del kw["active_set"]  # a band that removes every entry leaves nothing to aggregate (inadmissible)

    def make():
        s = pym.Signal("x", x.copy())
        k2 = {}
        if "scaling" in kw:
            k2["scaling"] = pym.AggScaling(*kw["scaling"])
        if "active_set" in kw:
            k2["active_set"] = pym.AggActiveSet(**kw["active_set"])
        if kind == "pnorm":
            m = pym.PNorm([s], p=par, **k2)
        elif kind == "soft":
            m = pym.SoftMinMax([s], alpha=par, **k2)
        else:
            m = pym.KSFunction([s], rho=par, **k2)
        return m, [s]

    def freeze(m):
        # documented memory: the scale factor and the active set are frozen for differentiation
        m.scaling = None
        sel = m.select
        if m.active_set is not None:
            m.active_set = lambda xx, sel=sel: sel

    c = Case(f"Aggregation.{kind}.n{n}.par{par}.{'sc' if 'scaling' in kw else ''}{'as' if 'active_set' in kw else ''}",
             make, affine=False, freeze=freeze, smooth_tol=2e-6, clip=(0.05, 10.0))
    c.response_memory = "scaling" in kw   # documented: a damped scale factor moves on every response(), also on the same input
    return c


def gen_scaling(rng):
    kind = rng.choice(["obj", "min", "max"])
    shp = [(), (3,)][_ri(rng, 0, 1)] if kind == "obj" else ()
    v = rng.uniform(0.5, 2.0, shp)
    x = v if len(shp) else float(v)
    kw = dict(scaling=float(rng.uniform(1, 100)))
    if kind == "min":
        kw["minval"] = float(rng.uniform(0.5, 2))
    if kind == "max":
        kw["maxval"] = float(rng.uniform(0.5, 2))

    def make():
        s = pym.Signal("x", vcopy(x))
        return pym.Scaling([s], **kw), [s]

    return Case(f"Scaling.{kind}.{shp}", make, affine=True)   # affine once the first-call scale factor is frozen


def _rand_matrix(rng, n, cls, cplx):
    def rn(*s):
        return rng.standard_normal(s) + (1j * rng.standard_normal(s) if cplx else 0)
    if cls == "spd":
        B = rn(n, n)
        A = B @ B.conj().T + n * np.eye(n)
    elif cls == "symindef":
        B = rn(n, n)
        A = (B + B.conj().T) / 2 + np.diag(np.where(np.arange(n) % 2 == 0, 3.0, -3.0))
    elif cls == "csym":  # complex symmetric (not Hermitian)
        B = rn(n, n)
        A = (B + B.T) / 2 + (2 + 1j) * n * np.eye(n) / 2
    else:
        A = rn(n, n) + n * np.eye(n)
    return A


def _sparse_dirs_sym(kind):
    """directions for matrix inputs that stay in the matrix class (symmetric / Hermitian) and sparsity pattern"""
    def dirs(rng, states):
        out = _default_dirs(rng, states)
        A = states[0]
        V = todense(out[0])
        pat = todense(A) != 0
        if kind in ("spd", "symindef"):
            V = (V + V.conj().T) / 2
        elif kind == "csym":
            V = (V + V.T) / 2
        V = np.where(pat, V, 0)
        out[0] = type(A)(V) if is_sparse(A) else V
        return out
    return dirs


def gen_linsolve(rng):
    n = _ri(rng, 2, 6)
    cplx = rng.random() < 0.3
    cls = rng.choice(["spd", "symindef", "general"] + (["csym"] if cplx else []))
    sparse = rng.random() < 0.5
    A = _rand_matrix(rng, n, cls, cplx)
    if sparse:
        mask = rng.random((n, n)) < 0.6
        mask = mask | mask.T | np.eye(n, dtype=bool)
        A = np.where(mask, A, 0)
    k = [None, 1, 3][_ri(rng, 0, 2)]
    cplx_b = cplx or (rng.random() < 0.2 and not sparse)
    shp = (n,) if k is None else (n, k)
    b = rng.standard_normal(shp) + (1j * rng.standard_normal(shp) if cplx_b else 0)

    def make():
        sA = pym.Signal("A", sps.csc_matrix(A) if sparse else A.copy())
        sb = pym.Signal("b", b.copy())
        return pym.LinSolve([sA, sb]), [sA, sb]

    # for Hermitian/symmetric classes the auto solver reads one triangle only: directions keep the class
    return Case(f"LinSolve.{cls}.n{n}.{'sp' if sparse else 'de'}.{'c' if cplx else 'r'}{'c' if cplx_b else 'r'}.k{k}",
                make, affine=False, dirs=_sparse_dirs_sym(cls), smooth_tol=2e-6)


def gen_inverse(rng):
    n = _ri(rng, 1, 5)
    cplx = rng.random() < 0.3
    A = _rand_matrix(rng, n, "general", cplx)

    def make():
        s = pym.Signal("A", A.copy())
        return pym.Inverse([s]), [s]

    return Case(f"Inverse.n{n}.{'c' if cplx else 'r'}", make, affine=False)


def gen_soe(rng):
    n = _ri(rng, 3, 7)
    cplx = rng.random() < 0.2
    cls = rng.choice(["spd", "general"])
    sparse = rng.random() < 0.6
    A = _rand_matrix(rng, n, cls, cplx)
    perm = rng.permutation(n)
    nf = _ri(rng, 1, n - 1)
    f, p = np.sort(perm[:nf]), np.sort(perm[nf:])
    k = [None, 2][_ri(rng, 0, 1)]
    shf = (nf,) if k is None else (nf, k)
    shp = (n - nf,) if k is None else (n - nf, k)
    bf = rng.standard_normal(shf) + (1j * rng.standard_normal(shf) if cplx else 0)
    xp = rng.standard_normal(shp) + (1j * rng.standard_normal(shp) if cplx else 0)
    give = rng.choice(["both", "free", "prescribed"])

    def make():
        sA = pym.Signal("A", sps.csc_matrix(A) if sparse else A.copy())
        s1, s2 = pym.Signal("bf", bf.copy()), pym.Signal("xp", xp.copy())
        kw = {}
        if give in ("both", "free"):
            kw["free"] = f.copy()
        if give in ("both", "prescribed"):
            kw["prescribed"] = p.copy()
        return pym.SystemOfEquations([sA, s1, s2], **kw), [sA, s1, s2]

    return Case(f"SystemOfEquations.{cls}.n{n}.nf{nf}.{'sp' if sparse else 'de'}.{'c' if cplx else 'r'}.k{k}.{give}",
                make, affine=False, dirs=_sparse_dirs_sym(cls), smooth_tol=2e-6)


def gen_staticcond(rng):
    n = _ri(rng, 3, 7)
    cls = rng.choice(["spd", "general"])
    A = _rand_matrix(rng, n, cls, False)
    perm = rng.permutation(n)
    nm = _ri(rng, 1, n - 1)
    nfree = _ri(rng, 1, n - nm)
    main, free = np.sort(perm[:nm]), np.sort(perm[nm:nm + nfree])

    def make():
        sA = pym.Signal("A", sps.csc_matrix(A))
        return pym.StaticCondensation([sA], main=main.copy(), free=free.copy()), [sA]

    return Case(f"StaticCondensation.{cls}.n{n}.m{nm}.f{nfree}", make, affine=False, dirs=_sparse_dirs_sym(cls),
                seed_kinds=["dyad" if rng.random() < 0.5 else "dense"], smooth_tol=2e-6)


def gen_eigensolve(rng):
    n = _ri(rng, 2, 5)
    cplx = rng.random() < 0.25
    herm = rng.random() < 0.6
    gen = rng.random() < 0.5

    def rn(*s):
        return rng.standard_normal(s) + (1j * rng.standard_normal(s) if cplx else 0)
    # well separated spectrum: A = V diag(d) V^-1 with controlled V
    d = np.arange(1, n + 1) * 1.0 + rng.uniform(-0.2, 0.2, n)
    if herm:
        Q, _ = np.linalg.qr(rn(n, n))
        A = Q @ np.diag(d) @ Q.conj().T
        A = (A + A.conj().T) / 2
    else:
        V = np.eye(n) + 0.3 * rn(n, n)
        A = V @ np.diag(d) @ np.linalg.inv(V)
    if gen:
        C = rn(n, n)
        B = C @ C.conj().T + n * np.eye(n)
        B = (B + B.conj().T) / 2
        if not herm:
            A = B @ A  # B^-1 A keeps the well separated (real) spectrum d
        else:
            Lc = np.linalg.cholesky(B)
            A = Lc @ A @ Lc.conj().T
            A = (A + A.conj().T) / 2
    cls = "herm" if herm else "gen"

    def dirs(rng2, states):
        out = _default_dirs(rng2, states)
        if herm:
            out[0] = (out[0] + out[0].conj().T) / 2
        if gen:
            out[1] = (out[1] + out[1].conj().T) / 2
        return out

    def make():
        sigs = [pym.Signal("A", A.copy())]
        if gen:
            sigs.append(pym.Signal("B", B.copy()))
        return pym.EigenSolve(sigs), sigs

    return Case(f"EigenSolve.dense.{cls}.n{n}.{'c' if cplx else 'r'}.{'gen' if gen else 'std'}", make, affine=False,
                dirs=dirs, smooth_tol=2e-5, hist_scale=0.02)


def gen_eigensolve_sparse(rng, real_only=True):
    """sparse path (ARPACK shift-invert): real symmetric / complex Hermitian pencils with well separated spectrum"""
    n = _ri(rng, 6, 9)
    cplx = False if real_only else rng.random() < 0.4
    gen = rng.random() < 0.5
    nmodes = _ri(rng, 1, 3)

    def rn(*s):
        return rng.standard_normal(s) + (1j * rng.standard_normal(s) if cplx else 0)
    d = np.arange(1, n + 1) * 1.0 + rng.uniform(-0.2, 0.2, n)
    Q, _ = np.linalg.qr(rn(n, n))
    A = Q @ np.diag(d) @ Q.conj().T
    A = (A + A.conj().T) / 2
    if gen:
        C = rn(n, n)
        B = C @ C.conj().T / n + np.eye(n)
        B = (B + B.conj().T) / 2
        Lc = np.linalg.cholesky(B)
        A = Lc @ A @ Lc.conj().T
        A = (A + A.conj().T) / 2
    seed_q = rng.random() < 0.5

    def dirs(rng2, states):
        out = []
        for x in states:
            V = rng2.standard_normal(x.shape) + (1j * rng2.standard_normal(x.shape) if cplx else 0)
            V = (V + V.conj().T) / 2
            out.append(sps.csc_matrix(V))
        return out

    def make():
        sigs = [pym.Signal("A", sps.csc_matrix(A))]
        if gen:
            sigs.append(pym.Signal("B", sps.csc_matrix(B)))
        return pym.EigenSolve(sigs, nmodes=nmodes, sigma=0.0), sigs

    c = Case(f"EigenSolve.sparse.n{n}.{'c' if cplx else 'r'}.{'gen' if gen else 'std'}.k{nmodes}", make, affine=False,
             dirs=dirs, smooth_tol=5e-5, hist_scale=0.02)
    c.warm_full = True
    return c


GENERATORS = {
    "assembly": gen_assembly, "elemop": gen_elemop, "nodalop": gen_nodalop, "filterconv": gen_filterconv,
    "densityfilter": gen_densityfilter, "overhang": gen_overhang, "mathgeneral": gen_mathgeneral, "einsum": gen_einsum,
    "concat": gen_concat, "complex": gen_complex, "aggregation": gen_aggregation, "scaling": gen_scaling,
    "linsolve": gen_linsolve, "inverse": gen_inverse, "soe": gen_soe, "staticcond": gen_staticcond,
    "eigensolve": gen_eigensolve, "eigensolve_sparse": gen_eigensolve_sparse,
}


class NetAdapter:
    """a Network seen as one module with explicitly chosen output signals (Network.sig_out is an unordered set
    of ALL internal outputs)"""
    def __init__(self, net, outs):
        self.net = net
        self.sig_out = list(outs)
        self.sig_in = list(net.sig_in)

    def response(self):
        self.net.response()
        return self

    def sensitivity(self):
        self.net.sensitivity()
        return self

    def reset(self):
        self.net.reset()
        return self


def numerical_limit(fam, msg):
    """exceptions that are a documented numerical limit of the implementation's algorithm, not a property violation:
    the sparse eigenvector sensitivity solves the (by construction singular) system (A - lambda B) v = r with an LU
    factorisation; SuperLU occasionally finds the factor EXACTLY singular and raises. Counted as boundary skip."""
    if fam == "aggregation" and "zero-size array" in (msg or ""):
        return True      # a visited point at which the active set removes EVERY entry: not an admissible input of the module
    return fam == "eigensolve_sparse" and ("exactly singular" in (msg or "") or "Singular matrix" in (msg or ""))   # (dense LDL without B)


def generate(fam, rng, k=None):
    """a case of the family; families with option combinations are stratified by the running index k"""
    import inspect
    g = GENERATORS[fam]
    if k is not None and "k" in inspect.signature(g).parameters:
        return g(rng, k=k)
    return g(rng)
