/- line-protocol driver: one JSON object per line in, one per line out.
   `{"m": "<model op>", ...}` → `{"ok": <result>}` or `{"err": "<message>"}`.
   Run with `lake env lean --run Driver.lean` (cwd = /verif/lean). -/
import PymotoVerif.Drv.All
open Lean PymotoVerif.Drv

def dispatch (line : String) : String :=
  match Json.parse line with
  | .error e => (objJ [("err", Json.str s!"parse: {e}")]).compress
  | .ok j =>
    match getStr j "m" with
    | .error e => (objJ [("err", Json.str e)]).compress
    | .ok m =>
      match allHandlers.lookup m with
      | none => (objJ [("err", Json.str s!"unknown model op {m}")]).compress
      | some h =>
        match h j with
        | .ok r => (objJ [("ok", r)]).compress
        | .error e => (objJ [("err", Json.str e)]).compress

partial def loop (h : IO.FS.Stream) (out : IO.FS.Stream) : IO Unit := do
  let line ← h.getLine
  if line.isEmpty then return ()
  let t := line.trimAscii.toString
  if !t.isEmpty then
    out.putStrLn (dispatch t)
  loop h out

def main : IO Unit := do
  let out ← IO.getStdout
  loop (← IO.getStdin) out
  out.flush
