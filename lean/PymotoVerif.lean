-- Root of the `PymotoVerif` library: models (Core, LA), helper lemmas, property theorems.
import PymotoVerif.Core.Base
