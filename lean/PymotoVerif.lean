-- Root of the `PymotoVerif` library: models (Core, LA), helper lemmas, property theorems, driver handlers.
import PymotoVerif.Drv.All
import PymotoVerif.Props.C02
import PymotoVerif.Props.C03
import PymotoVerif.Props.C04
import PymotoVerif.Props.C05
import PymotoVerif.Props.C06
import PymotoVerif.Props.C08
import PymotoVerif.Props.C09
import PymotoVerif.Props.C12
import PymotoVerif.Props.C13
import PymotoVerif.Props.C14
import PymotoVerif.Props.C15
import PymotoVerif.Props.C16
import PymotoVerif.Props.C18
import PymotoVerif.Props.C20
