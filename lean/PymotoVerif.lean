-- Root of the `PymotoVerif` library: models (Core, LA), helper lemmas, property theorems, driver handlers.
import PymotoVerif.Drv.All
import PymotoVerif.Props.C02
import PymotoVerif.Props.C03
import PymotoVerif.Props.C13
import PymotoVerif.Props.C16
import PymotoVerif.Props.C18
import PymotoVerif.Props.C20
