-- Root of the `PymotoVerif` library: models (Core, LA), helper lemmas, property theorems, driver handlers.
import PymotoVerif.Drv.All
import PymotoVerif.Props.C13
