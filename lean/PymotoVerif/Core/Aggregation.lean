/-
Model of `pymoto/modules/aggregation.py` (all of it): `AggActiveSet`, `AggScaling`, `Aggregation`
(`_response` / `_sensitivity`), `PNorm`, `SoftMinMax`, `KSFunction`.   No Mathlib.

Conventions
* generic scalar `α` through plain operation classes; the SAME definitions run at `Rat` (exact) and at
  `Float` in the driver and are reasoned about over an ordered field / over `ℝ`;
* `exp log pow` are parameters (`Fns`), Python's `int()` is the parameter `trunc : α → Int`
  (truncation toward zero; `truncRat` below is the exact one for rationals);
* the result of `np.argsort(x)` is the parameter `isort : Nat → Nat` (contract used by the theorems:
  permutation of `0..n-1` that sorts `x` ascending; numpy's default sort kind promises nothing more);
* a vector is `Nat → α` plus its length; `x[select]` with a boolean mask is the compressed vector
  `k ↦ x (idx k)` with `idx` enumerating the `true` positions in increasing order;
* errors raised by the code are values `"ValueError"`, `"ZeroDivisionError"`, `"Assertion"`, `"TypeError"`.
-/
import PymotoVerif.Core.Base
namespace PymotoVerif.Agg

/-! ## numpy / Python primitives -/

/-- Python `int(q)` for a rational: truncation toward zero -/
def truncRat (q : Rat) : Int := Int.tdiv q.num (q.den : Int)

/-- end index of the Python slice `a[:k]` on a length-`n` array -/
def pyStop (n : Nat) (k : Int) : Nat :=
  if k < 0 then ((n : Int) + k).toNat else min k.toNat n

/-- start index of the Python slice `a[k:]` on a length-`n` array -/
def pyStart (n : Nat) (k : Int) : Nat :=
  if k < 0 then ((n : Int) + k).toNat else min k.toNat n

section Generic
variable {α : Type}

/-- `min(x[0..k])` (k+1 entries), left fold as `np.min` -/
def minUpTo [LT α] [DecidableLT α] : Nat → (Nat → α) → α
  | 0, x => x 0
  | k+1, x => if x (k+1) < minUpTo k x then x (k+1) else minUpTo k x

/-- `max(x[0..k])` -/
def maxUpTo [LT α] [DecidableLT α] : Nat → (Nat → α) → α
  | 0, x => x 0
  | k+1, x => if maxUpTo k x < x (k+1) then x (k+1) else maxUpTo k x

/-- `np.min(x)` for `n ≥ 1` entries (callers raise `ValueError` for `n = 0`) -/
def npMin [LT α] [DecidableLT α] (n : Nat) (x : Nat → α) : α := minUpTo (n - 1) x
/-- `np.max(x)` for `n ≥ 1` entries -/
def npMax [LT α] [DecidableLT α] (n : Nat) (x : Nat → α) : α := maxUpTo (n - 1) x

/-- `np.abs` -/
def absv [LT α] [DecidableLT α] [Neg α] [OfNat α 0] (a : α) : α := if a < 0 then -a else a
/-- `np.sign` -/
def signv [LT α] [DecidableLT α] [Neg α] [OfNat α 0] [OfNat α 1] (a : α) : α :=
  if a < 0 then -1 else if 0 < a then 1 else 0

/-- `sel[i_sort[lo:hi]] = False` -/
def clearAt (sel : Nat → Bool) (isort : Nat → Nat) (lo hi : Nat) : Nat → Bool :=
  fun i => if (List.range (hi - lo)).any (fun k => isort (lo + k) == i) then false else sel i

/-! ## AggActiveSet -/

structure ActiveSet (α : Type) where
  lower_rel : α
  upper_rel : α
  lower_amt : α
  upper_amt : α

/-- `AggActiveSet.__init__` (two assertions) -/
def ActiveSet.mk? [LT α] [DecidableLT α] (lower_rel upper_rel lower_amt upper_amt : α) :
    Except String (ActiveSet α) :=
  if ¬ (lower_rel < upper_rel) then .error "Assertion"
  else if ¬ (lower_amt < upper_amt) then .error "Assertion"
  else .ok ⟨lower_rel, upper_rel, lower_amt, upper_amt⟩

/-- the normalised values `xrel = (x - xmin) / (xmax - xmin)` -/
def xrel [LT α] [DecidableLT α] [Sub α] [Div α] (n : Nat) (x : Nat → α) : Nat → α :=
  fun i => (x i - npMin n x) / (npMax n x - npMin n x)

/-- `n_lower_amt = int(x.size * self.lower_amt)` -/
def nLower [Mul α] [NatCast α] (trunc : α → Int) (c : ActiveSet α) (n : Nat) : Int :=
  trunc ((n : α) * c.lower_amt)
/-- `n_upper_amt = int(x.size * (1 - self.upper_amt))` -/
def nUpper [Mul α] [Sub α] [OfNat α 1] [NatCast α] (trunc : α → Int) (c : ActiveSet α) (n : Nat) : Int :=
  trunc ((n : α) * (1 - c.upper_amt))

/-- "Select based on value": `sel = ones; if lower_rel > 0: sel &= xrel >= lower_rel; if upper_rel < 1: sel &= xrel <= upper_rel` -/
def ActiveSet.selValue [LT α] [DecidableLT α] [LE α] [DecidableLE α] [Sub α] [Div α] [OfNat α 0] [OfNat α 1]
    (c : ActiveSet α) (n : Nat) (x : Nat → α) : Nat → Bool :=
  let sel0 : Nat → Bool := fun _ => true
  let xr := xrel n x
  let sel1 : Nat → Bool :=
    if 0 < c.lower_rel then (fun i => sel0 i && decide (c.lower_rel ≤ xr i)) else sel0
  if c.upper_rel < 1 then (fun i => sel1 i && decide (xr i ≤ c.upper_rel)) else sel1

/-- `if lower_amt > 0: sel[i_sort[:int(n*lower_amt)]] = False` -/
def ActiveSet.selLowest [LT α] [DecidableLT α] [Mul α] [OfNat α 0] [NatCast α]
    (c : ActiveSet α) (trunc : α → Int) (n : Nat) (isort : Nat → Nat) (sel : Nat → Bool) : Nat → Bool :=
  if 0 < c.lower_amt then clearAt sel isort 0 (pyStop n (nLower trunc c n)) else sel

/-- `if upper_amt < 1: n_upper = int(n*(1-upper_amt)); if n_upper > 0: sel[i_sort[-n_upper:]] = False`
    (with the repaired guard) -/
def ActiveSet.selHighest [LT α] [DecidableLT α] [Mul α] [Sub α] [OfNat α 1] [NatCast α]
    (c : ActiveSet α) (trunc : α → Int) (n : Nat) (isort : Nat → Nat) (sel : Nat → Bool) : Nat → Bool :=
  if c.upper_amt < 1 then
    (if 0 < nUpper trunc c n then clearAt sel isort (pyStart n (-(nUpper trunc c n))) n else sel)
  else sel

/-- `AggActiveSet.__call__`; `none` is `Ellipsis`.  Statement order as in the code. -/
def ActiveSet.call [LT α] [DecidableLT α] [LE α] [DecidableLE α] [BEq α] [Sub α] [Mul α] [Div α]
    [OfNat α 0] [OfNat α 1] [NatCast α]
    (c : ActiveSet α) (trunc : α → Int) (n : Nat) (x : Nat → α) (isort : Nat → Nat) :
    Except String (Option (Nat → Bool)) :=
  if n = 0 then .error "ValueError"                       -- np.min of an empty array
  else if (npMax n x - npMin n x) == 0 then .ok none      -- all equal: Ellipsis
  else .ok (some (c.selHighest trunc n isort (c.selLowest trunc n isort (c.selValue n x))))

/-! ## AggScaling -/

structure Scaling (α : Type) where
  useMax : Bool
  damping : α

/-- `AggScaling.__init__` -/
def Scaling.mk? (which : String) (damping : α) : Except String (Scaling α) :=
  if which.toLower = "min" then .ok ⟨false, damping⟩
  else if which.toLower = "max" then .ok ⟨true, damping⟩
  else .error "ValueError"

/-- `trueval = self.f(x)` with `self.f = np.max` or `np.min` -/
def Scaling.trueval [LT α] [DecidableLT α] (s : Scaling α) (m : Nat) (y : Nat → α) : α :=
  if s.useMax then npMax m y else npMin m y

/-- `AggScaling.__call__`: `sf` is the attribute `self.sf` before the call (`none` = `None`);
    the result is the new `self.sf`, which is also the returned value -/
def Scaling.call [LT α] [DecidableLT α] [Add α] [Sub α] [Mul α] [Div α] [OfNat α 1]
    (s : Scaling α) (sf : Option α) (m : Nat) (y : Nat → α) (approx : α) : Except String α :=
  if m = 0 then .error "ValueError"                       -- np.min / np.max of an empty array
  else
    let trueval := s.trueval m y
    let scale := trueval / approx
    match sf with
    | none => .ok scale
    | some old => .ok (s.damping * old + (1 - s.damping) * scale)

/-- a whole history of calls `(x, fx_approx)` on one `AggScaling` object: the returned scale factors -/
def Scaling.calls [LT α] [DecidableLT α] [Add α] [Sub α] [Mul α] [Div α] [OfNat α 1]
    (s : Scaling α) : Option α → List (Nat × (Nat → α) × α) → Except String (List α)
  | _, [] => pure []
  | sf, (m, y, a) :: rest => do
    let v ← s.call sf m y a
    let vs ← Scaling.calls s (some v) rest
    pure (v :: vs)

/-! ## the three aggregation functions -/

structure Fns (α : Type) where
  exp : α → α
  log : α → α
  pow : α → α → α

inductive Kind (α : Type) where
  | pnorm (p : α)
  | softminmax (alpha : α)
  | ks (rho : α)

/-- `scipy.special.softmax(z)` as implemented: shifted by the maximum -/
def softmaxVec [LT α] [DecidableLT α] [Add α] [Sub α] [Div α] [OfNat α 0]
    (exp : α → α) (m : Nat) (z : Nat → α) : Nat → α :=
  fun i => exp (z i - npMax m z) / sumRange m (fun j => exp (z j - npMax m z))

/-- `np.sum(np.abs(x) ** p)` -/
def pSum [LT α] [DecidableLT α] [Add α] [Neg α] [OfNat α 0] (pow : α → α → α) (p : α) (m : Nat)
    (y : Nat → α) : α :=
  sumRange m (fun i => pow (absv (y i)) p)

/-- `PNorm.aggregation_function` without the error cases -/
def pnormVal [LT α] [DecidableLT α] [Add α] [Neg α] [Div α] [OfNat α 0] [OfNat α 1]
    (pow : α → α → α) (p : α) (m : Nat) (y : Nat → α) : α :=
  pow (pSum pow p m y) (1 / p)

/-- `PNorm.aggregation_derivative` without the error cases -/
def pnormDer [LT α] [DecidableLT α] [Add α] [Sub α] [Mul α] [Neg α] [Div α] [OfNat α 0] [OfNat α 1]
    (pow : α → α → α) (p : α) (m : Nat) (y : Nat → α) : Nat → α :=
  fun i => pow (pSum pow p m y) (1 / p - 1) * signv (y i) * pow (absv (y i)) (p - 1)

/-- `SoftMinMax.aggregation_function` -/
def softVal [LT α] [DecidableLT α] [Add α] [Sub α] [Mul α] [Div α] [OfNat α 0]
    (exp : α → α) (alpha : α) (m : Nat) (y : Nat → α) : α :=
  sumRange m (fun i => y i * softmaxVec exp m (fun j => alpha * y j) i)

/-- `SoftMinMax.aggregation_derivative`; `ylast` is the stored `self.y` -/
def softDer [LT α] [DecidableLT α] [Add α] [Sub α] [Mul α] [Div α] [OfNat α 0] [OfNat α 1]
    (exp : α → α) (alpha ylast : α) (m : Nat) (y : Nat → α) : Nat → α :=
  fun i => softmaxVec exp m (fun j => alpha * y j) i * (1 + alpha * (y i - ylast))

/-- `np.sum(np.exp(rho * x))` -/
def ksSum [Add α] [Mul α] [OfNat α 0] (exp : α → α) (rho : α) (m : Nat) (y : Nat → α) : α :=
  sumRange m (fun i => exp (rho * y i))

/-- `KSFunction.aggregation_function` without the error case -/
def ksVal [Add α] [Mul α] [Div α] [OfNat α 0] [OfNat α 1]
    (exp log : α → α) (rho : α) (m : Nat) (y : Nat → α) : α :=
  1 / rho * log (ksSum exp rho m y)

/-- `KSFunction.aggregation_derivative` -/
def ksDer [Add α] [Mul α] [Div α] [OfNat α 0] (exp : α → α) (rho : α) (m : Nat) (y : Nat → α) : Nat → α :=
  fun i => exp (rho * y i) / ksSum exp rho m y

/-- `aggregation_function(x)` including what it raises: `np.min`/`amax` of an empty selection is a
    `ValueError`; `1/self.p` and `1/self.rho` raise `ZeroDivisionError` for a zero parameter -/
def aggFn [LT α] [DecidableLT α] [BEq α] [Add α] [Sub α] [Mul α] [Neg α] [Div α] [OfNat α 0] [OfNat α 1]
    (f : Fns α) (k : Kind α) (m : Nat) (y : Nat → α) : Except String α :=
  match k with
  | .pnorm p =>
    if m = 0 then .error "ValueError"
    else if p == 0 then .error "ZeroDivisionError"
    else .ok (pnormVal f.pow p m y)
  | .softminmax a =>
    if m = 0 then .error "ValueError" else .ok (softVal f.exp a m y)
  | .ks rho =>
    if rho == 0 then .error "ZeroDivisionError" else .ok (ksVal f.exp f.log rho m y)

/-- `aggregation_derivative(x)`; `ylast` is `self.y` (`None` before the first response) -/
def aggDer [LT α] [DecidableLT α] [BEq α] [Add α] [Sub α] [Mul α] [Neg α] [Div α] [OfNat α 0] [OfNat α 1]
    (f : Fns α) (k : Kind α) (ylast : Option α) (m : Nat) (y : Nat → α) : Except String (Nat → α) :=
  match k with
  | .pnorm p =>
    if p == 0 then .error "ZeroDivisionError" else .ok (pnormDer f.pow p m y)
  | .softminmax a =>
    if m = 0 then .error "ValueError"
    else match ylast with
      | none => .error "TypeError"
      | some yl => .ok (softDer f.exp a yl m y)
  | .ks rho => .ok (ksDer f.exp rho m y)

/-! ## Aggregation module -/

/-- positions selected by `x[select]`, increasing -/
def selIdx (n : Nat) (select : Option (Nat → Bool)) : List Nat :=
  match select with
  | none => List.range n
  | some mask => (List.range n).filter mask

/-- the compressed vector `x[select]` for the position list `idx` -/
def selVec (idx : List Nat) (x : Nat → α) : Nat → α := fun k => x (idx.getD k 0)

/-- attributes of an `Aggregation` instance (and of the `AggScaling` object it owns) -/
structure State (α : Type) where
  sf : α                          -- `self.sf`, initially 1.0
  scalingSf : Option α            -- `self.scaling.sf`, initially None
  select : Option (Nat → Bool)    -- `self.select` (Ellipsis = none)
  ylast : Option α                -- `self.y` of SoftMinMax

def State.init [OfNat α 1] : State α := ⟨1, none, none, none⟩

structure Config (α : Type) where
  kind : Kind α
  activeSet : Option (ActiveSet α)
  scaling : Option (Scaling α)

/-- `Aggregation._response(x)` after `self.select` has been determined: aggregate the selected entries, scale -/
def responseSel [LT α] [DecidableLT α] [BEq α] [Add α] [Sub α] [Mul α] [Neg α]
    [Div α] [OfNat α 0] [OfNat α 1]
    (f : Fns α) (c : Config α) (st : State α) (n : Nat) (x : Nat → α)
    (select : Option (Nat → Bool)) : Except String (α × State α) :=
  let idx := selIdx n select
  let m := idx.length
  let y : Nat → α := selVec idx x
  match aggFn f c.kind m y with
  | .error e => .error e
  | .ok xagg =>
    let ylast := match c.kind with
      | .softminmax _ => some xagg
      | _ => st.ylast
    match c.scaling with
    | some s =>
      match s.call st.scalingSf m y xagg with
      | .error e => .error e
      | .ok sf => .ok (sf * xagg, ⟨sf, some sf, select, ylast⟩)
    | none => .ok (st.sf * xagg, ⟨st.sf, st.scalingSf, select, ylast⟩)

/-- `Aggregation._response(x)`: returns the output and the new attribute values -/
def response [LT α] [DecidableLT α] [LE α] [DecidableLE α] [BEq α] [Add α] [Sub α] [Mul α] [Neg α]
    [Div α] [OfNat α 0] [OfNat α 1] [NatCast α]
    (f : Fns α) (trunc : α → Int) (c : Config α) (st : State α) (n : Nat) (x : Nat → α)
    (isort : Nat → Nat) : Except String (α × State α) :=
  match c.activeSet with
  | some a =>
    match a.call trunc n x isort with
    | .error e => .error e
    | .ok select => responseSel f c st n x select
  | none => responseSel f c st n x none

/-- `Aggregation._sensitivity(dfdy)` with `x = self.sig_in[0].state` -/
def sensitivity [LT α] [DecidableLT α] [BEq α] [Add α] [Sub α] [Mul α] [Neg α] [Div α] [OfNat α 0]
    [OfNat α 1]
    (f : Fns α) (c : Config α) (st : State α) (n : Nat) (x : Nat → α) (dfdy : α) :
    Except String (Nat → α) := do
  let idx := selIdx n st.select
  let m := idx.length
  let y : Nat → α := selVec idx x
  let dydx ← aggDer f c.kind st.ylast m y
  -- dx = zeros_like(x); dx[select] += sf * dfdy * dydx
  pure (scatterAdd m (fun k => idx.getD k 0) (fun k => st.sf * dfdy * dydx k))

/-- a whole history of `response()` calls on one module: outputs in call order and the final state -/
def responses [LT α] [DecidableLT α] [LE α] [DecidableLE α] [BEq α] [Add α] [Sub α] [Mul α] [Neg α]
    [Div α] [OfNat α 0] [OfNat α 1] [NatCast α]
    (f : Fns α) (trunc : α → Int) (c : Config α) :
    State α → List (Nat × (Nat → α) × (Nat → Nat)) → Except String (List α × State α)
  | st, [] => pure ([], st)
  | st, (n, x, isort) :: rest => do
    let (v, st') ← response f trunc c st n x isort
    let (vs, st'') ← responses f trunc c st' rest
    pure (v :: vs, st'')

end Generic
end PymotoVerif.Agg
