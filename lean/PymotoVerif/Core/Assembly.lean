/-
Model of `pymoto/modules/assembly.py` (properties C08 and C12).  No Mathlib, generic scalar.

* `Q3 = ℚ(√3)` : executable two-component scalar in which the Gauss coordinate `1/√3` lives
* `AssembleGeneral` : rows / cols through the modelled `np.kron`, `bcselect` filtering, value vector,
  COO-with-duplicates-summed as a dense function, `add_constant`
* `get_B`, `get_D`, element matrices of `AssembleStiffness` / `AssembleMass` / `AssemblePoisson`
  by Gauss integration exactly as coded; the Gauss coordinate factor `g` (`= 1/√3`, `g*g = 1/3`) is a
  scalar PARAMETER (`pos = n * (siz/2) * g`; the code divides by `np.sqrt(3)`, the same number)
* `ElementOperation`, `Strain` (AS CODED, including the `*= 2` of the shear rows), `Stress`,
  `ElementAverage`, `NodalOperation`, `ThermoMechanical`
* the `_sensitivity` methods of `AssembleGeneral` (dense and DyadCarrier seed, in-place bc masking of the
  seed), `ElementOperation` and `NodalOperation`, mirroring the code (used by C01)

Matrices are functions `Nat → Nat → α` (row, column); leading "..." dimensions of an element
operator are flattened (C order) into one row index.
The pieces that the driver tabulates between stages (`wBtD`, `stiffFrom`, …) are separate
definitions; the top-level definitions (`stiffElem2`, …) are their composition.
-/
import PymotoVerif.Core.Domain
namespace PymotoVerif.Assembly
open PymotoVerif PymotoVerif.Domain

/-! ## `Q3 = ℚ(√3)` -/

/-- `re + ir·√3` with rational components -/
structure Q3 where
  re : Rat
  ir : Rat
deriving DecidableEq, Repr

namespace Q3
instance (n : Nat) : OfNat Q3 n := ⟨⟨(n : Rat), 0⟩⟩
instance : Add Q3 := ⟨fun x y => ⟨x.re + y.re, x.ir + y.ir⟩⟩
instance : Sub Q3 := ⟨fun x y => ⟨x.re - y.re, x.ir - y.ir⟩⟩
instance : Neg Q3 := ⟨fun x => ⟨-x.re, -x.ir⟩⟩
instance : Mul Q3 := ⟨fun x y => ⟨x.re * y.re + 3 * (x.ir * y.ir), x.re * y.ir + x.ir * y.re⟩⟩
/-- `1/(a + b√3) = (a - b√3)/(a² - 3b²)` (the norm of a non-zero element is non-zero) -/
def inv (x : Q3) : Q3 :=
  let n := x.re * x.re - 3 * (x.ir * x.ir)
  ⟨x.re / n, -x.ir / n⟩
instance : Div Q3 := ⟨fun x y => x * inv y⟩
def ofRat (q : Rat) : Q3 := ⟨q, 0⟩
/-- the Gauss coordinate factor `1/√3 = √3/3` -/
def gauss : Q3 := ⟨0, 1 / 3⟩
/-- sign of `re + ir√3` as `-1, 0, 1` -/
def sign (x : Q3) : Int :=
  let sr : Int := if 0 < x.re then 1 else if x.re < 0 then -1 else 0
  let si : Int := if 0 < x.ir then 1 else if x.ir < 0 then -1 else 0
  if si = 0 then sr else if sr = 0 then si else if sr = si then sr
  else if 3 * (x.ir * x.ir) < x.re * x.re then sr else si
instance : LT Q3 := ⟨fun x y => sign (y - x) = 1⟩
instance : DecidableRel (α := Q3) (· < ·) := fun x y => inferInstanceAs (Decidable (sign (y - x) = 1))
end Q3

/-! ## small generic helpers -/
section generic
variable {α : Type}

/-- executable sum of a list, `a₀ + (a₁ + …)` -/
def listSum [Add α] [OfNat α 0] : List α → α
  | [] => 0
  | a :: t => a + listSum t

/-- `np.kron(A, B)[i][j]` for integer matrices, `B` of shape `(r2, c2)` -/
def kron (r2 c2 : Nat) (A B : Nat → Nat → Nat) (i j : Nat) : Nat :=
  A (i / r2) (j / c2) * B (i % r2) (j % c2)

/-- `np.ones(..., dtype=int)` -/
def ones (_ _ : Nat) : Nat := 1

/-- `np.max` over an `m × m` matrix (first entry, then running maximum) -/
def maxEntries [LT α] [DecidableRel (α := α) (· < ·)] (m : Nat) (A : Nat → Nat → α) : α :=
  (List.range (m * m)).foldl (fun acc p => if acc < A (p / m) (p % m) then A (p / m) (p % m) else acc) (A 0 0)

/-- `np.count_nonzero` of the first `m` entries -/
def countNonzero [DecidableEq α] [OfNat α 0] (m : Nat) (row : Nat → α) : Nat :=
  sumRange m (fun c => if row c = 0 then 0 else 1)
end generic

/-! ## `AssembleGeneral` -/
section assemble
variable {α : Type} [Add α] [Mul α] [OfNat α 0] [OfNat α 1]

/-- `self.rows = np.kron(dofconn, ones((1, m))).flatten()`, the kron has shape `(nel, m*m)`;
    `dc` is the dof connectivity `(nel, m)`, `m = elemnodes * ndof` -/
def rowsIdx (m : Nat) (dc : Nat → Nat → Nat) (k : Nat) : Nat :=
  kron 1 m dc ones (k / (m * m)) (k % (m * m))

/-- `self.cols = np.kron(dofconn, ones((m, 1))).flatten()`, the kron has shape `(nel*m, m)` -/
def colsIdx (m : Nat) (dc : Nat → Nat → Nat) (k : Nat) : Nat :=
  kron m 1 dc ones (k / m) (k % m)

/-- `scaled_el = (elmat.flatten() * xscale[..., newaxis]).flatten()` -/
def scaledEl (m : Nat) (elmat : Nat → Nat → α) (x : Nat → α) (k : Nat) : α :=
  elmat ((k % (m * m)) / m) ((k % (m * m)) % m) * x (k / (m * m))

/-- one COO entry -/
structure Triplet (α : Type) where
  r : Nat
  c : Nat
  v : α

/-- `bc_inds = isin(rows, bc) | isin(cols, bc)` -/
def bcMask (bc : List Nat) (rows cols : Nat → Nat) (k : Nat) : Bool :=
  bc.contains (rows k) || bc.contains (cols k)

/-- `bcselect = argwhere(~bc_inds).flatten()` -/
def bcSelect (nnz : Nat) (bc : List Nat) (rows cols : Nat → Nat) : List Nat :=
  (List.range nnz).filter (fun k => !bcMask bc rows cols k)

/-- `(mat_values, (bcrows, bccols))` : the kept scaled entries followed by the bc diagonal values -/
def triplets (nel m : Nat) (dc : Nat → Nat → Nat) (elmat : Nat → Nat → α) (x : Nat → α)
    (bc : Option (List Nat)) (bcdiag : α) : List (Triplet α) :=
  let nnz := nel * (m * m)
  let entry := fun k => (⟨rowsIdx m dc k, colsIdx m dc k, scaledEl m elmat x k⟩ : Triplet α)
  match bc with
  | none => (List.range nnz).map entry
  | some bc => (bcSelect nnz bc (rowsIdx m dc) (colsIdx m dc)).map entry
      ++ bc.map (fun b => ⟨b, b, bcdiag * 1⟩)

/-- the sparse constructor sums duplicate entries: dense view of a COO list -/
def cooDense (t : List (Triplet α)) (r c : Nat) : α :=
  listSum (t.map (fun e => if e.r = r ∧ e.c = c then e.v else 0))

/-- `AssembleGeneral._response` as a dense matrix: `matrix_type((vals, (rows, cols))) (+= add_constant)`,
    for a connectivity table `dc` of `nel` elements with `m` dofs each -/
def assemble (nel m : Nat) (dc : Nat → Nat → Nat) (elmat : Nat → Nat → α) (x : Nat → α)
    (bc : Option (List Nat)) (bcdiag : α) (addc : Option (Nat → Nat → α)) (r c : Nat) : α :=
  match addc with
  | none => cooDense (triplets nel m dc elmat x bc bcdiag) r c
  | some C => cooDense (triplets nel m dc elmat x bc bcdiag) r c + C r c

/-- `AssembleGeneral` on a `DomainDefinition`: `ndof = elmat.shape[-1] // elemnodes`,
    `dofconn = domain.get_dofconnectivity(ndof)` -/
def assembleDom (d : Dom) (ndof : Nat) (elmat : Nat → Nat → α) (x : Nat → α)
    (bc : Option (List Nat)) (bcdiag : α) (addc : Option (Nat → Nat → α)) : Nat → Nat → α :=
  assemble d.nel (d.elemnodes * ndof) (d.dofConn ndof) elmat x bc bcdiag addc

/-- the error cases of `_response` / the sparse constructor: wrong size of `x` is an assertion,
    an index outside `[0, n)` is rejected by scipy -/
def assembleCheck (d : Dom) (ndof xsize : Nat) (bc : Option (List Nat)) : Except String Unit :=
  if xsize ≠ d.nel then .error "Assertion"
  else match bc with
    | some l => if l.any (fun b => decide (ndof * d.nnodes ≤ b)) then .error "ValueError" else .ok ()
    | none => .ok ()

/-! ### `AssembleGeneral._sensitivity` (mirrors the code, not the transpose of the response model) -/

/-- `dgdmat[self.bc, :] = 0.0 ; dgdmat[:, self.bc] = 0.0` on a dense seed — an IN-PLACE change of the
    caller's seed array (nothing happens when `bc is None`) -/
def seedMask (bc : Option (List Nat)) (W : Nat → Nat → α) (r c : Nat) : α :=
  match bc with
  | none => W r c
  | some l => if l.contains r || l.contains c then 0 else W r c

/-- dense `ndarray` seed: `indu, indv = meshgrid(dofconn[i], dofconn[i], indexing='ij')`,
    `dx[i] = einsum("ij,ij->", elmat, dgdmat[indu, indv])`; `post` is `np.real` when `x` is real and the
    identity otherwise -/
def assembleSensDense (m : Nat) (dc : Nat → Nat → Nat) (elmat : Nat → Nat → α)
    (bc : Option (List Nat)) (post : α → α) (W : Nat → Nat → α) (e : Nat) : α :=
  post (sumRange m (fun a => sumRange m (fun b => elmat a b * seedMask bc W (dc e a) (dc e b))))

/-- `DyadCarrier.__setitem__` with a full-row / full-column subscript: the stored vectors are zeroed in place -/
def vecMask (bc : Option (List Nat)) (u : Nat → α) (r : Nat) : α :=
  match bc with
  | none => u r
  | some l => if l.contains r then 0 else u r

/-- `DyadCarrier` seed with `nd` stored dyads `(us k, vs k)`:
    `dgdmat.contract(self.elmat, self.dofconn, self.dofconn)` = `Σ_k einsum('Ai,ij,Aj->A', u_k[rows], mat, v_k[cols])`
    after the bc rows of every `u_k` and the bc columns of every `v_k` were zeroed -/
def assembleSensDyad (m : Nat) (dc : Nat → Nat → Nat) (elmat : Nat → Nat → α)
    (bc : Option (List Nat)) (post : α → α) (nd : Nat) (us vs : Nat → Nat → α) (e : Nat) : α :=
  post (sumRange nd (fun k => sumRange m (fun a => sumRange m (fun b =>
    vecMask bc (us k) (dc e a) * elmat a b * vecMask bc (vs k) (dc e b)))))

/-- `if dgdmat.size <= 0: return [None]` : a `DyadCarrier()` whose shape was never set has size 0 -/
def assembleSensDyad? (shapeSet : Bool) (m : Nat) (dc : Nat → Nat → Nat) (elmat : Nat → Nat → α)
    (bc : Option (List Nat)) (post : α → α) (nd : Nat) (us vs : Nat → Nat → α) : Option (Nat → α) :=
  if shapeSet then some (assembleSensDyad m dc elmat bc post nd us vs) else none
end assemble

/-! ## `get_B`, `get_D` -/
section kinematics
variable {α : Type} [Add α] [Mul α] [Sub α] [Neg α] [Div α] [OfNat α 0] [OfNat α 1] [OfNat α 2]

/-- which derivative axis sits in row `i`, displacement component `c` of the 2-D block
    `[[dNx, 0], [0, dNy], [dNy, dNx]]` -/
def bsel2 (i c : Nat) : Option Nat :=
  match i, c with
  | 0, 0 => some 0
  | 1, 1 => some 1
  | 2, 0 => some 1
  | 2, 1 => some 0
  | _, _ => none

/-- `get_B(dN_dx)` for `n_dim = 2` : `B[:, l*2:(l+1)*2]` is the block of node `l` -/
def getB2 (dN : Nat → Nat → α) (i col : Nat) : α :=
  match bsel2 i (col % 2) with
  | some a => dN a (col / 2)
  | none => 0

/-- 3-D block in Voigt order `[xx, yy, zz, yz, zx, xy]` -/
def bsel3 (i c : Nat) : Option Nat :=
  match i, c with
  | 0, 0 => some 0
  | 1, 1 => some 1
  | 2, 2 => some 2
  | 3, 1 => some 2
  | 3, 2 => some 1
  | 4, 0 => some 2
  | 4, 2 => some 0
  | 5, 0 => some 1
  | 5, 1 => some 0
  | _, _ => none

/-- the standard order `[xx, yy, zz, xy, yz, zx]` lists the Voigt rows `5, 3, 4` as rows `3, 4, 5` -/
def voigtRow (voigt : Bool) (i : Nat) : Nat :=
  if voigt then i else
    match i with
    | 3 => 5
    | 4 => 3
    | 5 => 4
    | _ => i

/-- `get_B(dN_dx, voigt)` for `n_dim = 3` -/
def getB3 (voigt : Bool) (dN : Nat → Nat → α) (i col : Nat) : α :=
  match bsel3 (voigtRow voigt i) (col % 3) with
  | some a => dN a (col / 3)
  | none => 0

inductive PlaneMode
  | strain
  | stress
  | d3
deriving DecidableEq, Repr

/-- `sub in s` -/
def hasSub (s sub : String) : Bool := decide ((s.splitOn sub).length > 1)

/-- the `if 'strain' in mode.lower() … elif 'stress' … elif '3d' … else raise ValueError` chain -/
def parseMode (mode : String) : Option PlaneMode :=
  let m := mode.toLower
  if hasSub m "strain" then some .strain
  else if hasSub m "stress" then some .stress
  else if hasSub m "3d" then some .d3
  else none

def PlaneMode.nstrain : PlaneMode → Nat
  | .d3 => 6
  | _ => 3

def mu (E nu : α) : α := E / (2 * (1 + nu))
def lam (E nu : α) : α := (E * nu) / ((1 + nu) * (1 - 2 * nu))
def c1 (E nu : α) : α := 2 * mu E nu + lam E nu

/-- the inner array of the plane-stress branch -/
def stressPattern (nu : α) (i j : Nat) : α :=
  if i < 2 ∧ j < 2 then (if i = j then 1 else nu)
  else if i = 2 ∧ j = 2 then (1 - nu) / 2 else 0

/-- `get_D(E, nu, mode)` -/
def getD (E nu : α) : PlaneMode → Nat → Nat → α
  | .strain, i, j =>
    if i < 2 ∧ j < 2 then (if i = j then c1 E nu else lam E nu)
    else if i = 2 ∧ j = 2 then mu E nu else 0
  | .stress, i, j => (E / (1 - nu * nu)) * stressPattern nu i j
  | .d3, i, j =>
    if i < 3 ∧ j < 3 then (if i = j then c1 E nu else lam E nu)
    else if i = j ∧ i < 6 then mu E nu else 0

/-- Python float division by zero raises: `mu`, `lam` are computed before the mode is looked at -/
def getDCheck [DecidableEq α] (_E nu : α) (mode : Option PlaneMode) : Except String PlaneMode :=
  if 2 * (1 + nu) = (0 : α) ∨ (1 + nu) * (1 - 2 * nu) = (0 : α) then .error "ZeroDivisionError"
  else match mode with
    | none => .error "ValueError"
    | some .stress => if 1 - nu * nu = (0 : α) then .error "ZeroDivisionError" else .ok .stress
    | some m => .ok m

/-- `D *= domain.element_size[2]` (2-D only) -/
def scaleD (D : Nat → Nat → α) (t : α) (i j : Nat) : α := D i j * t

/-! ## Gauss points -/

/-- coordinate `axis` of the sampling point of local node `gp`: `pos = n * (siz/2) / sqrt(3)`,
    with `g = 1/√3` -/
def gpos (s g : α) (gp axis : Nat) : α := sgn gp axis * (s / 2) * g

/-- `eval_shape_fun_der` at Gauss point `gp` -/
def dNg2 (sx sy g : α) (gp : Nat) : Nat → Nat → α :=
  shapeDer2 sx sy (gpos sx g gp 0) (gpos sy g gp 1)
def dNg3 (sx sy sz g : α) (gp : Nat) : Nat → Nat → α :=
  shapeDer3 sx sy sz (gpos sx g gp 0) (gpos sy g gp 1) (gpos sz g gp 2)
/-- `eval_shape_fun` at Gauss point `gp` -/
def Ng2 (sx sy g : α) (gp : Nat) : Nat → α :=
  shape2 sx sy (gpos sx g gp 0) (gpos sy g gp 1)
def Ng3 (sx sy sz g : α) (gp : Nat) : Nat → α :=
  shape3 sx sy sz (gpos sx g gp 0) (gpos sy g gp 1) (gpos sz g gp 2)

/-- `w = np.prod(siz[:dim]/2)` -/
def w2 (sx sy : α) : α := (sx / 2) * (sy / 2)
def w3 (sx sy sz : α) : α := (sx / 2) * (sy / 2) * (sz / 2)

/-! ## element matrices -/

/-- `(w * B.T) @ D` at one integration point: entry `[a][j]` -/
def wBtD (nst : Nat) (w : α) (B : Nat → Nat → α) (D : Nat → Nat → α) (a j : Nat) : α :=
  sumRange nst (fun i => (w * B i a) * D i j)

/-- `Σ_gp (W_gp @ B_gp)[a][b]`, the loop `stiffness_element += w * B.T @ D @ B` -/
def stiffFrom (ngp nst : Nat) (W : Nat → Nat → Nat → α) (B : Nat → Nat → Nat → α) (a b : Nat) : α :=
  sumRange ngp (fun gp => sumRange nst (fun j => W gp a j * B gp j b))

/-- `B` at Gauss point `gp` (the file always calls `get_B(dN_dx)` with the default `voigt=True`) -/
def Bg2 (sx sy g : α) (gp : Nat) : Nat → Nat → α := getB2 (dNg2 sx sy g gp)
def Bg3 (sx sy sz g : α) (gp : Nat) : Nat → Nat → α := getB3 true (dNg3 sx sy sz g gp)

/-- `AssembleStiffness.stiffness_element`, 2-D (`D` already multiplied by the thickness `sz`) -/
def stiffElem2 (sx sy g : α) (D : Nat → Nat → α) : Nat → Nat → α :=
  stiffFrom 4 3 (fun gp => wBtD 3 (w2 sx sy) (Bg2 sx sy g gp) D) (Bg2 sx sy g)
/-- `AssembleStiffness.stiffness_element`, 3-D -/
def stiffElem3 (sx sy sz g : α) (D : Nat → Nat → α) : Nat → Nat → α :=
  stiffFrom 8 6 (fun gp => wBtD 6 (w3 sx sy sz) (Bg3 sx sy sz g gp) D) (Bg3 sx sy sz g)

/-- `Nmat[0:ndof, ndof*d : ndof*d+ndof] = identity(ndof) * N[d]` -/
def nmat (ndof : Nat) (N : Nat → α) (i col : Nat) : α :=
  (if i = col % ndof then (1 : α) else 0) * N (col / ndof)

/-- `el_mat += w * material_property * Nmat.T @ Nmat` summed over the integration points -/
def massFrom (ngp ndof : Nat) (wrho : α) (N : Nat → Nat → α) (p q : Nat) : α :=
  sumRange ngp (fun gp => sumRange ndof (fun i => (wrho * nmat ndof (N gp) i p) * nmat ndof (N gp) i q))

/-- `AssembleMass.el_mat` 2-D: `material_property *= prod(siz[2:])` -/
def massElem2 (sx sy sz g rho : α) (ndof : Nat) : Nat → Nat → α :=
  massFrom 4 ndof (w2 sx sy * (rho * sz)) (Ng2 sx sy g)
def massElem3 (sx sy sz g rho : α) (ndof : Nat) : Nat → Nat → α :=
  massFrom 8 ndof (w3 sx sy sz * rho) (Ng3 sx sy sz g)

/-- `poisson_element += w * material_property * Bn.T @ Bn` -/
def poissonFrom (ngp dim : Nat) (wk : α) (dN : Nat → Nat → Nat → α) (p q : Nat) : α :=
  sumRange ngp (fun gp => sumRange dim (fun i => (wk * dN gp i p) * dN gp i q))

/-- `AssemblePoisson.poisson_element` 2-D: `material_property *= siz[2:]` -/
def poissonElem2 (sx sy sz g k : α) : Nat → Nat → α :=
  poissonFrom 4 2 (w2 sx sy * (k * sz)) (dNg2 sx sy g)
def poissonElem3 (sx sy sz g k : α) : Nat → Nat → α :=
  poissonFrom 8 3 (w3 sx sy sz * k) (dNg3 sx sy sz g)

/-! ## C12 : element-level operators -/

/-- `B = Σ_gp w * get_B(dN_dx)` with `w = 1/elemnodes` -/
def strainBavg (ngp : Nat) (w : α) (B : Nat → Nat → Nat → α) (i col : Nat) : α :=
  sumRange ngp (fun gp => w * B gp i col)

/-- `idx_shear = count_nonzero(B, axis=1) == 2*elemnodes ; B[idx_shear, :] *= 2` when `voigt`
    — AS CODED: `get_B` already returns engineering shear, the rows are doubled once more -/
def strainMat [DecidableEq α] (voigt : Bool) (en m : Nat) (Bavg : Nat → Nat → α) (i col : Nat) : α :=
  if voigt && countNonzero m (Bavg i) == 2 * en then Bavg i col * 2 else Bavg i col

/-- `Strain._prepare` element matrix, 2-D / 3-D (`w = 1/elemnodes` written `1/(2*2)`, `1/(2*2*2)`) -/
def strainElem2 [DecidableEq α] (voigt : Bool) (sx sy g : α) : Nat → Nat → α :=
  strainMat voigt 4 8 (strainBavg 4 (1 / (2 * 2)) (Bg2 sx sy g))
def strainElem3 [DecidableEq α] (voigt : Bool) (sx sy sz g : α) : Nat → Nat → α :=
  strainMat voigt 8 24 (strainBavg 8 (1 / (2 * 2 * 2)) (Bg3 sx sy sz g))

/-- `self.element_matrix = D @ self.element_matrix` -/
def matMul (n : Nat) (D S : Nat → Nat → α) (i col : Nat) : α :=
  sumRange n (fun k => D i k * S k col)

def stressElem2 [DecidableEq α] (sx sy g : α) (D : Nat → Nat → α) : Nat → Nat → α :=
  matMul 3 D (strainElem2 true sx sy g)
def stressElem3 [DecidableEq α] (sx sy sz g : α) (D : Nat → Nat → α) : Nat → Nat → α :=
  matMul 6 D (strainElem3 true sx sy sz g)

/-- `einsum('...k, lk -> ...l', element_matrix, u[dofconn])` : row `r` (flattened leading dims), element `e` -/
def elemOpApply (dc : Nat → Nat → Nat) (K : Nat) (EM : Nat → Nat → α) (u : Nat → α) (r e : Nat) : α :=
  sumRange K (fun k => EM r k * u (dc e k))

/-- "element matrix is repeated for each dof": `new[i, r, i::ndof] = em[r, :]`, row index `i*R + r` -/
def repeatPerDof (ndof R : Nat) (em : Nat → Nat → α) (q k : Nat) : α :=
  if k % ndof = q / R then em (q % R) (k / ndof) else 0

/-- `ElementOperation` on a fresh module: `_prepare` check, then `_response`; returns the number of
    output rows and the output `(row, element)` -/
def elemOp (d : Dom) (R K : Nat) (EM : Nat → Nat → α) (usize : Nat) (u : Nat → α) :
    Except String (Nat × (Nat → Nat → α)) :=
  if K % d.elemnodes ≠ 0 then .error "IndexError"
  else if usize % d.nnodes ≠ 0 then .error "IndexError"
  else
    let ndof := usize / d.nnodes
    if K ≠ d.elemnodes * ndof then
      if K ≠ d.elemnodes then .error "Assertion"
      else .ok (ndof * R, elemOpApply (d.dofConn ndof) (ndof * d.elemnodes) (repeatPerDof ndof R EM) u)
    else .ok (R, elemOpApply (d.dofConn ndof) K EM u)

/-- `ElementAverage` element matrix: shape functions at the centroid (`pos = [0,0,0]`), shape `(elemnodes,)` -/
def avgElem2 (sx sy : α) (_ : Nat) (l : Nat) : α := shape2 sx sy 0 0 l
def avgElem3 (sx sy sz : α) (_ : Nat) (l : Nat) : α := shape3 sx sy sz 0 0 0 l

/-- `dofs_el = einsum('...k, ...l -> lk', element_matrix, x)` -/
def nodalEl (R : Nat) (EM : Nat → Nat → α) (x : Nat → Nat → α) (l k : Nat) : α :=
  sumRange R (fun r => EM r k * x r l)

/-- `NodalOperation._response` : `np.add.at(zeros(ndofs), dofconn, dofs_el)` (`ndof = K / elemnodes`) -/
def nodalOpApply (nel : Nat) (dc : Nat → Nat → Nat) (R K : Nat) (EM : Nat → Nat → α) (x : Nat → Nat → α) : Nat → α :=
  scatterAdd (nel * K) (fun p => dc (p / K) (p % K)) (fun p => nodalEl R EM x (p / K) (p % K))

/-- `NodalOperation` on a `DomainDefinition`: `_prepare` check, `ndof = K // elemnodes` -/
def nodalOp (d : Dom) (R K : Nat) (EM : Nat → Nat → α) (x : Nat → Nat → α) : Except String (Nat → α) :=
  if K % d.elemnodes ≠ 0 then .error "IndexError"
  else .ok (nodalOpApply d.nel (d.dofConn (K / d.elemnodes)) R K EM x)

/-! ### `ElementOperation._sensitivity`, `NodalOperation._sensitivity` -/

/-- `du_el = einsum('...k, ...l -> lk', self.element_matrix, dy)` then `np.add.at(zeros_like(u), self.dofconn, du_el)`;
    `EM` is `self.element_matrix` AFTER `_response` (the repeated matrix on the repeat path), `R` its rows -/
def elemOpSensApply (nel : Nat) (dc : Nat → Nat → Nat) (R K : Nat) (EM : Nat → Nat → α) (dy : Nat → Nat → α) : Nat → α :=
  scatterAdd (nel * K) (fun p => dc (p / K) (p % K))
    (fun p => sumRange R (fun r => EM r (p % K) * dy r (p / K)))

/-- `ElementOperation._sensitivity` after a `_response` with a nodal vector of size `usize` on a fresh module
    (same branches as `elemOp`: it uses the `element_matrix` / `dofconn` that `_response` left behind);
    `dy` has the shape of the output `(rows, nel)` -/
def elemOpSens (d : Dom) (R K : Nat) (EM : Nat → Nat → α) (usize : Nat) (dy : Nat → Nat → α) :
    Except String (Nat → α) :=
  if K % d.elemnodes ≠ 0 then .error "IndexError"
  else if usize % d.nnodes ≠ 0 then .error "IndexError"
  else
    let ndof := usize / d.nnodes
    if K ≠ d.elemnodes * ndof then
      if K ≠ d.elemnodes then .error "Assertion"
      else .ok (elemOpSensApply d.nel (d.dofConn ndof) (ndof * R) (ndof * d.elemnodes) (repeatPerDof ndof R EM) dy)
    else .ok (elemOpSensApply d.nel (d.dofConn ndof) R K EM dy)

/-- `NodalOperation._sensitivity` : `einsum('...k, lk -> ...l', self.element_matrix, dx[self.dofconn])` -/
def nodalOpSensApply (dc : Nat → Nat → Nat) (K : Nat) (EM : Nat → Nat → α) (dx : Nat → α) (r e : Nat) : α :=
  sumRange K (fun k => EM r k * dx (dc e k))

def nodalOpSens (d : Dom) (K : Nat) (EM : Nat → Nat → α) (dx : Nat → α) : Except String (Nat → Nat → α) :=
  if K % d.elemnodes ≠ 0 then .error "IndexError"
  else .ok (nodalOpSensApply (d.dofConn (K / d.elemnodes)) K EM dx)

/-- `Phi = [1,1,0]` / `[1,1,1,0,0,0]` -/
def phi (dim : Nat) (j : Nat) : α := if j < dim then 1 else 0

/-- `BDPhi = Σ_gp (w * B.T @ D) @ Phi` -/
def thermoFrom (ngp nst dim : Nat) (W : Nat → Nat → Nat → α) (a : Nat) : α :=
  sumRange ngp (fun gp => sumRange nst (fun j => W gp a j * phi dim j))

/-- `ThermoMechanical` element matrix `alpha * BDPhi` (shape `(elemnodes*dim,)`, one row) -/
def thermoElem2 (sx sy g alpha : α) (D : Nat → Nat → α) (_ : Nat) (a : Nat) : α :=
  alpha * thermoFrom 4 3 2 (fun gp => wBtD 3 (w2 sx sy) (Bg2 sx sy g gp) D) a
def thermoElem3 (sx sy sz g alpha : α) (D : Nat → Nat → α) (_ : Nat) (a : Nat) : α :=
  alpha * thermoFrom 8 6 3 (fun gp => wBtD 6 (w3 sx sy sz) (Bg3 sx sy sz g gp) D) a

end kinematics
end PymotoVerif.Assembly
