/-
Core conventions shared by all models (no Mathlib, no imports).

* a vector is a total function `Nat → α` plus a length kept by the caller
* `sumRange n f` is the executable sum `f 0 + … + f (n-1)`
* models are generic over the scalar through plain operation classes so that the
  SAME definition runs at `Rat`/`Float` in the driver and is reasoned about in a `Field`
-/
namespace PymotoVerif

/-- executable sum over `0..n-1` -/
def sumRange {α} [Add α] [OfNat α 0] : Nat → (Nat → α) → α
  | 0, _ => 0
  | n+1, f => sumRange n f + f n

/-- gather through an index map (numpy `x[idx]`) -/
def gather {α} (idx : Nat → Nat) (x : Nat → α) : Nat → α := fun e => x (idx e)

/-- `np.add.at(zeros, idx, w)` for `m` source entries (scatter-add with repeats) -/
def scatterAdd {α} [Add α] [OfNat α 0] (m : Nat) (idx : Nat → Nat) (w : Nat → α) : Nat → α :=
  fun j => sumRange m (fun e => if idx e = j then w e else 0)

/-- tabulate a vector -/
def tab {α} (n : Nat) (f : Nat → α) : List α := (List.range n).map f

/-- list → total function (0 outside) -/
def ofList {α} [OfNat α 0] (l : List α) : Nat → α := fun i => l.getD i 0

/-- dot product of the first `n` entries -/
def dot {α} [Add α] [Mul α] [OfNat α 0] (n : Nat) (a b : Nat → α) : α :=
  sumRange n (fun i => a i * b i)

end PymotoVerif
