/-
Generic model of a caching component (a pyMOTO module or a network seen from outside) and of the
call histories of property C03.  No Mathlib.

`σ` cache, `ι` inputs, `ο` outputs, `ω` output seeds, `γ` input sensitivities.
`resp` may read and update the cache; `sens` reads the cache written by the last `resp`
(e.g. LinSolve: factorisation + solution `u` + LDAS data bases; OverhangFilter: `smax`).
-/
import PymotoVerif.Core.Base
namespace PymotoVerif.Component

structure Comp (σ ι ο ω γ : Type) where
  init : σ
  resp : σ → ι → σ × ο
  sens : σ → ι → ω → σ × γ

/-- the history language of C03 -/
inductive Op (ι ω : Type) where
  | setInput (x : ι)
  | response
  | seed (w : ω)
  | sensitivity
  | reset

/-- observable + hidden state of a run -/
structure St (σ ι ο ω γ : Type) where
  c : σ                 -- cache (hidden)
  x : ι                 -- current input states
  y : Option ο          -- output states (after the last response)
  w : Option ω          -- output sensitivities (seed)
  g : Option γ          -- accumulated input sensitivities
  fresh : Bool          -- the last response was computed for the current inputs

variable {σ ι ο ω γ : Type} [Add γ]

/-- `Signal.add_sensitivity`: first contribution is stored, later ones are added -/
def acc (g : Option γ) (d : γ) : Option γ :=
  match g with
  | none => some d
  | some a => some (a + d)

/-- one operation; `sensitivity` without a seed is a no-op (Module.sensitivity skips) -/
def step (M : Comp σ ι ο ω γ) (s : St σ ι ο ω γ) : Op ι ω → St σ ι ο ω γ
  | .setInput x => { s with x := x, fresh := false }
  | .response => let r := M.resp s.c s.x; { s with c := r.1, y := some r.2, fresh := true }
  | .seed w => { s with w := some w }
  | .sensitivity =>
      match s.w with
      | none => s
      | some w => let r := M.sens s.c s.x w; { s with c := r.1, g := acc s.g r.2 }
  | .reset => { s with w := none, g := none }

def run (M : Comp σ ι ο ω γ) (s : St σ ι ο ω γ) (ops : List (Op ι ω)) : St σ ι ο ω γ :=
  ops.foldl (step M) s

def start (M : Comp σ ι ο ω γ) (x : ι) : St σ ι ο ω γ :=
  { c := M.init, x := x, y := none, w := none, g := none, fresh := false }

/-- protocol: `sensitivity` (with a seed present) only when the last response is for the current inputs -/
def protocolOK : Bool → Option ω → List (Op ι ω) → Bool
  | _, _, [] => true
  | _, w, .setInput _ :: t => protocolOK false w t
  | _, w, .response :: t => protocolOK true w t
  | f, _, .seed w :: t => protocolOK f (some w) t
  | f, w, .sensitivity :: t => (f || w.isNone) && protocolOK f w t
  | f, _, .reset :: t => protocolOK f none t

end PymotoVerif.Component
