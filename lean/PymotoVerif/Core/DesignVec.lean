/-
Design-vector plumbing shared by the optimiser models (`Core/OC.lean`, `Core/MMA.lean`):
`pymoto/utils.py` `_concatenate_to_array` / `_split_from_array`, the slice write-back used by
`minimize_oc` and `MMA.response`, and elementwise numpy primitives.   No Mathlib.

* the states of the variable signals are a `List (List α)` (one flattened array per signal, a scalar
  state is a one-element list, exactly what `np.append(values, v)` makes of it);
* the concatenated design vector is the flat list; as a *vector* it is viewed through `ofList`
  (`Nat → α` plus the length), see `Core/Base.lean`;
* iterative models keep their iterates in `Array`s (strict data, so that the interpreter does not
  re-evaluate a chain of closures) and look at them through `ofArr`; `freeze n f` materialises `f`.
-/
import PymotoVerif.Core.Base
namespace PymotoVerif.DV

/-! ## vectors kept as data -/

/-- view an array as a total function (0 outside) -/
def ofArr {α} [OfNat α 0] (a : Array α) : Nat → α := fun i => a.getD i 0

/-- materialise the first `n` entries of `f` -/
def freeze {α} (n : Nat) (f : Nat → α) : Array α := Array.ofFn (n := n) (fun i => f i.val)

/-! ## `_concatenate_to_array` -/

/-- `values` after the loop: `np.append` of the flattened states -/
def concat {α} (states : List (List α)) : List α := states.flatten

/-- `cumulative_inds[i]`: total length of the first `i` states -/
def cum {α} : List (List α) → Nat → Nat
  | [], _ => 0
  | _ :: _, 0 => 0
  | s :: rest, i+1 => s.length + cum rest i

/-- the whole `cumulative_inds` array (`len(var_list)+1` entries) -/
def cumlens {α} (states : List (List α)) : List Nat := (List.range (states.length + 1)).map (cum states)

/-- `_concatenate_to_array` with its error: a `None` state raises `ValueError` -/
def concatenate {α} (states : List (Option (List α))) : Except String (List α × List Nat) :=
  if states.any Option.isNone then .error "ValueError"
  else
    let st := states.map (fun o => o.getD [])
    .ok (concat st, cumlens st)

/-! ## slicing back -/

/-- numpy basic slice `values[a:b]` for `0 ≤ a`, `0 ≤ b` -/
def slice {α} (values : List α) (a b : Nat) : List α := (values.drop a).take (b - a)

/-- `_split_from_array(values, cumulative_inds)`; the assertion compares the last index with `values.size` -/
def split {α} (values : List α) (cumulative : List Nat) : Except String (List (List α)) :=
  match cumulative.getLast? with
  | none => .error "IndexError"                     -- `cumulative_inds[-1]` of an empty array
  | some last =>
    if last ≠ values.length then .error "Assertion"
    else .ok ((List.range (cumulative.length - 1)).map
      (fun i => slice values (cumulative.getD i 0) (cumulative.getD (i+1) 0)))

/-- the write-back loop of `minimize_oc`: `s.state = xnew[cumlens[i]:cumlens[i+1]]` for every signal -/
def writeBack {α} (values : List α) (cumulative : List Nat) (nsig : Nat) : List (List α) :=
  (List.range nsig).map (fun i => slice values (cumulative.getD i 0) (cumulative.getD (i+1) 0))

/-- a state as MMA writes it: a bare scalar when the slice has exactly one entry, else the array slice -/
inductive St (α : Type) where
  | scalar (v : α)
  | arr (l : List α)

/-- flattened content (`np.append(values, state)`) -/
def St.flat {α} : St α → List α
  | .scalar v => [v]
  | .arr l => l

/-- the write-back loop of `MMA.response`:
    `if cumlens[i+1]-cumlens[i] == 1: s.state = xval[cumlens[i]] else: s.state = xval[cumlens[i]:cumlens[i+1]]` -/
def writeBackMMA {α} [OfNat α 0] (values : List α) (cumulative : List Nat) (nsig : Nat) : List (St α) :=
  (List.range nsig).map (fun i =>
    let a := cumulative.getD i 0
    let b := cumulative.getD (i+1) 0
    if b - a = 1 then .scalar (values.getD a 0) else .arr (slice values a b))

/-! ## numpy elementwise primitives -/
section Prim
variable {α : Type}

/-- `np.maximum(a, b)` -/
def vmax [LT α] [DecidableLT α] (a b : α) : α := if a < b then b else a
/-- `np.minimum(a, b)` -/
def vmin [LT α] [DecidableLT α] (a b : α) : α := if b < a then b else a
/-- `np.clip(a, lo, hi) = minimum(maximum(a, lo), hi)` -/
def clip [LT α] [DecidableLT α] (a lo hi : α) : α := vmin (vmax a lo) hi
/-- `abs` -/
def vabs [LT α] [DecidableLT α] [Neg α] [OfNat α 0] (a : α) : α := if a < 0 then -a else a

/-- left fold maximum of `x[0..k]` (`k+1` entries): Python `max(x)` / `np.max` -/
def maxUpTo [LT α] [DecidableLT α] : Nat → (Nat → α) → α
  | 0, x => x 0
  | k+1, x => vmax (maxUpTo k x) (x (k+1))
/-- left fold minimum of `x[0..k]` -/
def minUpTo [LT α] [DecidableLT α] : Nat → (Nat → α) → α
  | 0, x => x 0
  | k+1, x => vmin (minUpTo k x) (x (k+1))

end Prim

/-! ## bounds given as a scalar, one value per signal, or one value per variable -/

/-- how `xmin`, `xmax`, `move` may be passed -/
inductive Bnd (α : Type) where
  | scalar (v : α)               -- no `__len__`
  | vec (l : List α)             -- anything with a length

end PymotoVerif.DV
