/-
Model of `pymoto/common/domain.py` : `DomainDefinition` (numbering, connectivity, shape functions).
No Mathlib.  2-D (`nelz = 0`) and 3-D domains; 1-D (`nely = 0`) is outside property C13.
-/
import PymotoVerif.Core.Base
namespace PymotoVerif.Domain

structure Dom where
  nelx : Nat
  nely : Nat
  nelz : Nat
deriving Repr, DecidableEq

namespace Dom
/-- `self.dim` (2 or 3; the 1-D branch is not modelled) -/
def dim (d : Dom) : Nat := if d.nelz = 0 then 2 else 3
/-- `max(self.nelz, 1)` -/
def nz (d : Dom) : Nat := max d.nelz 1
def nel (d : Dom) : Nat := d.nelx * d.nely * d.nz
def nnodes (d : Dom) : Nat := (d.nelx + 1) * (d.nely + 1) * (d.nelz + 1)
def elemnodes (d : Dom) : Nat := 2 ^ d.dim

/-- `get_elemnumber` -/
def elemNumber (d : Dom) (i j k : Nat) : Nat := (k * d.nely + j) * d.nelx + i
/-- `get_nodenumber` -/
def nodeNumber (d : Dom) (i j k : Nat) : Nat := (k * (d.nely + 1) + j) * (d.nelx + 1) + i

/-- `get_node_indices` : `(i, j, k)`; the code returns only `(i, j)` when `dim = 2`;
    note `k` is *not* reduced modulo anything, exactly as coded -/
def nodeI (d : Dom) (n : Nat) : Nat := n % (d.nelx + 1)
def nodeJ (d : Dom) (n : Nat) : Nat := (n / (d.nelx + 1)) % (d.nely + 1)
def nodeK (d : Dom) (n : Nat) : Nat := n / ((d.nelx + 1) * (d.nely + 1))

/-- `node_numbering[l][axis]` as the 0/1 offset `max(n, 0)`: bit `axis` of `l` -/
def nbit (l axis : Nat) : Nat := (l / 2 ^ axis) % 2
/-- `node_numbering[l][axis]` as ±1 -/
def nsign (l axis : Nat) : Int := if nbit l axis = 1 then 1 else -1

/-- `get_elemconnectivity(i, j, k)[l]`; in 2-D `node_numbering[l][2] = -1` so the `k` offset
    `max(n[2],0)` is 0, which is also bit 2 of `l < 4` -/
def elemConn (d : Dom) (i j k l : Nat) : Nat :=
  d.nodeNumber (i + nbit l 0) (j + nbit l 1) (k + nbit l 2)

/-- the constructor's enumeration of elements: `elx = repeat(arange nelx, nely*nz)`,
    `ely = tile(repeat(arange nely, nz), nelx)`, `elz = tile(arange nz, nelx*nely)` -/
def elx (d : Dom) (p : Nat) : Nat := p / (d.nely * d.nz)
def ely (d : Dom) (p : Nat) : Nat := (p / d.nz) % d.nely
def elz (d : Dom) (p : Nat) : Nat := p % d.nz
def elOf (d : Dom) (p : Nat) : Nat := d.elemNumber (d.elx p) (d.ely p) (d.elz p)

/-- `self.conn[el, :] = get_elemconnectivity(elx, ely, elz)` : row `e` receives the row of the
    LAST position `p` with `el[p] = e` (numpy assignment order); untouched rows stay `0`. -/
def connRowSrc (d : Dom) (e : Nat) : Option Nat :=
  ((List.range d.nel).reverse.find? (fun p => d.elOf p = e))

def conn (d : Dom) (e l : Nat) : Nat :=
  match d.connRowSrc e with
  | some p => d.elemConn (d.elx p) (d.ely p) (d.elz p) l
  | none => 0

/-- `get_dofconnectivity(ndof)[e][c]` = `repeat(conn*ndof, ndof, axis=-1) + tile(arange ndof, elemnodes)` -/
def dofConn (d : Dom) (ndof e c : Nat) : Nat := d.conn e (c / ndof) * ndof + c % ndof

/-- `self.elements[i,j,k]`, `self.nodes[i,j,k]` (meshgrid, indexing='ij') -/
def elements (d : Dom) (i j k : Nat) : Nat := d.elemNumber i j k
def nodes (d : Dom) (i j k : Nat) : Nat := d.nodeNumber i j k
end Dom

/-! ### shape functions, generic scalar -/
section shape
variable {α : Type} [Add α] [Mul α] [Div α] [Neg α] [OfNat α 1] [OfNat α 2]

/-- ±1 as a scalar -/
def sgn (l axis : Nat) : α := if Dom.nbit l axis = 1 then 1 else -1

/-- one factor `(size/2 + n*pos)` -/
def fac (s p : α) (l axis : Nat) : α := s / 2 + sgn l axis * p

/-- `eval_shape_fun(pos)[l]`  in 2-D: `1/v`, then `*=` factor per axis (in that order) -/
def shape2 (sx sy px py : α) (l : Nat) : α :=
  1 / (sx * sy) * fac sx px l 0 * fac sy py l 1
def shape3 (sx sy sz px py pz : α) (l : Nat) : α :=
  1 / (sx * sy * sz) * fac sx px l 0 * fac sy py l 1 * fac sz pz l 2

/-- `eval_shape_fun_der(pos)[i][l]` -/
def shapeDer2 (sx sy px py : α) (i l : Nat) : α :=
  if i = 0 then 1 / (sx * sy) * fac sy py l 1 * sgn l 0
  else 1 / (sx * sy) * fac sx px l 0 * sgn l 1
def shapeDer3 (sx sy sz px py pz : α) (i l : Nat) : α :=
  if i = 0 then 1 / (sx * sy * sz) * fac sy py l 1 * fac sz pz l 2 * sgn l 0
  else if i = 1 then 1 / (sx * sy * sz) * fac sx px l 0 * fac sz pz l 2 * sgn l 1
  else 1 / (sx * sy * sz) * fac sx px l 0 * fac sy py l 1 * sgn l 2
end shape

end PymotoVerif.Domain
