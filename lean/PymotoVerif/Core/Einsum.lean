/-
Models of the two module families of `pymoto/modules/generic.py` that act on whole n-d arrays:

* `EinSum` (`_response`, `_sensitivity` as coded) on top of an executable model of `numpy.einsum` with an explicit output
  (`"…->…"`): operands are tensors given by their index letters and a function of the flat C-order index; the value is the
  sum over all assignments of the summed index letters of the product of the operand entries.  Repeated letters inside one
  operand are evaluated as numpy does (diagonal), so `ii->` (trace) is covered by the same definition.
* the pyMOTO-authored part of `MathGeneral._sensitivity`: `df_dy*dg_df[i]`, the real-part rule, and the reverse broadcast
  (`np.add.reduce(axis=broadcasted_dims, keepdims=True)` + `np.squeeze` of the leading axes).  The derivative arrays `dg_df[i]`
  (sympy's `diff`/`lambdify`) are an INPUT of the model.

No Mathlib; generic scalar.  Complex numbers are `Pointwise.Cx` pairs with the ring operations defined here.
-/
import PymotoVerif.Core.Base
import PymotoVerif.Core.Pointwise
namespace PymotoVerif.Einsum
open PymotoVerif PymotoVerif.Pointwise

/-! ### complex arithmetic on pairs -/
section cx
variable {α : Type}
instance [Add α] : Add (Cx α) := ⟨fun a b => ⟨a.re + b.re, a.im + b.im⟩⟩
instance [Add α] [Sub α] [Mul α] : Mul (Cx α) := ⟨fun a b => ⟨a.re * b.re - a.im * b.im, a.re * b.im + a.im * b.re⟩⟩
instance [OfNat α 0] : OfNat (Cx α) 0 := ⟨⟨0, 0⟩⟩
instance [OfNat α 0] [OfNat α 1] : OfNat (Cx α) 1 := ⟨⟨1, 0⟩⟩
/-- a real number as a complex one (numpy's upcast of a real operand) -/
def ofRe [OfNat α 0] (x : α) : Cx α := ⟨x, 0⟩
end cx

/-! ### index letters, assignments, flat C-order indices

An index letter is a `Nat`; `dim l` is the extent of letter `l`; an assignment is `σ : Nat → Nat`. -/

def upd (σ : Nat → Nat) (l v : Nat) : Nat → Nat := fun k => if k = l then v else σ k

/-- number of entries of a tensor indexed by the letters `ls` -/
def size (dim : Nat → Nat) : List Nat → Nat
  | [] => 1
  | l :: ls => dim l * size dim ls

/-- flat C-order index of the entry `[σ l₁, σ l₂, …]` -/
def flatIdx (dim : Nat → Nat) : List Nat → (Nat → Nat) → Nat
  | [], _ => 0
  | l :: ls, σ => σ l * size dim ls + flatIdx dim ls σ

/-- the assignment of the letters `ls` addressed by the flat index `o` (other letters as in `σ`) -/
def decode (dim : Nat → Nat) : List Nat → Nat → (Nat → Nat) → (Nat → Nat)
  | [], _, σ => σ
  | l :: ls, o, σ => decode dim ls (o % size dim ls) (upd σ l (o / size dim ls))

section generic
variable {α : Type} [Add α] [Mul α] [OfNat α 0] [OfNat α 1]

/-- sum of `f` over all assignments of the letters `ls` (the others as in `σ`) -/
def sumAssign (dim : Nat → Nat) : List Nat → (Nat → Nat) → ((Nat → Nat) → α) → α
  | [], σ, f => f σ
  | l :: ls, σ, f => sumRange (dim l) (fun v => sumAssign dim ls (upd σ l v) f)

/-- letters without repetition, first occurrences kept -/
def dedup : List Nat → List Nat
  | [] => []
  | l :: ls => l :: (dedup ls).filter (fun k => k != l)

structure Operand (α : Type) where
  ls : List Nat
  val : Nat → α

/-- all letters of the operands, with repetitions -/
def letters (ops : List (Operand α)) : List Nat := ops.flatMap (fun op => op.ls)

/-- the letters that are summed: in some operand, not in the output -/
def summedLetters (ops : List (Operand α)) (out : List Nat) : List Nat :=
  dedup ((letters ops).filter (fun l => !out.contains l))

/-- product of the addressed operand entries -/
def prodOps (dim : Nat → Nat) (ops : List (Operand α)) (τ : Nat → Nat) : α :=
  ops.foldr (fun op acc => op.val (flatIdx dim op.ls τ) * acc) 1

/-- `numpy.einsum("ls₁,ls₂,…->out", x₁, x₂, …)` as a function of the flat index of the output -/
def einsum (dim : Nat → Nat) (ops : List (Operand α)) (out : List Nat) : Nat → α :=
  fun o => sumAssign dim (summedLetters ops out) (decode dim out o (fun _ => 0)) (prodOps dim ops)

/-- general branch of `EinSum._sensitivity` for operand `a`:
    `einsum(out, others… -> ind_red, df_in, *others)[expand]` broadcast into the shape of the operand -/
def einsumSens (dim : Nat → Nat) (ops : List (Operand α)) (out : List Nat) (w : Nat → α) (a : Nat) : Nat → α :=
  let lsA := (ops.getD a ⟨[], fun _ => 0⟩).ls                  -- ind_out
  let indIn : List (Operand α) := ⟨out, w⟩ :: ops.eraseIdx a    -- ind_in / [df_in, *arg_in]
  let avail := letters indIn                                   -- ind_avail
  let red := lsA.filter (fun c => avail.contains c)            -- ind_red
  let r := einsum dim indIn red
  fun k => r (flatIdx dim red (decode dim lsA k (fun _ => 0)))  -- [expand] + broadcasting assignment

/-- `mat = zeros; np.fill_diagonal(mat, 1.0)` for an `n × n` matrix (`flat[0 : n*n : n+1] = 1`) -/
def diagMat (n : Nat) : Nat → α := fun k => sumRange n (fun t => if k = t * (n + 1) then 1 else 0)

/-- `ii->` : `df_in * mat` -/
def traceSens (n : Nat) (w : α) : Nat → α := fun k => w * diagMat n k
/-- `i->`, `ij->`, … : `df_in * ones_like(state)` -/
def onesSens (w : α) : Nat → α := fun _ => w * 1

end generic

/-! ### `EinSum` as coded, on complex pairs with dtype flags -/
section module
variable {α : Type} [Add α] [Sub α] [Mul α] [OfNat α 0] [OfNat α 1]

def hasDup : List Nat → Bool
  | [] => false
  | l :: ls => ls.contains l || hasDup ls

/-- the checks of `numpy.einsum` that the generator can violate (explicit-output form):
    number of subscripts = ndim, one extent per letter, output letters distinct and present in the inputs.
    Returns the extent map. -/
def checkExpr (lss : List (List Nat)) (shapes : List (List Nat)) (out : List Nat) : Except String (Nat → Nat) := do
  if lss.length ≠ shapes.length then throw "ValueError"
  let mut dimL : List (Nat × Nat) := []
  for (ls, sh) in lss.zip shapes do
    if ls.length ≠ sh.length then throw "ValueError"
    for (l, d) in ls.zip sh do
      match dimL.find? (fun p => p.1 == l) with
      | some p => if p.2 ≠ d then throw "ValueError"
      | none => dimL := (l, d) :: dimL
  if hasDup out then throw "ValueError"
  for l in out do
    if !(dimL.any (fun p => p.1 == l)) then throw "ValueError"
  let tbl := dimL
  return fun l => match tbl.find? (fun p => p.1 == l) with
    | some p => p.2
    | none => 0

/-- `EinSum._response` -/
def response (dim : Nat → Nat) (ops : List (Operand (Cx α))) (out : List Nat) : Nat → Cx α := einsum dim ops out

/-- result of `EinSum._sensitivity` for one operand: dtype flag (complex?) and entries -/
structure Sens (α : Type) where
  cplx : Bool
  val : Nat → Cx α

/-- `EinSum._sensitivity(df_in)`; `isC[i]` = `np.iscomplexobj(sig_in[i].state)`, `wC` = `np.iscomplexobj(df_in)` -/
def sensitivity (dim : Nat → Nat) (ops : List (Operand (Cx α))) (isC : List Bool) (out : List Nat)
    (w : Nat → Cx α) (wC : Bool) : Except String (List (Sens α)) :=
  let nIn := ops.length
  if out = [] ∧ nIn = 1 then
    let ls0 := (ops.getD 0 ⟨[], fun _ => 0⟩).ls
    let c0 := isC.getD 0 false
    if hasDup ls0 then
      if ls0.length > 2 then .error "TypeError"
      else .ok [⟨c0 || wC, traceSens (dim (ls0.getD 0 0)) (w 0)⟩]
    else .ok [⟨c0 || wC, onesSens (w 0)⟩]
  else if ops.any (fun op => hasDup op.ls) then .error "TypeError"
  else
    .ok ((List.range nIn).map (fun ar =>
      let argComplex := (List.range nIn).any (fun i => i != ar && isC.getD i false)
      let g := einsumSens dim ops out w ar
      if !(isC.getD ar false) && argComplex && wC then
        -- da_i = zeros_like(state)+0j ; da_i[...] = einsum(...) ; da_i = da_i.real
        (⟨false, fun k => ofRe (g k).re⟩ : Sens α)
      else if isC.getD ar false then
        ⟨true, g⟩
      else
        -- real zeros_like(state) receiving the einsum result: numpy's cast keeps the real part
        ⟨false, fun k => ofRe (g k).re⟩))

end module

/-! ### MathGeneral: reverse broadcast -/
section unbroadcast
variable {α : Type} [Add α] [Mul α] [OfNat α 0]

def prodL : List Nat → Nat
  | [] => 1
  | d :: ds => d * prodL ds

/-- numpy broadcasting of an array of shape `s` to the shape `S` (`ndim s ≤ ndim S`, aligned at the end; an axis of extent 1
    is repeated): flat index in `S` ↦ flat index of the source entry in `s` -/
def bcastIdx : List Nat → List Nat → Nat → Nat
  | _, [], _ => 0
  | s, _ :: S', K =>
    if s.length ≤ S'.length then bcastIdx s S' (K % prodL S')
    else match s with
      | [] => 0
      | d :: s' => (if d = 1 then 0 else K / prodL S') * prodL s' + bcastIdx s' S' (K % prodL S')

/-- `broadcasted_dims` of the code as a mask over the axes of `S`: the leading axes, and the axes where the input has
    extent 1 and the contribution has not -/
def bmask (s S : List Nat) : List Bool :=
  let n := S.length - s.length
  List.replicate n true ++ List.zipWith (fun sd Sd => sd == 1 && Sd != 1) s (S.drop n)

/-- shape after `np.add.reduce(…, axis=mask, keepdims=True)` -/
def keepShape : List Nat → List Bool → List Nat
  | D :: S', r :: m' => (if r then 1 else D) :: keepShape S' m'
  | S, _ => S

/-- `np.add.reduce(w, axis=mask, keepdims=True)` as a function of the flat index of the reduced array -/
def reduceKeep : List Nat → List Bool → (Nat → α) → Nat → α
  | D :: S', r :: m', w, k =>
    let pS := prodL S'
    let pR := prodL (keepShape S' m')
    if r then sumRange D (fun J => reduceKeep S' m' (fun K' => w (J * pS + K')) (k % pR))
    else reduceKeep S' m' (fun K' => w ((k / pR) * pS + K')) (k % pR)
  | _, _, w, _ => w 0

/-- the three branches of the accumulation loop of `MathGeneral._sensitivity` for one input of shape `s` (`scalar`: Python
    scalar or 0-d array) and a contribution `add` of shape `S`; `none` = the in-place addition does not have equal shapes -/
def unbroadcast (s S : List Nat) (add : Nat → α) : Option (Nat → α) :=
  if s = [] then some (fun _ => sumRange (prodL S) add)                       -- dg_dx[i] += np.sum(dg_dx_add)
  else if s = S then some add                                                -- dg_dx[i] += dg_dx_add
  else
    let n := S.length - s.length
    let m := bmask s S
    if (keepShape S m).drop n = s then some (reduceKeep S m add)             -- reduce(keepdims) ; squeeze(leading) ; +=
    else none

end unbroadcast

section mathgeneral
variable {α : Type} [Add α] [Sub α] [Mul α] [OfNat α 0] [OfNat α 1]

/-- one pass of the loop of `MathGeneral._sensitivity` for input `i`: `dfdy` and `dg` (= `dg_df[i]`) have the output shape `S`;
    `inC` = the input state is complex, `addC` = `df_dy*dg_df[i]` is complex.  Result: dtype flag and entries. -/
def mathGeneralSens (s S : List Nat) (inC addC : Bool) (dfdy dg : Nat → Cx α) : Option (Bool × (Nat → Cx α)) :=
  let add : Nat → Cx α := fun K => dfdy K * dg K
  let add' : Nat → Cx α := if !inC && addC then (fun K => ofRe (add K).re) else add      -- np.real
  match unbroadcast s S add' with
  | some g => some (inC, g)
  | none => none

end mathgeneral

end PymotoVerif.Einsum
