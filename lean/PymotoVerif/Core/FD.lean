/-
Model of `pymoto/routines.py: finite_difference` (the repaired code of commits 5a72e1d, 78c84b5, 1e60d0e, 2ebe49a) and `_has_signal_overlap` (10-19),
on top of the C02 model of `Module` / `Network` / `Signal` / `SignalSlice` (`Core/Network.lean`).
No Mathlib.

* The block under test is a `Blk`: the three entry points `response / sensitivity / reset` that the
  procedure calls.  `progBlk L g gs` is the block of a C02 program `g`; `gs` is the program whose
  `_sensitivity` code runs (`gs = g` for a correct module; a module with a deliberately WRONG
  `_sensitivity` is a `gs` that differs from `g` in the kind / matrix of some module — signals, and
  hence `reset`, are those of `g`).
* Scalars: generic `α` with `Ops α` (`re`, `im`, `abs`, the imaginary unit `I`).  The driver runs the
  model at `Cx Rat` (complex numbers as pairs of exact rationals, `dx = 2⁻ᵏ` exact); a real run is the
  instance `re = id`, `im = 0`, all `cx` flags false.  `cx` (= `np.iscomplexobj`, a property of the
  dtype, not of the value) is static information attached to every input / output signal.
* Array states are flat (C order, the order of `np.nditer` on a C-contiguous array); a sparse matrix
  (input or output) is the flat vector of its `toarray()`.  For a sparse-matrix INPUT (csr / csc /
  coo) the code iterates over the stored values `x.data`; `InSig.visit` lists the flat positions
  `row * ncols + col` of the stored values in that order (for every other input it is
  `0, 1, …, n-1`).  Any other sparse format is not iterable (`InSig.unsupported`, TypeError).
* `x = Sin.state` is read once per input; the perturbed / restored array is handed back with
  `Sin.state = x` (`setState`) after every perturbation and every restore, in the real AND in the
  imaginary pass.  This is exactly what the code does for a plain `Signal`, a basic-slice (view)
  and an integer-array (copy) `SignalSlice`, as long as the block does not itself write the input
  (an input the block overwrites is not an independent variable; such calls are outside the model).
* the seeds: `use_df`, `np.ones` or the values drawn by `np.random.rand` (recorded and passed in);
  for a complex output `ones + 1j*ones` / `r1 + 1j*r2` as coded.  The signal receives a deep copy,
  so the seed used in the numerical pass is the intended one whatever `reset` does.
* after every `blk.reset()` the signals of interest are reset as well
  (`[s.reset() for s in (*inps, *outps)]`, `resetAll`), whether or not they belong to the executed
  modules.
* every call of `test_fn(x0, dx, dgdx_an, dgdx_fd)` is recorded in order, tagged with (input, entry,
  pass, output); the tolerance / error / printing logic has no observable effect and is not modelled.
-/
import PymotoVerif.Core.Network
namespace PymotoVerif.FD
open PymotoVerif PymotoVerif.Net

/-! ## complex numbers as pairs (used by the driver at `Cx Rat`) -/

structure Cx (α : Type) where
  re : α
  im : α
deriving Repr, DecidableEq

namespace Cx
variable {α : Type} [Add α] [Mul α] [Sub α] [Div α] [OfNat α 0] [OfNat α 1]
instance : Add (Cx α) := ⟨fun a b => ⟨a.re + b.re, a.im + b.im⟩⟩
instance : Sub (Cx α) := ⟨fun a b => ⟨a.re - b.re, a.im - b.im⟩⟩
instance : Mul (Cx α) := ⟨fun a b => ⟨a.re * b.re - a.im * b.im, a.re * b.im + a.im * b.re⟩⟩
instance : Div (Cx α) := ⟨fun a b =>
  ⟨(a.re * b.re + a.im * b.im) / (b.re * b.re + b.im * b.im),
   (a.im * b.re - a.re * b.im) / (b.re * b.re + b.im * b.im)⟩⟩
instance : OfNat (Cx α) 0 := ⟨⟨0, 0⟩⟩
instance : OfNat (Cx α) 1 := ⟨⟨1, 0⟩⟩
end Cx

/-! ## interface -/

/-- `np.real`, `np.imag`, `np.abs` and `1j` -/
structure Ops (α : Type) where
  re : α → α
  im : α → α
  abs : α → α
  I : α

structure Cfg (α : Type) where
  dx : α
  relDx : Bool
  keepZero : Bool

/-- how `df_an[Iout]` is produced (values by flat position) -/
inductive Seed (α : Type) where
  | useDf (v : Nat → α)
  | ones
  | rand (r1 r2 : Nat → α)

/-- an entry of `inps`: `cx` = complex dtype, `pyScalar` = the state is a Python / numpy scalar
    (`np.nditer(x, readwrite)` raises TypeError: the non-iterable path) -/
structure InSig where
  sig : Sig
  cx : Bool
  pyScalar : Bool
  /-- flat positions visited by the iterator, in order (`range n`; stored entries of a sparse matrix) -/
  visit : List Nat
  /-- a state `np.nditer` cannot iterate (sparse matrix in a format other than csr / csc / coo) -/
  unsupported : Bool

structure OutSig (α : Type) where
  sig : Sig
  cx : Bool
  seed : Seed α

/-- the three methods of `blk` the procedure calls -/
structure Blk (α : Type) where
  response : Store α → Except String (Store α)
  sensitivity : Store α → Except String (Store α)
  reset : Store α → Store α

/-- what the analytical pass keeps of one output: `f0[Iout]`, `df_an[Iout]` (as used later) and
    `dx_an[Iout][·]` (`none` = sensitivity `None`) -/
structure OutRec (α : Type) where
  f0 : Nat → α
  w : Nat → α
  dxan : List (Option (Nat → α))

/-- one call `test_fn(x0, dx, dgdx_an, dgdx_fd)`; `iin j imag iout` say where it comes from -/
structure Call (α : Type) where
  iin : Nat
  j : Nat
  imag : Bool
  iout : Nat
  x0 : α
  dx : α
  an : α
  fd : α

structure Res (α : Type) where
  store : Store α
  calls : List (Call α)

section
variable {α : Type} [Add α] [Mul α] [Sub α] [Div α] [OfNat α 0] [OfNat α 1] [DecidableEq α]

/-- the block of a program; `gs` supplies the `_sensitivity` code -/
def progBlk (L : Layout) (g gs : Prog α) : Blk α :=
  { response := g.response, sensitivity := gs.sensitivity L, reset := g.reset L }

/-- the values of a signal (by flat position) in a flat vector -/
def sigVals (s : Sig) (f : Nat → α) : Nat → α := fun j => f (s.ents.getD j 0)

/-- `df_an[Iout]` -/
def seedVals (ops : Ops α) (o : OutSig α) : Nat → α :=
  match o.seed with
  | .useDf v => v
  | .ones => if o.cx then fun _ => 1 + ops.I * 1 else fun _ => 1
  | .rand r1 r2 => if o.cx then fun j => r1 j + ops.I * r2 j else r1

/-- `blk.reset()` followed by `[s.reset() for s in (*inps, *outps)]` -/
def resetAll (B : Blk α) (L : Layout) (extra : List Sig) (σ : Store α) : Store α :=
  extra.foldl (fun σ s => resetSig L s σ) (B.reset σ)

/-! ## analytical pass -/

def analyticalOne (ops : Ops α) (B : Blk α) (L : Layout) (extra : List Sig) (inps : List InSig)
    (o : OutSig α) (σ : Store α) : Except String (Store α × Option (OutRec α)) :=
  if !o.sig.hasState σ then .ok (σ, none)                       -- `output is None`: warn, continue
  else
    let w := seedVals ops o
    match seed L o.sig (some w) σ with                          -- `Sout.sensitivity = deepcopy(df_an[Iout])`
    | .error e => .error e
    | .ok σa =>
      match B.sensitivity σa with                               -- `blk.sensitivity()`
      | .error e => .error e
      | .ok σb =>
        let dxan := inps.map fun i =>
          if i.sig.hasSens σb then some (sigVals i.sig σb.se) else none
        .ok (resetAll B L extra σb, some ⟨sigVals o.sig σ.st, w, dxan⟩)

def analytical (ops : Ops α) (B : Blk α) (L : Layout) (extra : List Sig) (inps : List InSig) :
    List (OutSig α) → Store α → Except String (Store α × List (Option (OutRec α)))
  | [], σ => .ok (σ, [])
  | o :: os, σ =>
    match analyticalOne ops B L extra inps o σ with
    | .error e => .error e
    | .ok (σ1, r) =>
      match analytical ops B L extra inps os σ1 with
      | .error e => .error e
      | .ok (σ2, rs) => .ok (σ2, r :: rs)

/-! ## one perturbation -/

/-- `dgdx_fd`: `np.real / np.imag (np.sum((fp - f0) / den * df_an))` -/
def fdVal (ops : Ops α) (imag : Bool) (den : α) (o : OutSig α) (r : OutRec α) (σr : Store α) : α :=
  let s := sumRange o.sig.ents.length fun k => (σr.st (o.sig.ents.getD k 0) - r.f0 k) / den * r.w k
  if imag then ops.im s else ops.re s

/-- `dgdx_an`: the entry of the stored input sensitivity, `0.0` when it was `None` -/
def anVal (ops : Ops α) (imag : Bool) (r : OutRec α) (iin j : Nat) : α :=
  match r.dxan.getD iin none with
  | some s => if imag then ops.im (s j) else ops.re (s j)
  | none => 0

/-- the loop over the outputs after one perturbed response -/
def outCalls (ops : Ops α) (dx den : α) (imag : Bool) (iin j : Nat) (x0 : α) (σr : Store α) :
    Nat → List (OutSig α) → List (Option (OutRec α)) → Except String (List (Call α))
  | iout, o :: os, r :: rs =>
    if !o.sig.hasState σr then outCalls ops dx den imag iin j x0 σr (iout + 1) os rs   -- `fp is None`: warn, continue
    else match r with
      | none => .error "TypeError"                              -- `fp - None`
      | some rec =>
        match outCalls ops dx den imag iin j x0 σr (iout + 1) os rs with
        | .error e => .error e
        | .ok rest =>
          .ok (⟨iin, j, imag, iout, x0, dx, anVal ops imag rec iin j, fdVal ops imag den o rec σr⟩ :: rest)
  | _, _, _ => .ok []

/-- perturb entry `j` by `step`, respond, difference, restore -/
def passStep (ops : Ops α) (B : Blk α) (dx : α) (i : InSig) (iin j : Nat) (x : Nat → α)
    (step : α) (imag : Bool) (outps : List (OutSig α)) (recs : List (Option (OutRec α)))
    (σ : Store α) : Except String (Store α × List (Call α)) :=
  match setState i.sig (fun k => if k = j then x k + step else x k) σ with
  | .error e => .error e
  | .ok σp =>
    match B.response σp with
    | .error e => .error e
    | .ok σr =>
      match outCalls ops dx step imag iin j (x j) σr 0 outps recs with
      | .error e => .error e
      | .ok cs =>
        match setState i.sig x σr with
        | .error e => .error e
        | .ok σq => .ok (σq, cs)

/-- the scale factor `sf` -/
def scaleF (ops : Ops α) (cfg : Cfg α) (x0 : α) : α :=
  if cfg.relDx && decide (ops.abs x0 ≠ 0) then ops.abs x0 else 1

/-- the zero-structure rule; it is NOT applied on the Python-scalar path -/
def skipEntry (cfg : Cfg α) (i : InSig) (x0 : α) : Bool :=
  !i.pyScalar && cfg.keepZero && decide (x0 = 0)

/-- body of the `while not it.finished` loop for entry `j` -/
def entryStep (ops : Ops α) (B : Blk α) (cfg : Cfg α) (i : InSig) (iin : Nat)
    (outps : List (OutSig α)) (recs : List (Option (OutRec α))) (x : Nat → α) (j : Nat)
    (σ : Store α) : Except String (Store α × List (Call α)) :=
  if skipEntry cfg i (x j) then .ok (σ, [])
  else
    let sf := scaleF ops cfg (x j)
    match passStep ops B cfg.dx i iin j x (cfg.dx * sf) false outps recs σ with
    | .error e => .error e
    | .ok (σ1, c1) =>
      if i.cx then
        match passStep ops B cfg.dx i iin j x (cfg.dx * ops.I * sf) true outps recs σ1 with
        | .error e => .error e
        | .ok (σ2, c2) => .ok (σ2, c1 ++ c2)
      else .ok (σ1, c1)

def entryLoop (ops : Ops α) (B : Blk α) (cfg : Cfg α) (i : InSig) (iin : Nat)
    (outps : List (OutSig α)) (recs : List (Option (OutRec α))) (x : Nat → α) :
    List Nat → Store α → Except String (Store α × List (Call α))
  | [], σ => .ok (σ, [])
  | j :: js, σ =>
    match entryStep ops B cfg i iin outps recs x j σ with
    | .error e => .error e
    | .ok (σ1, c1) =>
      match entryLoop ops B cfg i iin outps recs x js σ1 with
      | .error e => .error e
      | .ok (σ2, c2) => .ok (σ2, c1 ++ c2)

/-- `for Iin, Sin in enumerate(inps)` -/
def inputLoop (ops : Ops α) (B : Blk α) (cfg : Cfg α) (outps : List (OutSig α))
    (recs : List (Option (OutRec α))) :
    Nat → List InSig → Store α → Except String (Store α × List (Call α))
  | _, [], σ => .ok (σ, [])
  | iin, i :: is, σ =>
    if !i.sig.hasState σ then .error "ValueError"               -- `np.nditer(None)`
    else if i.unsupported then .error "TypeError"               -- `np.nditer` on an object array
    else
      match entryLoop ops B cfg i iin outps recs (sigVals i.sig σ.st) i.visit σ with
      | .error e => .error e
      | .ok (σ1, c1) =>
        match inputLoop ops B cfg outps recs (iin + 1) is σ1 with
        | .error e => .error e
        | .ok (σ2, c2) => .ok (σ2, c1 ++ c2)

/-- everything after the sub-network selection, for a given block -/
def fdCore (ops : Ops α) (B : Blk α) (L : Layout) (cfg : Cfg α) (inps : List InSig)
    (outps : List (OutSig α)) (σ : Store α) : Except String (Res α) :=
  let extra := inps.map (·.sig) ++ outps.map (·.sig)
  match B.response (resetAll B L extra σ) with                  -- initial reset, response
  | .error e => .error e
  | .ok σ2 =>
    match analytical ops B L extra inps outps σ2 with
    | .error e => .error e
    | .ok (σ3, recs) =>
      match inputLoop ops B cfg outps recs 0 inps σ3 with
      | .error e => .error e
      | .ok (σ4, calls) => .ok ⟨σ4, calls⟩

/-! ## sub-network selection -/

def allInSB : Prog α → List (Nat × Nat)
  | .done => []
  | .prim p r => p.ins.map (fun s => (s.sid, s.base)) ++ allInSB r
  | .sub i r => ((allInSB i).filter fun s => !i.allOut.contains s.1) ++ allInSB r

def allOutSB : Prog α → List (Nat × Nat)
  | .done => []
  | .prim p r => p.outs.map (fun s => (s.sid, s.base)) ++ allOutSB r
  | .sub i r => allOutSB i ++ allOutSB r

/-- per top-level item `b` of `blk.mods`: the base signals of `b.sig_in` and of `b.sig_out` -/
def itemIO : Prog α → List (List Nat × List Nat)
  | .done => []
  | .prim p r => (p.ins.map (·.base), p.outs.map (·.base)) :: itemIO r
  | .sub i r =>
    ((((allInSB i).filter fun s => !i.allOut.contains s.1).map (·.2)), (allOutSB i).map (·.2)) :: itemIO r

/-- `_has_signal_overlap` on the base signals -/
def overlap (a b : List Nat) : Bool := a.any fun x => b.contains x

/-- the first item that reads a base of `inps` -/
def firstIdx (inB : List Nat) : List (List Nat × List Nat) → Nat → Option Nat
  | [], _ => none
  | io :: r, k => if overlap inB io.1 then some k else firstIdx inB r (k + 1)

/-- the last item that writes a base of `outps` -/
def lastIdx (outB : List Nat) : List (List Nat × List Nat) → Nat → Option Nat → Option Nat
  | [], _, acc => acc
  | io :: r, k, acc => lastIdx outB r (k + 1) (if overlap outB io.2 then some k else acc)

/-- `Network(blk.mods[:n])` -/
def takeI : Nat → Prog α → Prog α
  | 0, _ => .done
  | _ + 1, .done => .done
  | n + 1, .prim p r => .prim p (takeI n r)
  | n + 1, .sub i r => .sub i (takeI n r)

/-- `blk.mods[n:]` -/
def dropI : Nat → Prog α → Prog α
  | 0, g => g
  | _ + 1, .done => .done
  | n + 1, .prim _ r => dropI n r
  | n + 1, .sub _ r => dropI n r

/-- `blk.mods[f : l+1]` -/
def sliceI (f l : Nat) (g : Prog α) : Prog α := takeI (l + 1 - f) (dropI f g)

/-- `finite_difference(blk, …)` for a `Network` -/
def fdNet (ops : Ops α) (L : Layout) (g gs : Prog α) (cfg : Cfg α) (inps : List InSig)
    (outps : List (OutSig α)) (σ : Store α) : Except String (Res α) :=
  match firstIdx (inps.map (·.sig.base)) (itemIO g) 0 with
  | none => .error "RuntimeError"
  | some f =>
    match lastIdx (outps.map (·.sig.base)) (itemIO g) 0 none with
    | none => .error "RuntimeError"
    | some l =>
      match (takeI f g).response σ with                         -- `blks_pre.response()`
      | .error e => .error e
      | .ok σ0 => fdCore ops (progBlk L (sliceI f l g) (sliceI f l gs)) L cfg inps outps σ0

/-- `finite_difference(blk, …)` for a plain `Module` -/
def fdMod (ops : Ops α) (L : Layout) (p ps : Prim α) (cfg : Cfg α) (inps : List InSig)
    (outps : List (OutSig α)) (σ : Store α) : Except String (Res α) :=
  fdCore ops (progBlk L (.prim p .done) (.prim ps .done)) L cfg inps outps σ

end
end PymotoVerif.FD
