/-
Model of `pymoto/modules/filter.py` lines 8-343 : `FilterConv`, `Filter`, `DensityFilter`.
No Mathlib.  Generic scalar; `sqrt` and the float→int truncation `int(·)` are parameters.

Conventions
* a 3-D array is a function of its three indices (`A3 β`), the shape is kept by the caller;
  1-D vectors are `Nat → α` plus a length (as everywhere in `Core/`).
* `np.pad` along one axis is described by its *source map*: position in the result ↦ position in the
  input, for the modes `symmetric`, `edge`, `wrap` (closed forms `extSym`, `extEdge`, `extWrap`, valid for
  ARBITRARY pad widths, i.e. repeated reflection / repeated wrapping) and `constant` (no source, value 0).
  These closed forms are the modelling assumption about numpy (validated by the correspondence check).
* everything else is a transcription of the code: order of the three `np.pad` calls of `_process_padding`
  (wrap first, then edge 1, then edge 0, each acting on the array produced by the previous one), the
  override boxes with the code's own `domain_sizes` / `padded_sizes`, overrides applied in list
  order, VALID convolution, FULL correlation, scatter-add through the index arrays.
-/
import PymotoVerif.Core.Domain
namespace PymotoVerif.Filter
open PymotoVerif PymotoVerif.Domain

abbrev A3 (β : Type) := Nat → Nat → Nat → β

/-- nested sum over a box `[0,nx)×[0,ny)×[0,nz)` -/
def sum3 {α} [Add α] [OfNat α 0] (nx ny nz : Nat) (f : A3 α) : α :=
  sumRange nx fun i => sumRange ny fun j => sumRange nz fun k => f i j k

/-- `max(1, s)` (shape of the element arrays along an axis of `s` elements) -/
def sz (s : Nat) : Nat := max 1 s

/-! ## 1-D extension rules of `np.pad` (index relative to the start of the unpadded array of length `n`) -/

/-- `mode='symmetric'` : even reflection about the array ends, period `2n` -/
def extSym (n : Nat) (t : Int) : Int :=
  let r := t % (2 * (n : Int))
  if r < n then r else 2 * (n : Int) - 1 - r

/-- `mode='edge'` : clamping -/
def extEdge (n : Nat) (t : Int) : Int :=
  if t < 0 then 0 else if t < n then t else (n : Int) - 1

/-- `mode='wrap'` : modulo -/
def extWrap (n : Nat) (t : Int) : Int := t % (n : Int)

inductive PadKind where
  | sym | edge | wrap | zero
deriving DecidableEq, Repr

/-- one call `np.pad(arr, (before, ·) on one axis, mode)` seen along that axis:
    position `q` of the result ↦ source position in the input of length `L`, or `none` (constant 0) -/
def npPadSrc (k : PadKind) (L before : Nat) (q : Nat) : Option Nat :=
  let t : Int := (q : Int) - (before : Int)
  if 0 ≤ t ∧ t < (L : Int) then some t.toNat else
  match k with
  | .sym => some (extSym L t).toNat
  | .edge => some (extEdge L t).toNat
  | .wrap => some (extWrap L t).toNat
  | .zero => none

/-- the same call on a 3-D integer array, padding along axis `dir` (0, 1, 2) -/
def npPad (k : PadKind) (dir : Nat) (L before : Nat) (arr : A3 Nat) : A3 Nat := fun a b c =>
  match dir with
  | 0 => match npPadSrc k L before a with
    | some i => arr i b c
    | none => 0
  | 1 => match npPadSrc k L before b with
    | some j => arr a j c
    | none => 0
  | _ => match npPadSrc k L before c with
    | some l => arr a b l
    | none => 0

/-! ## FilterConv -/

/-- boundary condition of one face -/
inductive Mode (α : Type) where
  | sym | edge | wrap
  | const (v : α)

def Mode.isWrap {α} : Mode α → Bool
  | .wrap => true
  | _ => false

/-- one entry of `self.overrides` : an index set of the PADDED array (as a mask) and a value -/
structure Override (α : Type) where
  mask : A3 Bool
  value : α

/-- index set `meshgrid(n_range)` of `_process_padding`: `[lo,hi)` along `dir`, `arange(max(1, full))` along the others -/
def boxMask (dir lo hi : Nat) (fx fy fz : Nat) : A3 Bool := fun a b c =>
  match dir with
  | 0 => decide (lo ≤ a ∧ a < hi) && decide (b < sz fy) && decide (c < sz fz)
  | 1 => decide (a < sz fx) && decide (lo ≤ b ∧ b < hi) && decide (c < sz fz)
  | _ => decide (a < sz fx) && decide (b < sz fy) && decide (lo ≤ c ∧ c < hi)

/-- configuration of a `FilterConv` after `_prepare` (+ later `override_values` calls) -/
structure Cfg (α : Type) where
  dom : Dom
  /-- `weights.shape` (after `expand_dims` to 3-D) -/
  kx : Nat
  ky : Nat
  kz : Nat
  w : A3 α
  xmin : Mode α
  xmax : Mode α
  ymin : Mode α
  ymax : Mode α
  zmin : Mode α
  zmax : Mode α
  /-- entries appended by `override_values` after construction (padded coordinates) -/
  user : List (Override α)

namespace Cfg
variable {α : Type}

/-- `self.pad_sizes = [v//2 for v in weights.shape]` -/
def px (c : Cfg α) : Nat := c.kx / 2
def py (c : Cfg α) : Nat := c.ky / 2
def pz (c : Cfg α) : Nat := c.kz / 2

/-- shape of `el3d_orig` -/
def nx (c : Cfg α) : Nat := sz c.dom.nelx
def ny (c : Cfg α) : Nat := sz c.dom.nely
def nz (c : Cfg α) : Nat := sz c.dom.nelz

/-- shape of `el3d_pad` -/
def mx (c : Cfg α) : Nat := c.nx + 2 * c.px
def my (c : Cfg α) : Nat := c.ny + 2 * c.py
def mz (c : Cfg α) : Nat := c.nz + 2 * c.pz

/-- `domain_sizes[dir]` as used inside `_process_padding`:
    `[nelx, nely, max(1, nelz)]` (one layer of elements in 2-D; repaired in /repo 6759d43) -/
def domainSize (c : Cfg α) (dir : Nat) : Nat :=
  match dir with
  | 0 => c.dom.nelx
  | 1 => c.dom.nely
  | _ => max 1 c.dom.nelz

/-- `padded_sizes = [n + 2*p for n, p in zip(domain_sizes, pad_sizes)]` of `_process_padding` -/
def paddedSizeX (c : Cfg α) : Nat := c.domainSize 0 + 2 * c.px
def paddedSizeY (c : Cfg α) : Nat := c.domainSize 1 + 2 * c.py
def paddedSizeZ (c : Cfg α) : Nat := c.domainSize 2 + 2 * c.pz

/-- the `assert shape % 2 == 1` of `_prepare` -/
def oddKernel (c : Cfg α) : Prop := c.kx % 2 = 1 ∧ c.ky % 2 = 1 ∧ c.kz % 2 = 1

instance (c : Cfg α) : Decidable c.oddKernel := by unfold oddKernel; exact inferInstance

/-- `self.el3d_orig` -/
def el3dOrig (c : Cfg α) : A3 Nat := fun i j k => c.dom.elemNumber i j k

/-- `_process_padding(indices, type_edge0, type_edge1, direction, pad_size)`;
    `n` is `indices.shape[direction]`.  Returns the padded index array and the overrides it appends. -/
def processPadding (c : Cfg α) (indices : A3 Nat) (n : Nat) (e0 e1 : Mode α) (dir p : Nat) :
    A3 Nat × List (Override α) :=
  -- first process wrapped padding
  let w0 := if e0.isWrap then p else 0
  let w1 := if e1.isWrap then p else 0
  let pad1a := if e0.isWrap || e1.isWrap then npPad .wrap dir n w0 indices else indices
  let la := w0 + n + w1
  -- edge 1
  let box1 : List (Override α) → α → List (Override α) := fun acc v =>
    if p = 0 then acc  -- `override_padded_values` does not add empty sets
    else acc ++ [⟨boxMask dir (p + c.domainSize dir) (p + c.domainSize dir + p)
                    c.paddedSizeX c.paddedSizeY c.paddedSizeZ, v⟩]
  let (pad1b, ov1) : A3 Nat × List (Override α) :=
    match e1 with
    | .edge => (npPad .edge dir la 0 pad1a, [])
    | .sym => (npPad .sym dir la 0 pad1a, [])
    | .const v => (npPad .zero dir la 0 pad1a, box1 [] v)
    | .wrap => (pad1a, [])
  let lb := if e1.isWrap then la else la + p
  -- edge 0
  let box0 : List (Override α) → α → List (Override α) := fun acc v =>
    if p = 0 then acc
    else acc ++ [⟨boxMask dir 0 p c.paddedSizeX c.paddedSizeY c.paddedSizeZ, v⟩]
  match e0 with
  | .edge => (npPad .edge dir lb p pad1b, ov1)
  | .sym => (npPad .sym dir lb p pad1b, ov1)
  | .const v => (npPad .zero dir lb p pad1b, box0 ov1 v)
  | .wrap => (pad1b, ov1)

/-- the three calls of `_prepare` -/
def padded (c : Cfg α) : A3 Nat × List (Override α) :=
  let rx := c.processPadding c.el3dOrig c.nx c.xmin c.xmax 0 c.px
  let ry := c.processPadding rx.1 c.ny c.ymin c.ymax 1 c.py
  let rz := c.processPadding ry.1 c.nz c.zmin c.zmax 2 c.pz
  (rz.1, rx.2 ++ ry.2 ++ rz.2)

/-- `self.el3d_pad` -/
def el3dPad (c : Cfg α) : A3 Nat := c.padded.1

/-- `self.overrides` (constructor boxes, then the user's `override_values` entries) -/
def overrides (c : Cfg α) : List (Override α) := c.padded.2 ++ c.user

/-- entry appended by `override_values(index, value)` when `index` selects the elements `pts` (domain coordinates) -/
def userOverride (c : Cfg α) (pts : List (Nat × Nat × Nat)) (v : α) : Override α :=
  ⟨fun a b cc => pts.any (fun q => a == c.px + q.1 && b == c.py + q.2.1 && cc == c.pz + q.2.2), v⟩

/-- `for index, value in overrides: xpad[index] = value` -/
def applyOverrides (ovs : List (Override α)) (xp : A3 α) : A3 α :=
  ovs.foldl (fun f o => fun a b cc => if o.mask a b cc then o.value else f a b cc) xp

/-- `for index, _ in overrides: dx3d[index] = 0` -/
def zeroOverrides [OfNat α 0] (ovs : List (Override α)) (g : A3 α) : A3 α :=
  ovs.foldl (fun f o => fun a b cc => if o.mask a b cc then 0 else f a b cc) g

/-- `get_padded_vector(x)` -/
def paddedVector (c : Cfg α) (x : Nat → α) : A3 α :=
  applyOverrides c.overrides (fun a b cc => x (c.el3dPad a b cc))

section arith
variable [Add α] [Mul α] [OfNat α 0]

/-- `scipy.signal.convolve(xpad, w, mode='valid')`, kernel shape `(kx,ky,kz)` -/
def convValid3 (kx ky kz : Nat) (w xp : A3 α) : A3 α := fun i j k =>
  sum3 kx ky kz fun a b cc => w a b cc * xp (i + (kx - 1) - a) (j + (ky - 1) - b) (k + (kz - 1) - cc)

/-- `scipy.signal.correlate(g, w, mode='full')` for real data, `g` of shape `(nx,ny,nz)` -/
def corrFull3 (nx ny nz kx ky kz : Nat) (g w : A3 α) : A3 α := fun t u v =>
  sum3 nx ny nz fun i j k =>
    if (t ≤ i + (kx - 1) ∧ i + (kx - 1) - t < kx) ∧ (u ≤ j + (ky - 1) ∧ j + (ky - 1) - u < ky)
        ∧ (v ≤ k + (kz - 1) ∧ k + (kz - 1) - v < kz)
    then g i j k * w (i + (kx - 1) - t) (j + (ky - 1) - u) (k + (kz - 1) - v) else 0

/-- `np.add.at(zeros, idx3d, val3d)` for index / value arrays of shape `(nx,ny,nz)` -/
def scatterAdd3 (nx ny nz : Nat) (idx : A3 Nat) (val : A3 α) : Nat → α := fun e =>
  sum3 nx ny nz fun i j k => if idx i j k = e then val i j k else 0

/-- `_response` (as a total function; the checks are in `response`) -/
def resp (c : Cfg α) (x : Nat → α) : Nat → α :=
  scatterAdd3 c.nx c.ny c.nz c.el3dOrig (convValid3 c.kx c.ky c.kz c.w (c.paddedVector x))

/-- `_sensitivity` -/
def sens (c : Cfg α) (dfdv : Nat → α) : Nat → α :=
  let dx3d := corrFull3 c.nx c.ny c.nz c.kx c.ky c.kz (fun i j k => dfdv (c.el3dOrig i j k)) c.w
  scatterAdd3 c.mx c.my c.mz c.el3dPad (zeroOverrides c.overrides dx3d)

/-- error cases: the `assert` on the kernel shape; `x[self.el3d_pad]` with a too short `x` -/
def check (c : Cfg α) (len : Nat) : Except String Unit :=
  if ¬ c.oddKernel then .error "Assertion"
  else if len < c.nx * c.ny * c.nz then .error "IndexError"
  else .ok ()

def response (c : Cfg α) (len : Nat) (x : Nat → α) : Except String (Nat → α) := do
  c.check len
  return c.resp x

def sensitivity (c : Cfg α) (len : Nat) (dfdv : Nat → α) : Except String (Nat → α) := do
  c.check len
  return c.sens dfdv
end arith
end Cfg

/-! ## `set_filter_radius` -/
section radius
variable {α : Type} [Add α] [Mul α] [Sub α] [Div α] [Max α] [OfNat α 0] [IntCast α]

/-- `min(n, int((radius - 1e-10*d)/d))`; `trunc` is Python's `int(·)`, `tiny` is `1e-10` -/
def kernelHalf (trunc : α → Int) (tiny : α) (n : Nat) (radius d : α) : Int :=
  min (n : Int) (trunc ((radius - tiny * d) / d))

/-- un-normalised cone `np.maximum(0, radius - sqrt(cx² + cy² + cz²))` on the grid
    `arange(-delem, delem+1) * d` per axis -/
def coneKernel (sqrt : α → α) (radius dx dy dz : α) (hx hy hz : Nat) : A3 α := fun a b c =>
  let cx : α := (((a : Int) - (hx : Int) : Int) : α) * dx
  let cy : α := (((b : Int) - (hy : Int) : Int) : α) * dy
  let cz : α := (((c : Int) - (hz : Int) : Int) : α) * dz
  max 0 (radius - sqrt (cx * cx + cy * cy + cz * cz))

/-- `set_filter_radius(radius, relative_units)` : kernel shape and weights `w /= sum(w)`.
    `es` is `domain.element_size`; the half widths use the RAW `nelz` (0 in 2-D).
    A negative half width (radius below `1e-10·d − d`) is rejected here (the code would build an empty kernel). -/
def setFilterRadius (sqrt : α → α) (trunc : α → Int) (tiny one : α) (dom : Dom) (es : α × α × α)
    (radius : α) (relative : Bool) : Except String (Nat × Nat × Nat × A3 α) :=
  let dx := if relative then one else es.1
  let dy := if relative then one else es.2.1
  let dz := if relative then one else es.2.2
  let hx := kernelHalf trunc tiny dom.nelx radius dx
  let hy := kernelHalf trunc tiny dom.nely radius dy
  let hz := kernelHalf trunc tiny dom.nelz radius dz
  if hx < 0 ∨ hy < 0 ∨ hz < 0 then .error "ValueError" else
  let kx := 2 * hx.toNat + 1
  let ky := 2 * hy.toNat + 1
  let kz := 2 * hz.toNat + 1
  let w0 := coneKernel sqrt radius dx dy dz hx.toNat hy.toNat hz.toNat
  let s := sum3 kx ky kz w0
  .ok (kx, ky, kz, fun a b c => w0 a b c / s)
end radius

/-! ## `Filter` with `DensityFilter._calculate_h` -/

/-- `np.max` of the first `n ≥ 1` entries -/
def maxRange {α} [Max α] : Nat → (Nat → α) → α
  | 0, f => f 0
  | 1, f => f 0
  | n+1, f => max (maxRange n f) (f n)

/-- a `DensityFilter` : domain, `radius`, `delem = int(radius)`, keyword `nonpadding` -/
structure DF (α : Type) where
  dom : Dom
  radius : α
  delem : Nat
  nonpadding : Option (List Nat)

namespace DF
variable {α : Type}

def nx (f : DF α) : Nat := f.dom.nelx
def ny (f : DF α) : Nat := f.dom.nely
/-- `max(domain.nelz, 1)` -/
def nz (f : DF α) : Nat := max f.dom.nelz 1
def nel (f : DF α) : Nat := f.dom.nel

/-- `ix[els] = xinds` etc.: Cartesian indices of element `e` (the inverse of `get_elemnumber` on the grid,
    written here with `%` and `/`; that this IS the inverse is C13 `elemNumber_inj/surj`) -/
def ix (f : DF α) (e : Nat) : Nat := e % f.nx
def iy (f : DF α) (e : Nat) : Nat := (e / f.nx) % f.ny
def iz (f : DF α) (e : Nat) : Nat := e / (f.nx * f.ny)

/-- window limits `np.maximum(ix - delem, 0)`, `np.minimum(ix + delem, nx - 1)` (truncated subtraction = the `maximum`) -/
def xlow (f : DF α) (e : Nat) : Nat := f.ix e - f.delem
def xupp (f : DF α) (e : Nat) : Nat := min (f.ix e + f.delem) (f.nx - 1)
def ylow (f : DF α) (e : Nat) : Nat := f.iy e - f.delem
def yupp (f : DF α) (e : Nat) : Nat := min (f.iy e + f.delem) (f.ny - 1)
def zlow (f : DF α) (e : Nat) : Nat := f.iz e - f.delem
def zupp (f : DF α) (e : Nat) : Nat := min (f.iz e + f.delem) (f.nz - 1)
def nwindx (f : DF α) (e : Nat) : Nat := f.xupp e - f.xlow e + 1
def nwindy (f : DF α) (e : Nat) : Nat := f.yupp e - f.ylow e + 1
def nwindz (f : DF α) (e : Nat) : Nat := f.zupp e - f.zlow e + 1

/-- `h_cols` of row `e` : entry `(a,b,c)` of `els[xlow:xupp+1, ylow:yupp+1, zlow:zupp+1]` (row-major) -/
def col (f : DF α) (e a b c : Nat) : Nat := f.dom.elemNumber (f.xlow e + a) (f.ylow e + b) (f.zlow e + c)

section arith
variable [Add α] [Mul α] [Sub α] [Div α] [Max α] [OfNat α 0] [IntCast α]

/-- `h_values` : `np.maximum(0, radius - sqrt(dx*dx + dy*dy + dz*dz))` with integer index differences -/
def hval (sqrt : α → α) (f : DF α) (r cidx : Nat) : α :=
  let dx : Int := (f.ix r : Int) - (f.ix cidx : Int)
  let dy : Int := (f.iy r : Int) - (f.iy cidx : Int)
  let dz : Int := (f.iz r : Int) - (f.iz cidx : Int)
  max 0 (f.radius - sqrt ((dx * dx + dy * dy + dz * dz : Int) : α))

/-- row `e` of `H` applied to a vector: sum over the window in row-major order -/
def Hmul (sqrt : α → α) (f : DF α) (v : Nat → α) : Nat → α := fun e =>
  sum3 (f.nwindx e) (f.nwindy e) (f.nwindz e) fun a b c => hval sqrt f e (f.col e a b c) * v (f.col e a b c)

/-- `H.sum(1)` -/
def Hs (sqrt : α → α) (f : DF α) : Nat → α := fun e =>
  sum3 (f.nwindx e) (f.nwindy e) (f.nwindz e) fun a b c => hval sqrt f e (f.col e a b c)

/-- the `nonpadding` treatment of `Filter._prepare` given the row sums `hs` and their maximum `hmax`:
    `Hs[~isin(arange, nonpadding)] = max(Hs)` -/
def hsEffOf (f : DF α) (hs : Nat → α) (hmax : α) : Nat → α := fun e =>
  match f.nonpadding with
  | none => hs e
  | some l => if l.contains e then hs e else hmax

/-- `self.Hs` after `Filter._prepare` -/
def HsEff (sqrt : α → α) (f : DF α) : Nat → α :=
  hsEffOf f (Hs sqrt f) (maxRange f.nel (Hs sqrt f))

/-- `Filter._response` : `H x / Hs` for a given normalisation vector -/
def respOf (sqrt : α → α) (f : DF α) (hs : Nat → α) (x : Nat → α) : Nat → α := fun e =>
  Hmul sqrt f x e / hs e

/-- `Filter._sensitivity` : `H (dfdy / Hs)` for a given normalisation vector -/
def sensOf (sqrt : α → α) (f : DF α) (hs : Nat → α) (dfdy : Nat → α) : Nat → α :=
  Hmul sqrt f (fun j => dfdy j / hs j)

def resp (sqrt : α → α) (f : DF α) (x : Nat → α) : Nat → α := respOf sqrt f (HsEff sqrt f) x
def sens (sqrt : α → α) (f : DF α) (dfdy : Nat → α) : Nat → α := sensOf sqrt f (HsEff sqrt f) dfdy

/-- `H * x` raises `ValueError` on a dimension mismatch -/
def check (f : DF α) (len : Nat) : Except String Unit :=
  if len ≠ f.nel then .error "ValueError" else .ok ()

def response (sqrt : α → α) (f : DF α) (len : Nat) (x : Nat → α) : Except String (Nat → α) := do
  f.check len
  return resp sqrt f x

def sensitivity (sqrt : α → α) (f : DF α) (len : Nat) (w : Nat → α) : Except String (Nat → α) := do
  f.check len
  return sens sqrt f w
end arith

/-- `_calculate_h(domain, radius)` with `delem = int(radius)`; a negative `int(radius)` is rejected -/
def make (trunc : α → Int) (dom : Dom) (radius : α) (nonpadding : Option (List Nat)) : Except String (DF α) :=
  if trunc radius < 0 then .error "ValueError"
  else .ok ⟨dom, radius, (trunc radius).toNat, nonpadding⟩
end DF

end PymotoVerif.Filter
