/-
Model of the result files of pyMOTO (property C20).  No Mathlib.

* `pymoto/common/domain.py : DomainDefinition.write_to_vti`  (lines 291-422)
* `pymoto/modules/io.py     : WriteToVTI`, `ScalarToFile`      (lines 259-358)

A file is a list of bytes (`List UInt8`).  What the code obtains from external libraries enters as
input data: the little-endian `Float32` bytes of every vector entry (`numpy.astype(float32)`),
the decimal text Python prints for the floats of the header (`Origin`, `Spacing`) and the text
`__format__` produces for the logged numbers.  Everything pyMOTO itself decides is modelled:
RFC 4648 base64 (the model of `base64.b64encode`), the classification of vectors by size, component
counts, 2-D padding, block-vector naming, the XML text, the length prefix AS CODED (the prefix
holds the length of the *encoded* block), file names per iteration, header / row layout of the log.
A parser of exactly this file grammar (`parseVti`) and of the log (`parseLog`) is part of the model
so that "decodes back" is a statement `parse (render x) = x`.
-/
import PymotoVerif.Core.Domain
namespace PymotoVerif.IO
open PymotoVerif.Domain

abbrev Bytes := List UInt8

-- `bytes! "txt"` : the UTF-8 bytes of a string literal as an explicit list literal
open Lean in
macro "bytes!" s:str : term => do
  let cs := s.getString.toUTF8.toList
  let elems : Array (TSyntax `term) :=
    (cs.map (fun b => (Syntax.mkNumLit (toString b.toNat) : TSyntax `term))).toArray
  `(([$elems,*] : List UInt8))

/-! ## RFC 4648 base64 (`base64.b64encode`, and a strict decoder) -/

/-- ASCII code of the base64 digit of a sextet `s < 64` : `A-Z a-z 0-9 + /` -/
def b64code (s : Nat) : Nat :=
  if s < 26 then 65 + s else if s < 52 then 71 + s else if s < 62 then s - 4
  else if s = 62 then 43 else 47

def b64char (s : Nat) : UInt8 := (b64code s).toUInt8

/-- sextet of a base64 digit, `none` for any other byte (in particular for `=`) -/
def b64val (c : UInt8) : Option Nat :=
  let n := c.toNat
  if 65 ≤ n ∧ n ≤ 90 then some (n - 65)
  else if 97 ≤ n ∧ n ≤ 122 then some (n - 71)
  else if 48 ≤ n ∧ n ≤ 57 then some (n + 4)
  else if n = 43 then some 62
  else if n = 47 then some 63
  else none

/-- the four digits of a full 3-byte group -/
def enc3 (a b c : UInt8) : Bytes :=
  let n := a.toNat * 65536 + b.toNat * 256 + c.toNat
  [b64char (n / 262144), b64char (n / 4096 % 64), b64char (n / 64 % 64), b64char (n % 64)]

/-- two trailing bytes : three digits and one `=` -/
def enc2 (a b : UInt8) : Bytes :=
  let n := a.toNat * 65536 + b.toNat * 256
  [b64char (n / 262144), b64char (n / 4096 % 64), b64char (n / 64 % 64), 61]

/-- one trailing byte : two digits and `==` -/
def enc1 (a : UInt8) : Bytes :=
  let n := a.toNat * 65536
  [b64char (n / 262144), b64char (n / 4096 % 64), 61, 61]

/-- `base64.b64encode` -/
def b64encode : Bytes → Bytes
  | [] => []
  | [a] => enc1 a
  | [a, b] => enc2 a b
  | a :: b :: c :: rest => enc3 a b c ++ b64encode rest

/-- a full group of four digits → three bytes -/
def dec4 (c0 c1 c2 c3 : UInt8) : Option Bytes := do
  let s0 ← b64val c0
  let s1 ← b64val c1
  let s2 ← b64val c2
  let s3 ← b64val c3
  let n := ((s0 * 64 + s1) * 64 + s2) * 64 + s3
  some [(n / 65536).toUInt8, (n / 256 % 256).toUInt8, (n % 256).toUInt8]

/-- the last group, which may carry `=` padding -/
def decLast (c0 c1 c2 c3 : UInt8) : Option Bytes :=
  if c3 = 61 then
    if c2 = 61 then do
      let s0 ← b64val c0
      let s1 ← b64val c1
      let n := (s0 * 64 + s1) * 4096
      some [(n / 65536).toUInt8]
    else do
      let s0 ← b64val c0
      let s1 ← b64val c1
      let s2 ← b64val c2
      let n := ((s0 * 64 + s1) * 64 + s2) * 64
      some [(n / 65536).toUInt8, (n / 256 % 256).toUInt8]
  else dec4 c0 c1 c2 c3

/-- strict RFC 4648 decoder: groups of four, padding only in the last group -/
def b64decode : Bytes → Option Bytes
  | [] => some []
  | c0 :: c1 :: c2 :: c3 :: rest =>
    if rest.isEmpty then decLast c0 c1 c2 c3
    else do
      let x ← dec4 c0 c1 c2 c3
      let r ← b64decode rest
      some (x ++ r)
  | _ => none

/-- `len(base64.b64encode(x))` for `len(x) = n` -/
def b64len (n : Nat) : Nat := 4 * ((n + 2) / 3)

/-! ## integers as text and as `struct.pack('Q')` -/

def digitsAux : Nat → Nat → Bytes → Bytes
  | 0, _, acc => acc
  | f+1, n, acc =>
    let acc' := (48 + n % 10).toUInt8 :: acc
    if n < 10 then acc' else digitsAux f (n / 10) acc'

/-- `str(n)` / `n.__format__('d')` of a non-negative Python int -/
def natDec (n : Nat) : Bytes := digitsAux (n + 1) n []

/-- `n.__format__('0Wd')` : decimal, left-padded with `0` to width `w` -/
def natDecPad (w n : Nat) : Bytes :=
  let ds := natDec n
  List.replicate (w - ds.length) 48 ++ ds

def parseDecAux : Bytes → Nat → Option Nat
  | [], acc => some acc
  | c :: cs, acc =>
    if 48 ≤ c.toNat ∧ c.toNat ≤ 57 then parseDecAux cs (acc * 10 + (c.toNat - 48)) else none

/-- decimal text → number (at least one digit, digits only) -/
def parseDec (bs : Bytes) : Option Nat := if bs.isEmpty then none else parseDecAux bs 0

/-- `int(np.ceil(np.log10(n)))` for `n ≥ 1` : the number of digits of `n-1` (0 for `n = 1`) -/
def ceilLog10 (n : Nat) : Nat := if n ≤ 1 then 0 else (natDec (n - 1)).length

/-- `struct.pack('<Q', n)` (little) / `struct.pack('>Q', n)` (big) for `n < 2^64` -/
def u64bytes (le : Bool) (n : Nat) : Bytes :=
  let l : Bytes := [(n % 256).toUInt8, (n / 256 % 256).toUInt8, (n / 65536 % 256).toUInt8,
    (n / 16777216 % 256).toUInt8, (n / 4294967296 % 256).toUInt8, (n / 1099511627776 % 256).toUInt8,
    (n / 281474976710656 % 256).toUInt8, (n / 72057594037927936 % 256).toUInt8]
  if le then l else l.reverse

def u64ofLE : Bytes → Option Nat
  | [b0, b1, b2, b3, b4, b5, b6, b7] =>
    some (b0.toNat + 256 * (b1.toNat + 256 * (b2.toNat + 256 * (b3.toNat + 256 * (b4.toNat
      + 256 * (b5.toNat + 256 * (b6.toNat + 256 * b7.toNat)))))))
  | _ => none

def u64of (le : Bool) (b : Bytes) : Option Nat := if le then u64ofLE b else u64ofLE b.reverse

/-! ## the VTI document and its text -/

/-- one `<DataArray>` : name, `NumberOfComponents`, raw (little-endian Float32) payload bytes -/
structure Arr where
  name : Bytes
  ncomp : Nat
  payload : Bytes
deriving DecidableEq, Repr

/-- what a VTI file written by `write_to_vti` says.  `point` / `cell` are `none` when the section
    is absent (the code writes a section iff at least one vector was classified into it, even when
    that vector then contributes no array). Number texts of origin/spacing are kept as text. -/
structure Doc where
  le : Bool
  nelx : Nat
  nely : Nat
  nelz : Nat
  ox : Bytes
  oy : Bytes
  oz : Bytes
  dx : Bytes
  dy : Bytes
  dz : Bytes
  point : Option (List Arr)
  cell : Option (List Arr)
deriving DecidableEq, Repr

def litXml : Bytes := bytes! "<?xml version=\"1.0\"?>\n"
def litVtk : Bytes := bytes! "<VTKFile type=\"ImageData\" version=\"0.1\" header_type=\"UInt64\" byte_order=\""
def litLittle : Bytes := bytes! "LittleEndian"
def litBig : Bytes := bytes! "BigEndian"
def litGt : Bytes := bytes! ">\n"
def litImg : Bytes := bytes! "<ImageData WholeExtent=\""
def litZeroSp : Bytes := bytes! "0 "
def litOrigin : Bytes := bytes! " Origin=\""
def litSpacing : Bytes := bytes! " Spacing=\""
def litPiece : Bytes := bytes! "<Piece Extent=\""
def litArrA : Bytes := bytes! "<DataArray type=\"Float32\" Name=\""
def litArrB : Bytes := bytes! " NumberOfComponents=\""
def litArrC : Bytes := bytes! " format=\"binary\">\n"
def litArrEnd : Bytes := bytes! "\n</DataArray>\n"
def litPointOpen : Bytes := bytes! "<PointData>\n"
def litPointClose : Bytes := bytes! "</PointData>\n"
def litCellOpen : Bytes := bytes! "<CellData>\n"
def litCellClose : Bytes := bytes! "</CellData>\n"
def litTail : Bytes := bytes! "</Piece>\n</ImageData>\n</VTKFile>"

/-- `"0 {nelx} 0 {nely} 0 {nelz}"` followed by the closing quote -/
def renderExtent (x y z : Nat) (rest : Bytes) : Bytes :=
  litZeroSp ++ (natDec x ++ (32 :: (litZeroSp ++ (natDec y ++ (32 :: (litZeroSp ++ (natDec z ++ (34 :: rest))))))))

/-- three number texts separated by blanks, closing quote -/
def renderTriple (a b c : Bytes) (rest : Bytes) : Bytes :=
  a ++ (32 :: (b ++ (32 :: (c ++ (34 :: rest)))))

/-- one `<DataArray …>` element: header line, base64 of the 8-byte length of the ENCODED block,
    the encoded block, closing tag -/
def renderArr (le : Bool) (a : Arr) (rest : Bytes) : Bytes :=
  let enc := b64encode a.payload
  litArrA ++ (a.name ++ (34 :: (litArrB ++ (natDec a.ncomp ++ (34 :: (litArrC ++
    (b64encode (u64bytes le enc.length) ++ (enc ++ (litArrEnd ++ rest)))))))))

def renderArrs (le : Bool) : List Arr → Bytes → Bytes
  | [], rest => rest
  | a :: as, rest => renderArr le a (renderArrs le as rest)

def renderSection (le : Bool) (openLit closeLit : Bytes) (s : Option (List Arr)) (rest : Bytes) : Bytes :=
  match s with
  | none => rest
  | some as => openLit ++ renderArrs le as (closeLit ++ rest)

/-- the bytes of the file, in the order the code writes them -/
def renderVti (d : Doc) : Bytes :=
  litXml ++ (litVtk ++ ((if d.le then litLittle else litBig) ++ (34 :: (litGt ++
  (litImg ++ renderExtent d.nelx d.nely d.nelz
  (litOrigin ++ renderTriple d.ox d.oy d.oz
  (litSpacing ++ renderTriple d.dx d.dy d.dz
  (litGt ++ (litPiece ++ renderExtent d.nelx d.nely d.nelz
  (litGt ++ renderSection d.le litPointOpen litPointClose d.point
  (renderSection d.le litCellOpen litCellClose d.cell litTail)))))))))))

/-! ## parser of that grammar -/

/-- strip a literal prefix -/
def expect : Bytes → Bytes → Option Bytes
  | [], inp => some inp
  | _ :: _, [] => none
  | l :: ls, c :: cs => if l = c then expect ls cs else none

/-- everything before the first occurrence of the delimiter, and what follows it -/
def takeUntil (d : UInt8) : Bytes → Option (Bytes × Bytes)
  | [] => none
  | c :: cs =>
    if c = d then some ([], cs)
    else match takeUntil d cs with
      | some (a, r) => some (c :: a, r)
      | none => none

def takeN : Nat → Bytes → Option (Bytes × Bytes)
  | 0, inp => some ([], inp)
  | _+1, [] => none
  | n+1, c :: cs =>
    match takeN n cs with
    | some (a, r) => some (c :: a, r)
    | none => none

def parseExtent (inp : Bytes) : Option ((Nat × Nat × Nat) × Bytes) := do
  let r ← expect litZeroSp inp
  let (tx, r) ← takeUntil 32 r
  let x ← parseDec tx
  let r ← expect litZeroSp r
  let (ty, r) ← takeUntil 32 r
  let y ← parseDec ty
  let r ← expect litZeroSp r
  let (tz, r) ← takeUntil 34 r
  let z ← parseDec tz
  some ((x, y, z), r)

def parseTriple (inp : Bytes) : Option ((Bytes × Bytes × Bytes) × Bytes) := do
  let (a, r) ← takeUntil 32 inp
  let (b, r) ← takeUntil 32 r
  let (c, r) ← takeUntil 34 r
  some ((a, b, c), r)

def parseArr (le : Bool) (inp : Bytes) : Option (Arr × Bytes) := do
  let r ← expect litArrA inp
  let (name, r) ← takeUntil 34 r
  let r ← expect litArrB r
  let (tn, r) ← takeUntil 34 r
  let ncomp ← parseDec tn
  let r ← expect litArrC r
  let (hdr, r) ← takeN 12 r
  let hb ← b64decode hdr
  let n ← u64of le hb
  let (enc, r) ← takeN n r
  let payload ← b64decode enc
  let r ← expect litArrEnd r
  some (⟨name, ncomp, payload⟩, r)

/-- arrays up to the closing tag of the section (`fuel` bounds the number of arrays) -/
def parseArrs (le : Bool) (closeLit : Bytes) : Nat → Bytes → Option (List Arr × Bytes)
  | 0, _ => none
  | f+1, inp =>
    match expect closeLit inp with
    | some rest => some ([], rest)
    | none => do
      let (a, r) ← parseArr le inp
      let (as, r) ← parseArrs le closeLit f r
      some (a :: as, r)

def parseSection (le : Bool) (openLit closeLit : Bytes) (fuel : Nat) (inp : Bytes) :
    Option (Option (List Arr) × Bytes) :=
  match expect openLit inp with
  | none => some (none, inp)
  | some r => do
    let (as, r) ← parseArrs le closeLit fuel r
    some (some as, r)

def parseByteOrder (bo : Bytes) : Option Bool :=
  if bo = litLittle then some true else if bo = litBig then some false else none

def guardO (b : Bool) : Option Unit := if b then some () else none

def parseVti (inp : Bytes) : Option Doc := do
  let fuel := inp.length
  let r ← expect litXml inp
  let r ← expect litVtk r
  let (bo, r) ← takeUntil 34 r
  let le ← parseByteOrder bo
  let r ← expect litGt r
  let r ← expect litImg r
  let ((x, y, z), r) ← parseExtent r
  let r ← expect litOrigin r
  let ((ox, oy, oz), r) ← parseTriple r
  let r ← expect litSpacing r
  let ((dx, dy, dz), r) ← parseTriple r
  let r ← expect litGt r
  let r ← expect litPiece r
  let ((x', y', z'), r) ← parseExtent r
  guardO (decide ((x', y', z') = (x, y, z)))   -- the piece covers the whole extent
  let r ← expect litGt r
  let (pt, r) ← parseSection le litPointOpen litPointClose fuel r
  let (cl, r) ← parseSection le litCellOpen litCellClose fuel r
  let r ← expect litTail r
  guardO r.isEmpty                             -- nothing after `</VTKFile>`
  some ⟨le, x, y, z, ox, oy, oz, dx, dy, dz, pt, cl⟩

/-! ## `write_to_vti` : from the vectors to the document -/

/-- one entry of the `vectors` dict: key (UTF-8), numpy shape, and the little-endian Float32 bytes
    of every entry in C order (`words.length = ∏ shape`, each word has 4 bytes) -/
structure Vec where
  name : Bytes
  shape : List Nat
  words : List Bytes
deriving Repr

def Vec.size (v : Vec) : Nat := v.shape.foldl (· * ·) 1

def word (ws : List Bytes) (i : Nat) : Bytes := ws.getD i []

def zeroWord : Bytes := [0, 0, 0, 0]

/-- `next((i for i, s in enumerate(shape) if s % n == 0), None)` -/
def firstAxis (n : Nat) : List Nat → Nat → Option Nat
  | [], _ => none
  | s :: ss, i => if s % n = 0 then some i else firstAxis n ss (i + 1)

/-- `vec[:, i]` (axis = 0 is the vector axis) or `vec[i, :]` (axis = 1) of a C-ordered `(r, c)` array -/
def column (ws : List Bytes) (r c : Nat) (vecax i : Nat) : List Bytes :=
  if vecax = 0 then (List.range r).map (fun k => word ws (k * c + i))
  else (List.range c).map (fun k => word ws (i * c + k))

/-- `vec_pad[0::3] = v[0::2]; vec_pad[1::3] = v[1::2]` on a zero vector of `3*nnodes` entries -/
def pad2d (nnodes : Nat) (ws : List Bytes) : List Bytes :=
  (List.range nnodes).flatMap (fun n => [word ws (2 * n), word ws (2 * n + 1), zeroWord])

inductive Kind | cell | point | skip
deriving DecidableEq, Repr

/-- the `if / elif / else` of the sorting loop: the element count is tested FIRST -/
def classify (d : Dom) (size : Nat) : Kind :=
  if size % d.nel = 0 then .cell else if size % d.nnodes = 0 then .point else .skip

/-- SWITCH for the repair `corpus/defects/c20_single_block_pad.patch` (`vec.astype(np.float32).reshape(-1)` in the
    `nvectors == 1` branch of the point-data loop).
    `false`: the code as pinned — a 2-D block holding ONE 2-component nodal vector in a 2-D domain, shape
    `(1, 2*nnodes)` or `(2*nnodes, 1)`, raises ValueError (the 2-D array itself is sliced with `[0::2]`);
    `true` : the repaired code — the block is flattened first and written like the 1-D vector. -/
def singleBlockPadRepaired : Bool := true

/-- the arrays one point-data vector contributes (body of the point-data loop) -/
def pointArrs (d : Dom) (v : Vec) : Except String (List Arr) :=
  match firstAxis d.nnodes v.shape 0 with
  | none => .error "TypeError"                       -- `vec.shape[None]`
  | some vecax =>
    let ncomp := v.shape.getD vecax 0 / d.nnodes
    let pad := ncomp = 2 ∧ d.dim = 2
    if v.shape.length > 2 then .error "Assertion" else
    let nvectors := if v.shape.length = 1 then 1 else v.shape.getD ((vecax + 1) % 2) 0
    let nzeros := ceilLog10 nvectors
    let outc := if pad then 3 else ncomp
    if nvectors > 1 then
      .ok ((List.range nvectors).map fun i =>
        let col := column v.words (v.shape.getD 0 0) (v.shape.getD 1 0) vecax i
        let w := if pad then pad2d d.nnodes col else col
        ⟨v.name ++ (40 :: (natDecPad nzeros i ++ [41])), outc, w.flatten⟩)
    else if nvectors = 1 then
      if pad ∧ v.shape.length = 2 ∧ singleBlockPadRepaired = false then
        .error "ValueError"   -- unrepaired: the 2-D slice does not broadcast into `vec_pad[0::3]`
      else
        let w := if pad then pad2d d.nnodes v.words else v.words
        .ok [⟨v.name, outc, w.flatten⟩]
    else .ok []

/-- the arrays one cell-data vector contributes (body of the cell-data loop) -/
def cellArrs (d : Dom) (v : Vec) : Except String (List Arr) :=
  match firstAxis d.nel v.shape 0 with
  | none => .error "TypeError"
  | some vecax =>
    let ncomp := v.shape.getD vecax 0 / d.nel
    if v.shape.length > 2 then .error "Assertion" else
    let nvectors := if v.shape.length = 1 then 1 else v.shape.getD ((vecax + 1) % 2) 0
    if nvectors > 1 then
      .ok ((List.range nvectors).map fun i =>
        let col := column v.words (v.shape.getD 0 0) (v.shape.getD 1 0) vecax i
        ⟨v.name ++ (40 :: (natDec i ++ [41])), ncomp, col.flatten⟩)
    else if nvectors = 1 then .ok [⟨v.name, ncomp, v.words.flatten⟩]
    else .ok []

def collect (f : Vec → Except String (List Arr)) : List Vec → Except String (List Arr)
  | [] => .ok []
  | v :: vs => do
    let a ← f v
    let r ← collect f vs
    .ok (a ++ r)

/-- `os.path.splitext` (POSIX): the extension starts at the last dot of the last path component,
    unless only dots precede it there -/
def splitext (p : Bytes) : Bytes × Bytes :=
  let baseRev := p.reverse.takeWhile (· != 47)
  let extRev := baseRev.takeWhile (· != 46)
  if extRev.length = baseRev.length then (p, [])
  else
    let extLen := extRev.length + 1
    let stem := baseRev.reverse.take (baseRev.length - extLen)
    if stem.all (· == 46) then (p, [])
    else (p.take (p.length - extLen), p.drop (p.length - extLen))

def lowerAscii (b : Bytes) : Bytes := b.map fun c => if 65 ≤ c.toNat ∧ c.toNat ≤ 90 then c + 32 else c

def isInfixB (p : Bytes) : Bytes → Bool
  | [] => p.isEmpty
  | c :: cs => p.isPrefixOf (c :: cs) || isInfixB p cs

def litDotVti : Bytes := bytes! ".vti"

/-- `if '.vti' not in os.path.splitext(filename)[-1].lower(): filename += '.vti'` -/
def vtiFilename (f : Bytes) : Bytes :=
  if isInfixB litDotVti (lowerAscii (splitext f).2) then f else f ++ litDotVti

/-- header texts that Python's float formatting produces (external): origin·scale, element_size·scale -/
structure Hdr where
  le : Bool
  ox : Bytes
  oy : Bytes
  oz : Bytes
  dx : Bytes
  dy : Bytes
  dz : Bytes
deriving Repr

structure VtiResult where
  skipped : List Bytes              -- keys for which "neither cell- nor point-data" is warned
  doc : Option Doc                  -- `none`: "Nothing to write", no file is touched
deriving Repr

/-- 2^64 -/
def two64 : Nat := 18446744073709551616

/-- `DomainDefinition.write_to_vti` up to the document (keys of `vs` are distinct: it is a dict) -/
def buildDoc (d : Dom) (h : Hdr) (vs : List Vec) : Except String VtiResult :=
  if d.nel = 0 then .error "ZeroDivisionError" else
  let cells := vs.filter (fun v => classify d v.size = .cell)
  let points := vs.filter (fun v => classify d v.size = .point)
  let skipped := (vs.filter (fun v => classify d v.size = .skip)).map (·.name)
  if points.isEmpty ∧ cells.isEmpty then .ok ⟨skipped, none⟩ else do
  let pt ← if points.isEmpty then pure none else (collect (pointArrs d) points).map some
  let cl ← if cells.isEmpty then pure none else (collect (cellArrs d) cells).map some
  -- `struct.pack('Q', len(enc_data))` needs the encoded length below 2^64
  if ((pt.getD []) ++ (cl.getD [])).any (fun a => b64len a.payload.length ≥ two64) then .error "struct.error"
  else .ok ⟨skipped, some ⟨h.le, d.nelx, d.nely, d.nelz, h.ox, h.oy, h.oz, h.dx, h.dy, h.dz, pt, cl⟩⟩

/-- file name actually used and the bytes written (`none`: no file written) -/
def writeVti (d : Dom) (h : Hdr) (vs : List Vec) (filename : Bytes) :
    Except String (List Bytes × Option (Bytes × Bytes)) := do
  let r ← buildDoc d h vs
  .ok (r.skipped, r.doc.map fun doc => (vtiFilename filename, renderVti doc))

/-! ## `WriteToVTI` : one file per iteration -/

/-- `data[s.tag] = s.state` for all input signals: a later signal with the same tag replaces the
    value and keeps the position of the first -/
def dictInsert (acc : List Vec) (v : Vec) : List Vec :=
  if acc.any (·.name == v.name) then acc.map (fun w => if w.name == v.name then v else w) else acc ++ [v]

def toDict (vs : List Vec) : List Vec := vs.foldl dictInsert []

/-- the file name of iteration `iter` -/
def iterName (saveto : Bytes) (overwrite : Bool) (iter : Nat) : Bytes :=
  let p := splitext saveto
  if overwrite then p.1 ++ p.2 else p.1 ++ (46 :: (natDecPad 4 iter ++ p.2))

/-- `WriteToVTI._response` : returns the new iteration counter and what `write_to_vti` did.
    An exception leaves the counter unchanged. -/
def writeToVtiStep (d : Dom) (h : Hdr) (saveto : Bytes) (overwrite : Bool) (iter : Nat) (sigs : List Vec) :
    Except String (Nat × List Bytes × Option (Bytes × Bytes)) := do
  let r ← writeVti d h (toDict sigs) (iterName saveto overwrite iter)
  .ok (iter + 1, r.1, r.2)

/-! ## `ScalarToFile` : the log -/

/-- `sep.join(toks)` -/
def joinSep (sep : Bytes) : List Bytes → Bytes
  | [] => []
  | [t] => t
  | t :: ts => t ++ (sep ++ joinSep sep ts)

def consHead (c : UInt8) : List Bytes → List Bytes
  | [] => [[c]]
  | h :: t => (c :: h) :: t

/-- split at every (leftmost, non-overlapping) occurrence of `sep`; `skip` bytes of a matched
    separator are still to be swallowed -/
def splitGo (sep : Bytes) : Nat → Bytes → List Bytes
  | _, [] => [[]]
  | k+1, _ :: cs => splitGo sep k cs
  | 0, c :: cs =>
    if sep.isPrefixOf (c :: cs) then [] :: splitGo sep (sep.length - 1) cs
    else consHead c (splitGo sep 0 cs)

/-- `s.split(sep)` for a non-empty separator -/
def splitOn (sep : Bytes) (s : Bytes) : List Bytes := splitGo sep 0 s

/-- newline-terminated lines; `none` if the text does not end with a newline -/
def linesOf : Bytes → Option (List Bytes)
  | [] => some []
  | c :: cs =>
    if c = 10 then (linesOf cs).map ([] :: ·)
    else match linesOf cs with
      | some (l :: ls) => some ((c :: l) :: ls)
      | _ => none

def renderLog (sep : Bytes) (lines : List (List Bytes)) : Bytes :=
  lines.flatMap fun l => joinSep sep l ++ [10]

def parseLog (sep : Bytes) (file : Bytes) : Option (List (List Bytes)) :=
  (linesOf file).map fun ls => ls.map (splitOn sep)

/-- state of one input signal as `ScalarToFile` sees it.  `shape = none`: a Python / numpy scalar or a
    0-d array; `some shape`: an ndarray with `ndim ≥ 1`.  `toks`: the texts `__format__` returns for the
    entries (external), indexed by the C-order flat index of the LOGICAL multi-index, i.e. `toks[flat idx]`
    is the text of `state[idx]` (exactly one text for `size ≤ 1`).
    `perm` / `flip` describe the memory layout of the array (axes from the slowest- to the fastest-varying one
    in memory; axes with a negative stride).  Since the repair 7a67c87 the code iterates with
    `np.nditer(state, flags=['multi_index'], order='C')`, so the layout is an input that the model ignores
    (theorem `scalarfile_layout_irrelevant`). -/
structure LogSig where
  tag : Bytes
  shape : Option (List Nat)
  toks : List Bytes
  perm : List Nat := []
  flip : List Bool := []
deriving Repr

/-- C-order multi-index of the flat index `k` -/
def multiIndex : List Nat → Nat → List Nat
  | [], _ => []
  | _ :: ss, k =>
    let stride := ss.foldl (· * ·) 1
    (k / stride) :: multiIndex ss (k % stride)

/-- C-order flat index of a multi-index -/
def flatIndex (sh idx : List Nat) : Nat :=
  (sh.zip idx).foldl (fun acc p => acc * p.1 + p.2) 0

def litCommaSp : Bytes := bytes! ", "
def litIteration : Bytes := bytes! "Iteration"
def litDotCsv : Bytes := bytes! ".csv"

/-- `f"{tag}{list(multi_index)}"` -/
def indexTag (tag : Bytes) (idx : List Nat) : Bytes :=
  tag ++ (91 :: (joinSep litCommaSp (idx.map natDec) ++ [93]))

/-- columns (tag, text) contributed by one signal; `fmtEmpty` : the format spec is the empty string -/
def sigColumns (fmtEmpty : Bool) (s : LogSig) : Except String (List (Bytes × Bytes)) :=
  match s.shape with
  | none => .ok [(s.tag, s.toks.headD [])]
  | some sh =>
    let size := sh.foldl (· * ·) 1
    if size > 1 then
      -- `np.nditer(state, flags=['multi_index'], order='C')`: step `k` visits the C-order multi-index of `k`;
      -- `it.value` and `it.multi_index` belong to the SAME step, so label and value stay paired
      .ok ((List.range size).map fun k =>
        let idx := multiIndex sh k
        (indexTag s.tag idx, s.toks.getD (flatIndex sh idx) []))
    else if fmtEmpty then .ok [(s.tag, s.toks.headD [])]   -- `object.__format__(arr, '')` = `str(arr)`
    else .error "TypeError"                                 -- `ndarray.__format__` with a format spec, ndim ≥ 1

def allColumns (fmtEmpty : Bool) : List LogSig → Except String (List (Bytes × Bytes))
  | [] => .ok []
  | s :: ss => do
    let a ← sigColumns fmtEmpty s
    let r ← allColumns fmtEmpty ss
    .ok (a ++ r)

/-- `self.separator = "," if ".csv" in self.saveto else separator` -/
def logSeparator (saveto sep : Bytes) : Bytes := if isInfixB litDotCsv saveto then [44] else sep

structure LogState where
  iter : Nat
  file : Option Bytes     -- content of `saveto`, `none` if it does not exist
deriving Repr

/-- the file operations of one call given the tags and the value texts of this call -/
def logWrite (sep : Bytes) (st : LogState) (tags vals : List Bytes) : LogState :=
  let row := natDec st.iter :: vals
  let base := if st.iter = 0 then some (joinSep sep (litIteration :: tags) ++ [10]) else st.file
  ⟨st.iter + 1, some (base.getD [] ++ (joinSep sep row ++ [10]))⟩

/-- `ScalarToFile._response` ; an exception leaves state and file untouched -/
def logStep (sep : Bytes) (fmtEmpty : Bool) (st : LogState) (sigs : List LogSig) : Except String LogState := do
  let cols ← allColumns fmtEmpty sigs
  .ok (logWrite sep st (cols.map (·.1)) (cols.map (·.2)))

/-- a history of successful calls, each given by its (tags, value texts) -/
def logRun (sep : Bytes) (st : LogState) : List (List Bytes × List Bytes) → LogState
  | [] => st
  | c :: cs => logRun sep (logWrite sep st c.1 c.2) cs

/-- the rows a history of successful calls must produce, starting at iteration `k`:
    iteration number first, then the value texts of that call -/
def rowsFrom : Nat → List (List Bytes × List Bytes) → List (List Bytes)
  | _, [] => []
  | k, c :: cs => (natDec k :: c.2) :: rowsFrom (k + 1) cs

end PymotoVerif.IO
