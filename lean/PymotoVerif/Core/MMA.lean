/-
Model of `pymoto/common/mma.py` (all of it) and `pymoto/routines.py` `minimize_mma`.   No Mathlib.
Generic scalar; `sqrt` is a parameter; `np.linalg.solve` is the parameter `linsolve` (LAPACK `gesv` contract:
it returns `x` with `A x = b` or raises `LinAlgError`; `gaussSolve` below is the executable instance the driver uses);
the network is the parameter `prob` (design ↦ the `m+1` response values and their gradients).

Parts
* `expandBnd`, `expandMove`  : scalar / per-signal / per-variable `xmin xmax move` (`MMA.response` lines 325-358)
* `mmasubPre`                : `MMA.mmasub` up to the call of `subsolv` (asymptote offsets, `low upp alfa beta P Q b`)
* `residual`, `subsolv`      : the primal-dual interior point solver, statement by statement
* `run`                      : the outer loop of `MMA.response` with the scalar/array write-back rule and the
                               per-response sensitivity collection (`None` sensitivity of a variable signal = zeros)

Python details kept: `'1987' in mmaversion` is tested before `'2007' in mmaversion`; the line search is a `for … range(400)`
whose variables keep the LAST trial point when no `break` happens; `max(a, b, …)` of Python keeps the first maximal
argument; the two `while` loops of `subsolv` are the coded ones (`ittt < 400` is a coded cap, the `epsi` loop has no
cap: the model's `fuel` running out is reported as `"Diverges"`).
Outside the model: `m = 0` (`np.min` of empty arrays raises), NaN propagation of `np.min/np.max`, printing.
-/
import PymotoVerif.Core.DesignVec
namespace PymotoVerif.MMA
open PymotoVerif PymotoVerif.DV

section Generic
variable {α : Type}

/-! ## bound / move expansion -/

/-- `out[cumlens[i]:cumlens[i+1]] = vals[i]` for `i = 0 … k-1`, starting from zeros (the loop as coded) -/
def perSignal [OfNat α 0] (cumulative : Nat → Nat) (vals : Nat → α) : Nat → Nat → α
  | 0 => fun _ => 0
  | k+1 => fun j => if cumulative k ≤ j ∧ j < cumulative (k+1) then vals k else perSignal cumulative vals k j

/-- `xmin` / `xmax`: no `__len__` ⇒ `v * ones`; `len == len(variables)` ⇒ one value per signal; then `len != n` ⇒ RuntimeError -/
def expandBnd [OfNat α 0] (n nsig : Nat) (cumulative : Nat → Nat) : Bnd α → Except String (Nat → α)
  | .scalar v => .ok (fun _ => v)
  | .vec l =>
    if l.length = nsig then .ok (perSignal cumulative (ofList l) nsig)
    else if l.length ≠ n then .error "RuntimeError"
    else .ok (ofList l)

/-- `move`: a scalar stays a scalar (broadcast later); `size == len(variables)` ⇒ per signal; `len != n` ⇒ RuntimeError -/
def expandMove [OfNat α 0] (n nsig : Nat) (cumulative : Nat → Nat) : Bnd α → Except String (Nat → α)
  | .scalar v => .ok (fun _ => v)
  | .vec l =>
    if l.length = nsig then .ok (perSignal cumulative (ofList l) nsig)
    else if l.length ≠ n then .error "RuntimeError"
    else .ok (ofList l)

/-! ## options -/

inductive Version where
  | v1987
  | v2007
  | other
  deriving DecidableEq, Repr

/-- substring test (`'1987' in s`) -/
def hasSub (s pat : String) : Bool := (s.splitOn pat).length > 1

def parseVersion (s : String) : Version :=
  if hasSub s "1987" then .v1987 else if hasSub s "2007" then .v2007 else .other

/-- keyword options of `MMA.__init__` that reach the arithmetic -/
structure Opts (α : Type) where
  a0 : α
  epsimin : α
  albefa : α
  asyinit : α
  asyincr : α
  asydecr : α
  asybound : α
  version : Version

/-! ## the sub-problem -/

/-- arguments of `subsolv` (`P Q` are `(m+1) × n`, row 0 is the objective) -/
structure SubProb (α : Type) where
  n : Nat
  m : Nat
  epsimin : α
  low : Nat → α
  upp : Nat → α
  alfa : Nat → α
  beta : Nat → α
  P : Nat → Nat → α
  Q : Nat → Nat → α
  a0 : α
  a : Nat → α
  b : Nat → α
  c : Nat → α
  d : Nat → α

/-- primal-dual point `x y z lam xsi eta mu zet s` -/
structure Pt (α : Type) where
  x : Array α
  y : Array α
  z : α
  lam : Array α
  xsi : Array α
  eta : Array α
  mu : Array α
  zet : α
  s : Array α

/-- memory of `MMA` between calls of `mmasub` -/
structure Mem (α : Type) where
  offset : Option (Array α)
  xold1 : Option (Array α)
  xold2 : Option (Array α)

/-! ## mmasub up to the sub-problem -/

/-- `self.offset` after the increase / decrease / clip step -/
def newOffset [LT α] [DecidableLT α] [Sub α] [Mul α] [Div α] [OfNat α 0] [OfNat α 1]
    (o : Opts α) (mem : Mem α) (xval : Nat → α) : Nat → α :=
  let off0 : Nat → α := match mem.offset with
    | none => fun _ => o.asyinit
    | some a => ofArr a
  match mem.xold1, mem.xold2 with
  | some x1, some x2 =>
    fun j =>
      let zzz := (xval j - ofArr x1 j) * (ofArr x1 j - ofArr x2 j)
      let off := if 0 < zzz then off0 j * o.asyincr else if zzz < 0 then off0 j * o.asydecr else off0 j
      clip off (1 / (o.asybound * o.asybound)) o.asybound
  | _, _ => off0

/-- `shift low upp alfa beta` from the offset -/
structure Asy (α : Type) where
  shift : Nat → α
  low : Nat → α
  upp : Nat → α
  alfa : Nat → α
  beta : Nat → α

def asymptotes [LT α] [DecidableLT α] [Add α] [Sub α] [Mul α]
    (albefa : α) (offset dx move xmin xmax xval : Nat → α) : Asy α :=
  let shift := fun j => offset j * dx j
  let low := fun j => xval j - shift j
  let upp := fun j => xval j + shift j
  { shift := shift, low := low, upp := upp,
    alfa := fun j => vmax (vmax (low j + albefa * shift j) (xval j - move j * dx j)) (xmin j),
    beta := fun j => vmin (vmin (upp j - albefa * shift j) (xval j + move j * dx j)) (xmax j) }

/-- `P[i, j]` for the two versions (`dg_plus = max(dg,0)`, `dg_min = max(-dg,0)`, `dx2 = shift**2`) -/
def coefP [LT α] [DecidableLT α] [Add α] [Mul α] [Div α] [Neg α] [OfNat α 0] [OfScientific α]
    (v : Version) (shift dx : Nat → α) (dg : Nat → Nat → α) (i j : Nat) : α :=
  let dgp := vmax (dg i j) 0
  let dgm := vmax (-(dg i j)) 0
  let dx2 := shift j * shift j
  match v with
  | .v1987 => dx2 * dgp
  | _ => dx2 * (1.001 * dgp + 0.001 * dgm + 1e-5 / dx j)

def coefQ [LT α] [DecidableLT α] [Add α] [Mul α] [Div α] [Neg α] [OfNat α 0] [OfScientific α]
    (v : Version) (shift dx : Nat → α) (dg : Nat → Nat → α) (i j : Nat) : α :=
  let dgp := vmax (dg i j) 0
  let dgm := vmax (-(dg i j)) 0
  let dx2 := shift j * shift j
  match v with
  | .v1987 => dx2 * dgm
  | _ => dx2 * (0.001 * dgp + 1.001 * dgm + 1e-5 / dx j)

/-- `rhs = np.dot(P, 1/shift) + np.dot(Q, 1/shift) - g` -/
def rhs [Add α] [Sub α] [Mul α] [Div α] [OfNat α 0] [OfNat α 1]
    (n : Nat) (P Q : Nat → Nat → α) (shift g : Nat → α) (i : Nat) : α :=
  sumRange n (fun j => P i j * (1 / shift j)) + sumRange n (fun j => Q i j * (1 / shift j)) - g i

/-- the separable approximation of response `i` that the sub-problem uses, evaluated at `x`:
    `Σ_j p_ij/(upp_j - x_j) + q_ij/(x_j - low_j) - rhs_i` (specification object of `mma_approx_value`) -/
def approx [Add α] [Sub α] [Div α] [OfNat α 0]
    (n : Nat) (P Q : Nat → Nat → α) (low upp : Nat → α) (r : Nat → α) (i : Nat) (x : Nat → α) : α :=
  sumRange n (fun j => P i j / (upp j - x j) + Q i j / (x j - low j)) - r i

/-- its partial derivative with respect to `x_j` -/
def approxGrad [Sub α] [Mul α] [Div α]
    (P Q : Nat → Nat → α) (low upp : Nat → α) (i j : Nat) (x : Nat → α) : α :=
  P i j / ((upp j - x j) * (upp j - x j)) - Q i j / ((x j - low j) * (x j - low j))

/-- everything `mmasub` hands to `subsolv`, and the new memory -/
structure Pre (α : Type) where
  offset : Array α
  asy : Asy α
  prob : SubProb α
  mem : Mem α

/-- `mmasub` up to the call of `subsolv`.  `g` are the `m+1` response values, `dg i j` the gradients;
    `dx = xmax - xmin`; `a c d` the (fixed) sub-problem constants. -/
def mmasubPre [LT α] [DecidableLT α] [Add α] [Sub α] [Mul α] [Div α] [Neg α] [OfNat α 0] [OfNat α 1]
    [OfScientific α] [NatCast α]
    (sqrt : α → α) (o : Opts α) (n m : Nat) (xmin xmax move : Nat → α) (a c d : Nat → α)
    (mem : Mem α) (xval : Array α) (g : Nat → α) (dg : Nat → Nat → α) : Except String (Pre α) :=
  let xv := ofArr xval
  let dx := fun j => xmax j - xmin j
  let offA := freeze n (newOffset o mem xv)
  let asy := asymptotes o.albefa (ofArr offA) dx move xmin xmax xv
  let shiftA := freeze n asy.shift
  let asyF : Asy α := { shift := ofArr shiftA, low := ofArr (freeze n asy.low), upp := ofArr (freeze n asy.upp),
                        alfa := ofArr (freeze n asy.alfa), beta := ofArr (freeze n asy.beta) }
  match o.version with
  | .other => .error "ValueError"
  | v =>
    let PA := freeze ((m+1) * n) (fun k => coefP v asyF.shift dx dg (k / n) (k % n))
    let QA := freeze ((m+1) * n) (fun k => coefQ v asyF.shift dx dg (k / n) (k % n))
    let P := fun i j => ofArr PA (i * n + j)
    let Q := fun i j => ofArr QA (i * n + j)
    let r := freeze (m+1) (rhs n P Q asyF.shift g)
    let b := fun i => ofArr r (i + 1)
    .ok { offset := offA, asy := asyF,
          prob := { n := n, m := m, epsimin := o.epsimin * sqrt ((m + n : Nat) : α), low := asyF.low, upp := asyF.upp,
                    alfa := asyF.alfa, beta := asyF.beta, P := P, Q := Q, a0 := o.a0, a := a, b := b, c := c, d := d },
          mem := { offset := some offA, xold1 := some xval, xold2 := mem.xold1 } }

/-! ## residual -/

/-- `plam = P0 + np.dot(lam, P1)` -/
def plamF [Add α] [Mul α] [OfNat α 0] (pb : SubProb α) (lam : Nat → α) (j : Nat) : α :=
  pb.P 0 j + sumRange pb.m (fun i => lam i * pb.P (i+1) j)
def qlamF [Add α] [Mul α] [OfNat α 0] (pb : SubProb α) (lam : Nat → α) (j : Nat) : α :=
  pb.Q 0 j + sumRange pb.m (fun i => lam i * pb.Q (i+1) j)
/-- `gvec = np.dot(P1, 1/ux1) + np.dot(Q1, 1/xl1)` -/
def gvecF [Add α] [Sub α] [Mul α] [Div α] [OfNat α 0] [OfNat α 1] (pb : SubProb α) (x : Nat → α) (i : Nat) : α :=
  sumRange pb.n (fun j => pb.P (i+1) j * (1 / (pb.upp j - x j))) +
  sumRange pb.n (fun j => pb.Q (i+1) j * (1 / (x j - pb.low j)))

/-- the nine blocks of `residual(…)` in the order of the `np.concatenate` -/
structure Res (α : Type) where
  rex : Nat → α
  rey : Nat → α
  rez : α
  relam : Nat → α
  rexsi : Nat → α
  reeta : Nat → α
  remu : Nat → α
  rezet : α
  res : Nat → α

def residualBlocks [Add α] [Sub α] [Mul α] [Div α] [OfNat α 0] [OfNat α 1]
    (pb : SubProb α) (epsi : α) (p : Pt α) : Res α :=
  let x := ofArr p.x; let y := ofArr p.y; let lam := ofArr p.lam
  let xsi := ofArr p.xsi; let eta := ofArr p.eta; let mu := ofArr p.mu; let s := ofArr p.s
  { rex := fun j =>
      let ux1 := pb.upp j - x j
      let xl1 := x j - pb.low j
      plamF pb lam j / (ux1 * ux1) - qlamF pb lam j / (xl1 * xl1) - xsi j + eta j
    rey := fun i => pb.c i + pb.d i * y i - mu i - lam i
    rez := pb.a0 - p.zet - sumRange pb.m (fun i => pb.a i * lam i)
    relam := fun i => gvecF pb x i - pb.a i * p.z - y i + s i - pb.b i
    rexsi := fun j => xsi j * (x j - pb.alfa j) - epsi
    reeta := fun j => eta j * (pb.beta j - x j) - epsi
    remu := fun i => mu i * y i - epsi
    rezet := p.zet * p.z - epsi
    res := fun i => lam i * s i - epsi }

/-- `residual(…)` : the concatenated vector (`3n + 4m + 2` entries) -/
def residual [Add α] [Sub α] [Mul α] [Div α] [OfNat α 0] [OfNat α 1]
    (pb : SubProb α) (epsi : α) (p : Pt α) : List α :=
  let r := residualBlocks pb epsi p
  tab pb.n r.rex ++ tab pb.m r.rey ++ [r.rez] ++ tab pb.m r.relam ++ tab pb.n r.rexsi ++ tab pb.n r.reeta ++
    tab pb.m r.remu ++ [r.rezet] ++ tab pb.m r.res

/-- `np.linalg.norm(residu)` -/
def normL [Add α] [Mul α] [OfNat α 0] (sqrt : α → α) (l : List α) : α :=
  sqrt (l.foldl (fun acc v => acc + v * v) 0)
/-- `np.max(np.abs(residu))` (the list is never empty) -/
def maxAbsL [LT α] [DecidableLT α] [Neg α] [OfNat α 0] (l : List α) : α :=
  match l with
  | [] => 0
  | v :: rest => rest.foldl (fun acc w => vmax acc (vabs w)) (vabs v)

/-! ## `np.linalg.solve` : executable instance (LU with partial pivoting, first maximal pivot) -/

def gaussSolve [LT α] [DecidableLT α] [BEq α] [Sub α] [Mul α] [Div α] [Neg α] [OfNat α 0]
    (k : Nat) (A : Nat → Nat → α) (rhsv : Nat → α) : Option (Nat → α) := Id.run do
  let mut M : Array (Array α) := Array.ofFn (n := k) (fun i => Array.ofFn (n := k+1) (fun j =>
    if j.val < k then A i.val j.val else rhsv i.val))
  for col in [0:k] do
    -- pivot search
    let mut piv := col
    let mut best := vabs ((M.getD col #[]).getD col 0)
    for r in [col+1:k] do
      let v := vabs ((M.getD r #[]).getD col 0)
      if best < v then
        piv := r
        best := v
    if best == 0 then return none
    let rowp := M.getD piv #[]
    let rowc := M.getD col #[]
    M := (M.setIfInBounds piv rowc).setIfInBounds col rowp
    let prow := rowp
    let pv := prow.getD col 0
    for r in [col+1:k] do
      let row := M.getD r #[]
      let fct := row.getD col 0 / pv
      M := M.setIfInBounds r (Array.ofFn (n := k+1) (fun j => row.getD j.val 0 - fct * prow.getD j.val 0))
  -- back substitution
  let mut xs : Array α := Array.replicate k 0
  for t in [0:k] do
    let i := k - 1 - t
    let row := M.getD i #[]
    let mut acc := row.getD k 0
    for j in [i+1:k] do
      acc := acc - row.getD j 0 * xs.getD j 0
    xs := xs.setIfInBounds i (acc / row.getD i 0)
  return some (ofArr xs)

/-! ## subsolv -/

/-- starting point: `x = clip(x0, alfa+1e-10, beta-1e-10)` (or the midpoint), `y = lam = s = 1`, `z = zet = 1`,
    `xsi = max(1/(x-alfa), 1)`, `eta = max(1/(beta-x), 1)`, `mu = max(1, 0.5*c)` -/
def initPt [LT α] [DecidableLT α] [Add α] [Sub α] [Mul α] [Div α] [OfNat α 0] [OfNat α 1] [OfScientific α]
    (pb : SubProb α) (x0 : Option (Nat → α)) : Pt α :=
  let xA := freeze pb.n (match x0 with
    | none => fun j => 0.5 * (pb.alfa j + pb.beta j)
    | some x0 => fun j => clip (x0 j) (pb.alfa j + 1e-10) (pb.beta j - 1e-10))
  let x := ofArr xA
  let ones := freeze pb.m (fun _ => (1 : α))
  { x := xA, y := ones, z := 1, lam := ones,
    xsi := freeze pb.n (fun j => vmax (1 / (x j - pb.alfa j)) 1),
    eta := freeze pb.n (fun j => vmax (1 / (pb.beta j - x j)) 1),
    mu := freeze pb.m (fun i => vmax 1 (0.5 * pb.c i)),
    zet := 1, s := ones }

/-- Newton direction `dx dy dz dlam dxsi deta dmu dzet ds` -/
structure Dir (α : Type) where
  dx : Array α
  dy : Array α
  dz : α
  dlam : Array α
  dxsi : Array α
  deta : Array α
  dmu : Array α
  dzet : α
  ds : Array α

/-- assembly and solution of the Newton system (lines 111-169) -/
def newtonDir [LT α] [DecidableLT α] [Add α] [Sub α] [Mul α] [Div α] [Neg α] [OfNat α 0] [OfNat α 1] [OfNat α 2]
    (linsolve : Nat → (Nat → Nat → α) → (Nat → α) → Option (Nat → α))
    (pb : SubProb α) (epsi : α) (p : Pt α) : Except String (Dir α) :=
  let n := pb.n; let m := pb.m
  let x := ofArr p.x; let y := ofArr p.y; let lam := ofArr p.lam
  let xsi := ofArr p.xsi; let eta := ofArr p.eta; let mu := ofArr p.mu; let s := ofArr p.s
  let z := p.z; let zet := p.zet
  let ux1 := ofArr (freeze n (fun j => pb.upp j - x j))
  let xl1 := ofArr (freeze n (fun j => x j - pb.low j))
  let ux2 := ofArr (freeze n (fun j => ux1 j * ux1 j))
  let xl2 := ofArr (freeze n (fun j => xl1 j * xl1 j))
  let ux3 := ofArr (freeze n (fun j => ux1 j * ux2 j))
  let xl3 := ofArr (freeze n (fun j => xl1 j * xl2 j))
  let uxinv1 := ofArr (freeze n (fun j => 1 / ux1 j))
  let xlinv1 := ofArr (freeze n (fun j => 1 / xl1 j))
  let uxinv2 := ofArr (freeze n (fun j => 1 / ux2 j))
  let xlinv2 := ofArr (freeze n (fun j => 1 / xl2 j))
  let plam := ofArr (freeze n (plamF pb lam))
  let qlam := ofArr (freeze n (qlamF pb lam))
  let gvec := ofArr (freeze m (fun i =>
    sumRange n (fun j => pb.P (i+1) j * uxinv1 j) + sumRange n (fun j => pb.Q (i+1) j * xlinv1 j)))
  let GGA := freeze (m * n) (fun k => pb.P (k / n + 1) (k % n) * uxinv2 (k % n) - pb.Q (k / n + 1) (k % n) * xlinv2 (k % n))
  let GG := fun i j => ofArr GGA (i * n + j)
  let dpsidx := fun j => plam j / ux2 j - qlam j / xl2 j
  let delx := ofArr (freeze n (fun j => dpsidx j - epsi / (x j - pb.alfa j) + epsi / (pb.beta j - x j)))
  let dely := ofArr (freeze m (fun i => pb.c i + pb.d i * y i - lam i - epsi / y i))
  let delz := pb.a0 - sumRange m (fun i => pb.a i * lam i) - epsi / z
  let dellam := ofArr (freeze m (fun i => gvec i - pb.a i * z - y i - pb.b i + epsi / lam i))
  let diagx := ofArr (freeze n (fun j =>
    2 * (plam j / ux3 j + qlam j / xl3 j) + xsi j / (x j - pb.alfa j) + eta j / (pb.beta j - x j)))
  let diagy := ofArr (freeze m (fun i => pb.d i + mu i / y i))
  let diaglam := fun i => s i / lam i
  let diaglamyi := fun i => diaglam i + 1 / diagy i
  let dxdiag := ofArr (freeze n (fun j => delx j / diagx j))
  let bb := fun i =>
    if i < m then dellam i + dely i / diagy i - sumRange n (fun j => GG i j * dxdiag j) else delz
  let AAA := freeze ((m+1) * (m+1)) (fun k =>
    let i := k / (m+1); let j := k % (m+1)
    if i < m ∧ j < m then
      (if i = j then diaglamyi i else 0) + sumRange n (fun l => GG i l / diagx l * GG j l)
    else if i < m then pb.a i
    else if j < m then pb.a j
    else -zet / z)
  let AA := fun i j => ofArr AAA (i * (m+1) + j)
  match linsolve (m+1) AA bb with
  | none => .error "LinAlgError"
  | some solut =>
    let dlam := ofArr (freeze m solut)
    let dz := solut m
    let dxA := freeze n (fun j => -(delx j) / diagx j - sumRange m (fun i => dlam i * GG i j) / diagx j)
    let dx := ofArr dxA
    let dyA := freeze m (fun i => -(dely i) / diagy i + dlam i / diagy i)
    let dy := ofArr dyA
    .ok { dx := dxA, dy := dyA, dz := dz, dlam := freeze m dlam,
          dxsi := freeze n (fun j => -(xsi j) + epsi / (x j - pb.alfa j) - (xsi j * dx j) / (x j - pb.alfa j)),
          deta := freeze n (fun j => -(eta j) + epsi / (pb.beta j - x j) + (eta j * dx j) / (pb.beta j - x j)),
          dmu := freeze m (fun i => -(mu i) + epsi / y i - (mu i * dy i) / y i),
          dzet := -zet + epsi / z - zet * dz / z,
          ds := freeze m (fun i => -(s i) + epsi / lam i - (s i * dlam i) / lam i) }

/-- `np.min` of `k ≥ 1` entries -/
def npMin [LT α] [DecidableLT α] (k : Nat) (f : Nat → α) : α := minUpTo (k - 1) f
/-- `np.max` of `k ≥ 1` entries -/
def npMax [LT α] [DecidableLT α] (k : Nat) (f : Nat → α) : α := maxUpTo (k - 1) f

/-- the initial step length (lines 171-187) -/
def stepLength [LT α] [DecidableLT α] [Sub α] [Mul α] [Div α] [Neg α] [OfNat α 0] [OfNat α 1] [OfScientific α]
    (pb : SubProb α) (p : Pt α) (dr : Dir α) : α :=
  let n := pb.n; let m := pb.m
  let x := ofArr p.x
  let stmy := -1.01 * npMin m (fun i => ofArr dr.dy i / ofArr p.y i)
  let stmz := -1.01 * dr.dz / p.z
  let stmlam := -1.01 * npMin m (fun i => ofArr dr.dlam i / ofArr p.lam i)
  let stmxsi := -1.01 * npMin n (fun j => ofArr dr.dxsi j / ofArr p.xsi j)
  let stmeta := -1.01 * npMin n (fun j => ofArr dr.deta j / ofArr p.eta j)
  let stmmu := -1.01 * npMin m (fun i => ofArr dr.dmu i / ofArr p.mu i)
  let stmzet := -1.01 * dr.dzet / p.zet
  let stms := -1.01 * npMin m (fun i => ofArr dr.ds i / ofArr p.s i)
  let stmxx := vmax (vmax (vmax (vmax (vmax (vmax (vmax stmy stmz) stmlam) stmxsi) stmeta) stmmu) stmzet) stms
  let stmalfa := -1.01 * npMin n (fun j => ofArr dr.dx j / (x j - pb.alfa j))
  let stmbeta := 1.01 * npMax n (fun j => ofArr dr.dx j / (pb.beta j - x j))
  1 / vmax (vmax (vmax stmalfa stmbeta) stmxx) 1

/-- `old + steg * d` for all nine blocks -/
def movePt [Add α] [Mul α] [OfNat α 0] (pb : SubProb α) (p : Pt α) (dr : Dir α) (steg : α) : Pt α :=
  let n := pb.n; let m := pb.m
  { x := freeze n (fun j => ofArr p.x j + steg * ofArr dr.dx j),
    y := freeze m (fun i => ofArr p.y i + steg * ofArr dr.dy i),
    z := p.z + steg * dr.dz,
    lam := freeze m (fun i => ofArr p.lam i + steg * ofArr dr.dlam i),
    xsi := freeze n (fun j => ofArr p.xsi j + steg * ofArr dr.dxsi j),
    eta := freeze n (fun j => ofArr p.eta j + steg * ofArr dr.deta j),
    mu := freeze m (fun i => ofArr p.mu i + steg * ofArr dr.dmu i),
    zet := p.zet + steg * dr.dzet,
    s := freeze m (fun i => ofArr p.s i + steg * ofArr dr.ds i) }

/-- `for itto in range(k): … if norm(residu) < residunorm: break; steg /= 2`;
    returns the last trial point and its residual (`last` only matters for `k = 0`) -/
def lineSearch [LT α] [DecidableLT α] [Add α] [Sub α] [Mul α] [Div α] [OfNat α 0] [OfNat α 1] [OfNat α 2]
    (sqrt : α → α) (pb : SubProb α) (epsi : α) (old : Pt α) (dr : Dir α) (residunorm : α) :
    Nat → α → Pt α × List α → Pt α × List α
  | 0, _, last => last
  | k+1, steg, _ =>
    let p := movePt pb old dr steg
    let r := residual pb epsi p
    if normL sqrt r < residunorm then (p, r)
    else lineSearch sqrt pb epsi old dr residunorm k (steg / 2) (p, r)

/-- state of the inner `while residumax > 0.9*epsi and ittt < maxittt` loop -/
structure NState (α : Type) where
  p : Pt α
  residunorm : α
  residumax : α
  ittt : Nat

/-- one pass of the Newton loop body -/
def newtonStep [LT α] [DecidableLT α] [Add α] [Sub α] [Mul α] [Div α] [Neg α] [OfNat α 0] [OfNat α 1] [OfNat α 2]
    [OfScientific α]
    (sqrt : α → α) (linsolve : Nat → (Nat → Nat → α) → (Nat → α) → Option (Nat → α))
    (pb : SubProb α) (epsi : α) (st : NState α) : Except String (NState α) :=
  match newtonDir linsolve pb epsi st.p with
  | .error e => .error e
  | .ok dr =>
    let steg := stepLength pb st.p dr
    let (p, r) := lineSearch sqrt pb epsi st.p dr st.residunorm 400 steg (st.p, [])
    .ok { p := p, residunorm := normL sqrt r, residumax := maxAbsL r, ittt := st.ittt + 1 }

/-- the inner `while` loop (`k` = remaining passes, started with 400 = `maxittt`) -/
def newtonLoop [LT α] [DecidableLT α] [Add α] [Sub α] [Mul α] [Div α] [Neg α] [OfNat α 0] [OfNat α 1] [OfNat α 2]
    [OfScientific α]
    (sqrt : α → α) (linsolve : Nat → (Nat → Nat → α) → (Nat → α) → Option (Nat → α))
    (pb : SubProb α) (epsi : α) : Nat → NState α → Except String (NState α)
  | 0, st => .ok st
  | k+1, st =>
    if 0.9 * epsi < st.residumax then
      match newtonStep sqrt linsolve pb epsi st with
      | .error e => .error e
      | .ok st' => newtonLoop sqrt linsolve pb epsi k st'
    else .ok st

/-- what `subsolv` returns plus diagnostics of its last outer pass -/
structure SubOut (α : Type) where
  p : Pt α
  epsiLast : α         -- `epsi` of the last outer pass
  residumax : α        -- at the returned point, for `epsiLast`
  itttLast : Nat       -- Newton passes of the last outer pass
  newton : Nat         -- total number of Newton passes
  outer : Nat          -- number of outer passes

/-- the outer `while epsi > epsimin` loop -/
def outerLoop [LT α] [DecidableLT α] [Add α] [Sub α] [Mul α] [Div α] [Neg α] [OfNat α 0] [OfNat α 1] [OfNat α 2]
    [OfNat α 10] [OfScientific α]
    (sqrt : α → α) (linsolve : Nat → (Nat → Nat → α) → (Nat → α) → Option (Nat → α))
    (pb : SubProb α) : Nat → α → SubOut α → Except String (SubOut α)
  | 0, _, _ => .error "Diverges"
  | fuel+1, epsi, acc =>
    if pb.epsimin < epsi then
      let r := residual pb epsi acc.p
      match newtonLoop sqrt linsolve pb epsi 400 ⟨acc.p, normL sqrt r, maxAbsL r, 0⟩ with
      | .error e => .error e
      | .ok st =>
        outerLoop sqrt linsolve pb fuel (epsi / 10)
          ⟨st.p, epsi, st.residumax, st.ittt, acc.newton + st.ittt, acc.outer + 1⟩
    else .ok acc

/-- `subsolv(epsimin, low, upp, alfa, beta, P, Q, a0, a, b, c, d, x0)` -/
def subsolv [LT α] [DecidableLT α] [Add α] [Sub α] [Mul α] [Div α] [Neg α] [OfNat α 0] [OfNat α 1] [OfNat α 2]
    [OfNat α 10] [OfScientific α]
    (sqrt : α → α) (linsolve : Nat → (Nat → Nat → α) → (Nat → α) → Option (Nat → α))
    (pb : SubProb α) (x0 : Option (Nat → α)) (fuel : Nat) : Except String (SubOut α) :=
  outerLoop sqrt linsolve pb fuel 1 ⟨initPt pb x0, 1, 0, 0, 0, 0⟩

/-! ## the outer loop of `MMA.response` -/

/-- the network: design ↦ (`m+1` response values, and for every response `i` what back-propagation of that response
    alone leaves in the variable signals: one entry per signal, `none` = `v.sensitivity is None`, i.e. the response is
    not connected to that signal) -/
abbrev Problem (α : Type) := (Nat → α) → (Nat → α) × (Nat → List (Option (List α)))

/-- sensitivity collection of ONE response (lines 407-410):
    `sens_list.append(v.sensitivity if v.sensitivity is not None else 0*v.state)` for every variable signal, then
    `_concatenate_to_array(sens_list)`.  A fresh list per response: a signal without sensitivity contributes zeros. -/
def collectSens [OfNat α 0] : List (St α) → List (Option (List α)) → List α
  | [], _ => []
  | _ :: _, [] => []
  | st :: sts, none :: ss => st.flat.map (fun _ => (0 : α)) ++ collectSens sts ss
  | _ :: sts, some l :: ss => l ++ collectSens sts ss

/-- everything fixed during a run -/
structure Setup (α : Type) where
  o : Opts α
  n : Nat
  m : Nat
  nsig : Nat
  cumulative : List Nat
  xmin : Nat → α
  xmax : Nat → α
  move : Nat → α
  a : Nat → α
  c : Nat → α
  d : Nat → α
  tolx : α
  tolf : α

/-- record of one call of `subsolv` (what the harness's recording wrapper sees) -/
structure Call (α : Type) where
  xval : List α
  pre : Pre α
  out : SubOut α

structure RState (α : Type) where
  xval : Array α
  states : List (St α)
  fcur : α
  mem : Mem α
  iter : Nat
  trace : List (List (St α))     -- (reversed) states of the variable signals at every `fn_callback`
  calls : List (Call α)          -- (reversed)
  relf : List α
  relx : List α

structure ROut (α : Type) where
  trace : List (List (St α))
  calls : List (Call α)
  states : List (St α)
  stop : String
  iter : Nat
  relf : List α
  relx : List α

def RState.out (s : RState α) (stop : String) : ROut α :=
  ⟨s.trace.reverse, s.calls.reverse, s.states, stop, s.iter, s.relf.reverse, s.relx.reverse⟩

inductive RStep (α : Type) where
  | cont (s : RState α)
  | stop (o : ROut α)

/-- one pass of `while self.iter < self.maxIt` -/
def runStep [LT α] [DecidableLT α] [Add α] [Sub α] [Mul α] [Div α] [Neg α] [OfNat α 0] [OfNat α 1] [OfNat α 2]
    [OfNat α 10] [OfScientific α] [NatCast α]
    (sqrt : α → α) (linsolve : Nat → (Nat → Nat → α) → (Nat → α) → Option (Nat → α))
    (prob : Problem α) (su : Setup α) (fuel : Nat) (s : RState α) : Except String (RStep α) :=
  -- set the new states (scalar rule), callback, response, re-read the design
  let states := writeBackMMA s.xval.toList su.cumulative su.nsig
  let xvL := (states.map St.flat).flatten
  let xvA := xvL.toArray
  let xv := ofArr xvA
  let s := { s with states := states, trace := states :: s.trace }
  let (g, sens) := prob xv
  -- "Calculate and save sensitivities": one collection per response, reset in between
  let dgA := ((List.range (su.m + 1)).map (fun i => (collectSens states (sens i)).toArray)).toArray
  let dg := fun i j => ofArr (dgA.getD i #[]) j
  let fprev := s.fcur
  let fcur := g 0
  let rel_fchange := vabs (fcur - fprev) / vabs fcur
  let s := { s with fcur := fcur, relf := rel_fchange :: s.relf }
  if rel_fchange < su.tolf then .ok (.stop (s.out "tolf"))
  else
    match mmasubPre sqrt su.o su.n su.m su.xmin su.xmax su.move su.a su.c su.d s.mem xvA g dg with
    | .error e => .error e
    | .ok pre =>
      match subsolv sqrt linsolve pre.prob (some xv) fuel with
      | .error e => .error e
      | .ok so =>
        let xnew := ofArr so.p.x
        let dx := fun j => su.xmax j - su.xmin j
        let rel_stepsize :=
          sqrt (sumRange su.n (fun j => ((xv j - xnew j) / dx j) * ((xv j - xnew j) / dx j))) /
          sqrt (sumRange su.n (fun j => (xv j / dx j) * (xv j / dx j)))
        let s := { s with mem := pre.mem, calls := ⟨xvL, pre, so⟩ :: s.calls, relx := rel_stepsize :: s.relx }
        if rel_stepsize < su.tolx then .ok (.stop (s.out "tolx"))
        else .ok (.cont { s with xval := so.p.x, iter := s.iter + 1 })

/-- `while self.iter < self.maxIt` (`k` = `maxIt - iter`) -/
def runLoop [LT α] [DecidableLT α] [Add α] [Sub α] [Mul α] [Div α] [Neg α] [OfNat α 0] [OfNat α 1] [OfNat α 2]
    [OfNat α 10] [OfScientific α] [NatCast α]
    (sqrt : α → α) (linsolve : Nat → (Nat → Nat → α) → (Nat → α) → Option (Nat → α))
    (prob : Problem α) (su : Setup α) (fuel : Nat) : Nat → RState α → Except String (ROut α)
  | 0, s => .ok (s.out "maxit")
  | k+1, s =>
    match runStep sqrt linsolve prob su fuel s with
    | .error e => .error e
    | .ok (.stop o) => .ok o
    | .ok (.cont s') => runLoop sqrt linsolve prob su fuel k s'

/-- `MMA(function, variables, responses, …).response()`; `states` are the states of the variable signals on entry,
    `m` the number of constraints (`len(responses) - 1`), `a c` the optional vectors (`d = ones`) -/
def run [LT α] [DecidableLT α] [Add α] [Sub α] [Mul α] [Div α] [Neg α] [OfNat α 0] [OfNat α 1] [OfNat α 2]
    [OfNat α 10] [OfScientific α] [NatCast α]
    (sqrt : α → α) (linsolve : Nat → (Nat → Nat → α) → (Nat → α) → Option (Nat → α))
    (prob : Problem α) (o : Opts α) (states : List (Option (List α))) (m : Nat)
    (tolx tolf : α) (maxit : Nat) (xmin xmax move : Bnd α) (a c : List α) (fuel : Nat) : Except String (ROut α) := do
  if a.length ≠ m then throw "RuntimeError"
  if c.length ≠ m then throw "RuntimeError"
  let (xv, cumulative) ← concatenate states
  let n := xv.length
  let nsig := states.length
  let cumF := fun i => cumulative.getD i 0
  let xmn ← expandBnd n nsig cumF xmin
  let xmx ← expandBnd n nsig cumF xmax
  let mv ← expandMove n nsig cumF move
  let su : Setup α := ⟨o, n, m, nsig, cumulative, xmn, xmx, mv, ofList a, ofList c, fun _ => 1, tolx, tolf⟩
  runLoop sqrt linsolve prob su fuel maxit
    ⟨xv.toArray, [], 0, ⟨none, none, none⟩, 0, [], [], [], []⟩

end Generic
end PymotoVerif.MMA
