/-
Model of the dispatch logic of `pymoto/core_objects.py`:
`Module.response / Module.sensitivity / Module.reset` (lines 505-566), `Network.response /
sensitivity / reset / append` (585-708) and of the parts of `Signal` / `SignalSlice` they call
(`state` getter/setter, `sensitivity` getter/setter, `add_sensitivity`, `reset`).  No Mathlib.

* The store holds every entry of every base `Signal` in one flat index space (`Nat`); a base
  signal is the list of its entries (a contiguous block in the driver) plus two flags "state is
  not None" / "sensitivity is not None"; a `SignalSlice` is an index subset of its base.
* A primitive module is an instance of the harness-defined `pymoto.Module` subclass `GenMod`
  (`harness/props/c02.py`): `_response` concatenates its input states, applies the flat map of
  its kind and splits the result over the outputs (`out_sizes` given at construction);
  `_sensitivity` replaces `None` seeds by zeros, concatenates, applies the kind's adjoint (it reads
  the *current* input states, the pyMOTO idiom `self.sig_in[i].state`) and splits over the inputs.
* A program is a list whose items are primitive modules or nested programs (`Network` used as a
  module inside another `Network`).  `Network.response/sensitivity/reset` never go through
  `Module.response/sensitivity/reset` (they are overridden), exactly as coded.
* Generic over the scalar: runs at `Int` in the driver, reasoned about in any `CommRing`.
-/
import PymotoVerif.Core.Base
namespace PymotoVerif.Net

/-- a `Signal` (`isSlice = false`, `ents` = all entries of the base) or a `SignalSlice`
    (`ents` = the selected entries of the base, in slice order) -/
structure Sig where
  sid : Nat
  base : Nat
  isSlice : Bool
  ents : List Nat
deriving Repr, DecidableEq

/-- static description of the base signals: their entries and `keep_alloc` -/
structure Layout where
  bents : Nat → List Nat
  keep : Nat → Bool

structure Store (α : Type) where
  st : Nat → α
  se : Nat → α
  hasSt : Nat → Bool
  hasSe : Nat → Bool

/-- sequential write `f[ents[j]] = v (off + j)` for `j = 0, 1, …` (numpy assignment order) -/
def writeFrom {α} : List Nat → Nat → (Nat → α) → (Nat → α) → (Nat → α)
  | [], _, _, f => f
  | e :: es, j, v, f => writeFrom es (j + 1) v (fun i => if i = e then v j else f i)

def setB (f : Nat → Bool) (b : Nat) (x : Bool) : Nat → Bool := fun i => if i = b then x else f i

section
variable {α : Type} [Add α] [Mul α] [OfNat α 0]

/-! ## Signal / SignalSlice -/

/-- `s.state` is not None (for a slice: `None if base.state is None else base.state[slice]`) -/
def Sig.hasState (s : Sig) (σ : Store α) : Bool := σ.hasSt s.base
/-- `s.sensitivity` is not None -/
def Sig.hasSens (s : Sig) (σ : Store α) : Bool := σ.hasSe s.base

/-- `s.state = v` (`v` has the length of the signal).  Plain signal: rebinding; slice:
    `base.state[slice] = v`, a TypeError when the base has no state. -/
def setState (s : Sig) (v : Nat → α) (σ : Store α) : Except String (Store α) :=
  if s.isSlice then
    if σ.hasSt s.base then .ok { σ with st := writeFrom s.ents 0 v σ.st }
    else .error "TypeError"
  else .ok { σ with st := writeFrom s.ents 0 v σ.st, hasSt := setB σ.hasSt s.base true }

/-- total part of `add_sensitivity(ds)` with `ds` not None.
    plain, sensitivity None : `deepcopy(ds)`;  plain otherwise: `+=`;
    slice: allocate `base.state * 0` when the base has no sensitivity, then get / `+=` / set back -/
def addSensT (L : Layout) (s : Sig) (d : Nat → α) (σ : Store α) : Store α :=
  if s.isSlice then
    let σ1 : Store α := if σ.hasSe s.base then σ else
      { σ with hasSe := setB σ.hasSe s.base true, se := writeFrom (L.bents s.base) 0 (fun _ => 0) σ.se }
    { σ1 with se := writeFrom s.ents 0 (fun j => σ1.se (s.ents.getD j 0) + d j) σ1.se }
  else
    if σ.hasSe s.base then
      { σ with se := writeFrom s.ents 0 (fun j => σ.se (s.ents.getD j 0) + d j) σ.se }
    else { σ with hasSe := setB σ.hasSe s.base true, se := writeFrom s.ents 0 d σ.se }

/-- `s.add_sensitivity(ds)`; `none` is the `ds is None` early return; the only error is
    `base.state * 0` of a slice whose base has neither sensitivity nor state -/
def addSens (L : Layout) (s : Sig) (d : Option (Nat → α)) (σ : Store α) : Except String (Store α) :=
  match d with
  | none => .ok σ
  | some d =>
    if s.isSlice && !σ.hasSe s.base && !σ.hasSt s.base then .error "TypeError"
    else .ok (addSensT L s d σ)

/-- `s.reset()` : plain: nothing when None, zero in place when `keep_alloc`, else None;
    slice: `self.sensitivity = None` → the setter writes 0 into the base's entries -/
def resetSig (L : Layout) (s : Sig) (σ : Store α) : Store α :=
  if σ.hasSe s.base then
    if s.isSlice then { σ with se := writeFrom s.ents 0 (fun _ => 0) σ.se }
    else if L.keep s.base then { σ with se := writeFrom s.ents 0 (fun _ => 0) σ.se }
    else { σ with se := writeFrom s.ents 0 (fun _ => 0) σ.se, hasSe := setB σ.hasSe s.base false }
  else σ

/-- user seeding `s.sensitivity = v` (`none` = `None`) -/
def seed (L : Layout) (s : Sig) (v : Option (Nat → α)) (σ : Store α) : Except String (Store α) :=
  if s.isSlice then
    if σ.hasSe s.base then
      .ok { σ with se := writeFrom s.ents 0 (v.getD (fun _ => 0)) σ.se }
    else match v with
      | none => .ok σ
      | some v =>
        if σ.hasSt s.base then
          let se1 := writeFrom (L.bents s.base) 0 (fun _ => 0) σ.se
          .ok { σ with hasSe := setB σ.hasSe s.base true, se := writeFrom s.ents 0 v se1 }
        else .error "TypeError"
  else match v with
    | none => .ok { σ with hasSe := setB σ.hasSe s.base false, se := writeFrom s.ents 0 (fun _ => 0) σ.se }
    | some v => .ok { σ with hasSe := setB σ.hasSe s.base true, se := writeFrom s.ents 0 v σ.se }

/-! ## module kinds (flat maps `n` inputs → `nOut n` outputs, with the coded adjoints) -/

inductive Kind (α : Type) where
  /-- `y = A x`, `A` has `rows` rows and `n` columns -/
  | lin (rows : Nat) (A : Nat → Nat → α)
  /-- element-wise product of the two halves of the input -/
  | mul
  /-- dot product of the two halves of the input (one output entry) -/
  | dot
  /-- element-wise square -/
  | sq
  /-- `k` copies of the input -/
  | fan (k : Nat)
  /-- identity on the flat vector: concat (several inputs, one output) / split (one input, several outputs) -/
  | cat
  /-- no outputs -/
  | sink

def Kind.nOut : Kind α → Nat → Nat
  | .lin rows _, _ => rows
  | .mul, n => n / 2
  | .dot, _ => 1
  | .sq, n => n
  | .fan k, n => k * n
  | .cat, n => n
  | .sink, _ => 0

/-- `GenMod._response` on the concatenated input -/
def Kind.f : Kind α → Nat → (Nat → α) → (Nat → α)
  | .lin _ A, n, x => fun r => sumRange n (fun c => A r c * x c)
  | .mul, n, x => fun i => x i * x (n / 2 + i)
  | .dot, n, x => fun _ => sumRange (n / 2) (fun i => x i * x (n / 2 + i))
  | .sq, _, x => fun i => x i * x i
  | .fan _, n, x => fun r => x (r % n)
  | .cat, _, x => x
  | .sink, _, _ => fun _ => 0

/-- `GenMod._sensitivity` on the concatenated seed `w` (input states `x`) -/
def Kind.adj : Kind α → Nat → (Nat → α) → (Nat → α) → (Nat → α)
  | .lin rows A, _, _, w => fun c => sumRange rows (fun r => A r c * w r)
  | .mul, n, x, w => fun c => if c < n / 2 then x (n / 2 + c) * w c else x (c - n / 2) * w (c - n / 2)
  | .dot, n, x, w => fun c => if c < n / 2 then x (n / 2 + c) * w 0 else x (c - n / 2) * w 0
  | .sq, _, x, w => fun c => x c * w c + x c * w c
  | .fan k, n, _, w => fun c => sumRange k (fun q => w (q * n + c))
  | .cat, _, _, w => w
  | .sink, _, _, _ => fun _ => 0

/-! ## Module -/

/-- an instance of `GenMod(sig_in, sig_out, kind, out_sizes)` -/
structure Prim (α : Type) where
  kind : Kind α
  ins : List Sig
  outs : List Sig
  outSizes : List Nat

def entsOf (l : List Sig) : List Nat := l.flatMap (·.ents)

/-- the concatenated input states `np.concatenate([s.state for s in sig_in])` -/
def Prim.x (p : Prim α) (σ : Store α) : Nat → α := fun c => σ.st ((entsOf p.ins).getD c 0)
def Prim.nIn (p : Prim α) : Nat := (entsOf p.ins).length

/-- `for i, val in enumerate(state_out): sig_out[i].state = val`, `val = y[off : off + size]` -/
def writeOuts : List Sig → List Nat → Nat → (Nat → α) → Store α → Except String (Store α)
  | s :: ss, z :: zs, off, y, σ =>
    match setState s (fun j => y (off + j)) σ with
    | .ok σ1 => writeOuts ss zs (off + z) y σ1
    | .error e => .error e
  | _, _, _, _, σ => .ok σ

/-- `Module.response` -/
def Prim.response (p : Prim α) (σ : Store α) : Except String (Store α) :=
  if p.ins.any (fun s => !s.hasState σ) then .error "TypeError"            -- GenMod: state is None
  else if p.outSizes.length ≠ p.outs.length then .error "TypeError"         -- arity check of Module.response
  else writeOuts p.outs p.outSizes 0 (p.kind.f p.nIn (p.x σ)) σ

/-- concatenation of `zeros(size) if dy is None else dy` over the outputs -/
def seedFlat : List Sig → List Nat → Store α → Nat → α
  | s :: ss, z :: zs, σ => fun r =>
    if r < z then (if s.hasSens σ then σ.se (s.ents.getD r 0) else 0) else seedFlat ss zs σ (r - z)
  | _, _, _ => fun _ => 0

/-- `for i, ds in enumerate(sens_out): sig_in[i].add_sensitivity(ds)`, `ds = d[off : off + size]` -/
def addAll (L : Layout) : List Sig → Nat → (Nat → α) → Store α → Except String (Store α)
  | [], _, _, σ => .ok σ
  | s :: ss, off, d, σ =>
    match addSens L s (some (fun j => d (off + j))) σ with
    | .ok σ1 => addAll L ss (off + s.ents.length) d σ1
    | .error e => .error e

/-- the skip rule `len(self.sig_out) > 0 and all([s is None for s in sens_in])` -/
def Prim.skip (p : Prim α) (σ : Store α) : Bool :=
  decide (0 < p.outs.length) && p.outs.all (fun s => !s.hasSens σ)

/-- `Module.sensitivity` -/
def Prim.sensitivity (L : Layout) (p : Prim α) (σ : Store α) : Except String (Store α) :=
  if p.skip σ then .ok σ
  else if p.ins.any (fun s => !s.hasState σ) then .error "TypeError"        -- GenMod reads its input states
  else addAll L p.ins 0 (p.kind.adj p.nIn (p.x σ) (seedFlat p.outs p.outSizes σ)) σ

/-- `Module.reset` : outputs first, then inputs -/
def Prim.reset (L : Layout) (p : Prim α) (σ : Store α) : Store α :=
  p.ins.foldl (fun σ s => resetSig L s σ) (p.outs.foldl (fun σ s => resetSig L s σ) σ)

/-! ## Network -/

/-- a `Network`: list of items, an item is a primitive module or a nested `Network` -/
inductive Prog (α : Type) where
  | done
  | prim (p : Prim α) (rest : Prog α)
  | sub (inner : Prog α) (rest : Prog α)

/-- `[m.response() for m in self.mods]` -/
def Prog.response : Prog α → Store α → Except String (Store α)
  | .done, σ => .ok σ
  | .prim p r, σ =>
    match p.response σ with
    | .ok σ1 => r.response σ1
    | .error e => .error e
  | .sub i r, σ =>
    match i.response σ with
    | .ok σ1 => r.response σ1
    | .error e => .error e

/-- `[m.sensitivity() for m in reversed(self.mods)]` -/
def Prog.sensitivity (L : Layout) : Prog α → Store α → Except String (Store α)
  | .done, σ => .ok σ
  | .prim p r, σ =>
    match r.sensitivity L σ with
    | .ok σ1 => p.sensitivity L σ1
    | .error e => .error e
  | .sub i r, σ =>
    match r.sensitivity L σ with
    | .ok σ1 => i.sensitivity L σ1
    | .error e => .error e

/-- `[m.reset() for m in reversed(self.mods)]` -/
def Prog.reset (L : Layout) : Prog α → Store α → Store α
  | .done, σ => σ
  | .prim p r, σ => p.reset L (r.reset L σ)
  | .sub i r, σ => i.reset L (r.reset L σ)

/-- the list of primitive modules in execution order -/
def Prog.flat : Prog α → List (Prim α)
  | .done => []
  | .prim p r => p :: r.flat
  | .sub i r => i.flat ++ r.flat

def Prog.ofList : List (Prim α) → Prog α
  | [] => .done
  | p :: ps => .prim p (ofList ps)

/-! `Network.append`: `sig_out` = all outputs of the items, `sig_in` = all inputs of the items that
    are not outputs (as sets of signal objects; an item that is itself a `Network` contributes its
    own `sig_in` / `sig_out`).  Returned as duplicate-free lists of signal ids. -/
def Prog.allOut : Prog α → List Nat
  | .done => []
  | .prim p r => p.outs.map (·.sid) ++ r.allOut
  | .sub i r => i.allOut ++ r.allOut

def Prog.allIn : Prog α → List Nat
  | .done => []
  | .prim p r => p.ins.map (·.sid) ++ r.allIn
  | .sub i r => (i.allIn.filter (fun s => !i.allOut.contains s)) ++ r.allIn

/-! decidable well-ordering predicates of a program (hypotheses of the chain-rule theorems of C02;
    evaluated by the driver on every generated program) -/

/-- all entries written by the modules of a list, in order (with multiplicity) -/
def outEnts (ps : List (Prim α)) : List Nat := ps.flatMap (fun p => entsOf p.outs)

/-- every entry read by a module is written by an EARLIER module (`before`) or by no module at all
    (`all` = every written entry of the program) -/
def rawFrom (before all : List Nat) : List (Prim α) → Bool
  | [] => true
  | p :: ps => (entsOf p.ins).all (fun e => before.contains e || !all.contains e)
      && rawFrom (before ++ entsOf p.outs) all ps

/-- read-after-write ordering of a program (nested networks flattened) -/
def Prog.rawOrdered (g : Prog α) : Bool := rawFrom [] (outEnts g.flat) g.flat

/-- single assignment at entry granularity, decidable form: no entry is written twice -/
def Prog.ssaEntries (g : Prog α) : Bool := decide (outEnts g.flat).Nodup

def Prog.sigOut (g : Prog α) : List Nat := g.allOut.eraseDups
def Prog.sigIn (g : Prog α) : List Nat := (g.allIn.filter (fun s => !g.allOut.contains s)).eraseDups

/-! ## building networks by `append`

`Network.append` extends `self.mods` and recomputes `self.sig_in / self.sig_out` of THAT network only,
from the `sig_in / sig_out` its items have at that moment.  A nested network that is extended after it
was appended to its parent therefore leaves the parent's lists stale, while `response / sensitivity /
reset` iterate over `mods` and see the late modules. -/

/-- an item handed to `append`: a primitive module or (a reference to) another `Network` object -/
inductive Item (α : Type) where
  | prim (p : Prim α)
  | ref (j : Nat)

/-- a `Network` object: its `mods` and the `sig_in` / `sig_out` recorded by its last non-empty `append` -/
structure NetRec (α : Type) where
  mods : List (Item α)
  sigIn : List Nat
  sigOut : List Nat

def Item.sigIn (nets : List (NetRec α)) : Item α → List Nat
  | .prim p => p.ins.map (·.sid)
  | .ref j => match nets[j]? with
    | some r => r.sigIn
    | none => []

def Item.sigOut (nets : List (NetRec α)) : Item α → List Nat
  | .prim p => p.outs.map (·.sid)
  | .ref j => match nets[j]? with
    | some r => r.sigOut
    | none => []

/-- `nets[k].append(items)` (`if len(modlist) == 0: return` leaves everything as it is) -/
def appendEv (nets : List (NetRec α)) (k : Nat) (items : List (Item α)) : List (NetRec α) :=
  if items.isEmpty then nets else
  match nets[k]? with
  | none => nets
  | some r =>
    let mods := r.mods ++ items
    let allIn := mods.flatMap (Item.sigIn nets)
    let allOut := mods.flatMap (Item.sigOut nets)
    nets.set k ⟨mods, (allIn.filter (fun s => !allOut.contains s)).eraseDups, allOut.eraseDups⟩

/-- the program that `response / sensitivity / reset` of network `k` execute (they iterate over `mods`) -/
def resolve (nets : List (NetRec α)) : Nat → Nat → Prog α
  | 0, _ => .done
  | fuel + 1, k =>
    match nets[k]? with
    | none => .done
    | some r => r.mods.foldr (fun it acc =>
        match it with
        | .prim p => .prim p acc
        | .ref j => .sub (resolve nets fuel j) acc) .done

end
end PymotoVerif.Net
