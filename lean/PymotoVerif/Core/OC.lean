/-
Model of `pymoto/routines.py` `minimize_oc` (lines 308-378): the optimality-criteria loop as coded.
No Mathlib.  Generic scalar; `sqrt` is a parameter; the network is the parameter `prob`
(design ↦ objective value and concatenated gradient as `obtain_sensitivities` + `_concatenate_to_array` deliver them).

Code order per iteration (kept):
  response → `rel_fchange = |f-fprev|/|f| < tolf` ⇒ stop → sensitivities → `max(dfdx)` (ValueError for no variable)
  → `dfdx = minimum(dfdx, 0)` → bisection `while l2 - l1 > l1l2tol` on `λ ∈ [l1init, l2init]` with
  `xnew = clip(xval*sqrt(-dfdx/lmid), maximum(xmin, xval-move), minimum(xmax, xval+move))`,
  `(l1, l2) = (lmid, l2) if sum(xnew) - maxvol > 0 else (l1, lmid)`
  → `rel_stepsize = ‖xval-xnew‖/‖xval‖ < tolx` ⇒ stop WITHOUT write-back → `xval = xnew`, write-back by slices.
Python details kept: `xnew` is a function-level variable, so a bisection loop that does not execute re-uses the
`xnew` of the previous iteration and raises `UnboundLocalError` in the first one; the `while` loop has no iteration
cap, the model's `fuel` running out is reported as `"Diverges"` (not an exception of the code).
-/
import PymotoVerif.Core.DesignVec
namespace PymotoVerif.OC
open PymotoVerif PymotoVerif.DV

section Generic
variable {α : Type}

/-- numpy broadcasting of `xmin` / `xmax` / `move` against the length-`n` design vector -/
def bcast [OfNat α 0] (n : Nat) : Bnd α → Except String (Nat → α)
  | .scalar v => .ok (fun _ => v)
  | .vec l =>
    if l.length = n then .ok (ofList l)
    else if l.length = 1 then .ok (fun _ => l.getD 0 0)
    else .error "ValueError"

/-- `np.maximum(xmin, xval-move)` -/
def lower [LT α] [DecidableLT α] [Sub α] (xmin move xval : Nat → α) : Nat → α :=
  fun i => vmax (xmin i) (xval i - move i)
/-- `np.minimum(xmax, xval+move)` -/
def upper [LT α] [DecidableLT α] [Add α] (xmax move xval : Nat → α) : Nat → α :=
  fun i => vmin (xmax i) (xval i + move i)

/-- the OC update for the multiplier `lmid`:
    `np.clip(xval * np.sqrt(-dfdx / lmid), np.maximum(xmin, xval-move), np.minimum(xmax, xval+move))` -/
def update [LT α] [DecidableLT α] [Add α] [Sub α] [Mul α] [Div α] [Neg α]
    (sqrt : α → α) (xmin xmax move xval dfdx : Nat → α) (lmid : α) : Nat → α :=
  fun i => clip (xval i * sqrt (-(dfdx i) / lmid)) (lower xmin move xval i) (upper xmax move xval i)

/-- `np.minimum(dfdx, 0)` -/
def clipGrad [LT α] [DecidableLT α] [OfNat α 0] (g : Nat → α) : Nat → α := fun i => vmin (g i) 0

/-- `np.sum` of the first `n` entries -/
def volume [Add α] [OfNat α 0] (n : Nat) (x : Nat → α) : α := sumRange n x

/-- state of the bisection: bracket, the last `xnew` computed (Python variable), and — a diagnostic that is not
    part of the code — the smallest `|sum(xnew) - maxvol|` met (used by the harness to skip rounding-dependent cases) -/
structure BState (α : Type) where
  l1 : α
  l2 : α
  xnew : Option (Array α)
  margin : Option α

/-- one pass of the `while` body -/
def bisectStep [LT α] [DecidableLT α] [Add α] [Sub α] [Mul α] [Neg α] [OfNat α 0] [OfScientific α]
    (n : Nat) (upd : α → Nat → α) (maxvol : α) (s : BState α) : BState α :=
  let lmid := 0.5 * (s.l1 + s.l2)
  let xn := freeze n (upd lmid)
  let d := volume n (ofArr xn) - maxvol
  let mg := match s.margin with
    | none => vabs d
    | some m => vmin m (vabs d)
  if 0 < d then ⟨lmid, s.l2, some xn, some mg⟩ else ⟨s.l1, lmid, some xn, some mg⟩

/-- `while l2 - l1 > l1l2tol: …` ; `none` when the fuel runs out -/
def bisect [LT α] [DecidableLT α] [Add α] [Sub α] [Mul α] [Neg α] [OfNat α 0] [OfScientific α]
    (n : Nat) (upd : α → Nat → α) (maxvol tol : α) : Nat → BState α → Option (BState α)
  | 0, _ => none
  | fuel+1, s =>
    if tol < s.l2 - s.l1 then bisect n upd maxvol tol fuel (bisectStep n upd maxvol s)
    else some s

/-- keyword arguments after broadcasting -/
structure Params (α : Type) where
  tolx : α
  tolf : α
  maxit : Nat
  xmin : Nat → α
  xmax : Nat → α
  move : Nat → α
  l1init : α
  l2init : α
  l1l2tol : α
  maxvol : α

/-- loop variables of `minimize_oc` -/
structure LState (α : Type) where
  xval : Array α                     -- `xval`
  states : List (List α)             -- states of the variable signals
  f : α                              -- `f`
  xnew : Option (Array α)            -- Python variable `xnew` (unbound before the first bisection pass)
  trace : List (List α)              -- (reversed) concatenated states seen by every `function.response()`
  relf : List α                      -- (reversed) diagnostics: rel_fchange, rel_stepsize, bisection margin per iteration
  relx : List α
  margins : List α

/-- what a run leaves behind -/
structure Out (α : Type) where
  trace : List (List α)
  states : List (List α)
  stop : String                      -- "tolf" | "tolx" | "maxit"
  relf : List α
  relx : List α
  margins : List α

def LState.out (s : LState α) (stop : String) : Out α :=
  ⟨s.trace.reverse, s.states, stop, s.relf.reverse, s.relx.reverse, s.margins.reverse⟩

/-- `np.linalg.norm` of the first `n` entries -/
def norm2 [Add α] [Mul α] [OfNat α 0] (sqrt : α → α) (n : Nat) (x : Nat → α) : α :=
  sqrt (sumRange n (fun i => x i * x i))

/-- the network: concatenated variable states ↦ (objective state, concatenated sensitivities) -/
abbrev Problem (α : Type) := (Nat → α) → α × (Nat → α)

/-- result of one pass of the `for it in range(maxit)` body -/
inductive Step (α : Type) where
  | cont (s : LState α)
  | stop (o : Out α)

/-- one iteration of the `for` loop -/
def iteration [LT α] [DecidableLT α] [Add α] [Sub α] [Mul α] [Div α] [Neg α] [OfNat α 0] [OfScientific α]
    (sqrt : α → α) (prob : Problem α) (p : Params α) (cumulative : List Nat) (nsig : Nat) (fuel : Nat)
    (s : LState α) : Except String (Step α) :=
  -- function.response(): the network reads the signal states
  let seen := concat s.states
  let n := s.xval.size
  let (fnew, g) := prob (ofList seen)
  let s := { s with trace := seen :: s.trace }
  let fprev := s.f
  let rel_fchange := vabs (fnew - fprev) / vabs fnew
  let s := { s with f := fnew, relf := rel_fchange :: s.relf }
  if rel_fchange < p.tolf then .ok (.stop (s.out "tolf"))
  else if n = 0 then .error "ValueError"                           -- max() of an empty array
  else
    let xval := ofArr s.xval
    let dfdx := ofArr (freeze n (clipGrad g))
    match bisect n (update sqrt p.xmin p.xmax p.move xval dfdx) p.maxvol p.l1l2tol fuel
        ⟨p.l1init, p.l2init, s.xnew, none⟩ with
    | none => .error "Diverges"
    | some b =>
      match b.xnew with
      | none => .error "UnboundLocalError"
      | some xn =>
        let xnew := ofArr xn
        let rel_stepsize := norm2 sqrt n (fun i => xval i - xnew i) / norm2 sqrt n xval
        let s := { s with xnew := some xn, relx := rel_stepsize :: s.relx,
                          margins := (match b.margin with | some m => m | none => 0) :: s.margins }
        if rel_stepsize < p.tolx then .ok (.stop (s.out "tolx"))
        else .ok (.cont { s with xval := xn, states := writeBack xn.toList cumulative nsig })

/-- `for it in range(maxit)` -/
def loop [LT α] [DecidableLT α] [Add α] [Sub α] [Mul α] [Div α] [Neg α] [OfNat α 0] [OfScientific α]
    (sqrt : α → α) (prob : Problem α) (p : Params α) (cumulative : List Nat) (nsig : Nat) (fuel : Nat) :
    Nat → LState α → Except String (Out α)
  | 0, s => .ok (s.out "maxit")
  | k+1, s =>
    match iteration sqrt prob p cumulative nsig fuel s with
    | .error e => .error e
    | .ok (.stop o) => .ok o
    | .ok (.cont s') => loop sqrt prob p cumulative nsig fuel k s'

/-- `minimize_oc(function, variables, objective, tolx, tolf, maxit, xmin, xmax, move, l1init, l2init, l1l2tol, maxvol)`;
    `states` are the states of the variable signals on entry (`none` = `None`) -/
def minimizeOC [LT α] [DecidableLT α] [Add α] [Sub α] [Mul α] [Div α] [Neg α] [OfNat α 0] [OfScientific α]
    (sqrt : α → α) (prob : Problem α) (states : List (Option (List α)))
    (tolx tolf : α) (maxit : Nat) (xmin xmax move : Bnd α) (l1init l2init l1l2tol : α) (maxvol : Option α)
    (fuel : Nat) : Except String (Out α) := do
  let (xv, cumulative) ← concatenate states
  let st := states.map (fun o => o.getD [])
  let n := xv.length
  let mv := match maxvol with
    | none => volume n (ofList xv)
    | some v => v
  -- broadcasting errors surface in the first bisection pass, i.e. after the first response and the `tolf` test;
  -- they are independent of the data, so they are resolved here and raised at that point by `run`
  let bnds : Except String (Params α) := do
    let xmn ← bcast n xmin
    let mvv ← bcast n move
    let xmx ← bcast n xmax
    pure ⟨tolx, tolf, maxit, xmn, xmx, mvv, l1init, l2init, l1l2tol, mv⟩
  match bnds with
  | .ok p => loop sqrt prob p cumulative st.length fuel maxit ⟨xv.toArray, st, 0, none, [], [], [], []⟩
  | .error e =>
    -- the code reaches the broadcast only if it gets past the first `tolf` test and `max(dfdx)` and enters the bisection
    if maxit = 0 then .ok ⟨[], st, "maxit", [], [], []⟩
    else
      let (fnew, _) := prob (ofList xv)
      let rel := vabs (fnew - 0) / vabs fnew
      if rel < tolf then .ok ⟨[xv], st, "tolf", [rel], [], []⟩
      else if n = 0 then .error "ValueError"
      else if l1l2tol < l2init - l1init then .error e
      else .error "UnboundLocalError"

end Generic
end PymotoVerif.OC
