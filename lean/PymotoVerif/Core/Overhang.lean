/-
Model of `pymoto/modules/filter.py` : class `OverhangFilter` (`_prepare`, `set_parameters`, `_response`,
`_sensitivity`), as repaired (string sign read before `direction` is rebound; the reverse sweep works on a copy
of the seed; one-layer guard).   No Mathlib.

Conventions
* generic scalar `α` through plain operation classes; the SAME definitions run at `Float` in the driver and are
  reasoned about over a commutative ring / an ordered field / `ℝ`;
* `log pow sqrt` and `np.finfo(float64).tiny` are parameters (`Fns`);
* a flat field (numpy 1-d array over the elements) is an `Array α` read with `vget` (0 outside) and written
  as a whole by `vtab n f` (`n` = number of elements); `x[els] = v` for the elements `els` of one layer is the
  tabulation of "`v` on the layer, old value elsewhere" (the element numbers of a layer are distinct);
* element numbers are built exactly as in the code: `el[dir_layer] = l; el[dir_orth1] = a; el[dir_orth2] = b;
  get_elemnumber(*el)`;
* errors raised by the code are the values `"ValueError"`, `"Assertion"`, `"ZeroDivisionError"`.
-/
import PymotoVerif.Core.Base
import PymotoVerif.Core.Domain
namespace PymotoVerif.Overhang
open PymotoVerif PymotoVerif.Domain

/-! ## flat fields -/

/-- read entry `e` of a flat array (`0` outside; the model never reads outside) -/
def vget {α} [OfNat α 0] (v : Array α) (e : Nat) : α := v.getD e 0
/-- build a flat array of length `n` -/
def vtab {α} (n : Nat) (f : Nat → α) : Array α := Array.ofFn (n := n) (fun i => f i.val)

/-- `f` applied `n` times with the step number: `acc = init; for i in range(n): acc = f(acc, i)` -/
def foldRange {β} : Nat → (β → Nat → β) → β → β
  | 0, _, init => init
  | n+1, f, init => f (foldRange n f init) n

/-! ## direction parsing (`_prepare`) -/

/-- `a in direction.lower()` for `a ∈ {'x','y','z'}`: the only characters whose Python `lower()` contains
    `lo` are `lo` itself and its ASCII capital `up` (checked over all of Unicode by the harness) -/
def hasLetter (s : List Char) (lo up : Char) : Bool := s.any (fun c => c == lo || c == up)

/-- `np.argwhere([a in direction.lower() for a in ['x','y','z']]).flatten()` -/
def axesOf (s : List Char) : List Nat :=
  (if hasLetter s 'x' 'X' then [0] else []) ++ (if hasLetter s 'y' 'Y' then [1] else []) ++
  (if hasLetter s 'z' 'Z' then [2] else [])

/-- `'-' in direction` -/
def hasMinus (s : List Char) : Bool := s.any (fun c => c == '-')

/-- the string branch: `direction = [0,0,0]; direction[axes[0]] = sign` or `ValueError` -/
def parseStr {α} [Neg α] [OfNat α 0] [OfNat α 1] (s : List Char) : Except String (List α) :=
  match axesOf s with
  | [a] =>
    let sign : α := if hasMinus s then -1 else 1
    .ok ((List.range 3).map (fun i => if i = a then sign else 0))
  | _ => .error "ValueError"

/-- the argument `direction` -/
inductive DirArg (α : Type) where
  | str (s : List Char)
  | vec (v : List α)      -- already flattened (`np.asarray(direction).flatten()`)

/-- `log pow sqrt` and `np.finfo(np.float64).tiny` -/
structure Fns (α : Type) where
  log : α → α
  pow : α → α → α
  sqrt : α → α
  dblMin : α

/-- `np.abs` -/
def absv {α} [LT α] [DecidableLT α] [Neg α] [OfNat α 0] (a : α) : α := if a < 0 then -a else a

/-- pad with zeros to 3 entries / truncate to 3 entries -/
def padTrunc {α} [OfNat α 0] (v : List α) : Nat → α := fun i => if i < 3 then v.getD i 0 else 0

/-- `np.linalg.norm` of three entries -/
def norm3 {α} [Add α] [Mul α] (F : Fns α) (v : Nat → α) : α := F.sqrt (v 0 * v 0 + v 1 * v 1 + v 2 * v 2)

/-- what `_prepare` stores -/
structure Prepared (α : Type) where
  direction : Nat → α    -- 3 entries
  dom : Dom
  nsampling : Nat
  xi0 : α
  p : α
  eps : α

/-- `if nsampling is None: nsampling = 3 if self.domain.dim == 2 else 5` -/
def nsOf (dom : Dom) (nsampling : Option Int) : Int :=
  match nsampling with
  | none => if dom.dim = 2 then 3 else 5
  | some n => n

/-- `(dim == 2 and nsampling == 3) or (dim == 3 and (nsampling == 5 or nsampling == 9))` -/
def nsValid (dom : Dom) (ns : Int) : Bool :=
  (decide (dom.dim = 2) && decide (ns = 3)) || (decide (dom.dim = 3) && (decide (ns = 5) || decide (ns = 9)))

section Prepare
variable {α : Type} [Add α] [Sub α] [Mul α] [Div α] [Neg α] [OfNat α 0] [OfNat α 1] [NatCast α]
  [LT α] [DecidableLT α] [LE α] [DecidableLE α] [BEq α]

/-- `self.direction = direction / np.linalg.norm(direction)` after the string branch and pad/truncate -/
def parseDirection (F : Fns α) (arg : DirArg α) : Except String (Nat → α) :=
  match (match arg with
    | .str s => parseStr s
    | .vec v => .ok v) with
  | .error e => .error e
  | .ok v =>
    let d := padTrunc v
    let nrm := norm3 F d
    .ok (fun i => d i / nrm)

/-- `1e-10` -/
def tol10 : α := 1 / ((10000000000 : Nat) : α)

/-- `_prepare` (statement order as in the code) -/
def prepare (F : Fns α) (dom : Dom) (arg : DirArg α) (xi0 p eps : α) (nsampling : Option Int) :
    Except String (Prepared α) :=
  match parseDirection F arg with
  | .error e => .error e
  | .ok dir =>
    if dom.dim = 2 ∧ ¬ (dir 2 == 0) then .error "Assertion"
    else if ¬ (1 - tol10 ≤ absv (dir 0) + absv (dir 1) + absv (dir 2)) then .error "Assertion"
    else if nsValid dom (nsOf dom nsampling) then
      .ok ⟨dir, dom, (nsOf dom nsampling).toNat, xi0, p, eps⟩
    else .error "Assertion"
end Prepare

/-! ## `set_parameters` -/

/-- the numbers used by the sweeps -/
structure Par (α : Type) where
  p : α
  q : α
  shift : α
  backshift : α
  eps : α

section SetPar
variable {α : Type} [Add α] [Mul α] [Div α] [OfNat α 1] [NatCast α]

/-- `q = p + log(1.0*nsampling)/log(xi_0)` -/
def qOf (F : Fns α) (ns : Nat) (xi0 p : α) : α := p + F.log (1 * (ns : α)) / F.log xi0
/-- `shift = 100.0 * pow(dbl_min, 1.0/p)` -/
def shiftOf (F : Fns α) (p : α) : α := ((100 : Nat) : α) * F.pow F.dblMin (1 / p)
/-- `backshift = pow(nsampling, 1/q) * pow(shift, p/q) * 0.95` -/
def backshiftOf (F : Fns α) (ns : Nat) (p q shift : α) : α :=
  F.pow (ns : α) (1 / q) * F.pow shift (p / q) * (((95 : Nat) : α) / ((100 : Nat) : α))

/-- `set_parameters(np.float64)`; `1.0/self.p` on Python floats raises for `p = 0` -/
def setParameters [BEq α] [OfNat α 0] (F : Fns α) (pr : Prepared α) : Except String (Par α) :=
  if pr.p == 0 then .error "ZeroDivisionError"
  else
    let q := qOf F pr.nsampling pr.xi0 pr.p
    let shift := shiftOf F pr.p
    .ok ⟨pr.p, q, shift, backshiftOf F pr.nsampling pr.p q shift, pr.eps⟩
end SetPar

/-! ## geometry of the sweep -/

/-- the integers both sweeps derive from `self.direction`, `self.domain`, `self.nsampling` -/
structure Geo where
  dom : Dom
  dirLayer : Nat
  dxLayer : Int
  ns : Nat
deriving Repr, DecidableEq

/-- `int(np.argmax(v))` for three entries: first index of the maximum -/
def argmax3 {α} [LT α] [DecidableLT α] (v : Nat → α) : Nat :=
  let i01 := if v 0 < v 1 then 1 else 0
  if v i01 < v 2 then 2 else i01

/-- `int(np.sign(a))` -/
def signInt {α} [LT α] [DecidableLT α] [OfNat α 0] (a : α) : Int :=
  if a < 0 then -1 else if 0 < a then 1 else 0

/-- `dir_layer`, `dx_layer` -/
def geoOf {α} [LT α] [DecidableLT α] [Neg α] [OfNat α 0] (pr : Prepared α) : Geo :=
  let dl := argmax3 (fun i => absv (pr.direction i))
  ⟨pr.dom, dl, signInt (pr.direction dl), pr.nsampling⟩

namespace Geo
/-- `size = [nelx, nely, max(nelz, 1)]` -/
def size (g : Geo) (axis : Nat) : Nat :=
  if axis = 0 then g.dom.nelx else if axis = 1 then g.dom.nely else g.dom.nz

/-- `(dir_orth1, dir_orth2)` with the 2-D swap -/
def orthPair (g : Geo) : Nat × Nat :=
  let o1 := (g.dirLayer + 1) % 3
  let o2 := (g.dirLayer + 2) % 3
  if o1 = 2 ∧ g.dom.dim = 2 then (o2, o1) else (o1, o2)
def orth1 (g : Geo) : Nat := g.orthPair.1
def orth2 (g : Geo) : Nat := g.orthPair.2

/-- number of layers, and the two in-layer extents -/
def nl (g : Geo) : Nat := g.size g.dirLayer
def n1 (g : Geo) : Nat := g.size g.orth1
def n2 (g : Geo) : Nat := g.size g.orth2

/-- `el[dir_layer] = l; el[dir_orth1] = a; el[dir_orth2] = b; get_elemnumber(*el)` -/
def el (g : Geo) (l a b : Nat) : Nat :=
  let c : Nat → Nat := fun axis => if axis = g.dirLayer then l else if axis = g.orth1 then a else b
  g.dom.elemNumber (c 0) (c 1) (c 2)

/-- Cartesian index of a flat element number along `axis` (inverse of `get_elemnumber`) -/
def coord (g : Geo) (axis e : Nat) : Nat :=
  if axis = 0 then e % g.dom.nelx
  else if axis = 1 then (e / g.dom.nelx) % g.dom.nely
  else e / (g.dom.nelx * g.dom.nely)

/-- `e` is one of `els = get_elemnumber(layer l)` -/
def inLayer (g : Geo) (l e : Nat) : Bool := decide (e < g.dom.nel) && decide (g.coord g.dirLayer e = l)
end Geo

/-- `layer_offsets` (all nine; the code takes the first `nsampling`) -/
def offs : List (Int × Int) := [(-1, 0), (0, 0), (1, 0), (0, -1), (0, 1), (-1, -1), (-1, 1), (1, -1), (1, 1)]
def offA (i : Nat) : Int := (offs.getD i (0, 0)).1
def offB (i : Nat) : Int := (offs.getD i (0, 0)).2

/-- `(idx + o >= 0) * (idx + o < n)` -/
def inRange (n a : Nat) (o : Int) : Bool := decide (0 ≤ (a : Int) + o) && decide ((a : Int) + o < (n : Int))
/-- `idx + o` (only used where `inRange`) -/
def shiftIdx (a : Nat) (o : Int) : Nat := ((a : Int) + o).toNat

/-- `offset_masks[i]` at in-layer position `(a, b)` -/
def Geo.mask (g : Geo) (i a b : Nat) : Bool := inRange g.n1 a (offA i) && inRange g.n2 b (offB i)

/-! ## `_response` -/

section Sweep
variable {α : Type} [Add α] [Sub α] [Mul α] [Div α] [Neg α] [OfNat α 0] [OfNat α 1] [OfNat α 2]

/-- smooth minimum: `r1 = x - s; (x + s - sqrt(r1*r1 + eps) + sqrt(eps))/2` -/
def smin (F : Fns α) (eps x s : α) : α :=
  (x + s - F.sqrt ((x - s) * (x - s) + eps) + F.sqrt eps) / 2

/-- `keep` at `(a, b)`: zeros, then for each offset in order `keep[mask] += (xprint[els] + shift)^p`,
    the supports being in layer `lp = ind_layer - dx_layer` -/
def keepAt (F : Fns α) (P : Par α) (g : Geo) (xprint : Array α) (lp a b : Nat) : α :=
  sumRange g.ns (fun i =>
    if g.mask i a b then
      F.pow (vget xprint (g.el lp (shiftIdx a (offA i)) (shiftIdx b (offB i))) + P.shift) P.p
    else 0)

/-- `max_supp = keep^(1/q) - backshift` -/
def maxSupp (F : Fns α) (P : Par α) (g : Geo) (xprint : Array α) (lp a b : Nat) : α :=
  F.pow (keepAt F P g xprint lp a b) (1 / P.q) - P.backshift

structure State (α : Type) where
  xprint : Array α
  smax : Array α

/-- one pass of the `while` body for layer `ind` with supports in layer `lp` -/
def stepLayer (F : Fns α) (P : Par α) (g : Geo) (x : Nat → α) (st : State α) (ind lp : Nat) : State α :=
  let ms : Nat → α := fun e => maxSupp F P g st.xprint lp (g.coord g.orth1 e) (g.coord g.orth2 e)
  let smax' := vtab g.dom.nel (fun e => if g.inLayer ind e then ms e else vget st.smax e)
  { smax := smax'
    xprint := vtab g.dom.nel (fun e =>
      if g.inLayer ind e then smin F P.eps (x e) (vget smax' e) else vget st.xprint e) }

/-- `while 0 <= ind_layer < size[dir_layer]: …; ind_layer += dx_layer`
    (`fuel` = number of layers is enough for `dx_layer = ±1`) -/
def loop (F : Fns α) (P : Par α) (g : Geo) (x : Nat → α) : Nat → Int → State α → State α
  | 0, _, st => st
  | fuel+1, ind, st =>
    if 0 ≤ ind ∧ ind < (g.nl : Int) then
      loop F P g x fuel (ind + g.dxLayer) (stepLayer F P g x st ind.toNat (ind - g.dxLayer).toNat)
    else st

/-- `ind_layer = 1 if dx_layer >= 0 else size[dir_layer]-2` -/
def Geo.startInd (g : Geo) : Int := if 0 ≤ g.dxLayer then 1 else (g.nl : Int) - 2

/-- `_response(x)`: returns `xprint`, stores `smax` -/
def response (F : Fns α) (P : Par α) (g : Geo) (x : Nat → α) : State α :=
  loop F P g x g.nl g.startInd ⟨vtab g.dom.nel x, vtab g.dom.nel x⟩

/-! ## `_sensitivity` -/

structure SState (α : Type) where
  dxprint : Array α
  dx : Array α

/-- `dfdr1 = -dxprint*r1/(2*sqrt(r1*r1+eps))` with `r1 = x - smax` -/
def dfdr1 (F : Fns α) (eps x s dy : α) : α := -dy * (x - s) / (2 * F.sqrt ((x - s) * (x - s) + eps))
/-- `dx[els] = dxprint/2 + dfdr1` -/
def dsminDx (F : Fns α) (eps x s dy : α) : α := dy / 2 + dfdr1 F eps x s dy
/-- `dfdsmax = dxprint/2 - dfdr1` -/
def dsminDs (F : Fns α) (eps x s dy : α) : α := dy / 2 - dfdr1 F eps x s dy
/-- `keep = (smax + backshift)^q; dfdkeep = dfdsmax * keep^((1/q) - 1) / q; c = p*dfdkeep` -/
def cOf (F : Fns α) (P : Par α) (s dfdsmax : α) : α :=
  P.p * (dfdsmax * F.pow (F.pow (s + P.backshift) P.q) (1 / P.q - 1) / P.q)

/-- one pass of the `while True` body for layer `ind` with supports in layer `lp` -/
def sensStep (F : Fns α) (P : Par α) (g : Geo) (x : Nat → α) (rs : State α) (st : SState α)
    (ind lp : Nat) : SState α :=
  let c : Array α := vtab g.dom.nel (fun e =>
    if g.inLayer ind e then
      cOf F P (vget rs.smax e) (dsminDs F P.eps (x e) (vget rs.smax e) (vget st.dxprint e))
    else 0)
  -- `dxprint[els] += c[supp_mask] * (xprint[els] + shift)^(p-1)` for offset `i`: the element `e = (lp, a', b')`
  -- is the support of `(ind, a' - o_a, b' - o_b)` when that position is inside the layer
  let acc : (Nat → α) → Nat → (Nat → α) := fun dxp i e =>
    if g.inLayer lp e then
      let a' := g.coord g.orth1 e
      let b' := g.coord g.orth2 e
      if inRange g.n1 a' (-(offA i)) && inRange g.n2 b' (-(offB i)) then
        dxp e + vget c (g.el ind (shiftIdx a' (-(offA i))) (shiftIdx b' (-(offB i)))) *
          F.pow (vget rs.xprint e + P.shift) (P.p - 1)
      else dxp e
    else dxp e
  { dx := vtab g.dom.nel (fun e =>
      if g.inLayer ind e then dsminDx F P.eps (x e) (vget rs.smax e) (vget st.dxprint e) else vget st.dx e)
    dxprint := vtab g.dom.nel (foldRange g.ns acc (vget st.dxprint)) }

/-- `while True: …; ind_layer -= dx_layer; if not 1 <= ind_layer < size[dir_layer]-1: break`;
    returns the state and the final `ind_layer` -/
def sloop (F : Fns α) (P : Par α) (g : Geo) (x : Nat → α) (rs : State α) :
    Nat → Int → SState α → SState α × Int
  | 0, ind, st => (st, ind)
  | fuel+1, ind, st =>
    let st' := sensStep F P g x rs st ind.toNat (ind - g.dxLayer).toNat
    let ind' := ind - g.dxLayer
    if 1 ≤ ind' ∧ ind' < (g.nl : Int) - 1 then sloop F P g x rs fuel ind' st' else (st', ind')

/-- `_sensitivity(dxprint)` with `x = sig_in.state`, `rs = (sig_out.state, self.smax)` of the last response -/
def sensitivity (F : Fns α) (P : Par α) (g : Geo) (x : Nat → α) (rs : State α) (seed : Nat → α) : Array α :=
  let dxprint := vtab g.dom.nel seed          -- `dxprint.copy()`
  if g.nl < 2 then dxprint                       -- only a base layer
  else
    let ind0 : Int := if 0 ≤ g.dxLayer then (g.nl : Int) - 1 else 0
    let (st, ind) := sloop F P g x rs g.nl ind0 ⟨dxprint, vtab g.dom.nel (fun _ => 0)⟩
    -- base layer is directly transferred
    vtab g.dom.nel (fun e => if g.inLayer ind.toNat e then vget st.dxprint e else vget st.dx e)
end Sweep

end PymotoVerif.Overhang
