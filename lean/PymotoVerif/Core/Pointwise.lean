/-
Models of the element-wise / re-arranging modules of pyMOTO that have no vertical of their own
(`modules/complex.py`: MakeComplex, RealPart, ImagPart, ComplexNorm; `modules/scaling.py`: Scaling;
`modules/generic.py`: ConcatSignal).  No Mathlib; generic scalar; `sqrt` is a parameter.

A complex number is a pair `(re, im)`; the pairing of a sensitivity `g` with a direction `v` is the one of
pyMOTO and of `finite_difference`:  `Re (g * v)` (no conjugation).
-/
import PymotoVerif.Core.Base
namespace PymotoVerif.Pointwise

structure Cx (α : Type) where
  re : α
  im : α
deriving Repr, DecidableEq

section
variable {α : Type} [Add α] [Mul α] [Sub α] [Neg α] [Div α] [OfNat α 0] [OfNat α 1]

/-- `Re (g * v)` for complex `g`, `v` -/
def pairC (g v : Cx α) : α := g.re * v.re - g.im * v.im

/-! ### modules/complex.py (one entry; the modules act entry-wise) -/

/-- `MakeComplex._response(x, y) = x + 1j*y` -/
def makeComplex (x y : α) : Cx α := ⟨x, y⟩
/-- `MakeComplex._sensitivity(dz) = np.real(dz), np.real(1j*dz)` -/
def makeComplexSens (dz : Cx α) : α × α := (dz.re, -dz.im)

/-- `RealPart._response(z) = np.real(z)` -/
def realPart (z : Cx α) : α := z.re
/-- `RealPart._sensitivity(dx) = np.real(dx)` (as a sensitivity of the complex input) -/
def realPartSens (dx : Cx α) : Cx α := ⟨dx.re, 0⟩

/-- `ImagPart._response(z) = np.imag(z)` -/
def imagPart (z : Cx α) : α := z.im
/-- `ImagPart._sensitivity(dy) = -1j*dy` -/
def imagPartSens (dy : Cx α) : Cx α := ⟨dy.im, -dy.re⟩

/-- `ComplexNorm._response(z) = np.absolute(z)` -/
def complexNorm (sqrt : α → α) (z : Cx α) : α := sqrt (z.re * z.re + z.im * z.im)
/-- `ComplexNorm._sensitivity(dA) = 1/A * dA * conj(z)` with `A` the stored output -/
def complexNormSens (A : α) (z dA : Cx α) : Cx α :=
  ⟨(1 / A) * (dA.re * z.re + dA.im * z.im), (1 / A) * (dA.im * z.re - dA.re * z.im)⟩

/-! ### modules/scaling.py : the scale factor `sf` is frozen at the first call (documented memory) -/

/-- `Scaling._response` for the three modes (`lim` = minval / maxval, unused for the objective) -/
def scalingResp (mode : Nat) (sf lim x : α) : α :=
  if mode = 1 then (1 - x / lim) * sf          -- minval given
  else if mode = 2 then (x / lim - 1) * sf     -- maxval given
  else x * sf
/-- `Scaling._sensitivity` -/
def scalingSens (mode : Nat) (sf lim dy : α) : α :=
  if mode = 1 then -(dy * sf) / lim
  else if mode = 2 then (dy * sf) / lim
  else dy * sf

/-! ### modules/generic.py : ConcatSignal -/

/-- offset of part `i` for part lengths `lens` (`cumulative_inds[i]`) -/
def offsetOf (lens : List Nat) (i : Nat) : Nat := (lens.take i).foldl (· + ·) 0

/-- `_concatenate_to_array`: entry `k` of the concatenation of the parts `xs i` (part `i` has `lens[i]` entries);
    `i0` is the index of the first part of `lens` -/
def concatGo (xs : Nat → Nat → α) : List Nat → Nat → Nat → α
  | [], _, _ => 0
  | n :: rest, i0, k => if k < n then xs i0 k else concatGo xs rest (i0 + 1) (k - n)

def concat (lens : List Nat) (xs : Nat → Nat → α) : Nat → α := fun k => concatGo xs lens 0 k

/-- `ConcatSignal._sensitivity`: `_split_from_array(dy, cumlens)[i][j] = dy[cumlens[i] + j]` -/
def concatSens (lens : List Nat) (dy : Nat → α) : Nat → Nat → α := fun i j => dy (offsetOf lens i + j)

end
end PymotoVerif.Pointwise
