/-
C18 model — `Signal` / `SignalSlice` of `pymoto/core_objects.py` (lines 68-290), no Mathlib.

The model follows the code path literally on an explicit heap of numpy-array objects:

* a heap object is an ndarray that OWNS its buffer (any rank, including MUTABLE rank-0 arrays of shape `[]`): dtype tag (`cplx`: int64 / complex128), shape, flat C-order
  data of Gaussian integers (`GI`; a real array has all imaginary parts 0);
* a Python value (`PVal`) is `None`, an immutable Python scalar (int / complex), a whole heap array (`arr r`, identity = `r`)
  or a numpy VIEW into a heap array (`view r idx shape`: entry `k` of the view is entry `idx[k]` of the buffer of `r`);
* `Signal` = record `{state, sens, keepAlloc}` of Python values (plain attributes: assignment aliases);
* `SignalSlice` = `SigRef.slice parent spec` (parent may again be a slice); its properties are evaluated as the code
  does: `self.base.<field>[self.slice]` — basic slices / tuples of slices give a VIEW, an integer array gives a COPY;
* every modelled method returns the new world together with the raised exception class (if any): side effects that
  happened before the exception are kept (e.g. `base.sensitivity = base.state*0` followed by a failing `+=`).

numpy semantics that matter are modelled explicitly: `slice.indices` normalisation, C-order index sets of tuples of
slices, integer-array indexing on axis 0 (negative indices, IndexError), broadcasting rules of `a[...] = v` and
`a += v`, same-kind casting (`int64 += complex` raises, `int64[...] = complex128 array` drops the imaginary part).
-/
namespace PymotoVerif.Signal

/-- Gaussian integer: exact stand-in for the int64 / complex128 entries used by the correspondence -/
structure GI where
  re : Int
  im : Int
deriving DecidableEq, Repr, Inhabited

instance : Add GI := ⟨fun a b => ⟨a.re + b.re, a.im + b.im⟩⟩
instance : OfNat GI 0 := ⟨⟨0, 0⟩⟩

/-- exception classes raised by the modelled code -/
inductive Err | TypeError | ValueError | IndexError
  | Unsupported     -- not an exception: numpy continues with a value outside the model's number domain (NaN)
deriving DecidableEq, Repr, Inhabited

/-- product of a shape -/
def prod : List Nat → Nat
  | [] => 1
  | d :: ds => d * prod ds

/-- an ndarray owning its buffer -/
structure Obj where
  cplx : Bool
  shape : List Nat
  data : List GI
deriving DecidableEq, Repr, Inhabited

structure Heap where
  objs : Nat → Obj
  next : Nat

def Heap.alloc (h : Heap) (o : Obj) : Heap × Nat :=
  (⟨fun r => if r = h.next then o else h.objs r, h.next + 1⟩, h.next)

/-- `d[idx[k]] := vals[k]` for all `k`, in order -/
def writeList : List GI → List Nat → List GI → List GI
  | d, i :: is, v :: vs => writeList (d.set i v) is vs
  | d, _, _ => d

/-- in-place write into the buffer of object `r` (identity and shape unchanged) -/
def Heap.write (h : Heap) (r : Nat) (idx : List Nat) (vals : List GI) : Heap :=
  { h with objs := fun r' => if r' = r then { h.objs r with data := writeList (h.objs r).data idx vals } else h.objs r' }

/-- gather: entries `idx` of the buffer of `r` -/
def Heap.read (h : Heap) (r : Nat) (idx : List Nat) : List GI :=
  idx.map (fun p => (h.objs r).data.getD p 0)

/-! ## index sets -/

/-- Python `slice(start, stop, step)`; `none` = omitted -/
structure PySlice where
  start : Option Int
  stop : Option Int
  step : Option Int
deriving DecidableEq, Repr, Inhabited

/-- CPython `slice.indices(n)` + length: `(start, step, len)`; step 0 raises ValueError -/
def PySlice.indices (s : PySlice) (n : Nat) : Except Err (Int × Int × Nat) :=
  let step := s.step.getD 1
  let n : Int := n
  if step = 0 then .error .ValueError
  else if step > 0 then
    let clamp (v : Int) : Int := if v < 0 then (if v + n < 0 then 0 else v + n) else if v ≥ n then n else v
    let start := match s.start with | none => 0 | some v => clamp v
    let stop := match s.stop with | none => n | some v => clamp v
    .ok (start, step, if stop > start then ((stop - start - 1) / step + 1).toNat else 0)
  else
    let clamp (v : Int) : Int := if v < 0 then (if v + n < 0 then -1 else v + n) else if v ≥ n then n - 1 else v
    let start := match s.start with | none => n - 1 | some v => clamp v
    let stop := match s.stop with | none => -1 | some v => clamp v
    .ok (start, step, if stop < start then ((start - stop - 1) / (-step) + 1).toNat else 0)

/-- the indices selected by a slice along an axis of length `n` -/
def PySlice.axis (s : PySlice) (n : Nat) : Except Err (List Nat) :=
  match s.indices n with
  | .error e => .error e
  | .ok (start, step, len) => .ok ((List.range len).map fun (k : Nat) => (start + (k : Int) * step).toNat)

/-- integer index array along an axis of length `n` (negative indices wrap once, otherwise IndexError) -/
def intAxis (n : Nat) : List Int → Except Err (List Nat)
  | [] => .ok []
  | i :: is =>
    let j := if i < 0 then i + (n : Int) else i
    if j < 0 ∨ j ≥ (n : Int) then .error .IndexError
    else match intAxis n is with
      | .error e => .error e
      | .ok r => .ok (j.toNat :: r)

/-- per-axis index lists of a tuple of slices -/
def sliceAxes : List Nat → List PySlice → Except Err (List (List Nat))
  | d :: ds, s :: ss =>
    match s.axis d with
    | .error e => .error e
    | .ok a => match sliceAxes ds ss with
      | .error e => .error e
      | .ok r => .ok (a :: r)
  | _, _ => .ok []

/-- flat C-order positions of the Cartesian product of per-axis index lists (missing trailing axes = full) -/
def cartIdx : List Nat → List (List Nat) → List Nat
  | [], _ => [0]
  | d :: ds, [] => (List.range d).flatMap fun i => (cartIdx ds []).map fun p => i * prod ds + p
  | _ :: ds, a :: as => a.flatMap fun i => (cartIdx ds as).map fun p => i * prod ds + p

/-- an entry of a mixed index tuple that is not the integer array: a slice or a plain integer -/
inductive BItem
  | sl (s : PySlice)
  | int (i : Int)
deriving DecidableEq, Repr, Inhabited

def BItem.isInt : BItem → Bool
  | .int _ => true
  | .sl _ => false

inductive SliceSpec
  | basic (s : PySlice)            -- `a[start:stop:step]`
  | tuple (ss : List PySlice)      -- `a[s0, s1, …]`
  | intArr (is : List Int)         -- `a[np.array([...])]` (1-D integer array, axis 0)
  /-- `a[pre…, np.array(arr), post…]` (slices and integers around ONE 1-D integer array at any axis), or, with
      `arr = none`, a tuple of slices and integers `a[pre…, post…]` -/
  | mixed (pre : List BItem) (arr : Option (List Int)) (post : List BItem)
deriving DecidableEq, Repr, Inhabited

/-- basic indexing returns a view, advanced indexing (any integer array in the index) returns a copy -/
def SliceSpec.isView : SliceSpec → Bool
  | .intArr _ => false
  | .mixed _ (some _) _ => false
  | _ => true

/-- one integer index along an axis of length `n` -/
def intIndex (n : Nat) (i : Int) : Except Err Nat :=
  let j := if i < 0 then i + (n : Int) else i
  if j < 0 ∨ j ≥ (n : Int) then .error .IndexError else .ok j.toNat

/-- per-axis index lists of slices and integers, parsed (and checked) in order -/
def parseItems : List Nat → List BItem → Except Err (List (List Nat))
  | d :: ds, .sl s :: is =>
    match s.axis d with
    | .error e => .error e
    | .ok a => match parseItems ds is with
      | .error e => .error e
      | .ok r => .ok (a :: r)
  | d :: ds, .int i :: is =>
    match intIndex d i with
    | .error e => .error e
    | .ok j => match parseItems ds is with
      | .error e => .error e
      | .ok r => .ok ([j] :: r)
  | _, _ => .ok []

/-- lengths of the axes that survive (slices keep their axis, integers remove it) -/
def keptLens : List BItem → List (List Nat) → List Nat
  | .sl _ :: is, a :: as => a.length :: keptLens is as
  | .int _ :: is, _ :: as => keptLens is as
  | _, _ => []

/-- integers count as advanced indices next to an array: are all advanced indices adjacent
    (`pre` = slices then integers, `post` = integers then slices)? -/
def adjacent (pre post : List BItem) : Bool :=
  (pre.dropWhile (fun b => !b.isInt)).all (·.isInt) && (post.dropWhile (·.isInt)).all (fun b => !b.isInt)

/-- parse everything of `a[pre…, array of length k, post…]` except the array's entries:
    `(axes of pre, length of the array's axis, axes of post, result shape)`.
    numpy: adjacent advanced indices leave the array dimension in place, otherwise it comes first. -/
def mixedParse (shape : List Nat) (pre : List BItem) (k : Nat) (post : List BItem) :
    Except Err (List (List Nat) × Nat × List (List Nat) × List Nat) :=
  if pre.length + 1 + post.length > shape.length then .error .IndexError     -- too many indices
  else match parseItems shape pre with
    | .error e => .error e
    | .ok preAx =>
      match shape.drop pre.length with
      | [] => .error .IndexError
      | d :: rest =>
        match parseItems rest post with
        | .error e => .error e
        | .ok postAx =>
          let tail := rest.drop post.length
          .ok (preAx, d, postAx,
            if adjacent pre post then keptLens pre preAx ++ [k] ++ keptLens post postAx ++ tail
            else k :: (keptLens pre preAx ++ keptLens post postAx ++ tail))

def selTuple (shape : List Nat) (ss : List PySlice) : Except Err (List Nat × List Nat) :=
  if ss.length > shape.length then .error .IndexError      -- too many indices for array
  else match sliceAxes shape ss with
    | .error e => .error e
    | .ok axes => .ok (cartIdx shape axes, axes.map List.length ++ shape.drop ss.length)

/-- `(positions, result shape)` selected in an array of shape `shape` (positions are flat C-order) -/
def selIdx (shape : List Nat) : SliceSpec → Except Err (List Nat × List Nat)
  | .basic s => selTuple shape [s]
  | .tuple ss => selTuple shape ss
  | .intArr is =>
    match shape with
    | [] => .error .IndexError
    | d :: ds =>
      match intAxis d is with
      | .error e => .error e
      | .ok a => .ok (cartIdx (d :: ds) [a], a.length :: ds)
  | .mixed pre none post =>
    if (pre ++ post).length > shape.length then .error .IndexError
    else match parseItems shape (pre ++ post) with
      | .error e => .error e
      | .ok ax => .ok (cartIdx shape ax, keptLens (pre ++ post) ax ++ shape.drop (pre ++ post).length)
  | .mixed pre (some is) post =>
    match mixedParse shape pre is.length post with
    | .error e => .error e
    | .ok (preAx, d, postAx, rshape) =>
      match intAxis d is with
      | .error e => .error e
      | .ok a =>
        .ok (if adjacent pre post then cartIdx shape (preAx ++ [a] ++ postAx)
             else a.flatMap fun j => cartIdx shape (preAx ++ [[j]] ++ postAx), rshape)

/-- for an index containing an integer array: the result shape, known before the array's entries are bounds-checked -/
def advShape (shape : List Nat) : SliceSpec → Option (Except Err (List Nat))
  | .intArr is => some (if shape = [] then .error .IndexError else .ok (is.length :: shape.drop 1))   -- rank 0: too many indices
  | .mixed pre (some is) post =>
    some (match mixedParse shape pre is.length post with
      | .error e => .error e
      | .ok (_, _, _, rshape) => .ok rshape)
  | _ => Option.none

/-! ## broadcasting -/

/-- positions in a source of (padded) shape `s` for every C-order position of a target of shape `t` -/
def bcastIdx : List Nat → List Nat → List Nat
  | t :: ts, s :: ss => (List.range t).flatMap fun i => (bcastIdx ts ss).map fun p => (if s = 1 then 0 else i) * prod ss + p
  | _, _ => [0]

def bcastOk : List Nat → List Nat → Bool
  | t :: ts, s :: ss => (s = 1 || s = t) && bcastOk ts ss
  | [], [] => true
  | _, _ => false

/-- `target += src`: the broadcast result must have the target's shape -/
def iaddBcast (t s : List Nat) : Option (List Nat) :=
  if s.length > t.length then none
  else
    let sp := List.replicate (t.length - s.length) 1 ++ s
    if bcastOk t sp then some (bcastIdx t sp) else none

def stripOnes : Nat → List Nat → List Nat
  | k + 1, 1 :: s => stripOnes k s
  | _, s => s

/-- `target[...] = src`: leading length-1 axes of the source may be dropped, then ordinary broadcasting -/
def setBcast (t s : List Nat) : Option (List Nat) :=
  iaddBcast t (stripOnes (s.length - t.length) s)

/-! ## Python values -/

inductive PVal
  | none
  | sc (cplx : Bool) (x : GI)                           -- Python int / complex (immutable)
  | npsc (cplx : Bool) (x : GI)                         -- numpy scalar: what indexing EVERY axis with an integer returns
  | arr (r : Nat)                                       -- a whole heap array
  | view (r : Nat) (idx : List Nat) (shape : List Nat)  -- numpy view into heap array `r`
deriving DecidableEq, Repr, Inhabited

/-- array-like access path `(buffer, positions, shape)`; `none` for `None` and Python scalars -/
def PVal.asView (h : Heap) : PVal → Option (Nat × List Nat × List Nat)
  | .arr r => some (r, List.range (h.objs r).data.length, (h.objs r).shape)
  | .view r idx shp => some (r, idx, shp)
  | _ => Option.none

/-- the buffer a value lives in (for aliasing statements) -/
def PVal.buf : PVal → Option Nat
  | .arr r => some r
  | .view r _ _ => some r
  | _ => Option.none

/-- right-hand-side content of a value -/
inductive Src
  | sc (cplx : Bool) (x : GI)
  | arr (cplx : Bool) (shape : List Nat) (vals : List GI)

def PVal.src (h : Heap) : PVal → Option Src
  | .none => Option.none
  | .sc c x => some (.sc c x)
  | .npsc c x => some (.arr c [] [x])      -- a numpy scalar converts like a rank-0 array (unsafe cast on assignment)
  | .arr r => some (.arr (h.objs r).cplx (h.objs r).shape (h.objs r).data)
  | .view r idx shp => some (.arr (h.objs r).cplx shp (h.read r idx))

def dropIm (x : GI) : GI := ⟨x.re, 0⟩

/-- `v[sp]` -/
def getItem (h : Heap) (v : PVal) (sp : SliceSpec) : Except Err (Heap × PVal) :=
  match v.asView h with
  | Option.none =>
    match v with
    | .npsc _ _ =>
      if sp = .tuple [] ∨ sp = .mixed [] Option.none [] then .ok (h, v)   -- `np.int64(3)[()]` is the scalar itself
      else .error .IndexError              -- invalid index to scalar variable
    | _ => .error .TypeError              -- 'NoneType' / 'int' object is not subscriptable
  | some (r, idx, shp) =>
    match selIdx shp sp with
    | .error e => .error e
    | .ok (pos, shp') =>
      let idx' := pos.map fun p => idx.getD p 0
      if shp' = [] then .ok (h, .npsc (h.objs r).cplx ((h.read r idx').getD 0 0))   -- 0-d result: a numpy scalar (copy)
      else if sp.isView then .ok (h, .view r idx' shp')
      else
        let (h', r') := h.alloc ⟨(h.objs r).cplx, shp', h.read r idx'⟩
        .ok (h', .arr r')

/-- right-hand side of `target[...] = v` converted and broadcast to the selection shape `shp` (target dtype `tc`) -/
def prepVal (h : Heap) (tc : Bool) (shp : List Nat) (v : PVal) : Except Err (List GI) :=
  match v.src h with
  | Option.none => if tc then .error .Unsupported else .error .TypeError   -- int(None) raises; a complex array stores NaN
  | some (.sc c x) =>
    if c && !tc then .error .TypeError               -- int(complex)
    else .ok (List.replicate (prod shp) x)
  | some (.arr c vshape vals) =>
    if shp = [] ∧ vshape ≠ [] then                    -- one element := an array of rank ≥ 1 (a rank-0 array is fine):
      .error (if tc then .TypeError else .ValueError)  -- `complex(seq)` raises TypeError, `int(seq)` ValueError
    else match setBcast shp vshape with
    | Option.none => .error .ValueError              -- could not broadcast input array
    | some m =>
      let vs := m.map fun p => vals.getD p 0
      .ok (if c && !tc then vs.map dropIm else vs)    -- ComplexWarning: imaginary part discarded

/-- positions and values of `target[sp] = v` on an array of shape `shp`. numpy converts and broadcasts the value BEFORE it
    bounds-checks an integer index array, but parses a basic index first. -/
def prepSet (h : Heap) (tc : Bool) (shp : List Nat) (sp : SliceSpec) (v : PVal) : Except Err (List Nat × List GI) :=
  match advShape shp sp with
  | some (.error e) => .error e
  | some (.ok rshape) =>
    match prepVal h tc rshape v with
    | .error .Unsupported =>                          -- the NaN conversion succeeds; the bounds check still comes
      match selIdx shp sp with
      | .error e => .error e
      | .ok _ => .error .Unsupported
    | .error e => .error e
    | .ok vals =>
      match selIdx shp sp with
      | .error e => .error e
      | .ok (pos, _) => .ok (pos, vals)
  | Option.none =>
    match selIdx shp sp with
    | .error e => .error e
    | .ok (pos, shp') =>
      match prepVal h tc shp' v with
      | .error e => .error e
      | .ok vals => .ok (pos, vals)

/-- `target[sp] = v` -/
def setItem (h : Heap) (target : PVal) (sp : SliceSpec) (v : PVal) : Except Err Heap :=
  match target.asView h with
  | Option.none => .error .TypeError      -- object does not support item assignment
  | some (r, idx, shp) =>
    match prepSet h (h.objs r).cplx shp sp v with
    | .error e => .error e
    | .ok (pos, vals) => .ok (h.write r (pos.map fun p => idx.getD p 0) vals)

/-- result of `tmp += ds`: `tmp` keeps its binding (in-place) or is rebound to a new value -/
inductive IaddRes
  | same
  | newVal (v : PVal)

/-- `tmp += ds` -/
def iadd (h : Heap) (tmp ds : PVal) : Except Err (Heap × IaddRes) :=
  match ds.src h with
  | Option.none => .error .TypeError
  | some d =>
    match tmp with
    | .none => .error .TypeError
    | .sc c x =>
      match d with
      | .sc c' y => .ok (h, .newVal (.sc (c || c') (x + y)))
      | .arr c' shp vals =>                               -- scalar + ndarray → new ndarray (rank 0: a numpy scalar)
        if shp = [] then .ok (h, .newVal (.npsc (c || c') (x + vals.getD 0 0)))
        else
          let (h', r') := h.alloc ⟨c || c', shp, vals.map fun v => x + v⟩
          .ok (h', .newVal (.arr r'))
    | .npsc c x =>
      match d with
      | .sc c' y => .ok (h, .newVal (.npsc (c || c') (x + y)))
      | .arr c' shp vals =>
        if shp = [] then .ok (h, .newVal (.npsc (c || c') (x + vals.getD 0 0)))
        else
          let (h', r') := h.alloc ⟨c || c', shp, vals.map fun v => x + v⟩
          .ok (h', .newVal (.arr r'))
    | t =>
      match t.asView h with
      | Option.none => .error .TypeError
      | some (r, idx, shp) =>
        let tc := (h.objs r).cplx
        match d with
        | .sc c' y =>
          if c' && !tc then .error .TypeError             -- UFuncTypeError (same_kind casting)
          else .ok (h.write r idx ((h.read r idx).map fun v => v + y), .same)
        | .arr c' vshape vals =>
          if c' && !tc then .error .TypeError
          else match iaddBcast shp vshape with
            | Option.none => .error .ValueError
            | some m =>
              let vs := m.map fun p => vals.getD p 0
              .ok (h.write r idx (List.zipWith (· + ·) (h.read r idx) vs), .same)

/-- `v * 0` -/
def mulZero (h : Heap) (v : PVal) : Except Err (Heap × PVal) :=
  match v with
  | .none => .error .TypeError
  | .sc c _ => .ok (h, .sc c 0)
  | .npsc c _ => .ok (h, .npsc c 0)
  | t =>
    match t.asView h with
    | Option.none => .error .TypeError
    | some (r, idx, shp) =>
      if shp = [] then .ok (h, .npsc (h.objs r).cplx 0)     -- ufuncs on rank-0 arrays return numpy scalars
      else
        let (h', r') := h.alloc ⟨(h.objs r).cplx, shp, List.replicate idx.length 0⟩
        .ok (h', .arr r')

/-- `copy.deepcopy(v)` -/
def deepcopy (h : Heap) (v : PVal) : Heap × PVal :=
  match v.asView h with
  | Option.none => (h, v)                                  -- None / immutable scalar
  | some (r, idx, shp) =>
    let (h', r') := h.alloc ⟨(h.objs r).cplx, shp, h.read r idx⟩
    (h', .arr r')

/-! ## signals -/

structure Sig where
  state : PVal
  sens : PVal
  keepAlloc : Bool
deriving Repr, Inhabited

inductive Fld | state | sens
deriving DecidableEq, Repr

def Sig.get (s : Sig) : Fld → PVal
  | .state => s.state
  | .sens => s.sens

structure World where
  heap : Heap
  sigs : Nat → Sig
  nsig : Nat
  exts : List Nat        -- arrays created by the caller (harness), in creation order

def World.setState (w : World) (i : Nat) (v : PVal) : World :=
  { w with sigs := fun j => if j = i then { w.sigs i with state := v } else w.sigs j }
def World.setSens (w : World) (i : Nat) (v : PVal) : World :=
  { w with sigs := fun j => if j = i then { w.sigs i with sens := v } else w.sigs j }

/-- a plain `Signal` (index of the base signal) or a `SignalSlice(parent, spec)` -/
inductive SigRef
  | base (i : Nat)
  | slice (p : SigRef) (sp : SliceSpec)
deriving DecidableEq, Repr, Inhabited

/-- the `state` / `sensitivity` getter -/
def getField (f : Fld) (w : World) : SigRef → Except Err (World × PVal)
  | .base i => .ok (w, (w.sigs i).get f)
  | .slice p sp =>
    match getField f w p with
    | .error e => .error e
    | .ok (w1, .none) => .ok (w1, .none)
    | .ok (w1, b) =>
      match getItem w1.heap b sp with
      | .error e => .error e                 -- re-raised as `type(e)(…)`
      | .ok (h, v) => .ok ({ w1 with heap := h }, v)

/-- `self.base.<field>[self.slice] = v` -/
def writeField (f : Fld) (w : World) (p : SigRef) (sp : SliceSpec) (v : PVal) : World × Option Err :=
  match getField f w p with
  | .error e => (w, some e)
  | .ok (w1, b) =>
    match setItem w1.heap b sp v with
    | .error e => (w1, some e)
    | .ok h => ({ w1 with heap := h }, Option.none)

/-- `sig.state = v` -/
def setState (w : World) : SigRef → PVal → World × Option Err
  | .base i, v => (w.setState i v, Option.none)
  | .slice p sp, v => writeField .state w p sp v

/-- `sig.sensitivity = v` (plain attribute, or the `SignalSlice.sensitivity` setter) -/
def setSens (w : World) : SigRef → PVal → World × Option Err
  | .base i, v => (w.setSens i v, Option.none)
  | .slice p sp, v =>
    match getField .sens w p with
    | .error e => (w, some e)
    | .ok (w1, .none) =>
      match v with
      | .none => (w1, Option.none)                         -- nothing to initialise
      | _ =>
        match getField .state w1 p with
        | .error e => (w1, some e)
        | .ok (w2, st) =>
          match mulZero w2.heap st with                    -- self.base.state * 0
          | .error e => (w2, some e)
          | .ok (h3, z) =>
            match setSens { w2 with heap := h3 } p z with  -- self.base.sensitivity = …
            | (w4, some e) => (w4, some e)
            | (w4, Option.none) => writeField .sens w4 p sp v
    | .ok (w1, _) =>
      writeField .sens w1 p sp (match v with | .none => .sc false 0 | x => x)   -- reset() uses None → 0

/-- `Signal.add_sensitivity(ds)` on a plain signal -/
def addPlain (w : World) (i : Nat) (ds : PVal) : World × Option Err :=
  match ds with
  | .none => (w, Option.none)
  | _ =>
    match (w.sigs i).sens with
    | .none =>
      let (h', c) := deepcopy w.heap ds
      ({ w with heap := h' }.setSens i c, Option.none)
    | cur =>
      match iadd w.heap cur ds with
      | .error e => (w, some e)
      | .ok (h', .same) => ({ w with heap := h' }, Option.none)
      | .ok (h', .newVal v) => ({ w with heap := h' }.setSens i v, Option.none)

/-- `if self.base.sensitivity is None: self.base.sensitivity = self.base.state * 0` (`b` = the base sensitivity just read) -/
def initSens (w1 : World) (p : SigRef) (b : PVal) : World × Option Err :=
  match b with
  | .none =>
    match getField .state w1 p with
    | .error e => (w1, some e)
    | .ok (w2, st) =>
      match mulZero w2.heap st with
      | .error e => (w2, some e)
      | .ok (h3, z) => setSens { w2 with heap := h3 } p z
  | _ => (w1, Option.none)

/-- `self.sensitivity += ds` of `SignalSlice.add_sensitivity`: getter, in-place add, setter -/
def addTail (w4 : World) (p : SigRef) (sp : SliceSpec) (ds : PVal) : World × Option Err :=
  match getField .sens w4 (.slice p sp) with           -- hasattr(self.sensitivity, "add_sensitivity")
  | .error e => (w4, some e)
  | .ok (w5, _) =>
    match getField .sens w5 (.slice p sp) with         -- tmp = self.sensitivity
    | .error e => (w5, some e)
    | .ok (w6, tmp) =>
      match iadd w6.heap tmp ds with                   -- tmp += ds
      | .error e => (w6, some e)
      | .ok (h7, res) =>                               -- self.sensitivity = tmp
        setSens { w6 with heap := h7 } (.slice p sp) (match res with | .same => tmp | .newVal v => v)

/-- `SignalSlice.add_sensitivity(ds)` -/
def addSlice (w : World) (p : SigRef) (sp : SliceSpec) (ds : PVal) : World × Option Err :=
  match ds with
  | .none => (w, Option.none)
  | _ =>
    match getField .sens w p with                          -- `self.base.sensitivity is None`
    | .error e => (w, some e)
    | .ok (w1, b) =>
      match initSens w1 p b with
      | (w4, some e) => (w4, some e)
      | (w4, Option.none) => addTail w4 p sp ds

def addSens (w : World) : SigRef → PVal → World × Option Err
  | .base i, ds => addPlain w i ds
  | .slice p sp, ds => addSlice w p sp ds

/-- `Signal.reset(keep_alloc)` on a plain signal -/
def resetPlain (w : World) (i : Nat) (ka : Option Bool) : World × Option Err :=
  match (w.sigs i).sens with
  | .none => (w, Option.none)
  | cur =>
    if ka.getD (w.sigs i).keepAlloc then
      match cur.asView w.heap with
      | some (r, idx, _) =>                                 -- self.sensitivity[...] = 0
        ({ w with heap := w.heap.write r idx (List.replicate idx.length 0) }, Option.none)
      | Option.none =>                                      -- TypeError → self.sensitivity *= 0
        match cur with
        | .sc c _ => (w.setSens i (.sc c 0), Option.none)
        | .npsc c _ => (w.setSens i (.npsc c 0), Option.none)
        | _ => (w.setSens i .none, Option.none)
    else (w.setSens i .none, Option.none)

/-- `SignalSlice.reset(keep_alloc)` -/
def resetSlice (w : World) (p : SigRef) (sp : SliceSpec) : World × Option Err :=
  match getField .sens w (.slice p sp) with
  | .error e => (w, some e)
  | .ok (w1, .none) => (w1, Option.none)
  | .ok (w1, _) => setSens w1 (.slice p sp) .none

def reset (w : World) : SigRef → Option Bool → World × Option Err
  | .base i, ka => resetPlain w i ka
  | .slice p sp, _ => resetSlice w p sp

/-! ## caller-side operations -/

/-- argument expressions of the caller -/
inductive Arg
  | none
  | sc (cplx : Bool) (x : GI)
  | newArr (cplx : Bool) (shape : List Nat) (vals : List GI)   -- a fresh ndarray, remembered by the caller
  | ext (k : Nat)                                              -- the k-th array created by the caller
  | held (i : Nat) (f : Fld)                                   -- the object currently held by base signal `i`
deriving Repr

def evalArg (w : World) : Arg → World × PVal
  | .none => (w, .none)
  | .sc c x => (w, .sc c x)
  | .newArr c shp vals =>
    let (h', r) := w.heap.alloc ⟨c, shp, vals⟩
    ({ w with heap := h', exts := w.exts ++ [r] }, .arr r)
  | .ext k => (w, .arr (w.exts.getD k 0))
  | .held i f => (w, (w.sigs i).get f)

inductive Op
  | setState (s : SigRef) (a : Arg)
  | setSens (s : SigRef) (a : Arg)
  | add (s : SigRef) (a : Arg)
  | reset (s : SigRef) (ka : Option Bool)
  | mutate (a : Arg) (k : Int)                 -- caller: `obj += k` on an ndarray it can reach
  | newSignal (st : Arg) (se : Arg)            -- `Signal(tag, state, sensitivity)`; keep_alloc = sensitivity is not None
deriving Repr

def step (w : World) : Op → World × Option Err
  | .setState s a => let (w1, v) := evalArg w a; setState w1 s v
  | .setSens s a => let (w1, v) := evalArg w a; setSens w1 s v
  | .add s a => let (w1, v) := evalArg w a; addSens w1 s v
  | .reset s ka => reset w s ka
  | .mutate a k =>
    let (w1, v) := evalArg w a
    match v.asView w1.heap with
    | some (r, idx, _) =>
      ({ w1 with heap := w1.heap.write r idx ((w1.heap.read r idx).map fun x => x + ⟨k, 0⟩) }, Option.none)
    | Option.none => (w1, Option.none)
  | .newSignal st se =>
    let (w1, v) := evalArg w st
    let (w2, s) := evalArg w1 se
    ({ w2 with sigs := fun j => if j = w2.nsig then ⟨v, s, s != .none⟩ else w2.sigs j, nsig := w2.nsig + 1 }, Option.none)

/-- run a whole operation sequence (errors do not stop the caller) -/
def run (w : World) : List Op → World
  | [] => w
  | op :: ops => run (step w op).1 ops

def World.empty : World :=
  ⟨⟨fun _ => ⟨false, [], []⟩, 0⟩, fun _ => ⟨.none, .none, false⟩, 0, []⟩

end PymotoVerif.Signal
