/- registry of all driver handlers -/
import PymotoVerif.Drv.C13
import PymotoVerif.Drv.C03
import PymotoVerif.Drv.C01
import PymotoVerif.Drv.C01b
import PymotoVerif.Drv.C02
import PymotoVerif.Drv.C05
import PymotoVerif.Drv.C06
import PymotoVerif.Drv.C07
import PymotoVerif.Drv.C08
import PymotoVerif.Drv.C09
import PymotoVerif.Drv.C10
import PymotoVerif.Drv.C11
import PymotoVerif.Drv.C12
import PymotoVerif.Drv.C14
import PymotoVerif.Drv.C15
import PymotoVerif.Drv.C16
import PymotoVerif.Drv.C17
import PymotoVerif.Drv.C18
import PymotoVerif.Drv.C19
import PymotoVerif.Drv.C20
namespace PymotoVerif.Drv
open Lean
def allHandlers : List (String × (Json → R Json)) :=
  C13.handlers ++ C03.handlers ++ C01.handlers ++ C01b.handlers ++ C02.handlers ++ C05.handlers ++ C06.handlers ++ C07.handlers ++ C08.handlers ++ C09.handlers ++ C10.handlers ++ C11.handlers ++ C12.handlers ++ C14.handlers ++ C15.handlers ++ C16.handlers ++ C17.handlers ++ C18.handlers ++ C19.handlers ++ C20.handlers
end PymotoVerif.Drv
