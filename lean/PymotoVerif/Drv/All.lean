/- registry of all driver handlers -/
import PymotoVerif.Drv.C13
namespace PymotoVerif.Drv
open Lean
def allHandlers : List (String × (Json → R Json)) :=
  C13.handlers
end PymotoVerif.Drv
