/- registry of all driver handlers -/
import PymotoVerif.Drv.C13
import PymotoVerif.Drv.C03
import PymotoVerif.Drv.C02
import PymotoVerif.Drv.C16
import PymotoVerif.Drv.C18
import PymotoVerif.Drv.C20
namespace PymotoVerif.Drv
open Lean
def allHandlers : List (String × (Json → R Json)) :=
  C13.handlers ++ C03.handlers ++ C02.handlers ++ C16.handlers ++ C18.handlers ++ C20.handlers
end PymotoVerif.Drv
