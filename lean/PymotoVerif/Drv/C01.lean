/- driver handlers for the pointwise-module models of `Core/Pointwise.lean` (C01) -/
import PymotoVerif.Drv.Util
import PymotoVerif.Core.Pointwise
namespace PymotoVerif.Drv.C01
open Lean PymotoVerif PymotoVerif.Drv PymotoVerif.Pointwise

def asCx (v : Json) : R (Cx Rat) := do
  match ← asList asRat v with
  | [a, b] => return ⟨a, b⟩
  | _ => throw "complex number must be [re, im]"
def cxJ (z : Cx Rat) : Json := listJ ratJ [z.re, z.im]

/-- exact models (Rat): MakeComplex / RealPart / ImagPart, entry-wise -/
def cplx (j : Json) : R Json := do
  let k ← getStr j "k"
  match k with
  | "make" =>
    let x ← getList asRat j "x"
    let y ← getList asRat j "y"
    let w ← getList asCx j "w"
    let z := List.zipWith makeComplex x y
    let g := w.map makeComplexSens
    return objJ [("y", listJ cxJ z), ("gx", listJ ratJ (g.map (·.1))), ("gy", listJ ratJ (g.map (·.2)))]
  | "real" =>
    let z ← getList asCx j "z"
    let w ← getList asCx j "w"
    return objJ [("y", listJ ratJ (z.map realPart)), ("g", listJ cxJ (w.map realPartSens))]
  | "imag" =>
    let z ← getList asCx j "z"
    let w ← getList asCx j "w"
    return objJ [("y", listJ ratJ (z.map imagPart)), ("g", listJ cxJ (w.map imagPartSens))]
  | _ => throw s!"bad kind {k}"

def asCxF (v : Json) : R (Cx Float) := do
  match ← asList asFloat v with
  | [a, b] => return ⟨a, b⟩
  | _ => throw "complex number must be [re, im]"

/-- ComplexNorm at Float (sqrt = Float.sqrt) -/
def norm (j : Json) : R Json := do
  let z ← getList asCxF j "z"
  let w ← getList asCxF j "w"
  let y := z.map (complexNorm Float.sqrt)
  let g := List.zipWith (fun (p : Cx Float × Float) (d : Cx Float) => complexNormSens p.2 p.1 d) (z.zip y) w
  return objJ [("y", listJ (fun x => natJ x.toBits.toNat) y),
               ("g", listJ (fun (c : Cx Float) => listJ (fun x => natJ x.toBits.toNat) [c.re, c.im]) g)]

def scaling (j : Json) : R Json := do
  let mode ← getNat j "mode"
  let sf ← getRat j "sf"
  let lim ← getRat j "lim"
  let x ← getList asRat j "x"
  let dy ← getList asRat j "dy"
  if mode ≠ 0 ∧ lim = 0 then throw "ZeroDivisionError"
  return objJ [("y", listJ ratJ (x.map (scalingResp mode sf lim))), ("g", listJ ratJ (dy.map (scalingSens mode sf lim)))]

def concatH (j : Json) : R Json := do
  let xs ← getList (asList asRat) j "xs"
  let dy ← getList asRat j "dy"
  let lens := xs.map List.length
  let n := lens.foldl (· + ·) 0
  let xf : Nat → Nat → Rat := fun i k => (xs.getD i []).getD k 0
  let y := tab n (concat lens xf)
  let g := (List.range lens.length).map (fun i => tab (lens.getD i 0) (concatSens lens (ofList dy) i))
  return objJ [("y", listJ ratJ y), ("g", listJ (listJ ratJ) g)]

def handlers : List (String × (Json → R Json)) :=
  [("c01.cplx", cplx), ("c01.norm", norm), ("c01.scaling", scaling), ("c01.concat", concatH)]
end PymotoVerif.Drv.C01
