/- driver handlers for `Core/Einsum.lean` (C01: EinSum and the reverse broadcast of MathGeneral), run at `Cx Rat` -/
import PymotoVerif.Drv.Util
import PymotoVerif.Drv.C01
import PymotoVerif.Core.Einsum
namespace PymotoVerif.Drv.C01b
open Lean PymotoVerif PymotoVerif.Drv PymotoVerif.Pointwise PymotoVerif.Einsum

def lettersOf (s : String) : List Nat := s.toList.map Char.toNat

def cxTab (n : Nat) (f : Nat → Cx Rat) : Json := listJ C01.cxJ (tab n f)

def cxFn (l : List (Cx Rat)) : Nat → Cx Rat := fun i => l.getD i ⟨0, 0⟩

/-- `{"ins":["ij","j"],"out":"i","shapes":[[3,4],[4]],"x":[[[re,im],…],…],"isC":[…],"w":[[re,im],…],"wC":bool}`
    → `{"y":[…],"sens":[{"c":bool,"v":[…]},…]}` or `{"y":[…],"senserr":"TypeError"}`; a rejected expression is an error -/
def einsumH (j : Json) : R Json := do
  let ins ← getList (fun v => match v.getStr? with | .ok s => pure s | .error _ => throw "ins: not a string") j "ins"
  let outS ← getStr j "out"
  let shapes ← getList (asList asNat) j "shapes"
  let xs ← getList (asList C01.asCx) j "x"
  let isC ← getList (fun v => match v.getBool? with | .ok b => pure b | .error _ => throw "isC: not a bool") j "isC"
  let w ← getList C01.asCx j "w"
  let wC ← getBool j "wC"
  let lss := ins.map lettersOf
  let out := lettersOf outS
  if xs.length ≠ lss.length then throw "ValueError"
  let dim ← checkExpr lss shapes out
  let ops : List (Operand (Cx Rat)) := (lss.zip xs).map (fun p => ⟨p.1, cxFn p.2⟩)
  let y := cxTab (size dim out) (response dim ops out)
  match sensitivity dim ops isC out (cxFn w) wC with
  | .error e => return objJ [("y", y), ("senserr", Json.str e)]
  | .ok gs =>
    let sens := (gs.zip lss).map (fun p => objJ [("c", Json.bool p.1.cplx), ("v", cxTab (size dim p.2) p.1.val)])
    return objJ [("y", y), ("sens", Json.arr sens.toArray)]

/-- `{"s":[…],"S":[…],"inC":bool,"addC":bool,"dfdy":[[re,im],…],"dg":[[re,im],…],"x":[[re,im],…]}`
    → `{"c":bool,"g":[…],"b":[…]}` (`b` = `x` of shape `s` broadcast to `S`) -/
def unbroadcastH (j : Json) : R Json := do
  let s ← getList asNat j "s"
  let S ← getList asNat j "S"
  let inC ← getBool j "inC"
  let addC ← getBool j "addC"
  let dfdy ← getList C01.asCx j "dfdy"
  let dg ← getList C01.asCx j "dg"
  let x ← getList C01.asCx j "x"
  if dfdy.length ≠ prodL S ∨ dg.length ≠ prodL S ∨ x.length ≠ prodL s then throw "bad sizes"
  if s.length > S.length then throw "Unsupported"
  match mathGeneralSens s S inC addC (cxFn dfdy) (cxFn dg) with
  | none => throw "ValueError"
  | some (c, g) =>
    return objJ [("c", Json.bool c), ("g", cxTab (prodL s) g),
                 ("b", cxTab (prodL S) (fun K => cxFn x (bcastIdx s S K)))]

def handlers : List (String × (Json → R Json)) :=
  [("c01.einsum", einsumH), ("c01.unbroadcast", unbroadcastH)]
end PymotoVerif.Drv.C01b
