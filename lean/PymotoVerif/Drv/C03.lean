/- driver handler for the C03 component model: a toy caching component over integer vectors, run through
   `Component.run`; used to validate that `step` matches the real Module/Signal dispatch of core_objects.py -/
import PymotoVerif.Drv.Util
import PymotoVerif.Core.Component
namespace PymotoVerif.Drv.C03
open Lean PymotoVerif PymotoVerif.Drv PymotoVerif.Component

abbrev V := List Int
instance : Add V := ⟨fun a b => List.zipWith (· + ·) a b⟩

/-- toy module: cache `k = x*x` (element-wise) written by response, output `y = a*x + k_prev_independent b`;
    sensitivity reads the cache: `g = k*w + x` -/
def toy (a b : Int) : Comp V V V V V :=
  ⟨[], fun _ x => (x.map (fun t => t * t), x.map (fun t => a * t + b)),
       fun c x w => (c, List.zipWith (· + ·) (List.zipWith (· * ·) c w) x)⟩

def parseOp (j : Json) : R (Op V V) := do
  let k ← getStr j "op"
  match k with
  | "set" => return .setInput (← getList asInt j "x")
  | "response" => return .response
  | "seed" => return .seed (← getList asInt j "w")
  | "sensitivity" => return .sensitivity
  | "reset" => return .reset
  | _ => throw s!"bad op {k}"

def optJ (o : Option V) : Json := match o with
  | none => Json.null
  | some v => listJ intJ v

def obsJ (s : St V V V V V) : Json :=
  objJ [("x", listJ intJ s.x), ("y", optJ s.y), ("w", optJ s.w), ("g", optJ s.g)]

def history (j : Json) : R Json := do
  let a ← getInt j "a"
  let b ← getInt j "b"
  let x0 ← getList asInt j "x0"
  let ops ← getList parseOp j "ops"
  let M := toy a b
  let (_, outs) := ops.foldl (fun (acc : St V V V V V × List Json) op =>
      let s' := step M acc.1 op
      (s', acc.2 ++ [obsJ s'])) (start M x0, [])
  return Json.arr outs.toArray

def handlers : List (String × (Json → R Json)) := [("c03.history", history)]
end PymotoVerif.Drv.C03
