/- driver handlers for C05 (`LA/Solvers.lean`, `LA/CG.lean`).
   Scalars: `ℚ` for real data, the Gaussian rationals `QI` for complex data (JSON: `[re, im]`).
   The external routines of the models are instantiated here with exact algorithms:
   triangular substitution (reads only the triangle scipy reads), Gauss–Jordan inverse, integer square roots. -/
import PymotoVerif.Drv.Util
import PymotoVerif.LA.CG
import Mathlib.Algebra.Star.Rat
import Mathlib.Tactic.Ring

namespace PymotoVerif.Drv.C05
open Lean PymotoVerif PymotoVerif.Drv PymotoVerif.LA Matrix

/-! ### Gaussian rationals -/
structure QI where
  re : ℚ
  im : ℚ
  deriving DecidableEq

namespace QI
instance : Add QI := ⟨fun a b => ⟨a.re + b.re, a.im + b.im⟩⟩
instance : Sub QI := ⟨fun a b => ⟨a.re - b.re, a.im - b.im⟩⟩
instance : Neg QI := ⟨fun a => ⟨-a.re, -a.im⟩⟩
instance : Mul QI := ⟨fun a b => ⟨a.re * b.re - a.im * b.im, a.re * b.im + a.im * b.re⟩⟩
instance : Zero QI := ⟨⟨0, 0⟩⟩
instance : One QI := ⟨⟨1, 0⟩⟩
instance : Star QI := ⟨fun a => ⟨a.re, -a.im⟩⟩
instance : Inhabited QI := ⟨0⟩
/-- complex division `a / b = a * conj b / |b|²` (`0` for `b = 0`; never used by the handlers) -/
instance : Div QI := ⟨fun a b =>
  let d := b.re * b.re + b.im * b.im
  ⟨(a.re * b.re + a.im * b.im) / d, (a.im * b.re - a.re * b.im) / d⟩⟩
theorem add_def (a b : QI) : a + b = ⟨a.re + b.re, a.im + b.im⟩ := rfl
theorem zero_def : (0 : QI) = ⟨0, 0⟩ := rfl
instance : AddCommMonoid QI where
  add_assoc a b c := by simp only [add_def, QI.mk.injEq]; constructor <;> ring
  zero_add a := by cases a; simp [add_def, zero_def]
  add_zero a := by cases a; simp [add_def, zero_def]
  add_comm a b := by simp only [add_def, QI.mk.injEq]; constructor <;> ring
  nsmul := nsmulRec
end QI

/-! ### scalar codecs -/
structure Ops (α : Type) where
  parse : Json → R α
  toJ : α → Json
  lt : α → α → Bool        -- numpy `<` (lexicographic for complex)
  sqrt : α → α             -- `np.sqrt` (applied to non-negative reals only)
  absSq : α → ℚ
  ofRat : ℚ → α
  reP : α → α             -- `.real` as an element of the dtype
  imP : α → α             -- `.imag`
  I : α                   -- imaginary unit (0 for the real dtype, never used there)
  cplx : Bool

def isqrtAux (n : Nat) : Nat → Nat → Nat
  | 0, x => x
  | f + 1, x => let y := (x + n / x) / 2; if y < x then isqrtAux n f y else x
/-- ⌊√n⌋ -/
def isqrt (n : Nat) : Nat := if n = 0 then 0 else isqrtAux n (n.log2 + 2) (2 ^ (n.log2 / 2 + 1))
/-- rational approximation of `√q` with relative error below `2⁻⁹⁰` -/
def sqrtRat (q : ℚ) : ℚ :=
  if q ≤ 0 then 0 else
    let S : Nat := 2 ^ 100
    ((isqrt (q.num.toNat * q.den * S * S) : Nat) : ℚ) / ((q.den * S : Nat) : ℚ)

def opsQ : Ops ℚ :=
  { parse := asRat, toJ := ratJ, lt := fun a b => decide (a < b), sqrt := sqrtRat, absSq := fun a => a * a,
    ofRat := id, reP := id, imP := fun _ => 0, I := 0, cplx := false }

def parseQI (v : Json) : R QI := do
  let a ← asArr v
  if a.size ≠ 2 then throw "complex number must be [re, im]"
  return ⟨← asRat a[0]!, ← asRat a[1]!⟩

def opsQI : Ops QI :=
  { parse := parseQI, toJ := fun z => Json.arr #[ratJ z.re, ratJ z.im],
    lt := fun a b => decide (a.re < b.re) || (decide (a.re = b.re) && decide (a.im < b.im)),
    sqrt := fun z => ⟨sqrtRat z.re, 0⟩, absSq := fun z => z.re * z.re + z.im * z.im,
    ofRat := fun q => ⟨q, 0⟩, reP := fun z => ⟨z.re, 0⟩, imP := fun z => ⟨z.im, 0⟩, I := ⟨0, 1⟩, cplx := true }

/-! ### generic helpers -/
section generic
variable {α : Type} [Mul α] [AddCommMonoid α] [Star α] [Sub α] [Neg α] [Div α] [One α] [DecidableEq α] [Inhabited α]

def parseMat (o : Ops α) (v : Json) : R (Array (Array α)) := do
  let rows ← asArr v
  rows.mapM fun r => do (← asArr r).mapM o.parse

def getMat (o : Ops α) (j : Json) (key : String) (n k : ℕ) : R (Mat n k α) := do
  let a ← parseMat o (← getField j key)
  if a.size ≠ n then throw s!"{key}: expected {n} rows"
  if a.any (fun r => r.size ≠ k) then throw s!"{key}: expected {k} columns"
  return fun i jj => (a[i.1]!)[jj.1]!

def matJ (o : Ops α) {n k : ℕ} (M : Mat n k α) : Json :=
  listJ (fun i => listJ (fun jj => o.toJ (M i jj)) (List.finRange k)) (List.finRange n)

def toArr {n k : ℕ} (M : Mat n k α) : Array (Array α) := Array.ofFn fun i => Array.ofFn fun j => M i j
def ofArr {n k : ℕ} (a : Array (Array α)) : Mat n k α := fun i j => (a[i.1]!)[j.1]!

/-- `scipy.linalg.solve_triangular`: substitution that reads only the referenced triangle of `M`
    (and not the diagonal when `unit_diagonal`) -/
def triImpl {n k : ℕ} (M : Mat n n α) (lower unitDiag : Bool) (t : Trans) (B : Mat n k α) : Mat n k α :=
  let m := toArr M
  let b := toArr B
  -- entry (i, j) of op_t(M)
  let e : Nat → Nat → α := fun i j => match t with
    | .N => (m[i]!)[j]!
    | .T => (m[j]!)[i]!
    | .H => star ((m[j]!)[i]!)
  let effLower := if t = .N then lower else !lower
  let order : List Nat := if effLower then List.range n else (List.range n).reverse
  let cols : Array (Array α) := Array.ofFn (n := k) fun c =>
    order.foldl (fun (x : Array α) i =>
      let s := order.foldl (fun s j =>
        if (effLower && j < i) || (!effLower && i < j) then s + e i j * x[j]! else s) 0
      let v := (b[i]!)[c.1]! - s
      x.set! i (if unitDiag then v else v / e i i)) (Array.replicate n default)
  fun i j => (cols[j.1]!)[i.1]!

/-- is `M` what the flags of `solve_triangular` claim (so that the contract `op(M) x = b` holds for `triImpl`)? -/
def checkTri {n : ℕ} (M : Mat n n α) (lower unitDiag : Bool) : Bool :=
  (List.finRange n).all fun i => (List.finRange n).all fun j =>
    if i = j then (if unitDiag then decide (M i j = 1) else decide (M i j ≠ 0))
    else if (lower && i < j) || (!lower && j < i) then decide (M i j = 0) else true

/-- Gauss–Jordan inverse; `none` for a singular matrix -/
def gaussInv {n : ℕ} (M : Mat n n α) : Option (Mat n n α) := Id.run do
  let mut a : Array (Array α) := Array.ofFn (n := n) fun i =>
    Array.ofFn (n := 2 * n) fun j => if j.1 < n then M i ⟨j.1 % n, Nat.mod_lt _ i.pos⟩ else (if j.1 - n = i.1 then 1 else 0)
  for c in List.range n do
    -- pivot search
    let mut piv : Option Nat := none
    for r in List.range n do
      if piv.isNone && c ≤ r && (a[r]!)[c]! ≠ 0 then piv := some r
    match piv with
    | none => return none
    | some r =>
      let rowR := a[r]!
      let rowC := a[c]!
      a := (a.set! r rowC).set! c rowR
      let pv := rowR[c]!
      let nrow := rowR.map (fun v => v / pv)
      a := a.set! c nrow
      for r2 in List.range n do
        if r2 ≠ c then
          let f := (a[r2]!)[c]!
          if f ≠ 0 then
            let row2 := a[r2]!
            a := a.set! r2 (Array.ofFn (n := 2 * n) fun j => row2[j.1]! - f * nrow[j.1]!)
  let res := a
  return some (fun i j => (res[i.1]!)[n + j.1]!)

def transOf (s : String) : R Trans :=
  match denseTrans s with
  | .ok t => .ok t
  | .error e => .error e

def getPerm (j : Json) (key : String) (n : ℕ) : R (Fin n → Fin n) := do
  let l ← getList asNat j key
  if l.length ≠ n then throw s!"{key}: expected {n} entries"
  if h : 0 < n then
    if l.any (fun v => n ≤ v) then throw "IndexError"
    let a := l.toArray
    return fun i => ⟨a[i.1]! % n, Nat.mod_lt _ h⟩
  else return fun i => i

/-! ### direct solvers -/
def ldlState (o : Ops α) (j : Json) (n : ℕ) (A : Option (Mat n n α)) : R (LDLState α n × Bool) := do
  let l ← getMat o j "l" n n
  let d ← getMat o j "d" n n
  let p ← getPerm j "p" n
  let flagJ ← getField j "hermitian"
  let flag : Option Bool := match flagJ.getBool? with
    | .ok b => some b
    | .error _ => none
  let A' : Mat n n α ← match A, flag with
    | some A, _ => pure A
    | none, some _ => pure (0 : Mat n n α)
    | none, none => throw "hermitian=None needs the matrix A"
  let invOk := (gaussInv d).isSome
  let st := updateLDL o.cplx (fun _ _ => (l, d, p)) (fun M => (gaussInv M).getD 0) flag A'
  if !checkTri st.lp true true then throw "contract: l[p,:] is not unit lower triangular"
  if !(isDiagonal d) && !invOk then throw "contract: d is singular"
  return (st, st.hermitian)

def direct (o : Ops α) (j : Json) : R Json := do
  let solver ← getStr j "solver"
  let n ← getNat j "n"
  let k ← getNat j "k"
  let B ← getMat o j "B" n k
  let tri : TriSolve α n k := triImpl
  let ts ← getStr j "trans"
  match solver with
  | "diag" =>
    let t ← transOf ts     -- SolverDiagonal itself never rejects a mode string; the harness sends N/T/H only
    let dl ← getList o.parse j "diag"
    if dl.length ≠ n then throw "diag: wrong length"
    let da := dl.toArray
    let d : Fin n → α := fun i => da[i.1]!
    if (← getBool j "vec") then
      if hk : k = 1 then
        let x := solveDiagVec d t (fun i => B i ⟨0, by omega⟩)
        return objJ [("x", matJ o (fun i (_ : Fin 1) => x i))]
      else throw "vec needs k = 1"
    else
      return objJ [("x", matJ o (solveDiag d t B))]
  | "qr" =>
    let t ← transOf ts
    let q ← getMat o j "q" n n
    let r ← getMat o j "r" n n
    if !checkTri r false false then throw "contract: r is not invertible upper triangular"
    return objJ [("x", matJ o (solveQR tri q r t B))]
  | "lu" =>
    let t ← transOf ts
    let p ← getMat o j "p" n n
    let l ← getMat o j "l" n n
    let u ← getMat o j "u" n n
    if !checkTri l true true then throw "contract: l is not unit lower triangular"
    if !checkTri u false false then throw "contract: u is not invertible upper triangular"
    return objJ [("x", matJ o (solveLU tri p l u t B))]
  | "ldl" =>
    let t ← transOf ts
    let A : Option (Mat n n α) ← match (← getField j "A") with
      | Json.null => pure none
      | _ => do pure (some (← getMat o j "A" n n))
    let (st, herm) ← ldlState o j n A
    return objJ [("x", matJ o (solveLDL tri st t B)), ("hermitian", Json.bool herm)]
  | "chol" =>
    let t ← transOf ts
    let A ← getMat o j "A" n n
    let Uj ← getField j "U"
    match Uj with
    | Json.null =>
      -- scipy.linalg.cholesky raised LinAlgError: the LDL back-up solver is updated
      let (st0, _) ← ldlState o j n (some A)
      let cs := updateChol o.cplx (fun _ => none) (fun _ _ => (st0.l, st0.d, st0.p))
        (fun M => (gaussInv M).getD 0) none A
      match solveChol tri cs t B with
      | .ok x => return objJ [("x", matJ o x), ("success", Json.bool cs.success),
          ("hermitian", Json.bool ((cs.backup.map (·.hermitian)).getD false))]
      | .error e => throw e
    | _ =>
      let U ← getMat o j "U" n n
      if !checkTri U false false then throw "contract: U is not invertible upper triangular"
      let cs := updateChol o.cplx (fun _ => some U) (fun _ _ => (0, 0, id)) (fun M => M) none A
      match solveChol tri cs t B with
      | .ok x => return objJ [("x", matJ o x), ("success", Json.bool cs.success)]
      | .error e => throw e
  | "sparselu" =>
    let A ← getMat o j "A" n n
    let splu : Trans → Mat n k α → Mat n k α := fun t B => ((gaussInv (opT t A)).getD 0) * B
    if (gaussInv A).isNone then throw "contract: A is singular"
    let iscA ← getBool j "iscomplexA"
    let rhsC ← getBool j "rhs_complex"
    if !iscA && !((List.finRange n).all fun i => (List.finRange n).all fun jj => decide (o.imP (A i jj) = o.imP 0)) then
      throw "contract: iscomplexA = false but A has an imaginary part"
    match solveSparseLU splu iscA rhsC (fun i jj => o.reP (B i jj)) (fun i jj => o.imP (B i jj)) o.I ts B with
    | .ok x => return objJ [("x", matJ o x)]
    | .error e => throw e
  | _ => throw s!"unknown solver {solver}"

/-- one `SolverDenseCholesky` object re-used: `updates` is the sequence of `update(A_i)` calls (all of size `n`) with the
    scipy results observed on the real object (`U`, or `null` = LinAlgError together with the back-up's `l d p`);
    then one `solve(B, trans)` on the final state -/
def cholHist (o : Ops α) (j : Json) : R Json := do
  let n ← getNat j "n"
  let k ← getNat j "k"
  let B ← getMat o j "B" n k
  let t ← transOf (← getStr j "trans")
  let ups ← getArr j "updates"
  let mut st : Option (CholState α n) := none
  for u in ups do
    let A ← getMat o u "A" n n
    match (← getField u "U") with
    | Json.null =>
      let l ← getMat o u "l" n n
      let d ← getMat o u "d" n n
      let p ← getPerm u "p" n
      let s' := updateChol o.cplx (fun _ => none) (fun _ _ => (l, d, p)) (fun M => (gaussInv M).getD 0) st A
      match s'.backup with
      | some b =>
        if !checkTri b.lp true true then throw "contract: l[p,:] is not unit lower triangular"
        if !(isDiagonal d) && (gaussInv d).isNone then throw "contract: d is singular"
      | none => throw "internal: no back-up state"
      st := some s'
    | _ =>
      let U ← getMat o u "U" n n
      if !checkTri U false false then throw "contract: U is not invertible upper triangular"
      st := some (updateChol o.cplx (fun _ => some U) (fun _ _ => (0, 0, id)) (fun M => M) st A)
  match st with
  | none => throw "AttributeError"
  | some cs =>
    match solveChol (triImpl : TriSolve α n k) cs t B with
    | .ok x => return objJ [("x", matJ o x), ("success", Json.bool cs.success),
        ("hermitian", match cs.backup with
          | some b => Json.bool b.hermitian
          | none => Json.null)]
    | .error e => throw e

/-! ### CG -/
def normImpl (o : Ops α) {n : ℕ} (v : Fin n → α) : ℚ :=
  sqrtRat ((List.finRange n).foldl (fun s i => s + o.absSq (v i)) 0)

def getPrecond (o : Ops α) (pj : Json) {n : ℕ} (k : ℕ) (A : Mat n n α) (t : Trans) : R (Mat n k α → Mat n k α) := do
  let kind ← getStr pj "kind"
  match kind with
  | "id" => return precIdentity
  | "jacobi" =>
    let w ← o.parse (← getField pj "w")
    return precJacobi w (diagOf A) t
  | "sor" =>
    let w ← o.parse (← getField pj "w")
    return precSOR triImpl A w t
  | "matrix" =>
    let M ← getMat o pj "M" n n
    return precMatrix M
  | "mg" =>
    let nc ← getNat pj "nc"
    let R ← getMat o pj "R" n nc
    let w ← o.parse (← getField pj "w")
    let steps ← getNat pj "steps"
    let AR : Mat n nc α := ofArr (toArr (A * R))
    let Ac : Mat nc nc α := ofArr (toArr (Rᵀ * AR))
    match gaussInv Ac with
    | none => throw "contract: coarse matrix singular"
    | some Aci =>
      let Acim : Mat nc nc α := ofArr (toArr Aci)
      return mgSolve A (opT t A) R (precJacobi w (diagOf A) t) (fun rc => Acim * rc) steps
  | _ => throw s!"unknown preconditioner {kind}"

def cg (o : Ops α) (j : Json) : R Json := do
  let n ← getNat j "n"
  let k ← getNat j "k"
  let A ← getMat o j "A" n n
  let b ← getMat o j "b" n k
  let t ← transOf (← getStr j "trans")
  let x0 : Option (Mat n k α) ← match (← getField j "x0") with
    | Json.null => pure none
    | _ => do pure (some (← getMat o j "x0" n k))
  let Aop : Mat n n α := ofArr (toArr (opT t A))
  let prec ← getPrecond o (← getField j "precond") k A t
  let c : CGConfig α ℚ n k :=
    { A := Aop, precond := prec, inv := fun _ M => gaussInv M, sqrt := o.sqrt, lt := o.lt,
      zeroRtol := o.ofRat (← getRat j "zero_rtol"), norm := normImpl o, tol := ← getRat j "tol",
      maxit := ← getNat j "maxit", restart := ← getNat j "restart" }
  match cgSolve c b x0 with
  | .error e => throw e
  | .ok res =>
    let relres : List ℚ := (List.finRange k).map fun jj => normImpl o (fun i => res.r i jj) / bnorm c b jj
    -- per iterate: is some (but not every) column of the exact residual `b − A x` exactly zero?
    let rzero : List Bool := res.trace.map fun x =>
      let r : Array (Array α) := toArr (b - Aop * x)
      let zc := (List.range k).map fun jj => (List.range n).all fun i => decide ((r[i]!)[jj]! = 0)
      zc.any id && !zc.all id
    return objJ [("x", matJ o res.x), ("converged", Json.bool res.converged), ("iters", natJ res.iters),
      ("trace", listJ (matJ o) res.trace), ("relres", listJ ratJ relres), ("rzero", listJ Json.bool rzero)]

/-- `orth(u, normalize, zero_rtol)` on a 2-D array -/
def orthH (o : Ops α) (j : Json) : R Json := do
  let n ← getNat j "n"
  let k ← getNat j "k"
  let u ← getMat o j "u" n k
  let normalize ← getBool j "normalize"
  match orth normalize o.sqrt o.lt (o.ofRat (← getRat j "zero_rtol")) u with
  | .error e => throw e
  | .ok p => return objJ [("v", matJ o (colsToMat p)), ("ncols", natJ p.length)]

/-! ### auto_determine_solver -/
def classJ : SolverClass → Json
  | .Diagonal => Json.str "SolverDiagonal"
  | .DenseQR => Json.str "SolverDenseQR"
  | .DenseLU => Json.str "SolverDenseLU"
  | .DenseCholesky => Json.str "SolverDenseCholesky"
  | .DenseLDL h => Json.str (if h then "SolverDenseLDL:hermitian" else "SolverDenseLDL:symmetric")
  | .SparseLU => Json.str "SolverSparseLU"

def optBool (j : Json) (key : String) : Option Bool :=
  match j.getObjVal? key with
  | .ok v => match v.getBool? with
    | .ok b => some b
    | .error _ => none
  | .error _ => none

def auto (o : Ops α) (j : Json) : R Json := do
  let n ← getNat j "n"
  let A ← getMat o j "A" n n
  let sparse ← getBool j "sparse"
  let det := detectFlags (α := α) o.lt sparse o.cplx A
  let diag := (optBool j "isdiagonal").getD det.diagonal
  if diag then return objJ [("class", classJ (autoDetermine { det with diagonal := true }))]
  match resolveSym o.cplx (optBool j "ishermitian") (optBool j "issymmetric") det.hermitian det.symmetric with
  | .error e => throw e
  | .ok (h, s) =>
    let f : Flags := { det with diagonal := false, hermitian := h, symmetric := s }
    return objJ [("class", classJ (autoDetermine f)), ("hermitian", Json.bool h), ("symmetric", Json.bool s),
      ("posdiag", Json.bool f.posDiag)]
end generic

/-- `setup_interpolation`: dense interpolation matrix -/
def interp (j : Json) : R Json := do
  let d : Domain.Dom := ⟨← getNat j "nelx", ← getNat j "nely", ← getNat j "nelz"⟩
  let ndof ← getNat j "ndof"
  let coarse : Domain.Dom := ⟨d.nelx / 2, d.nely / 2, d.nelz / 2⟩
  let nf := d.nnodes * ndof
  let nc := coarse.nnodes * ndof
  -- accumulate the triplets (duplicates summed) — same result as `mgInterp`, evaluated in one pass
  let trip := mgTriplets (α := ℚ) d ndof
  let mut a : Array (Array ℚ) := Array.replicate nf (Array.replicate nc 0)
  for (r, c, v) in trip do
    if r < nf && c < nc then
      a := a.set! r ((a[r]!).set! c ((a[r]!)[c]! + v))
    else throw "IndexError"
  -- spot check of the one-pass accumulation against the model definition `mgInterp`
  let chk := (List.range (min nf 3)).all fun r => (List.range nc).all fun c => decide (mgInterp (α := ℚ) d ndof r c = (a[r]!)[c]!)
  if !chk then throw "internal: accumulation differs from mgInterp"
  return objJ [("nf", natJ nf), ("nc", natJ nc), ("R", listJ (fun row => listJ ratJ row.toList) a.toList),
    ("ntriplets", natJ trip.length)]

def byDtype (fq : Ops ℚ → Json → R Json) (fc : Ops QI → Json → R Json) (j : Json) : R Json := do
  if (← getBool j "cplx") then fc opsQI j else fq opsQ j

def handlers : List (String × (Json → R Json)) :=
  [("c05.direct", byDtype direct direct), ("c05.cg", byDtype cg cg), ("c05.orth", byDtype orthH orthH),
   ("c05.auto", byDtype auto auto), ("c05.interp", interp), ("c05.chol_hist", byDtype cholHist cholHist)]
end PymotoVerif.Drv.C05
