/- driver handlers for the C06 model (`LA/LDAS.lean`): one line = one complete history of
   update/solve operations, run at `ℚ` (`"field":"Q"`) or at the Gaussian rationals (`"field":"QI"`).
   The inner solver is exact Gauss–Jordan elimination; its contract `M·x = b` is checked at run time
   for every column it was asked to solve. -/
import PymotoVerif.Drv.Util
import PymotoVerif.LA.LDAS
import Mathlib.Algebra.QuadraticAlgebra.Defs
namespace PymotoVerif.Drv.C06
open Lean PymotoVerif PymotoVerif.Drv PymotoVerif.LDAS Matrix

/-- Gaussian rationals `ℚ(i)`: `i² = -1 + 0·i` -/
abbrev GQ := QuadraticAlgebra ℚ (-1) 0

instance : Div GQ where
  div z w :=
    let nn := w.re * w.re + w.im * w.im
    ⟨(z.re * w.re + z.im * w.im) / nn, (z.im * w.re - z.re * w.im) / nn⟩

def cfgQ (tol : ℚ) : Cfg ℚ :=
  { cj := id, re := id, im := fun _ => 0, lt := fun a b => decide (a < b), tol2 := tol * tol,
    eps2 := 1 / (10 : ℚ) ^ 20, scale := fun _ => 1 }

def cfgQI (tol : ℚ) : Cfg GQ :=
  { cj := fun z => ⟨z.re, -z.im⟩, re := fun z => ⟨z.re, 0⟩, im := fun z => ⟨z.im, 0⟩,
    lt := fun a b => decide (a.re < b.re), tol2 := ⟨tol * tol, 0⟩,
    eps2 := ⟨1 / (10 : ℚ) ^ 20, 0⟩, scale := fun _ => 1 }

section generic
variable {α : Type} [CommRing α] [Div α] [DecidableEq α]

/-- Gauss–Jordan elimination with first-non-zero pivoting; `none` for a singular matrix -/
def gaussSolve (n : Nat) (A : Array (Array α)) (b : Array α) : Option (Array α) := Id.run do
  let _ : Inhabited α := ⟨0⟩
  let mut M : Array (Array α) := (Array.range n).map fun i => (A[i]!).push (b[i]!)
  for col in [0:n] do
    let mut piv : Option Nat := none
    for r in [col:n] do
      if piv.isNone && (M[r]!)[col]! ≠ 0 then piv := some r
    match piv with
    | none => return none
    | some p =>
      let rp := M[p]!
      let rc := M[col]!
      M := (M.set! p rc).set! col rp
      let pv := rp[col]!
      let prn := rp.map fun a => a / pv
      M := M.set! col prn
      for r in [0:n] do
        if r ≠ col then
          let f := (M[r]!)[col]!
          if f ≠ 0 then
            M := M.set! r (Array.zipWith (fun a q => a - f * q) (M[r]!) prn)
  return some (M.map fun row => row[n]!)

def matArr {n : Nat} (A : Mat n α) : Array (Array α) :=
  (Array.ofFn fun i : Fin n => Array.ofFn fun j : Fin n => A i j)

/-- the exact inner solver handed to the model (zero vector where the matrix is singular; singular
    matrices are rejected before the history is run) -/
def innerExact {n : Nat} (c : Cfg α) (A : Mat n α) (adj : Bool) (b : Vec n α) (_x0 : Option (Vec n α)) : Vec n α :=
  let _ : Inhabited α := ⟨0⟩
  let M := if adj then adjM c A else A
  match gaussSolve n (matArr M) (Array.ofFn b) with
  | some x => fun i => x[i.val]!
  | none => fun _ => 0

def vecOf (n : Nat) (l : List α) : Vec n α :=
  let _ : Inhabited α := ⟨0⟩
  let a := l.toArray
  fun i => a[i.val]!

def parseVec (num : Json → R α) (n : Nat) (v : Json) : R (Vec n α) := do
  let l ← asList num v
  if l.length ≠ n then throw "ValueError"
  return vecOf n l

def parseMat (num : Json → R α) (n : Nat) (v : Json) : R (Mat n α) := do
  let rows ← asList (fun r => asList num r) v
  if rows.length ≠ n || rows.any (fun r => r.length ≠ n) then throw "ValueError"
  let _ : Inhabited α := ⟨0⟩
  let a := rows.toArray.map (·.toArray)
  return Matrix.of fun i j => (a[i.val]!)[j.val]!

def parseBlk (num : Json → R α) (n : Nat) (v : Json) : R ((k : Nat) × Blk n k α) := do
  let cols ← asList (fun r => parseVec num n r) v
  let _ : Inhabited (Vec n α) := ⟨fun _ => 0⟩
  let a := cols.toArray
  return ⟨a.size, fun j => a[j.val]!⟩

def optBool (j : Json) (k : String) : R (Option Bool) :=
  match j.getObjVal? k with
  | .ok (.bool b) => .ok (some b)
  | .ok .null => .ok none
  | .error _ => .ok none
  | _ => .error s!"field {k}: not a bool or null"

def parseTrans : String → Trans
  | "N" => .N | "T" => .T | "H" => .H | _ => .other

def parseOp (num : Json → R α) (n : Nat) (j : Json) : R (Op n α) := do
  match ← getStr j "op" with
  | "update" =>
    return .update (← parseMat num n (← getField j "A")) (← getBool j "cplx")
  | "solve" =>
    let ⟨k, rhs⟩ ← parseBlk num n (← getField j "rhs")
    let rc ← getBool j "cplx"
    let tr := parseTrans (← getStr j "trans")
    let x0 : Option (Blk n k α × Bool) ← match j.getObjVal? "x0" with
      | .ok .null => pure none
      | .error _ => pure none
      | .ok o => do
        let ⟨k', X⟩ ← parseBlk num n (← getField o "v")
        if h : k' = k then pure (some (h ▸ X, ← getBool o "cplx")) else throw "ValueError"
    return .solve k rhs rc x0 tr
  | s => throw s!"unknown op {s}"

def vecJ {n : Nat} (out : α → Json) (v : Vec n α) : Json := listJ out ((List.finRange n).map v)
def blkJ {n k : Nat} (out : α → Json) (B : Blk n k α) : Json := listJ (vecJ out) ((List.finRange k).map B)
def boolsJ {k : Nat} (f : Fin k → Bool) : Json := listJ Json.bool ((List.finRange k).map f)
def obJ : Option Bool → Json
  | some b => Json.bool b
  | none => Json.null

def errJ : Err → Json
  | .typeError => Json.str "TypeError"
  | .attributeError => Json.str "AttributeError"

/-- run the history op by op (same `step` as `LDAS.run`), emitting the observables and checking the
    inner solver's contract on every column it solved -/
def runOps {n : Nat} (c : Cfg α) (out : α → Json) (ratio : α → α → Json) :
    State n α → List (Op n α) → R (List Json)
  | _, [] => pure []
  | s, op :: ops => do
    let (s', r) := step c (innerExact c) s op
    let o ← match r, op with
      | .updated, .update A _ =>
        -- the exact inner solver must exist: reject singular matrices
        match gaussSolve n (matArr A) (Array.replicate n 0) with
        | none => throw "Singular"
        | some _ => pure (objJ [("sym", obJ s'.sym), ("herm", obJ s'.herm), ("diag", boolsJ s'.diag)])
      | .failed e, _ => pure (objJ [("err", errJ e)])
      | .solved k o, .solve _ _ rhsC _ tr =>
        -- contract of the inner solver, checked at run time: M · inner(rem_j) = rem_j on solved columns
        match s.A with
        | none => throw "internal: solved without matrix"
        | some A =>
          let bad := (List.finRange k).any fun j =>
            o.did j && (
              let okN := decide (A *ᵥ innerExact c A false (o.rem j) none = o.rem j)
              let okH := decide (adjM c A *ᵥ innerExact c A true (o.rem j) none = o.rem j)
              !(okN && okH))
          if bad then throw "InnerContract"
          -- per newly solved column: ‖b after orthogonalisation‖² / ‖b before‖² (the quantity the skip test compares with
          -- tol²; reported for the boundary rule of the harness). Re-runs the model's own `orthPair`/`appendOne`.
          let adj := adjointMode s tr
          let M := if adj then adjM c A else A
          let rc := s.Acplx || rhsC
          let didCols := (List.finRange k).filter fun j => o.did j
          let (_, aratio) := didCols.foldl (init := ((if adj then s.dbAdj else s.db), ([] : List Json)))
            fun (acc : List (Pair n α) × List Json) j =>
              let xnew := innerExact c A adj (o.rem j) none
              let st0 : Vec n α × Vec n α := (memo (maskOff s.diag xnew), memo (maskOff s.diag (M *ᵥ xnew)))
              let n0 := ipSel c s.diag st0.2 st0.2
              let o' := orthPair c s.diag acc.1 st0
              let n1 := ipSel c s.diag o'.2 o'.2
              ((appendOne c M s.diag rc acc.1 xnew).1, acc.2 ++ [if n0 = 0 then Json.null else ratio n1 n0])
          pure (objJ [("x", blkJ out o.sol), ("aratio", Json.arr aratio.toArray), ("did", boolsJ o.did), ("called", Json.bool o.called),
            ("dropped", natJ o.dropped),
            ("dbN", natJ s'.db.length), ("dbA", natJ s'.dbAdj.length),
            ("x0loc", match o.x0loc with | some X => blkJ out X | none => Json.null),
            ("ratio", listJ id ((List.finRange k).map fun j => ratio (nsq c (o.rem j)) 1))])
      | _, _ => throw "internal: result/op mismatch"
    let rest ← runOps c out ratio s' ops
    pure (o :: rest)

def runHistory (c : Cfg α) (num : Json → R α) (out : α → Json) (ratio : α → α → Json) (j : Json) : R Json := do
  let n ← getNat j "n"
  let ops ← (← getArr j "ops").toList.mapM (parseOp num n)
  let s0 : State n α := init (← optBool j "usym") (← optBool j "uherm")
  let res ← runOps c out ratio s0 ops
  return Json.arr res.toArray

end generic

def numQI (v : Json) : R GQ :=
  match v with
  | .arr a => if a.size = 2 then do return ⟨← asRat a[0]!, ← asRat a[1]!⟩ else .error "bad complex"
  | _ => do return ⟨← asRat v, 0⟩
def outQI (z : GQ) : Json := Json.arr #[ratJ z.re, ratJ z.im]

/-- `{"m":"c06.run","field":"Q"|"QI","n":…,"tol":"1/10000000","usym":null,"uherm":null,"ops":[…]}`;
    `ratio` of a solve = `‖remaining rhs‖²` per column (the harness divides by `‖rhs‖²` for the boundary test) -/
def runH (j : Json) : R Json := do
  let tol ← getRat j "tol"
  match ← getStr j "field" with
  | "Q" => runHistory (cfgQ tol) asRat ratJ (fun a b => ratJ (a / b)) j
  | "QI" => runHistory (cfgQI tol) numQI outQI (fun a b => ratJ (a.re / b.re)) j
  | f => throw s!"unknown field {f}"

/-- `get_diagonal_indices` alone (and the variant before the repair) -/
def diagH (j : Json) : R Json := do
  let n ← getNat j "n"
  let A ← parseMat numQI n (← getField j "A")
  return objJ [("diag", boolsJ (diagMask A)), ("before_repair", boolsJ (diagMaskBeforeRepair A))]

def handlers : List (String × (Json → R Json)) :=
  [("c06.run", runH), ("c06.diag", diagH)]
end PymotoVerif.Drv.C06
