/- driver handlers for the C07 models (`LA/LinSys.lean`): the models run at `ℚ(i)`, the inner solver parameter is
   instantiated by exact Gauss–Jordan elimination whose contract is checked at run time (`Drv/LAUtil.lean`). -/
import PymotoVerif.Drv.LAUtil
namespace PymotoVerif.Drv.C07
open Lean PymotoVerif PymotoVerif.Drv PymotoVerif.Drv.LA PymotoVerif.LinSys Matrix

def RP : RealPart CQ := Cx.realPart ℚ

def getFlags (j : Json) : R LinSolveFlags := do
  return ⟨← getBool j "sparse", ← getBool j "cplx", ← getBool j "bcplx"⟩

def idxMap (n : ℕ) (h : 0 < n) (l : List ℕ) : Fin l.length → Fin n :=
  fun r => ⟨l[r] % n, Nat.mod_lt _ h⟩

def sensJ {n m : ℕ} (s : MatSens n m CQ) : List (String × Json) :=
  [("dA", matJ s.toDense), ("dA_dyad", Json.bool s.isDyad)]

/-- LinSolve: response and (if a seed `w` is given) sensitivity -/
def linsolve (j : Json) : R Json := do
  let n ← getNat j "n"
  let k ← getNat j "k"
  let fl ← getFlags j
  let A ← getMat n n j "A"
  let B ← getMat n k j "b"
  match linSolveResponse fl { solve := fun X => X, solveT := fun X => X } B with   -- the rejection does not need the solver
  | .error e => throw e.name
  | .ok _ => pure ()
  let S ← exactSolver A
  match linSolveResponse fl S B with
  | .error e => throw e.name
  | .ok x =>
    let x ← memoM x
    match ← getOpt (asMat n k) j "w" with
    | none => return objJ [("x", matJ x)]
    | some w =>
      let (dA, db) := linSolveSensitivity RP fl S x w
      return objJ ([("x", matJ x), ("db", matJ db)] ++ sensJ dA)

def inverse (j : Json) : R Json := do
  let n ← getNat j "n"
  let cplx ← getBool j "cplx"
  let A ← getMat n n j "A"
  let Binv ← exactInv A
  let B := inverseResponse (fun _ => Binv) A
  match ← getOpt (asMat n n) j "w" with
  | none => return objJ [("B", matJ B)]
  | some w => return objJ [("B", matJ B), ("dA", matJ (inverseSensitivity RP cplx B w))]

def soe (j : Json) : R Json := do
  let n ← getNat j "n"
  let k ← getNat j "k"
  let fl ← getFlags j
  let free ← getOpt (asList asNat) j "free"
  let prescribed ← getOpt (asList asNat) j "prescribed"
  let nbf := (← getArr j "bf").size
  let nxp := (← getArr j "xp").size
  let dbf ← getNat j "dbf"
  let dxp ← getNat j "dxp"
  match soeIndices n nbf nxp dbf dxp free prescribed with
  | .error e => throw e.name
  | .ok (fl', pl) =>
    if h : 0 < n then
      let f := idxMap n h fl'
      let p := idxMap n h pl
      let A ← getMat n n j "A"
      let bf ← getMat fl'.length k j "bf"
      let xp ← getMat pl.length k j "xp"
      if fl.issparse && !fl.iscomplex && fl.rhsComplex then throw "TypeError"
      let S ← exactSolver (← memoM (A.submatrix f f))
      match soeResponse fl f p A S bf xp with
      | .error e => throw e.name
      | .ok ((x, b), st) =>
        let x ← memoM x
        let b ← memoM b
        let st : SoeState n fl'.length pl.length k CQ := ⟨x, ← memoM st.Afp, ← memoM st.Apf, ← memoM st.App⟩
        let base := [("x", matJ x), ("b", matJ b), ("f", listJ natJ fl'), ("p", listJ natJ pl)]
        if (← getBool j "sens") then
          let gx ← getOpt (asMat n k) j "gx"
          let gb ← getOpt (asMat n k) j "gb"
          let (dA, dbf, dxp) := soeSensitivity f p S st gx gb
          return objJ (base ++ [("dA", matJ dA.toDense), ("dbf", matJ dbf), ("dxp", matJ dxp)])
        else return objJ base
    else throw "n = 0"

def asDyads (n m : ℕ) (v : Json) : R (Dyads n m CQ) := do
  let ds ← asArr v
  ds.toList.mapM fun d => do
    let pr ← asArr d
    if pr.size ≠ 2 then throw "dyad: expected [u, v]"
    let u ← asMat 1 n (Json.arr #[pr[0]!])
    let w ← asMat 1 m (Json.arr #[pr[1]!])
    return (fun i => u 0 i, fun i => w 0 i)

def staticcond (j : Json) : R Json := do
  let n ← getNat j "n"
  let sparse ← getBool j "sparse"
  let ml ← getList asNat j "main"
  let fl ← getList asNat j "free"
  if (ml ++ fl).any (fun i => decide (n ≤ i)) then throw "IndexError"
  if h : 0 < n then
    let m := idxMap n h ml
    let f := idxMap n h fl
    let A ← getMat n n j "A"
    if !sparse then throw "AttributeError"
    let S ← exactSolver (← memoM (A.submatrix f f))
    match staticCondResponse sparse m f A S with
    | .error e => throw e.name
    | .ok (Ared, X) =>
      let Ared ← memoM Ared
      let X ← memoM X
      let seed : Option (MatSens ml.length ml.length CQ) ←
        match ← getOpt (asMat ml.length ml.length) j "gdense" with
        | some G => pure (some (.dense G))
        | none => match ← getOpt (asDyads ml.length ml.length) j "gdyad" with
          | some D => pure (some (.dyads D))
          | none => pure none
      match seed with
      | none => return objJ [("Ared", matJ Ared)]
      | some g =>
        let dA := staticCondSensitivity m f A S X g
        return objJ [("Ared", matJ Ared), ("dA", matJ dA.toDense)]
  else throw "n = 0"

def handlers : List (String × (Json → R Json)) :=
  [("c07.linsolve", linsolve), ("c07.inverse", inverse), ("c07.soe", soe), ("c07.staticcond", staticcond)]
end PymotoVerif.Drv.C07
