/- driver handlers for the C08 model (`Core/Assembly.lean`): get_B, get_D, element matrices, assembly.
   Element matrices are evaluated in `Q3 = ℚ(√3)` with the Gauss factor `g = 1/√3`; intermediate
   stages are tabulated into arrays (the interpreter does not share closures' work). -/
import PymotoVerif.Drv.Util
import PymotoVerif.Core.Assembly
namespace PymotoVerif.Drv.C08
open Lean PymotoVerif PymotoVerif.Drv PymotoVerif.Domain PymotoVerif.Assembly

instance : Inhabited Q3 := ⟨⟨0, 0⟩⟩

/-- tabulate a matrix / look it up again (identity on the tabulated range) -/
def tab2A {α} (n m : Nat) (f : Nat → Nat → α) : Array (Array α) :=
  Array.ofFn (n := n) fun i => Array.ofFn (n := m) fun j => f i.val j.val
def fn2 {α} [Inhabited α] (a : Array (Array α)) : Nat → Nat → α := fun i j => (a[i]!)[j]!
def tab3A {α} (n m k : Nat) (f : Nat → Nat → Nat → α) : Array (Array (Array α)) :=
  Array.ofFn (n := n) fun i => tab2A m k (f i.val)
def fn3 {α} [Inhabited α] (a : Array (Array (Array α))) : Nat → Nat → Nat → α := fun g i j => ((a[g]!)[i]!)[j]!
def tab1A {α} (n : Nat) (f : Nat → α) : Array α := Array.ofFn (n := n) fun i => f i.val
def fn1 {α} [Inhabited α] (a : Array α) : Nat → α := fun i => a[i]!

def matJ {α} (f : α → Json) (a : Array (Array α)) : Json := Json.arr (a.map fun r => Json.arr (r.map f))
def q3reJ (a : Array (Array Q3)) : Json := matJ (fun x => ratJ x.re) a
def q3irJ (a : Array (Array Q3)) : Json := matJ (fun x => ratJ x.ir) a
def q3J (a : Array (Array Q3)) : Json := objJ [("re", q3reJ a), ("ir", q3irJ a)]

def getOpt {α} (f : Json → R α) (j : Json) (k : String) : R (Option α) :=
  match j.getObjVal? k with
  | .ok Json.null => pure none
  | .ok v => do let r ← f v; pure (some r)
  | .error _ => pure none

def matOfLists {α} [OfNat α 0] (l : List (List α)) : Nat → Nat → α :=
  let a := (l.map List.toArray).toArray
  fun i j => (a.getD i #[]).getD j 0

/-- `get_B` -/
def getBOp (j : Json) : R Json := do
  let dN ← getList (asList asRat) j "dN"
  let voigt ← getBool j "voigt"
  let ndim := dN.length
  let nsh := (dN.headD []).length
  let f := matOfLists dN
  if ndim = 2 then return matJ ratJ (tab2A 3 (2 * nsh) (getB2 f))
  else if ndim = 3 then return matJ ratJ (tab2A 6 (3 * nsh) (getB3 voigt f))
  else throw "ValueError"

/-- `get_D` -/
def getDOp (j : Json) : R Json := do
  let E ← getRat j "E"
  let nu ← getRat j "nu"
  let mode ← getStr j "mode"
  let pm ← getDCheck E nu (parseMode mode)
  return matJ ratJ (tab2A pm.nstrain pm.nstrain (getD E nu pm))

/-- the constitutive matrix used by `AssembleStiffness` / `Stress` / `ThermoMechanical`:
    `'3d' if dim == 3 else plane.lower()`, times the thickness in 2-D; a 6×6 matrix in 2-D fails in matmul -/
def materialD (dim : Nat) (sz : Q3) (E nu : Rat) (plane : String) : R (Array (Array Q3)) := do
  let pm ← getDCheck (Q3.ofRat E) (Q3.ofRat nu) (parseMode (if dim = 3 then "3d" else plane.toLower))
  let D := getD (Q3.ofRat E) (Q3.ofRat nu) pm
  if dim = 2 then
    if pm = PlaneMode.d3 then throw "ValueError"
    return tab2A 3 3 (scaleD D sz)
  else return tab2A 6 6 D

def sizes (j : Json) : R (Q3 × Q3 × Q3) := do
  let s ← getList asRat j "s"
  match s with
  | [a, b, c] => return (Q3.ofRat a, Q3.ofRat b, Q3.ofRat c)
  | _ => throw "bad sizes"

/-- tabulated `B` at every Gauss point -/
def BgTab (dim : Nat) (sx sy sz : Q3) : Array (Array (Array Q3)) :=
  if dim = 2 then tab3A 4 3 8 (Bg2 sx sy Q3.gauss) else tab3A 8 6 24 (Bg3 sx sy sz Q3.gauss)

/-- tabulated `(w B.T) @ D` at every Gauss point -/
def WTab (dim : Nat) (sx sy sz : Q3) (B : Array (Array (Array Q3))) (D : Array (Array Q3)) :
    Array (Array (Array Q3)) :=
  if dim = 2 then tab3A 4 8 3 (fun gp => wBtD 3 (w2 sx sy) (fn3 B gp) (fn2 D))
  else tab3A 8 24 6 (fun gp => wBtD 6 (w3 sx sy sz) (fn3 B gp) (fn2 D))

def stiffTab (dim : Nat) (sx sy sz : Q3) (D : Array (Array Q3)) : Array (Array Q3) :=
  let B := BgTab dim sx sy sz
  let W := WTab dim sx sy sz B D
  if dim = 2 then tab2A 8 8 (stiffFrom 4 3 (fn3 W) (fn3 B)) else tab2A 24 24 (stiffFrom 8 6 (fn3 W) (fn3 B))

def massTab (dim : Nat) (sx sy sz rho : Q3) (ndof : Nat) : Array (Array Q3) :=
  if dim = 2 then
    let N := tab2A 4 4 (Ng2 sx sy Q3.gauss)
    tab2A (4 * ndof) (4 * ndof) (massFrom 4 ndof (w2 sx sy * (rho * sz)) (fn2 N))
  else
    let N := tab2A 8 8 (Ng3 sx sy sz Q3.gauss)
    tab2A (8 * ndof) (8 * ndof) (massFrom 8 ndof (w3 sx sy sz * rho) (fn2 N))

def poissonTab (dim : Nat) (sx sy sz k : Q3) : Array (Array Q3) :=
  if dim = 2 then
    let dN := tab3A 4 2 4 (dNg2 sx sy Q3.gauss)
    tab2A 4 4 (poissonFrom 4 2 (w2 sx sy * (k * sz)) (fn3 dN))
  else
    let dN := tab3A 8 3 8 (dNg3 sx sy sz Q3.gauss)
    tab2A 8 8 (poissonFrom 8 3 (w3 sx sy sz * k) (fn3 dN))

/-- element matrix by kind -/
def elmatTab (j : Json) : R (Array (Array Q3)) := do
  let kind ← getStr j "kind"
  let dim ← getNat j "dim"
  if dim ≠ 2 ∧ dim ≠ 3 then throw "bad dim"
  let (sx, sy, sz) ← sizes j
  match kind with
  | "stiffness" =>
    let D ← materialD dim sz (← getRat j "E") (← getRat j "nu") (← getStr j "plane")
    return stiffTab dim sx sy sz D
  | "mass" => return massTab dim sx sy sz (Q3.ofRat (← getRat j "mat")) (← getNat j "ndof")
  | "poisson" => return poissonTab dim sx sy sz (Q3.ofRat (← getRat j "mat"))
  | _ => throw "bad kind"

def elmatOp (j : Json) : R Json := do
  let K ← elmatTab j
  return q3J K

/-- rational part of a `Q3` matrix; the √3 part must vanish -/
def projRat (a : Array (Array Q3)) : R (Array (Array Rat)) := do
  if a.any (fun r => r.any (fun x => x.ir ≠ 0)) then throw "irrational entry"
  return a.map (fun r => r.map (fun x => x.re))

/-- `AssembleGeneral` : `elmat` given (`"elmat"`) or built by kind (`"kind"`) -/
def assembleOp (j : Json) : R Json := do
  let d : Dom := ⟨← getNat j "nelx", ← getNat j "nely", ← getNat j "nelz"⟩
  let given ← getOpt (asList (asList asRat)) j "elmat"
  let elA : Array (Array Rat) ← match given with
    | some l => pure (l.map List.toArray).toArray
    | none => do projRat (← elmatTab j)
  let K := (elA.getD 0 #[]).size
  let ndof := K / d.elemnodes
  let m := d.elemnodes * ndof
  let n := ndof * d.nnodes
  let x ← getList asRat j "x"
  let bc ← getOpt (asList asNat) j "bc"
  let bcdiag ← getOpt asRat j "bcdiag"
  let addc ← getOpt (asList (asList asRat)) j "addc"
  let wantDense ← getBool j "dense"
  match assembleCheck d ndof x.length bc with
  | .error e => throw e
  | .ok _ => pure ()
  let el := fn2 elA
  let dcA := tab2A d.nel m (d.dofConn ndof)
  let dc := fn2 dcA
  let xa := x.toArray
  let xf := fun i => xa.getD i 0
  let bcd := match bcdiag with
    | some v => v
    | none => maxEntries m el
  let t := triplets d.nel m dc el xf bc bcd
  let base := [("n", natJ n), ("bcdiag", ratJ bcd),
    ("rows", listJ natJ (t.map (·.r))), ("cols", listJ natJ (t.map (·.c))), ("vals", listJ ratJ (t.map (·.v)))]
  if wantDense then
    let dense := match addc with
      | none => tab2A n n (cooDense t)
      | some C => let cf := matOfLists C; tab2A n n (fun r c => cooDense t r c + cf r c)
    return objJ (base ++ [("dense", matJ ratJ dense)])
  else return objJ base

/-! ### `AssembleGeneral._sensitivity` : real (ℚ) or complex (ℚ(i), pairs `[re, im]`) data -/

/-- Gaussian rationals for complex element matrices / seeds -/
structure CQ where
  re : Rat
  im : Rat
deriving DecidableEq
instance : Inhabited CQ := ⟨⟨0, 0⟩⟩
instance (n : Nat) : OfNat CQ n := ⟨⟨(n : Rat), 0⟩⟩
instance : Add CQ := ⟨fun x y => ⟨x.re + y.re, x.im + y.im⟩⟩
instance : Mul CQ := ⟨fun x y => ⟨x.re * y.re - x.im * y.im, x.re * y.im + x.im * y.re⟩⟩

def asCQ (v : Json) : R CQ := do
  match v with
  | .arr #[a, b] => return ⟨← asRat a, ← asRat b⟩
  | _ => return ⟨← asRat v, 0⟩
def cqJ (z : CQ) : Json := Json.arr #[ratJ z.re, ratJ z.im]

/-- generic over the scalar: `parse`/`pr` read and print it, `post` is `np.real` (real `x`) or the identity -/
def sensG {α} [Inhabited α] [Add α] [Mul α] [OfNat α 0] [OfNat α 1]
    (parse : Json → R α) (pr : α → Json) (post : α → α) (j : Json) : R Json := do
  let d : Dom := ⟨← getNat j "nelx", ← getNat j "nely", ← getNat j "nelz"⟩
  let el ← getList (asList parse) j "elmat"
  let elA := (el.map List.toArray).toArray
  let K := (elA.getD 0 #[]).size
  let ndof := K / d.elemnodes
  let m := d.elemnodes * ndof
  let n := ndof * d.nnodes
  let bc ← getOpt (asList asNat) j "bc"
  let dcA := tab2A d.nel m (d.dofConn ndof)
  let kind ← getStr j "seed"
  if kind = "dense" then
    let W ← getList (asList parse) j "W"
    let WA := (W.map List.toArray).toArray
    let dx := tab1A d.nel (assembleSensDense m (fn2 dcA) (fn2 elA) bc post (fn2 WA))
    let after := tab2A n n (seedMask bc (fn2 WA))
    return objJ [("dx", Json.arr (dx.map pr)), ("seed_after", matJ pr after)]
  else if kind = "dyad" then
    let shapeSet ← getBool j "shape_set"
    let us ← getList (asList parse) j "us"
    let vs ← getList (asList parse) j "vs"
    let uA := (us.map List.toArray).toArray
    let vA := (vs.map List.toArray).toArray
    let nd := uA.size
    match assembleSensDyad? shapeSet m (fn2 dcA) (fn2 elA) bc post nd (fn2 uA) (fn2 vA) with
    | none => return objJ [("dx", Json.null)]
    | some f =>
      let dx := tab1A d.nel f
      let ua := tab2A nd n (fun k => vecMask bc (fn2 uA k))
      let va := tab2A nd n (fun k => vecMask bc (fn2 vA k))
      return objJ [("dx", Json.arr (dx.map pr)), ("us_after", matJ pr ua), ("vs_after", matJ pr va)]
  else throw "bad seed kind"

/-- `{"m":"c08.sens", grid, "elmat", "bc", "seed":"dense"|"dyad", "W" | "us","vs","shape_set", "cx":bool, "xreal":bool}` -/
def sensOp (j : Json) : R Json := do
  let cx ← getBool j "cx"
  let xreal ← getBool j "xreal"
  if cx then
    sensG asCQ cqJ (if xreal then (fun z : CQ => (⟨z.re, 0⟩ : CQ)) else id) j
  else sensG asRat ratJ id j

def handlers : List (String × (Json → R Json)) :=
  [("c08.getB", getBOp), ("c08.getD", getDOp), ("c08.elmat", elmatOp), ("c08.assemble", assembleOp),
   ("c08.sens", sensOp)]
end PymotoVerif.Drv.C08
