/- driver handlers for the C09 models (`Core/Filter.lean`): FilterConv and DensityFilter at `Rat`.
   `sqrt` is instantiated by a rational approximation with absolute error < 1e-40 (exact on perfect squares
   of rationals with small denominators is NOT guaranteed; radius kernels are compared with a tolerance). -/
import PymotoVerif.Drv.Util
import PymotoVerif.Core.Filter
namespace PymotoVerif.Drv.C09
open Lean PymotoVerif PymotoVerif.Drv PymotoVerif.Domain PymotoVerif.Filter

/-- `⌊√(q·10^80)⌋ / 10^40` -/
def ratSqrt (q : Rat) : Rat :=
  if q ≤ 0 then 0 else
  let sc : Nat := 10 ^ 40
  let n : Nat := q.num.toNat * sc * sc / q.den
  ((Nat.sqrt n : Nat) : Rat) / (sc : Rat)

/-- Python `int(·)` on a float: truncation toward zero -/
def ratTrunc (q : Rat) : Int := if q ≥ 0 then q.floor else -((-q).floor)

def asMode (v : Json) : R (Mode Rat) :=
  match v with
  | .str "symmetric" => .ok .sym
  | .str "edge" => .ok .edge
  | .str "wrap" => .ok .wrap
  | _ => match v.getObjVal? "c" with
    | .ok c => do return .const (← asRat c)
    | .error _ => .error s!"bad mode {v.compress}"

def asTriple (v : Json) : R (Nat × Nat × Nat) := do
  match ← asList asNat v with
  | [a, b, c] => return (a, b, c)
  | _ => throw "bad triple"

/-- flat C-order list of shape (a,b,c) → A3 -/
def a3OfList (l : Array Rat) (_a b c : Nat) : A3 Rat := fun i j k => l.getD ((i * b + j) * c + k) 0

def flat3 {β} (a b c : Nat) (f : A3 β) : List β :=
  (List.range a).flatMap fun i => (List.range b).flatMap fun j => (List.range c).map fun k => f i j k

def conv (j : Json) : R Json := do
  let d : Dom := ⟨← getNat j "nelx", ← getNat j "nely", ← getNat j "nelz"⟩
  let (kx, ky, kz, w) ← (match j.getObjVal? "radius" with
    | .ok rj => do
      let r ← getRat rj "r"
      let rel ← getBool rj "rel"
      let tiny ← getRat rj "tiny"
      match ← getList asRat rj "es" with
      | [ex, ey, ez] =>
        match setFilterRadius ratSqrt ratTrunc tiny 1 d (ex, ey, ez) r rel with
        | .ok v => pure v
        | .error e => throw e
      | _ => throw "bad es"
    | .error _ => do
      let (kx, ky, kz) ← asTriple (← getField j "k")
      let wl := (← getList asRat j "w").toArray
      if wl.size ≠ kx * ky * kz then throw "bad weights size"
      pure (kx, ky, kz, a3OfList wl kx ky kz) : R (Nat × Nat × Nat × A3 Rat))
  -- memoisation only: the weights are tabulated once
  let wA := (flat3 kx ky kz w).toArray
  let w : A3 Rat := a3OfList wA kx ky kz
  let bc ← getList asMode j "bc"
  match bc with
  | [b0, b1, b2, b3, b4, b5] =>
    let c0 : Cfg Rat := ⟨d, kx, ky, kz, w, b0, b1, b2, b3, b4, b5, []⟩
    let ovs ← (← getArr j "ov").toList.mapM fun o => do
      let pts ← getList asTriple o "pts"
      let v ← getRat o "v"
      pure (c0.userOverride pts v)
    let c : Cfg Rat := { c0 with user := ovs }
    let xl := (← getList asRat j "x").toArray
    let gl := (← getList asRat j "g").toArray
    let x : Nat → Rat := fun i => xl.getD i 0
    let g : Nat → Rat := fun i => gl.getD i 0
    let wj := listJ ratJ (flat3 kx ky kz w)
    match c.response xl.size x, c.sensitivity xl.size g with
    | .ok y, .ok dx =>
      return objJ [("k", listJ natJ [kx, ky, kz]), ("w", wj),
        ("pad", listJ natJ (flat3 c.mx c.my c.mz c.el3dPad)),
        ("y", listJ ratJ (tab xl.size y)), ("dx", listJ ratJ (tab xl.size dx))]
    | .error e, _ => return objJ [("error", Json.str e)]
    | _, .error e => return objJ [("error", Json.str e)]
  | _ => throw "bc must have 6 entries"

def dens (j : Json) : R Json := do
  let d : Dom := ⟨← getNat j "nelx", ← getNat j "nely", ← getNat j "nelz"⟩
  let r ← getRat j "radius"
  let np : Option (List Nat) ← (match j.getObjVal? "nonpadding" with
    | .ok (.arr a) => do pure (some (← a.toList.mapM asNat))
    | _ => pure none : R (Option (List Nat)))
  let xl := (← getList asRat j "x").toArray
  let gl := (← getList asRat j "g").toArray
  let x : Nat → Rat := fun i => xl.getD i 0
  let g : Nat → Rat := fun i => gl.getD i 0
  match DF.make ratTrunc d r np with
  | .error e => return objJ [("error", Json.str e)]
  | .ok f =>
    match f.check xl.size with
    | .error e => return objJ [("error", Json.str e)]
    | .ok _ =>
      -- memoisation only: the vectors `Hs`, `HsEff` are tabulated once and handed to the model's `respOf`/`sensOf`
      -- (`DF.resp = respOf (HsEff)`, `DF.sens = sensOf (HsEff)` by definition)
      let hsA := (tab f.nel (DF.Hs ratSqrt f)).toArray
      let hs : Nat → Rat := fun i => hsA.getD i 0
      let heA := (tab f.nel (DF.hsEffOf f hs (maxRange f.nel hs))).toArray
      let he : Nat → Rat := fun i => heA.getD i 0
      return objJ [("y", listJ ratJ (tab xl.size (DF.respOf ratSqrt f he x))),
        ("dx", listJ ratJ (tab xl.size (DF.sensOf ratSqrt f he g))),
        ("Hs", listJ ratJ heA.toList)]

def handlers : List (String × (Json → R Json)) :=
  [("c09.conv", conv), ("c09.dens", dens)]
end PymotoVerif.Drv.C09
