/- driver handlers for the C10 model (`Core/MMA.lean`), run at `Float` (`Float.sqrt`, Gaussian elimination with partial pivoting)
   * `c10.expand`  : bound / move expansion (scalar, per signal, per variable) and the scalar/array write-back of a design
   * `c10.mmasub`  : `MMA.mmasub` up to the call of `subsolv`, from a recorded memory (`offset xold1 xold2`)
   * `c10.subsolv` : `subsolv` on recorded arguments
   * `c10.run`     : a whole `MMA.response()` on a parametrised convex problem
        g_i(x) = k_i + Σ_j l_ij x_j + ½ xᵀ H_i x + Σ_j B_ij / (x_j + s_i)
   * `c10.sens`    : the per-response sensitivity collection (`None` of a variable signal = zeros)
   * `c10.echo`    : float transport self-test -/
import PymotoVerif.Drv.Util
import PymotoVerif.Drv.C16
import PymotoVerif.Core.MMA
namespace PymotoVerif.Drv.C10
open Lean PymotoVerif PymotoVerif.Drv PymotoVerif.DV PymotoVerif.MMA

def fx (x : Float) : Json := natJ x.toBits.toNat
def errJ (e : String) : Json := objJ [("raises", Json.str e)]
def fxl (n : Nat) (f : Nat → Float) : Json := listJ fx (tab n f)
def fxm (r c : Nat) (f : Nat → Nat → Float) : Json := Json.arr ((tab r (fun i => fxl c (f i))).toArray)

def optField (j : Json) (k : String) : Option Json :=
  match j.getObjVal? k with
  | .ok Json.null => none
  | .ok v => some v
  | .error _ => none

def getBnd (j : Json) (k : String) : R (Bnd Float) := do
  let v ← getField j k
  match v.getObjVal? "s" with
  | .ok s => return .scalar (← asFloat s)
  | .error _ => return .vec (← getList asFloat v "v")

def getVec (j : Json) (k : String) : R (Nat → Float) := do
  return ofList (← getList asFloat j k)

def getMat (j : Json) (k : String) : R (Nat → Nat → Float) := do
  let rows ← getList (asList asFloat) j k
  let arr : Array (Array Float) := (rows.map List.toArray).toArray
  return fun i c => (arr.getD i #[]).getD c 0

def getOptArr (j : Json) (k : String) : R (Option (Array Float)) :=
  match optField j k with
  | none => pure none
  | some v => do pure (some (← asList asFloat v).toArray)

def getOpts (j : Json) : R (Opts Float) := do
  return { a0 := ← getFloat j "a0", epsimin := ← getFloat j "epsimin", albefa := ← getFloat j "albefa",
           asyinit := ← getFloat j "asyinit", asyincr := ← getFloat j "asyincr", asydecr := ← getFloat j "asydecr",
           asybound := ← getFloat j "asybound", version := parseVersion (← getStr j "mmaversion") }

def floatSolve : Nat → (Nat → Nat → Float) → (Nat → Float) → Option (Nat → Float) := gaussSolve

def stJ : St Float → Json
  | .scalar v => objJ [("scalar", fx v)]
  | .arr l => objJ [("arr", listJ fx l)]

/-! ### expansion -/
def expand (j : Json) : R Json := do
  let sizes ← getList asNat j "sizes"
  let states : List (List Float) := sizes.map (fun k => List.replicate k 0.0)
  let n := (concat states).length
  let cumulative := cumlens states
  let cumF := fun i => cumulative.getD i 0
  let nsig := sizes.length
  let kind ← getStr j "kind"
  let b ← getBnd j "spec"
  let r := if kind == "move" then expandMove n nsig cumF b else expandBnd n nsig cumF b
  let design ← getList asFloat j "design"
  let wb := writeBackMMA design cumulative nsig
  match r with
  | .error e => return objJ [("expanded", errJ e), ("writeback", listJ stJ wb)]
  | .ok f => return objJ [("expanded", fxl n f), ("writeback", listJ stJ wb), ("cumlens", listJ natJ cumulative)]

/-! ### mmasub -/
def preJ (n m : Nat) (p : Pre Float) : Json :=
  objJ [("offset", listJ fx p.offset.toList), ("low", fxl n p.prob.low), ("upp", fxl n p.prob.upp),
        ("alfa", fxl n p.prob.alfa), ("beta", fxl n p.prob.beta),
        ("P", fxm (m+1) n p.prob.P), ("Q", fxm (m+1) n p.prob.Q), ("b", fxl m p.prob.b),
        ("epsimin", fx p.prob.epsimin)]

def mmasubH (j : Json) : R Json := do
  let o ← getOpts j
  let n ← getNat j "n"
  let m ← getNat j "mcons"
  let xmin ← getVec j "xmin"
  let xmax ← getVec j "xmax"
  let move ← getVec j "move"
  let a ← getVec j "a"
  let c ← getVec j "c"
  let mem : Mem Float := ⟨← getOptArr j "offset", ← getOptArr j "xold1", ← getOptArr j "xold2"⟩
  let xval ← getList asFloat j "xval"
  let g ← getVec j "g"
  let dg ← getMat j "dg"
  match mmasubPre Float.sqrt o n m xmin xmax move a c (fun _ => 1.0) mem xval.toArray g dg with
  | .error e => return errJ e
  | .ok p => return preJ n m p

/-! ### subsolv -/
def ptJ (p : Pt Float) : Json :=
  objJ [("x", listJ fx p.x.toList), ("y", listJ fx p.y.toList), ("z", fx p.z), ("lam", listJ fx p.lam.toList),
        ("xsi", listJ fx p.xsi.toList), ("eta", listJ fx p.eta.toList), ("mu", listJ fx p.mu.toList),
        ("zet", fx p.zet), ("s", listJ fx p.s.toList)]

def subOutJ (so : SubOut Float) : Json :=
  objJ [("pt", ptJ so.p), ("epsiLast", fx so.epsiLast), ("residumax", fx so.residumax),
        ("itttLast", natJ so.itttLast), ("newton", natJ so.newton), ("outer", natJ so.outer)]

def subsolvH (j : Json) : R Json := do
  let n ← getNat j "n"
  let m ← getNat j "mcons"
  let pb : SubProb Float :=
    { n := n, m := m, epsimin := ← getFloat j "epsimin", low := ← getVec j "low", upp := ← getVec j "upp",
      alfa := ← getVec j "alfa", beta := ← getVec j "beta", P := ← getMat j "P", Q := ← getMat j "Q",
      a0 := ← getFloat j "a0", a := ← getVec j "a", b := ← getVec j "b", c := ← getVec j "c", d := ← getVec j "d" }
  let x0 : Option (Nat → Float) ← match optField j "x0" with
    | none => pure none
    | some v => do pure (some (ofList (← asList asFloat v)))
  let fuel ← getNat j "fuel"
  match subsolv Float.sqrt floatSolve pb x0 fuel with
  | .error e => return errJ e
  | .ok so => return subOutJ so

/-! ### whole run -/

/-- one response of the harness problem -/
structure RespSpec where
  k : Float
  l : Nat → Float
  B : Nat → Float
  s : Float
  H : Option (Nat → Nat → Float)
  mask : Option (List Nat)      -- the variable signals the response is connected to (`none` = all)

def respValue (n : Nat) (r : RespSpec) (x : Nat → Float) : Float :=
  let lin := sumRange n (fun j => r.l j * x j)
  let inv := sumRange n (fun j => r.B j / (x j + r.s))
  let quad := match r.H with
    | none => 0.0
    | some H => 0.5 * sumRange n (fun i => x i * sumRange n (fun j => H i j * x j))
  r.k + lin + quad + inv

def respGrad (n : Nat) (r : RespSpec) (x : Nat → Float) (j : Nat) : Float :=
  let hx := match r.H with
    | none => 0.0
    | some H => sumRange n (fun i => H j i * x i)
  r.l j + hx - r.B j / ((x j + r.s) * (x j + r.s))

def getResp (v : Json) : R RespSpec := do
  let H ← match optField v "H" with
    | none => pure none
    | some _ => do pure (some (← getMat v "H"))
  let mask ← match optField v "mask" with
    | none => pure none
    | some w => do pure (some (← asList asNat w))
  return { k := ← getFloat v "k", l := ← getVec v "l", B := ← getVec v "B", s := ← getFloat v "s", H := H, mask := mask }

def runH (j : Json) : R Json := do
  let o ← getOpts j
  let sa ← getArr j "states"
  let states ← sa.toList.mapM fun s => match s with
    | Json.null => pure (none : Option (List Float))
    | _ => do pure (some (← asList asFloat s))
  let resps ← (← getArr j "responses").toList.mapM getResp
  let m := resps.length - 1
  let n := ((states.map (fun o => o.getD [])).flatten).length
  let st0 := states.map (fun o => o.getD [])
  let cumulative := cumlens st0
  let nsig := st0.length
  let prob : Problem Float := fun x =>
    let xa := ofArr (freeze n x)
    let gA := (resps.map (fun r => respValue n r xa)).toArray
    -- back-propagation of response r: the connected signals receive their slice of the gradient, the others nothing
    let sensA := (resps.map (fun r =>
      let gr := ofArr (freeze n (respGrad n r xa))
      (List.range nsig).map (fun k =>
        let connected := match r.mask with
          | none => true
          | some mk => mk.contains k
        if connected then some ((List.range (cumulative.getD (k+1) 0 - cumulative.getD k 0)).map
          (fun t => gr (cumulative.getD k 0 + t))) else none))).toArray
    (ofArr gA, fun i => sensA.getD i [])
  let tolx ← getFloat j "tolx"
  let tolf ← getFloat j "tolf"
  let maxit ← getNat j "maxit"
  let xmin ← getBnd j "xmin"
  let xmax ← getBnd j "xmax"
  let move ← getBnd j "move"
  let a ← getList asFloat j "a"
  let c ← getList asFloat j "c"
  let fuel ← getNat j "fuel"
  match MMA.run Float.sqrt floatSolve prob o states m tolx tolf maxit xmin xmax move a c fuel with
  | .error e => return errJ e
  | .ok r =>
    return objJ [("trace", listJ (listJ stJ) r.trace), ("states", listJ stJ r.states), ("stop", Json.str r.stop),
      ("iter", natJ r.iter), ("relf", listJ fx r.relf), ("relx", listJ fx r.relx),
      ("calls", listJ (fun (cl : Call Float) => objJ [("xval", listJ fx cl.xval), ("pre", preJ n m cl.pre),
          ("out", subOutJ cl.out)]) r.calls)]

/-- sensitivity collection alone: `states` as written by MMA (`{"scalar":v}` / `{"arr":[…]}`), `sens[i][k]` = null or list -/
def sensH (j : Json) : R Json := do
  let sts ← (← getArr j "states").toList.mapM fun v => match v.getObjVal? "scalar" with
    | .ok s => do pure (St.scalar (← asFloat s))
    | .error _ => do pure (St.arr (← getList asFloat v "arr"))
  let sens ← (← getArr j "sens").toList.mapM fun row => do
    (← asArr row).toList.mapM fun v => match v with
      | Json.null => pure (none : Option (List Float))
      | _ => do pure (some (← asList asFloat v))
  return listJ (fun row => listJ fx (collectSens sts row)) sens

def echo (j : Json) : R Json := do
  let xs ← getList asFloat j "x"
  return listJ fx xs

def handlers : List (String × (Json → R Json)) :=
  [("c10.expand", expand), ("c10.mmasub", mmasubH), ("c10.subsolv", subsolvH), ("c10.run", runH), ("c10.sens", sensH), ("c10.echo", echo)]
end PymotoVerif.Drv.C10
