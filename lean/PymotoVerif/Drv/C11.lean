/- driver handlers for the C11 model (`LA/Eigen.lean`), run at ℚ(i). `np.sqrt` is instantiated by a rational approximation
   with relative error < 2⁻¹²⁰ (principal branch; `nan` of a real negative argument is represented by 0, which makes the
   model's `assert np.isfinite(sf)` fail exactly when the code's does); `np.linalg.solve` by exact elimination. -/
import PymotoVerif.Drv.LAUtil
import PymotoVerif.LA.Eigen
import Mathlib.Data.Nat.Sqrt
namespace PymotoVerif.Drv.C11
open Lean PymotoVerif PymotoVerif.Drv PymotoVerif.Drv.LA PymotoVerif.LinSys PymotoVerif.Eigen Matrix

def RP : RealPart CQ := Cx.realPart ℚ

/-- `√x` for a rational `x ≥ 0`, relative error < 2⁻¹²⁰ -/
def ratSqrt (x : ℚ) : ℚ :=
  if x ≤ 0 then 0
  else
    let p := x.num.toNat
    let q := x.den
    let s := 128 + q.log2 + 1
    let t := p * 2 ^ (2 * s) / q
    (Nat.sqrt t : ℚ) / (2 ^ s : ℚ)

/-- principal complex square root -/
def cSqrt (z : CQ) : CQ :=
  let a := z.re
  let b := z.im
  let r := ratSqrt (a * a + b * b)
  let re := ratSqrt ((r + a) / 2)
  let im := ratSqrt ((r - a) / 2)
  ⟨re, if b < 0 then -im else im⟩

/-- `np.sqrt` on a real dtype (`nan` for a negative argument ↦ 0) or a complex dtype -/
def npSqrt (complexMode : Bool) (z : CQ) : CQ :=
  if complexMode then cSqrt z else (if z.re < 0 then 0 else ⟨ratSqrt z.re, 0⟩)

def nonnegRe (z : CQ) : Bool := decide (0 ≤ z.re)

def getVec (m : ℕ) (j : Json) (k : String) : R (Fin m → CQ) := do
  let a ← getArr j k
  if a.size ≠ m then throw s!"vector {k}: size {a.size}, expected {m}"
  let v ← a.mapM asCQ
  return fun i => v[i.val]!

def asVec (m : ℕ) (v : Json) : R (Fin m → CQ) := do
  let a ← asArr v
  if a.size ≠ m then throw s!"vector: size {a.size}, expected {m}"
  let v ← a.mapM asCQ
  return fun i => v[i.val]!

def optBoolJ : Option Bool → Json
  | none => Json.null
  | some b => Json.bool b

def getOptBool (j : Json) (k : String) : R (Option Bool) :=
  getOpt (fun v => match v.getBool? with | .ok b => pure b | .error _ => throw "bad bool") j k

/-- flags → library routine and (sparse path) what is handed to ARPACK -/
def dispatchH (j : Json) : R Json := do
  let n ← getNat j "n"
  let cached ← getOptBool j "user"
  let aherm ← getBool j "Aherm"
  let bherm ← getOptBool j "Bherm"
  let asp ← getBool j "Asparse"
  let bsp ← getOptBool j "Bsparse"
  let herm := isHermitian cached aherm bherm
  let sparse := isSparse asp bsp
  let lib := dispatch sparse herm
  let base := [("lib", Json.str lib.name), ("hermitian", Json.bool herm), ("sparse", Json.bool sparse)]
  if sparse then
    let modeNormal ← getBool j "modeNormal"
    if !sparseModeOk herm modeNormal then throw "NotImplementedError"
    let A ← getMat n n j "A"
    let B ← getOpt (asMat n n) j "B"
    let nmodes ← getOpt asNat j "nmodes"
    let sigma ← getOpt asCQ j "sigma"
    let c := arpackCall nmodes sigma A B
    return objJ (base ++ [("k", natJ c.k), ("sigma", cqJ c.sigma), ("hasM", Json.bool c.M.isSome),
      ("M", match c.M with | some M => matJ M | none => Json.null), ("shifted", matJ c.shifted)])
  else return objJ base

/-- sorting + sign + normalisation applied to the library's raw pairs -/
def post (j : Json) : R Json := do
  let n ← getNat j "n"
  let m ← getNat j "nm"
  let B ← getOpt (asMat n n) j "B"
  let W ← getVec m j "W"
  let Q ← getMat n m j "Q"
  let cm ← getBool j "qcplx"
  let isortL ← getList asNat j "isort"
  if isortL.length ≠ m then throw "isort: wrong length"
  if isortL.any (fun i => decide (m ≤ i)) then throw "IndexError"
  let isortA := isortL.toArray
  if h : 0 < m then
    let isort : Fin m → Fin m := fun i => ⟨isortA[i.val]! % m, Nat.mod_lt _ h⟩
    match postprocess (npSqrt cm) nonnegRe B W Q isort with
    | .error e => throw e.name
    | .ok (W', Q') => return objJ [("W", vecJ W'), ("Q", matJ Q')]
  else return objJ [("W", Json.arr #[]), ("Q", matJ (0 : Mat n 0))]

/-- tabulate the bordered matrix into `Fin (n+1)` indices and solve exactly -/
def leeSolve {n : ℕ} (P : Matrix (Fin n ⊕ Unit) (Fin n ⊕ Unit) CQ) (r : Fin n ⊕ Unit → CQ) : R (Fin n ⊕ Unit → CQ) := do
  let idx : Fin (n + 1) → Fin n ⊕ Unit := fun i => if h : i.val < n then Sum.inl ⟨i.val, h⟩ else Sum.inr ()
  let P' : Mat (n + 1) (n + 1) := fun i j => P (idx i) (idx j)
  let sol ← exactSolveVec P' (fun i => r (idx i))
  let a := Array.ofFn sol
  return fun s => match s with
    | Sum.inl i => a[i.val]!
    | Sum.inr _ => a[n]!

def densesens (j : Json) : R Json := do
  let n ← getNat j "n"
  let m ← getNat j "nm"
  let A ← getMat n n j "A"
  let B ← getOpt (asMat n n) j "B"
  let W ← getVec m j "W"
  let Q ← getMat n m j "Q"
  let dW ← getOpt (asVec m) j "dW"
  let dQ ← getOpt (asMat n m) j "dQ"
  let ac ← getBool j "Acplx"
  let bc ← getBool j "Bcplx"
  -- the exact solves are done up-front (one per mode) and handed to the model as the `linsolve` parameter (a table)
  let Bm := B.getD 1
  let dWv := dW.getD 0
  let dQv := dQ.getD 0
  let mut sols : Array (Fin n ⊕ Unit → CQ) := #[]
  for i in List.finRange m do
    let skip := decide (∀ r, dQv r i = 0) && decide (dWv i = 0)
    if skip then sols := sols.push (fun _ => 0)
    else
      let s ← leeSolve (leeMatrix A Bm (W i) (fun r => Q r i)) (Sum.elim (fun r => dQv r i) (fun _ => dWv i))
      sols := sols.push s
  -- `linsolve P r` looks the mode up by its right-hand side and matrix (checked: P * sol = r)
  let linsolve : Matrix (Fin n ⊕ Unit) (Fin n ⊕ Unit) CQ → (Fin n ⊕ Unit → CQ) → (Fin n ⊕ Unit → CQ) := fun P r =>
    match (List.finRange m).find? (fun i => decide (∀ s, (P *ᵥ sols[i.val]!) s = r s)) with
    | some i => sols[i.val]!
    | none => fun _ => 0
  let (dA, dB) := denseSens RP ac bc linsolve A B W Q dW dQ
  return objJ [("dA", matJ dA), ("dB", matJ dB)]

def eigvalsens (j : Json) : R Json := do
  let n ← getNat j "n"
  let m ← getNat j "nm"
  let B ← getOpt (asMat n n) j "B"
  let W ← getVec m j "W"
  let Q ← getMat n m j "Q"
  let dW ← getVec m j "dW"
  let ar ← getBool j "Areal"
  let br ← getBool j "Breal"
  let (dA, dB) := sparseEigvalSens RP ar br B W Q dW
  return objJ [("dA", matJ dA.toDense), ("dB", matJ dB.toDense)]

/-- a history of responses on ONE module: per step the library routine and whether a new shift-invert solver is chosen -/
def history (j : Json) : R Json := do
  let user ← getOptBool j "user"
  let steps ← getArr j "steps"
  let sts ← steps.toList.mapM fun s => do
    return (← getBool s "Aherm", ← getOptBool s "Bherm", ← getBool s "sparse")
  let out := historyRun user (HistState.init user) sts
  return listJ (fun (r : Lib × Bool) => objJ [("lib", Json.str r.1.name), ("newAinv", Json.bool r.2)]) out

/-- `_sparse_eigvec_sens`; the per-mode adjoint solvers are exact solves with `(A − λᵢ B)ᵀ` (contract checked). The
optional field `kick` (one scalar per mode) adds `kickᵢ · φᵢ` to every solution the solver returns: for an exact eigenpair
that is ANOTHER solution of the singular system (theorem `eig_sparse_eigvec_solver_indep`: same dyads); with the captured
floating-point pairs the system is only nearly singular and the result moves by `kick · (1 − φᵀBφ)`. -/
def eigvecsens (j : Json) : R Json := do
  let n ← getNat j "n"
  let m ← getNat j "nm"
  let A ← getMat n n j "A"
  let B ← getOpt (asMat n n) j "B"
  let W ← getVec m j "W"
  let Q ← getMat n m j "Q"
  let dW ← getOpt (asVec m) j "dW"
  let dQ ← getMat n m j "dQ"
  let ar ← getBool j "Areal"
  let br ← getBool j "Breal"
  let kick ← getOpt (asVec m) j "kick"
  let kickv : Fin m → CQ := kick.getD 0
  let Bm := B.getD 1
  let mut invs : Array (Mat n n) := #[]
  for i in List.finRange m do
    if decide (∀ r, dQ r i = 0) then invs := invs.push 0
    else
      let Z ← memoM (A - W i • Bm)ᵀ
      let inv ← exactInv Z
      invs := invs.push inv
  let zsolveT : Fin m → (Fin n → CQ) → (Fin n → CQ) := fun i r => invs[i.val]! *ᵥ r + kickv i • fun r => Q r i
  let (dA, dB) := sparseEigvecSens RP ar br zsolveT B W Q dW dQ
  return objJ [("dA", matJ dA.toDense), ("dB", matJ dB.toDense)]

def handlers : List (String × (Json → R Json)) :=
  [("c11.dispatch", dispatchH), ("c11.post", post), ("c11.densesens", densesens), ("c11.eigvalsens", eigvalsens),
   ("c11.history", history), ("c11.eigvecsens", eigvecsens)]
end PymotoVerif.Drv.C11
