/- driver handlers for the C12 model (`Core/Assembly.lean`): Strain / Stress / ElementAverage /
   ElementOperation / NodalOperation / ThermoMechanical -/
import PymotoVerif.Drv.C08
namespace PymotoVerif.Drv.C12
open Lean PymotoVerif PymotoVerif.Drv PymotoVerif.Drv.C08 PymotoVerif.Domain PymotoVerif.Assembly

/-- `Strain` element matrix (tabulated, `Q3`) -/
def strainTab (dim : Nat) (voigt : Bool) (sx sy sz : Q3) : Array (Array Q3) :=
  let B := BgTab dim sx sy sz
  if dim = 2 then
    let avg := tab2A 3 8 (strainBavg 4 (1 / (2 * 2)) (fn3 B))
    tab2A 3 8 (strainMat voigt 4 8 (fn2 avg))
  else
    let avg := tab2A 6 24 (strainBavg 8 (1 / (2 * 2 * 2)) (fn3 B))
    tab2A 6 24 (strainMat voigt 8 24 (fn2 avg))

/-- element matrix of the derived modules: `(R, K, EM)` -/
def emTab (j : Json) : R (Nat × Nat × Array (Array Q3)) := do
  let kind ← getStr j "kind"
  let dim ← getNat j "dim"
  if dim ≠ 2 ∧ dim ≠ 3 then throw "bad dim"
  let (sx, sy, sz) ← sizes j
  let nst := if dim = 2 then 3 else 6
  let K := if dim = 2 then 8 else 24
  match kind with
  | "strain" => return (nst, K, strainTab dim (← getBool j "voigt") sx sy sz)
  | "stress" =>
    let S := strainTab dim true sx sy sz
    let D ← materialD dim sz (← getRat j "E") (← getRat j "nu") (← getStr j "plane")
    return (nst, K, tab2A nst K (matMul nst (fn2 D) (fn2 S)))
  | "average" =>
    if dim = 2 then return (1, 4, tab2A 1 4 (avgElem2 sx sy)) else return (1, 8, tab2A 1 8 (avgElem3 sx sy sz))
  | "thermo" =>
    let D ← materialD dim sz (← getRat j "E") (← getRat j "nu") (← getStr j "plane")
    let alpha := Q3.ofRat (← getRat j "alpha")
    let B := BgTab dim sx sy sz
    let W := WTab dim sx sy sz B D
    if dim = 2 then return (1, 8, tab2A 1 8 (fun _ a => alpha * thermoFrom 4 3 2 (fn3 W) a))
    else return (1, 24, tab2A 1 24 (fun _ a => alpha * thermoFrom 8 6 3 (fn3 W) a))
  | _ => throw "bad kind"

/-- element matrix only -/
def emOp (j : Json) : R Json := do
  let (_, _, em) ← emTab j
  return q3J em

def getEM (j : Json) : R (Nat × Nat × Array (Array Rat)) := do
  match ← getOpt (asList (asList asRat)) j "EM" with
  | some l =>
    let a := (l.map List.toArray).toArray
    return (a.size, (a.getD 0 #[]).size, a)
  | none =>
    let (r, k, em) ← emTab j
    return (r, k, ← projRat em)

/-- `ElementOperation` (and `Strain`, `Stress`, `ElementAverage`) response on a grid -/
def elemOpOp (j : Json) : R Json := do
  let d : Dom := ⟨← getNat j "nelx", ← getNat j "nely", ← getNat j "nelz"⟩
  let (Rr, K, emA) ← getEM j
  let u ← getList asRat j "u"
  let ua := u.toArray
  -- the model evaluates `d.dofConn` itself; for speed the same table is tabulated here
  match elemOp d Rr K (fn2 emA) u.length (fun i => ua.getD i 0) with
  | .error e => throw e
  | .ok (rows, _) =>
    let ndof := u.length / d.nnodes
    let dcA := tab2A d.nel (d.elemnodes * ndof) (d.dofConn ndof)
    let y := if K ≠ d.elemnodes * ndof
      then
        let rep := tab2A rows (ndof * d.elemnodes) (repeatPerDof ndof Rr (fn2 emA))
        tab2A rows d.nel (elemOpApply (fn2 dcA) (ndof * d.elemnodes) (fn2 rep) (fun i => ua.getD i 0))
      else tab2A rows d.nel (elemOpApply (fn2 dcA) K (fn2 emA) (fun i => ua.getD i 0))
    return objJ [("rows", natJ rows), ("y", matJ ratJ y)]

/-- `NodalOperation` (and `ThermoMechanical`) response on a grid; `x` has shape `(R, nel)` -/
def nodalOpOp (j : Json) : R Json := do
  let d : Dom := ⟨← getNat j "nelx", ← getNat j "nely", ← getNat j "nelz"⟩
  let (Rr, K, emA) ← getEM j
  let x ← getList (asList asRat) j "x"
  let xf := matOfLists x
  match nodalOp d Rr K (fn2 emA) xf with
  | .error e => throw e
  | .ok _ =>
    let ndof := K / d.elemnodes
    let dcA := tab2A d.nel K (d.dofConn ndof)
    let el := tab2A d.nel K (nodalEl Rr (fn2 emA) xf)
    let out := tab1A (ndof * d.nnodes)
      (scatterAdd (d.nel * K) (fun p => fn2 dcA (p / K) (p % K)) (fun p => fn2 el (p / K) (p % K)))
    return objJ [("n", natJ (ndof * d.nnodes)), ("y", Json.arr (out.map ratJ))]

/-- `ElementOperation._sensitivity` after a response with a nodal vector of size `"usize"`; `"dy"` is `(rows, nel)` -/
def elemOpSensOp (j : Json) : R Json := do
  let d : Dom := ⟨← getNat j "nelx", ← getNat j "nely", ← getNat j "nelz"⟩
  let (Rr, K, emA) ← getEM j
  let usize ← getNat j "usize"
  let dy ← getList (asList asRat) j "dy"
  let dyf := matOfLists dy
  match elemOpSens d Rr K (fn2 emA) usize dyf with
  | .error e => throw e
  | .ok _ =>
    let ndof := usize / d.nnodes
    let dcA := tab2A d.nel (d.elemnodes * ndof) (d.dofConn ndof)
    let out := if K ≠ d.elemnodes * ndof
      then
        let rep := tab2A (ndof * Rr) (ndof * d.elemnodes) (repeatPerDof ndof Rr (fn2 emA))
        tab1A usize (elemOpSensApply d.nel (fn2 dcA) (ndof * Rr) (ndof * d.elemnodes) (fn2 rep) dyf)
      else tab1A usize (elemOpSensApply d.nel (fn2 dcA) Rr K (fn2 emA) dyf)
    return objJ [("du", Json.arr (out.map ratJ))]

/-- `NodalOperation._sensitivity`; `"dx"` is the nodal seed -/
def nodalOpSensOp (j : Json) : R Json := do
  let d : Dom := ⟨← getNat j "nelx", ← getNat j "nely", ← getNat j "nelz"⟩
  let (Rr, K, emA) ← getEM j
  let dx ← getList asRat j "dx"
  let dxa := dx.toArray
  match nodalOpSens d K (fn2 emA) (fun i => dxa.getD i 0) with
  | .error e => throw e
  | .ok _ =>
    let ndof := K / d.elemnodes
    let dcA := tab2A d.nel K (d.dofConn ndof)
    let y := tab2A Rr d.nel (nodalOpSensApply (fn2 dcA) K (fn2 emA) (fun i => dxa.getD i 0))
    return objJ [("rows", natJ Rr), ("y", matJ ratJ y)]

def handlers : List (String × (Json → R Json)) :=
  [("c12.em", emOp), ("c12.elemop", elemOpOp), ("c12.nodalop", nodalOpOp),
   ("c12.elemop_sens", elemOpSensOp), ("c12.nodalop_sens", nodalOpSensOp)]
end PymotoVerif.Drv.C12
