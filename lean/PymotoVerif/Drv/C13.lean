/- driver handlers for the C13 model (`Core/Domain.lean`) -/
import PymotoVerif.Drv.Util
import PymotoVerif.Core.Domain
namespace PymotoVerif.Drv.C13
open Lean PymotoVerif PymotoVerif.Drv PymotoVerif.Domain

def grid (j : Json) : R Json := do
  let d : Dom := ⟨← getNat j "nelx", ← getNat j "nely", ← getNat j "nelz"⟩
  let ndof ← getNat j "ndof"
  let en := d.elemnodes
  let conn := tab d.nel (fun e => tab en (fun l => d.conn e l))
  let dofc := tab d.nel (fun e => tab (en * ndof) (fun c => d.dofConn ndof e c))
  -- `elements` / `nodes` flattened in C order of the (i,j,k) meshgrid
  let els := (List.range d.nelx).flatMap fun i => (List.range d.nely).flatMap fun jj =>
    (List.range d.nz).map fun k => d.elements i jj k
  let nds := (List.range (d.nelx+1)).flatMap fun i => (List.range (d.nely+1)).flatMap fun jj =>
    (List.range (d.nelz+1)).map fun k => d.nodes i jj k
  let ni := tab d.nnodes d.nodeI
  let nj := tab d.nnodes d.nodeJ
  let nk := tab d.nnodes d.nodeK
  let idx := if d.dim = 2 then [ni, nj] else [ni, nj, nk]
  return objJ [("dim", natJ d.dim), ("nel", natJ d.nel), ("nnodes", natJ d.nnodes),
    ("conn", listJ (listJ natJ) conn), ("dofconn", listJ (listJ natJ) dofc),
    ("elements", listJ natJ els), ("nodes", listJ natJ nds), ("node_indices", listJ (listJ natJ) idx)]

def shape (j : Json) : R Json := do
  let dim ← getNat j "dim"
  let s ← getList asRat j "s"
  let p ← getList asRat j "p"
  match dim, s, p with
  | 2, [sx, sy], [px, py] =>
    return objJ [("N", listJ ratJ (tab 4 (shape2 sx sy px py))),
      ("dN", listJ (listJ ratJ) (tab 2 (fun i => tab 4 (shapeDer2 sx sy px py i))))]
  | 3, [sx, sy, sz], [px, py, pz] =>
    return objJ [("N", listJ ratJ (tab 8 (shape3 sx sy sz px py pz))),
      ("dN", listJ (listJ ratJ) (tab 3 (fun i => tab 8 (shapeDer3 sx sy sz px py pz i))))]
  | _, _, _ => throw "c13.shape: bad arguments"

def handlers : List (String × (Json → R Json)) :=
  [("c13.grid", grid), ("c13.shape", shape)]
end PymotoVerif.Drv.C13
