/- driver handlers for the C14 model (`Core/Overhang.lean`)
   * `c14.parse` : the string branch of the direction parsing at `Int` (exact)
   * `c14.run`   : `_prepare` → `set_parameters` → `_response` → `_sensitivity` (one per seed), the generic
                   definitions run at `Float` with libm `log pow sqrt`; floats are returned bit-exactly -/
import PymotoVerif.Drv.Util
import PymotoVerif.Core.Overhang
namespace PymotoVerif.Drv.C14
open Lean PymotoVerif PymotoVerif.Drv PymotoVerif.Domain PymotoVerif.Overhang

local instance : NatCast Float := ⟨Float.ofNat⟩

/-- exact float output: the IEEE-754 bit pattern as a natural number -/
def floatX (x : Float) : Json := natJ x.toBits.toNat
def errJ (e : String) : Json := objJ [("raises", Json.str e)]

def floatFns : Fns Float := ⟨Float.log, Float.pow, Float.sqrt, 2.2250738585072014e-308⟩

def parse (j : Json) : R Json := do
  let s ← getStr j "s"
  match parseStr (α := Int) s.toList with
  | .error e => return errJ e
  | .ok v => return listJ intJ v

def optField (j : Json) (k : String) : Option Json :=
  match j.getObjVal? k with
  | .ok Json.null => none
  | .ok v => some v
  | .error _ => none

def fnOfArr (a : Array Float) : Nat → Float := fun i => a.getD i 0

def run (j : Json) : R Json := do
  let dom : Dom := ⟨← getNat j "nelx", ← getNat j "nely", ← getNat j "nelz"⟩
  let dirJ ← getField j "direction"
  let arg : DirArg Float ← match dirJ with
    | .str s => pure (DirArg.str s.toList)
    | v => do pure (DirArg.vec (← asList asFloat v))
  let xi0 ← getFloat j "xi0"
  let p ← getFloat j "p"
  let eps ← getFloat j "eps"
  let ns : Option Int ← match optField j "nsampling" with
    | none => pure none
    | some v => do pure (some (← asInt v))
  match prepare floatFns dom arg xi0 p eps ns with
  | .error e => return objJ [("ctor", errJ e)]
  | .ok pr =>
    let dirOut := listJ floatX (tab 3 pr.direction)
    let g := geoOf pr
    let base : List (String × Json) := [("direction", dirOut), ("nsampling", natJ pr.nsampling),
      ("dir_layer", natJ g.dirLayer), ("dx_layer", intJ g.dxLayer)]
    match optField j "x" with
    | none => return objJ base
    | some xv =>
      let xs ← asList asFloat xv
      let x := fnOfArr xs.toArray
      match setParameters floatFns pr with
      | .error e => return objJ (base ++ [("response", errJ e)])
      | .ok P =>
        let rs := response floatFns P g x
        let n := dom.nel
        let seeds ← match optField j "seeds" with
          | none => pure []
          | some sv => asList (asList asFloat) sv
        let dxs := seeds.map fun sd =>
          let out := sensitivity floatFns P g x rs (fnOfArr sd.toArray)
          listJ floatX (tab n (vget out))
        return objJ (base ++ [("q", floatX P.q), ("shift", floatX P.shift), ("backshift", floatX P.backshift),
          ("y", listJ floatX (tab n (vget rs.xprint))), ("smax", listJ floatX (tab n (vget rs.smax))),
          ("dx", Json.arr dxs.toArray)])

def handlers : List (String × (Json → R Json)) :=
  [("c14.parse", parse), ("c14.run", run)]
end PymotoVerif.Drv.C14
