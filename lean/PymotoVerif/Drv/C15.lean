/- driver handlers for the C15 model (`LA/Dyad.lean`): one request = one complete operation program, run at `Cx Rat` -/
import PymotoVerif.Drv.Util
import PymotoVerif.LA.Dyad
namespace PymotoVerif.Drv.C15
open Lean PymotoVerif PymotoVerif.Drv PymotoVerif.Dyad

abbrev Q := Rat

def asCx (v : Json) : R (Cx Q) := do
  let a ← asArr v
  match a.toList with
  | [x, y] => pure ⟨← asRat x, ← asRat y⟩
  | _ => throw "bad complex"

def asBool (v : Json) : R Bool :=
  match v.getBool? with
  | .ok b => .ok b
  | .error _ => .error "not a bool"

/-- optional field: absent or null → none -/
def optField (j : Json) (k : String) : Option Json :=
  match j.getObjVal? k with
  | .ok Json.null => none
  | .ok v => some v
  | .error _ => none

def asNArr (v : Json) : R (NArr Q) := do
  pure ⟨← getList asNat v "s", ← getList asCx v "d", ← getBool v "c"⟩
def asDVec (v : Json) : R (DVec Q) := do
  pure ⟨← getList asCx v "d", ← getBool v "c"⟩
def asIArr (v : Json) : R IArr := do
  pure ⟨← getList asNat v "s", ← getList asInt v "d"⟩

def optM {β} (f : Json → R β) (o : Option Json) : R (Option β) :=
  match o with
  | none => pure none
  | some v => do pure (some (← f v))

def asIdx (v : Json) : R Idx := do
  match ← getStr v "k" with
  | "sl" => pure (.sl (← optM asInt (optField v "a")) (← optM asInt (optField v "b")) (← optM asInt (optField v "st")))
  | "int" => pure (.int (← getInt v "i"))
  | "arr" => pure (.arr (← asIArr v))
  | k => throw s!"bad index kind {k}"

def asMatArg (v : Json) : R (MatArg Q) := do
  match v with
  | Json.null => pure .none
  | _ =>
    match ← getStr v "k" with
    | "coo" => pure (.coo ⟨← getNat v "nrow", ← getNat v "ncol", ← getList asInt v "row", ← getList asInt v "col",
                          ← getList asCx v "data", ← getBool v "c"⟩)
    | "dense" => pure (.dense (← asNArr v))
    | k => throw s!"bad matrix kind {k}"

def asUnOp : String → Option UnOp
  | "copy" => some .copy | "pos" => some .pos | "neg" => some .neg | "conj" => some .conj
  | "real" => some .real | "imag" => some .imag | "transpose" => some .transpose
  | _ => none

def asInstr (v : Json) : R (Instr Q) := do
  let op ← getStr v "op"
  match asUnOp op with
  | some u => pure (.un u (← getNat v "r"))
  | none =>
  match op with
  | "new" => pure (.new (← getList asNArr v "u") (← optM (asList asNArr) (optField v "v")) (← getInt v "ulen") (← getInt v "vlen"))
  | "add_dyad" => pure (.addDyad (← getNat v "r") (← getList asNArr v "u") (← optM (asList asNArr) (optField v "v"))
                        (← optM asCx (optField v "fac")))
  | "getitem" => pure (.getitem (← getNat v "r") (← asIdx (← getField v "i0")) (← asIdx (← getField v "i1")))
  | "setitem" => pure (.setitem (← getNat v "r") (← asIdx (← getField v "i0")) (← asIdx (← getField v "i1")) (← getBool v "zero"))
  | "iadd" => pure (.iadd (← getNat v "r") (← getNat v "s"))
  | "isub" => pure (.isub (← getNat v "r") (← getNat v "s"))
  | "addS" => pure (.addS (← getNat v "r") (← asCx (← getField v "z")))
  | "addD" => pure (.addD (← getNat v "r") (← getNat v "s"))
  | "addA" => pure (.addA (← getNat v "r") (← asNArr (← getField v "a")))
  | "subS" => pure (.subS (← getNat v "r") (← asCx (← getField v "z")))
  | "subD" => pure (.subD (← getNat v "r") (← getNat v "s"))
  | "subA" => pure (.subA (← getNat v "r") (← asNArr (← getField v "a")))
  | "rsubS" => pure (.rsubS (← asCx (← getField v "z")) (← getNat v "r"))
  | "rsubA" => pure (.rsubA (← asNArr (← getField v "a")) (← getNat v "r"))
  | "mul" => pure (.mul (← getNat v "r") (← asCx (← getField v "z")) (← getBool v "zc"))
  | "rmul" => pure (.rmul (← asCx (← getField v "z")) (← getBool v "zc") (← getNat v "r"))
  | "contract" => pure (.contract (← getNat v "r") (← optM asNArr (optField v "mat")) (← optM asIArr (optField v "rows"))
                        (← optM asIArr (optField v "cols")))
  | "contract_multi" => pure (.contractMulti (← getNat v "r") (← getList asMatArg v "mats"))
  | "todense" => pure (.todense (← getNat v "r"))
  | "diagonal" => pure (.diagonal (← getNat v "r") (← getInt v "k"))
  | "dotV" => pure (.dotV (← getNat v "r") (← asDVec (← getField v "x")))
  | "rdotV" => pure (.rdotV (← asDVec (← getField v "x")) (← getNat v "r"))
  | "matmulM" => pure (.matmulM (← getNat v "r") (← asNArr (← getField v "M")))
  | "rmatmulM" => pure (.rmatmulM (← asNArr (← getField v "M")) (← getNat v "r"))
  | "matmulD" => pure (.matmulD (← getNat v "r") (← getNat v "s"))
  | _ => throw s!"unknown op {op}"

def cxJ (z : Cx Q) : Json := Json.arr #[ratJ z.re, ratJ z.im]
def dvecJ (x : DVec Q) : Json := objJ [("d", listJ cxJ x.d), ("c", Json.bool x.c)]
def narrJ (a : NArr Q) : Json := objJ [("s", listJ natJ a.shape), ("d", listJ cxJ a.data), ("c", Json.bool a.c)]
def carJ (C : Carrier Q) : Json :=
  objJ [("u", listJ dvecJ C.u), ("v", listJ dvecJ C.v), ("ulen", intJ C.ulen), ("vlen", intJ C.vlen), ("c", Json.bool C.c)]

/-- target register of an in-place instruction -/
def target : Instr Q → Option Nat
  | .addDyad r .. => some r
  | .setitem r .. => some r
  | .iadd r _ => some r
  | .isub r _ => some r
  | _ => none

def outJ (env : Env Q) (i : Instr Q) (o : Out Q) : Json :=
  let tgt : List (String × Json) := match target i with
    | some r => match env[r]? with
      | some C => [("car", carJ C)]
      | none => []
    | none => []
  match o with
  | .car r => objJ ([("t", Json.str "car"), ("r", natJ r)] ++ (match env[r]? with | some C => [("car", carJ C)] | none => []))
  | .arr a => objJ [("t", Json.str "arr"), ("a", narrJ a)]
  | .cres c => objJ [("t", Json.str "cres"), ("s", listJ natJ c.shape), ("d", listJ cxJ c.data), ("c", Json.bool c.c),
                     ("pyfloat", Json.bool c.pyfloat)]
  | .unit => objJ ([("t", Json.str "unit")] ++ tgt)
  | .err e => objJ ([("t", Json.str "err"), ("e", Json.str e.name)] ++ tgt)
  | .badReg => objJ [("t", Json.str "badreg")]

def runJ : Env Q → List (Instr Q) → Env Q × List Json
  | env, [] => (env, [])
  | env, i :: rest =>
    let (env1, o) := step env i
    let j := outJ env1 i o
    let (env2, js) := runJ env1 rest
    (env2, j :: js)

def prog (j : Json) : R Json := do
  let is ← getList asInstr j "prog"
  let (env, outs) := runJ [] is
  return objJ [("outs", Json.arr outs.toArray), ("env", listJ carJ env)]

def handlers : List (String × (Json → R Json)) :=
  [("c15.prog", prog)]
end PymotoVerif.Drv.C15
