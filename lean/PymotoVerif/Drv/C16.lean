/- driver handlers for the C16 model (`Core/Aggregation.lean`)
   * `c16.actset`   : AggActiveSet at `Rat` (exact)
   * `c16.scaling`  : a history of AggScaling calls at `Rat` (exact)
   * `c16.response` : a history of `response()` / `sensitivity()` calls of PNorm / SoftMinMax / KSFunction,
                      the SAME generic definitions run at `Float` with libm `exp log pow` -/
import PymotoVerif.Drv.Util
import PymotoVerif.Core.Aggregation
namespace PymotoVerif.Drv.C16
open Lean PymotoVerif PymotoVerif.Drv PymotoVerif.Agg

def fnOfList (l : List Nat) : Nat → Nat := fun i => l.getD i 0

def maskJ (n : Nat) : Option (Nat → Bool) → Json
  | none => Json.str "ellipsis"
  | some s => listJ (fun b => Json.bool b) (tab n s)

/-- exact float output: the IEEE-754 bit pattern as a natural number (`Util.floatJ` keeps only 6 digits) -/
def floatX (x : Float) : Json := natJ x.toBits.toNat

/-- lift a model error (enum string) into the result instead of a driver error -/
def errJ (e : String) : Json := objJ [("raises", Json.str e)]

def actset (j : Json) : R Json := do
  let lr ← getRat j "lr"
  let ur ← getRat j "ur"
  let la ← getRat j "la"
  let ua ← getRat j "ua"
  let xs ← getList asRat j "x"
  let is ← getList asNat j "isort"
  let n := xs.length
  match ActiveSet.mk? lr ur la ua with
  | .error e => return errJ e
  | .ok c =>
    match c.call truncRat n (ofList xs) (fnOfList is) with
    | .error e => return errJ e
    | .ok sel =>
      return objJ [("mask", maskJ n sel),
        ("nlower", intJ (nLower truncRat c n)), ("nupper", intJ (nUpper truncRat c n)),
        ("xrel", match sel with
          | none => Json.null
          | some _ => listJ ratJ (tab n (xrel n (ofList xs))))]

def scaling (j : Json) : R Json := do
  let which ← getStr j "which"
  let d ← getRat j "damping"
  let calls ← getArr j "calls"
  match Scaling.mk? which d with
  | .error e => return errJ e
  | .ok s =>
    let hist ← calls.toList.mapM fun c => do
      let xs ← getList asRat c "x"
      let a ← getRat c "approx"
      pure (xs.length, ofList xs, a)
    match s.calls none hist with
    | .error e => return errJ e
    | .ok l => return listJ ratJ l

/-! ### Float instantiation -/

instance : NatCast Float := ⟨Float.ofNat⟩

def floatFns : Fns Float := ⟨Float.exp, Float.log, Float.pow⟩
/-- Python `int(f)` for a finite float of moderate size -/
def truncFloat (f : Float) : Int := f.toInt64.toInt

def optField (j : Json) (k : String) : Option Json :=
  match j.getObjVal? k with
  | .ok Json.null => none
  | .ok v => some v
  | .error _ => none

def parseKind (kind : String) (p : Float) : R (Kind Float) :=
  match kind with
  | "pnorm" => .ok (.pnorm p)
  | "softminmax" => .ok (.softminmax p)
  | "ks" => .ok (.ks p)
  | _ => .error s!"unknown kind {kind}"

def response (j : Json) : R Json := do
  let kind ← parseKind (← getStr j "kind") (← getFloat j "param")
  -- constructor errors are reported like call errors
  let aset : Except String (Option (ActiveSet Float)) ← match optField j "actset" with
    | none => pure (Except.ok none)
    | some v => do
      let l ← asList asFloat v
      match l with
      | [lr, ur, la, ua] => pure ((ActiveSet.mk? lr ur la ua).map some)
      | _ => throw "actset: need 4 numbers"
  let scal : Except String (Option (Scaling Float)) ← match optField j "scaling" with
    | none => pure (Except.ok none)
    | some v => do
      let which ← getStr v "which"
      let d ← getFloat v "damping"
      pure ((Scaling.mk? which d).map some)
  match aset, scal with
  | .error e, _ => return objJ [("ctor", errJ e)]
  | _, .error e => return objJ [("ctor", errJ e)]
  | .ok a, .ok s =>
    let cfg : Config Float := ⟨kind, a, s⟩
    let calls ← getArr j "calls"
    let mut st : State Float := State.init
    let mut outs : Array Json := #[]
    for c in calls do
      let xs ← getList asFloat c "x"
      let is ← getList asNat c "isort"
      let n := xs.length
      let x := ofList xs
      match Agg.response floatFns truncFloat cfg st n x (fnOfList is) with
      | .error e =>
        outs := outs.push (errJ e)
        break
      | .ok (v, st') =>
        st := st'
        let mut fields : List (String × Json) :=
          [("y", floatX v), ("sf", floatX st'.sf), ("mask", maskJ n st'.select)]
        match optField c "dfdy" with
        | none => pure ()
        | some dv =>
          let dfdy ← asFloat dv
          match Agg.sensitivity floatFns cfg st' n x dfdy with
          | .error e => fields := fields ++ [("dx", errJ e)]
          | .ok dx => fields := fields ++ [("dx", listJ floatX (tab n dx))]
        outs := outs.push (objJ fields)
    return objJ [("outs", Json.arr outs)]

/-- float round trip of the JSON encoding (self-test of the transport) -/
def echo (j : Json) : R Json := do
  let xs ← getList asFloat j "x"
  return listJ floatX xs

def handlers : List (String × (Json → R Json)) :=
  [("c16.actset", actset), ("c16.scaling", scaling), ("c16.response", response), ("c16.echo", echo)]
end PymotoVerif.Drv.C16
