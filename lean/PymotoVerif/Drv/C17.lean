/- driver handlers for the C17 model (`Core/OC.lean`), run at `Float` with `Float.sqrt`
   * `c17.run`    : a whole `minimize_oc` run on the separable problem  f(x) = Σ cᵢ/xᵢ  (gradient −cᵢ/xᵢ²)
   * `c17.concat` : `_concatenate_to_array` / `_split_from_array` round trip on integer data (exact)
   * `c17.echo`   : float transport self-test -/
import PymotoVerif.Drv.Util
import PymotoVerif.Core.OC
namespace PymotoVerif.Drv.C17
open Lean PymotoVerif PymotoVerif.Drv PymotoVerif.DV PymotoVerif.OC

/-- exact float output: the IEEE-754 bit pattern as a natural number -/
def fx (x : Float) : Json := natJ x.toBits.toNat
def errJ (e : String) : Json := objJ [("raises", Json.str e)]

def optField (j : Json) (k : String) : Option Json :=
  match j.getObjVal? k with
  | .ok Json.null => none
  | .ok v => some v
  | .error _ => none

/-- `{"s": v}` scalar or `{"v": [...]}` vector -/
def getBnd (j : Json) (k : String) : R (Bnd Float) := do
  let v ← getField j k
  match v.getObjVal? "s" with
  | .ok s => return .scalar (← asFloat s)
  | .error _ => return .vec (← getList asFloat v "v")

/-- the harness problem: `f = Σ cᵢ/xᵢ`, `df/dxᵢ = −cᵢ/xᵢ²` (same operations as the harness module) -/
def sepProblem (n : Nat) (c : Nat → Float) : Problem Float := fun x =>
  (sumRange n (fun i => c i / x i), fun i => -(c i) / (x i * x i))

def statesOf (v : Json) : R (List (Option (List Float))) := do
  let a ← asArr v
  a.toList.mapM fun s => match s with
    | Json.null => pure none
    | _ => do pure (some (← asList asFloat s))

def run (j : Json) : R Json := do
  let states ← statesOf (← getField j "states")
  let c ← getList asFloat j "c"
  let tolx ← getFloat j "tolx"
  let tolf ← getFloat j "tolf"
  let maxit ← getNat j "maxit"
  let xmin ← getBnd j "xmin"
  let xmax ← getBnd j "xmax"
  let move ← getBnd j "move"
  let l1 ← getFloat j "l1init"
  let l2 ← getFloat j "l2init"
  let tol ← getFloat j "l1l2tol"
  let fuel ← getNat j "fuel"
  let maxvol ← match optField j "maxvol" with
    | none => pure none
    | some v => do pure (some (← asFloat v))
  match minimizeOC Float.sqrt (sepProblem c.length (ofList c)) states tolx tolf maxit xmin xmax move l1 l2 tol maxvol fuel with
  | .error e => return errJ e
  | .ok o =>
    return objJ [("trace", listJ (listJ fx) o.trace), ("states", listJ (listJ fx) o.states),
      ("stop", Json.str o.stop), ("relf", listJ fx o.relf), ("relx", listJ fx o.relx),
      ("margins", listJ fx o.margins)]

/-- `_concatenate_to_array` then `_split_from_array` / the slice write-back, on integers -/
def concatH (j : Json) : R Json := do
  let a ← getArr j "states"
  let states ← a.toList.mapM fun s => match s with
    | Json.null => pure (none : Option (List Int))
    | _ => do pure (some (← asList asInt s))
  match concatenate states with
  | .error e => return errJ e
  | .ok (v, cl) =>
    let values ← match optField j "values" with
      | none => pure v
      | some w => asList asInt w
    let sp : Json := match split values cl with
      | .error e => errJ e
      | .ok l => listJ (listJ intJ) l
    return objJ [("values", listJ intJ v), ("cumlens", listJ natJ cl), ("split", sp),
      ("writeback", listJ (listJ intJ) (writeBack values cl states.length))]

def echo (j : Json) : R Json := do
  let xs ← getList asFloat j "x"
  return listJ fx xs

def handlers : List (String × (Json → R Json)) :=
  [("c17.run", run), ("c17.concat", concatH), ("c17.echo", echo)]
end PymotoVerif.Drv.C17
