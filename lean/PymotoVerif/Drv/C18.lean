/- driver handler for the C18 model (`Core/Signal.lean`): one line = one whole operation sequence;
   the answer lists the full observable state after the construction of the base signals and after EVERY operation -/
import PymotoVerif.Drv.Util
import PymotoVerif.Core.Signal
namespace PymotoVerif.Drv.C18
open Lean PymotoVerif PymotoVerif.Drv PymotoVerif.Signal

def optInt (v : Json) : R (Option Int) :=
  match v with
  | .null => pure none
  | _ => do pure (some (← asInt v))

def asSlice (v : Json) : R PySlice := do
  let a ← asArr v
  match a.toList with
  | [x, y, z] => pure ⟨← optInt x, ← optInt y, ← optInt z⟩
  | _ => throw "slice: need [start, stop, step]"

def asBoolJ (v : Json) : R Bool :=
  match v.getBool? with
  | .ok b => pure b
  | .error _ => throw "not a bool"

/-- a signal reference: `{"b": i}` (base signal) or `{"s": j}` (declared slice number j) -/
def asSigRef (slices : Array SigRef) (v : Json) : R SigRef := do
  match v.getObjVal? "b" with
  | .ok b => pure (.base (← asNat b))
  | .error _ =>
    let j ← getNat v "s"
    match slices[j]? with
    | some s => pure s
    | none => throw s!"unknown slice {j}"

/-- an entry of a mixed tuple: `[start, stop, step]` (slice), an integer, or `{"a": [...]}` (the integer array) -/
def asMixed (items : List Json) : R SliceSpec := do
  let rec go (pre : List BItem) (arr : Option (List Int)) (post : List BItem) : List Json → R SliceSpec
    | [] => pure (.mixed pre.reverse arr post.reverse)
    | it :: rest => do
      match it.getObjVal? "a" with
      | .ok a =>
        if arr.isSome then throw "mixed: more than one integer array is outside the input language"
        go pre (some (← asList asInt a)) post rest
      | .error _ =>
        let b : BItem ← match it with
          | .arr _ => do pure (BItem.sl (← asSlice it))
          | _ => do pure (BItem.int (← asInt it))
        if arr.isSome then go pre arr (b :: post) rest else go (b :: pre) arr post rest
  go [] none [] items

def asSpec (v : Json) : R SliceSpec := do
  let k ← getStr v "k"
  match k with
  | "mixed" => asMixed (← getList pure v "sl")
  | "basic" => pure (.basic (← asSlice (← getField v "sl")))
  | "tuple" => pure (.tuple (← getList asSlice v "sl"))
  | "int" => pure (.intArr (← getList asInt v "sl"))
  | _ => throw s!"unknown slice kind {k}"

def declSlices (js : List Json) : R (Array SigRef) :=
  js.foldlM (init := #[]) fun acc v => do
    let p ← asSigRef acc (← getField v "p")
    pure (acc.push (.slice p (← asSpec v)))

def mkData (re im : List Int) : List GI :=
  (List.range re.length).map fun i => ⟨re.getD i 0, im.getD i 0⟩

def asArg (v : Json) : R Arg := do
  match v with
  | .null => pure .none
  | _ =>
    match v.getObjVal? "sc" with
    | .ok s =>
      match (← asArr s).toList with
      | [c, x, y] => pure (.sc (← asBoolJ c) ⟨← asInt x, ← asInt y⟩)
      | _ => throw "sc: need [cplx, re, im]"
    | .error _ =>
    match v.getObjVal? "new" with
    | .ok n =>
      let c ← getBool n "c"
      let shape ← getList asNat n "shape"
      let re ← getList asInt n "re"
      let im ← if c then getList asInt n "im" else pure []
      if re.length != prod shape then throw "new: data length does not match the shape"
      pure (.newArr c shape (mkData re im))
    | .error _ =>
    match v.getObjVal? "ext" with
    | .ok k => pure (.ext (← asNat k))
    | .error _ =>
      let h ← getArr v "held"
      match h.toList with
      | [i, f] =>
        let f ← match f.getStr? with
          | .ok "state" => pure Fld.state
          | .ok "sens" => pure Fld.sens
          | _ => throw "held: field must be state|sens"
        pure (.held (← asNat i) f)
      | _ => throw "held: need [i, field]"

def asOp (slices : Array SigRef) (v : Json) : R Op := do
  let o ← getStr v "op"
  match o with
  | "set_state" => pure (.setState (← asSigRef slices (← getField v "sig")) (← asArg (← getField v "a")))
  | "set_sens" => pure (.setSens (← asSigRef slices (← getField v "sig")) (← asArg (← getField v "a")))
  | "add" => pure (.add (← asSigRef slices (← getField v "sig")) (← asArg (← getField v "a")))
  | "reset" =>
    let ka ← match (← getField v "ka") with
      | .null => pure none
      | b => do pure (some (← asBoolJ b))
    pure (.reset (← asSigRef slices (← getField v "sig")) ka)
  | "mutate" => pure (.mutate (← asArg (← getField v "a")) (← getInt v "k"))
  | "new_signal" => pure (.newSignal (← asArg (← getField v "st")) (← asArg (← getField v "se")))
  | _ => throw s!"unknown op {o}"

/-! input-domain checks (requests outside the model's input language are driver errors, not model behaviour) -/
def SigRef.root : SigRef → Nat
  | .base i => i
  | .slice p _ => SigRef.root p

def argOk (w : World) : Arg → Bool
  | .ext k => k < w.exts.length
  | .held i _ => i < w.nsig
  | _ => true

def opOk (w : World) : Op → Bool
  | .setState s a => SigRef.root s < w.nsig && argOk w a
  | .setSens s a => SigRef.root s < w.nsig && argOk w a
  | .add s a => SigRef.root s < w.nsig && argOk w a
  | .reset s _ => SigRef.root s < w.nsig
  | .mutate a _ => argOk w a
  | .newSignal st se => argOk w st && argOk w se

/-! observation -/
def errJ : Err → Json
  | .TypeError => "TypeError"
  | .ValueError => "ValueError"
  | .IndexError => "IndexError"
  | .Unsupported => "Unsupported"

def boolJ (b : Bool) : Json := Json.bool b

/-- imaginary parts are listed for complex arrays (and for a real array if the model ever left one non-zero) -/
def dataJ (c : Bool) (shape : List Nat) (d : List GI) : Json :=
  if c || d.any (fun x => x.im != 0) then
    Json.arr #["arr", boolJ c, listJ natJ shape, listJ (fun x => intJ x.re) d, listJ (fun x => intJ x.im) d]
  else Json.arr #["arr", boolJ c, listJ natJ shape, listJ (fun x => intJ x.re) d]

def valJ (h : Heap) : PVal → Json
  | .none => Json.null
  | .sc c x => Json.arr #["sc", boolJ c, intJ x.re, intJ x.im]
  | .npsc c x => Json.arr #["npsc", boolJ c, intJ x.re, intJ x.im]
  | .arr r => dataJ (h.objs r).cplx (h.objs r).shape (h.objs r).data
  | .view r idx shp => dataJ (h.objs r).cplx shp (h.read r idx)

/-- identity classes: label = position of the first entry that is the same heap array; -1 for None / scalars -/
def identLabels (vs : List PVal) : List Int :=
  let keys : List (Option Nat) := vs.map fun v => match v with
    | .arr r => some r
    | _ => none
  keys.map fun k => match k with
    | none => -1
    | some r => ((keys.findIdx? (· == some r)).getD 0 : Nat)

def observe (w : World) (slices : Array SigRef) (e : Option Err) : Json :=
  let sigs := (List.range w.nsig).map w.sigs
  let held : List PVal := sigs.flatMap fun s => [s.state, s.sens]
  let exts : List PVal := w.exts.map PVal.arr
  let slJ (s : SigRef) (f : Fld) : Json :=
    if SigRef.root s < w.nsig then
      match Signal.getField f w s with
      | .error e => objJ [("err", errJ e)]
      | .ok (w1, v) => valJ w1.heap v
    else Json.str "na"
  objJ [("err", match e with | none => Json.null | some e => errJ e),
    ("sigs", listJ (fun s => Json.arr #[valJ w.heap s.state, valJ w.heap s.sens, boolJ s.keepAlloc]) sigs),
    ("slices", listJ (fun s => Json.arr #[slJ s .state, slJ s .sens]) slices.toList),
    ("exts", listJ (valJ w.heap) exts),
    ("ident", listJ intJ (identLabels (held ++ exts)))]

def runObs (slices : Array SigRef) : World → List Op → R (List Json)
  | _, [] => pure []
  | w, op :: ops => do
    if !opOk w op then throw "operation outside the input language (unknown signal / external array)"
    let (w1, e) := step w op
    let rest ← runObs slices w1 ops
    pure (observe w1 slices e :: rest)

def runH (j : Json) : R Json := do
  let slices ← declSlices (← getList pure j "slices")
  let ops ← getList (asOp slices) j "ops"
  let obs ← runObs slices World.empty ops
  pure (Json.arr obs.toArray)

/-- `slice.indices` + index set of one slice spec on an array of a given shape (exhaustive small-space check) -/
def selH (j : Json) : R Json := do
  let shape ← getList asNat j "shape"
  let sp ← asSpec j
  match selIdx shape sp with
  | .error e => pure (objJ [("err", errJ e)])
  | .ok (pos, shp) => pure (objJ [("pos", listJ natJ pos), ("shape", listJ natJ shp)])

def handlers : List (String × (Json → R Json)) :=
  [("c18.run", runH), ("c18.sel", selH)]
end PymotoVerif.Drv.C18
