/- driver handlers for the C20 model (`Core/IO.lean`).  Byte strings travel as lower-case hex. -/
import PymotoVerif.Drv.Util
import PymotoVerif.Core.IO
namespace PymotoVerif.Drv.C20
open Lean PymotoVerif PymotoVerif.Drv PymotoVerif.Domain PymotoVerif.IO

def hexVal (c : Char) : Option Nat :=
  if '0' ≤ c ∧ c ≤ '9' then some (c.toNat - 48)
  else if 'a' ≤ c ∧ c ≤ 'f' then some (c.toNat - 87)
  else if 'A' ≤ c ∧ c ≤ 'F' then some (c.toNat - 55)
  else none

def hexGo : List Char → Array UInt8 → R (Array UInt8)
  | [], acc => .ok acc
  | [_], _ => .error "odd hex length"
  | a :: b :: rest, acc =>
    match hexVal a, hexVal b with
    | some x, some y => hexGo rest (acc.push (x * 16 + y).toUInt8)
    | _, _ => .error "bad hex digit"

def unhex (s : String) : R Bytes := do return (← hexGo s.toList #[]).toList

def hexDigit (n : Nat) : Char := if n < 10 then Char.ofNat (48 + n) else Char.ofNat (87 + n)

def hex (b : Bytes) : String :=
  String.ofList (b.foldr (fun c acc => hexDigit (c.toNat / 16) :: hexDigit (c.toNat % 16) :: acc) [])

def hexJ (b : Bytes) : Json := Json.str (hex b)
def asHex (v : Json) : R Bytes :=
  match v.getStr? with
  | .ok s => unhex s
  | .error _ => .error "not a hex string"
def getHex (j : Json) (k : String) : R Bytes := do asHex (← getField j k)

def chunks4 : Bytes → List Bytes
  | a :: b :: c :: d :: rest => [a, b, c, d] :: chunks4 rest
  | _ => []

def getDom (j : Json) : R Dom := do
  return ⟨← getNat j "nelx", ← getNat j "nely", ← getNat j "nelz"⟩

def getHdr (j : Json) : R Hdr := do
  let h ← getField j "hdr"
  let t ← getList asHex h "txt"
  match t with
  | [ox, oy, oz, dx, dy, dz] => return ⟨← getBool h "le", ox, oy, oz, dx, dy, dz⟩
  | _ => throw "hdr.txt needs six texts"

def asVec (v : Json) : R Vec := do
  let name ← getHex v "name"
  let shape ← getList asNat v "shape"
  let data ← getHex v "data"
  let words := chunks4 data
  if data.length ≠ 4 * shape.foldl (· * ·) 1 then throw "payload length does not match the shape"
  return ⟨name, shape, words⟩

def arrJ (a : Arr) : Json := objJ [("name", hexJ a.name), ("ncomp", natJ a.ncomp), ("payload", hexJ a.payload)]
def optJ {α} (f : α → Json) : Option α → Json
  | none => Json.null
  | some x => f x
def docJ (d : Doc) : Json :=
  objJ [("le", Json.bool d.le), ("extent", listJ natJ [d.nelx, d.nely, d.nelz]),
    ("origin", listJ hexJ [d.ox, d.oy, d.oz]), ("spacing", listJ hexJ [d.dx, d.dy, d.dz]),
    ("point", optJ (listJ arrJ) d.point), ("cell", optJ (listJ arrJ) d.cell)]

def fileJ (f : Option (Bytes × Bytes)) : Json :=
  optJ (fun (p : Bytes × Bytes) => objJ [("name", hexJ p.1), ("bytes", hexJ p.2)]) f

/-- base64: encoding, strict decoding of the encoding, length formula -/
def b64 (j : Json) : R Json := do
  let d ← getHex j "data"
  let e := b64encode d
  return objJ [("enc", hexJ e), ("dec", optJ hexJ (b64decode e)), ("len", natJ (b64len d.length))]

/-- strict decoder on arbitrary text -/
def b64dec (j : Json) : R Json := do
  let d ← getHex j "data"
  return optJ hexJ (b64decode d)

/-- `DomainDefinition.write_to_vti` -/
def vti (j : Json) : R Json := do
  let d ← getDom j
  let h ← getHdr j
  let vs ← getList asVec j "vecs"
  let fn ← getHex j "filename"
  match writeVti d h vs fn with
  | .error e => throw e
  | .ok (skipped, f) =>
    -- the model's own parser applied to the model's bytes must give back the document
    let rt := match buildDoc d h vs with
      | .ok r => (match r.doc with
        | some doc => decide (parseVti (renderVti doc) = some doc)
        | none => true)
      | .error _ => false
    return objJ [("skipped", listJ hexJ skipped), ("file", fileJ f), ("roundtrip", Json.bool rt)]

/-- the model's parser on given bytes (the harness sends the bytes of the REAL file) -/
def parse (j : Json) : R Json := do
  let d ← getHex j "data"
  return optJ docJ (parseVti d)

def wvtiGo (d : Dom) (h : Hdr) (saveto : Bytes) (ow : Bool) : Nat → List (List Vec) → List Json → List Json
  | _, [], acc => acc.reverse
  | it, c :: cs, acc =>
    match writeToVtiStep d h saveto ow it c with
    | .error e => wvtiGo d h saveto ow it cs (objJ [("err", Json.str e)] :: acc)
    | .ok (it', skipped, f) =>
      wvtiGo d h saveto ow it' cs (objJ [("iter", natJ it'), ("skipped", listJ hexJ skipped), ("file", fileJ f)] :: acc)

/-- `WriteToVTI` : a whole history of `response()` calls -/
def wvti (j : Json) : R Json := do
  let d ← getDom j
  let h ← getHdr j
  let saveto ← getHex j "saveto"
  let ow ← getBool j "overwrite"
  let calls ← getList (asList asVec) j "calls"
  return Json.arr (wvtiGo d h saveto ow 0 calls []).toArray

def asLogSig (v : Json) : R LogSig := do
  let tag ← getHex v "tag"
  let sh ← getField v "shape"
  let shape ← (if sh.isNull then pure none else do return some (← asList asNat sh))
  let toks ← getList asHex v "toks"
  let n := match shape with
    | none => 1
    | some s => let sz := s.foldl (· * ·) 1; if sz > 1 then sz else toks.length
  if toks.length ≠ n then throw "number of texts does not match the shape"
  let ndim := (shape.getD []).length
  -- memory layout (ignored by the model since the code iterates in C order); absent = C-contiguous
  let perm ← (match v.getObjVal? "perm" with
    | .ok p => asList asNat p
    | .error _ => pure (List.range ndim))
  let flip ← (match v.getObjVal? "flip" with
    | .ok p => asList (fun x => match x.getBool? with | .ok b => pure b | .error _ => throw "flip: not a bool") p
    | .error _ => pure (List.replicate ndim false))
  if shape.isSome ∧ (perm.length ≠ ndim ∨ flip.length ≠ ndim ∨ ¬ (List.range ndim).all (fun a => perm.contains a)) then
    throw "perm / flip is not a layout of this shape"
  return ⟨tag, shape, toks, perm, flip⟩

def logGo (sep : Bytes) (fe : Bool) : LogState → List (List LogSig) → List Json → LogState × List Json
  | st, [], acc => (st, acc.reverse)
  | st, c :: cs, acc =>
    match logStep sep fe st c with
    | .error e => logGo sep fe st cs (Json.str e :: acc)
    | .ok st' => logGo sep fe st' cs (Json.str "ok" :: acc)

/-- `ScalarToFile` : a whole history of `response()` calls -/
def log (j : Json) : R Json := do
  let saveto ← getHex j "saveto"
  let sep0 ← getHex j "sep"
  let fe ← getBool j "fmt_empty"
  let f0 ← getField j "file0"
  let file0 ← (if f0.isNull then pure none else do return some (← asHex f0))
  let calls ← getList (asList asLogSig) j "calls"
  let sep := logSeparator saveto sep0
  let (st, outs) := logGo sep fe ⟨0, file0⟩ calls []
  let parsed := match st.file with
    | none => Json.null
    | some f => optJ (listJ (listJ hexJ)) (parseLog sep f)
  return objJ [("sep", hexJ sep), ("calls", Json.arr outs.toArray), ("iter", natJ st.iter),
    ("file", optJ hexJ st.file), ("parsed", parsed)]

/-- file-name helpers on their own -/
def names (j : Json) : R Json := do
  let p ← getHex j "path"
  let it ← getNat j "iter"
  let s := splitext p
  return objJ [("root", hexJ s.1), ("ext", hexJ s.2), ("vti", hexJ (vtiFilename p)),
    ("iter_name", hexJ (iterName p false it)), ("ow_name", hexJ (iterName p true it)),
    ("csv", Json.bool (isInfixB litDotCsv p))]

def handlers : List (String × (Json → R Json)) :=
  [("c20.b64", b64), ("c20.b64dec", b64dec), ("c20.vti", vti), ("c20.parse", parse), ("c20.wvti", wvti),
   ("c20.log", log), ("c20.names", names)]
end PymotoVerif.Drv.C20
