/- Shared driver helpers for the `LA/` models (C07, C11): scalars `CQ = ℚ(i)`, JSON ↔ matrices, tabulation (`memo`),
   exact Gauss–Jordan elimination (the run-time instance of the "inner solver" / `np.linalg.inv` / `np.linalg.solve`
   contracts, which is CHECKED after every factorisation: `A * A⁻¹ = 1` exactly). -/
import PymotoVerif.Drv.Util
import PymotoVerif.LA.LinSys
import Mathlib.Algebra.Order.Field.Rat
import Mathlib.Data.Rat.Defs
namespace PymotoVerif.Drv.LA
open Lean PymotoVerif PymotoVerif.Drv Matrix

abbrev CQ := Cx ℚ

instance : Inhabited CQ := ⟨0⟩

/-- a scalar is either a rational (real datum) or a pair `[re, im]` -/
def asCQ (v : Json) : R CQ :=
  match v with
  | .arr a => if a.size = 2 then do
      let re ← asRat a[0]!
      let im ← asRat a[1]!
      return ⟨re, im⟩
    else .error "bad complex"
  | _ => do
    let re ← asRat v
    return ⟨re, 0⟩

def cqJ (z : CQ) : Json := Json.arr #[ratJ z.re, ratJ z.im]

abbrev Mat (n m : ℕ) := Matrix (Fin n) (Fin m) CQ

def ofRows {n m : ℕ} (a : Array (Array CQ)) : Mat n m := fun i j => (a[i.val]!)[j.val]!

def toRows {n m : ℕ} (M : Mat n m) : Array (Array CQ) :=
  Array.ofFn fun i : Fin n => Array.ofFn fun j : Fin m => M i j

/-- tabulate a matrix once (semantically the identity). NOTE: a definition `memo : Mat n m → Mat n m` would be compiled
as a function of `(M, i, j)` and re-tabulate on every entry access, hence the monadic form: the array is evaluated when
the `R` action runs and the returned closure `ofRows a` only holds the evaluated array. -/
def memoM {n m : ℕ} (M : Mat n m) : R (Mat n m) := do
  let a := toRows M
  return ofRows a


/-- parse an `n × m` matrix given as a list of rows -/
def asMat (n m : ℕ) (v : Json) : R (Mat n m) := do
  let rows ← asArr v
  if rows.size ≠ n then throw s!"matrix: {rows.size} rows, expected {n}"
  let mut out : Array (Array CQ) := #[]
  for r in rows do
    let es ← asArr r
    if es.size ≠ m then throw s!"matrix: row of {es.size}, expected {m}"
    let row ← es.mapM asCQ
    out := out.push row
  return ofRows out

def getMat (n m : ℕ) (j : Json) (k : String) : R (Mat n m) := do asMat n m (← getField j k)

/-- optional field: `null` / missing ↦ `none` -/
def getOpt {β} (f : Json → R β) (j : Json) (k : String) : R (Option β) :=
  match j.getObjVal? k with
  | .ok .null => pure none
  | .ok v => do return some (← f v)
  | .error _ => pure none

def matJ {n m : ℕ} (M : Mat n m) : Json :=
  Json.arr ((toRows M).map fun r => Json.arr (r.map cqJ))

def vecJ {n : ℕ} (v : Fin n → CQ) : Json := Json.arr ((Array.ofFn v).map cqJ)

/-- Gauss–Jordan on an augmented `n × w` array; `none` if a pivot column is entirely zero (singular) -/
def gaussJordan (n : ℕ) (M0 : Array (Array CQ)) : Option (Array (Array CQ)) := Id.run do
  let mut M := M0
  for c in [0:n] do
    let mut piv : Option ℕ := none
    for r in [c:n] do
      if piv.isNone && (M[r]!)[c]! ≠ 0 then piv := some r
    match piv with
    | none => return none
    | some r =>
      let rowr := M[r]!
      let rowc := M[c]!
      M := (M.set! r rowc).set! c rowr
      let pinv := ((M[c]!)[c]!)⁻¹
      let prow := (M[c]!).map (· * pinv)
      M := M.set! c prow
      for r2 in [0:n] do
        if r2 ≠ c then
          let fac := (M[r2]!)[c]!
          if fac ≠ 0 then
            M := M.set! r2 (Array.zipWith (fun a b => a - fac * b) (M[r2]!) prow)
  return some M

/-- exact inverse, with the contract `A * A⁻¹ = 1` checked; `.error "singular"` for a singular matrix -/
def exactInv {n : ℕ} (A : Mat n n) : R (Mat n n) := do
  let rows := toRows A
  let aug := (Array.range n).map fun i =>
    (rows[i]!) ++ (Array.range n).map fun j => if i = j then (1 : CQ) else 0
  match gaussJordan n aug with
  | none => throw "singular"
  | some M =>
    let inv : Mat n n := ofRows (M.map fun r => r.extract n (2 * n))
    let prod ← memoM (A * inv)
    let ok := (List.finRange n).all fun i => (List.finRange n).all fun j =>
      decide (prod i j = if i = j then 1 else 0)
    if ok then return inv else throw "contract violated: A * inv A ≠ 1"

/-- the exact solver for `A` (instance of the `Solver` parameter of the models) -/
def exactSolver {n : ℕ} (A : Mat n n) : R (LinSys.Solver n CQ) := do
  let inv ← exactInv A
  let invT ← memoM invᵀ
  return { solve := fun B => inv * B, solveT := fun B => invT * B }

/-- `np.linalg.solve(P, r)` for one right-hand side -/
def exactSolveVec {n : ℕ} (P : Mat n n) (r : Fin n → CQ) : R (Fin n → CQ) := do
  let inv ← exactInv (← memoM P)
  let a := Array.ofFn (inv *ᵥ r)
  return fun i => a[i.val]!

def errJ (e : LinSys.Err) : R Json := .error e.name

end PymotoVerif.Drv.LA
