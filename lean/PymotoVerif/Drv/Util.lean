/- JSON helpers for the line-protocol driver (core `Lean.Data.Json`, no Mathlib).
   Numbers: integers as JSON ints, rationals as strings "n/d" (or ints), floats as JSON numbers. -/
import Lean.Data.Json
namespace PymotoVerif.Drv
open Lean

abbrev R := Except String

def getField (j : Json) (k : String) : R Json :=
  match j.getObjVal? k with
  | .ok v => .ok v
  | .error _ => .error s!"missing field {k}"

def getNat (j : Json) (k : String) : R Nat := do
  let v ← getField j k
  match v.getNat? with
  | .ok n => .ok n
  | .error _ => .error s!"field {k}: not a Nat"

def getInt (j : Json) (k : String) : R Int := do
  let v ← getField j k
  match v.getInt? with
  | .ok n => .ok n
  | .error _ => .error s!"field {k}: not an Int"

def getStr (j : Json) (k : String) : R String := do
  let v ← getField j k
  match v.getStr? with
  | .ok n => .ok n
  | .error _ => .error s!"field {k}: not a string"

def getBool (j : Json) (k : String) : R Bool := do
  let v ← getField j k
  match v.getBool? with
  | .ok n => .ok n
  | .error _ => .error s!"field {k}: not a bool"

def getArr (j : Json) (k : String) : R (Array Json) := do
  let v ← getField j k
  match v.getArr? with
  | .ok n => .ok n
  | .error _ => .error s!"field {k}: not an array"

def asArr (v : Json) : R (Array Json) :=
  match v.getArr? with
  | .ok n => .ok n
  | .error _ => .error "not an array"

def asInt (v : Json) : R Int :=
  match v.getInt? with
  | .ok n => .ok n
  | .error _ => .error s!"not an Int: {v.compress}"

def asNat (v : Json) : R Nat :=
  match v.getNat? with
  | .ok n => .ok n
  | .error _ => .error s!"not a Nat: {v.compress}"

/-- rational from `"n/d"`, `"n"` or a JSON integer -/
def asRat (v : Json) : R Rat :=
  match v with
  | .str s =>
    match s.splitOn "/" with
    | [n] => match n.toInt? with
      | some k => .ok (k : Rat)
      | none => .error s!"bad rational {s}"
    | [n, d] => match n.toInt?, d.toNat? with
      | some k, some m => if m = 0 then .error "zero denominator" else .ok ((k : Rat) / (m : Rat))
      | _, _ => .error s!"bad rational {s}"
    | _ => .error s!"bad rational {s}"
  | _ => match v.getInt? with
    | .ok n => .ok (n : Rat)
    | .error _ => .error s!"bad rational {v.compress}"

def asFloat (v : Json) : R Float :=
  match v with
  | .num n => .ok n.toFloat
  | .str "inf" => .ok (1.0 / 0.0)
  | .str "-inf" => .ok (-1.0 / 0.0)
  | _ => .error s!"bad float {v.compress}"

def getRat (j : Json) (k : String) : R Rat := do asRat (← getField j k)
def getFloat (j : Json) (k : String) : R Float := do asFloat (← getField j k)

def asList {α} (f : Json → R α) (v : Json) : R (List α) := do
  let a ← asArr v
  a.toList.mapM f

def getList {α} (f : Json → R α) (j : Json) (k : String) : R (List α) := do
  asList f (← getField j k)

def ratJ (q : Rat) : Json :=
  if q.den = 1 then Json.num (JsonNumber.fromInt q.num) else Json.str s!"{q.num}/{q.den}"
def intJ (n : Int) : Json := Json.num (JsonNumber.fromInt n)
def natJ (n : Nat) : Json := Json.num (JsonNumber.fromNat n)
/-- floats are written with 17 significant digits via the shortest-roundtrip `toString` of Lean -/
def floatJ (x : Float) : Json :=
  if x.isNaN then Json.str "nan" else if x.isInf then Json.str (if x > 0 then "inf" else "-inf")
  else match JsonNumber.fromFloat? x with
    | .inr n => Json.num n
    | .inl s => Json.str s
def listJ {α} (f : α → Json) (l : List α) : Json := Json.arr (l.map f).toArray
def objJ (kvs : List (String × Json)) : Json := Json.mkObj kvs

end PymotoVerif.Drv
