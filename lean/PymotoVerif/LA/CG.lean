/- C05 — executable model of `pymoto/solvers/iterative.py`: `orth`, the block preconditioned CG iteration
   (`CG.solve`, lines 304-365), the preconditioners `Preconditioner` (identity), `DampedJacobi`, `SOR`,
   `GeometricMultigrid` (incl. `setup_interpolation`), and "operator" preconditioners (`ILU`: the action of
   `spilu(A).solve(·, trans)` is external and enters as a matrix).

   External routines are parameters: `inv` (`np.linalg.inv`), `sqrt` (`np.sqrt`), `lt` (`<` of the dtype),
   `norm` (`np.linalg.norm(·, axis=0)` column-wise, values in an ordered field `ρ`), `tri` (triangular solves done by
   `splu` of a triangular matrix), `inner` (coarse-level solver of the multigrid).

   Models the tree AFTER the repairs f06340d/7a37cb6/156f3c9: `bnorm[bnorm == 0] = 1`, `orth` drops exactly-zero
   vectors (and may return an (n,0) block), `x0.astype(result_type(rhs, A, x0))` (a no-op in exact arithmetic). -/
import PymotoVerif.LA.Solvers
import PymotoVerif.Core.Domain

namespace PymotoVerif.LA
open Matrix

section orth
variable {α : Type*} {n k : ℕ} [Mul α] [AddCommMonoid α] [Star α] [Sub α] [Div α] [One α] [DecidableEq α]

/-- the inner product of `orth`: `dot(a, b) = a @ b.conj()` -/
def dotc (a b : Fin n → α) : α := dotProduct a (fun i => star (b i))

/-- the inner loop `for vj in orth_vecs: vi -= vj * alpha_ij / alpha_jj` -/
def orthProject (normalize : Bool) (acc : List (Fin n → α)) (u : Fin n → α) : Fin n → α :=
  acc.foldl (fun vi vj =>
    let aij := dotc vi vj
    let ajj := if normalize then 1 else dotc vj vj
    withMemoV (fun t => vi t - vj t * aij / ajj) id) u

/-- the outer loop of `orth` over the remaining columns; `acc` is `orth_vecs` -/
def orthCols (normalize : Bool) (sqrt : α → α) (lt : α → α → Bool) (rtol : α) :
    List (Fin n → α) → List (Fin n → α) → Except String (List (Fin n → α))
  | acc, [] => .ok acc
  | acc, u :: us =>
    let beta := dotc u u
    withMemoV (orthProject normalize acc u) fun vi =>
    let betaNew := dotc vi vi
    if beta = 0 then orthCols normalize sqrt lt rtol acc us        -- `beta_i == 0 or …: continue`
    else if lt (betaNew / beta) rtol then orthCols normalize sqrt lt rtol acc us      -- `continue`
    else
      let s := sqrt betaNew
      withMemoV (if normalize then (fun t => vi t / s) else vi) fun vi' =>
      orthCols normalize sqrt lt rtol (acc ++ [vi']) us

/-- columns of a 2-D array -/
def matCols (M : Mat n k α) : List (Fin n → α) := (List.finRange k).map fun j i => M i j
/-- `np.stack(vecs, axis=-1)` -/
def colsToMat (p : List (Fin n → α)) : Mat n p.length α := fun i j => p.get j i

/-- `orth(u, normalize, zero_rtol)` for a 2-D array `u` -/
def orth (normalize : Bool) (sqrt : α → α) (lt : α → α → Bool) (rtol : α) (u : Mat n k α) :
    Except String (List (Fin n → α)) :=
  orthCols normalize sqrt lt rtol [] (matCols u)
end orth

section cg
variable {α ρ : Type*} {n k : ℕ}

/-- everything `CG.solve` reads: the matrix already selected by `trans`, the preconditioner action
    `z = self.preconditioner.solve(r, trans=trans)`, the external routines and the options -/
structure CGConfig (α ρ : Type*) (n k : ℕ) where
  A : Mat n n α
  precond : Mat n k α → Mat n k α
  inv : (m : ℕ) → Mat m m α → Option (Mat m m α)   -- `np.linalg.inv`; `none` ≙ `LinAlgError`
  sqrt : α → α
  lt : α → α → Bool
  zeroRtol : α
  norm : (Fin n → α) → ρ
  tol : ρ
  maxit : ℕ
  restart : ℕ

structure CGState (α : Type*) (n k : ℕ) where
  x : Mat n k α
  r : Mat n k α
  p : List (Fin n → α)

structure CGResult (α : Type*) (n k : ℕ) where
  x : Mat n k α
  r : Mat n k α
  converged : Bool          -- the loop was left through `tval.max() <= self.tol`
  iters : ℕ
  trace : List (Mat n k α)  -- `x` after every executed iteration

variable [LinearOrder ρ] [Div ρ] [Zero ρ] [One ρ]

/-- `bnorm = norm(b, axis=0); bnorm[bnorm == 0] = 1.0` -/
def bnorm (c : CGConfig α ρ n k) (b : Mat n k α) (j : Fin k) : ρ :=
  if c.norm (fun i => b i j) = 0 then 1 else c.norm (fun i => b i j)

/-- `tval = norm(r, axis=0) / bnorm; tval.max() <= self.tol` -/
def converged (c : CGConfig α ρ n k) (r b : Mat n k α) : Bool :=
  (List.finRange k).all fun j => decide (c.norm (fun i => r i j) / bnorm c b j ≤ c.tol)

variable [Mul α] [AddCommMonoid α] [Star α] [Sub α] [Neg α] [Div α] [One α] [DecidableEq α]

/-- one pass through the body of `for i in range(self.maxit)`; the Boolean is `break` -/
def cgStep (c : CGConfig α ρ n k) (b : Mat n k α) (i : ℕ) (s : CGState α n k) :
    Except String (CGState α n k × Bool) :=
  if c.restart = 0 then .error "ZeroDivisionError" else       -- `i % self.restart`
  withMemo (colsToMat s.p) fun P =>
  withMemo (c.A * P) fun q =>                                  -- q = A @ p
  withMemo (Pᴴ * q) fun pq =>                                  -- pq = p.conj().T @ q
  match c.inv _ pq with                                        -- pq_inv = np.linalg.inv(pq)
  | none => .error "LinAlgError"
  | some pqInv0 =>
  withMemo pqInv0 fun pqInv =>
  withMemo (Pᴴ * s.r) fun ptr =>
  withMemo (pqInv * ptr) fun alpha =>                          -- alpha = pq_inv @ (p.conj().T @ r)
  withMemo (s.x + P * alpha) fun x' =>                         -- x += p @ alpha
  withMemo (if i % c.restart = 0 then b - c.A * x' else s.r - q * alpha) fun r' =>
  if converged c r' b then .ok ({ x := x', r := r', p := s.p }, true)     -- break
  else
    withMemo (c.precond r') fun z =>
    withMemo (qᴴ * z) fun qz =>
    withMemo (-(pqInv * qz)) fun beta =>                       -- beta = -pq_inv @ (q.conj().T @ z)
    withMemo (z + P * beta) fun pnew =>
    match orth false c.sqrt c.lt c.zeroRtol pnew with          -- p = orth(z + p@beta, normalize=False)
    | .ok p' => .ok ({ x := x', r := r', p := p' }, false)
    | .error e => .error e

/-- the `for` loop: `fuel` iterations left, `i` the loop counter -/
def cgLoop (c : CGConfig α ρ n k) (b : Mat n k α) :
    ℕ → ℕ → CGState α n k → List (Mat n k α) → Except String (CGResult α n k)
  | 0, i, s, tr => .ok { x := s.x, r := s.r, converged := false, iters := i, trace := tr }
  | fuel + 1, i, s, tr =>
    match cgStep c b i s with
    | .error e => .error e
    | .ok (s', true) => .ok { x := s'.x, r := s'.r, converged := true, iters := i + 1, trace := tr ++ [s'.x] }
    | .ok (s', false) => cgLoop c b fuel (i + 1) s' (tr ++ [s'.x])

/-- `CG.solve(rhs, x0, trans)` with `A = op_trans(self.A)` already selected in the configuration -/
def cgSolve (c : CGConfig α ρ n k) (b : Mat n k α) (x0 : Option (Mat n k α)) : Except String (CGResult α n k) :=
  if k = 0 then .error "ValueError" else                             -- `tval.max()` of an empty array
  let x : Mat n k α := match x0 with
    | some x0 => x0
    | none => 0
  withMemo (b - c.A * x) fun r =>
  if converged c r b then .ok { x := x, r := r, converged := true, iters := 0, trace := [] }
  else
    withMemo (c.precond r) fun z =>
    match orth true c.sqrt c.lt c.zeroRtol z with
    | .error e => .error e
    | .ok p => cgLoop c b c.maxit 0 { x := x, r := r, p := p } []
end cg

/-! ### preconditioners as functions `r ↦ z` -/
section precond
variable {α : Type*} {n k : ℕ} [Mul α] [AddCommMonoid α] [Star α] [Sub α] [Div α] [One α]

/-- base class `Preconditioner.solve`: `rhs.copy()` -/
def precIdentity (r : Mat n k α) : Mat n k α := r

/-- `DampedJacobi.solve`: `w * (rhs.T / D).T`, `D.conj()` for `'H'` -/
def precJacobi (w : α) (D : Fin n → α) (t : Trans) (r : Mat n k α) : Mat n k α :=
  fun i j => w * (r i j / diagFor D t i)

/-- `SOR.update`: `tril(A, -1) + diag/w`, `triu(A, 1) + diag/w`, `Dw = diag * (2 - w) / w` -/
def sorLower (A : Mat n n α) (w : α) : Mat n n α :=
  fun i j => if j < i then A i j else if i = j then A i i / w else 0
def sorUpper (A : Mat n n α) (w : α) : Mat n n α :=
  fun i j => if i < j then A i j else if i = j then A i i / w else 0
def sorDw (A : Mat n n α) (w : α) : Fin n → α := fun i => A i i * ((1 + 1) - w) / w

/-- `SOR.solve`; the two `splu` objects of triangular matrices act as triangular solves `tri` -/
def precSOR (tri : TriSolve α n k) (A : Mat n n α) (w : α) (t : Trans) (r : Mat n k α) : Mat n k α :=
  withMemo (sorLower A w) fun L =>
  withMemo (sorUpper A w) fun U =>
  withMemoV (sorDw A w) fun Dw =>
  match t with
  | .N =>
    withMemo (tri L true false .N r) fun u1 =>
    withMemo (fun i j => u1 i j * Dw i) fun u1' =>
    tri U false false .N u1'
  | .T =>
    withMemo (tri U false false .T r) fun u1 =>
    withMemo (fun i j => u1 i j * Dw i) fun u1' =>
    tri L true false .T u1'
  | .H =>
    withMemo (tri U false false .H r) fun u1 =>
    withMemo (fun i j => u1 i j * star (Dw i)) fun u1' =>
    tri L true false .H u1'

/-- a preconditioner whose action is an explicit matrix (`ILU`: `spilu(A).solve(r, trans)` observed column-wise) -/
def precMatrix (Minv : Mat n n α) (r : Mat n k α) : Mat n k α := Minv * r

/-- `GeometricMultigrid.solve(rhs, x0=None, trans)`: `A = self.A` (always the un-transposed matrix in the smoothing
    sweeps, as coded), `Aop` the matrix selected by `trans` (used for the coarse residual only), `R` the interpolation,
    `smoother r = self.smoother.solve(r, trans=trans)`, `inner = self.inner_level.solve` (called WITHOUT `trans`) -/
def mgSweep (A : Mat n n α) (smoother : Mat n k α → Mat n k α) (rhs u : Mat n k α) : Mat n k α :=
  withMemo (rhs - A * u) fun r => withMemo (smoother r) fun du => withMemo (u + du) id
def mgSolve {nc : ℕ} (A Aop : Mat n n α) (R : Mat n nc α) (smoother : Mat n k α → Mat n k α)
    (inner : Mat nc k α → Mat nc k α) (steps : ℕ) (rhs : Mat n k α) : Mat n k α :=
  withMemo (smoother rhs) fun u0 =>
  withMemo (Nat.iterate (mgSweep A smoother rhs) (steps - 1) u0) fun u1 =>
  withMemo (rhs - Aop * u1) fun r =>
  withMemo (Rᵀ * r) fun rc =>
  withMemo (inner rc) fun uc =>
  withMemo (u1 + R * uc) fun u2 =>
  Nat.iterate (mgSweep A smoother rhs) steps u2
end precond

/-! ### `GeometricMultigrid.setup_interpolation` -/
section interp
open PymotoVerif.Domain
variable {α : Type*} [Mul α] [AddCommMonoid α] [Div α] [One α]

/-- the weight table `w[a,b,c]` (indices 0,1,2 ≙ offsets -1,0,1) after the sequence of slice assignments -/
def mgWeight (a b c : ℕ) : α :=
  let h : α := 1 / (1 + 1)
  if a = 1 ∧ b = 1 ∧ c = 1 then 1
  else if (a = 1 ∧ b = 1) ∨ (a = 1 ∧ c = 1) ∨ (b = 1 ∧ c = 1) then h
  else if a = 1 ∨ b = 1 ∨ c = 1 then h * h
  else h * h * h

/-- `np.arange(max(-i,0), min(nc + 1 - i, nc + 1))` for offset `i = a - 1` as a list -/
def mgRange (nc a : ℕ) : List ℕ :=
  let lo := if a = 0 then 1 else 0
  let hi := if a = 2 then nc else nc + 1
  (List.range hi).filter (fun v => lo ≤ v)

/-- the COO triplets `(row, col, val)` in the order the loops append them -/
def mgTriplets (fine : Dom) (ndof : ℕ) : List (ℕ × ℕ × α) :=
  let coarse : Dom := ⟨fine.nelx / 2, fine.nely / 2, fine.nelz / 2⟩
  let ks : List ℕ := if fine.dim = 3 then [0, 1, 2] else [1]
  [0, 1, 2].flatMap fun a => [0, 1, 2].flatMap fun b => ks.flatMap fun c =>
    (List.range ndof).flatMap fun d =>
      (mgRange coarse.nelx a).flatMap fun ix => (mgRange coarse.nely b).flatMap fun iy =>
        (mgRange coarse.nelz c).map fun iz =>
          (fine.nodeNumber (2 * ix + a - 1) (2 * iy + b - 1) (2 * iz + c - 1) * ndof + d,
           coarse.nodeNumber ix iy iz * ndof + d,
           mgWeight a b c)

/-- entry `(f, c)` of `coo_matrix((vals, (rows, cols)))` converted to CSR/CSC/dense: duplicates are summed -/
def mgInterp (fine : Dom) (ndof : ℕ) (f c : ℕ) : α :=
  ((mgTriplets (α := α) fine ndof).filter (fun t => t.1 = f ∧ t.2.1 = c)).foldl (fun s t => s + t.2.2) 0
end interp

end PymotoVerif.LA
