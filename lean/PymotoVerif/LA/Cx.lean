/-
Complex numbers as pairs over an ordered field (`Cx α`, DESIGN §3.2) and the abstract
"real part / imaginary part" structure (`RealPart`) used by the `.real` rules of the linear-algebra modules.

* `Cx α` is an executable field for every linearly ordered field `α` (`Cx ℚ = ℚ(i)` is what the driver runs).
* `RealPart α` packages the two maps `re im : α → α` (numpy's `.real` / `.imag`, valued in the *same* scalar type,
  i.e. a real number is a scalar with `re a = a`) together with the algebraic facts the theorems need.
  Two instances: `RealPart.id` (real data: `re = id`, `im = 0`) and `Cx.realPart`.
-/
import Mathlib.Algebra.Field.MinimalAxioms
import Mathlib.Algebra.Order.Field.Basic
import Mathlib.Tactic.Ring
import Mathlib.Tactic.FieldSimp
import Mathlib.Tactic.Positivity
import Mathlib.Tactic.Linarith
import Mathlib.Algebra.BigOperators.Group.Finset.Basic

namespace PymotoVerif

/-- `re + i·im` -/
@[ext] structure Cx (α : Type*) where
  re : α
  im : α
deriving DecidableEq, Repr

namespace Cx
variable {α : Type*}

section ring
variable [Field α]

instance : Zero (Cx α) := ⟨⟨0, 0⟩⟩
instance : One (Cx α) := ⟨⟨1, 0⟩⟩
instance : Add (Cx α) := ⟨fun a b => ⟨a.re + b.re, a.im + b.im⟩⟩
instance : Neg (Cx α) := ⟨fun a => ⟨-a.re, -a.im⟩⟩
instance : Mul (Cx α) := ⟨fun a b => ⟨a.re * b.re - a.im * b.im, a.re * b.im + a.im * b.re⟩⟩
/-- `conj a / |a|²` (and `0⁻¹ = 0` because `0 / 0 = 0` in a field) -/
instance : Inv (Cx α) := ⟨fun a => ⟨a.re / (a.re * a.re + a.im * a.im), -a.im / (a.re * a.re + a.im * a.im)⟩⟩

@[simp] theorem zero_re : (0 : Cx α).re = 0 := rfl
@[simp] theorem zero_im : (0 : Cx α).im = 0 := rfl
@[simp] theorem one_re : (1 : Cx α).re = 1 := rfl
@[simp] theorem one_im : (1 : Cx α).im = 0 := rfl
@[simp] theorem add_re (a b : Cx α) : (a + b).re = a.re + b.re := rfl
@[simp] theorem add_im (a b : Cx α) : (a + b).im = a.im + b.im := rfl
@[simp] theorem neg_re (a : Cx α) : (-a).re = -a.re := rfl
@[simp] theorem neg_im (a : Cx α) : (-a).im = -a.im := rfl
@[simp] theorem mul_re (a b : Cx α) : (a * b).re = a.re * b.re - a.im * b.im := rfl
@[simp] theorem mul_im (a b : Cx α) : (a * b).im = a.re * b.im + a.im * b.re := rfl
@[simp] theorem inv_re (a : Cx α) : (a⁻¹).re = a.re / (a.re * a.re + a.im * a.im) := rfl
@[simp] theorem inv_im (a : Cx α) : (a⁻¹).im = -a.im / (a.re * a.re + a.im * a.im) := rfl

/-- embedding of the real scalars -/
def ofReal (x : α) : Cx α := ⟨x, 0⟩
/-- the imaginary unit -/
def I : Cx α := ⟨0, 1⟩
/-- complex conjugate -/
def conj (a : Cx α) : Cx α := ⟨a.re, -a.im⟩

@[simp] theorem ofReal_re (x : α) : (ofReal x).re = x := rfl
@[simp] theorem ofReal_im (x : α) : (ofReal x).im = 0 := rfl

end ring

section field
variable [Field α] [LinearOrder α] [IsStrictOrderedRing α]

theorem normSq_pos {a : Cx α} (h : a ≠ 0) : 0 < a.re * a.re + a.im * a.im := by
  rcases eq_or_ne a.re 0 with hr | hr
  · have hi : a.im ≠ 0 := by
      intro hi
      exact h (Cx.ext hr hi)
    have := mul_self_pos.mpr hi
    have := mul_self_nonneg a.re
    linarith
  · have := mul_self_pos.mpr hr
    have := mul_self_nonneg a.im
    linarith

instance instField : Field (Cx α) :=
  Field.ofMinimalAxioms (Cx α)
    (by intro a b c; ext <;> simp <;> ring)
    (by intro a; ext <;> simp)
    (by intro a; ext <;> simp)
    (by intro a b c; ext <;> simp <;> ring)
    (by intro a b; ext <;> simp <;> ring)
    (by intro a; ext <;> simp)
    (by
      intro a h
      have hp := ne_of_gt (normSq_pos h)
      ext
      · simp only [mul_re, inv_re, inv_im, one_re]
        rw [mul_div_assoc', mul_div_assoc', ← sub_div, div_eq_one_iff_eq hp]
        ring
      · simp only [mul_im, inv_re, inv_im, one_im]
        rw [mul_div_assoc', mul_div_assoc', ← add_div, div_eq_zero_iff]
        left; ring)
    (by ext <;> simp)
    (by intro a b c; ext <;> simp <;> ring)
    ⟨0, 1, by intro h; have := congrArg Cx.re h; simp at this⟩

@[simp] theorem sub_re (a b : Cx α) : (a - b).re = a.re - b.re := by
  rw [sub_eq_add_neg, add_re, neg_re, sub_eq_add_neg]
@[simp] theorem sub_im (a b : Cx α) : (a - b).im = a.im - b.im := by
  rw [sub_eq_add_neg, add_im, neg_im, sub_eq_add_neg]

end field
end Cx

/-- The maps `.real` and `.imag` of numpy on a scalar type that may hold complex data, both valued in the same
scalar type (a *real* scalar is one with `re a = a`). Only the algebra the adjoint theorems need is recorded. -/
structure RealPart (α : Type*) [CommRing α] where
  re : α → α
  im : α → α
  re_add : ∀ a b, re (a + b) = re a + re b
  re_mul : ∀ a b, re (a * b) = re a * re b - im a * im b
  re_re : ∀ a, re (re a) = re a
  im_re : ∀ a, im (re a) = 0

namespace RealPart
variable {α : Type*} [CommRing α] (R : RealPart α)

/-- `a` is a real number (what a real dtype guarantees) -/
def IsReal (a : α) : Prop := R.re a = a

theorem re_zero : R.re 0 = 0 := by
  have h := R.re_add 0 0
  rw [add_zero] at h
  exact left_eq_add.mp h

theorem re_neg (a : α) : R.re (-a) = -R.re a := by
  have h := R.re_add (-a) a
  rw [neg_add_cancel, R.re_zero] at h
  exact eq_neg_of_add_eq_zero_left h.symm

theorem re_sub (a b : α) : R.re (a - b) = R.re a - R.re b := by
  rw [sub_eq_add_neg, R.re_add, R.re_neg, sub_eq_add_neg]

theorem im_of_isReal {a : α} (h : R.IsReal a) : R.im a = 0 := by
  rw [← h]; exact R.im_re a

/-- real-linearity: a real factor can be pulled out of `re` -/
theorem re_mul_real (g : α) {v : α} (hv : R.IsReal v) : R.re (g * v) = R.re g * v := by
  rw [R.re_mul, R.im_of_isReal hv, hv]; ring

theorem re_real_mul {v : α} (hv : R.IsReal v) (g : α) : R.re (v * g) = v * R.re g := by
  rw [mul_comm, R.re_mul_real g hv, mul_comm]

theorem isReal_re (a : α) : R.IsReal (R.re a) := R.re_re a

theorem re_sum {ι : Type*} (s : Finset ι) (g : ι → α) : R.re (∑ i ∈ s, g i) = ∑ i ∈ s, R.re (g i) := by
  classical
  induction s using Finset.induction_on with
  | empty => simp [R.re_zero]
  | insert a s ha ih => rw [Finset.sum_insert ha, Finset.sum_insert ha, R.re_add, ih]

/-- real data: `.real` is the identity -/
protected def id (α : Type*) [CommRing α] : RealPart α where
  re := fun a => a
  im := fun _ => 0
  re_add := fun _ _ => rfl
  re_mul := fun a b => by ring
  re_re := fun _ => rfl
  im_re := fun _ => rfl

end RealPart

/-- `.real` / `.imag` of `Cx α` (as embedded real scalars) -/
def Cx.realPart (α : Type*) [Field α] [LinearOrder α] [IsStrictOrderedRing α] : RealPart (Cx α) where
  re := fun a => Cx.ofReal a.re
  im := fun a => Cx.ofReal a.im
  re_add := fun a b => by ext <;> simp
  re_mul := fun a b => by ext <;> simp
  re_re := fun a => by ext <;> simp
  im_re := fun a => by ext <;> simp

end PymotoVerif
