/-
Executable model of `pymoto/common/dyadcarrier.py` (class `DyadCarrier`), following the code as written
(after the repairs 94a7b8e, 8e372f7, a28cb67).  No Mathlib: scalars are `Cx α` (pairs over a plain scalar `α`
with operation classes), so the same definitions run at `Cx Rat` (Gaussian rationals) in the driver and are
reasoned about over a commutative ring in `Lemmas/Dyad*.lean` / `Props/C15.lean`.

* a stored vector is `DVec` = entries + numpy dtype flag (`c = true` ⇔ complex128)
* an n-d numpy array operand is `NArr` = shape + flat C-order data + dtype flag; integer index arrays are `IArr`
* a carrier is `{u v : List DVec, ulen vlen : Int (-1 = unset), c : Bool (dtype complex)}`
* errors are values (`Err`), in-place operations that raise half-way return the partially updated target
-/
import PymotoVerif.Core.Base
namespace PymotoVerif.Dyad

/-! ## scalars -/
structure Cx (α : Type) where
  re : α
  im : α
deriving DecidableEq, Repr

namespace Cx
variable {α : Type} [Add α] [Mul α] [Neg α] [Sub α] [OfNat α 0]
instance : Add (Cx α) := ⟨fun a b => ⟨a.re + b.re, a.im + b.im⟩⟩
instance : Mul (Cx α) := ⟨fun a b => ⟨a.re * b.re - a.im * b.im, a.re * b.im + a.im * b.re⟩⟩
instance : Neg (Cx α) := ⟨fun a => ⟨-a.re, -a.im⟩⟩
instance : Sub (Cx α) := ⟨fun a b => ⟨a.re - b.re, a.im - b.im⟩⟩
instance : OfNat (Cx α) 0 := ⟨⟨0, 0⟩⟩
/-- complex conjugate -/
def conj (a : Cx α) : Cx α := ⟨a.re, -a.im⟩
/-- `z.real` as a (real) number -/
def rePart (a : Cx α) : Cx α := ⟨a.re, 0⟩
/-- `z.imag` as a (real) number -/
def imPart (a : Cx α) : Cx α := ⟨a.im, 0⟩
end Cx

inductive Err | TypeError | ValueError | IndexError | NotImplementedError | AttributeError
deriving DecidableEq, Repr

def Err.name : Err → String
  | .TypeError => "TypeError" | .ValueError => "ValueError" | .IndexError => "IndexError"
  | .NotImplementedError => "NotImplementedError" | .AttributeError => "AttributeError"

/-- stored vector: entries and dtype flag -/
structure DVec (α : Type) where
  d : List (Cx α)
  c : Bool
deriving DecidableEq, Repr

/-- numpy n-d array operand (flat C order) -/
structure NArr (α : Type) where
  shape : List Nat
  data : List (Cx α)
  c : Bool
deriving DecidableEq, Repr

/-- integer index array -/
structure IArr where
  shape : List Nat
  data : List Int
deriving DecidableEq, Repr

structure Carrier (α : Type) where
  u : List (DVec α)
  v : List (DVec α)
  ulen : Int
  vlen : Int
  c : Bool
deriving DecidableEq, Repr

section
variable {α : Type} [Add α] [Mul α] [Neg α] [Sub α] [OfNat α 0] [DecidableEq α]

/-- sum of a list (right fold) -/
def lsum {β : Type} [Add β] [OfNat β 0] (l : List β) : β := l.foldr (· + ·) 0

def prodL (l : List Nat) : Nat := l.foldr (· * ·) 1

/-- entry `i` of a list, `0` outside -/
def at0 (l : List (Cx α)) (i : Nat) : Cx α := l.getD i 0

def DVec.get (x : DVec α) (i : Nat) : Cx α := at0 x.d i
def DVec.len (x : DVec α) : Nat := x.d.length
def DVec.map (f : Cx α → Cx α) (x : DVec α) : DVec α := ⟨x.d.map f, x.c⟩
/-- `np.linalg.norm(x) == 0` -/
def DVec.isZero (x : DVec α) : Bool := x.d.all (fun z => z == 0)

/-- `DyadCarrier(shape=(ulen, vlen))` without dyads (dtype float64) -/
def empty (ulen vlen : Int) : Carrier α := ⟨[], [], ulen, vlen, false⟩

/-! ## add_dyad -/

/-- lines 104-118: block (ndim > 1) summed over all leading axes, 0-dim promoted to length 1 -/
def sumLead (a : NArr α) : DVec α :=
  if a.shape.length ≤ 1 then ⟨a.data, a.c⟩
  else
    let n := a.shape.getLastD 1
    let rows := if n = 0 then 0 else a.data.length / n
    ⟨(List.range n).map (fun j => lsum ((List.range rows).map (fun r => at0 a.data (r * n + j)))), a.c⟩

/-- line 143: `ui.copy() if fac is None else fac*ui` -/
def facVec (fac : Option (Cx α)) (u : DVec α) : DVec α :=
  match fac with
  | none => u
  | some f => u.map (fun z => f * z)

/-- one pass of the loop body of `add_dyad` (lines 102-144). Returns the (possibly partially) updated carrier
    and the error raised, if any. -/
def addOne (fac : Option (Cx α)) (C : Carrier α) (ui vi : NArr α) : Carrier α × Option Err :=
  let u := sumLead ui
  let v := sumLead vi
  -- lines 121-125: fix the dimensions that are still unset
  let C2 : Carrier α := { C with ulen := if C.ulen < 0 then (u.len : Int) else C.ulen,
                                 vlen := if C.vlen < 0 then (v.len : Int) else C.vlen }
  if (u.len : Int) ≠ C2.ulen then (C2, some .TypeError)
  else if (v.len : Int) ≠ C2.vlen then (C2, some .TypeError)
  else
    let C3 : Carrier α := { C2 with c := C2.c || u.c || v.c }
    if u.isZero || v.isZero then (C3, none)
    else
      ({ C3 with u := C3.u ++ [facVec fac u], v := C3.v ++ [v] }, none)

def addLoop (fac : Option (Cx α)) : Carrier α → List (NArr α × NArr α) → Carrier α × Option Err
  | C, [] => (C, none)
  | C, (ui, vi) :: rest =>
    match addOne fac C ui vi with
    | (C', some e) => (C', some e)
    | (C', none) => addLoop fac C' rest

/-- `add_dyad(u, v, fac)`; `vl = none` is `v=None` (symmetric dyads) -/
def addDyad (C : Carrier α) (ul : List (NArr α)) (vl : Option (List (NArr α))) (fac : Option (Cx α)) :
    Carrier α × Option Err :=
  let vl' := vl.getD ul
  if ul.length ≠ vl'.length then (C, some .TypeError)
  else addLoop fac C (ul.zip vl')

/-- `DyadCarrier(u, v, shape)` -/
def new (ul : List (NArr α)) (vl : Option (List (NArr α))) (ulen vlen : Int) : Except Err (Carrier α) :=
  match addDyad (empty ulen vlen) ul vl none with
  | (C, none) => .ok C
  | (_, some e) => .error e

def DVec.toArr (x : DVec α) : NArr α := ⟨[x.len], x.d, x.c⟩

/-- constructor call with stored vectors (1-d arrays) as used by all derived operations -/
def ofVecs (us vs : List (DVec α)) (ulen vlen : Int) : Except Err (Carrier α) :=
  new (us.map DVec.toArr) (some (vs.map DVec.toArr)) ulen vlen

/-! ## indexing -/

inductive Idx
  | sl (start stop step : Option Int)
  | int (i : Int)
  | arr (a : IArr)
deriving DecidableEq, Repr

def Idx.isNull : Idx → Bool
  | .sl none none none => true
  | _ => false
def Idx.isArr : Idx → Bool
  | .arr _ => true
  | _ => false

/-- numpy integer index normalisation on an axis of length `n` -/
def normIndex (n : Nat) (i : Int) : Except Err Nat :=
  if 0 ≤ i ∧ i < n then .ok i.toNat
  else if -(n : Int) ≤ i ∧ i < 0 then .ok (i + n).toNat
  else .error .IndexError

/-- `slice(start, stop, step).indices(n)` followed by `range`: the list of positions -/
def slicePositions (n : Nat) (start stop step : Option Int) : Except Err (List Nat) :=
  let st := step.getD 1
  if st = 0 then .error .ValueError
  else
    let nn : Int := n
    let lower : Int := if st < 0 then -1 else 0
    let upper : Int := if st < 0 then nn - 1 else nn
    let clamp (s : Int) : Int := if s < 0 then max (s + nn) lower else min s upper
    let a : Int := match start with
      | none => if st < 0 then upper else lower
      | some s => clamp s
    let b : Int := match stop with
      | none => if st < 0 then lower else upper
      | some s => clamp s
    let len : Nat :=
      if st > 0 then (if a < b then ((b - a - 1) / st + 1).toNat else 0)
      else (if b < a then ((a - b - 1) / (-st) + 1).toNat else 0)
    .ok ((List.range len).map (fun (k : Nat) => (a + (k : Int) * st).toNat))

/-- positions selected on an axis of length `n` and the numpy shape of the selection (`[]` = scalar) -/
def applyIdx (n : Nat) : Idx → Except Err (List Nat × List Nat)
  | .sl a b s => do
    let p ← slicePositions n a b s
    pure ([p.length], p)
  | .int i => do
    let p ← normIndex n i
    pure ([], [p])
  | .arr a => do
    let p ← a.data.mapM (normIndex n)
    pure (a.shape, p)

def DVec.take (x : DVec α) (pos : List Nat) : List (Cx α) := pos.map x.get

/-- result of `__getitem__`: a new carrier or an array (shape `[]` = numpy scalar) -/
inductive GetRes (α : Type)
  | car (C : Carrier α)
  | arr (a : NArr α)

/-- `__getitem__` (lines 147-172) -/
def getitem (C : Carrier α) (i0 i1 : Idx) : Except Err (GetRes α) :=
  if C.ulen < 0 ∧ C.vlen < 0 then .ok (.car (empty (-1) (-1)))
  else if C.ulen < 0 then .error .ValueError      -- np.zeros(-1)
  else if C.vlen < 0 then do
    let _ ← applyIdx C.ulen.toNat i0               -- `usample` is taken (and may raise) before `np.zeros(-1)`
    .error .ValueError
  else do
    let (ush, upos) ← applyIdx C.ulen.toNat i0
    let (vsh, vpos) ← applyIdx C.vlen.toNat i1
    let isUni := ush.isEmpty || vsh.isEmpty
    let isNp := i0.isArr && i1.isArr
    if isNp && ush != vsh then .error .IndexError
    else if isUni || isNp then
      let shape := if ush.isEmpty then vsh else ush
      let m := prodL shape
      let pick (pos : List Nat) (sh : List Nat) (t : Nat) : Nat := if sh.isEmpty then pos.getD 0 0 else pos.getD t 0
      let data := (List.range m).map (fun t =>
        lsum (List.zipWith (fun (ui vi : DVec α) => ui.get (pick upos ush t) * vi.get (pick vpos vsh t)) C.u C.v))
      .ok (.arr ⟨shape, data, C.c⟩)
    else
      let usub := C.u.map (fun ui => (⟨ush, ui.take upos, ui.c⟩ : NArr α))
      let vsub := C.v.map (fun vi => (⟨vsh, vi.take vpos, vi.c⟩ : NArr α))
      match new usub (some vsub) (prodL ush) (prodL vsh) with
      | .ok D => .ok (.car D)
      | .error e => .error e

/-- `x[pos] = 0` -/
def DVec.zeroAt (x : DVec α) (pos : List Nat) : DVec α :=
  ⟨(List.range x.len).map (fun i => if pos.contains i then 0 else x.get i), x.c⟩

/-- positions assigned on one axis by `__setitem__`: none for the null slice `:` (the assignment is skipped) -/
def zeroSel (n : Nat) (ix : Idx) : Except Err (List Nat) :=
  if ix.isNull then .ok []
  else match applyIdx n ix with
    | .ok (_, p) => .ok p
    | .error e => .error e

/-- `__setitem__` (lines 174-188, after the repair 9b72248); `valIsZero` is `value == 0.0` -/
def setitem (C : Carrier α) (i0 i1 : Idx) (valIsZero : Bool) : Except Err (Carrier α) :=
  if !valIsZero then .error .ValueError
  else if !i0.isNull && !i1.isNull then .error .IndexError
  else if i0.isNull && i1.isNull then .ok { C with u := [], v := [] }   -- `A[:, :] = 0`: all dyads are dropped (9b72248)
  else if C.u.isEmpty || C.v.isEmpty then .ok C     -- zip loop does not run: nothing is indexed
  else do
    let pu ← zeroSel C.ulen.toNat i0
    let pv ← zeroSel C.vlen.toNat i1
    pure { C with u := C.u.map (fun x => x.zeroAt pu), v := C.v.map (fun x => x.zeroAt pv) }

/-! ## unary operations -/

def copy (C : Carrier α) : Except Err (Carrier α) := ofVecs C.u C.v C.ulen C.vlen
def neg (C : Carrier α) : Except Err (Carrier α) := ofVecs (C.u.map (DVec.map (fun z => -z))) C.v C.ulen C.vlen
def conj (C : Carrier α) : Except Err (Carrier α) :=
  ofVecs (C.u.map (DVec.map Cx.conj)) (C.v.map (DVec.map Cx.conj)) C.ulen C.vlen
def DVec.re (x : DVec α) : DVec α := ⟨x.d.map Cx.rePart, false⟩
def DVec.im (x : DVec α) : DVec α := ⟨x.d.map Cx.imPart, false⟩
def DVec.negIm (x : DVec α) : DVec α := ⟨x.d.map (fun z => -(Cx.imPart z)), false⟩
/-- `.real`: `[u.real…, -u.imag…] ⊗ [v.real…, v.imag…]` -/
def real (C : Carrier α) : Except Err (Carrier α) :=
  ofVecs (C.u.map DVec.re ++ C.u.map DVec.negIm) (C.v.map DVec.re ++ C.v.map DVec.im) C.ulen C.vlen
/-- `.imag`: `[u.real…, u.imag…] ⊗ [v.imag…, v.real…]` -/
def imag (C : Carrier α) : Except Err (Carrier α) :=
  ofVecs (C.u.map DVec.re ++ C.u.map DVec.im) (C.v.map DVec.im ++ C.v.map DVec.re) C.ulen C.vlen
def transpose (C : Carrier α) : Except Err (Carrier α) := ofVecs C.v C.u C.vlen C.ulen

/-- `other * self` (scalar `z` with dtype flag `zc`) -/
def rmul (z : Cx α) (zc : Bool) (C : Carrier α) : Except Err (Carrier α) :=
  ofVecs (C.u.map (fun x => (⟨x.d.map (fun w => z * w), x.c || zc⟩ : DVec α))) C.v C.ulen C.vlen
/-- `self * other` -/
def mul (C : Carrier α) (z : Cx α) (zc : Bool) : Except Err (Carrier α) :=
  ofVecs C.u (C.v.map (fun x => (⟨x.d.map (fun w => w * z), x.c || zc⟩ : DVec α))) C.ulen C.vlen

/-! ## in-place and binary addition -/

/-- `self += other` : `add_dyad(other.u, other.v)` -/
def iadd (C O : Carrier α) : Carrier α × Option Err :=
  addDyad C (O.u.map DVec.toArr) (some (O.v.map DVec.toArr)) none

end

section
variable {α : Type} [Add α] [Mul α] [Neg α] [Sub α] [OfNat α 0] [OfNat α 1] [DecidableEq α]

def negOne : Cx α := ⟨-(1 : α), 0⟩

/-- `self -= other` : `add_dyad(other.u, other.v, fac=-1.0)` -/
def isub (C O : Carrier α) : Carrier α × Option Err :=
  addDyad C (O.u.map DVec.toArr) (some (O.v.map DVec.toArr)) (some negOne)
end

section
variable {α : Type} [Add α] [Mul α] [Neg α] [Sub α] [OfNat α 0] [DecidableEq α]

/-- `size` property -/
def size (C : Carrier α) : Int := if C.ulen < 0 ∨ C.vlen < 0 then 0 else C.ulen * C.vlen

/-- `todense()` as an array of shape `(max 0 ulen, max 0 vlen)` -/
def todense (C : Carrier α) : NArr α :=
  let r := C.ulen.toNat
  let c := C.vlen.toNat
  ⟨[r, c], (List.range (r * c)).map (fun t =>
      lsum (List.zipWith (fun (ui vi : DVec α) => ui.get (t / c) * vi.get (t % c)) C.u C.v)), C.c⟩

/-- `np.broadcast_to(a, (r, c))` for `a.ndim ≤ 2`: the entry function, or `ValueError` -/
def broadcast2 (a : NArr α) (r c : Int) : Except Err (Nat → Nat → Cx α) :=
  if r < 0 ∨ c < 0 then .error .ValueError
  else match a.shape with
    | [] => .ok (fun _ _ => at0 a.data 0)
    | [n] => if n = c.toNat then .ok (fun _ j => at0 a.data j)
             else if n = 1 then .ok (fun _ _ => at0 a.data 0) else .error .ValueError
    | [m, n] =>
      if (m = r.toNat ∨ m = 1) ∧ (n = c.toNat ∨ n = 1) then
        .ok (fun i j => at0 a.data ((if m = 1 then 0 else i) * n + (if n = 1 then 0 else j)))
      else .error .ValueError
    | _ => .error .ValueError

/-- result of a binary `+`/`-`: a new carrier or a dense array -/
abbrev BinRes (α : Type) := GetRes α

/-- `self + other` for a DyadCarrier `other` (lines 202-205) -/
def addD (C O : Carrier α) : Except Err (Carrier α) :=
  if (O.ulen ≠ C.ulen ∨ O.vlen ≠ C.vlen) ∧ (size C > 0 ∧ size O > 0) then .error .ValueError
  else do
    let C' ← copy C
    match iadd C' O with
    | (R, none) => .ok R
    | (_, some e) => .error e

/-- `self + other` for a scalar-like `other` -/
def addS (C : Carrier α) (z : Cx α) : Except Err (Carrier α) :=
  if z = 0 then copy C else .error .NotImplementedError

/-- `self + other` / `other + self` for a dense array (`sign = false`) and `self - other` (the array is negated first)
    / `other - self` (`rsub = true`) -/
def addA (C : Carrier α) (a : NArr α) (negA negSelf : Bool) : Except Err (NArr α) := do
  let f ← broadcast2 a C.ulen C.vlen
  let r := C.ulen.toNat
  let c := C.vlen.toNat
  let d := todense C
  pure ⟨[r, c], (List.range (r * c)).map (fun t =>
      let x := f (t / c) (t % c)
      let y := at0 d.data t
      (if negA then -x else x) + (if negSelf then -y else y)), a.c || C.c⟩

def subD (C O : Carrier α) : Except Err (Carrier α) := do
  let N ← neg O
  addD C N

/-- `self - z` : `self.__add__(-z)` -/
def subS (C : Carrier α) (z : Cx α) : Except Err (Carrier α) := addS C (-z)

/-- `z - self` -/
def rsubS (z : Cx α) (C : Carrier α) : Except Err (Carrier α) :=
  if z = 0 then do
    let C' ← copy C
    neg C'
  else .error .NotImplementedError

/-! ## products with dense operands -/

/-- `x @ M` for a vector `x` and a matrix `M` of shape `[m, n]` -/
def vecMat (x : DVec α) (M : NArr α) : Except Err (DVec α) :=
  match M.shape with
  | [m, n] =>
    if x.len ≠ m then .error .ValueError
    else .ok ⟨(List.range n).map (fun j => lsum ((List.range m).map (fun i => x.get i * at0 M.data (i * n + j)))),
              x.c || M.c⟩
  | _ => .error .ValueError

/-- `M @ x` -/
def matVec (M : NArr α) (x : DVec α) : Except Err (DVec α) :=
  match M.shape with
  | [m, n] =>
    if x.len ≠ n then .error .ValueError
    else .ok ⟨(List.range m).map (fun i => lsum ((List.range n).map (fun j => at0 M.data (i * n + j) * x.get j))),
              x.c || M.c⟩
  | _ => .error .ValueError

/-- `a.dot(b)` of two 1-d arrays -/
def vdot (a b : DVec α) : Except Err (Cx α) :=
  if a.len ≠ b.len then .error .ValueError
  else .ok (lsum (List.zipWith (· * ·) a.d b.d))

/-- `self @ M` (matrix operand) -/
def matmulM (C : Carrier α) (M : NArr α) : Except Err (Carrier α) := do
  let vs ← C.v.mapM (fun vi => vecMat vi M)
  ofVecs C.u vs C.ulen (M.shape.getD 1 0)

/-- `M @ self` -/
def rmatmulM (M : NArr α) (C : Carrier α) : Except Err (Carrier α) := do
  let us ← C.u.mapM (fun ui => matVec M ui)
  ofVecs us C.v (M.shape.getD 0 0) C.vlen

/-- accumulate `Σ_k coef_k * w_k` into a zero vector of length `n` (the `val += …` loops of `__dot__`/`__rdot__`) -/
def accum (n : Nat) (terms : List (Cx α × DVec α)) : List (Cx α) :=
  (List.range n).map (fun i => lsum (terms.map (fun (t : Cx α × DVec α) => t.2.get i * t.1)))

/-- `self @ x` / `self.dot(x)` for a 1-d `x` -/
def dotV (C : Carrier α) (x : DVec α) : Except Err (NArr α) := do
  let cs ← (List.zip C.u C.v).mapM (fun (p : DVec α × DVec α) => do
    let s ← vdot p.2 x
    pure (s, p.1))
  let n := C.ulen.toNat
  pure ⟨[n], accum n cs, C.c || x.c⟩

/-- `x @ self` for a 1-d `x` -/
def rdotV (x : DVec α) (C : Carrier α) : Except Err (NArr α) := do
  let cs ← (List.zip C.u C.v).mapM (fun (p : DVec α × DVec α) => do
    let s ← vdot x p.1
    pure (s, p.2))
  let n := C.vlen.toNat
  pure ⟨[n], accum n cs, C.c || x.c⟩

/-- `self @ other` for a DyadCarrier `other`: `vi @ other` is `other.__rdot__(vi)` -/
def matmulD (C O : Carrier α) : Except Err (Carrier α) := do
  let vs ← C.v.mapM (fun vi => do
    let r ← rdotV vi O
    pure (⟨r.data, r.c⟩ : DVec α))
  ofVecs C.u vs C.ulen O.vlen

/-! ## diagonal -/
def diagonal (C : Carrier α) (k : Int) : NArr α :=
  if C.ulen = 0 ∨ C.vlen = 0 then ⟨[0], [], C.c⟩
  else
    let ustart : Int := max 0 (-k)
    let vstart : Int := max 0 k
    let n : Int := min (C.ulen - ustart) (C.vlen - vstart)
    if n < 0 then ⟨[0], [], C.c⟩
    else
      let nn := n.toNat
      ⟨[nn], (List.range nn).map (fun t =>
        lsum (List.zipWith (fun (ui vi : DVec α) => ui.get (ustart.toNat + t) * vi.get (vstart.toNat + t)) C.u C.v)), C.c⟩

/-! ## contract -/

/-- type of the returned number / array -/
structure CRes (α : Type) where
  shape : List Nat        -- `[]`: scalar
  data : List (Cx α)
  c : Bool                -- complex?
  pyfloat : Bool          -- the Python float `0.0` (no dyads, non-batch)
deriving DecidableEq, Repr

/-- gather `x[idx]` for one batch row of an index array (already a list of ints) -/
def gatherI (x : DVec α) (idx : List Int) : Except Err (DVec α) := do
  let p ← idx.mapM (normIndex x.len)
  pure ⟨x.take p, x.c⟩

/-- the `b`-th chunk of length `n` -/
def chunk {β : Type} (l : List β) (b n : Nat) : List β := (l.drop (b * n)).take n

/-- `u @ mat @ v` (mat given by its 2-d shape and flat data) or `u @ v` -/
def quad (u v : DVec α) (mat : Option (Nat × Nat × List (Cx α))) : Except Err (Cx α) :=
  match mat with
  | none => vdot u v
  | some (m, n, d) =>
    if u.len ≠ m then .error .ValueError
    else if v.len ≠ n then .error .ValueError
    else .ok (lsum ((List.range m).map (fun i =>
            lsum ((List.range n).map (fun j => u.get i * at0 d (i * n + j) * v.get j)))))

/-- size of an `einsum` index shared by two operands: numpy broadcasts a dimension of size 1 -/
def bdim (a b : Nat) : Except Err Nat :=
  if a = b then .ok a else if a = 1 then .ok b else if b = 1 then .ok a else .error .ValueError

/-- the `einsum` term of the batch mode of `contract`: as `quad`, but a dimension of size 1 is broadcast -/
def quadB (u v : DVec α) (mat : Option (Nat × Nat × List (Cx α))) : Except Err (Cx α) :=
  match mat with
  | none => do
    let k ← bdim u.len v.len
    pure (lsum ((List.range k).map (fun i => u.get (if u.len = 1 then 0 else i) * v.get (if v.len = 1 then 0 else i))))
  | some (m, n, d) => do
    let k ← bdim u.len m
    let l ← bdim n v.len
    pure (lsum ((List.range k).map (fun i => lsum ((List.range l).map (fun j =>
      u.get (if u.len = 1 then 0 else i) * at0 d ((if m = 1 then 0 else i) * n + (if n = 1 then 0 else j))
        * v.get (if v.len = 1 then 0 else j))))))

/-- lines 358-368: take / check the batch shape contributed by an index array -/
def batchStep (bs : Option (List Nat)) (x : Option IArr) : Except Err (Option (List Nat)) :=
  match x with
  | some r =>
    if r.shape.length > 1 then
      match bs with
      | none => .ok (some (r.shape.take (r.shape.length - 1)))
      | some b => if r.shape.take (r.shape.length - 1) ≠ b then .error .ValueError else .ok bs
    else .ok bs
  | none => .ok bs

/-- lines 352-368: the batch shape (`none`: not in batch mode) or the `ValueError` of non-conforming batch sizes -/
def batchShape (mat : Option (NArr α)) (rows cols : Option IArr) : Except Err (Option (List Nat)) := do
  let bs0 : Option (List Nat) := match mat with
    | some m => if m.shape.length > 2 then some (m.shape.take (m.shape.length - 2)) else none
    | none => none
  let bs1 ← batchStep bs0 rows
  batchStep bs1 cols

/-- dtype flag of an optional matrix operand -/
def optC (mat : Option (NArr α)) : Bool :=
  match mat with
  | some m => m.c
  | none => false

/-- the index list used for batch entry `b` (the whole array when it is not batched) -/
def selIdx (x : Option IArr) (b : Nat) : Option (List Int) :=
  x.map (fun r => if r.shape.length > 1 then chunk r.data b (r.shape.getLastD 0) else r.data)

/-- the matrix used for batch entry `b`: its last two dimensions and flat data -/
def selMat (mat : Option (NArr α)) (b : Nat) : Option (Nat × Nat × List (Cx α)) :=
  mat.map (fun m =>
    let p := m.shape.getD (m.shape.length - 2) 0
    let q := m.shape.getD (m.shape.length - 1) 0
    (p, q, if m.shape.length > 2 then chunk m.data b (p * q) else m.data))

/-- `x if idx is None else x[idx]` -/
def optGather (x : DVec α) (idx : Option (List Int)) : Except Err (DVec α) :=
  match idx with
  | none => .ok x
  | some r => gatherI x r

/-- one (dyad, batch entry) term `u[rows] @ mat @ v[cols]` / `u[rows] @ v[cols]` -/
def cterm (bc : Bool) (ui vi : DVec α) (ridx cidx : Option (List Int)) (mb : Option (Nat × Nat × List (Cx α))) :
    Except Err (Cx α) := do
  let ua ← optGather ui ridx
  let va ← optGather vi cidx
  if bc then quadB ua va mb else quad ua va mb   -- batch mode uses `einsum`, the plain mode `@`

/-- `contract(mat, rows, cols)` (lines 275-403). `mat.ndim ≥ 2`, `rows/cols.ndim ≥ 1`. -/
def contract (C : Carrier α) (mat : Option (NArr α)) (rows cols : Option IArr) : Except Err (CRes α) :=
  let matc := optC mat
  do
  let bs2 ← batchShape mat rows cols
  match bs2 with
  | none => do
    let ts ← (List.zip C.u C.v).mapM (fun (p : DVec α × DVec α) =>
      cterm false p.1 p.2 (selIdx rows 0) (selIdx cols 0) (selMat mat 0))
    let cplx := (List.zip C.u C.v).any (fun (p : DVec α × DVec α) => p.1.c || p.2.c || matc)
    pure ⟨[], [lsum ts], cplx, C.u.isEmpty || C.v.isEmpty⟩
  | some bsz => do
    let B := prodL bsz
    -- per dyad: `ui[rows]`, `vi[cols]` index the whole arrays first (IndexError), then einsum per batch entry
    let ts ← (List.zip C.u C.v).mapM (fun (p : DVec α × DVec α) => do
      let _ ← optGather p.1 (rows.map (·.data))
      let _ ← optGather p.2 (cols.map (·.data))
      (List.range B).mapM (fun b => cterm true p.1 p.2 (selIdx rows b) (selIdx cols b) (selMat mat b)))
    pure ⟨bsz, (List.range B).map (fun b => lsum (ts.map (fun t => at0 t b))), matc || C.c, false⟩

/-- sparse matrix in COO form -/
structure Coo (α : Type) where
  nrow : Nat
  ncol : Nat
  row : List Int
  col : List Int
  data : List (Cx α)
  c : Bool
deriving Repr

inductive MatArg (α : Type)
  | none
  | coo (m : Coo α)
  | dense (m : NArr α)

/-- `mats[0].dtype` (line 408) -/
def firstFlag (mats : List (MatArg α)) : Except Err Bool :=
  match mats with
  | [] => .error .IndexError
  | .none :: _ => .error .AttributeError
  | .coo m :: _ => .ok m.c
  | .dense m :: _ => .ok m.c

/-- one entry of `contract_multi`: `None` → 0, COO → `einsum('ij,i,ij->', U[row], data, V[col])`,
    anything without `tocoo` → `self.contract(m)` -/
def multiVal (C : Carrier α) (m : MatArg α) : Except Err (Cx α) :=
  match m with
  | .none => .ok 0
  | .coo m => do
    let ts ← (List.zip (List.zip m.row m.col) m.data).mapM (fun (e : (Int × Int) × Cx α) => do
      let i ← normIndex C.ulen.toNat e.1.1
      let j ← normIndex C.vlen.toNat e.1.2
      pure (lsum (List.zipWith (fun (ui vi : DVec α) => ui.get i * e.2 * vi.get j) C.u C.v)))
    pure (lsum ts)
  | .dense m => do
    let r ← contract C (some m) none none
    pure (at0 r.data 0)

/-- `contract_multi(mats)` (lines 405-428), `dtype=None` -/
def contractMulti (C : Carrier α) (mats : List (MatArg α)) : Except Err (NArr α) := do
  let c0 ← firstFlag mats
  if C.u.isEmpty || C.v.isEmpty then pure ⟨[mats.length], mats.map (fun _ => 0), C.c || c0⟩
  else do
    let vals ← mats.mapM (multiVal C)
    pure ⟨[mats.length], vals, C.c || c0⟩

end

/-! ## programs over a register file of carriers

Every operation that returns a DyadCarrier appends it as a NEW register; in-place operations (`add_dyad`, `+=`, `-=`,
`__setitem__`) replace exactly their target register; all other operations only produce an observation. -/

inductive UnOp | copy | pos | neg | conj | real | imag | transpose
deriving DecidableEq, Repr

inductive Instr (α : Type)
  | new (u : List (NArr α)) (v : Option (List (NArr α))) (ulen vlen : Int)
  | addDyad (r : Nat) (u : List (NArr α)) (v : Option (List (NArr α))) (fac : Option (Cx α))
  | getitem (r : Nat) (i0 i1 : Idx)
  | setitem (r : Nat) (i0 i1 : Idx) (valIsZero : Bool)
  | un (op : UnOp) (r : Nat)
  | iadd (r s : Nat)
  | isub (r s : Nat)
  | addS (r : Nat) (z : Cx α)
  | addD (r s : Nat)
  | addA (r : Nat) (a : NArr α)
  | subS (r : Nat) (z : Cx α)
  | subD (r s : Nat)
  | subA (r : Nat) (a : NArr α)
  | rsubS (z : Cx α) (r : Nat)
  | rsubA (a : NArr α) (r : Nat)
  | mul (r : Nat) (z : Cx α) (zc : Bool)
  | rmul (z : Cx α) (zc : Bool) (r : Nat)
  | contract (r : Nat) (mat : Option (NArr α)) (rows cols : Option IArr)
  | contractMulti (r : Nat) (mats : List (MatArg α))
  | todense (r : Nat)
  | diagonal (r : Nat) (k : Int)
  | dotV (r : Nat) (x : DVec α)
  | rdotV (x : DVec α) (r : Nat)
  | matmulM (r : Nat) (M : NArr α)
  | rmatmulM (M : NArr α) (r : Nat)
  | matmulD (r s : Nat)

inductive Out (α : Type)
  | car (r : Nat)            -- a new carrier, stored in register `r`
  | arr (a : NArr α)
  | cres (c : CRes α)
  | unit                     -- in-place operation succeeded
  | err (e : Err)
  | badReg

abbrev Env (α : Type) := List (Carrier α)

section
variable {α : Type} [Add α] [Mul α] [Neg α] [Sub α] [OfNat α 0] [OfNat α 1] [DecidableEq α]

def unop (op : UnOp) (C : Carrier α) : Except Err (Carrier α) :=
  match op with
  | .copy => copy C | .pos => copy C | .neg => neg C | .conj => conj C
  | .real => real C | .imag => imag C | .transpose => transpose C

/-- push a new carrier / report the error -/
def pushRes (env : Env α) (r : Except Err (Carrier α)) : Env α × Out α :=
  match r with
  | .ok C => (env ++ [C], .car env.length)
  | .error e => (env, .err e)

def arrRes (env : Env α) (r : Except Err (NArr α)) : Env α × Out α :=
  match r with
  | .ok a => (env, .arr a)
  | .error e => (env, .err e)

/-- in-place result: target replaced (also on error: the code may have changed it half-way) -/
def inplace (env : Env α) (r : Nat) (res : Carrier α × Option Err) : Env α × Out α :=
  (env.set r res.1, match res.2 with | none => .unit | some e => .err e)

def step (env : Env α) : Instr α → Env α × Out α
  | .new u v ul vl => pushRes env (new u v ul vl)
  | .addDyad r u v fac =>
    match env[r]? with
    | some C => inplace env r (addDyad C u v fac)
    | none => (env, .badReg)
  | .getitem r i0 i1 =>
    match env[r]? with
    | some C => match getitem C i0 i1 with
      | .ok (.car D) => (env ++ [D], .car env.length)
      | .ok (.arr a) => (env, .arr a)
      | .error e => (env, .err e)
    | none => (env, .badReg)
  | .setitem r i0 i1 z =>
    match env[r]? with
    | some C => match setitem C i0 i1 z with
      | .ok D => (env.set r D, .unit)
      | .error e => (env, .err e)
    | none => (env, .badReg)
  | .un op r =>
    match env[r]? with
    | some C => pushRes env (unop op C)
    | none => (env, .badReg)
  | .iadd r s =>
    match env[r]?, env[s]? with
    | some C, some O => inplace env r (iadd C O)
    | _, _ => (env, .badReg)
  | .isub r s =>
    match env[r]?, env[s]? with
    | some C, some O => inplace env r (isub C O)
    | _, _ => (env, .badReg)
  | .addS r z =>
    match env[r]? with
    | some C => pushRes env (addS C z)
    | none => (env, .badReg)
  | .addD r s =>
    match env[r]?, env[s]? with
    | some C, some O => pushRes env (addD C O)
    | _, _ => (env, .badReg)
  | .addA r a =>
    match env[r]? with
    | some C => arrRes env (addA C a false false)
    | none => (env, .badReg)
  | .subS r z =>
    match env[r]? with
    | some C => pushRes env (subS C z)
    | none => (env, .badReg)
  | .subD r s =>
    match env[r]?, env[s]? with
    | some C, some O => pushRes env (subD C O)
    | _, _ => (env, .badReg)
  | .subA r a =>
    match env[r]? with
    | some C => arrRes env (addA C a true false)
    | none => (env, .badReg)
  | .rsubS z r =>
    match env[r]? with
    | some C => pushRes env (rsubS z C)
    | none => (env, .badReg)
  | .rsubA a r =>
    match env[r]? with
    | some C => arrRes env (addA C a false true)
    | none => (env, .badReg)
  | .mul r z zc =>
    match env[r]? with
    | some C => pushRes env (mul C z zc)
    | none => (env, .badReg)
  | .rmul z zc r =>
    match env[r]? with
    | some C => pushRes env (rmul z zc C)
    | none => (env, .badReg)
  | .contract r mat rows cols =>
    match env[r]? with
    | some C => match contract C mat rows cols with
      | .ok c => (env, .cres c)
      | .error e => (env, .err e)
    | none => (env, .badReg)
  | .contractMulti r mats =>
    match env[r]? with
    | some C => arrRes env (contractMulti C mats)
    | none => (env, .badReg)
  | .todense r =>
    match env[r]? with
    | some C => (env, .arr (todense C))
    | none => (env, .badReg)
  | .diagonal r k =>
    match env[r]? with
    | some C => (env, .arr (diagonal C k))
    | none => (env, .badReg)
  | .dotV r x =>
    match env[r]? with
    | some C => arrRes env (dotV C x)
    | none => (env, .badReg)
  | .rdotV x r =>
    match env[r]? with
    | some C => arrRes env (rdotV x C)
    | none => (env, .badReg)
  | .matmulM r M =>
    match env[r]? with
    | some C => pushRes env (matmulM C M)
    | none => (env, .badReg)
  | .rmatmulM M r =>
    match env[r]? with
    | some C => pushRes env (rmatmulM M C)
    | none => (env, .badReg)
  | .matmulD r s =>
    match env[r]?, env[s]? with
    | some C, some O => pushRes env (matmulD C O)
    | _, _ => (env, .badReg)

/-- run a program; observations in order -/
def run : Env α → List (Instr α) → Env α × List (Out α)
  | env, [] => (env, [])
  | env, i :: rest =>
    let (env1, o) := step env i
    let (env2, os) := run env1 rest
    (env2, o :: os)
end

end PymotoVerif.Dyad
