/-
Executable model of the pyMOTO-authored part of `EigenSolve` (pymoto/modules/linalg.py): dispatch to the library
eigen-solver, what is handed to ARPACK in shift-invert mode, sorting, per-mode sign and `B`-normalisation, and the
sensitivities (`_dense_sens` = Lee's bordered adjoint system, `_sparse_eigval_sens`, `_sparse_eigvec_sens`).

External behaviour enters as parameters:
* the library call (`scipy.linalg.eigh/eig`, `scipy.sparse.linalg.eigsh/eigs`) returns RAW pairs `(W, Q)` — contract
  `IsEigenpairs A B W Q` (`A qᵢ = λᵢ B qᵢ`); that they are the ones closest to the shift is ARPACK's business;
* `sorting_fn(W, Q)` returns the index array `isort` (contract: a permutation; for the default `np.argsort` the values
  `W ∘ isort` are ascending);
* `sqrt` (numpy's `np.sqrt`), `nonneg x` (`np.real(x) >= 0`), `R : RealPart α` (`np.real`), dtype flags;
* `np.linalg.solve(P, r)` of `_dense_sens` is `linsolve` with contract `P *ᵥ linsolve P r = r`; the per-mode adjoint
  solvers of `_sparse_eigvec_sens` are `zsolveT i`.
Scalars: any field `α` (driver: ℚ(i)). Eigenvectors are the COLUMNS of `Q : Matrix (Fin n) (Fin m) α`.
-/
import Mathlib.Data.Matrix.Mul
import Mathlib.Data.Matrix.Basic
import Mathlib.Data.Matrix.Block
import Mathlib.LinearAlgebra.Matrix.RowCol
import PymotoVerif.LA.LinSys

namespace PymotoVerif.Eigen
open Matrix PymotoVerif.LinSys

variable {α : Type*} [Field α]

/-! ## dispatch -/

inductive Lib | eigh | eig | eigsh | eigs
deriving DecidableEq, Repr

def Lib.name : Lib → String
  | .eigh => "eigh" | .eig => "eig" | .eigsh => "eigsh" | .eigs => "eigs"

/-- `self.is_hermitian` for the current matrices: the user's flag (`hermitian=` argument) wins, else the flag is
detected again for EVERY response on `A` and `B` (as repaired: it is no longer cached from the first matrix) -/
def isHermitian (user : Option Bool) (Aherm : Bool) (Bherm : Option Bool) : Bool :=
  match user with
  | some h => h
  | none => Aherm && Bherm.getD true

/-- the state `_response` keeps between calls that matters for the dispatch: the last Hermitian flag and whether a
shift-invert solver `self.Ainv` exists -/
structure HistState where
  herm : Option Bool      -- `self.is_hermitian` (initially the user's flag, possibly `None`)
  hasAinv : Bool          -- `self.Ainv is not None`
deriving DecidableEq, Repr

def HistState.init (user : Option Bool) : HistState := ⟨user, false⟩

/-- one `_response` of a module with history: returns the new state, the library routine, and whether a NEW shift-invert
solver is chosen (`self.Ainv is None` on the sparse path; `Ainv` is dropped when the detected flag changes) -/
def historyStep (user : Option Bool) (st : HistState) (Aherm : Bool) (Bherm : Option Bool) (sparse : Bool) :
    HistState × Lib × Bool :=
  let herm := match user with
    | some h => h
    | none => Aherm && Bherm.getD true
  let hasAinv := match user with
    | some _ => st.hasAinv
    | none => if some herm ≠ st.herm then false else st.hasAinv
  let lib := if sparse then (if herm then Lib.eigsh else Lib.eigs) else (if herm then Lib.eigh else Lib.eig)
  let newAinv := sparse && !hasAinv
  (⟨some herm, hasAinv || sparse⟩, lib, newAinv)

/-- a whole history of responses -/
def historyRun (user : Option Bool) : HistState → List (Bool × Option Bool × Bool) → List (Lib × Bool)
  | _, [] => []
  | st, (a, b, sp) :: rest =>
    let r := historyStep user st a b sp
    (r.2.1, r.2.2) :: historyRun user r.1 rest

/-- `self.is_sparse` -/
def isSparse (Asparse : Bool) (Bsparse : Option Bool) : Bool := Asparse && Bsparse.getD true

/-- which library routine `_response` calls -/
def dispatch (sparse hermitian : Bool) : Lib :=
  if sparse then (if hermitian then .eigsh else .eigs) else (if hermitian then .eigh else .eig)

/-- `_sparse_eigs`: the non-Hermitian sparse path only supports `mode='normal'` -/
def sparseModeOk (hermitian : Bool) (modeIsNormal : Bool) : Bool := hermitian || modeIsNormal

/-- what `_sparse_eigs` hands to ARPACK -/
structure ArpackCall (n : ℕ) (α : Type*) where
  k : ℕ                                   -- number of modes (`nmodes`, default 6)
  sigma : α                               -- the shift (default 0)
  M : Option (Matrix (Fin n) (Fin n) α)   -- the `M=` argument
  shifted : Matrix (Fin n) (Fin n) α      -- the matrix whose inverse is the operator `OPinv`

/-- `_sparse_eigs(A, B)`: defaults, `mat_shifted = A` for `sigma == 0` else `A − sigma * B` with `B = I` if absent
(the local `B` is then also the `M=` argument) -/
def arpackCall [DecidableEq α] {n : ℕ} (nmodes : Option ℕ) (sigma : Option α)
    (A : Matrix (Fin n) (Fin n) α) (B : Option (Matrix (Fin n) (Fin n) α)) : ArpackCall n α :=
  let k := nmodes.getD 6
  let s := sigma.getD 0
  if s = 0 then ⟨k, s, B, A⟩
  else
    let B' := B.getD 1
    ⟨k, s, some B', A - s • B'⟩

/-! ## post-processing of the library's raw pairs -/

/-- `np.average(q)` -/
def average {n : ℕ} (q : Fin n → α) : α := (∑ r, q r) / (n : α)

/-- `B @ q` (or `q` when there is no `B`) -/
def applyB {n : ℕ} (B : Option (Matrix (Fin n) (Fin n) α)) (q : Fin n → α) : Fin n → α :=
  match B with
  | none => q
  | some B => B *ᵥ q

/-- the eigen-solver contract: every column of `Q` is an eigenvector, `A qᵢ = λᵢ B qᵢ` (`B = I` when absent) -/
def IsEigenpairs {n m : ℕ} (A : Matrix (Fin n) (Fin n) α) (B : Option (Matrix (Fin n) (Fin n) α))
    (W : Fin m → α) (Q : Matrix (Fin n) (Fin m) α) : Prop :=
  ∀ i, A *ᵥ (fun r => Q r i) = W i • applyB B (fun r => Q r i)

/-- the scale factor `sgn / sqrt(q·Bq)` of one mode; `none` when `assert np.isfinite(sf)` fails -/
def scaleFactor [DecidableEq α] {n : ℕ} (sqrt : α → α) (nonneg : α → Bool)
    (B : Option (Matrix (Fin n) (Fin n) α)) (q : Fin n → α) : Option α :=
  let normval := sqrt (q ⬝ᵥ applyB B q)
  let sgn : α := if nonneg (average q) then 1 else -1
  if normval = 0 then none else some (sgn / normval)

/-- `_response` after the library call: sort by `isort`, then scale every column -/
def postprocess [DecidableEq α] {n m : ℕ} (sqrt : α → α) (nonneg : α → Bool)
    (B : Option (Matrix (Fin n) (Fin n) α)) (W : Fin m → α) (Q : Matrix (Fin n) (Fin m) α) (isort : Fin m → Fin m) :
    Except Err ((Fin m → α) × Matrix (Fin n) (Fin m) α) :=
  let W' := fun i => W (isort i)
  let Q' := (tabulate (Q.submatrix id isort)).get
  let sf := fun i => scaleFactor sqrt nonneg B (fun r => Q' r i)
  if (List.finRange m).all (fun i => (sf i).isSome) then
    .ok (W', fun r i => (sf i).getD 0 * Q' r i)       -- `qi *= sf`
  else .error .Assertion

/-! ## sensitivities -/

/-- Lee's bordered matrix `np.block([[(A − λB).T, −((B + B.T)/2) q], [−B q, 0]])` -/
def leeMatrix {n : ℕ} (A B : Matrix (Fin n) (Fin n) α) (lam : α) (q : Fin n → α) :
    Matrix (Fin n ⊕ Unit) (Fin n ⊕ Unit) α :=
  fromBlocks (A - lam • B)ᵀ (replicateCol Unit (-(((2 : α)⁻¹ • (B + Bᵀ)) *ᵥ q)))
    (replicateRow Unit (-(B *ᵥ q))) 0

/-- one mode of `_dense_sens`: `(dAᵢ, dBᵢ) = (−ν qᵀ, (λ ν + α/2 q) qᵀ)` with `[ν; α] = solve(P, [dq; dλ])` -/
def denseSensMode {n : ℕ}
    (linsolve : Matrix (Fin n ⊕ Unit) (Fin n ⊕ Unit) α → (Fin n ⊕ Unit → α) → (Fin n ⊕ Unit → α))
    (A B : Matrix (Fin n) (Fin n) α) (lam : α) (q dq : Fin n → α) (dlam : α) :
    Matrix (Fin n) (Fin n) α × Matrix (Fin n) (Fin n) α :=
  let adj := linsolve (leeMatrix A B lam q) (Sum.elim dq (fun _ => dlam))
  let nu := fun r => adj (Sum.inl r)
  let alpha := adj (Sum.inr ())
  (vecMulVec (-nu) q, vecMulVec (lam • nu + (alpha / 2) • q) q)

/-- `_dense_sens`: sum over the modes with a non-zero seed; `B` defaults to the identity; real parts for real inputs.
Returns `(dA, dB)` (the caller drops `dB` when there is no `B` input). -/
def denseSens [DecidableEq α] {n m : ℕ} (R : RealPart α) (Acomplex Bcomplex : Bool)
    (linsolve : Matrix (Fin n ⊕ Unit) (Fin n ⊕ Unit) α → (Fin n ⊕ Unit → α) → (Fin n ⊕ Unit → α))
    (A : Matrix (Fin n) (Fin n) α) (B : Option (Matrix (Fin n) (Fin n) α))
    (W : Fin m → α) (Q : Matrix (Fin n) (Fin m) α)
    (dW : Option (Fin m → α)) (dQ : Option (Matrix (Fin n) (Fin m) α)) :
    Matrix (Fin n) (Fin n) α × Matrix (Fin n) (Fin n) α :=
  let Bm := B.getD 1
  let dWv := dW.getD 0
  let dQv := dQ.getD 0
  let skip := fun i => decide (∀ r, dQv r i = 0) && decide (dWv i = 0)
  let mode := fun i => denseSensMode linsolve A Bm (W i) (fun r => Q r i) (fun r => dQv r i) (dWv i)
  (∑ i, if skip i then 0 else (if Acomplex then (mode i).1 else (mode i).1.map R.re),
   ∑ i, if skip i then 0 else (if Bcomplex then (mode i).2 else (mode i).2.map R.re))

/-- `_sparse_eigval_sens`: `dA = Σ (dλᵢ / qᵢ·Bqᵢ) qᵢ qᵢᵀ`, `dB = −Σ (λᵢ dλᵢ / qᵢ·Bqᵢ) qᵢ qᵢᵀ` as DyadCarriers -/
def sparseEigvalSens [DecidableEq α] {n m : ℕ} (R : RealPart α) (Areal Breal : Bool)
    (B : Option (Matrix (Fin n) (Fin n) α)) (W : Fin m → α) (Q : Matrix (Fin n) (Fin m) α) (dW : Fin m → α) :
    Dyads n n α × Dyads n n α :=
  let modes := (List.finRange m).filter (fun i => !decide (dW i = 0))
  let q := fun i => fun r => Q r i
  let qmq := fun i => q i ⬝ᵥ applyB B (q i)
  let dyA := fun i => ([((dW i / qmq i) • q i, q i)] : Dyads n n α)
  let dyB := fun i => ([(-((W i * dW i / qmq i) • q i), q i)] : Dyads n n α)    -- `dB -= DyadCarrier(dB_u, qi)`
  (modes.flatMap fun i => if Areal then Dyads.real R (dyA i) else dyA i,
   modes.flatMap fun i => if Breal then Dyads.real R (dyB i) else dyB i)

/-- one mode of `_sparse_eigvec_sens` (Delissen 2022): particular solution of the singular adjoint system by the mode's
solver `zsolveT` (for `(A − λB)ᵀ`), plus the homogeneous part -/
def sparseEigvecMode {n : ℕ} (zsolveT : (Fin n → α) → (Fin n → α))
    (B : Matrix (Fin n) (Fin n) α) (lam : α) (phi dphi : Fin n → α) :
    ((Fin n → α) × (Fin n → α)) × ((Fin n → α) × (Fin n → α)) :=
  let alpha := -(phi ⬝ᵥ dphi)
  -- every stored numpy vector is evaluated once (`Tab.get_tabulate`: semantically the identity)
  let rT := tabulate (replicateCol (Fin 1) (dphi + alpha • (Bᵀ *ᵥ phi)))
  let r : Fin n → α := fun i => rT.get i 0
  let vpT := tabulate (replicateCol (Fin 1) (zsolveT r))
  let vp : Fin n → α := fun i => vpT.get i 0
  let c := -(vp ⬝ᵥ (B *ᵥ phi))
  let vT := tabulate (replicateCol (Fin 1) (vp + c • phi))
  let v : Fin n → α := fun i => vT.get i 0
  let wT := tabulate (replicateCol (Fin 1) ((alpha / 2) • phi + lam • v))
  ((fun i => -(v i), phi), (fun i => wT.get i 0, phi))      -- dAi = −v φᵀ ; dBi = (α/2 φ + λ v) φᵀ

/-- `_sparse_eigvec_sens(A, B, dW, dQ)`: the eigenvalue part (if `dW` is given) plus, for every mode whose seed column is
not identically zero, `dA −= v φᵀ`, `dB += (α/2 φ + λ v) φᵀ` (real parts for real inputs); `B` is the identity when the
module has no `B` input. `zsolveT i` is the adjoint solver of mode `i`. -/
def sparseEigvecSens [DecidableEq α] {n m : ℕ} (R : RealPart α) (Areal Breal : Bool)
    (zsolveT : Fin m → (Fin n → α) → (Fin n → α))
    (B : Option (Matrix (Fin n) (Fin n) α)) (W : Fin m → α) (Q : Matrix (Fin n) (Fin m) α)
    (dW : Option (Fin m → α)) (dQ : Matrix (Fin n) (Fin m) α) : Dyads n n α × Dyads n n α :=
  let Bm := B.getD 1
  let base : Dyads n n α × Dyads n n α := match dW with
    | some d => sparseEigvalSens R Areal Breal B W Q d
    | none => ([], [])
  let modes := (List.finRange m).filter (fun i => !decide (∀ r, dQ r i = 0))
  let md := fun i => sparseEigvecMode (zsolveT i) Bm (W i) (fun r => Q r i) (fun r => dQ r i)
  (base.1 ++ modes.flatMap (fun i => if Areal then Dyads.real R [(md i).1] else [(md i).1]),
   base.2 ++ modes.flatMap (fun i => if Breal then Dyads.real R [(md i).2] else [(md i).2]))

end PymotoVerif.Eigen
