/-
C06 — executable state-machine model of `get_diagonal_indices` and `LDAWrapper`
(`pymoto/solvers/solvers.py`), following the code as written (after the five C06 repairs recorded in
KNOWN_FINDINGS.txt: the diagonal test uses all three conditions, the x0 deflation broadcasts,
symmetry flags are detected again at every `update`).

Scalars: any commutative ring with a division (a field in the theorems) together with a record `Cfg`
of the operations numpy supplies: conjugation `cj`, real / imaginary part (both embedded in `α`), the
strict order `lt` used on real quantities, the squared tolerances.  The same definitions run at `ℚ`
(cj = id) and at the Gaussian rationals `ℚ(i)` in the driver.

Representation choices (none of them observable):
* a right-hand-side block of shape `(n, k)` is `Fin k → Fin n → α` (column `j` is `rhs j`); a vector
  right-hand side is the block with `k = 1` (the code itself reshapes it to `(n, 1)`).
* `diagonal_idx` / `nondiagonal_idx` are one Boolean mask `diag`; a stored vector (length `|isel|` in
  the code) is kept as a full-length vector that is zero on `diag`; every product "restricted to
  `isel`" is written as a masked sum.
* numpy dtypes are Boolean flags (`cplx`) on the matrix, the right-hand side, the initial guess and on
  every stored pair; they only matter for the rule "a complex stored vector is not used for a real
  right-hand side unless its contribution is numerically real".
* the final normalisation `badd /= bnrm; xadd /= bnrm` multiplies the new pair by `c.scale bnrm²`, an arbitrary
  non-zero parameter (it needs a square root); `ldas_norm_irrelevant`: no observable depends on it.
* the inner solver is a parameter `inner A adj b x0` (column-wise); `adj = false` is `trans='N'`,
  `adj = true` is `trans='H'` — the wrapper never calls it with `'T'`.

dtype promotion (repair 123ee8f): the append loop subtracts out of place (`badd = badd - beta*b`), so a new pair
becomes complex as soon as one stored pair is complex; in the x0 deflation a complex stored `x` is skipped
when the initial guess is real.  Dependent columns (repair b80d929): a new pair is skipped when
`bnrm <= tol * bnrm0` (`bnrm0` = norm before the orthogonalisation); the model compares the squares.
-/
import Mathlib.Data.Matrix.Mul
import Mathlib.Data.Matrix.Basic

namespace PymotoVerif.LDAS
open Matrix

abbrev Vec (n : Nat) (α : Type) := Fin n → α
abbrev Mat (n : Nat) (α : Type) := Matrix (Fin n) (Fin n) α
/-- block of `k` columns -/
abbrev Blk (n k : Nat) (α : Type) := Fin k → Vec n α

/-- what numpy supplies for the scalar type -/
structure Cfg (α : Type) where
  cj : α → α
  re : α → α
  im : α → α
  /-- strict order, only ever applied to real quantities -/
  lt : α → α → Bool
  /-- `tol²` (the code compares `‖r‖/‖b‖ > tol`, the model compares squares) -/
  tol2 : α
  /-- `(1e-10)²` of the "numerically real" test -/
  eps2 : α
  /-- the normalisation factor `1/bnrm` of a new database pair as a function of `bnrm²` (a square root, hence a
      parameter); the exact driver uses the constant 1 — no observable depends on it (`ldas_norm_irrelevant`) -/
  scale : α → α

inductive Err | typeError | attributeError
  deriving DecidableEq, Repr

inductive Trans | N | T | H | other
  deriving DecidableEq, Repr

section model
variable {n : Nat} {α : Type} [CommRing α] [Div α] [DecidableEq α]

/-! ### evaluation helpers: tabulate a vector / block once (semantically the identity, `memo_eq`);
without them the closures built by the loops would be re-evaluated exponentially often -/

@[noinline] def lookup {m : Nat} {β : Type} (a : Array β) (h : a.size = m) (i : Fin m) : β :=
  a[i.val]'(by omega)

@[macro_inline] def memo {m : Nat} {β : Type} (v : Fin m → β) : Fin m → β :=
  let a := Array.ofFn v
  lookup a (by simp [a])

@[simp] theorem memo_eq {m : Nat} {β : Type} (v : Fin m → β) : memo v = v := by
  funext i; simp [memo, lookup]

@[noinline] def lookupB {m k : Nat} {β : Type} (a : Array (Array β)) (f : Fin k → Fin m → β)
    (j : Fin k) (i : Fin m) : β :=
  match a[j.val]? with
  | some r => match r[i.val]? with
    | some v => v
    | none => f j i
  | none => f j i

@[macro_inline] def memoB {m k : Nat} {β : Type} (B : Fin k → Fin m → β) : Fin k → Fin m → β :=
  let a := Array.ofFn fun j => Array.ofFn (B j)
  lookupB a B

@[simp] theorem memoB_eq {m k : Nat} {β : Type} (B : Fin k → Fin m → β) : memoB B = B := by
  funext j i; simp [memoB, lookupB]

/-! ### `get_diagonal_indices` -/

/-- `bmat.sum(axis=0)[i]`: number of non-zeros in column `i` -/
def nnzCol (A : Mat n α) (i : Fin n) : Nat := (Finset.univ.filter fun r => A r i ≠ 0).card
/-- `bmat.sum(axis=1)[i]`: number of non-zeros in row `i` -/
def nnzRow (A : Mat n α) (i : Fin n) : Nat := (Finset.univ.filter fun c => A i c ≠ 0).card

/-- `has_diag & (nnz_rows <= 1) & (nnz_cols <= 1)` -/
def diagMask (A : Mat n α) (i : Fin n) : Bool :=
  decide (A i i ≠ 0) && decide (nnzCol A i ≤ 1) && decide (nnzRow A i ≤ 1)

/-- the function as it was before repair be0d3f2: `np.logical_and(has_diag, nnz_rows <= 1, nnz_cols <= 1)`
    — the third argument is `out`, so the row condition was ignored -/
def diagMaskBeforeRepair (A : Mat n α) (i : Fin n) : Bool :=
  decide (A i i ≠ 0) && decide (nnzCol A i ≤ 1)

/-! ### matrix class detection (`matrix_is_symmetric`, `matrix_is_hermitian`, exact data) -/

def adjM (c : Cfg α) (A : Mat n α) : Mat n α := Matrix.of fun i j => c.cj (A j i)
def allFin (p : Fin n → Bool) : Bool := decide (∀ i, p i = true)
def isSym (A : Mat n α) : Bool := allFin fun i => allFin fun j => decide (A i j = A j i)
def isHerm (c : Cfg α) (A : Mat n α) (cplx : Bool) : Bool :=
  if cplx then allFin fun i => allFin fun j => decide (A i j = c.cj (A j i)) else isSym A

/-! ### state -/

structure Pair (n : Nat) (α : Type) where
  x : Vec n α
  b : Vec n α
  cplx : Bool

structure State (n : Nat) (α : Type) where
  A : Option (Mat n α)
  Acplx : Bool
  userSym : Option Bool
  userHerm : Option Bool
  sym : Option Bool
  herm : Option Bool
  diag : Fin n → Bool
  db : List (Pair n α)
  dbAdj : List (Pair n α)

/-- `LDAWrapper.__init__` without a matrix -/
def init (userSym userHerm : Option Bool) : State n α :=
  { A := none, Acplx := false, userSym := userSym, userHerm := userHerm, sym := userSym, herm := userHerm,
    diag := fun _ => false, db := [], dbAdj := [] }

/-- `LDAWrapper.update` (the inner `solver.update(A)` is the first argument of `inner` in `solve`) -/
def update (c : Cfg α) (s : State n α) (A : Mat n α) (cplx : Bool) : State n α :=
  { s with
    sym := match s.userSym with
      | none => some (isSym A)
      | some _ => s.sym
    herm := match s.userHerm with
      | none => some (isHerm c A cplx)
      | some _ => s.herm
    A := some A
    Acplx := cplx
    diag := diagMask A
    db := []
    dbAdj := [] }

/-! ### `_do_solve_1rhs` -/

/-- `a[isel] @ b.conj()` -/
def ipSel (c : Cfg α) (d : Fin n → Bool) (a b : Vec n α) : α :=
  ∑ i, if d i then 0 else a i * c.cj (b i)

/-- `‖v‖²` -/
def nsq (c : Cfg α) (v : Vec n α) : α := ∑ i, v i * c.cj (v i)

/-- the test `residual > tol` for one column (`r = M sol − rhs`); for a zero right-hand side numpy
    evaluates `0/0 = nan > tol = False` and `r/0 = inf > tol = True`, which is the same inequality -/
def exceeds (c : Cfg α) (r b : Vec n α) : Bool := c.lt (c.tol2 * nsq c b) (nsq c r)

/-- `norm(imag(B)) < 1e-10 * norm(real(B))` (Frobenius norms of the block) -/
def nearReal {k : Nat} (c : Cfg α) (B : Blk n k α) : Bool :=
  c.lt (∑ j, ∑ i, c.im (B j i) * c.im (B j i)) (c.eps2 * ∑ j, ∑ i, c.re (B j i) * c.re (B j i))

def maskOff (d : Fin n → Bool) (v : Vec n α) : Vec n α := fun i => if d i then 0 else v i

/-- `sol[idia] = rhs[idia] / A.diagonal()[idia]`, zero elsewhere -/
def diagSol (M : Mat n α) (d : Fin n → Bool) (r : Vec n α) : Vec n α :=
  fun i => if d i then r i / M i i else 0

/-- one pass of the reconstruction loop (one stored pair, whole block) -/
def reconStep {k : Nat} (c : Cfg α) (d : Fin n → Bool) (rc : Bool) (p : Pair n α)
    (st : Blk n k α × Blk n k α) : Blk n k α × Blk n k α :=
  let al : Fin k → α := memo fun j => ipSel c d (st.1 j) p.b / ipSel c d p.b p.b
  let remRhs : Blk n k α := memoB fun j i => al j * p.b i
  let addSol : Blk n k α := memoB fun j i => al j * p.x i
  if p.cplx && !rc then
    if nearReal c remRhs then
      if nearReal c addSol then
        (memoB fun j i => if d i then st.1 j i else st.1 j i - c.re (remRhs j i),
         memoB fun j i => if d i then st.2 j i else st.2 j i + c.re (addSol j i))
      else st
    else st
  else
    (memoB fun j i => if d i then st.1 j i else st.1 j i - remRhs j i,
     memoB fun j i => if d i then st.2 j i else st.2 j i + addSol j i)

/-- modified Gram–Schmidt reconstruction over the database: `(rhs_loc, sol)` -/
def reconstruct {k : Nat} (c : Cfg α) (d : Fin n → Bool) (rc : Bool) :
    List (Pair n α) → Blk n k α × Blk n k α → Blk n k α × Blk n k α
  | [], st => st
  | p :: db, st => reconstruct c d rc db (reconStep c d rc p st)

/-- deflation of the initial guess against the stored solutions (only feeds the inner solver); a complex
    stored `x` is skipped for a real initial guess (`x0c = false`), `beta` being computed before the test -/
def deflate (c : Cfg α) (d : Fin n → Bool) (x0c : Bool) : List (Pair n α) → Vec n α → Vec n α
  | [], v => v
  | p :: db, v =>
    let beta := ipSel c d v p.x / ipSel c d p.x p.x
    if p.cplx && !x0c then deflate c d x0c db v
    else deflate c d x0c db (memo fun i => if d i then v i else v i - p.x i * beta)

/-- orthogonalisation of a new pair against the database -/
def orthPair (c : Cfg α) (d : Fin n → Bool) : List (Pair n α) → Vec n α × Vec n α → Vec n α × Vec n α
  | [], st => st
  | p :: db, st =>
    let beta := ipSel c d st.2 p.b / ipSel c d p.b p.b
    orthPair c d db (memo fun i => st.1 i - beta * p.x i, memo fun i => st.2 i - beta * p.b i)

/-- database append for one newly solved column; the Boolean says "skipped because
    `bnrm <= tol * bnrm0`" (compared as `bnrm² ≤ tol²·bnrm0²`, i.e. NOT `tol²·bnrm0² < bnrm²`) -/
def appendOne (c : Cfg α) (M : Mat n α) (d : Fin n → Bool) (rc : Bool) (db : List (Pair n α)) (xnew : Vec n α) :
    List (Pair n α) × Bool :=
  let st0 : Vec n α × Vec n α := (memo (maskOff d xnew), memo (maskOff d (M *ᵥ xnew)))
  let n0 := ipSel c d st0.2 st0.2
  let o := orthPair c d db st0
  let n1 := ipSel c d o.2 o.2
  if c.lt (c.tol2 * n0) n1 then
    let t := c.scale n1                      -- badd /= bnrm; xadd /= bnrm
    (db ++ [{ x := memo fun i => t * o.1 i, b := memo fun i => t * o.2 i, cplx := rc || db.any (·.cplx) }], false)
  else (db, true)

/-- the loop `for i in range(xnew.shape[-1])` over the failing columns, in order -/
def appendCols {k : Nat} (c : Cfg α) (M : Mat n α) (d : Fin n → Bool) (rc : Bool) (did : Fin k → Bool)
    (xnew : Blk n k α) : List (Fin k) → List (Pair n α) × Nat → List (Pair n α) × Nat
  | [], st => st
  | j :: js, st =>
    if did j then
      let r := appendOne c M d rc st.1 (xnew j)
      appendCols c M d rc did xnew js (r.1, if r.2 then st.2 + 1 else st.2)
    else appendCols c M d rc did xnew js st

structure SolveOut (n k : Nat) (α : Type) where
  sol : Blk n k α
  db : List (Pair n α)
  /-- `_did_solve` per column -/
  did : Fin k → Bool
  /-- the wrapped solver's `solve()` was reached -/
  called : Bool
  /-- new columns not stored because they depend (to the tolerance) on the database -/
  dropped : Nat
  /-- remaining right-hand side handed to the inner solver (columns with `did`) -/
  rem : Blk n k α
  /-- deflated initial guess handed to the inner solver -/
  x0loc : Option (Blk n k α)

/-- `_do_solve_1rhs(M, rhs, x_data, b_data, solve_fn, x0)`; `Mc`, `rhsC`: dtype flags.  The function itself never
    fails (the `Except` only keeps the shape of `solve`, which rejects a bad `trans` / a missing matrix) -/
def doSolve {k : Nat} (c : Cfg α) (solveFn : Vec n α → Option (Vec n α) → Vec n α)
    (M : Mat n α) (Mc : Bool) (d : Fin n → Bool) (db : List (Pair n α))
    (rhs : Blk n k α) (rhsC : Bool) (x0 : Option (Blk n k α × Bool)) : Except Err (SolveOut n k α) :=
  let rc := Mc || rhsC                       -- dtype = np.result_type(A, rhs)
  let sol0 : Blk n k α := memoB fun j => diagSol M d (rhs j)
  let rem0 : Blk n k α := memoB fun j => maskOff d (rhs j)
  let r := reconstruct c d rc db (rem0, sol0)
  let did : Fin k → Bool := memo fun j => exceeds c (memo (M *ᵥ r.2 j - rhs j)) (rhs j)
  let anyDid := (List.finRange k).any did
  if anyDid then
    let x0loc : Option (Blk n k α) := x0.map fun p => memoB fun j => deflate c d p.2 db (memo (maskOff d (p.1 j)))
    let xnew : Blk n k α := memoB fun j => if did j then solveFn (r.1 j) (x0loc.map fun X => X j) else 0
    let sol : Blk n k α := memoB fun j => if did j then (fun i => if d i then r.2 j i else r.2 j i + xnew j i) else r.2 j
    let ap := appendCols c M d rc did xnew (List.finRange k) (db, 0)
    .ok { sol := sol, db := ap.1, did := did, called := true, dropped := ap.2, rem := r.1, x0loc := x0loc }
  else
    .ok { sol := r.2, db := db, did := did, called := false, dropped := 0, rem := r.1, x0loc := none }

/-! ### `LDAWrapper.solve` -/

def truthy : Option Bool → Bool
  | some b => b
  | none => false

/-- `adjoint_mode = trans != 'N' and not (self.symmetric or self.hermitian)` -/
def adjointMode (s : State n α) (tr : Trans) : Bool :=
  decide (tr ≠ .N) && !(truthy s.sym || truthy s.herm)
/-- `conj_mode = self.symmetric and trans == 'H' or not self.symmetric and trans == 'T'` -/
def conjMode (s : State n α) (tr : Trans) : Bool :=
  (truthy s.sym && decide (tr = .H)) || (!truthy s.sym && decide (tr = .T))

def cjB {k : Nat} (c : Cfg α) (B : Blk n k α) : Blk n k α := fun j i => c.cj (B j i)

/-- `LDAWrapper.solve(rhs, x0, trans)`; returns the new state and the complete record of the call
    (`sol` is the returned array; for a vector right-hand side it is the single column) -/
def solve {k : Nat} (c : Cfg α) (inner : Mat n α → Bool → Vec n α → Option (Vec n α) → Vec n α)
    (s : State n α) (rhs : Blk n k α) (rhsC : Bool) (x0 : Option (Blk n k α × Bool)) (tr : Trans) :
    Except Err (State n α × SolveOut n k α) :=
  if tr = .other then .error .typeError
  else match s.A with
    | none => .error .attributeError        -- `None.diagonal()` / `None.conj()`
    | some A =>
      let adj := adjointMode s tr
      let cm := conjMode s tr
      let rhs' := if cm then memoB (cjB c rhs) else rhs
      if adj then
        match doSolve c (inner A true) (adjM c A) s.Acplx s.diag s.dbAdj rhs' rhsC x0 with
        | .error e => .error e
        | .ok o => .ok ({ s with dbAdj := o.db }, { o with sol := if cm then memoB (cjB c o.sol) else o.sol })
      else
        match doSolve c (inner A false) A s.Acplx s.diag s.db rhs' rhsC x0 with
        | .error e => .error e
        | .ok o => .ok ({ s with db := o.db }, { o with sol := if cm then memoB (cjB c o.sol) else o.sol })

/-! ### histories -/

inductive Op (n : Nat) (α : Type) where
  | update (A : Mat n α) (cplx : Bool)
  | solve (k : Nat) (rhs : Blk n k α) (rhsC : Bool) (x0 : Option (Blk n k α × Bool)) (tr : Trans)

/-- observable result of one operation: `none` for `update`, else error or (k, output record) -/
inductive Res (n : Nat) (α : Type) where
  | updated
  | failed (e : Err)
  | solved (k : Nat) (o : SolveOut n k α)

/-- one operation -/
def step (c : Cfg α) (inner : Mat n α → Bool → Vec n α → Option (Vec n α) → Vec n α)
    (s : State n α) : Op n α → State n α × Res n α
  | .update A cplx => (update c s A cplx, .updated)
  | .solve _ rhs rhsC x0 tr =>
    match solve c inner s rhs rhsC x0 tr with
    | .error e => (s, .failed e)
    | .ok (s', o) => (s', .solved _ o)

/-- a whole history -/
def run (c : Cfg α) (inner : Mat n α → Bool → Vec n α → Option (Vec n α) → Vec n α) :
    State n α → List (Op n α) → List (Res n α)
  | _, [] => []
  | s, op :: ops => (step c inner s op).2 :: run c inner (step c inner s op).1 ops

/-- number of calls that reached the wrapped solver -/
def innerCalls : List (Res n α) → Nat
  | [] => 0
  | .solved _ o :: rs => (if o.called then 1 else 0) + innerCalls rs
  | _ :: rs => innerCalls rs

end model
end PymotoVerif.LDAS
