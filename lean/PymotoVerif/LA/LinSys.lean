/-
Executable models of the linear-system modules of `pymoto/modules/linalg.py`
(`LinSolve`, `Inverse`, `SystemOfEquations`, `StaticCondensation`; the code as repaired, see KNOWN_FINDINGS.txt).

Conventions
* Scalars: any commutative ring `α` (the driver runs `Cx ℚ = ℚ(i)`; real data are the scalars with zero imaginary part).
  numpy's `.real` / `np.real` is the parameter `R : RealPart α`; the dtype tests of the code (`np.iscomplexobj`,
  `np.isrealobj`, `matrix_is_sparse`) are Boolean parameters, because a dtype is not a function of the values.
* A right-hand side is a matrix with `k` columns; a *vector* right-hand side is the case `k = 1` (numpy's expressions are
  shape polymorphic; where the code branches on `ndim` both branches are the `k = 1` instance of the block formula,
  e.g. `DyadCarrier(-lam, u)` = the one-element list `DyadCarrier(list(-lam.T), list(u.T))`, `np.outer(-lam, u)` =
  `einsum("iB,jB->ij", -lam, u)`).
* The inner linear solver (everything behind `self.solver.solve(rhs, trans=…)`: class detection, `auto_determine_solver`,
  `LDAWrapper`, factorisation — properties C05/C06) is the PARAMETER `S : Solver n α` with the contract `Solver.Ok S A`
  (`A * S.solve B = B`, `Aᵀ * S.solveT B = B`). `np.linalg.inv` is the parameter `inv` with contract `A * inv A = 1`.
* Index sets (`free`, `prescribed`, `main`) are maps `Fin nf → Fin n`; numpy fancy-index assignment `x[idx, ...] = v`
  is `scatterRows` (last write wins), fancy-index reads are `Matrix.submatrix`.
* A matrix sensitivity is either a dense array or a `DyadCarrier` (list of dyads); `MatSens.toDense` is its meaning.
-/
import Mathlib.Data.Matrix.Mul
import Mathlib.Data.Matrix.Basic
import Mathlib.Data.List.Basic
import Mathlib.Data.List.FinRange
import PymotoVerif.LA.Cx

namespace PymotoVerif.LinSys
open Matrix

/-- exception classes the modelled code can raise -/
inductive Err | TypeError | Assertion | ValueError | IndexError | AttributeError
deriving DecidableEq, Repr

def Err.name : Err → String
  | .TypeError => "TypeError" | .Assertion => "Assertion" | .ValueError => "ValueError"
  | .IndexError => "IndexError" | .AttributeError => "AttributeError"

variable {α : Type*} [CommRing α]

/-! ## evaluation: an array is DATA

A `Matrix` is a function, so a `let`-bound matrix expression is re-evaluated at every entry access. numpy evaluates an
array expression once; `Tab.get (tabulate M)` does the same (it stores the entries in an `Array`) and is the identity
(`Tab.get_tabulate`). It is written at the `let`s of the models that correspond to stored numpy arrays. -/

structure Tab (n m : ℕ) (α : Type*) where
  arr : Array (Array α)

def tabulate {n m : ℕ} (M : Matrix (Fin n) (Fin m) α) : Tab n m α :=
  ⟨Array.ofFn fun i : Fin n => Array.ofFn fun j : Fin m => M i j⟩

def Tab.get {n m : ℕ} (t : Tab n m α) : Matrix (Fin n) (Fin m) α :=
  fun i j => ((t.arr[i.val]?).bind (fun r => r[j.val]?)).getD 0

@[simp] theorem Tab.get_tabulate {n m : ℕ} (M : Matrix (Fin n) (Fin m) α) : (tabulate M).get = M := by
  ext i j
  simp [Tab.get, tabulate]

/-! ## the inner solver (parameter + contract) -/

/-- what `self.solver` offers after `update(mat)`: `solve(rhs)` and `solve(rhs, trans='T')`, for any number of columns -/
structure Solver (n : ℕ) (α : Type*) where
  solve  : {k : ℕ} → Matrix (Fin n) (Fin k) α → Matrix (Fin n) (Fin k) α
  solveT : {k : ℕ} → Matrix (Fin n) (Fin k) α → Matrix (Fin n) (Fin k) α

/-- the contract of an exact solver for the matrix `A` -/
structure Solver.Ok {n : ℕ} (S : Solver n α) (A : Matrix (Fin n) (Fin n) α) : Prop where
  solve_eq : ∀ {k : ℕ} (B : Matrix (Fin n) (Fin k) α), A * S.solve B = B
  solveT_eq : ∀ {k : ℕ} (B : Matrix (Fin n) (Fin k) α), Aᵀ * S.solveT B = B

/-! ## matrix sensitivities: dense array or DyadCarrier -/

/-- the list of dyads `Σ uₖ ⊗ vₖ` held by a `DyadCarrier` -/
abbrev Dyads (n m : ℕ) (α : Type*) := List ((Fin n → α) × (Fin m → α))

/-- `DyadCarrier.todense` -/
def Dyads.toDense {n m : ℕ} (D : Dyads n m α) : Matrix (Fin n) (Fin m) α :=
  fun i j => (D.map fun d => d.1 i * d.2 j).sum

/-- `DyadCarrier.real`: `[Re u…, −Im u…] ⊗ [Re v…, Im v…]` -/
def Dyads.real {n m : ℕ} (R : RealPart α) (D : Dyads n m α) : Dyads n m α :=
  D.map (fun d => (fun i => R.re (d.1 i), fun j => R.re (d.2 j))) ++
  D.map (fun d => (fun i => -R.im (d.1 i), fun j => R.im (d.2 j)))

/-- `DyadCarrier(list(U.T), list(V.T))`: one dyad per column -/
def colDyads {n m k : ℕ} (U : Matrix (Fin n) (Fin k) α) (V : Matrix (Fin m) (Fin k) α) : Dyads n m α :=
  (List.finRange k).map fun c => (fun i => U i c, fun j => V j c)

inductive MatSens (n m : ℕ) (α : Type*)
  | dense (M : Matrix (Fin n) (Fin m) α)
  | dyads (D : Dyads n m α)

def MatSens.toDense {n m : ℕ} : MatSens n m α → Matrix (Fin n) (Fin m) α
  | .dense M => M
  | .dyads D => D.toDense

/-- `.real` of an ndarray / of a DyadCarrier -/
def MatSens.real {n m : ℕ} (R : RealPart α) : MatSens n m α → MatSens n m α
  | .dense M => .dense (M.map R.re)
  | .dyads D => .dyads (D.real R)

def MatSens.isDyad {n m : ℕ} : MatSens n m α → Bool
  | .dense _ => false
  | .dyads _ => true

/-! ## LinSolve -/

/-- what `_response` detects on its inputs: `matrix_is_sparse(mat)`, `matrix_is_complex(mat)`, `np.iscomplexobj(rhs)` -/
structure LinSolveFlags where
  issparse : Bool
  iscomplex : Bool
  rhsComplex : Bool
deriving Repr

/-- `LinSolve._response`: reject a complex rhs for a real sparse matrix, else `solver.update(mat); solver.solve(rhs)` -/
def linSolveResponse {n k : ℕ} (fl : LinSolveFlags) (S : Solver n α) (B : Matrix (Fin n) (Fin k) α) :
    Except Err (Matrix (Fin n) (Fin k) α) :=
  if fl.issparse && !fl.iscomplex && fl.rhsComplex then .error .TypeError
  else .ok (tabulate (S.solve B)).get

/-- `LinSolve._sensitivity(dfdv)`; `u` is the stored solution `self.u`. Returns `(dmat, db)`. -/
def linSolveSensitivity {n k : ℕ} (R : RealPart α) (fl : LinSolveFlags) (S : Solver n α)
    (u dfdv : Matrix (Fin n) (Fin k) α) : MatSens n n α × Matrix (Fin n) (Fin k) α :=
  let lam := (tabulate (S.solveT dfdv)).get
  let dmat : MatSens n n α :=
    if fl.issparse then .dyads (colDyads (-lam) u)   -- DyadCarrier(list(-lam.T), list(u.T)) / DyadCarrier(-lam, u)
    else .dense ((-lam) * uᵀ)                         -- einsum("iB,jB->ij", -lam, u) / np.outer(-lam, u)
  let dmat := if fl.iscomplex then dmat else dmat.real R
  let db := if fl.rhsComplex then lam else lam.map R.re
  (dmat, db)

/-! ## Inverse -/

/-- `Inverse._response` is a bare `np.linalg.inv` call -/
def inverseResponse {n : ℕ} (inv : Matrix (Fin n) (Fin n) α → Matrix (Fin n) (Fin n) α)
    (A : Matrix (Fin n) (Fin n) α) : Matrix (Fin n) (Fin n) α := inv A

/-- `Inverse._sensitivity`: `dA = -Bᵀ dB Bᵀ`, real part if `A` is real -/
def inverseSensitivity {n : ℕ} (R : RealPart α) (Acomplex : Bool) (B dB : Matrix (Fin n) (Fin n) α) :
    Matrix (Fin n) (Fin n) α :=
  let dA := -(Bᵀ * dB * Bᵀ)
  if Acomplex then dA else dA.map R.re

/-! ## index sets -/

/-- `x[idx, ...] = V` on a copy of `base` (numpy fancy-index assignment: for a repeated index the last write wins) -/
def scatterRows {n nf k : ℕ} (f : Fin nf → Fin n) (V : Matrix (Fin nf) (Fin k) α) (base : Matrix (Fin n) (Fin k) α) :
    Matrix (Fin n) (Fin k) α :=
  fun i j => match (List.finRange nf).reverse.find? (fun r => f r = i) with
    | some r => V r j
    | none => base i j

/-- `np.setdiff1d(np.arange(n), idx)`: the sorted complement -/
def complement (n : ℕ) (idx : List ℕ) : List ℕ := (List.range n).filter (fun i => !idx.contains i)

/-- the index bookkeeping and assertions of `SystemOfEquations._prepare/_response` in the order of the code.
`nbf nxp` are the leading sizes of `bf` and `xp`, `dbf dxp` their `ndim`. Returns the index lists `(f, p)`. -/
def soeIndices (n nbf nxp dbf dxp : ℕ) (free prescribed : Option (List ℕ)) : Except Err (List ℕ × List ℕ) := do
  if free.isNone && prescribed.isNone then throw .Assertion      -- _prepare
  if nbf + nxp ≠ n then throw .Assertion
  if dbf ≠ dxp then throw .Assertion
  let f := match free, prescribed with
    | some f, _ => f
    | none, some p => complement n p
    | none, none => []
  let p := match prescribed with
    | some p => p
    | none => complement n f
  if f.length + p.length ≠ n then throw .Assertion
  if (f ++ p).any (fun i => decide (n ≤ i)) then throw .IndexError
  if f.length ≠ nbf || p.length ≠ nxp then throw .ValueError     -- shape mismatch in `x[p] = xp` / `b[f] = bf`
  return (f, p)

/-! ## SystemOfEquations -/

/-- what `SystemOfEquations._response` leaves on `self` for `_sensitivity` -/
structure SoeState (n nf np k : ℕ) (α : Type*) where
  x : Matrix (Fin n) (Fin k) α
  Afp : Matrix (Fin nf) (Fin np) α
  Apf : Matrix (Fin np) (Fin nf) α
  App : Matrix (Fin np) (Fin np) α

/-- `SystemOfEquations._response(A, bf, xp)` after the index bookkeeping; `S` is the inner `LinSolve`'s solver for
`A[f][:, f]`, `fl` the flags the inner `LinSolve` detects (`Aff` inherits sparsity/dtype of `A`; rhs = `bf − Afp xp`).
Returns `((x, b), state)`. -/
def soeResponse {n nf np k : ℕ} (fl : LinSolveFlags) (f : Fin nf → Fin n) (p : Fin np → Fin n)
    (A : Matrix (Fin n) (Fin n) α) (S : Solver nf α)
    (bf : Matrix (Fin nf) (Fin k) α) (xp : Matrix (Fin np) (Fin k) α) :
    Except Err ((Matrix (Fin n) (Fin k) α × Matrix (Fin n) (Fin k) α) × SoeState n nf np k α) := do
  let x0 := scatterRows p xp 0            -- self.x = zeros; self.x[p] = xp
  let b0 := scatterRows f bf 0            -- b = zeros_like(x); b[f] = bf
  let Afp := A.submatrix f p
  let Apf := A.submatrix p f
  let App := A.submatrix p p
  let xf ← linSolveResponse fl S (tabulate (bf - Afp * xp)).get
  let x := (tabulate (scatterRows f xf x0)).get            -- self.x[f] = xf
  let b := (tabulate (scatterRows p (Apf * xf + App * xp) b0)).get
  return ((x, b), ⟨x, Afp, Apf, App⟩)

/-- the adjoint load of `SystemOfEquations._sensitivity`: `zeros; += dgdx[f]` (if given) `; += Apf.T @ dgdb[p]` (if given) -/
def soeAdjointLoad {n nf np k : ℕ} (f : Fin nf → Fin n) (p : Fin np → Fin n)
    (st : SoeState n nf np k α) (dgdx dgdb : Option (Matrix (Fin n) (Fin k) α)) : Matrix (Fin nf) (Fin k) α :=
  let load0 : Matrix (Fin nf) (Fin k) α := 0
  let load1 := match dgdx with
    | some gx => load0 + gx.submatrix f id
    | none => load0
  match dgdb with
    | some gb => load1 + st.Apfᵀ * gb.submatrix p id
    | none => load1

/-- the adjoint vector `lam` of `SystemOfEquations._sensitivity`: `lam[f] = -solve(load, trans='T')`,
`lam[p] = dgdb[p]` (if given) -/
def soeLam {n nf np k : ℕ} (f : Fin nf → Fin n) (p : Fin np → Fin n) (S : Solver nf α)
    (st : SoeState n nf np k α) (dgdx dgdb : Option (Matrix (Fin n) (Fin k) α)) : Matrix (Fin n) (Fin k) α :=
  let lamf := (-1 : α) • S.solveT (tabulate (soeAdjointLoad f p st dgdx dgdb)).get
  let lam0 := scatterRows f lamf (0 : Matrix (Fin n) (Fin k) α)
  match dgdb with
    | some gb => scatterRows p (gb.submatrix p id) lam0
    | none => lam0

/-- `SystemOfEquations._sensitivity(dgdx, dgdb)` (either seed may be `None`). Returns `(dgdA, dgdbf, dgdxp)`. -/
def soeSensitivity {n nf np k : ℕ} (f : Fin nf → Fin n) (p : Fin np → Fin n) (S : Solver nf α)
    (st : SoeState n nf np k α) (dgdx dgdb : Option (Matrix (Fin n) (Fin k) α)) :
    Dyads n n α × Matrix (Fin nf) (Fin k) α × Matrix (Fin np) (Fin k) α :=
  let lam := (tabulate (soeLam f p S st dgdx dgdb)).get
  let dgdA := colDyads lam st.x
  let dgdbf0 : Matrix (Fin nf) (Fin k) α := 0 - lam.submatrix f id
  let dgdup0 : Matrix (Fin np) (Fin k) α := 0 + st.Afpᵀ * lam.submatrix f id
  let dgdup1 := match dgdx with
    | some gx => dgdup0 + gx.submatrix p id
    | none => dgdup0
  match dgdb with
  | some gb => (dgdA, dgdbf0 + gb.submatrix f id, dgdup1 + st.Appᵀ * gb.submatrix p id)
  | none => (dgdA, dgdbf0, dgdup1)

/-! ## StaticCondensation -/

/-- `StaticCondensation._response(A)`: `X = Aff⁻¹ Afm` by the inner solver, `Ã = Amm − Amf X`.
`issparse = false` is rejected (`ndarray` has no `.toarray()`). Returns `(Ã, X)`. -/
def staticCondResponse {n nm nf : ℕ} (issparse : Bool) (m : Fin nm → Fin n) (f : Fin nf → Fin n)
    (A : Matrix (Fin n) (Fin n) α) (S : Solver nf α) :
    Except Err (Matrix (Fin nm) (Fin nm) α × Matrix (Fin nf) (Fin nm) α) :=
  if !issparse then .error .AttributeError
  else
    let X := (tabulate (S.solve (A.submatrix f m))).get
    .ok (A.submatrix m m - A.submatrix m f * X, X)

/-- `StaticCondensation._sensitivity(dfdB)`: `Cl dfdB Cᵀ` with `C = [I; −X]`, `Cl = [I; −Yᵀ]`, `Yᵀ = Aff⁻ᵀ Amfᵀ`.
For a dense seed the code builds `DyadCarrier(list(Cl.T), list(dfdB @ C.T))`; for a `DyadCarrier` seed `Cl @ dfdB @ C.T`
maps every dyad `(u, v)` to `(Cl u, C v)`. -/
def staticCondSensitivity {n nm nf : ℕ} (m : Fin nm → Fin n) (f : Fin nf → Fin n)
    (A : Matrix (Fin n) (Fin n) α) (S : Solver nf α) (X : Matrix (Fin nf) (Fin nm) α)
    (dfdB : MatSens nm nm α) : Dyads n n α :=
  let Yt := S.solveT (A.submatrix m f)ᵀ
  let C0 := scatterRows m (1 : Matrix (Fin nm) (Fin nm) α) (0 : Matrix (Fin n) (Fin nm) α)
  let C := (tabulate (scatterRows f (-X) C0)).get
  let Cl := (tabulate (scatterRows f (-Yt) C0)).get
  match dfdB with
  | .dyads D => D.map fun d => (Cl *ᵥ d.1, C *ᵥ d.2)
  | .dense G => colDyads Cl (tabulate (G * Cᵀ)ᵀ).get

end PymotoVerif.LinSys
