/- C05 — executable models of the pyMOTO-authored part of the direct linear solvers
   (`pymoto/solvers/dense.py`, `sparse.py`, `auto_determine.py`, `matrix_checks.py`).

   The scipy routines are PARAMETERS:
     * `tri M lower unitDiag trans B`  ≙ `scipy.linalg.solve_triangular(M, B, lower=…, unit_diagonal=…, trans=…)`
     * the factor matrices `q r`, `p l u`, `U`, `l d perm` are what `scipy.linalg.qr/lu/cholesky/ldl` returned
     * `inv` ≙ `np.linalg.inv`, `splu` ≙ `scipy.sparse.linalg.splu(A).solve(·, trans)`
   Their contracts appear as hypotheses of the theorems in `Props/C05.lean`, never as axioms.

   Scalars: only operation classes are required, so the same definitions run at `ℚ` (real data) and at the
   Gaussian rationals `QI` of the driver (complex data), and are reasoned about over `[Field α] [StarRing α]`.
   A right-hand side is always a block `Matrix (Fin n) (Fin k) α`; a 1-D right-hand side of shape `(n)` is the case
   `k = 1` (numpy/scipy treat both alike in every authored line except `SolverDiagonal.solve`, modelled twice). -/
import Mathlib.Data.Matrix.Mul
import Mathlib.LinearAlgebra.Matrix.ConjTranspose
import Mathlib.Algebra.Star.Basic

namespace PymotoVerif.LA
open Matrix

/-- `trans ∈ {'N','T','H'}` -/
inductive Trans | N | T | H
  deriving DecidableEq, Repr

abbrev Mat (n m : ℕ) (α : Type*) := Matrix (Fin n) (Fin m) α

section memo
variable {α : Type*} {n k : ℕ}
/-- `withMemoV v f = f v`; operationally `v` is first tabulated into an array so that later reads do not re-evaluate
    the closure (the Lean compiler would otherwise recompute shared sub-expressions of function-valued terms) -/
def withMemoV {β : Sort*} (v : Fin n → α) (f : (Fin n → α) → β) : β :=
  let d : Array α := Array.ofFn v
  f (fun i => match d[i.1]? with
    | some x => x
    | none => v i)
@[simp] theorem withMemoV_eq {β : Sort*} (v : Fin n → α) (f : (Fin n → α) → β) : withMemoV v f = f v := by
  have h : (fun i : Fin n => match (Array.ofFn v)[i.1]? with
    | some x => x
    | none => v i) = v := by funext i; simp
  show f _ = f v
  rw [h]
/-- `withMemo M f = f M` with `M` tabulated first -/
def withMemo {β : Sort*} (M : Mat n k α) (f : Mat n k α → β) : β :=
  let d : Array (Array α) := Array.ofFn fun i => Array.ofFn fun j => M i j
  f (fun i j => match d[i.1]? with
    | some row => (match row[j.1]? with
      | some x => x
      | none => M i j)
    | none => M i j)
@[simp] theorem withMemo_eq {β : Sort*} (M : Mat n k α) (f : Mat n k α → β) : withMemo M f = f M := by
  have h : (fun (i : Fin n) (j : Fin k) => match (Array.ofFn fun i => Array.ofFn fun j => M i j)[i.1]? with
    | some row => (match row[j.1]? with
      | some x => x
      | none => M i j)
    | none => M i j) = M := by funext i j; simp
  show f _ = f M
  rw [h]
end memo

section defs
variable {α : Type*} {n k : ℕ}

/-- the matrix of the requested system: `A`, `A.T` or `A.conj().T` -/
def opT [Star α] {m : ℕ} (t : Trans) (A : Mat m m α) : Mat m m α :=
  match t with
  | .N => A
  | .T => Aᵀ
  | .H => Aᴴ

/-- numpy `.conj()` -/
def conjM [Star α] {m l : ℕ} (M : Mat m l α) : Mat m l α := M.map star

/-- type of `scipy.linalg.solve_triangular(M, B, lower, unit_diagonal, trans)` -/
abbrev TriSolve (α : Type*) (n k : ℕ) := Mat n n α → (lower : Bool) → (unitDiag : Bool) → Trans → Mat n k α → Mat n k α

/-! ### SolverDiagonal (`dense.py:8-25`) -/
/-- `update`: `self.diag = A.diagonal()` -/
def diagOf (A : Mat n n α) : Fin n → α := fun i => A i i
/-- `d = self.diag.conj() if trans == 'H' else self.diag` -/
def diagFor [Star α] (d : Fin n → α) (t : Trans) : Fin n → α :=
  if t = .H then fun i => star (d i) else d
/-- `rhs.ndim == 1`: `rhs / d` -/
def solveDiagVec [Star α] [Div α] (d : Fin n → α) (t : Trans) (b : Fin n → α) : Fin n → α :=
  fun i => b i / diagFor d t i
/-- otherwise: `rhs / d[..., None]` -/
def solveDiag [Star α] [Div α] (d : Fin n → α) (t : Trans) (B : Mat n k α) : Mat n k α :=
  fun i j => B i j / diagFor d t i

variable [Mul α] [AddCommMonoid α] [Star α]

/-! ### SolverDenseQR (`dense.py:29-63`), factors `q, r = scipy.linalg.qr(A)` -/
def solveQR (tri : TriSolve α n k) (q r : Mat n n α) (t : Trans) (B : Mat n k α) : Mat n k α :=
  match t with
  | .N => withMemo (qᴴ * B) fun y => tri r false false .N y                 -- solve_triangular(r, q.T.conj() @ rhs)
  | .T => withMemo (tri r false false .T B) fun y => conjM q * y            -- q.conj() @ solve_triangular(r, rhs, trans='T')
  | .H => withMemo (tri r false false .H B) fun y => q * y                  -- q @ solve_triangular(r, rhs, trans='C')

/-! ### SolverDenseLU (`dense.py:67-103`), factors `p, l, u = scipy.linalg.lu(A)` -/
def solveLU (tri : TriSolve α n k) (p l u : Mat n n α) (t : Trans) (B : Mat n k α) : Mat n k α :=
  match t with
  | .N => withMemo (pᵀ * B) fun y => withMemo (tri l true false .N y) fun z => tri u false false .N z
  | .T => withMemo (tri u false false .T B) fun y => withMemo (tri l true false .T y) fun z => p * z
  | .H => withMemo (tri u false false .H B) fun y => withMemo (tri l true false .H y) fun z => p * z

/-! ### SolverDenseLDL (`dense.py:152-226`) -/
/-- `matrix_is_diagonal` in exact arithmetic -/
def isDiagonal [DecidableEq α] (A : Mat n n α) : Bool :=
  (List.finRange n).all fun i => (List.finRange n).all fun j => decide (i = j) || decide (A i j = 0)
/-- `matrix_is_symmetric` in exact arithmetic -/
def isSymmetric [DecidableEq α] (A : Mat n n α) : Bool :=
  (List.finRange n).all fun i => (List.finRange n).all fun j => decide (A i j = A j i)
/-- `matrix_is_hermitian` in exact arithmetic: a real (non-complex dtype) matrix is tested for symmetry -/
def isHermitian [DecidableEq α] (cplx : Bool) (A : Mat n n α) : Bool :=
  if cplx then (List.finRange n).all fun i => (List.finRange n).all fun j => decide (A i j = star (A j i))
  else isSymmetric A

/-- `u = zeros_like(rhs); u[p] = y` (row `p i` receives row `i` of `y`; for a repeated index the last write wins) -/
def scatterRows (p : Fin n → Fin n) (Y : Mat n k α) : Mat n k α :=
  fun i j => match (List.finRange n).reverse.find? (fun i' => p i' = i) with
    | some i' => Y i' j
    | none => 0

/-- the factorisation state kept by `SolverDenseLDL.update` -/
structure LDLState (α : Type*) (n : ℕ) where
  hermitian : Bool
  l : Mat n n α
  d : Mat n n α
  p : Fin n → Fin n
  d1 : Mat n n α          -- `d1` of the code (inverse of `d`)
  lp : Mat n n α          -- `self.l[self.p, :]`

/-- `SolverDenseLDL.update`; `ldl hermitian A` ≙ `scipy.linalg.ldl(A, hermitian=…)`, `inv` ≙ `np.linalg.inv`.
    `flag` is the constructor argument `hermitian` (kept from the first update when `None`). -/
def updateLDL [DecidableEq α] [Div α] [One α] (cplx : Bool)
    (ldl : Bool → Mat n n α → Mat n n α × Mat n n α × (Fin n → Fin n)) (inv : Mat n n α → Mat n n α)
    (flag : Option Bool) (A : Mat n n α) : LDLState α n :=
  let herm := match flag with
    | some h => h
    | none => isHermitian cplx A
  let (l, d, p) := ldl herm A
  let d1 : Mat n n α := if isDiagonal d then Matrix.diagonal (fun i => 1 / d i i) else inv d
  withMemo d1 fun d1 => withMemo (l.submatrix p id) fun lp =>
  { hermitian := herm, l := l, d := d, p := p, d1 := d1, lp := lp }

/-- `SolverDenseLDL.solve` -/
def solveLDL (tri : TriSolve α n k) (s : LDLState α n) (t : Trans) (B : Mat n k α) : Mat n k α :=
  withMemo (B.submatrix s.p id) fun Bp =>                     -- rhs[self.p]
  match t with
  | .N =>
    withMemo (tri s.lp true true .N Bp) fun u1 =>
    withMemo (s.d1 * u1) fun u2 =>                             -- self.dinv(u1)
    withMemo (tri s.lp true true (if s.hermitian then .H else .T) u2) fun y =>
    scatterRows s.p y
  | .T =>
    withMemo (if s.hermitian then conjM (tri s.lp true true .N (conjM Bp)) else tri s.lp true true .N Bp) fun u1 =>
    withMemo (conjM (s.d1ᴴ * conjM u1)) fun u2 =>              -- self.dinvH(u1.conj()).conj()
    withMemo (tri s.lp true true .T u2) fun y =>
    scatterRows s.p y
  | .H =>
    withMemo (if !s.hermitian then conjM (tri s.lp true true .N (conjM Bp)) else tri s.lp true true .N Bp) fun u1 =>
    withMemo (s.d1ᴴ * u1) fun u2 =>                            -- self.dinvH(u1)
    withMemo (tri s.lp true true .H u2) fun y =>
    scatterRows s.p y

/-! ### SolverDenseCholesky (`dense.py:107-148`) -/
structure CholState (α : Type*) (n : ℕ) where
  success : Bool
  U : Mat n n α                    -- meaningful when `success`
  backup : Option (LDLState α n)   -- state of `self.backup_solver` (None: never updated)

/-- `update`: `chol A = none` ≙ `scipy.linalg.cholesky` raised `LinAlgError`; then the LDL back-up solver is updated.
    `backupFlag` is the `hermitian` attribute currently stored in the back-up solver (None before its first update). -/
def updateChol [DecidableEq α] [Div α] [One α] (cplx : Bool) (chol : Mat n n α → Option (Mat n n α))
    (ldl : Bool → Mat n n α → Mat n n α × Mat n n α × (Fin n → Fin n)) (inv : Mat n n α → Mat n n α)
    (prev : Option (CholState α n)) (A : Mat n n α) : CholState α n :=
  let prevBackup := prev.bind (·.backup)
  match chol A with
  | some U => { success := true, U := U, backup := prevBackup }
  | none =>
    let flag := prevBackup.map (·.hermitian)
    { success := false, U := 0, backup := some (updateLDL cplx ldl inv flag A) }

/-- the branch `if self.success` of `solve` -/
def solveCholOk (tri : TriSolve α n k) (U : Mat n n α) (t : Trans) (B : Mat n k α) : Mat n k α :=
  match t with
  | .N | .H => withMemo (tri U false false .H B) fun y => tri U false false .N y
  | .T => withMemo (tri U false false .T B) fun y => withMemo (tri U false false .N (conjM y)) fun z => conjM z

/-- `SolverDenseCholesky.solve` (error `"AttributeError"`-like state `success = false` without back-up cannot occur
    after `update`; it is reported as an error) -/
def solveChol (tri : TriSolve α n k) (s : CholState α n) (t : Trans) (B : Mat n k α) : Except String (Mat n k α) :=
  if s.success then .ok (solveCholOk tri s.U t B)
  else match s.backup with
    | some b => .ok (solveLDL tri b t B)
    | none => .error "AttributeError"

/-! ### SolverSparseLU (`sparse.py:221-248`): pure pass-through `self.inv.solve(rhs, trans=trans)` -/
/-- the only authored logic is the check of `trans` and the mapping of the mode string, which is the identity -/
def sparseTransMap (t : String) : Except String Trans :=
  if t = "N" then .ok .N else if t = "T" then .ok .T else if t = "H" then .ok .H else .error "TypeError"
/-- `SolverSparseLU.solve`: `splu` ≙ `self.inv.solve(·, trans)`.  `iscomplexA` is `self.iscomplex` (set by `update`),
    `rhsComplex` is `np.iscomplexobj(rhs)`, `reB`/`imB` are `rhs.real`/`rhs.imag` and `I` the imaginary unit: a real
    factorisation is applied to the real and imaginary parts separately. -/
def solveSparseLU (splu : Trans → Mat n k α → Mat n k α) (iscomplexA rhsComplex : Bool) (reB imB : Mat n k α) (I : α)
    (t : String) (B : Mat n k α) : Except String (Mat n k α) :=
  match sparseTransMap t with
  | .error e => .error e
  | .ok tt =>
    if !iscomplexA && rhsComplex then
      withMemo (splu tt reB) fun xr => withMemo (splu tt imB) fun xi => .ok (fun i j => xr i j + I * xi i j)
    else .ok (splu tt B)

/-- all dense solvers end with `raise TypeError` for any other mode string -/
def denseTrans (t : String) : Except String Trans := sparseTransMap t

end defs

/-! ### `auto_determine_solver` (`auto_determine.py:11-108`) for the back-ends of this environment
    (no pypardiso, no scikit-sparse, no cvxopt) -/
inductive SolverClass
  | Diagonal | DenseQR | DenseLU | DenseCholesky | DenseLDL (hermitian : Bool) | SparseLU
  deriving DecidableEq, Repr

/-- detected (or overridden) matrix flags -/
structure Flags where
  sparse : Bool
  square : Bool
  complex : Bool
  diagonal : Bool
  hermitian : Bool
  symmetric : Bool
  posDiag : Bool      -- `np.all(A.diagonal() > 0) or np.all(A.diagonal() < 0)`
  deriving DecidableEq, Repr

/-- resolution of the `ishermitian` / `issymmetric` overrides (lines 60-77); `detH`, `detS` are the detected values -/
def resolveSym (cplx : Bool) (ovH ovS : Option Bool) (detH detS : Bool) : Except String (Bool × Bool) :=
  if cplx then .ok (ovH.getD detH, ovS.getD detS)
  else match ovH, ovS with
    | none, none => .ok (detS, detS)
    | some h, some s => if h = s then .ok (h, s) else .error "Assertion"
    | none, some s => .ok (s, s)
    | some h, none => .ok (h, h)

/-- the decision taken by `auto_determine_solver` -/
def autoDetermine (f : Flags) : SolverClass :=
  if !f.square then .DenseQR
  else if f.diagonal then .Diagonal
  else if f.sparse then .SparseLU      -- Pardiso / CHOLMOD back-ends are not available: always falls through to LU
  else if f.hermitian then
    (if f.posDiag then .DenseCholesky else .DenseLDL f.hermitian)
  else if f.symmetric then .DenseLDL f.hermitian
  else .DenseLU

section detect
variable {α : Type*} {n : ℕ} [Star α] [DecidableEq α] [AddCommMonoid α]
/-- exact-arithmetic model of the detections done by `auto_determine_solver` on a square matrix;
    `lt` is the `<` of the dtype (numpy orders complex numbers lexicographically) -/
def detectFlags (lt : α → α → Bool) (sparse cplx : Bool) (A : Mat n n α) : Flags :=
  let sym := isSymmetric A
  let herm := if cplx then isHermitian true A else sym
  { sparse := sparse, square := true, complex := cplx, diagonal := isDiagonal A,
    hermitian := herm, symmetric := sym,
    posDiag := ((List.finRange n).all fun i => lt 0 (A i i)) || ((List.finRange n).all fun i => lt (A i i) 0) }
end detect

end PymotoVerif.LA
