/- helper lemmas for C16: `np.min`/`np.max` folds, `clearAt`, Python truncation, the scale-factor sequence -/
import PymotoVerif.Core.Aggregation
import PymotoVerif.Lemmas.Sum
import Mathlib.Algebra.Order.Floor.Ring
import Mathlib.Algebra.Order.Field.Basic
import Mathlib.Data.Rat.Floor
import Mathlib.Tactic.Ring
import Mathlib.Tactic.Linarith
import Mathlib.Tactic.Positivity

namespace PymotoVerif.Agg

/-! ### min / max folds -/
section Order
variable {α : Type} [LinearOrder α]

theorem minUpTo_le (x : Nat → α) : ∀ k i, i ≤ k → minUpTo k x ≤ x i
  | 0, i, h => by
    have : i = 0 := by omega
    subst this; exact le_refl _
  | k+1, i, h => by
    unfold minUpTo
    by_cases hlt : x (k+1) < minUpTo k x
    · rw [if_pos hlt]
      rcases Nat.lt_or_ge i (k+1) with hi | hi
      · exact le_trans (le_of_lt hlt) (minUpTo_le x k i (by omega))
      · have : i = k + 1 := by omega
        subst this; exact le_refl _
    · rw [if_neg hlt]
      rcases Nat.lt_or_ge i (k+1) with hi | hi
      · exact minUpTo_le x k i (by omega)
      · have : i = k + 1 := by omega
        subst this; exact not_lt.mp hlt

theorem minUpTo_mem (x : Nat → α) : ∀ k, ∃ i, i ≤ k ∧ minUpTo k x = x i
  | 0 => ⟨0, le_refl _, rfl⟩
  | k+1 => by
    unfold minUpTo
    by_cases hlt : x (k+1) < minUpTo k x
    · rw [if_pos hlt]; exact ⟨k+1, le_refl _, rfl⟩
    · rw [if_neg hlt]
      obtain ⟨i, hi, h⟩ := minUpTo_mem x k
      exact ⟨i, by omega, h⟩

theorem le_maxUpTo (x : Nat → α) : ∀ k i, i ≤ k → x i ≤ maxUpTo k x
  | 0, i, h => by
    have : i = 0 := by omega
    subst this; exact le_refl _
  | k+1, i, h => by
    unfold maxUpTo
    by_cases hlt : maxUpTo k x < x (k+1)
    · rw [if_pos hlt]
      rcases Nat.lt_or_ge i (k+1) with hi | hi
      · exact le_trans (le_maxUpTo x k i (by omega)) (le_of_lt hlt)
      · have : i = k + 1 := by omega
        subst this; exact le_refl _
    · rw [if_neg hlt]
      rcases Nat.lt_or_ge i (k+1) with hi | hi
      · exact le_maxUpTo x k i (by omega)
      · have : i = k + 1 := by omega
        subst this; exact not_lt.mp hlt

theorem maxUpTo_mem (x : Nat → α) : ∀ k, ∃ i, i ≤ k ∧ maxUpTo k x = x i
  | 0 => ⟨0, le_refl _, rfl⟩
  | k+1 => by
    unfold maxUpTo
    by_cases hlt : maxUpTo k x < x (k+1)
    · rw [if_pos hlt]; exact ⟨k+1, le_refl _, rfl⟩
    · rw [if_neg hlt]
      obtain ⟨i, hi, h⟩ := maxUpTo_mem x k
      exact ⟨i, by omega, h⟩

theorem npMin_le {n : Nat} (x : Nat → α) {i : Nat} (hi : i < n) : npMin n x ≤ x i :=
  minUpTo_le x (n - 1) i (by omega)

theorem le_npMax {n : Nat} (x : Nat → α) {i : Nat} (hi : i < n) : x i ≤ npMax n x :=
  le_maxUpTo x (n - 1) i (by omega)

theorem npMin_mem {n : Nat} (hn : 0 < n) (x : Nat → α) : ∃ i, i < n ∧ npMin n x = x i := by
  obtain ⟨i, hi, h⟩ := minUpTo_mem x (n - 1)
  exact ⟨i, by omega, h⟩

theorem npMax_mem {n : Nat} (hn : 0 < n) (x : Nat → α) : ∃ i, i < n ∧ npMax n x = x i := by
  obtain ⟨i, hi, h⟩ := maxUpTo_mem x (n - 1)
  exact ⟨i, by omega, h⟩

theorem npMin_le_npMax {n : Nat} (hn : 0 < n) (x : Nat → α) : npMin n x ≤ npMax n x :=
  le_trans (npMin_le x hn) (le_npMax x hn)

end Order

/-! ### clearAt -/

theorem clearAt_true_iff (sel : Nat → Bool) (isort : Nat → Nat) (lo hi i : Nat) :
    clearAt sel isort lo hi i = true ↔
      (sel i = true ∧ ∀ k, lo ≤ k → k < hi → isort k ≠ i) := by
  unfold clearAt
  by_cases h : (List.range (hi - lo)).any (fun k => isort (lo + k) == i) = true
  · rw [if_pos h]
    rw [List.any_eq_true] at h
    obtain ⟨k, hk, he⟩ := h
    rw [List.mem_range] at hk
    have he' : isort (lo + k) = i := by simpa using he
    constructor
    · intro hf; exact absurd hf (by simp)
    · intro ⟨_, hall⟩
      exact absurd he' (hall (lo + k) (by omega) (by omega))
  · rw [if_neg h]
    constructor
    · intro hs
      refine ⟨hs, ?_⟩
      intro k hlo hhi he
      apply h
      rw [List.any_eq_true]
      refine ⟨k - lo, List.mem_range.mpr (by omega), ?_⟩
      have : lo + (k - lo) = k := by omega
      simp [this, he]
    · intro ⟨hs, _⟩; exact hs

/-! ### Python `int()` on rationals is the floor on non-negative arguments -/

theorem truncRat_eq_floor {q : ℚ} (hq : 0 ≤ q) : truncRat q = ⌊q⌋ := by
  unfold truncRat
  rw [Rat.floor_def', Int.tdiv_eq_ediv_of_nonneg (Rat.num_nonneg.mpr hq)]

/-! ### slices -/

theorem pyStop_of_nonneg (n : Nat) {k : Int} (hk : 0 ≤ k) : pyStop n k = min k.toNat n := by
  unfold pyStop; rw [if_neg (by omega)]

theorem pyStart_neg_of_pos (n : Nat) {k : Int} (hk : 0 < k) : pyStart n (-k) = n - k.toNat := by
  unfold pyStart; rw [if_pos (by omega)]; omega

/-! ### the scale-factor sequence of the property: `s₀ = r₀`, `s_k = d s_{k-1} + (1-d) r_k` -/

section Seq
variable {α : Type} [Field α]

/-- the specification sequence (state `none` = no call yet) for the ratios `r_k = true_k / approx_k` -/
def scaleSeq (d : α) : Option α → List α → List α
  | _, [] => []
  | none, r :: rs => r :: scaleSeq d (some r) rs
  | some o, r :: rs => (d * o + (1 - d) * r) :: scaleSeq d (some (d * o + (1 - d) * r)) rs

theorem scaleSeq_length (d : α) : ∀ (st : Option α) (rs : List α), (scaleSeq d st rs).length = rs.length
  | _, [] => by simp [scaleSeq]
  | none, r :: rs => by simp [scaleSeq, scaleSeq_length d (some r) rs]
  | some o, r :: rs => by simp [scaleSeq, scaleSeq_length d _ rs]

theorem scaleSeq_head_none (d r : α) (rs : List α) : (scaleSeq d none (r :: rs)).getD 0 0 = r := by
  simp [scaleSeq]

theorem scaleSeq_head_some (d o r : α) (rs : List α) :
    (scaleSeq d (some o) (r :: rs)).getD 0 0 = d * o + (1 - d) * r := by
  simp [scaleSeq]

theorem scaleSeq_step (d : α) : ∀ (st : Option α) (rs : List α) (k : Nat), k + 1 < rs.length →
    (scaleSeq d st rs).getD (k + 1) 0 = d * (scaleSeq d st rs).getD k 0 + (1 - d) * rs.getD (k + 1) 0
  | _, [], k, h => by simp at h
  | none, [r], k, h => by simp at h
  | some o, [r], k, h => by simp at h
  | none, r :: r' :: rs, 0, _ => by simp [scaleSeq]
  | some o, r :: r' :: rs, 0, _ => by simp [scaleSeq]
  | none, r :: r' :: rs, k+1, h => by
    have ih := scaleSeq_step d (some r) (r' :: rs) k (by simpa using h)
    simpa [scaleSeq] using ih
  | some o, r :: r' :: rs, k+1, h => by
    have ih := scaleSeq_step d (some (d * o + (1 - d) * r)) (r' :: rs) k (by simpa using h)
    simpa [scaleSeq] using ih

end Seq

/-! ### the three stages of `AggActiveSet.__call__` -/
section ActiveSetLemmas
variable {α : Type} [Field α] [LinearOrder α] [IsStrictOrderedRing α]

theorem xrel_bounds {n : Nat} (x : Nat → α) (hlt : npMin n x < npMax n x) {i : Nat} (hi : i < n) :
    0 ≤ xrel n x i ∧ xrel n x i ≤ 1 := by
  unfold xrel
  have hd : 0 < npMax n x - npMin n x := sub_pos.mpr hlt
  constructor
  · exact div_nonneg (sub_nonneg.mpr (npMin_le x hi)) hd.le
  · rw [div_le_one hd]
    linarith [le_npMax x hi]

theorem selValue_iff (c : ActiveSet α) {n : Nat} (x : Nat → α) (hlt : npMin n x < npMax n x)
    {i : Nat} (hi : i < n) :
    c.selValue n x i = true ↔ (c.lower_rel ≤ xrel n x i ∧ xrel n x i ≤ c.upper_rel) := by
  obtain ⟨h0, h1⟩ := xrel_bounds x hlt hi
  unfold ActiveSet.selValue
  by_cases hl : 0 < c.lower_rel <;> by_cases hu : c.upper_rel < 1
  · simp [hl, hu]
  · simp only [hl, hu, if_true, if_false, Bool.true_and, decide_eq_true_eq]
    exact ⟨fun h => ⟨h, le_trans h1 (not_lt.mp hu)⟩, fun h => h.1⟩
  · simp only [hl, hu, if_true, if_false, Bool.true_and, decide_eq_true_eq]
    exact ⟨fun h => ⟨le_trans (not_lt.mp hl) h0, h⟩, fun h => h.2⟩
  · simp only [hl, hu, if_false, true_iff]
    exact ⟨le_trans (not_lt.mp hl) h0, le_trans h1 (not_lt.mp hu)⟩

variable [FloorRing α]

theorem selLowest_iff (c : ActiveSet α) (trunc : α → Int) (htr : ∀ a : α, 0 ≤ a → trunc a = ⌊a⌋)
    (n : Nat) (isort : Nat → Nat) (sel : Nat → Bool) (i : Nat) :
    c.selLowest trunc n isort sel i = true ↔
      (sel i = true ∧ ∀ k, k < min ⌊(n : α) * c.lower_amt⌋₊ n → isort k ≠ i) := by
  unfold ActiveSet.selLowest
  by_cases hl : 0 < c.lower_amt
  · rw [if_pos hl, clearAt_true_iff]
    have hnn : (0 : α) ≤ (n : α) * c.lower_amt := mul_nonneg (Nat.cast_nonneg n) hl.le
    have h1 : nLower trunc c n = ⌊(n : α) * c.lower_amt⌋ := htr _ hnn
    have h2 : 0 ≤ nLower trunc c n := by rw [h1]; exact Int.floor_nonneg.mpr hnn
    rw [pyStop_of_nonneg n h2, h1, Int.floor_toNat]
    constructor
    · rintro ⟨hs, h⟩; exact ⟨hs, fun k hk => h k (Nat.zero_le _) hk⟩
    · rintro ⟨hs, h⟩; exact ⟨hs, fun k _ hk => h k hk⟩
  · rw [if_neg hl]
    have h0 : ⌊(n : α) * c.lower_amt⌋₊ = 0 :=
      Nat.floor_of_nonpos (mul_nonpos_of_nonneg_of_nonpos (Nat.cast_nonneg n) (not_lt.mp hl))
    rw [h0]
    constructor
    · intro hs; exact ⟨hs, fun k hk => by simp at hk⟩
    · intro h; exact h.1

theorem selHighest_iff (c : ActiveSet α) (trunc : α → Int) (htr : ∀ a : α, 0 ≤ a → trunc a = ⌊a⌋)
    (n : Nat) (isort : Nat → Nat) (sel : Nat → Bool) (i : Nat) :
    c.selHighest trunc n isort sel i = true ↔
      (sel i = true ∧ ∀ k, n - ⌊(n : α) * (1 - c.upper_amt)⌋₊ ≤ k → k < n → isort k ≠ i) := by
  unfold ActiveSet.selHighest
  by_cases hu : c.upper_amt < 1
  · rw [if_pos hu]
    have hnn : (0 : α) ≤ (n : α) * (1 - c.upper_amt) :=
      mul_nonneg (Nat.cast_nonneg n) (sub_nonneg.mpr hu.le)
    have h1 : nUpper trunc c n = ⌊(n : α) * (1 - c.upper_amt)⌋ := htr _ hnn
    by_cases hp : 0 < nUpper trunc c n
    · rw [if_pos hp, clearAt_true_iff, pyStart_neg_of_pos n hp, h1, Int.floor_toNat]
    · rw [if_neg hp]
      have h0 : ⌊(n : α) * (1 - c.upper_amt)⌋₊ = 0 := by
        rw [← Int.floor_toNat, ← h1]; omega
      rw [h0]
      constructor
      · intro hs; exact ⟨hs, fun k h1 h2 => by omega⟩
      · intro h; exact h.1
  · rw [if_neg hu]
    have h0 : ⌊(n : α) * (1 - c.upper_amt)⌋₊ = 0 :=
      Nat.floor_of_nonpos (mul_nonpos_of_nonneg_of_nonpos (Nat.cast_nonneg n)
        (sub_nonpos.mpr (not_lt.mp hu)))
    rw [h0]
    constructor
    · intro hs; exact ⟨hs, fun k h1 h2 => by omega⟩
    · intro h; exact h.1

end ActiveSetLemmas

/-! ### AggScaling calls -/
section ScalingLemmas
variable {α : Type} [Field α] [LinearOrder α]

theorem Scaling.call_none (s : Scaling α) (m : Nat) (y : Nat → α) (a : α) (hm : 0 < m) :
    s.call none m y a = .ok (s.trueval m y / a) := by
  unfold Scaling.call
  rw [if_neg (by omega)]

theorem Scaling.call_some (s : Scaling α) (old : α) (m : Nat) (y : Nat → α) (a : α) (hm : 0 < m) :
    s.call (some old) m y a = .ok (s.damping * old + (1 - s.damping) * (s.trueval m y / a)) := by
  unfold Scaling.call
  rw [if_neg (by omega)]

theorem scaling_calls_eq (s : Scaling α) : ∀ (sf : Option α) (hist : List (Nat × (Nat → α) × α)),
    (∀ c ∈ hist, 0 < c.1) →
    s.calls sf hist = .ok (scaleSeq s.damping sf (hist.map fun c => s.trueval c.1 c.2.1 / c.2.2))
  | sf, [], _ => by cases sf <;> simp [Scaling.calls, scaleSeq, pure, Except.pure]
  | none, (m, y, a) :: rest, h => by
    have hm : 0 < m := h (m, y, a) List.mem_cons_self
    have ih := scaling_calls_eq s (some (s.trueval m y / a)) rest
      (fun c hc => h c (List.mem_cons_of_mem _ hc))
    simp only [Scaling.calls, Scaling.call_none s m y a hm, List.map_cons, scaleSeq]
    simp [ih, bind, Except.bind, pure, Except.pure]
  | some o, (m, y, a) :: rest, h => by
    have hm : 0 < m := h (m, y, a) List.mem_cons_self
    have ih := scaling_calls_eq s (some (s.damping * o + (1 - s.damping) * (s.trueval m y / a))) rest
      (fun c hc => h c (List.mem_cons_of_mem _ hc))
    simp only [Scaling.calls, Scaling.call_some s o m y a hm, List.map_cons, scaleSeq]
    simp [ih, bind, Except.bind, pure, Except.pure]

end ScalingLemmas

/-! ### `_response` / `_sensitivity` -/
section ResponseLemmas
variable {α : Type} [Field α] [LinearOrder α] [BEq α]

theorem responseSel_spec (f : Fns α) (c : Config α) (st : State α) (n : Nat) (x : Nat → α)
    (select : Option (Nat → Bool)) (v : α) (st' : State α)
    (h : responseSel f c st n x select = .ok (v, st')) :
    st'.select = select ∧
    ∃ xagg, aggFn f c.kind (selIdx n select).length (selVec (selIdx n select) x) = .ok xagg ∧
      v = st'.sf * xagg ∧
      (match c.scaling with
        | none => st'.sf = st.sf ∧ st'.scalingSf = st.scalingSf
        | some s => s.call st.scalingSf (selIdx n select).length (selVec (selIdx n select) x) xagg
              = .ok st'.sf ∧ st'.scalingSf = some st'.sf) ∧
      st'.ylast = (match c.kind with
        | .softminmax _ => some xagg
        | _ => st.ylast) := by
  unfold responseSel at h
  simp only at h
  cases hagg : aggFn f c.kind (selIdx n select).length (selVec (selIdx n select) x) with
  | error e => rw [hagg] at h; cases h
  | ok xagg =>
    rw [hagg] at h
    simp only at h
    cases hsc : c.scaling with
    | none =>
      rw [hsc] at h
      simp only [Except.ok.injEq, Prod.mk.injEq] at h
      obtain ⟨hv, hst⟩ := h
      subst hv; subst hst
      exact ⟨rfl, xagg, rfl, rfl, ⟨rfl, rfl⟩, rfl⟩
    | some s =>
      rw [hsc] at h
      simp only at h
      cases hcall : s.call st.scalingSf (selIdx n select).length (selVec (selIdx n select) x) xagg with
      | error e => rw [hcall] at h; cases h
      | ok sf =>
        rw [hcall] at h
        simp only [Except.ok.injEq, Prod.mk.injEq] at h
        obtain ⟨hv, hst⟩ := h
        subst hv; subst hst
        exact ⟨rfl, xagg, rfl, rfl, ⟨hcall, rfl⟩, rfl⟩

theorem mem_selIdx_some (n : Nat) (mask : Nat → Bool) (i : Nat) :
    i ∈ selIdx n (some mask) ↔ i < n ∧ mask i = true := by
  simp [selIdx, List.mem_filter]

theorem mem_selIdx_none (n i : Nat) : i ∈ selIdx n none ↔ i < n := by
  simp [selIdx]

omit [Field α] [LinearOrder α] [BEq α] in
theorem selVec_mem (idx : List Nat) (x : Nat → α) {k : Nat} (hk : k < idx.length) :
    ∃ i ∈ idx, selVec idx x k = x i := by
  refine ⟨idx[k], List.getElem_mem hk, ?_⟩
  simp [selVec, List.getD_eq_getElem?_getD, hk]

omit [Field α] [LinearOrder α] [BEq α] in
theorem mem_selVec (idx : List Nat) (x : Nat → α) {i : Nat} (hi : i ∈ idx) :
    ∃ k, k < idx.length ∧ selVec idx x k = x i := by
  obtain ⟨k, hk, he⟩ := List.getElem_of_mem hi
  refine ⟨k, hk, ?_⟩
  simp [selVec, List.getD_eq_getElem?_getD, hk, he]


theorem selIdx_lt (n : Nat) (select : Option (Nat → Bool)) {i : Nat} (hi : i ∈ selIdx n select) : i < n := by
  cases select with
  | none => exact (mem_selIdx_none n i).mp hi
  | some mask => exact ((mem_selIdx_some n mask i).mp hi).1

/-- what `_sensitivity` returns, and its pairing with a direction `v`:
    `Σ_j dx_j v_j = sf · dfdy · Σ_k dydx_k · v[select]_k` -/
theorem sensitivity_spec (f : Fns α) (c : Config α) (st : State α) (n : Nat) (x : Nat → α) (dfdy : α)
    (dydx : Nat → α)
    (hd : aggDer f c.kind st.ylast (selIdx n st.select).length (selVec (selIdx n st.select) x) = .ok dydx) :
    ∃ dx, sensitivity f c st n x dfdy = .ok dx ∧ ∀ v : Nat → α,
      sumRange n (fun j => dx j * v j) =
        st.sf * dfdy * sumRange (selIdx n st.select).length
          (fun k => dydx k * selVec (selIdx n st.select) v k) := by
  refine ⟨_, by unfold sensitivity; simp only [bind, Except.bind, hd]; rfl, ?_⟩
  intro v
  have hidx : ∀ e, e < (selIdx n st.select).length → (selIdx n st.select).getD e 0 < n := by
    intro e he
    have : (selIdx n st.select).getD e 0 = (selIdx n st.select)[e] := by
      simp [List.getD_eq_getElem?_getD, he]
    rw [this]
    exact selIdx_lt n st.select (List.getElem_mem he)
  rw [← scatterAdd_adjoint_gather _ n _ hidx _ v]
  simp only [sumRange_eq, gather, selVec, Finset.mul_sum]
  apply Finset.sum_congr rfl
  intro k _
  ring

end ResponseLemmas

end PymotoVerif.Agg
