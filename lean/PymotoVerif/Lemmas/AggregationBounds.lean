/- approximation bounds of the three aggregation functions over ℝ (helper lemmas for `Props/C16.lean`) -/
import PymotoVerif.Lemmas.Aggregation
import PymotoVerif.Lemmas.AggregationDeriv
import Mathlib.Analysis.SpecialFunctions.Pow.Real
import Mathlib.Analysis.SpecialFunctions.Log.Basic
import Mathlib.Algebra.Order.BigOperators.Ring.Finset
import Mathlib.Tactic.FieldSimp
import Mathlib.Tactic.Positivity

namespace PymotoVerif.Agg
open Finset

/-- the transcendental functions at ℝ (what `exp log pow` mean in the theorems) -/
noncomputable def realFns : Fns ℝ := ⟨Real.exp, Real.log, Real.rpow⟩

/-! ### P-norm -/

theorem pnormVal_eq_of_pos (p : ℝ) (m : Nat) (y : Nat → ℝ) (hy : ∀ i, i < m → 0 < y i) :
    pnormVal Real.rpow p m y = (∑ i ∈ range m, y i ^ p) ^ (1 / p) := by
  unfold pnormVal
  rw [pSum_eq_of_pos p m y hy, Real.rpow_eq_pow]

theorem psum_pos (p : ℝ) (m : Nat) (hm : 0 < m) (y : Nat → ℝ) (hy : ∀ i, i < m → 0 < y i) :
    0 < ∑ i ∈ range m, y i ^ p :=
  Finset.sum_pos (fun i hi => Real.rpow_pos_of_pos (hy i (mem_range.mp hi)) p)
    ⟨0, mem_range.mpr hm⟩

theorem pnorm_bounds_pos (m : Nat) (hm : 0 < m) (p : ℝ) (hp : 0 < p) (y : Nat → ℝ)
    (hy : ∀ i, i < m → 0 < y i) :
    npMax m y ≤ pnormVal Real.rpow p m y ∧
      pnormVal Real.rpow p m y ≤ (m : ℝ) ^ (1 / p) * npMax m y := by
  rw [pnormVal_eq_of_pos p m y hy]
  obtain ⟨j, hj, hM⟩ := npMax_mem hm y
  have hMpos : 0 < npMax m y := hM ▸ hy j hj
  set M := npMax m y with hMdef
  have hterm : ∀ i ∈ range m, y i ^ p ≤ M ^ p := fun i hi =>
    Real.rpow_le_rpow (hy i (mem_range.mp hi)).le (le_npMax y (mem_range.mp hi)) hp.le
  have hSle : ∑ i ∈ range m, y i ^ p ≤ (m : ℝ) * M ^ p := by
    calc ∑ i ∈ range m, y i ^ p ≤ ∑ _i ∈ range m, M ^ p := Finset.sum_le_sum hterm
      _ = (m : ℝ) * M ^ p := by simp [Finset.sum_const, Finset.card_range, nsmul_eq_mul]
  have hSge : M ^ p ≤ ∑ i ∈ range m, y i ^ p := by
    rw [hM]
    exact Finset.single_le_sum (f := fun i => y i ^ p)
      (fun i hi => (Real.rpow_pos_of_pos (hy i (mem_range.mp hi)) p).le) (mem_range.mpr hj)
  have hroot : (M ^ p) ^ (1 / p) = M := by
    rw [← Real.rpow_mul hMpos.le, mul_one_div_cancel hp.ne', Real.rpow_one]
  have h1p : 0 ≤ 1 / p := by positivity
  constructor
  · calc M = (M ^ p) ^ (1 / p) := hroot.symm
      _ ≤ _ := Real.rpow_le_rpow (Real.rpow_nonneg hMpos.le p) hSge h1p
  · calc (∑ i ∈ range m, y i ^ p) ^ (1 / p) ≤ ((m : ℝ) * M ^ p) ^ (1 / p) :=
          Real.rpow_le_rpow (psum_pos p m hm y hy).le hSle h1p
      _ = (m : ℝ) ^ (1 / p) * M := by
          rw [Real.mul_rpow (Nat.cast_nonneg m) (Real.rpow_nonneg hMpos.le p), hroot]

theorem pnorm_bounds_neg (m : Nat) (hm : 0 < m) (p : ℝ) (hp : p < 0) (y : Nat → ℝ)
    (hy : ∀ i, i < m → 0 < y i) :
    (m : ℝ) ^ (1 / p) * npMin m y ≤ pnormVal Real.rpow p m y ∧
      pnormVal Real.rpow p m y ≤ npMin m y := by
  rw [pnormVal_eq_of_pos p m y hy]
  obtain ⟨j, hj, hM⟩ := npMin_mem hm y
  have hMpos : 0 < npMin m y := hM ▸ hy j hj
  set M := npMin m y with hMdef
  have hterm : ∀ i ∈ range m, y i ^ p ≤ M ^ p := fun i hi =>
    Real.rpow_le_rpow_of_nonpos hMpos (npMin_le y (mem_range.mp hi)) hp.le
  have hSle : ∑ i ∈ range m, y i ^ p ≤ (m : ℝ) * M ^ p := by
    calc ∑ i ∈ range m, y i ^ p ≤ ∑ _i ∈ range m, M ^ p := Finset.sum_le_sum hterm
      _ = (m : ℝ) * M ^ p := by simp [Finset.sum_const, Finset.card_range, nsmul_eq_mul]
  have hSge : M ^ p ≤ ∑ i ∈ range m, y i ^ p := by
    rw [hM]
    exact Finset.single_le_sum (f := fun i => y i ^ p)
      (fun i hi => (Real.rpow_pos_of_pos (hy i (mem_range.mp hi)) p).le) (mem_range.mpr hj)
  have hroot : (M ^ p) ^ (1 / p) = M := by
    rw [← Real.rpow_mul hMpos.le, mul_one_div_cancel hp.ne, Real.rpow_one]
  have h1p : 1 / p ≤ 0 := by
    rw [one_div]; exact (inv_lt_zero.mpr hp).le
  have hMp : 0 < M ^ p := Real.rpow_pos_of_pos hMpos p
  have hmpos : (0 : ℝ) < m := Nat.cast_pos.mpr hm
  constructor
  · calc (m : ℝ) ^ (1 / p) * M = ((m : ℝ) * M ^ p) ^ (1 / p) := by
          rw [Real.mul_rpow hmpos.le hMp.le, hroot]
      _ ≤ _ := Real.rpow_le_rpow_of_nonpos (psum_pos p m hm y hy) hSle h1p
  · calc (∑ i ∈ range m, y i ^ p) ^ (1 / p) ≤ (M ^ p) ^ (1 / p) :=
          Real.rpow_le_rpow_of_nonpos hMp hSge h1p
      _ = M := hroot

/-! ### KS -/

theorem ksVal_eq (rho : ℝ) (m : Nat) (y : Nat → ℝ) :
    ksVal Real.exp Real.log rho m y = 1 / rho * Real.log (∑ i ∈ range m, Real.exp (rho * y i)) := by
  unfold ksVal ksSum
  rw [sumRange_eq]

/-- for a reference value `c` attained by the data with `rho * y i ≤ rho * c` for all entries:
    `rho c ≤ log Σ exp(rho y) ≤ log m + rho c` -/
theorem ks_log_bounds (m : Nat) (rho c : ℝ) (y : Nat → ℝ) (j : Nat) (hj : j < m) (hc : y j = c)
    (hle : ∀ i, i < m → rho * y i ≤ rho * c) :
    rho * c ≤ Real.log (∑ i ∈ range m, Real.exp (rho * y i)) ∧
      Real.log (∑ i ∈ range m, Real.exp (rho * y i)) ≤ Real.log m + rho * c := by
  have hm : 0 < m := by omega
  have hE : 0 < ∑ i ∈ range m, Real.exp (rho * y i) := sum_exp_pos m hm _
  have hge : Real.exp (rho * c) ≤ ∑ i ∈ range m, Real.exp (rho * y i) := by
    rw [← hc]
    exact Finset.single_le_sum (f := fun i => Real.exp (rho * y i))
      (fun i _ => (Real.exp_pos _).le) (mem_range.mpr hj)
  have hle' : ∑ i ∈ range m, Real.exp (rho * y i) ≤ (m : ℝ) * Real.exp (rho * c) := by
    calc ∑ i ∈ range m, Real.exp (rho * y i) ≤ ∑ _i ∈ range m, Real.exp (rho * c) :=
          Finset.sum_le_sum (fun i hi => Real.exp_le_exp.mpr (hle i (mem_range.mp hi)))
      _ = (m : ℝ) * Real.exp (rho * c) := by
          simp [Finset.sum_const, Finset.card_range, nsmul_eq_mul]
  have hmpos : (0 : ℝ) < m := Nat.cast_pos.mpr hm
  constructor
  · have := Real.log_le_log (Real.exp_pos _) hge
    rwa [Real.log_exp] at this
  · have := Real.log_le_log hE hle'
    rwa [Real.log_mul hmpos.ne' (Real.exp_pos _).ne', Real.log_exp] at this

theorem ks_bounds_pos (m : Nat) (hm : 0 < m) (rho : ℝ) (hr : 0 < rho) (y : Nat → ℝ) :
    npMax m y ≤ ksVal Real.exp Real.log rho m y ∧
      ksVal Real.exp Real.log rho m y ≤ npMax m y + Real.log m / rho := by
  rw [ksVal_eq]
  obtain ⟨j, hj, hM⟩ := npMax_mem hm y
  obtain ⟨h1, h2⟩ := ks_log_bounds m rho (npMax m y) y j hj hM.symm
    (fun i hi => mul_le_mul_of_nonneg_left (le_npMax y hi) hr.le)
  constructor
  · rw [one_div, inv_mul_eq_div, le_div_iff₀ hr]; linarith
  · rw [one_div, inv_mul_eq_div, div_le_iff₀ hr]
    have : (npMax m y + Real.log m / rho) * rho = npMax m y * rho + Real.log m := by
      field_simp
    rw [this]; linarith

theorem ks_bounds_neg (m : Nat) (hm : 0 < m) (rho : ℝ) (hr : rho < 0) (y : Nat → ℝ) :
    npMin m y + Real.log m / rho ≤ ksVal Real.exp Real.log rho m y ∧
      ksVal Real.exp Real.log rho m y ≤ npMin m y := by
  rw [ksVal_eq]
  obtain ⟨j, hj, hM⟩ := npMin_mem hm y
  obtain ⟨h1, h2⟩ := ks_log_bounds m rho (npMin m y) y j hj hM.symm
    (fun i hi => mul_le_mul_of_nonpos_left (npMin_le y hi) hr.le)
  have hexp : 1 / rho * Real.log (∑ i ∈ range m, Real.exp (rho * y i)) =
      Real.log (∑ i ∈ range m, Real.exp (rho * y i)) / rho := by
    rw [one_div, inv_mul_eq_div]
  rw [hexp]
  constructor
  · rw [le_div_iff_of_neg hr]
    have : (npMin m y + Real.log m / rho) * rho = npMin m y * rho + Real.log m := by
      have hne : rho ≠ 0 := hr.ne
      field_simp
    rw [this]; linarith
  · rw [div_le_iff_of_neg hr]; linarith

/-! ### soft min / max -/

theorem soft_weights (m : Nat) (hm : 0 < m) (alpha : ℝ) (y : Nat → ℝ) :
    let D := ∑ j ∈ range m, Real.exp (alpha * y j)
    0 < D ∧ softVal Real.exp alpha m y = ∑ i ∈ range m, (Real.exp (alpha * y i) / D) * y i ∧
      ∑ i ∈ range m, Real.exp (alpha * y i) / D = 1 := by
  intro D
  have hD : 0 < D := sum_exp_pos m hm _
  refine ⟨hD, ?_, ?_⟩
  · rw [softVal_eq, Finset.sum_div]
    apply Finset.sum_congr rfl
    intro i _
    ring
  · rw [← Finset.sum_div, div_self hD.ne']

theorem soft_bounds_minmax (m : Nat) (hm : 0 < m) (alpha : ℝ) (y : Nat → ℝ) :
    npMin m y ≤ softVal Real.exp alpha m y ∧ softVal Real.exp alpha m y ≤ npMax m y := by
  obtain ⟨hD, hS, hone⟩ := soft_weights m hm alpha y
  set D := ∑ j ∈ range m, Real.exp (alpha * y j)
  have hw : ∀ i, 0 ≤ Real.exp (alpha * y i) / D := fun i => div_nonneg (Real.exp_pos _).le hD.le
  rw [hS]
  constructor
  · calc npMin m y = ∑ i ∈ range m, (Real.exp (alpha * y i) / D) * npMin m y := by
          rw [← Finset.sum_mul, hone, one_mul]
      _ ≤ _ := Finset.sum_le_sum (fun i hi =>
          mul_le_mul_of_nonneg_left (npMin_le y (mem_range.mp hi)) (hw i))
  · calc ∑ i ∈ range m, (Real.exp (alpha * y i) / D) * y i
        ≤ ∑ i ∈ range m, (Real.exp (alpha * y i) / D) * npMax m y := Finset.sum_le_sum (fun i hi =>
          mul_le_mul_of_nonneg_left (le_npMax y (mem_range.mp hi)) (hw i))
      _ = npMax m y := by rw [← Finset.sum_mul, hone, one_mul]

/-- entropy (Gibbs) estimate: `alpha * S ≥ alpha * y j - log m` for every entry `j` -/
theorem soft_gibbs (m : Nat) (alpha : ℝ) (y : Nat → ℝ) (j : Nat) (hj : j < m) :
    alpha * y j - Real.log m ≤ alpha * softVal Real.exp alpha m y := by
  have hm : 0 < m := by omega
  obtain ⟨hD, hS, hone⟩ := soft_weights m hm alpha y
  set D := ∑ j ∈ range m, Real.exp (alpha * y j) with hDdef
  set w : Nat → ℝ := fun i => Real.exp (alpha * y i) / D with hwdef
  have hwpos : ∀ i, 0 < w i := fun i => div_pos (Real.exp_pos _) hD
  have hmpos : (0 : ℝ) < m := Nat.cast_pos.mpr hm
  have hlogw : ∀ i, Real.log (w i) = alpha * y i - Real.log D := fun i => by
    rw [hwdef]; simp only
    rw [Real.log_div (Real.exp_pos _).ne' hD.ne', Real.log_exp]
  -- per-entry: w_i * (-(log m) - log w_i) ≤ 1/m - w_i
  have hterm : ∀ i ∈ range m, w i * (-(Real.log m) - Real.log (w i)) ≤ 1 / (m : ℝ) - w i := by
    intro i _
    have hx : 0 < 1 / ((m : ℝ) * w i) := by have := hwpos i; positivity
    have h := Real.log_le_sub_one_of_pos hx
    rw [one_div, Real.log_inv, Real.log_mul hmpos.ne' (hwpos i).ne'] at h
    have h2 := mul_le_mul_of_nonneg_left h (hwpos i).le
    calc w i * (-(Real.log m) - Real.log (w i)) = w i * -(Real.log m + Real.log (w i)) := by ring
      _ ≤ w i * (((m : ℝ) * w i)⁻¹ - 1) := h2
      _ = 1 / (m : ℝ) - w i := by
          have := (hwpos i).ne'
          field_simp
  have hsum := Finset.sum_le_sum hterm
  have hrhs : ∑ i ∈ range m, (1 / (m : ℝ) - w i) = 0 := by
    rw [Finset.sum_sub_distrib, hone]
    simp [Finset.sum_const, Finset.card_range, nsmul_eq_mul, hmpos.ne']
  have hlhs : ∑ i ∈ range m, w i * (-(Real.log m) - Real.log (w i)) =
      -(Real.log m) + Real.log D - alpha * softVal Real.exp alpha m y := by
    have : ∀ i ∈ range m, w i * (-(Real.log m) - Real.log (w i)) =
        w i * (-(Real.log m) + Real.log D) - alpha * (w i * y i) := by
      intro i _; rw [hlogw i]; ring
    rw [Finset.sum_congr rfl this, Finset.sum_sub_distrib, ← Finset.sum_mul, hone, one_mul,
      ← Finset.mul_sum, ← hS]
  rw [hlhs, hrhs] at hsum
  -- log D ≥ alpha y_j
  have hge : Real.exp (alpha * y j) ≤ D :=
    Finset.single_le_sum (f := fun i => Real.exp (alpha * y i))
      (fun i _ => (Real.exp_pos _).le) (mem_range.mpr hj)
  have hlog := Real.log_le_log (Real.exp_pos _) hge
  rw [Real.log_exp] at hlog
  linarith

theorem soft_lower_pos (m : Nat) (hm : 0 < m) (alpha : ℝ) (ha : 0 < alpha) (y : Nat → ℝ) :
    npMax m y - Real.log m / alpha ≤ softVal Real.exp alpha m y := by
  obtain ⟨j, hj, hM⟩ := npMax_mem hm y
  have h := soft_gibbs m alpha y j hj
  rw [← hM] at h
  have : npMax m y - Real.log m / alpha = (alpha * npMax m y - Real.log m) / alpha := by
    field_simp
  rw [this, div_le_iff₀ ha]
  linarith

theorem soft_upper_neg (m : Nat) (hm : 0 < m) (alpha : ℝ) (ha : alpha < 0) (y : Nat → ℝ) :
    softVal Real.exp alpha m y ≤ npMin m y - Real.log m / alpha := by
  obtain ⟨j, hj, hM⟩ := npMin_mem hm y
  have h := soft_gibbs m alpha y j hj
  rw [← hM] at h
  have : npMin m y - Real.log m / alpha = (alpha * npMin m y - Real.log m) / alpha := by
    have hne : alpha ≠ 0 := ha.ne
    field_simp
  rw [this, le_div_iff_of_neg ha]
  linarith

end PymotoVerif.Agg
