/- derivatives over `ℝ` of the three aggregation functions of `PymotoVerif.Core.Aggregation`:
   the directional derivative of the value equals the pairing with the code's derivative vector -/
import PymotoVerif.Core.Aggregation
import PymotoVerif.Lemmas.Sum
import Mathlib.Analysis.SpecialFunctions.Log.Deriv
import Mathlib.Analysis.SpecialFunctions.ExpDeriv
import Mathlib.Analysis.SpecialFunctions.Pow.Deriv
import Mathlib.Analysis.Calculus.Deriv.Add
import Mathlib.Analysis.Calculus.Deriv.Mul
import Mathlib.Analysis.Calculus.Deriv.Inv
import Mathlib.Algebra.BigOperators.Field
import Mathlib.Tactic.FieldSimp
import Mathlib.Tactic.Ring
import Mathlib.Tactic.Linarith

namespace PymotoVerif.Agg
open Finset

/-! ## helpers -/

/-- the affine line `t ↦ a + t * b` has derivative `b` -/
theorem line_hasDerivAt (a b t : ℝ) : HasDerivAt (fun t : ℝ => a + t * b) b t := by
  have h := ((hasDerivAt_id t).mul_const b).const_add a
  simpa using h

/-- `t ↦ c * (a + t * b)` has derivative `c * b` -/
theorem scaled_line_hasDerivAt (c a b t : ℝ) :
    HasDerivAt (fun t : ℝ => c * (a + t * b)) (c * b) t :=
  (line_hasDerivAt a b t).const_mul c

theorem sum_exp_pos (m : Nat) (hm : 0 < m) (z : Nat → ℝ) :
    0 < ∑ i ∈ range m, Real.exp (z i) := by
  apply Finset.sum_pos
  · intro i _; exact Real.exp_pos _
  · exact ⟨0, Finset.mem_range.mpr hm⟩

theorem absv_of_pos {a : ℝ} (h : 0 < a) : absv a = a := by
  unfold absv
  rw [if_neg (not_lt.mpr h.le)]

theorem signv_of_pos {a : ℝ} (h : 0 < a) : signv a = 1 := by
  unfold signv
  rw [if_neg (not_lt.mpr h.le), if_pos h]

/-- over `ℝ` the shifted softmax of the code is the plain softmax (the shift cancels) -/
theorem softmaxVec_eq (m : Nat) (z : Nat → ℝ) (i : Nat) :
    softmaxVec Real.exp m z i = Real.exp (z i) / ∑ j ∈ range m, Real.exp (z j) := by
  unfold softmaxVec
  rw [sumRange_eq]
  generalize npMax m z = c
  simp only [Real.exp_sub]
  rw [← Finset.sum_div]
  exact div_div_div_cancel_right₀ (Real.exp_pos c).ne' _ _

/-- `softVal` over `ℝ` as a quotient of two sums -/
theorem softVal_eq (m : Nat) (alpha : ℝ) (y : Nat → ℝ) :
    softVal Real.exp alpha m y =
      (∑ i ∈ range m, y i * Real.exp (alpha * y i)) / ∑ j ∈ range m, Real.exp (alpha * y j) := by
  unfold softVal
  rw [sumRange_eq, Finset.sum_div]
  apply Finset.sum_congr rfl
  intro i _
  rw [softmaxVec_eq, mul_div_assoc]

/-- `pSum` over `ℝ` on positive data -/
theorem pSum_eq_of_pos (p : ℝ) (m : Nat) (y : Nat → ℝ) (hy : ∀ i, i < m → 0 < y i) :
    pSum Real.rpow p m y = ∑ i ∈ range m, y i ^ p := by
  unfold pSum
  rw [sumRange_eq]
  apply Finset.sum_congr rfl
  intro i hi
  rw [absv_of_pos (hy i (Finset.mem_range.mp hi)), Real.rpow_eq_pow]

/-! ## KS -/

/-- KS: directional derivative = pairing with the code's derivative vector -/
theorem ksVal_hasDerivAt (m : Nat) (hm : 0 < m) (rho : ℝ) (hr : rho ≠ 0) (y v : Nat → ℝ) :
    HasDerivAt (fun t : ℝ => ksVal Real.exp Real.log rho m (fun i => y i + t * v i))
      (∑ i ∈ range m, ksDer Real.exp rho m y i * v i) 0 := by
  unfold ksVal ksDer ksSum
  simp only [sumRange_eq]
  have hpos : 0 < ∑ i ∈ range m, Real.exp (rho * y i) := sum_exp_pos m hm _
  have h1 : ∀ i ∈ range m, HasDerivAt (fun t => Real.exp (rho * (y i + t * v i)))
      (Real.exp (rho * y i) * (rho * v i)) 0 := by
    intro i _
    have h3 := (scaled_line_hasDerivAt rho (y i) (v i) 0).exp
    simpa using h3
  have h2 := HasDerivAt.fun_sum h1
  have h3 := h2.log (by simpa using hpos.ne')
  have h4 := h3.const_mul (1 / rho)
  refine h4.congr_deriv ?_
  simp only [zero_mul, add_zero]
  have hS : (∑ i ∈ range m, Real.exp (rho * y i)) ≠ 0 := hpos.ne'
  rw [Finset.sum_div, Finset.mul_sum]
  apply Finset.sum_congr rfl
  intro i _
  field_simp

/-! ## PNorm -/

/-- PNorm on positive data -/
theorem pnormVal_hasDerivAt (m : Nat) (hm : 0 < m) (p : ℝ) (hp : p ≠ 0) (y v : Nat → ℝ)
    (hy : ∀ i, i < m → 0 < y i) :
    HasDerivAt (fun t : ℝ => pnormVal Real.rpow p m (fun i => y i + t * v i))
      (∑ i ∈ range m, pnormDer Real.rpow p m y i * v i) 0 := by
  -- near 0 the perturbed data stay positive
  have hev : ∀ᶠ t in nhds (0 : ℝ), ∀ i ∈ range m, 0 < y i + t * v i := by
    rw [Filter.eventually_all_finset]
    intro i hi
    have hc : Filter.Tendsto (fun t : ℝ => y i + t * v i) (nhds 0) (nhds (y i + 0 * v i)) :=
      (line_hasDerivAt (y i) (v i) 0).continuousAt.tendsto
    rw [zero_mul, add_zero] at hc
    exact hc.eventually_const_lt (hy i (Finset.mem_range.mp hi))
  -- the smooth representative
  have hpos : 0 < ∑ i ∈ range m, y i ^ p := by
    apply Finset.sum_pos
    · intro i hi; exact Real.rpow_pos_of_pos (hy i (Finset.mem_range.mp hi)) p
    · exact ⟨0, Finset.mem_range.mpr hm⟩
  have h1 : ∀ i ∈ range m, HasDerivAt (fun t : ℝ => (y i + t * v i) ^ p)
      (v i * p * y i ^ (p - 1)) 0 := by
    intro i hi
    have h := (line_hasDerivAt (y i) (v i) 0).rpow_const (p := p)
      (Or.inl (by simpa using (hy i (Finset.mem_range.mp hi)).ne'))
    simpa using h
  have h2 := HasDerivAt.fun_sum h1
  have h3 := h2.rpow_const (p := 1 / p) (Or.inl (by simpa using hpos.ne'))
  have h4 : HasDerivAt (fun t : ℝ => pnormVal Real.rpow p m (fun i => y i + t * v i))
      ((∑ i ∈ range m, v i * p * y i ^ (p - 1)) * (1 / p) *
        (∑ i ∈ range m, (y i + 0 * v i) ^ p) ^ (1 / p - 1)) 0 := by
    refine h3.congr_of_eventuallyEq ?_
    filter_upwards [hev] with t ht
    unfold pnormVal
    rw [pSum_eq_of_pos p m _ (fun i hi => ht i (Finset.mem_range.mpr hi)), Real.rpow_eq_pow]
  refine h4.congr_deriv ?_
  simp only [zero_mul, add_zero]
  unfold pnormDer
  rw [pSum_eq_of_pos p m y hy, Finset.sum_mul, Finset.sum_mul]
  apply Finset.sum_congr rfl
  intro i hi
  have hyi := hy i (Finset.mem_range.mp hi)
  rw [absv_of_pos hyi, signv_of_pos hyi]
  simp only [Real.rpow_eq_pow]
  field_simp

/-! ## SoftMinMax -/

/-- SoftMinMax; the code's derivative uses the stored value `self.y` = the response value at `y` -/
theorem softVal_hasDerivAt (m : Nat) (hm : 0 < m) (alpha : ℝ) (y v : Nat → ℝ) :
    HasDerivAt (fun t : ℝ => softVal Real.exp alpha m (fun i => y i + t * v i))
      (∑ i ∈ range m, softDer Real.exp alpha (softVal Real.exp alpha m y) m y i * v i) 0 := by
  simp only [softVal_eq]
  unfold softDer
  simp only [softmaxVec_eq]
  have hpos : 0 < ∑ i ∈ range m, Real.exp (alpha * y i) := sum_exp_pos m hm _
  have hD : (∑ i ∈ range m, Real.exp (alpha * y i)) ≠ 0 := hpos.ne'
  -- exponentials
  have he : ∀ i ∈ range m, HasDerivAt (fun t => Real.exp (alpha * (y i + t * v i)))
      (Real.exp (alpha * y i) * (alpha * v i)) 0 := by
    intro i _
    have h3 := (scaled_line_hasDerivAt alpha (y i) (v i) 0).exp
    simpa using h3
  -- numerator terms
  have hn : ∀ i ∈ range m,
      HasDerivAt (fun t => (y i + t * v i) * Real.exp (alpha * (y i + t * v i)))
        (v i * Real.exp (alpha * y i) + y i * (Real.exp (alpha * y i) * (alpha * v i))) 0 := by
    intro i hi
    have h := (line_hasDerivAt (y i) (v i) 0).fun_mul (he i hi)
    simpa using h
  have hN := HasDerivAt.fun_sum hn
  have hDen := HasDerivAt.fun_sum he
  have hq := hN.fun_div hDen (by simpa using hD)
  refine hq.congr_deriv ?_
  simp only [zero_mul, add_zero]
  generalize hY : (∑ i ∈ range m, y i * Real.exp (alpha * y i)) = N
  generalize hDd : (∑ i ∈ range m, Real.exp (alpha * y i)) = D at hD ⊢
  have key : ∑ i ∈ range m, Real.exp (alpha * y i) / D * (1 + alpha * (y i - N / D)) * v i
      = (∑ i ∈ range m,
            (v i * Real.exp (alpha * y i) + y i * (Real.exp (alpha * y i) * (alpha * v i)))) / D
        - N / D * ((∑ i ∈ range m, Real.exp (alpha * y i) * (alpha * v i)) / D) := by
    rw [Finset.sum_div, Finset.sum_div, Finset.mul_sum, ← Finset.sum_sub_distrib]
    apply Finset.sum_congr rfl
    intro i _
    field_simp
    ring
  rw [key]
  field_simp

end PymotoVerif.Agg
