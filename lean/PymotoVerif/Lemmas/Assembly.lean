/- helper lemmas for C08 / C12: list sums, COO dense closed form, re-indexing of flat ranges,
   scatter quadratic forms -/
import PymotoVerif.Core.Assembly
import PymotoVerif.Lemmas.Sum
import PymotoVerif.Lemmas.Domain
import Mathlib.Algebra.BigOperators.Group.List.Basic
import Mathlib.Tactic.Ring
import Mathlib.Tactic.Linarith

namespace PymotoVerif.Assembly
open PymotoVerif PymotoVerif.Domain Finset

section lists
variable {α : Type} [AddCommMonoid α]

theorem listSum_eq (l : List α) : listSum l = l.sum := by
  induction l with
  | nil => rfl
  | cons a t ih => simp [listSum, ih]

theorem sum_map_range (n : Nat) (f : Nat → α) : ((List.range n).map f).sum = ∑ i ∈ range n, f i := by
  induction n with
  | zero => simp
  | succ n ih => simp [List.range_succ, Finset.sum_range_succ, ih]

theorem sum_map_filter_range (n : Nat) (p : Nat → Bool) (f : Nat → α) :
    (((List.range n).filter p).map f).sum = ∑ i ∈ range n, if p i then f i else 0 := by
  induction n with
  | zero => simp
  | succ n ih =>
    rw [List.range_succ, List.filter_append, List.map_append, List.sum_append, ih, Finset.sum_range_succ]
    by_cases h : p n <;> simp [h]

/-- flat index `k = i*m + j` -/
theorem sum_range_mul (n m : Nat) (f : Nat → α) :
    ∑ k ∈ range (n * m), f k = ∑ i ∈ range n, ∑ j ∈ range m, f (i * m + j) := by
  induction n with
  | zero => simp
  | succ n ih =>
    rw [Nat.succ_mul, Finset.sum_range_add, ih, Finset.sum_range_succ]
end lists


/-! ### the flat COO index `k = e*(m*m) + (a*m + b)` -/
section index
variable {α : Type}

theorem rowsIdx_flat (m : Nat) (dc : Nat → Nat → Nat) (e a b : Nat) (ha : a < m) (hb : b < m) :
    rowsIdx m dc (e * (m * m) + (a * m + b)) = dc e a := by
  have hab : a * m + b < m * m := radix_lt ha hb
  unfold rowsIdx kron ones
  rw [radix_div hab, radix_mod hab, radix_div hb]
  simp

theorem colsIdx_flat (m : Nat) (dc : Nat → Nat → Nat) (e a b : Nat) (ha : a < m) (hb : b < m) :
    colsIdx m dc (e * (m * m) + (a * m + b)) = dc e b := by
  have hk : e * (m * m) + (a * m + b) = (e * m + a) * m + b := by ring
  unfold colsIdx kron ones
  rw [hk, radix_div hb, radix_mod hb, radix_div ha]
  simp

theorem scaledEl_flat [Mul α] (m : Nat) (elmat : Nat → Nat → α) (x : Nat → α) (e a b : Nat)
    (ha : a < m) (hb : b < m) :
    scaledEl m elmat x (e * (m * m) + (a * m + b)) = elmat a b * x e := by
  have hab : a * m + b < m * m := radix_lt ha hb
  unfold scaledEl
  rw [radix_div hab, radix_mod hab, radix_div hb, radix_mod hb]
end index

/-! ### dense closed form of the assembled matrix -/
section dense
variable {α : Type} [CommSemiring α]

/-- `Σ_e Σ_{a,b : dc e a = r, dc e b = c} elmat a b * x e` -/
def scatterSum (nel m : Nat) (dc : Nat → Nat → Nat) (elmat : Nat → Nat → α) (x : Nat → α) (r c : Nat) : α :=
  ∑ e ∈ range nel, ∑ a ∈ range m, ∑ b ∈ range m, if dc e a = r ∧ dc e b = c then elmat a b * x e else 0

/-- re-indexing of a sum over all COO positions -/
theorem sum_flat (nel m : Nat) (F : Nat → α) :
    ∑ k ∈ range (nel * (m * m)), F k
      = ∑ e ∈ range nel, ∑ a ∈ range m, ∑ b ∈ range m, F (e * (m * m) + (a * m + b)) := by
  rw [sum_range_mul]
  apply Finset.sum_congr rfl
  intro e _
  rw [sum_range_mul]

theorem cooDense_none (nel m : Nat) (dc : Nat → Nat → Nat) (elmat : Nat → Nat → α) (x : Nat → α)
    (bcd : α) (r c : Nat) :
    cooDense (triplets nel m dc elmat x none bcd) r c = scatterSum nel m dc elmat x r c := by
  unfold cooDense triplets scatterSum
  simp only [listSum_eq, List.map_map]
  rw [sum_map_range, sum_flat]
  apply Finset.sum_congr rfl; intro e _
  apply Finset.sum_congr rfl; intro a ha
  apply Finset.sum_congr rfl; intro b hb
  have ha' := Finset.mem_range.mp ha
  have hb' := Finset.mem_range.mp hb
  simp only [Function.comp, rowsIdx_flat m dc e a b ha' hb', colsIdx_flat m dc e a b ha' hb',
    scaledEl_flat m elmat x e a b ha' hb']

/-- the diagonal entries written for the constrained dofs -/
def bcDiag (bc : List Nat) (bcd : α) (r c : Nat) : α :=
  (bc.map (fun b => if b = r ∧ b = c then bcd else 0)).sum

theorem cooDense_some (nel m : Nat) (dc : Nat → Nat → Nat) (elmat : Nat → Nat → α) (x : Nat → α)
    (bc : List Nat) (bcd : α) (r c : Nat) :
    cooDense (triplets nel m dc elmat x (some bc) bcd) r c
      = (if r ∈ bc ∨ c ∈ bc then 0 else scatterSum nel m dc elmat x r c) + bcDiag bc bcd r c := by
  unfold cooDense triplets bcDiag
  simp only [listSum_eq, List.map_append, List.sum_append, List.map_map]
  congr 1
  · unfold bcSelect
    rw [sum_map_filter_range]
    have key : ∀ k, (if (!bcMask bc (rowsIdx m dc) (colsIdx m dc) k) = true then
          ((fun e : Triplet α => if e.r = r ∧ e.c = c then e.v else 0) ∘
            fun k => ⟨rowsIdx m dc k, colsIdx m dc k, scaledEl m elmat x k⟩) k else 0)
        = if r ∈ bc ∨ c ∈ bc then 0
          else (if rowsIdx m dc k = r ∧ colsIdx m dc k = c then scaledEl m elmat x k else 0) := by
      intro k
      simp only [Function.comp, bcMask]
      by_cases h : rowsIdx m dc k = r ∧ colsIdx m dc k = c
      · obtain ⟨h1, h2⟩ := h
        simp only [h1, h2]
        by_cases hr : r ∈ bc <;> by_cases hc : c ∈ bc <;> simp [hr, hc]
      · simp [h]
    rw [Finset.sum_congr rfl (fun k _ => key k)]
    split
    · simp
    · rw [← cooDense_none nel m dc elmat x bcd r c]
      unfold cooDense triplets
      simp only [listSum_eq, List.map_map]
      rw [sum_map_range]
      rfl
  · simp only [mul_one]
    rfl

theorem bcDiag_of_not_mem (bc : List Nat) (bcd : α) (r c : Nat) (h : r ∉ bc ∨ c ∉ bc) : bcDiag bc bcd r c = 0 := by
  unfold bcDiag
  apply List.sum_eq_zero
  intro y hy
  obtain ⟨b, hb, rfl⟩ := List.mem_map.mp hy
  have : ¬ (b = r ∧ b = c) := by
    rintro ⟨h1, h2⟩
    rcases h with h | h
    · exact h (h1 ▸ hb)
    · exact h (h2 ▸ hb)
  simp [this]

theorem bcDiag_offdiag (bc : List Nat) (bcd : α) (r c : Nat) (h : r ≠ c) : bcDiag bc bcd r c = 0 := by
  unfold bcDiag
  apply List.sum_eq_zero
  intro y hy
  obtain ⟨b, _, rfl⟩ := List.mem_map.mp hy
  have : ¬ (b = r ∧ b = c) := by
    rintro ⟨h1, h2⟩; exact h (h1 ▸ h2)
  simp [this]

theorem bcDiag_nodup (bc : List Nat) (hbc : bc.Nodup) (bcd : α) (r : Nat) (hr : r ∈ bc) :
    bcDiag bc bcd r r = bcd := by
  unfold bcDiag
  induction bc with
  | nil => cases hr
  | cons a t ih =>
    have hnd := List.nodup_cons.mp hbc
    simp only [List.map_cons, List.sum_cons, and_self]
    by_cases ha : a = r
    · subst ha
      have h0 : (t.map (fun b => if b = a then bcd else 0)).sum = 0 := by
        apply List.sum_eq_zero
        intro y hy
        obtain ⟨b, hb, rfl⟩ := List.mem_map.mp hy
        have : b ≠ a := fun h => hnd.1 (h ▸ hb)
        simp [this]
      simp [h0]
    · have hr' : r ∈ t := by
        rcases List.mem_cons.mp hr with h | h
        · exact absurd h.symm ha
        · exact h
      have := ih hnd.2 hr'
      simp only [and_self] at this
      simp [ha, this]

theorem bcDiag_symm (bc : List Nat) (bcd : α) (r c : Nat) : bcDiag bc bcd r c = bcDiag bc bcd c r := by
  unfold bcDiag
  congr 1
  apply List.map_congr_left
  intro b _
  simp only [and_comm]

theorem scatterSum_symm (nel m : Nat) (dc : Nat → Nat → Nat) (elmat : Nat → Nat → α) (x : Nat → α)
    (h : ∀ a b, elmat a b = elmat b a) (r c : Nat) :
    scatterSum nel m dc elmat x r c = scatterSum nel m dc elmat x c r := by
  unfold scatterSum
  apply Finset.sum_congr rfl; intro e _
  rw [Finset.sum_comm]
  apply Finset.sum_congr rfl; intro a _
  apply Finset.sum_congr rfl; intro b _
  rw [h b a]
  simp only [and_comm]

theorem scatterSum_eq (nel m : Nat) (dc : Nat → Nat → Nat) (elmat : Nat → Nat → α) (x : Nat → α) (r c : Nat) :
    scatterSum nel m dc elmat x r c
      = ∑ e ∈ range nel, x e * ∑ a ∈ range m, ∑ b ∈ range m, if dc e a = r ∧ dc e b = c then elmat a b else 0 := by
  unfold scatterSum
  apply Finset.sum_congr rfl; intro e _
  rw [Finset.mul_sum]
  apply Finset.sum_congr rfl; intro a _
  rw [Finset.mul_sum]
  apply Finset.sum_congr rfl; intro b _
  split <;> ring
end dense


/-! ### matrix-vector and bilinear forms of a scattered element sum -/
section forms
variable {α : Type} [CommSemiring α]

theorem sum_comm3 (n nel m : Nat) (F : Nat → Nat → Nat → Nat → α) :
    ∑ c ∈ range n, ∑ e ∈ range nel, ∑ a ∈ range m, ∑ b ∈ range m, F c e a b
      = ∑ e ∈ range nel, ∑ a ∈ range m, ∑ b ∈ range m, ∑ c ∈ range n, F c e a b := by
  rw [Finset.sum_comm]
  apply Finset.sum_congr rfl; intro e _
  rw [Finset.sum_comm]
  apply Finset.sum_congr rfl; intro a _
  rw [Finset.sum_comm]

theorem sum_ite_and_eq (n j : Nat) (hj : j < n) (p : Prop) [Decidable p] (t : α) (v : Nat → α) :
    ∑ c ∈ range n, (if p ∧ j = c then t else 0) * v c = if p then t * v j else 0 := by
  by_cases hp : p
  · simp only [hp, true_and, if_true, ite_mul, zero_mul]
    rw [Finset.sum_ite_eq]
    simp [hj]
  · simp [hp]

/-- `(A v)_r` for `A = scatterSum` -/
theorem scatterSum_mulVec (nel m n : Nat) (dc : Nat → Nat → Nat) (hdc : ∀ e b, e < nel → b < m → dc e b < n)
    (elmat : Nat → Nat → α) (x v : Nat → α) (r : Nat) :
    ∑ c ∈ range n, scatterSum nel m dc elmat x r c * v c
      = ∑ e ∈ range nel, ∑ a ∈ range m, if dc e a = r then (∑ b ∈ range m, elmat a b * v (dc e b)) * x e else 0 := by
  unfold scatterSum
  simp only [Finset.sum_mul]
  rw [sum_comm3]
  apply Finset.sum_congr rfl; intro e he
  apply Finset.sum_congr rfl; intro a _
  have h1 : ∀ b ∈ range m, ∑ c ∈ range n, (if dc e a = r ∧ dc e b = c then elmat a b * x e else 0) * v c
      = if dc e a = r then (elmat a b * x e) * v (dc e b) else 0 := by
    intro b hb
    exact sum_ite_and_eq n (dc e b) (hdc e b (Finset.mem_range.mp he) (Finset.mem_range.mp hb)) _ _ _
  rw [Finset.sum_congr rfl h1]
  split
  · apply Finset.sum_congr rfl; intro b _; ring
  · simp

/-- `wᵀ A v` for `A = scatterSum` : the element-wise bilinear forms of the gathered vectors -/
theorem scatterSum_bilin (nel m n : Nat) (dc : Nat → Nat → Nat) (hdc : ∀ e b, e < nel → b < m → dc e b < n)
    (elmat : Nat → Nat → α) (x w v : Nat → α) :
    ∑ r ∈ range n, w r * ∑ c ∈ range n, scatterSum nel m dc elmat x r c * v c
      = ∑ e ∈ range nel, x e * ∑ a ∈ range m, ∑ b ∈ range m, w (dc e a) * elmat a b * v (dc e b) := by
  simp only [scatterSum_mulVec nel m n dc hdc, Finset.mul_sum]
  rw [Finset.sum_comm]
  apply Finset.sum_congr rfl; intro e he
  rw [Finset.sum_comm]
  apply Finset.sum_congr rfl; intro a ha
  have hlt := hdc e a (Finset.mem_range.mp he) (Finset.mem_range.mp ha)
  simp only [mul_ite, mul_zero]
  rw [Finset.sum_ite_eq]
  simp only [Finset.mem_range, hlt, if_true, Finset.mul_sum, Finset.sum_mul]
  apply Finset.sum_congr rfl; intro b _; ring
end forms

end PymotoVerif.Assembly
