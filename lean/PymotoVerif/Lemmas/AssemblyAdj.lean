/- helper lemmas for the adjoint theorems (C01) of the assembly / element-operation family -/
import PymotoVerif.Lemmas.AssemblyOps

namespace PymotoVerif.Assembly
open PymotoVerif PymotoVerif.Domain Finset Dom

section adj
variable {α : Type} [CommRing α]

/-- the code's seed change in closed form -/
theorem seedMask_eq (bc : Option (List Nat)) (W : Nat → Nat → α) (r c : Nat) :
    seedMask bc W r c = if r ∈ bc.getD [] ∨ c ∈ bc.getD [] then 0 else W r c := by
  cases bc with
  | none => simp [seedMask]
  | some l => simp [seedMask]

theorem vecMask_eq (bc : Option (List Nat)) (u : Nat → α) (r : Nat) :
    vecMask bc u r = if r ∈ bc.getD [] then 0 else u r := by
  cases bc with
  | none => simp [vecMask]
  | some l => simp [vecMask]

/-- pairing of an arbitrary dense matrix with a scattered element sum -/
theorem scatterSum_pair (nel m n : Nat) (dc : Nat → Nat → Nat) (hdc : ∀ e b, e < nel → b < m → dc e b < n)
    (elmat : Nat → Nat → α) (x : Nat → α) (M : Nat → Nat → α) :
    ∑ r ∈ range n, ∑ c ∈ range n, M r c * scatterSum nel m dc elmat x r c
      = ∑ e ∈ range nel, (∑ a ∈ range m, ∑ b ∈ range m, elmat a b * M (dc e a) (dc e b)) * x e := by
  have h1 : ∀ r ∈ range n, ∑ c ∈ range n, M r c * scatterSum nel m dc elmat x r c
      = ∑ e ∈ range nel, ∑ a ∈ range m, ∑ b ∈ range m,
          if dc e a = r then (elmat a b * x e) * M r (dc e b) else 0 := by
    intro r _
    unfold scatterSum
    simp only [Finset.mul_sum]
    rw [sum_comm3]
    apply Finset.sum_congr rfl; intro e he
    apply Finset.sum_congr rfl; intro a _
    apply Finset.sum_congr rfl; intro b hb
    have := sum_ite_and_eq n (dc e b) (hdc e b (Finset.mem_range.mp he) (Finset.mem_range.mp hb))
      (dc e a = r) (elmat a b * x e) (M r)
    rw [← this]
    apply Finset.sum_congr rfl; intro c _
    ring
  rw [Finset.sum_congr rfl h1, sum_comm3]
  apply Finset.sum_congr rfl; intro e he
  rw [Finset.sum_mul]
  apply Finset.sum_congr rfl; intro a ha
  rw [Finset.sum_mul]
  apply Finset.sum_congr rfl; intro b _
  rw [Finset.sum_ite_eq]
  simp only [Finset.mem_range, hdc e a (Finset.mem_range.mp he) (Finset.mem_range.mp ha), if_true]
  ring

/-- the assembled matrix in closed form (scaled element sum off the bc set, bc diagonal, constant) -/
theorem assemble_closed (nel m : Nat) (dc : Nat → Nat → Nat) (elmat : Nat → Nat → α) (x : Nat → α)
    (bc : Option (List Nat)) (bcd : α) (addc : Option (Nat → Nat → α)) (r c : Nat) :
    assemble nel m dc elmat x bc bcd addc r c
      = (if r ∈ bc.getD [] ∨ c ∈ bc.getD [] then 0 else scatterSum nel m dc elmat x r c)
        + bcDiag (bc.getD []) bcd r c + (match addc with | none => 0 | some C => C r c) := by
  have core : cooDense (triplets nel m dc elmat x bc bcd) r c
      = (if r ∈ bc.getD [] ∨ c ∈ bc.getD [] then 0 else scatterSum nel m dc elmat x r c)
        + bcDiag (bc.getD []) bcd r c := by
    cases bc with
    | none => simp [cooDense_none, bcDiag]
    | some l => simp [cooDense_some]
  cases addc with
  | none => simp [assemble, core]
  | some C => simp [assemble, core]

/-- pairing of a seed with the assembled matrix: the masked seed meets the element sum, the rest does not
    depend on `x` -/
theorem assemble_pair (nel m n : Nat) (dc : Nat → Nat → Nat) (hdc : ∀ e b, e < nel → b < m → dc e b < n)
    (elmat : Nat → Nat → α) (x : Nat → α) (bc : Option (List Nat)) (bcd : α) (addc : Option (Nat → Nat → α))
    (W : Nat → Nat → α) :
    ∑ r ∈ range n, ∑ c ∈ range n, W r c * assemble nel m dc elmat x bc bcd addc r c
      = (∑ e ∈ range nel, assembleSensDense m dc elmat bc id W e * x e)
        + ∑ r ∈ range n, ∑ c ∈ range n, W r c * (bcDiag (bc.getD []) bcd r c
            + (match addc with | none => 0 | some C => C r c)) := by
  have h : ∑ e ∈ range nel, assembleSensDense m dc elmat bc id W e * x e
      = ∑ r ∈ range n, ∑ c ∈ range n, seedMask bc W r c * scatterSum nel m dc elmat x r c := by
    rw [scatterSum_pair nel m n dc hdc]
    apply Finset.sum_congr rfl; intro e _
    unfold assembleSensDense
    simp only [sumRange_eq, id]
  rw [h, ← Finset.sum_add_distrib]
  apply Finset.sum_congr rfl; intro r _
  rw [← Finset.sum_add_distrib]
  apply Finset.sum_congr rfl; intro c _
  rw [assemble_closed, seedMask_eq]
  split <;> ring

/-- the dyad contraction is the dense formula applied to `Σ_k u_k v_kᵀ` -/
theorem assembleSensDyad_eq_dense (m : Nat) (dc : Nat → Nat → Nat) (elmat : Nat → Nat → α)
    (bc : Option (List Nat)) (nd : Nat) (us vs : Nat → Nat → α) (e : Nat) :
    assembleSensDyad m dc elmat bc id nd us vs e
      = assembleSensDense m dc elmat bc id (fun r c => ∑ k ∈ range nd, us k r * vs k c) e := by
  unfold assembleSensDyad assembleSensDense
  simp only [sumRange_eq, id]
  rw [Finset.sum_comm]
  apply Finset.sum_congr rfl; intro a _
  rw [Finset.sum_comm]
  apply Finset.sum_congr rfl; intro b _
  rw [seedMask_eq]
  simp only [vecMask_eq]
  by_cases h1 : dc e a ∈ bc.getD []
  · simp [h1]
  · by_cases h2 : dc e b ∈ bc.getD []
    · simp [h2]
    · simp only [h1, h2, or_self, if_false, Finset.mul_sum]
      apply Finset.sum_congr rfl; intro k _
      ring

theorem elemOpSensApply_eq_nodal (nel : Nat) (dc : Nat → Nat → Nat) (R K : Nat) (EM : Nat → Nat → α) (dy : Nat → Nat → α) :
    elemOpSensApply nel dc R K EM dy = nodalOpApply nel dc R K EM dy := rfl

theorem nodalOpSensApply_eq_elem (dc : Nat → Nat → Nat) (K : Nat) (EM : Nat → Nat → α) (dx : Nat → α) :
    nodalOpSensApply dc K EM dx = elemOpApply dc K EM dx := rfl

/-- adjoint of the gather-einsum (any connectivity table with bounded entries) -/
theorem elemOpApply_adjoint (nel n R K : Nat) (dc : Nat → Nat → Nat) (hdc : ∀ e k, e < nel → k < K → dc e k < n)
    (EM : Nat → Nat → α) (w : Nat → Nat → α) (u v : Nat → α) :
    ∑ r ∈ range R, ∑ e ∈ range nel,
        w r e * (elemOpApply dc K EM (fun q => u q + v q) r e - elemOpApply dc K EM u r e)
      = ∑ q ∈ range n, elemOpSensApply nel dc R K EM w q * v q := by
  have a1 := nodal_elem_adjoint nel n R K dc hdc EM w (fun q => u q + v q)
  have a2 := nodal_elem_adjoint nel n R K dc hdc EM w u
  rw [elemOpSensApply_eq_nodal]
  have : ∑ r ∈ range R, ∑ e ∈ range nel,
        w r e * (elemOpApply dc K EM (fun q => u q + v q) r e - elemOpApply dc K EM u r e)
      = (∑ r ∈ range R, ∑ e ∈ range nel, w r e * elemOpApply dc K EM (fun q => u q + v q) r e)
        - ∑ r ∈ range R, ∑ e ∈ range nel, w r e * elemOpApply dc K EM u r e := by
    rw [← Finset.sum_sub_distrib]
    apply Finset.sum_congr rfl; intro r _
    rw [← Finset.sum_sub_distrib]
    apply Finset.sum_congr rfl; intro e _
    ring
  rw [this, a1, a2, ← Finset.sum_sub_distrib]
  apply Finset.sum_congr rfl; intro q _
  ring

/-- adjoint of the scatter-einsum -/
theorem nodalOpApply_adjoint (nel n R K : Nat) (dc : Nat → Nat → Nat) (hdc : ∀ e k, e < nel → k < K → dc e k < n)
    (EM : Nat → Nat → α) (w : Nat → α) (x v : Nat → Nat → α) :
    ∑ q ∈ range n, w q * (nodalOpApply nel dc R K EM (fun r e => x r e + v r e) q - nodalOpApply nel dc R K EM x q)
      = ∑ r ∈ range R, ∑ e ∈ range nel, nodalOpSensApply dc K EM w r e * v r e := by
  have a1 := nodal_elem_adjoint nel n R K dc hdc EM (fun r e => x r e + v r e) w
  have a2 := nodal_elem_adjoint nel n R K dc hdc EM x w
  rw [nodalOpSensApply_eq_elem]
  have : ∑ q ∈ range n, w q * (nodalOpApply nel dc R K EM (fun r e => x r e + v r e) q - nodalOpApply nel dc R K EM x q)
      = (∑ q ∈ range n, nodalOpApply nel dc R K EM (fun r e => x r e + v r e) q * w q)
        - ∑ q ∈ range n, nodalOpApply nel dc R K EM x q * w q := by
    rw [← Finset.sum_sub_distrib]
    apply Finset.sum_congr rfl; intro q _
    ring
  rw [this, ← a1, ← a2, ← Finset.sum_sub_distrib]
  apply Finset.sum_congr rfl; intro r _
  rw [← Finset.sum_sub_distrib]
  apply Finset.sum_congr rfl; intro e _
  ring
end adj

end PymotoVerif.Assembly
