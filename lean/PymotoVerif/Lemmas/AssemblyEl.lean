/- helper lemmas for C08 / C12: element-matrix algebra (matrix-vector and quadratic forms of the
   Gauss sums), constitutive matrices (symmetry, positive semi-definiteness) -/
import PymotoVerif.Lemmas.AssemblyFE

namespace PymotoVerif.Assembly
open PymotoVerif PymotoVerif.Domain PymotoVerif.C13 Finset Dom

section elalg
variable {α : Type} [CommRing α]

/-- `(B v)_i` -/
def Bv (m : Nat) (B : Nat → Nat → α) (v : Nat → α) (i : Nat) : α := ∑ a ∈ range m, B i a * v a

/-- `εᵀ D ε` -/
def quadForm (n : Nat) (D : Nat → Nat → α) (ε : Nat → α) : α :=
  ∑ i ∈ range n, ∑ j ∈ range n, ε i * D i j * ε j

/-- `(K_e v)_a = Σ_gp Σ_j W_gp[a][j] (B_gp v)_j` -/
theorem stiffFrom_mulVec (ngp nst m : Nat) (W B : Nat → Nat → Nat → α) (v : Nat → α) (a : Nat) :
    ∑ b ∈ range m, stiffFrom ngp nst W B a b * v b
      = ∑ gp ∈ range ngp, ∑ j ∈ range nst, W gp a j * Bv m (B gp) v j := by
  unfold stiffFrom Bv
  simp only [sumRange_eq, Finset.sum_mul, Finset.mul_sum]
  rw [Finset.sum_comm]
  apply Finset.sum_congr rfl; intro gp _
  rw [Finset.sum_comm]
  apply Finset.sum_congr rfl; intro j _
  apply Finset.sum_congr rfl; intro b _
  ring

/-- `Σ_a v_a (w Bᵀ D)[a][j] = w (Dᵀ (B v))_j` -/
theorem wBtD_vecMul (nst m : Nat) (w : α) (B D : Nat → Nat → α) (v : Nat → α) (j : Nat) :
    ∑ a ∈ range m, v a * wBtD nst w B D a j = w * ∑ i ∈ range nst, Bv m B v i * D i j := by
  unfold wBtD Bv
  simp only [sumRange_eq, Finset.sum_mul, Finset.mul_sum]
  rw [Finset.sum_comm]
  apply Finset.sum_congr rfl; intro i _
  apply Finset.sum_congr rfl; intro a _
  ring

/-- **`vᵀ K_e v' = Σ_gp w (B v)ᵀ D (B v')`** for the Gauss sum exactly as coded -/
theorem stiff_bilin (ngp nst m : Nat) (w : α) (B : Nat → Nat → Nat → α) (D : Nat → Nat → α) (v v' : Nat → α) :
    ∑ a ∈ range m, ∑ b ∈ range m, v a * stiffFrom ngp nst (fun gp => wBtD nst w (B gp) D) B a b * v' b
      = ∑ gp ∈ range ngp, w * ∑ i ∈ range nst, ∑ j ∈ range nst, Bv m (B gp) v i * D i j * Bv m (B gp) v' j := by
  have h1 : ∀ a ∈ range m, ∑ b ∈ range m, v a * stiffFrom ngp nst (fun gp => wBtD nst w (B gp) D) B a b * v' b
      = v a * ∑ gp ∈ range ngp, ∑ j ∈ range nst, wBtD nst w (B gp) D a j * Bv m (B gp) v' j := by
    intro a _
    rw [← stiffFrom_mulVec, Finset.mul_sum]
    apply Finset.sum_congr rfl; intro b _; ring
  rw [Finset.sum_congr rfl h1]
  simp only [Finset.mul_sum]
  rw [Finset.sum_comm]
  apply Finset.sum_congr rfl; intro gp _
  rw [Finset.sum_comm]
  have h2 : ∀ j ∈ range nst, ∑ a ∈ range m, v a * (wBtD nst w (B gp) D a j * Bv m (B gp) v' j)
      = (w * ∑ i ∈ range nst, Bv m (B gp) v i * D i j) * Bv m (B gp) v' j := by
    intro j _
    rw [← wBtD_vecMul, Finset.sum_mul]
    apply Finset.sum_congr rfl; intro a _; ring
  rw [Finset.sum_congr rfl h2, Finset.sum_comm]
  apply Finset.sum_congr rfl; intro j _
  rw [Finset.mul_sum, Finset.sum_mul]
  apply Finset.sum_congr rfl; intro i _
  ring

theorem stiff_quad (ngp nst m : Nat) (w : α) (B : Nat → Nat → Nat → α) (D : Nat → Nat → α) (v : Nat → α) :
    ∑ a ∈ range m, ∑ b ∈ range m, v a * stiffFrom ngp nst (fun gp => wBtD nst w (B gp) D) B a b * v b
      = ∑ gp ∈ range ngp, w * quadForm nst D (Bv m (B gp) v) := stiff_bilin ngp nst m w B D v v

/-- symmetry of the element stiffness matrix from symmetry of `D` -/
theorem stiff_symm (ngp nst : Nat) (w : α) (B : Nat → Nat → Nat → α) (D : Nat → Nat → α)
    (hD : ∀ i j, D i j = D j i) (a b : Nat) :
    stiffFrom ngp nst (fun gp => wBtD nst w (B gp) D) B a b
      = stiffFrom ngp nst (fun gp => wBtD nst w (B gp) D) B b a := by
  unfold stiffFrom wBtD
  simp only [sumRange_eq, Finset.sum_mul]
  apply Finset.sum_congr rfl; intro gp _
  rw [Finset.sum_comm]
  apply Finset.sum_congr rfl; intro i _
  apply Finset.sum_congr rfl; intro j _
  rw [hD i j]; ring
end elalg


/-! ### Gram-type element matrices (mass, Poisson) -/
section gram
variable {α : Type} [CommRing α]

/-- `Σ_gp Σ_i (c F_gp[i][p]) F_gp[i][q]` : the shape of `w ρ Nmatᵀ Nmat` and `w k Bnᵀ Bn` -/
def gramFrom (ngp k : Nat) (c : α) (F : Nat → Nat → Nat → α) (p q : Nat) : α :=
  sumRange ngp (fun gp => sumRange k (fun i => (c * F gp i p) * F gp i q))

theorem massFrom_eq_gram (ngp ndof : Nat) (wrho : α) (N : Nat → Nat → α) :
    massFrom ngp ndof wrho N = gramFrom ngp ndof wrho (fun gp => nmat ndof (N gp)) := rfl

theorem poissonFrom_eq_gram (ngp dim : Nat) (wk : α) (dN : Nat → Nat → Nat → α) :
    poissonFrom ngp dim wk dN = gramFrom ngp dim wk dN := rfl

theorem gram_mulVec (ngp k m : Nat) (c : α) (F : Nat → Nat → Nat → α) (v : Nat → α) (p : Nat) :
    ∑ q ∈ range m, gramFrom ngp k c F p q * v q
      = ∑ gp ∈ range ngp, ∑ i ∈ range k, c * F gp i p * Bv m (F gp) v i := by
  unfold gramFrom Bv
  simp only [sumRange_eq, Finset.sum_mul, Finset.mul_sum]
  rw [Finset.sum_comm]
  apply Finset.sum_congr rfl; intro gp _
  rw [Finset.sum_comm]
  apply Finset.sum_congr rfl; intro i _
  apply Finset.sum_congr rfl; intro q _
  ring

theorem gram_bilin (ngp k m : Nat) (c : α) (F : Nat → Nat → Nat → α) (v v' : Nat → α) :
    ∑ p ∈ range m, ∑ q ∈ range m, v p * gramFrom ngp k c F p q * v' q
      = ∑ gp ∈ range ngp, ∑ i ∈ range k, c * Bv m (F gp) v i * Bv m (F gp) v' i := by
  have h1 : ∀ p ∈ range m, ∑ q ∈ range m, v p * gramFrom ngp k c F p q * v' q
      = v p * ∑ gp ∈ range ngp, ∑ i ∈ range k, c * F gp i p * Bv m (F gp) v' i := by
    intro p _
    rw [← gram_mulVec, Finset.mul_sum]
    apply Finset.sum_congr rfl; intro q _; ring
  rw [Finset.sum_congr rfl h1]
  simp only [Finset.mul_sum]
  rw [Finset.sum_comm]
  apply Finset.sum_congr rfl; intro gp _
  rw [Finset.sum_comm]
  apply Finset.sum_congr rfl; intro i _
  show _ = c * (∑ a ∈ range m, F gp i a * v a) * Bv m (F gp) v' i
  rw [Finset.mul_sum, Finset.sum_mul]
  apply Finset.sum_congr rfl; intro p _
  ring
end gram

/-! ### constitutive matrices -/
section constitutive
variable {α : Type} [Field α]

theorem getD_symm (E nu : α) (pm : PlaneMode) (i j : Nat) : getD E nu pm i j = getD E nu pm j i := by
  cases pm <;> simp only [getD, stressPattern] <;> split_ifs <;> first | rfl | (exfalso; omega)

theorem scaleD_symm (D : Nat → Nat → α) (t : α) (h : ∀ i j, D i j = D j i) (i j : Nat) :
    scaleD D t i j = scaleD D t j i := by
  unfold scaleD; rw [h i j]

theorem quadForm_scaleD (n : Nat) (D : Nat → Nat → α) (t : α) (ε : Nat → α) :
    quadForm n (scaleD D t) ε = t * quadForm n D ε := by
  unfold quadForm scaleD
  simp only [Finset.mul_sum]
  apply Finset.sum_congr rfl; intro i _
  apply Finset.sum_congr rfl; intro j _
  ring
end constitutive

section psd
variable {α : Type} [Field α] [LinearOrder α] [IsStrictOrderedRing α]

theorem mu_pos (E nu : α) (hE : 0 < E) (h1 : -1 < nu) : 0 < mu E nu := by
  unfold mu
  have : 0 < 2 * (1 + nu) := by linarith
  exact div_pos hE this

/-- `μ + λ = E / (2 (1+ν) (1-2ν))` -/
theorem mu_add_lam_pos (E nu : α) (hE : 0 < E) (h1 : -1 < nu) (h2 : nu < 1 / 2) : 0 < mu E nu + lam E nu := by
  have ha : 0 < 1 + nu := by linarith
  have hb : 0 < 1 - 2 * nu := by linarith
  have : mu E nu + lam E nu = E / (2 * (1 + nu) * (1 - 2 * nu)) := by
    unfold mu lam
    field_simp
    ring
  rw [this]
  positivity

/-- `2μ + 3λ = E / (1-2ν)` -/
theorem two_mu_add_three_lam_pos (E nu : α) (hE : 0 < E) (h1 : -1 < nu) (h2 : nu < 1 / 2) :
    0 < 2 * mu E nu + 3 * lam E nu := by
  have ha : 0 < 1 + nu := by linarith
  have hb : 0 < 1 - 2 * nu := by linarith
  have : 2 * mu E nu + 3 * lam E nu = E / (1 - 2 * nu) := by
    unfold mu lam
    field_simp
    ring
  rw [this]
  positivity

/-- plane strain `D` is positive semi-definite -/
theorem D_psd_strain (E nu : α) (hE : 0 < E) (h1 : -1 < nu) (h2 : nu < 1 / 2) (ε : Nat → α) :
    0 ≤ quadForm 3 (getD E nu .strain) ε := by
  have hm := mu_pos E nu hE h1
  have hml := mu_add_lam_pos E nu hE h1 h2
  have : quadForm 3 (getD E nu .strain) ε
      = mu E nu * (ε 0 - ε 1) ^ 2 + (mu E nu + lam E nu) * (ε 0 + ε 1) ^ 2 + mu E nu * ε 2 ^ 2 := by
    simp [quadForm, Finset.sum_range_succ, getD, c1]
    ring
  rw [this]
  positivity

/-- plane stress `D` is positive semi-definite (only `-1 < ν < 1` is needed) -/
theorem D_psd_stress (E nu : α) (hE : 0 < E) (h1 : -1 < nu) (h2 : nu < 1) (ε : Nat → α) :
    0 ≤ quadForm 3 (getD E nu .stress) ε := by
  have ha : 0 < 1 - nu * nu := by nlinarith
  have hp : 0 < 1 + nu := by linarith
  have hq : 0 < 1 - nu := by linarith
  have : quadForm 3 (getD E nu .stress) ε
      = (E / (1 - nu * nu)) * ((1 + nu) / 2 * (ε 0 + ε 1) ^ 2 + (1 - nu) / 2 * (ε 0 - ε 1) ^ 2
          + (1 - nu) / 2 * ε 2 ^ 2) := by
    simp [quadForm, Finset.sum_range_succ, getD, stressPattern]
    ring
  rw [this]
  positivity

/-- 3-D `D` is positive semi-definite -/
theorem D_psd_3d (E nu : α) (hE : 0 < E) (h1 : -1 < nu) (h2 : nu < 1 / 2) (ε : Nat → α) :
    0 ≤ quadForm 6 (getD E nu .d3) ε := by
  have hm := mu_pos E nu hE h1
  have hml := two_mu_add_three_lam_pos E nu hE h1 h2
  have : quadForm 6 (getD E nu .d3) ε
      = 2 * mu E nu / 3 * ((ε 0 - ε 1) ^ 2 + (ε 1 - ε 2) ^ 2 + (ε 2 - ε 0) ^ 2)
        + (2 * mu E nu + 3 * lam E nu) / 3 * (ε 0 + ε 1 + ε 2) ^ 2
        + mu E nu * (ε 3 ^ 2 + ε 4 ^ 2 + ε 5 ^ 2) := by
    simp [quadForm, Finset.sum_range_succ, getD, c1]
    ring
  rw [this]
  positivity

/-- every constitutive matrix the file builds is positive semi-definite for admissible constants -/
theorem D_psd (E nu : α) (hE : 0 < E) (h1 : -1 < nu) (h2 : nu < 1 / 2) (pm : PlaneMode) (ε : Nat → α) :
    0 ≤ quadForm pm.nstrain (getD E nu pm) ε := by
  cases pm
  · exact D_psd_strain E nu hE h1 h2 ε
  · exact D_psd_stress E nu hE h1 (by linarith) ε
  · exact D_psd_3d E nu hE h1 h2 ε
end psd

end PymotoVerif.Assembly
