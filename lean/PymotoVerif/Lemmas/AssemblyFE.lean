/- helper lemmas for C08 / C12: dof connectivity bounds, affine nodal fields on the grid,
   `B·u` for affine fields (from the C13 shape-derivative theorems), constitutive matrices -/
import PymotoVerif.Lemmas.Assembly
import PymotoVerif.Props.C13
import Mathlib.Tactic.FieldSimp
import Mathlib.Tactic.LinearCombination
import Mathlib.Tactic.Positivity
import Mathlib.Algebra.Order.Field.Basic

namespace PymotoVerif.Assembly
open PymotoVerif PymotoVerif.Domain PymotoVerif.C13 Finset Dom

/-! ### connectivity bounds -/

theorem conn_lt_of_lt (d : Dom) {e l : Nat} (he : e < d.nel) (hl : l < d.elemnodes) : d.conn e l < d.nnodes := by
  obtain ⟨i, j, k, hi, hj, hk, rfl⟩ := elemNumber_surj d he
  exact conn_lt_nnodes d hi hj hk hl

theorem dofConn_lt (d : Dom) (ndof : Nat) {e c : Nat} (he : e < d.nel) (hc : c < d.elemnodes * ndof) :
    d.dofConn ndof e c < ndof * d.nnodes := by
  have hn : 0 < ndof := by
    rcases Nat.eq_zero_or_pos ndof with h | h
    · simp [h] at hc
    · exact h
  unfold dofConn
  have hl : c / ndof < d.elemnodes := (Nat.div_lt_iff_lt_mul hn).mpr hc
  have h1 := conn_lt_of_lt d he hl
  have h2 : c % ndof < ndof := Nat.mod_lt _ hn
  have := radix_lt h1 h2
  rwa [Nat.mul_comm d.nnodes ndof] at this

theorem elemnodes_2d (d : Dom) (h : d.nelz = 0) : d.elemnodes = 4 := by simp [elemnodes, dim, h]
theorem elemnodes_3d (d : Dom) (h : d.nelz ≠ 0) : d.elemnodes = 8 := by simp [elemnodes, dim, h]
theorem nz_2d (d : Dom) (h : d.nelz = 0) : d.nz = 1 := by simp [Dom.nz, h]
theorem nz_3d (d : Dom) (h : d.nelz ≠ 0) : d.nz = d.nelz := by unfold Dom.nz; omega

/-! ### local affine fields and `B·u` -/
section affine
set_option linter.unusedSectionVars false
set_option linter.unnecessarySeqFocus false
variable {α : Type} [Field α] [CharZero α]

/-- contraction of one derivative row with an affine nodal field (any number of nodes):
    only the completeness sums of the derivatives enter -/
theorem lin_contract2 (n : Nat) (dN cx cy : Nat → α) (xc yc g0 g1 t0 δx δy : α)
    (h0 : sumRange n dN = 0) (hx : sumRange n (fun l => dN l * cx l) = δx)
    (hy : sumRange n (fun l => dN l * cy l) = δy) :
    sumRange n (fun l => dN l * (g0 * (xc + cx l) + g1 * (yc + cy l) + t0)) = g0 * δx + g1 * δy := by
  rw [sumRange_eq] at *
  have : ∀ l ∈ range n, dN l * (g0 * (xc + cx l) + g1 * (yc + cy l) + t0)
      = (g0 * xc + g1 * yc + t0) * dN l + g0 * (dN l * cx l) + g1 * (dN l * cy l) := by
    intro l _; ring
  rw [Finset.sum_congr rfl this, Finset.sum_add_distrib, Finset.sum_add_distrib, ← Finset.mul_sum,
    ← Finset.mul_sum, ← Finset.mul_sum, h0, hx, hy]
  ring

theorem lin_contract3 (n : Nat) (dN cx cy cz : Nat → α) (xc yc zc g0 g1 g2 t0 δx δy δz : α)
    (h0 : sumRange n dN = 0) (hx : sumRange n (fun l => dN l * cx l) = δx)
    (hy : sumRange n (fun l => dN l * cy l) = δy) (hz : sumRange n (fun l => dN l * cz l) = δz) :
    sumRange n (fun l => dN l * (g0 * (xc + cx l) + g1 * (yc + cy l) + g2 * (zc + cz l) + t0))
      = g0 * δx + g1 * δy + g2 * δz := by
  rw [sumRange_eq] at *
  have : ∀ l ∈ range n, dN l * (g0 * (xc + cx l) + g1 * (yc + cy l) + g2 * (zc + cz l) + t0)
      = (g0 * xc + g1 * yc + g2 * zc + t0) * dN l + g0 * (dN l * cx l) + g1 * (dN l * cy l)
        + g2 * (dN l * cz l) := by
    intro l _; ring
  rw [Finset.sum_congr rfl this, Finset.sum_add_distrib, Finset.sum_add_distrib, Finset.sum_add_distrib,
    ← Finset.mul_sum, ← Finset.mul_sum, ← Finset.mul_sum, ← Finset.mul_sum, h0, hx, hy, hz]
  ring

/-- element-local nodal values of `u(X) = G X + t`: local dof `l*2 + c`, element centre `(xc, yc)` -/
def ueAff2 (sx sy xc yc : α) (G : Nat → Nat → α) (t : Nat → α) (col : Nat) : α :=
  G (col % 2) 0 * (xc + corner sx (col / 2) 0) + G (col % 2) 1 * (yc + corner sy (col / 2) 1) + t (col % 2)

def ueAff3 (sx sy sz xc yc zc : α) (G : Nat → Nat → α) (t : Nat → α) (col : Nat) : α :=
  G (col % 3) 0 * (xc + corner sx (col / 3) 0) + G (col % 3) 1 * (yc + corner sy (col / 3) 1)
    + G (col % 3) 2 * (zc + corner sz (col / 3) 2) + t (col % 3)

/-- engineering strain of the gradient `G`, 2-D order `[xx, yy, xy]` -/
def engStrain2 (G : Nat → Nat → α) (i : Nat) : α :=
  if i = 0 then G 0 0 else if i = 1 then G 1 1 else G 0 1 + G 1 0

/-- engineering strain of `G`, 3-D Voigt order `[xx, yy, zz, yz, zx, xy]` -/
def engStrain3 (G : Nat → Nat → α) (i : Nat) : α :=
  if i = 0 then G 0 0 else if i = 1 then G 1 1 else if i = 2 then G 2 2
  else if i = 3 then G 1 2 + G 2 1 else if i = 4 then G 0 2 + G 2 0 else G 0 1 + G 1 0

/-- `B·u` written per node, 2-D (pure re-indexing, any `dN`, any `u`) -/
theorem getB2_mulVec (dN : Nat → Nat → α) (u : Nat → α) (i : Nat) (hi : i < 3) :
    sumRange 8 (fun col => getB2 dN i col * u col)
      = if i = 0 then sumRange 4 (fun l => dN 0 l * u (l * 2))
        else if i = 1 then sumRange 4 (fun l => dN 1 l * u (l * 2 + 1))
        else sumRange 4 (fun l => dN 1 l * u (l * 2)) + sumRange 4 (fun l => dN 0 l * u (l * 2 + 1)) := by
  interval_cases i <;> simp [sumRange, getB2, bsel2] <;> ring

theorem ueAff2_at (sx sy xc yc : α) (G : Nat → Nat → α) (t : Nat → α) (l c : Nat) (hc : c < 2) :
    ueAff2 sx sy xc yc G t (l * 2 + c)
      = G c 0 * (xc + corner sx l 0) + G c 1 * (yc + corner sy l 1) + t c := by
  unfold ueAff2
  rw [radix_div hc, radix_mod hc]

/-- completeness sums of the 2-D shape derivatives, in the form used by `lin_contract2` -/
theorem der2_complete (sx sy px py : α) (hx : sx ≠ 0) (hy : sy ≠ 0) (a : Nat) (ha : a < 2) :
    sumRange 4 (fun l => shapeDer2 sx sy px py a l * corner sx l 0) = (if a = 0 then 1 else 0) ∧
    sumRange 4 (fun l => shapeDer2 sx sy px py a l * corner sy l 1) = (if a = 1 then 1 else 0) := by
  have h0 := shapeDer2_linear_complete sx sy px py hx hy (i := a) (j := 0) ha (by norm_num)
  have h1 := shapeDer2_linear_complete sx sy px py hx hy (i := a) (j := 1) ha (by norm_num)
  simp only [if_true] at h0
  simp only [one_ne_zero, if_false] at h1
  exact ⟨h0, h1⟩

/-- one derivative row against component `c` of a local affine field: `Σ_l ∂ₐN_l · u_c(X_l) = G c a` -/
theorem der2_affine (sx sy px py xc yc : α) (hx : sx ≠ 0) (hy : sy ≠ 0) (G : Nat → Nat → α) (t : Nat → α)
    (a c : Nat) (ha : a < 2) (hc : c < 2) :
    sumRange 4 (fun l => shapeDer2 sx sy px py a l * ueAff2 sx sy xc yc G t (l * 2 + c)) = G c a := by
  simp only [ueAff2_at sx sy xc yc G t _ c hc]
  obtain ⟨h1, h2⟩ := der2_complete sx sy px py hx hy a ha
  rw [lin_contract2 4 _ _ _ xc yc (G c 0) (G c 1) (t c) _ _ (shapeDer2_sum_zero sx sy px py a) h1 h2]
  interval_cases a <;> simp

/-- **`B(p)·u_e` is the engineering strain of `G` at EVERY point `p`** (2-D) -/
theorem B2_affine (sx sy px py xc yc : α) (hx : sx ≠ 0) (hy : sy ≠ 0) (G : Nat → Nat → α) (t : Nat → α)
    (i : Nat) (hi : i < 3) :
    sumRange 8 (fun col => getB2 (shapeDer2 sx sy px py) i col * ueAff2 sx sy xc yc G t col)
      = engStrain2 G i := by
  rw [getB2_mulVec _ _ i hi]
  have e0 : ∀ l, ueAff2 sx sy xc yc G t (l * 2) = ueAff2 sx sy xc yc G t (l * 2 + 0) := fun l => rfl
  simp only [e0, der2_affine sx sy px py xc yc hx hy G t _ _ (by norm_num : (0:Nat) < 2) (by norm_num : (0:Nat) < 2),
    der2_affine sx sy px py xc yc hx hy G t _ _ (by norm_num : (1:Nat) < 2) (by norm_num : (1:Nat) < 2),
    der2_affine sx sy px py xc yc hx hy G t _ _ (by norm_num : (1:Nat) < 2) (by norm_num : (0:Nat) < 2),
    der2_affine sx sy px py xc yc hx hy G t _ _ (by norm_num : (0:Nat) < 2) (by norm_num : (1:Nat) < 2)]
  unfold engStrain2
  interval_cases i <;> simp

/-! #### 3-D -/

/-- `B·u` written per node, 3-D Voigt order (pure re-indexing) -/
theorem getB3_mulVec (dN : Nat → Nat → α) (u : Nat → α) (i : Nat) (hi : i < 6) :
    sumRange 24 (fun col => getB3 true dN i col * u col)
      = if i = 0 then sumRange 8 (fun l => dN 0 l * u (l * 3 + 0))
        else if i = 1 then sumRange 8 (fun l => dN 1 l * u (l * 3 + 1))
        else if i = 2 then sumRange 8 (fun l => dN 2 l * u (l * 3 + 2))
        else if i = 3 then sumRange 8 (fun l => dN 2 l * u (l * 3 + 1)) + sumRange 8 (fun l => dN 1 l * u (l * 3 + 2))
        else if i = 4 then sumRange 8 (fun l => dN 2 l * u (l * 3 + 0)) + sumRange 8 (fun l => dN 0 l * u (l * 3 + 2))
        else sumRange 8 (fun l => dN 1 l * u (l * 3 + 0)) + sumRange 8 (fun l => dN 0 l * u (l * 3 + 1)) := by
  interval_cases i <;> simp [sumRange, getB3, bsel3, voigtRow] <;> ring

theorem ueAff3_at (sx sy sz xc yc zc : α) (G : Nat → Nat → α) (t : Nat → α) (l c : Nat) (hc : c < 3) :
    ueAff3 sx sy sz xc yc zc G t (l * 3 + c)
      = G c 0 * (xc + corner sx l 0) + G c 1 * (yc + corner sy l 1) + G c 2 * (zc + corner sz l 2) + t c := by
  unfold ueAff3
  rw [radix_div hc, radix_mod hc]

theorem der3_complete (sx sy sz px py pz : α) (hx : sx ≠ 0) (hy : sy ≠ 0) (hz : sz ≠ 0) (a : Nat) (ha : a < 3) :
    sumRange 8 (fun l => shapeDer3 sx sy sz px py pz a l * corner sx l 0) = (if a = 0 then 1 else 0) ∧
    sumRange 8 (fun l => shapeDer3 sx sy sz px py pz a l * corner sy l 1) = (if a = 1 then 1 else 0) ∧
    sumRange 8 (fun l => shapeDer3 sx sy sz px py pz a l * corner sz l 2) = (if a = 2 then 1 else 0) := by
  have h0 := shapeDer3_linear_complete sx sy sz px py pz hx hy hz (i := a) (j := 0) ha (by norm_num)
  have h1 := shapeDer3_linear_complete sx sy sz px py pz hx hy hz (i := a) (j := 1) ha (by norm_num)
  have h2 := shapeDer3_linear_complete sx sy sz px py pz hx hy hz (i := a) (j := 2) ha (by norm_num)
  simp only [if_true] at h0
  simp only [one_ne_zero, if_false, if_true] at h1
  norm_num at h2
  exact ⟨h0, h1, h2⟩

theorem der3_affine (sx sy sz px py pz xc yc zc : α) (hx : sx ≠ 0) (hy : sy ≠ 0) (hz : sz ≠ 0)
    (G : Nat → Nat → α) (t : Nat → α) (a c : Nat) (ha : a < 3) (hc : c < 3) :
    sumRange 8 (fun l => shapeDer3 sx sy sz px py pz a l * ueAff3 sx sy sz xc yc zc G t (l * 3 + c)) = G c a := by
  simp only [ueAff3_at sx sy sz xc yc zc G t _ c hc]
  obtain ⟨h1, h2, h3⟩ := der3_complete sx sy sz px py pz hx hy hz a ha
  rw [lin_contract3 8 _ _ _ _ xc yc zc (G c 0) (G c 1) (G c 2) (t c) _ _ _
    (shapeDer3_sum_zero sx sy sz px py pz a) h1 h2 h3]
  interval_cases a <;> simp

/-- **`B(p)·u_e` is the engineering strain of `G` at EVERY point `p`** (3-D, Voigt order) -/
theorem B3_affine (sx sy sz px py pz xc yc zc : α) (hx : sx ≠ 0) (hy : sy ≠ 0) (hz : sz ≠ 0)
    (G : Nat → Nat → α) (t : Nat → α) (i : Nat) (hi : i < 6) :
    sumRange 24 (fun col => getB3 true (shapeDer3 sx sy sz px py pz) i col * ueAff3 sx sy sz xc yc zc G t col)
      = engStrain3 G i := by
  rw [getB3_mulVec _ _ i hi]
  have d := fun a c (ha : a < 3) (hc : c < 3) => der3_affine sx sy sz px py pz xc yc zc hx hy hz G t a c ha hc
  simp only [d 0 0 (by norm_num) (by norm_num), d 1 1 (by norm_num) (by norm_num), d 2 2 (by norm_num) (by norm_num),
    d 2 1 (by norm_num) (by norm_num), d 1 2 (by norm_num) (by norm_num), d 2 0 (by norm_num) (by norm_num),
    d 0 2 (by norm_num) (by norm_num), d 1 0 (by norm_num) (by norm_num), d 0 1 (by norm_num) (by norm_num)]
  unfold engStrain3
  interval_cases i <;> simp
end affine


/-! ### affine nodal fields on the grid and their element gathers -/
section gather
set_option linter.unusedSectionVars false
variable {α : Type} [Field α] [CharZero α]

/-- global nodal vector of `u(X) = G X + t` on a 2-D grid (`X` = `get_node_position`), dof `node*2 + comp` -/
def affineNodal2 (d : Dom) (sx sy : α) (G : Nat → Nat → α) (t : Nat → α) (q : Nat) : α :=
  G (q % 2) 0 * (sx * (d.nodeI (q / 2) : α)) + G (q % 2) 1 * (sy * (d.nodeJ (q / 2) : α)) + t (q % 2)

/-- the same in 3-D, dof `node*3 + comp` -/
def affineNodal3 (d : Dom) (sx sy sz : α) (G : Nat → Nat → α) (t : Nat → α) (q : Nat) : α :=
  G (q % 3) 0 * (sx * (d.nodeI (q / 3) : α)) + G (q % 3) 1 * (sy * (d.nodeJ (q / 3) : α))
    + G (q % 3) 2 * (sz * (d.nodeK (q / 3) : α)) + t (q % 3)

/-- position of grid index `i + bit` relative to the element centre -/
theorem pos_corner (s : α) (i l a : Nat) :
    s * ((i + nbit l a : Nat) : α) = s * ((i : α) + 1 / 2) + corner s l a := by
  unfold corner sgn
  rcases Nat.lt_succ_iff.mp (nbit_lt l a) with h
  have : nbit l a = 0 ∨ nbit l a = 1 := by omega
  rcases this with h | h
  · simp [h]; ring
  · simp [h]; ring

theorem gather_affine2 (d : Dom) (sx sy : α) {i j : Nat} (hi : i < d.nelx) (hj : j < d.nely)
    (G : Nat → Nat → α) (t : Nat → α) (col : Nat) :
    affineNodal2 d sx sy G t (d.dofConn 2 (d.elemNumber i j 0) col)
      = ueAff2 sx sy (sx * ((i : α) + 1 / 2)) (sy * ((j : α) + 1 / 2)) G t col := by
  have hk : 0 < d.nz := nz_pos d
  have hc : col % 2 < 2 := Nat.mod_lt _ (by norm_num)
  unfold affineNodal2 ueAff2 dofConn
  rw [conn_corner d hi hj hk, radix_div hc, radix_mod hc]
  have b0 := nbit_le (col / 2) 0
  have b1 := nbit_le (col / 2) 1
  obtain ⟨e1, e2, _⟩ := nodeIndices_nodeNumber d (i := i + nbit (col / 2) 0) (j := j + nbit (col / 2) 1)
    (k := 0 + nbit (col / 2) 2) (by omega) (by omega)
  rw [e1, e2, pos_corner, pos_corner]

theorem gather_affine3 (d : Dom) (hz : d.nelz ≠ 0) (sx sy sz : α) {i j k : Nat} (hi : i < d.nelx) (hj : j < d.nely)
    (hk : k < d.nelz) (G : Nat → Nat → α) (t : Nat → α) (col : Nat) :
    affineNodal3 d sx sy sz G t (d.dofConn 3 (d.elemNumber i j k) col)
      = ueAff3 sx sy sz (sx * ((i : α) + 1 / 2)) (sy * ((j : α) + 1 / 2)) (sz * ((k : α) + 1 / 2)) G t col := by
  have hk' : k < d.nz := by rw [nz_3d d hz]; exact hk
  have hc : col % 3 < 3 := Nat.mod_lt _ (by norm_num)
  unfold affineNodal3 ueAff3 dofConn
  rw [conn_corner d hi hj hk', radix_div hc, radix_mod hc]
  have b0 := nbit_le (col / 3) 0
  have b1 := nbit_le (col / 3) 1
  obtain ⟨e1, e2, e3⟩ := nodeIndices_nodeNumber d (i := i + nbit (col / 3) 0) (j := j + nbit (col / 3) 1)
    (k := k + nbit (col / 3) 2) (by omega) (by omega)
  rw [e1, e2, e3, pos_corner, pos_corner, pos_corner]
end gather

end PymotoVerif.Assembly
