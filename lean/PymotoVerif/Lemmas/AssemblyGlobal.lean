/- helper lemmas for C08 / C12: global (assembled) statements built from the element algebra -/
import PymotoVerif.Lemmas.AssemblyEl

namespace PymotoVerif.Assembly
open PymotoVerif PymotoVerif.Domain PymotoVerif.C13 Finset Dom

section global
variable {α : Type} [CommRing α]

theorem assemble_plain (nel m : Nat) (dc : Nat → Nat → Nat) (elmat : Nat → Nat → α) (x : Nat → α) (bcd : α) :
    assemble nel m dc elmat x none bcd none = scatterSum nel m dc elmat x := by
  funext r c
  simp [assemble, cooDense_none]

/-- `uᵀ A v` of the plain assembled matrix = element-wise bilinear forms of the gathered vectors -/
theorem assemble_bilin (nel m n : Nat) (dc : Nat → Nat → Nat) (hdc : ∀ e b, e < nel → b < m → dc e b < n)
    (elmat : Nat → Nat → α) (x : Nat → α) (bcd : α) (u v : Nat → α) :
    ∑ r ∈ range n, ∑ c ∈ range n, u r * assemble nel m dc elmat x none bcd none r c * v c
      = ∑ e ∈ range nel, x e * ∑ a ∈ range m, ∑ b ∈ range m, u (dc e a) * elmat a b * v (dc e b) := by
  rw [assemble_plain, ← scatterSum_bilin nel m n dc hdc elmat x u v]
  apply Finset.sum_congr rfl; intro r _
  rw [Finset.mul_sum]
  apply Finset.sum_congr rfl; intro c _
  ring

/-- `(A v)_r` of the plain assembled matrix -/
theorem assemble_mulVec (nel m n : Nat) (dc : Nat → Nat → Nat) (hdc : ∀ e b, e < nel → b < m → dc e b < n)
    (elmat : Nat → Nat → α) (x : Nat → α) (bcd : α) (v : Nat → α) (r : Nat) :
    ∑ c ∈ range n, assemble nel m dc elmat x none bcd none r c * v c
      = ∑ e ∈ range nel, ∑ a ∈ range m,
          if dc e a = r then (∑ b ∈ range m, elmat a b * v (dc e b)) * x e else 0 := by
  rw [assemble_plain, scatterSum_mulVec nel m n dc hdc]

/-- energy of the assembled stiffness matrix: `uᵀ K u = Σ_e x_e Σ_gp w ε_gpᵀ D ε_gp`, `ε_gp = B_gp u_e` -/
theorem assemble_stiff_energy (nel m n ngp nst : Nat) (dc : Nat → Nat → Nat)
    (hdc : ∀ e b, e < nel → b < m → dc e b < n) (w : α) (B : Nat → Nat → Nat → α) (D : Nat → Nat → α)
    (x : Nat → α) (bcd : α) (u : Nat → α) :
    ∑ r ∈ range n, ∑ c ∈ range n,
        u r * assemble nel m dc (stiffFrom ngp nst (fun gp => wBtD nst w (B gp) D) B) x none bcd none r c * u c
      = ∑ e ∈ range nel, x e * ∑ gp ∈ range ngp, w * quadForm nst D (Bv m (B gp) (fun a => u (dc e a))) := by
  rw [assemble_bilin nel m n dc hdc]
  apply Finset.sum_congr rfl; intro e _
  rw [stiff_quad ngp nst m w B D (fun a => u (dc e a))]

/-- a field whose strain vanishes at every integration point of every element is in the null space -/
theorem assemble_stiff_null (nel m n ngp nst : Nat) (dc : Nat → Nat → Nat)
    (hdc : ∀ e b, e < nel → b < m → dc e b < n) (w : α) (B : Nat → Nat → Nat → α) (D : Nat → Nat → α)
    (x : Nat → α) (bcd : α) (u : Nat → α)
    (hB : ∀ e, e < nel → ∀ gp, gp < ngp → ∀ j, j < nst → Bv m (B gp) (fun a => u (dc e a)) j = 0) (r : Nat) :
    ∑ c ∈ range n,
        assemble nel m dc (stiffFrom ngp nst (fun gp => wBtD nst w (B gp) D) B) x none bcd none r c * u c = 0 := by
  rw [assemble_mulVec nel m n dc hdc]
  apply Finset.sum_eq_zero; intro e he
  apply Finset.sum_eq_zero; intro a _
  split
  · rw [stiffFrom_mulVec ngp nst m _ B (fun b => u (dc e b)) a]
    have : ∑ gp ∈ range ngp, ∑ j ∈ range nst, wBtD nst w (B gp) D a j * Bv m (B gp) (fun b => u (dc e b)) j = 0 := by
      apply Finset.sum_eq_zero; intro gp hgp
      apply Finset.sum_eq_zero; intro j hj
      rw [hB e (Finset.mem_range.mp he) gp (Finset.mem_range.mp hgp) j (Finset.mem_range.mp hj)]
      ring
    rw [this]; ring
  · rfl
end global

/-! ### strain of a global affine nodal field in every element, at every point -/
section meshstrain
set_option linter.unusedSectionVars false
variable {α : Type} [Field α] [CharZero α]

theorem mesh_strain2 (d : Dom) (hz : d.nelz = 0) (sx sy px py : α) (hx : sx ≠ 0) (hy : sy ≠ 0)
    (G : Nat → Nat → α) (t : Nat → α) {e : Nat} (he : e < d.nel) (i : Nat) (hi : i < 3) :
    Bv 8 (getB2 (shapeDer2 sx sy px py)) (fun a => affineNodal2 d sx sy G t (d.dofConn 2 e a)) i
      = engStrain2 G i := by
  obtain ⟨ii, jj, kk, hii, hjj, hkk, rfl⟩ := elemNumber_surj d he
  have hk0 : kk = 0 := by rw [nz_2d d hz] at hkk; omega
  subst hk0
  unfold Bv
  simp only [gather_affine2 d sx sy hii hjj G t]
  rw [← sumRange_eq]
  exact B2_affine sx sy px py _ _ hx hy G t i hi

theorem mesh_strain3 (d : Dom) (hz : d.nelz ≠ 0) (sx sy sz px py pz : α) (hx : sx ≠ 0) (hy : sy ≠ 0) (hsz : sz ≠ 0)
    (G : Nat → Nat → α) (t : Nat → α) {e : Nat} (he : e < d.nel) (i : Nat) (hi : i < 6) :
    Bv 24 (getB3 true (shapeDer3 sx sy sz px py pz)) (fun a => affineNodal3 d sx sy sz G t (d.dofConn 3 e a)) i
      = engStrain3 G i := by
  obtain ⟨ii, jj, kk, hii, hjj, hkk, rfl⟩ := elemNumber_surj d he
  rw [nz_3d d hz] at hkk
  unfold Bv
  simp only [gather_affine3 d hz sx sy sz hii hjj hkk G t]
  rw [← sumRange_eq]
  exact B3_affine sx sy sz px py pz _ _ _ hx hy hsz G t i hi
end meshstrain


/-! ### mass: direction indicators -/
section mass
variable {α : Type} [CommRing α]

/-- `1_dd` : ones on the dofs of direction `dd` (dof = node*ndof + direction) -/
def dirInd (ndof dd : Nat) (q : Nat) : α := if q % ndof = dd then 1 else 0

theorem dirInd_gather (d : Dom) (ndof dd e p : Nat) (hn : 0 < ndof) :
    (dirInd ndof dd (d.dofConn ndof e p) : α) = dirInd ndof dd p := by
  unfold dirInd dofConn
  rw [radix_mod (Nat.mod_lt _ hn)]

/-- `Nmat · 1_dd = [i = dd] Σ_l N_l` -/
theorem nmat_dirInd (en ndof dd i : Nat) (hdd : dd < ndof) (N : Nat → α) :
    Bv (en * ndof) (nmat ndof N) (dirInd ndof dd) i = if i = dd then ∑ l ∈ range en, N l else 0 := by
  unfold Bv
  rw [sum_range_mul]
  have h : ∀ l ∈ range en, ∑ c ∈ range ndof, nmat ndof N i (l * ndof + c) * dirInd ndof dd (l * ndof + c)
      = if i = dd then N l else 0 := by
    intro l _
    have h2 : ∀ c ∈ range ndof, nmat ndof N i (l * ndof + c) * dirInd ndof dd (l * ndof + c)
        = if c = dd then (if i = dd then N l else 0) else 0 := by
      intro c hc
      have hc' := Finset.mem_range.mp hc
      unfold nmat dirInd
      rw [radix_mod hc', radix_div hc']
      by_cases h1 : c = dd
      · subst h1; by_cases h3 : i = c <;> simp [h3]
      · simp [h1]
    rw [Finset.sum_congr rfl h2, Finset.sum_ite_eq']
    simp [hdd]
  rw [Finset.sum_congr rfl h]
  split
  · rfl
  · simp

/-- `1_ddᵀ M_e 1_ee` for the Gauss sum as coded, when the shape functions sum to one at every point -/
theorem mass_elem_dir (ngp en ndof dd ee : Nat) (hdd : dd < ndof) (hee : ee < ndof) (wrho : α)
    (N : Nat → Nat → α) (hN : ∀ gp, gp < ngp → ∑ l ∈ range en, N gp l = 1) :
    ∑ p ∈ range (en * ndof), ∑ q ∈ range (en * ndof),
        dirInd ndof dd p * massFrom ngp ndof wrho N p q * dirInd ndof ee q
      = if dd = ee then (ngp : α) * wrho else 0 := by
  rw [massFrom_eq_gram, gram_bilin]
  have h : ∀ gp ∈ range ngp, ∑ i ∈ range ndof,
      wrho * Bv (en * ndof) (nmat ndof (N gp)) (dirInd ndof dd) i * Bv (en * ndof) (nmat ndof (N gp)) (dirInd ndof ee) i
      = if dd = ee then wrho else 0 := by
    intro gp hgp
    simp only [nmat_dirInd en ndof dd _ hdd, nmat_dirInd en ndof ee _ hee, hN gp (Finset.mem_range.mp hgp)]
    by_cases hde : dd = ee
    · subst hde
      simp only [if_true]
      have : ∀ i ∈ range ndof, wrho * (if i = dd then (1 : α) else 0) * (if i = dd then (1 : α) else 0)
          = if i = dd then wrho else 0 := by
        intro i _; by_cases h : i = dd <;> simp [h]
      rw [Finset.sum_congr rfl this, Finset.sum_ite_eq']
      simp [hdd]
    · simp only [hde, if_false]
      apply Finset.sum_eq_zero; intro i _
      by_cases h1 : i = dd
      · have : i ≠ ee := fun h => hde (h1 ▸ h)
        simp [this]
      · simp [h1]
  rw [Finset.sum_congr rfl h]
  split
  · simp
  · simp
end mass


/-! ### scalar affine nodal fields (one dof per node) -/
section scalar
set_option linter.unusedSectionVars false
variable {α : Type} [Field α] [CharZero α]

/-- nodal vector of `f(X) = a·X + b` on a 2-D / 3-D grid, one dof per node -/
def affineScalar2 (d : Dom) (sx sy : α) (a : Nat → α) (b : α) (n : Nat) : α :=
  a 0 * (sx * (d.nodeI n : α)) + a 1 * (sy * (d.nodeJ n : α)) + b
def affineScalar3 (d : Dom) (sx sy sz : α) (a : Nat → α) (b : α) (n : Nat) : α :=
  a 0 * (sx * (d.nodeI n : α)) + a 1 * (sy * (d.nodeJ n : α)) + a 2 * (sz * (d.nodeK n : α)) + b

theorem gather_scalar2 (d : Dom) (sx sy : α) {i j : Nat} (hi : i < d.nelx) (hj : j < d.nely)
    (a : Nat → α) (b : α) (l : Nat) :
    affineScalar2 d sx sy a b (d.dofConn 1 (d.elemNumber i j 0) l)
      = a 0 * (sx * ((i : α) + 1 / 2) + corner sx l 0) + a 1 * (sy * ((j : α) + 1 / 2) + corner sy l 1) + b := by
  have hk : 0 < d.nz := nz_pos d
  unfold affineScalar2 dofConn
  rw [conn_corner d hi hj hk]
  simp only [Nat.div_one, Nat.mod_one, Nat.mul_one, Nat.add_zero]
  have b0 := nbit_le l 0
  have b1 := nbit_le l 1
  obtain ⟨e1, e2, _⟩ := nodeIndices_nodeNumber d (i := i + nbit l 0) (j := j + nbit l 1)
    (k := 0 + nbit l 2) (by omega) (by omega)
  rw [e1, e2, pos_corner, pos_corner]

theorem gather_scalar3 (d : Dom) (hz : d.nelz ≠ 0) (sx sy sz : α) {i j k : Nat} (hi : i < d.nelx) (hj : j < d.nely)
    (hk : k < d.nelz) (a : Nat → α) (b : α) (l : Nat) :
    affineScalar3 d sx sy sz a b (d.dofConn 1 (d.elemNumber i j k) l)
      = a 0 * (sx * ((i : α) + 1 / 2) + corner sx l 0) + a 1 * (sy * ((j : α) + 1 / 2) + corner sy l 1)
        + a 2 * (sz * ((k : α) + 1 / 2) + corner sz l 2) + b := by
  have hk' : k < d.nz := by rw [nz_3d d hz]; exact hk
  unfold affineScalar3 dofConn
  rw [conn_corner d hi hj hk']
  simp only [Nat.div_one, Nat.mod_one, Nat.mul_one, Nat.add_zero]
  have b0 := nbit_le l 0
  have b1 := nbit_le l 1
  obtain ⟨e1, e2, e3⟩ := nodeIndices_nodeNumber d (i := i + nbit l 0) (j := j + nbit l 1)
    (k := k + nbit l 2) (by omega) (by omega)
  rw [e1, e2, e3, pos_corner, pos_corner, pos_corner]

/-- gradient of a scalar affine field in every element, at every point: `Σ_l ∂ᵢN_l f(X_l) = aᵢ` (2-D) -/
theorem mesh_grad2 (d : Dom) (hz : d.nelz = 0) (sx sy px py : α) (hx : sx ≠ 0) (hy : sy ≠ 0)
    (a : Nat → α) (b : α) {e : Nat} (he : e < d.nel) (i : Nat) (hi : i < 2) :
    Bv 4 (shapeDer2 sx sy px py) (fun l => affineScalar2 d sx sy a b (d.dofConn 1 e l)) i = a i := by
  obtain ⟨ii, jj, kk, hii, hjj, hkk, rfl⟩ := elemNumber_surj d he
  have hk0 : kk = 0 := by rw [nz_2d d hz] at hkk; omega
  subst hk0
  unfold Bv
  simp only [gather_scalar2 d sx sy hii hjj a b]
  rw [← sumRange_eq]
  obtain ⟨h1, h2⟩ := der2_complete sx sy px py hx hy i hi
  rw [lin_contract2 4 _ _ _ _ _ (a 0) (a 1) b _ _ (shapeDer2_sum_zero sx sy px py i) h1 h2]
  interval_cases i <;> simp

theorem mesh_grad3 (d : Dom) (hz : d.nelz ≠ 0) (sx sy sz px py pz : α) (hx : sx ≠ 0) (hy : sy ≠ 0) (hsz : sz ≠ 0)
    (a : Nat → α) (b : α) {e : Nat} (he : e < d.nel) (i : Nat) (hi : i < 3) :
    Bv 8 (shapeDer3 sx sy sz px py pz) (fun l => affineScalar3 d sx sy sz a b (d.dofConn 1 e l)) i = a i := by
  obtain ⟨ii, jj, kk, hii, hjj, hkk, rfl⟩ := elemNumber_surj d he
  rw [nz_3d d hz] at hkk
  unfold Bv
  simp only [gather_scalar3 d hz sx sy sz hii hjj hkk a b]
  rw [← sumRange_eq]
  obtain ⟨h1, h2, h3⟩ := der3_complete sx sy sz px py pz hx hy hsz i hi
  rw [lin_contract3 8 _ _ _ _ _ _ _ (a 0) (a 1) (a 2) b _ _ _ (shapeDer3_sum_zero sx sy sz px py pz i) h1 h2 h3]
  interval_cases i <;> simp
end scalar

/-! ### quadratic form with boundary conditions -/
section bcquad
set_option linter.unusedSectionVars false
set_option linter.unnecessarySeqFocus false
variable {α : Type} [Field α] [LinearOrder α] [IsStrictOrderedRing α]

theorem bcDiag_cons (a : Nat) (t : List Nat) (bcd : α) (r c : Nat) :
    bcDiag (a :: t) bcd r c = (if a = r ∧ a = c then bcd else 0) + bcDiag t bcd r c := by
  simp [bcDiag]

/-- the diagonal entries of the constrained dofs contribute `bcdiagval · u_b²` each -/
theorem bcDiag_quad_nonneg (n : Nat) (bc : List Nat) (bcd : α) (hb : 0 ≤ bcd) (u : Nat → α) :
    0 ≤ ∑ r ∈ range n, ∑ c ∈ range n, u r * bcDiag bc bcd r c * u c := by
  induction bc with
  | nil => simp [bcDiag]
  | cons a t ih =>
    have : ∑ r ∈ range n, ∑ c ∈ range n, u r * bcDiag (a :: t) bcd r c * u c
        = (∑ r ∈ range n, ∑ c ∈ range n, u r * (if a = r ∧ a = c then bcd else 0) * u c)
          + ∑ r ∈ range n, ∑ c ∈ range n, u r * bcDiag t bcd r c * u c := by
      rw [← Finset.sum_add_distrib]
      apply Finset.sum_congr rfl; intro r _
      rw [← Finset.sum_add_distrib]
      apply Finset.sum_congr rfl; intro c _
      rw [bcDiag_cons]; ring
    rw [this]
    apply add_nonneg _ ih
    apply Finset.sum_nonneg; intro r _
    apply Finset.sum_nonneg; intro c _
    by_cases h : a = r ∧ a = c
    · obtain ⟨h1, h2⟩ := h
      subst h1; subst h2
      simp only [and_self, if_true]
      have : u a * bcd * u a = bcd * (u a * u a) := by ring
      rw [this]
      exact mul_nonneg hb (mul_self_nonneg _)
    · simp [h]

/-- quadratic form of the assembled matrix with boundary conditions: masked vector through the plain
    matrix plus the bc diagonal -/
theorem assemble_bc_quad (nel m n : Nat) (dc : Nat → Nat → Nat) (elmat : Nat → Nat → α) (x : Nat → α)
    (bc : List Nat) (bcd : α) (u : Nat → α) :
    ∑ r ∈ range n, ∑ c ∈ range n, u r * assemble nel m dc elmat x (some bc) bcd none r c * u c
      = (∑ r ∈ range n, ∑ c ∈ range n, (if r ∈ bc then 0 else u r) * assemble nel m dc elmat x none bcd none r c
            * (if c ∈ bc then 0 else u c))
        + ∑ r ∈ range n, ∑ c ∈ range n, u r * bcDiag bc bcd r c * u c := by
  rw [← Finset.sum_add_distrib]
  apply Finset.sum_congr rfl; intro r _
  rw [← Finset.sum_add_distrib]
  apply Finset.sum_congr rfl; intro c _
  rw [assemble_plain]
  have : assemble nel m dc elmat x (some bc) bcd none r c
      = (if r ∈ bc ∨ c ∈ bc then 0 else scatterSum nel m dc elmat x r c) + bcDiag bc bcd r c := by
    simp [assemble, cooDense_some]
  rw [this]
  by_cases hr : r ∈ bc <;> by_cases hc : c ∈ bc <;> simp [hr, hc] <;> ring
end bcquad

end PymotoVerif.Assembly
