/- helper lemmas for C12: Strain (Gauss average, shear-row detection), Stress, element / nodal operators -/
import PymotoVerif.Lemmas.AssemblyGlobal
import Mathlib.Tactic.NormNum

namespace PymotoVerif.Assembly
open PymotoVerif PymotoVerif.Domain PymotoVerif.C13 Finset Dom

section ops
variable {α : Type} [CommRing α]

theorem elemOpApply_eq (dc : Nat → Nat → Nat) (K : Nat) (EM : Nat → Nat → α) (u : Nat → α) (r e : Nat) :
    elemOpApply dc K EM u r e = Bv K (EM) (fun k => u (dc e k)) r := by
  unfold elemOpApply Bv
  rw [sumRange_eq]

/-- the Gauss average commutes with the contraction -/
theorem Bv_strainBavg (ngp m : Nat) (w : α) (B : Nat → Nat → Nat → α) (v : Nat → α) (i : Nat) :
    Bv m (strainBavg ngp w B) v i = ∑ gp ∈ range ngp, w * Bv m (B gp) v i := by
  unfold Bv strainBavg
  simp only [sumRange_eq, Finset.sum_mul, Finset.mul_sum]
  rw [Finset.sum_comm]
  apply Finset.sum_congr rfl; intro gp _
  apply Finset.sum_congr rfl; intro a _
  ring

/-- `(D @ S) u = D (S u)` -/
theorem Bv_matMul (n m : Nat) (D S : Nat → Nat → α) (v : Nat → α) (i : Nat) :
    Bv m (matMul n D S) v i = ∑ j ∈ range n, D i j * Bv m S v j := by
  unfold Bv matMul
  simp only [sumRange_eq, Finset.sum_mul, Finset.mul_sum]
  rw [Finset.sum_comm]
  apply Finset.sum_congr rfl; intro j _
  apply Finset.sum_congr rfl; intro a _
  ring

/-- the doubling of a row doubles its contraction -/
theorem Bv_strainMat [DecidableEq α] (voigt : Bool) (en m : Nat) (Bavg : Nat → Nat → α) (v : Nat → α) (i : Nat) :
    Bv m (strainMat voigt en m Bavg) v i
      = if voigt && countNonzero m (Bavg i) == 2 * en then Bv m Bavg v i * 2 else Bv m Bavg v i := by
  unfold Bv strainMat
  split
  · rw [Finset.sum_mul]
    apply Finset.sum_congr rfl; intro a _; ring
  · rfl

/-- `<y, ElementOperation(u)> = <NodalOperation(y), u>` for one connectivity table -/
theorem nodal_elem_adjoint (nel n R K : Nat) (dc : Nat → Nat → Nat) (hdc : ∀ e k, e < nel → k < K → dc e k < n)
    (EM : Nat → Nat → α) (y : Nat → Nat → α) (u : Nat → α) :
    ∑ r ∈ range R, ∑ e ∈ range nel, y r e * elemOpApply dc K EM u r e
      = ∑ q ∈ range n, nodalOpApply nel dc R K EM y q * u q := by
  unfold nodalOpApply
  have hK : ∀ p, p < nel * K → dc (p / K) (p % K) < n := by
    intro p hp
    have hKpos : 0 < K := by
      rcases Nat.eq_zero_or_pos K with h | h
      · simp [h] at hp
      · exact h
    exact hdc _ _ ((Nat.div_lt_iff_lt_mul hKpos).mpr hp) (Nat.mod_lt _ hKpos)
  have := scatterAdd_adjoint_gather (nel * K) n (fun p => dc (p / K) (p % K)) hK
    (fun p => nodalEl R EM y (p / K) (p % K)) u
  simp only [sumRange_eq, gather] at this
  rw [← this, sum_range_mul]
  rw [Finset.sum_comm]
  apply Finset.sum_congr rfl; intro e _
  have hk : ∀ k ∈ range K, nodalEl R EM y ((e * K + k) / K) ((e * K + k) % K) * u (dc ((e * K + k) / K) ((e * K + k) % K))
      = ∑ r ∈ range R, y r e * (EM r k * u (dc e k)) := by
    intro k hk
    have hk' := Finset.mem_range.mp hk
    rw [radix_div hk', radix_mod hk']
    unfold nodalEl
    rw [sumRange_eq, Finset.sum_mul]
    apply Finset.sum_congr rfl; intro r _; ring
  rw [Finset.sum_congr rfl hk, Finset.sum_comm]
  apply Finset.sum_congr rfl; intro r _
  unfold elemOpApply
  rw [sumRange_eq, Finset.mul_sum]
end ops


/-! ### Strain: Gauss average in closed form, shear-row detection, output for affine fields -/
section strain
set_option linter.unusedSectionVars false
variable {α : Type} [Field α] [CharZero α]

theorem sgn_ne_zero (l a : Nat) : (sgn l a : α) ≠ 0 := by
  unfold sgn; split <;> norm_num

/-- Gauss average of the 2-D shape derivatives: `±1/(2 s_a)` -/
theorem avg_dN2 (sx sy g : α) (hsx : sx ≠ 0) (hsy : sy ≠ 0) (a l : Nat) (ha : a < 2) :
    sumRange 4 (fun gp => (1 / (2 * 2) : α) * dNg2 sx sy g gp a l)
      = sgn l a / (2 * (if a = 0 then sx else sy)) := by
  have e : ∀ gp ax : Nat, (sgn gp ax : α) = if nbit gp ax = 1 then 1 else -1 := fun _ _ => rfl
  interval_cases a
  · simp only [sumRange, dNg2, shapeDer2, gpos, fac, if_true, e 0 1, e 1 1, e 2 1, e 3 1, nbit]
    norm_num
    field_simp
    ring
  · simp only [sumRange, dNg2, shapeDer2, gpos, fac, one_ne_zero, if_false, e 0 0, e 1 0, e 2 0, e 3 0, nbit]
    norm_num
    field_simp
    ring

theorem avg_dN3 (sx sy sz g : α) (hsx : sx ≠ 0) (hsy : sy ≠ 0) (hsz : sz ≠ 0) (a l : Nat) (ha : a < 3) :
    sumRange 8 (fun gp => (1 / (2 * 2 * 2) : α) * dNg3 sx sy sz g gp a l)
      = sgn l a / (4 * (if a = 0 then sx else if a = 1 then sy else sz)) := by
  have e : ∀ gp ax : Nat, (sgn gp ax : α) = if nbit gp ax = 1 then 1 else -1 := fun _ _ => rfl
  interval_cases a
  · simp only [sumRange, dNg3, shapeDer3, gpos, fac, if_true, e 0 1, e 1 1, e 2 1, e 3 1, e 4 1, e 5 1, e 6 1, e 7 1,
      e 0 2, e 1 2, e 2 2, e 3 2, e 4 2, e 5 2, e 6 2, e 7 2, nbit]
    norm_num
    field_simp
    ring
  · simp only [sumRange, dNg3, shapeDer3, gpos, fac, one_ne_zero, if_false, if_true, e 0 0, e 1 0, e 2 0, e 3 0, e 4 0,
      e 5 0, e 6 0, e 7 0, e 0 2, e 1 2, e 2 2, e 3 2, e 4 2, e 5 2, e 6 2, e 7 2, nbit]
    norm_num
    field_simp
    ring
  · simp only [sumRange, dNg3, shapeDer3, gpos, fac, e 0 0, e 1 0, e 2 0, e 3 0, e 4 0,
      e 5 0, e 6 0, e 7 0, e 0 1, e 1 1, e 2 1, e 3 1, e 4 1, e 5 1, e 6 1, e 7 1, nbit]
    norm_num
    field_simp
    ring

theorem bsel2_lt {i c a : Nat} (h : bsel2 i c = some a) : a < 2 := by
  unfold bsel2 at h
  split at h <;> simp at h <;> omega

theorem bsel3_lt {i c a : Nat} (h : bsel3 i c = some a) : a < 3 := by
  unfold bsel3 at h
  split at h <;> simp at h <;> omega

/-- closed form of the Gauss-averaged `B` of `Strain`, 2-D -/
theorem Bavg2_closed (sx sy g : α) (hsx : sx ≠ 0) (hsy : sy ≠ 0) (i col : Nat) :
    strainBavg 4 (1 / (2 * 2)) (Bg2 sx sy g) i col
      = match bsel2 i (col % 2) with
        | some a => sgn (col / 2) a / (2 * (if a = 0 then sx else sy))
        | none => 0 := by
  unfold strainBavg Bg2 getB2
  cases h : bsel2 i (col % 2) with
  | none => simp [sumRange]
  | some a => exact avg_dN2 sx sy g hsx hsy a (col / 2) (bsel2_lt h)

theorem Bavg3_closed (sx sy sz g : α) (hsx : sx ≠ 0) (hsy : sy ≠ 0) (hsz : sz ≠ 0) (i col : Nat) :
    strainBavg 8 (1 / (2 * 2 * 2)) (Bg3 sx sy sz g) i col
      = match bsel3 i (col % 3) with
        | some a => sgn (col / 3) a / (4 * (if a = 0 then sx else if a = 1 then sy else sz))
        | none => 0 := by
  unfold strainBavg Bg3 getB3 voigtRow
  simp only [if_true]
  cases h : bsel3 i (col % 3) with
  | none => simp [sumRange]
  | some a => exact avg_dN3 sx sy sz g hsx hsy hsz a (col / 3) (bsel3_lt h)

/-- **shear-row detection as coded**: exactly the rows that combine two displacement components have
    `2·elemnodes` non-zero entries (2-D: row 2) -/
theorem count_rows2 [DecidableEq α] (sx sy g : α) (hsx : sx ≠ 0) (hsy : sy ≠ 0) (i : Nat) (hi : i < 3) :
    countNonzero 8 (strainBavg 4 (1 / (2 * 2)) (Bg2 sx sy g) i) = if i = 2 then 8 else 4 := by
  interval_cases i <;>
    simp only [countNonzero, sumRange, Bavg2_closed sx sy g hsx hsy] <;>
    simp [bsel2, sgn_ne_zero, hsx, hsy]

theorem count_rows3 [DecidableEq α] (sx sy sz g : α) (hsx : sx ≠ 0) (hsy : sy ≠ 0) (hsz : sz ≠ 0) (i : Nat) (hi : i < 6) :
    countNonzero 24 (strainBavg 8 (1 / (2 * 2 * 2)) (Bg3 sx sy sz g) i) = if i < 3 then 8 else 16 := by
  interval_cases i <;>
    simp only [countNonzero, sumRange, Bavg3_closed sx sy sz g hsx hsy hsz] <;>
    simp [bsel3, sgn_ne_zero, hsx, hsy, hsz]

/-- output of `Strain` (row `i`, element `e`) for the nodal values of `u(X) = G X + t`, AS CODED, 2-D -/
theorem strainOut2 [DecidableEq α] (d : Dom) (hz : d.nelz = 0) (voigt : Bool) (sx sy g : α) (hsx : sx ≠ 0) (hsy : sy ≠ 0)
    (G : Nat → Nat → α) (t : Nat → α) {e : Nat} (he : e < d.nel) (i : Nat) (hi : i < 3) :
    elemOpApply (d.dofConn 2) 8 (strainElem2 voigt sx sy g) (affineNodal2 d sx sy G t) i e
      = if voigt = true ∧ i = 2 then engStrain2 G i * 2 else engStrain2 G i := by
  have hB : Bv 8 (strainBavg 4 (1 / (2 * 2)) (Bg2 sx sy g)) (fun k => affineNodal2 d sx sy G t (d.dofConn 2 e k)) i
      = engStrain2 G i := by
    rw [Bv_strainBavg]
    have : ∀ gp ∈ range 4, (1 / (2 * 2) : α) * Bv 8 (Bg2 sx sy g gp) (fun k => affineNodal2 d sx sy G t (d.dofConn 2 e k)) i
        = (1 / (2 * 2) : α) * engStrain2 G i := by
      intro gp _
      rw [show Bg2 sx sy g gp = getB2 (shapeDer2 sx sy (gpos sx g gp 0) (gpos sy g gp 1)) from rfl,
        mesh_strain2 d hz sx sy _ _ hsx hsy G t he i hi]
    rw [Finset.sum_congr rfl this]
    simp only [Finset.sum_const, Finset.card_range, nsmul_eq_mul]
    push_cast; ring
  rw [elemOpApply_eq]
  unfold strainElem2
  rw [Bv_strainMat, hB, count_rows2 sx sy g hsx hsy i hi]
  cases voigt <;> interval_cases i <;> simp

/-- output of `Strain` for affine fields, AS CODED, 3-D (Voigt order `[xx,yy,zz,yz,zx,xy]`) -/
theorem strainOut3 [DecidableEq α] (d : Dom) (hz : d.nelz ≠ 0) (voigt : Bool) (sx sy sz g : α)
    (hsx : sx ≠ 0) (hsy : sy ≠ 0) (hsz : sz ≠ 0)
    (G : Nat → Nat → α) (t : Nat → α) {e : Nat} (he : e < d.nel) (i : Nat) (hi : i < 6) :
    elemOpApply (d.dofConn 3) 24 (strainElem3 voigt sx sy sz g) (affineNodal3 d sx sy sz G t) i e
      = if voigt = true ∧ 3 ≤ i then engStrain3 G i * 2 else engStrain3 G i := by
  have hB : Bv 24 (strainBavg 8 (1 / (2 * 2 * 2)) (Bg3 sx sy sz g))
      (fun k => affineNodal3 d sx sy sz G t (d.dofConn 3 e k)) i = engStrain3 G i := by
    rw [Bv_strainBavg]
    have : ∀ gp ∈ range 8, (1 / (2 * 2 * 2) : α) * Bv 24 (Bg3 sx sy sz g gp)
          (fun k => affineNodal3 d sx sy sz G t (d.dofConn 3 e k)) i
        = (1 / (2 * 2 * 2) : α) * engStrain3 G i := by
      intro gp _
      rw [show Bg3 sx sy sz g gp = getB3 true (shapeDer3 sx sy sz (gpos sx g gp 0) (gpos sy g gp 1) (gpos sz g gp 2))
        from rfl, mesh_strain3 d hz sx sy sz _ _ _ hsx hsy hsz G t he i hi]
    rw [Finset.sum_congr rfl this]
    simp only [Finset.sum_const, Finset.card_range, nsmul_eq_mul]
    push_cast; ring
  rw [elemOpApply_eq]
  unfold strainElem3
  rw [Bv_strainMat, hB, count_rows3 sx sy sz g hsx hsy hsz i hi]
  cases voigt <;> interval_cases i <;> simp
end strain


/-! ### thermal load -/
section thermo
variable {α : Type} [CommRing α]

/-- `NodalOperation` with a one-row element matrix, entry `q` -/
theorem nodalOpApply_one (nel K : Nat) (dc : Nat → Nat → Nat) (EM : Nat → Nat → α) (x : Nat → Nat → α) (q : Nat) :
    nodalOpApply nel dc 1 K EM x q
      = ∑ e ∈ range nel, ∑ a ∈ range K, if dc e a = q then EM 0 a * x 0 e else 0 := by
  unfold nodalOpApply scatterAdd
  rw [sumRange_eq, sum_range_mul]
  apply Finset.sum_congr rfl; intro e _
  apply Finset.sum_congr rfl; intro a ha
  have ha' := Finset.mem_range.mp ha
  simp only [radix_div ha', radix_mod ha']
  simp [nodalEl, sumRange]

/-- `EM_thermal · v = α Σ_gp w Σ_j (Σ_i (B v)_i D_ij) Φ_j` -/
theorem thermo_vecMul (ngp nst dim m : Nat) (w alpha : α) (B : Nat → Nat → Nat → α) (D : Nat → Nat → α) (v : Nat → α) :
    ∑ a ∈ range m, (alpha * thermoFrom ngp nst dim (fun gp => wBtD nst w (B gp) D) a) * v a
      = alpha * ∑ gp ∈ range ngp, ∑ j ∈ range nst, (w * ∑ i ∈ range nst, Bv m (B gp) v i * D i j) * phi dim j := by
  unfold thermoFrom
  simp only [sumRange_eq]
  have : ∀ a ∈ range m, (alpha * ∑ gp ∈ range ngp, ∑ j ∈ range nst, wBtD nst w (B gp) D a j * phi dim j) * v a
      = alpha * ∑ gp ∈ range ngp, ∑ j ∈ range nst, (v a * wBtD nst w (B gp) D a j) * phi dim j := by
    intro a _
    rw [mul_assoc, Finset.sum_mul]
    congr 1
    apply Finset.sum_congr rfl; intro gp _
    rw [Finset.sum_mul]
    apply Finset.sum_congr rfl; intro j _
    ring
  rw [Finset.sum_congr rfl this, ← Finset.mul_sum]
  congr 1
  rw [Finset.sum_comm]
  apply Finset.sum_congr rfl; intro gp _
  rw [Finset.sum_comm]
  apply Finset.sum_congr rfl; intro j _
  rw [← Finset.sum_mul, wBtD_vecMul]

/-- `K_e · u_e` when the strain of `u_e` is `α Φ` at every integration point: the thermal element load -/
theorem stiff_mulVec_thermal (ngp nst dim m : Nat) (w alpha : α) (B : Nat → Nat → Nat → α) (D : Nat → Nat → α)
    (v : Nat → α) (hv : ∀ gp, gp < ngp → ∀ j, j < nst → Bv m (B gp) v j = alpha * phi dim j) (a : Nat) :
    ∑ b ∈ range m, stiffFrom ngp nst (fun gp => wBtD nst w (B gp) D) B a b * v b
      = alpha * thermoFrom ngp nst dim (fun gp => wBtD nst w (B gp) D) a := by
  rw [stiffFrom_mulVec]
  unfold thermoFrom
  simp only [sumRange_eq, Finset.mul_sum]
  apply Finset.sum_congr rfl; intro gp hgp
  apply Finset.sum_congr rfl; intro j hj
  rw [hv gp (Finset.mem_range.mp hgp) j (Finset.mem_range.mp hj)]
  ring
end thermo

end PymotoVerif.Assembly
