/- Abstract reverse-mode kernel for C02 (port of the DESIGN.md A.3 prototype, generalised from a
   `Fintype` of entries to an arbitrary entry type with a finite universe `U`, so that it applies to
   the `Nat`-indexed store of `Core/Network.lean`). -/
import Mathlib.Algebra.BigOperators.Group.Finset.Basic
import Mathlib.Algebra.BigOperators.Ring.Finset
import Mathlib.Algebra.BigOperators.Pi
import Mathlib.Algebra.BigOperators.Intervals
import Mathlib.Tactic.Ring
import Mathlib.Tactic.Linarith

namespace PymotoVerif.Net
open Finset

/-- a linearised module: the entries it writes and its Jacobian `J o i` = ∂(entry o)/∂(entry i) -/
structure LMod (ι α : Type) [DecidableEq ι] where
  outs : Finset ι
  J : ι → ι → α

variable {ι : Type} [DecidableEq ι] {α : Type} [CommRing α]

/-- forward tangent step: the outputs are overwritten -/
def LMod.fwd (U : Finset ι) (m : LMod ι α) (T : ι → α) : ι → α :=
  fun e => if e ∈ m.outs then ∑ i ∈ U, m.J e i * T i else T e

/-- what `Module.sensitivity` does: add `Jᵀ·(output adjoints)` to the inputs, keep everything else
    (output sensitivities are NOT cleared) -/
def LMod.back (m : LMod ι α) (A : ι → α) : ι → α :=
  fun e => A e + ∑ o ∈ m.outs, m.J o e * A o

/-- the true transpose of `fwd` -/
def LMod.tr (m : LMod ι α) (A : ι → α) : ι → α :=
  fun e => (if e ∈ m.outs then 0 else A e) + ∑ o ∈ m.outs, m.J o e * A o

/-- `Network.response` on tangents: in order -/
def fwdChain (U : Finset ι) : List (LMod ι α) → (ι → α) → (ι → α)
  | [], T => T
  | m :: ms, T => fwdChain U ms (m.fwd U T)

/-- `Network.sensitivity`: reversed order -/
def backChain : List (LMod ι α) → (ι → α) → (ι → α)
  | [], A => A
  | m :: ms, A => m.back (backChain ms A)

/-- the transposed-Jacobian chain `F₁ᵀ ∘ … ∘ Fₖᵀ` -/
def trChain : List (LMod ι α) → (ι → α) → (ι → α)
  | [], A => A
  | m :: ms, A => m.tr (trChain ms A)

def pair (U : Finset ι) (A T : ι → α) : α := ∑ e ∈ U, A e * T e

/-- all entries written by some module of the list -/
def written : List (LMod ι α) → Finset ι
  | [] => ∅
  | m :: ms => m.outs ∪ written ms

/-- single assignment at entry granularity: no entry is written by two modules -/
def SSA : List (LMod ι α) → Prop
  | [] => True
  | m :: ms => Disjoint m.outs (written ms) ∧ SSA ms

theorem tr_adjoint (U : Finset ι) (m : LMod ι α) (hU : m.outs ⊆ U) (A T : ι → α) :
    pair U A (m.fwd U T) = pair U (m.tr A) T := by
  unfold pair LMod.fwd LMod.tr
  have hL : ∀ e, A e * (if e ∈ m.outs then ∑ i ∈ U, m.J e i * T i else T e)
      = (if e ∈ m.outs then 0 else A e * T e) + (if e ∈ m.outs then A e * ∑ i ∈ U, m.J e i * T i else 0) := by
    intro e; split_ifs <;> simp
  have hR : ∀ e, ((if e ∈ m.outs then 0 else A e) + ∑ o ∈ m.outs, m.J o e * A o) * T e
      = (if e ∈ m.outs then 0 else A e * T e) + ∑ o ∈ m.outs, m.J o e * A o * T e := by
    intro e; split_ifs <;> simp [add_mul, Finset.sum_mul]
  simp only [hL, hR, Finset.sum_add_distrib]
  congr 1
  rw [Finset.sum_ite_mem, Finset.inter_eq_right.mpr hU]
  simp only [Finset.mul_sum]
  rw [Finset.sum_comm]
  apply Finset.sum_congr rfl; intro i _
  apply Finset.sum_congr rfl; intro o _
  ring

omit [CommRing α] in
theorem written_subset (U : Finset ι) (ms : List (LMod ι α)) (hU : ∀ m ∈ ms, m.outs ⊆ U) :
    written ms ⊆ U := by
  induction ms with
  | nil => simp [written]
  | cons m ms ih =>
    simp only [written]
    exact Finset.union_subset (hU m (by simp)) (ih (fun m' hm' => hU m' (by simp [hm'])))

theorem fwdChain_adjoint (U : Finset ι) (ms : List (LMod ι α)) (hU : ∀ m ∈ ms, m.outs ⊆ U)
    (A T : ι → α) : pair U A (fwdChain U ms T) = pair U (trChain ms A) T := by
  induction ms generalizing T with
  | nil => rfl
  | cons m ms ih =>
    simp only [fwdChain, trChain]
    rw [ih (fun m' hm' => hU m' (by simp [hm'])), tr_adjoint U m (hU m (by simp))]

/-- The reverse sweep of the code equals the true transpose chain up to a term that lives only on
    written (non-source) entries. -/
theorem backChain_eq_trChain_add_junk (ms : List (LMod ι α)) (h : SSA ms) (A : ι → α) :
    ∃ junk : ι → α, (∀ e, e ∉ written ms → junk e = 0) ∧
      ∀ e, backChain ms A e = trChain ms A e + junk e := by
  induction ms with
  | nil => exact ⟨fun _ => 0, fun _ _ => rfl, fun e => by simp [backChain, trChain]⟩
  | cons m ms ih =>
    obtain ⟨hd, hs⟩ := h
    obtain ⟨junk, hj0, hj⟩ := ih hs
    refine ⟨fun e => (if e ∈ m.outs then trChain ms A e else 0) + junk e, ?_, ?_⟩
    · intro e he
      simp only [written, Finset.mem_union, not_or] at he
      simp [he.1, hj0 e he.2]
    · intro e
      have hjo : ∀ o ∈ m.outs, junk o = 0 := fun o ho =>
        hj0 o (fun hw => (Finset.disjoint_left.mp hd) ho hw)
      have hsum : ∑ o ∈ m.outs, m.J o e * backChain ms A o = ∑ o ∈ m.outs, m.J o e * trChain ms A o := by
        apply Finset.sum_congr rfl; intro o ho; rw [hj o, hjo o ho, add_zero]
      simp only [backChain, trChain, LMod.back, LMod.tr, hsum, hj e]
      split_ifs <;> ring

theorem backChain_source (ms : List (LMod ι α)) (h : SSA ms) (A : ι → α) (e : ι)
    (he : e ∉ written ms) : backChain ms A e = trChain ms A e := by
  obtain ⟨junk, hj0, hj⟩ := backChain_eq_trChain_add_junk ms h A
  rw [hj e, hj0 e he, add_zero]

theorem backChain_append (a b : List (LMod ι α)) (A : ι → α) :
    backChain (a ++ b) A = backChain a (backChain b A) := by
  induction a with
  | nil => rfl
  | cons m ms ih => simp only [List.cons_append, backChain, ih]

/-! ### matrices: the coefficient of a source entry is an entry of the product of local Jacobians -/

/-- the store transformer of a linearised module as a `U × U` matrix: rows of written entries are
    the Jacobian rows, all other rows are identity rows -/
def LMod.mat (m : LMod ι α) : ι → ι → α :=
  fun o i => if o ∈ m.outs then m.J o i else if o = i then 1 else 0

def mmul (U : Finset ι) (P Q : ι → ι → α) : ι → ι → α := fun o i => ∑ k ∈ U, P o k * Q k i

/-- `Fₖ · … · F₁` (the matrix of `fwdChain`) -/
def chainMat (U : Finset ι) : List (LMod ι α) → ι → ι → α
  | [] => fun o i => if o = i then 1 else 0
  | m :: ms => mmul U (chainMat U ms) m.mat

theorem tr_eq_mat (U : Finset ι) (m : LMod ι α) (hU : m.outs ⊆ U) (A : ι → α) (e : ι) (he : e ∈ U) :
    m.tr A e = ∑ o ∈ U, m.mat o e * A o := by
  unfold LMod.tr LMod.mat
  have h1 : ∀ o, (if o ∈ m.outs then m.J o e else if o = e then 1 else 0) * A o
      = (if o ∈ m.outs then m.J o e * A o else 0) + (if o = e then (if o ∈ m.outs then 0 else A o) else 0) := by
    intro o; split_ifs <;> simp
  simp only [h1, Finset.sum_add_distrib]
  rw [Finset.sum_ite_mem, Finset.inter_eq_right.mpr hU, Finset.sum_ite_eq' U e]
  simp only [he, if_true]
  ring

theorem trChain_eq_mat (U : Finset ι) (ms : List (LMod ι α)) (hU : ∀ m ∈ ms, m.outs ⊆ U)
    (A : ι → α) (e : ι) (he : e ∈ U) :
    trChain ms A e = ∑ o ∈ U, chainMat U ms o e * A o := by
  induction ms generalizing e with
  | nil =>
    simp only [trChain, chainMat, ite_mul, one_mul, zero_mul]
    rw [Finset.sum_ite_eq' U e]; simp [he]
  | cons m ms ih =>
    have hU' : ∀ m' ∈ ms, m'.outs ⊆ U := fun m' hm' => hU m' (by simp [hm'])
    simp only [trChain, chainMat, mmul]
    rw [tr_eq_mat U m (hU m (by simp)) _ e he]
    have : ∀ k ∈ U, m.mat k e * trChain ms A k = ∑ o ∈ U, chainMat U ms o k * m.mat k e * A o := by
      intro k hk
      rw [ih hU' k hk, Finset.mul_sum]
      apply Finset.sum_congr rfl; intro o _; ring
    rw [Finset.sum_congr rfl this, Finset.sum_comm]
    apply Finset.sum_congr rfl; intro o _
    rw [Finset.sum_mul]

end PymotoVerif.Net
