/- helper lemmas for `Core/DesignVec.lean`: frozen arrays, numpy min/max/clip over a linear order,
   concatenate / split / write-back as list surgery -/
import PymotoVerif.Core.DesignVec
import PymotoVerif.Lemmas.Sum
import Mathlib.Data.List.Basic
import Mathlib.Order.Lattice
import Mathlib.Order.MinMax
import Mathlib.Tactic.Linarith

namespace PymotoVerif.DV
open PymotoVerif

/-! ## arrays as vectors -/

theorem ofArr_freeze {α} [OfNat α 0] (n : Nat) (f : Nat → α) (i : Nat) (hi : i < n) :
    ofArr (freeze n f) i = f i := by
  simp [ofArr, freeze, Array.getD, hi]

theorem freeze_size {α} (n : Nat) (f : Nat → α) : (freeze n f).size = n := by
  simp [freeze]

theorem ofList_toList {α} [OfNat α 0] (a : Array α) : ofList a.toList = ofArr a := by
  funext i
  simp only [ofList, ofArr, List.getD_eq_getElem?_getD, Array.getElem?_toList, Array.getD_eq_getD_getElem?]

theorem ofArr_toArray {α} [OfNat α 0] (l : List α) : ofArr l.toArray = ofList l := by
  rw [← ofList_toList]

theorem sumRange_congr {α} [Add α] [OfNat α 0] (n : Nat) (f g : Nat → α) (h : ∀ i, i < n → f i = g i) :
    sumRange n f = sumRange n g := by
  induction n with
  | zero => rfl
  | succ n ih =>
    rw [sumRange, sumRange, ih (fun i hi => h i (by omega)), h n (by omega)]

/-! ## `np.maximum`, `np.minimum`, `np.clip` -/
section Ord
variable {α : Type} [LinearOrder α]

theorem vmax_eq (a b : α) : vmax a b = max a b := by
  unfold vmax; split_ifs with h
  · exact (max_eq_right h.le).symm
  · exact (max_eq_left (not_lt.mp h)).symm

theorem vmin_eq (a b : α) : vmin a b = min a b := by
  unfold vmin; split_ifs with h
  · exact (min_eq_right h.le).symm
  · exact (min_eq_left (not_lt.mp h)).symm

theorem clip_eq (a lo hi : α) : clip a lo hi = min (max a lo) hi := by
  unfold clip; rw [vmin_eq, vmax_eq]

/-- the clip lemma: with `lo ≤ hi` the result lies in `[lo, hi]` -/
theorem clip_mem (a lo hi : α) (h : lo ≤ hi) : lo ≤ clip a lo hi ∧ clip a lo hi ≤ hi := by
  rw [clip_eq]
  exact ⟨le_min (le_max_right _ _) h, min_le_right _ _⟩

theorem clip_le_hi (a lo hi : α) : clip a lo hi ≤ hi := by
  rw [clip_eq]; exact min_le_right _ _

/-- clip is monotone in the clipped value -/
theorem clip_mono (a b lo hi : α) (h : a ≤ b) : clip a lo hi ≤ clip b lo hi := by
  rw [clip_eq, clip_eq]
  exact min_le_min (max_le_max h le_rfl) le_rfl

/-- a value already inside is left alone -/
theorem clip_of_mem (a lo hi : α) (h1 : lo ≤ a) (h2 : a ≤ hi) : clip a lo hi = a := by
  rw [clip_eq, max_eq_left h1, min_eq_left h2]

theorem maxUpTo_ge (x : Nat → α) (k i : Nat) (hi : i ≤ k) : x i ≤ maxUpTo k x := by
  induction k with
  | zero => have : i = 0 := by omega
            subst this; exact le_rfl
  | succ k ih =>
    rw [maxUpTo, vmax_eq]
    rcases Nat.lt_or_ge i (k+1) with h | h
    · exact le_trans (ih (by omega)) (le_max_left _ _)
    · have : i = k + 1 := by omega
      subst this; exact le_max_right _ _

theorem minUpTo_le (x : Nat → α) (k i : Nat) (hi : i ≤ k) : minUpTo k x ≤ x i := by
  induction k with
  | zero => have : i = 0 := by omega
            subst this; exact le_rfl
  | succ k ih =>
    rw [minUpTo, vmin_eq]
    rcases Nat.lt_or_ge i (k+1) with h | h
    · exact le_trans (min_le_left _ _) (ih (by omega))
    · have : i = k + 1 := by omega
      subst this; exact min_le_right _ _

end Ord

/-! ## concatenate / split / write back -/

/-- recursive split by lengths (specification of the slice loops) -/
def splitBy {α} : List Nat → List α → List (List α)
  | [], _ => []
  | k :: ks, v => v.take k :: splitBy ks (v.drop k)

theorem cum_zero {α} (L : List (List α)) : cum L 0 = 0 := by cases L <;> rfl

theorem cum_eq_sum {α} (L : List (List α)) (i : Nat) : cum L i = ((L.take i).map List.length).sum := by
  induction L generalizing i with
  | nil => simp [cum]
  | cons s rest ih =>
    cases i with
    | zero => simp [cum]
    | succ i => simp [cum, ih]

theorem cum_length {α} (L : List (List α)) : cum L L.length = (concat L).length := by
  rw [cum_eq_sum, List.take_length, concat, List.length_flatten]

theorem cum_succ {α} (L : List (List α)) (i : Nat) (hi : i < L.length) :
    cum L (i+1) = cum L i + (L.getD i []).length := by
  induction L generalizing i with
  | nil => simp at hi
  | cons s rest ih =>
    cases i with
    | zero => simp [cum, cum_zero]
    | succ i =>
      have hi' : i < rest.length := by simpa using hi
      simp only [cum, ih i hi']
      simp; omega

theorem cumlens_getD {α} (L : List (List α)) (i : Nat) (hi : i ≤ L.length) : (cumlens L).getD i 0 = cum L i := by
  unfold cumlens
  rw [List.getD_eq_getElem?_getD, List.getElem?_map, List.getElem?_range (by omega)]
  rfl

theorem cumlens_length {α} (L : List (List α)) : (cumlens L).length = L.length + 1 := by
  simp [cumlens]

theorem slice_cons_shift {α} (v : List α) (k a b : Nat) : slice v (k + a) (k + b) = slice (v.drop k) a b := by
  unfold slice
  rw [List.drop_drop]
  congr 1
  · omega

theorem slice_getD {α} (v : List α) (a b k : Nat) (d : α) (hk : k < b - a) :
    (slice v a b).getD k d = v.getD (a + k) d := by
  unfold slice
  simp only [List.getD_eq_getElem?_getD, List.getElem?_take, hk, if_true, List.getElem?_drop]

theorem writeBack_eq_splitBy {α} (L : List (List α)) (v : List α) :
    writeBack v (cumlens L) L.length = splitBy (L.map List.length) v := by
  unfold writeBack
  induction L generalizing v with
  | nil => simp [splitBy]
  | cons s rest ih =>
    simp only [List.length_cons, List.map_cons, splitBy]
    rw [List.range_succ_eq_map, List.map_cons, List.map_map]
    congr 1
    · rw [cumlens_getD _ _ (by simp), cumlens_getD _ _ (by simp)]
      simp [cum, slice, cum_zero]
    · rw [← ih (v.drop s.length)]
      apply List.map_congr_left
      intro i hi
      have hi' : i < rest.length := List.mem_range.mp hi
      simp only [Function.comp]
      rw [cumlens_getD _ _ (by simp; omega), cumlens_getD _ _ (by simp; omega),
        cumlens_getD _ _ (by omega), cumlens_getD _ _ (by omega)]
      simp only [cum]
      exact slice_cons_shift v s.length _ _

theorem splitBy_flatten {α} (ks : List Nat) (v : List α) (h : ks.sum = v.length) :
    (splitBy ks v).flatten = v := by
  induction ks generalizing v with
  | nil => simp at h; simp [splitBy, List.length_eq_zero_iff.mp h.symm]
  | cons k ks ih =>
    simp only [splitBy, List.flatten_cons]
    rw [ih (v.drop k) (by simp at h ⊢; omega)]
    exact List.take_append_drop k v

theorem splitBy_roundtrip {α} (L : List (List α)) : splitBy (L.map List.length) L.flatten = L := by
  induction L with
  | nil => simp [splitBy]
  | cons s rest ih => simp [splitBy, ih]

theorem splitBy_lengths {α} (ks : List Nat) (v : List α) (h : ks.sum = v.length) :
    (splitBy ks v).map List.length = ks := by
  induction ks generalizing v with
  | nil => simp [splitBy]
  | cons k ks ih =>
    simp only [splitBy, List.map_cons]
    rw [ih (v.drop k) (by simp at h ⊢; omega)]
    simp at h ⊢; omega

/-- writing a vector of the right total length back by slices and concatenating again gives the vector -/
theorem concat_writeBack {α} (L : List (List α)) (v : List α) (h : v.length = (concat L).length) :
    concat (writeBack v (cumlens L) L.length) = v := by
  rw [writeBack_eq_splitBy, concat]
  apply splitBy_flatten
  rw [h, concat, List.length_flatten]

end PymotoVerif.DV
