/- helper lemmas for C13 (mixed-radix numbering) -/
import PymotoVerif.Core.Domain
import Mathlib.Tactic.Ring
import Mathlib.Tactic.Linarith

namespace PymotoVerif.Domain
open Dom

/-- generic mixed radix: `(a*n + b)` with `b < n` decodes uniquely -/
theorem radix_inj {n a b a' b' : Nat} (hb : b < n) (hb' : b' < n)
    (h : a * n + b = a' * n + b') : a = a' ∧ b = b' := by
  have hn : 0 < n := by omega
  have h1 : (a * n + b) % n = b := by
    rw [Nat.add_comm, Nat.add_mul_mod_self_right, Nat.mod_eq_of_lt hb]
  have h2 : (a' * n + b') % n = b' := by
    rw [Nat.add_comm, Nat.add_mul_mod_self_right, Nat.mod_eq_of_lt hb']
  have hbb : b = b' := by rw [← h1, ← h2, h]
  subst hbb
  exact ⟨Nat.eq_of_mul_eq_mul_right hn (Nat.add_right_cancel h), rfl⟩

theorem radix_div {n a b : Nat} (hb : b < n) : (a * n + b) / n = a := by
  have hn : 0 < n := by omega
  rw [Nat.add_comm, Nat.add_mul_div_right _ _ hn, Nat.div_eq_of_lt hb, Nat.zero_add]

theorem radix_mod {n a b : Nat} (hb : b < n) : (a * n + b) % n = b := by
  rw [Nat.add_comm, Nat.add_mul_mod_self_right, Nat.mod_eq_of_lt hb]

theorem radix_lt {n m a b : Nat} (ha : a < m) (hb : b < n) : a * n + b < m * n := by
  have : (a + 1) * n ≤ m * n := Nat.mul_le_mul_right n ha
  rw [Nat.add_mul, Nat.one_mul] at this
  omega

theorem nz_pos (d : Dom) : 0 < d.nz := by unfold Dom.nz; omega

theorem nbit_lt (l a : Nat) : nbit l a < 2 := by unfold nbit; omega
theorem nbit_le (l a : Nat) : nbit l a ≤ 1 := by have := nbit_lt l a; omega

/-- an index below `2^3` is determined by its three bits -/
theorem bits_inj {l l' : Nat} (hl : l < 8) (hl' : l' < 8)
    (h0 : nbit l 0 = nbit l' 0) (h1 : nbit l 1 = nbit l' 1) (h2 : nbit l 2 = nbit l' 2) : l = l' := by
  unfold nbit at *
  norm_num at *
  omega

end PymotoVerif.Domain
