/- helper lemmas for C15: the abstraction `dense`, well-formedness, and the specification of `add_dyad` -/
import PymotoVerif.Lemmas.DyadCx
import Mathlib.Tactic.SplitIfs
import Mathlib.Tactic.Linarith

set_option linter.unusedSectionVars false
set_option linter.unnecessarySeqFocus false

namespace PymotoVerif.Dyad
variable {α : Type} [CommRing α] [DecidableEq α]

omit [CommRing α] [DecidableEq α] in
theorem bind_ok_iff {ε β γ : Type} {x : Except ε β} {f : β → Except ε γ} {r : γ} :
    (x >>= f) = .ok r ↔ ∃ a, x = .ok a ∧ f a = .ok r := by
  cases x <;> simp [bind, Except.bind]

/-- `Σ_k u_k[i] * v_k[j]` over paired lists -/
def dsum (us vs : List (DVec α)) (i j : Nat) : Cx α :=
  lsum (List.zipWith (fun u v => u.get i * v.get j) us vs)

/-- abstraction function: entry `(i, j)` of the dense matrix `Σ_k u_k ⊗ v_k` (0 outside the shape) -/
def dense (C : Carrier α) (i j : Nat) : Cx α := dsum C.u C.v i j

/-- representation invariant of carriers built by the public operations -/
structure WF (C : Carrier α) : Prop where
  len : C.u.length = C.v.length
  ul : ∀ x ∈ C.u, (x.len : Int) = C.ulen
  vl : ∀ x ∈ C.v, (x.len : Int) = C.vlen

@[simp] theorem dsum_nil_left (vs : List (DVec α)) (i j : Nat) : dsum [] vs i j = 0 := rfl
@[simp] theorem dsum_nil_right (us : List (DVec α)) (i j : Nat) : dsum us [] i j = 0 := by
  cases us <;> rfl
@[simp] theorem dsum_cons (u v : DVec α) (us vs : List (DVec α)) (i j : Nat) :
    dsum (u :: us) (v :: vs) i j = u.get i * v.get j + dsum us vs i j := rfl

theorem dsum_append {us vs us' vs' : List (DVec α)} (h : us.length = vs.length) (i j : Nat) :
    dsum (us ++ us') (vs ++ vs') i j = dsum us vs i j + dsum us' vs' i j := by
  induction us generalizing vs with
  | nil => cases vs with
    | nil => simp
    | cons v vs => simp at h
  | cons u us ih => cases vs with
    | nil => simp at h
    | cons v vs =>
      simp only [List.length_cons, Nat.add_right_cancel_iff] at h
      simp only [List.cons_append, dsum_cons, ih h]; ring

theorem at0_of_all_zero {l : List (Cx α)} (h : ∀ z ∈ l, z = 0) (i : Nat) : at0 l i = 0 := by
  unfold at0
  rw [List.getD_eq_getElem?_getD]
  cases hz : l[i]? with
  | none => rfl
  | some z => exact h z (List.mem_of_getElem? hz)

theorem get_of_isZero {x : DVec α} (h : x.isZero = true) (i : Nat) : x.get i = 0 := by
  unfold DVec.isZero at h
  rw [List.all_eq_true] at h
  exact at0_of_all_zero (fun z hz => by simpa using h z hz) i

theorem at0_map {f : Cx α → Cx α} (hf : f 0 = 0) (l : List (Cx α)) (i : Nat) :
    at0 (l.map f) i = f (at0 l i) := by
  unfold at0
  rw [List.getD_eq_getElem?_getD, List.getD_eq_getElem?_getD, List.getElem?_map]
  cases l[i]? <;> simp [hf]

@[simp] theorem sumLead_c (a : NArr α) : (sumLead a).c = a.c := by
  unfold sumLead; split <;> rfl

@[simp] theorem sumLead_toArr (x : DVec α) : sumLead x.toArr = x := by
  cases x; simp [sumLead, DVec.toArr]

/-- `fac * ·` or the identity -/
def fmul (fac : Option (Cx α)) (z : Cx α) : Cx α :=
  match fac with
  | none => z
  | some f => f * z

theorem wf_empty (ul vl : Int) : WF (empty ul vl : Carrier α) :=
  ⟨rfl, by simp [empty], by simp [empty]⟩
@[simp] theorem dense_empty (ul vl : Int) (i j : Nat) : dense (empty ul vl : Carrier α) i j = 0 := rfl

theorem get_map {f : Cx α → Cx α} (hf : f 0 = 0) (x : DVec α) (i : Nat) : (x.map f).get i = f (x.get i) :=
  at0_map hf x.d i
@[simp] theorem len_map (f : Cx α → Cx α) (x : DVec α) : (x.map f).len = x.len := by
  simp [DVec.map, DVec.len]

theorem facVec_get (fac : Option (Cx α)) (u : DVec α) (i : Nat) :
    (facVec fac u).get i = fmul fac (u.get i) := by
  cases fac with
  | none => rfl
  | some f => exact get_map (by simp) u i
theorem facVec_len (fac : Option (Cx α)) (u : DVec α) :
    (facVec fac u).len = u.len := by
  cases fac <;> simp [facVec]

/-- specification of one successful pass of the `add_dyad` loop -/
theorem addOne_ok {fac : Option (Cx α)} {C C' : Carrier α} {ui vi : NArr α}
    (h : addOne fac C ui vi = (C', none)) :
    C'.c = (C.c || ui.c || vi.c)
    ∧ C'.ulen = (if C.ulen < 0 then ((sumLead ui).len : Int) else C.ulen)
    ∧ C'.vlen = (if C.vlen < 0 then ((sumLead vi).len : Int) else C.vlen)
    ∧ ((sumLead ui).len : Int) = C'.ulen ∧ ((sumLead vi).len : Int) = C'.vlen
    ∧ (WF C → WF C' ∧
        ∀ i j, dense C' i j = dense C i j + fmul fac ((sumLead ui).get i) * (sumLead vi).get j) := by
  unfold addOne at h
  simp only at h
  generalize hul : (if C.ulen < 0 then ((sumLead ui).len : Int) else C.ulen) = ul at h ⊢
  generalize hvl : (if C.vlen < 0 then ((sumLead vi).len : Int) else C.vlen) = vl at h ⊢
  split_ifs at h with h1 h2 h3
  all_goals (simp only [Prod.mk.injEq, and_true, reduceCtorEq, and_false] at h)
  all_goals subst h
  all_goals (simp only [ne_eq, not_not] at h1 h2)
  · refine ⟨by simp, rfl, rfl, h1, h2, fun w => ⟨?_, ?_⟩⟩
    · refine ⟨w.len, fun x hx => ?_, fun x hx => ?_⟩
      · have := w.ul x hx
        by_cases hc : C.ulen < 0
        · have : (0 : Int) ≤ x.len := Int.natCast_nonneg _
          omega
        · simp only [hc, if_false] at hul; rw [← hul]; exact this
      · have := w.vl x hx
        by_cases hc : C.vlen < 0
        · have : (0 : Int) ≤ x.len := Int.natCast_nonneg _
          omega
        · simp only [hc, if_false] at hvl; rw [← hvl]; exact this
    · intro i j
      simp only [dense]
      rcases Bool.or_eq_true _ _ |>.mp h3 with hz | hz
      · cases fac <;> simp [fmul, get_of_isZero hz]
      · simp [get_of_isZero hz]
  · refine ⟨by simp, rfl, rfl, h1, h2, fun w => ⟨?_, ?_⟩⟩
    · refine ⟨by simp [w.len], fun x hx => ?_, fun x hx => ?_⟩
      · simp only [List.mem_append, List.mem_singleton] at hx
        rcases hx with hx | hx
        · have := w.ul x hx
          by_cases hc : C.ulen < 0
          · have : (0 : Int) ≤ x.len := Int.natCast_nonneg _
            omega
          · simp only [hc, if_false] at hul; rw [← hul]; exact this
        · subst hx; rw [facVec_len]; exact h1
      · simp only [List.mem_append, List.mem_singleton] at hx
        rcases hx with hx | hx
        · have := w.vl x hx
          by_cases hc : C.vlen < 0
          · have : (0 : Int) ≤ x.len := Int.natCast_nonneg _
            omega
          · simp only [hc, if_false] at hvl; rw [← hvl]; exact this
        · subst hx; exact h2
    · intro i j
      simp only [dense]
      rw [dsum_append w.len, dsum_cons, facVec_get]
      simp

/-- `Σ_k fac * (Σ-leading u_k)[i] * (Σ-leading v_k)[j]` over the argument pairs of `add_dyad` -/
def psum (fac : Option (Cx α)) (pairs : List (NArr α × NArr α)) (i j : Nat) : Cx α :=
  lsum (pairs.map fun p => fmul fac ((sumLead p.1).get i) * (sumLead p.2).get j)

@[simp] theorem psum_nil (fac : Option (Cx α)) (i j : Nat) : psum fac [] i j = 0 := rfl
@[simp] theorem psum_cons (fac : Option (Cx α)) (p : NArr α × NArr α) (ps : List (NArr α × NArr α)) (i j : Nat) :
    psum fac (p :: ps) i j = fmul fac ((sumLead p.1).get i) * (sumLead p.2).get j + psum fac ps i j := rfl

theorem addLoop_ok {fac : Option (Cx α)} : ∀ {pairs : List (NArr α × NArr α)} {C C' : Carrier α},
    addLoop fac C pairs = (C', none) →
    C'.c = (C.c || pairs.any (fun p => p.1.c || p.2.c))
    ∧ (0 ≤ C.ulen → C'.ulen = C.ulen) ∧ (0 ≤ C.vlen → C'.vlen = C.vlen)
    ∧ (pairs = [] → C' = C)
    ∧ (∀ p ∈ pairs, ((sumLead p.1).len : Int) = C'.ulen ∧ ((sumLead p.2).len : Int) = C'.vlen)
    ∧ (WF C → WF C' ∧ ∀ i j, dense C' i j = dense C i j + psum fac pairs i j) := by
  intro pairs
  induction pairs with
  | nil =>
    intro C C' h
    simp only [addLoop, Prod.mk.injEq, and_true] at h
    subst h
    simp
  | cons p ps ih =>
    intro C C' h
    obtain ⟨ui, vi⟩ := p
    simp only [addLoop] at h
    cases h1 : addOne fac C ui vi with
    | mk C1 e =>
      rw [h1] at h
      cases e with
      | some e => simp at h
      | none =>
        simp only at h
        obtain ⟨hc, hu, hv, hlu, hlv, hw⟩ := addOne_ok h1
        obtain ⟨ic, iu, iv, _, il, iw⟩ := ih h
        have n1 : (0 : Int) ≤ C1.ulen := by rw [← hlu]; exact Int.natCast_nonneg _
        have n2 : (0 : Int) ≤ C1.vlen := by rw [← hlv]; exact Int.natCast_nonneg _
        refine ⟨?_, ?_, ?_, by simp, ?_, ?_⟩
        · rw [ic, hc]; simp [Bool.or_assoc]
        · intro h0; rw [iu n1, hu]; simp [not_lt.mpr h0]
        · intro h0; rw [iv n2, hv]; simp [not_lt.mpr h0]
        · intro q hq
          simp only [List.mem_cons] at hq
          rcases hq with rfl | hq
          · exact ⟨by rw [iu n1]; exact hlu, by rw [iv n2]; exact hlv⟩
          · exact il q hq
        · intro w
          obtain ⟨w1, d1⟩ := hw w
          obtain ⟨w2, d2⟩ := iw w1
          refine ⟨w2, fun i j => ?_⟩
          rw [d2, d1, psum_cons]; ring

theorem psum_zip_toArr (us vs : List (DVec α)) (i j : Nat) :
    psum none ((us.map DVec.toArr).zip (vs.map DVec.toArr)) i j = dsum us vs i j := by
  induction us generalizing vs with
  | nil => simp
  | cons u us ih => cases vs with
    | nil => simp
    | cons v vs => simp [ih, fmul]

theorem any_zip_toArr (us vs : List (DVec α)) (h : us.length = vs.length) :
    ((us.map DVec.toArr).zip (vs.map DVec.toArr)).any (fun p => p.1.c || p.2.c)
      = (us.any (·.c) || vs.any (·.c)) := by
  induction us generalizing vs with
  | nil => cases vs with
    | nil => rfl
    | cons v vs => simp at h
  | cons u us ih => cases vs with
    | nil => simp at h
    | cons v vs =>
      simp only [List.length_cons, Nat.add_right_cancel_iff] at h
      simp only [List.map_cons, List.zip_cons_cons, List.any_cons, ih vs h, DVec.toArr]
      cases u.c <;> cases v.c <;> simp

theorem mem_zip_toArr {us vs : List (DVec α)} (h : us.length = vs.length) :
    (∀ x ∈ us, ∃ p ∈ (us.map DVec.toArr).zip (vs.map DVec.toArr), p.1 = x.toArr) ∧
    (∀ x ∈ vs, ∃ p ∈ (us.map DVec.toArr).zip (vs.map DVec.toArr), p.2 = x.toArr) := by
  induction us generalizing vs with
  | nil => cases vs with
    | nil => simp
    | cons v vs => simp at h
  | cons u us ih => cases vs with
    | nil => simp at h
    | cons v vs =>
      simp only [List.length_cons, Nat.add_right_cancel_iff] at h
      obtain ⟨a, b⟩ := ih h
      constructor
      · intro x hx
        simp only [List.mem_cons] at hx
        rcases hx with rfl | hx
        · exact ⟨(x.toArr, v.toArr), by simp, rfl⟩
        · obtain ⟨p, hp, e⟩ := a x hx
          exact ⟨p, by simp [hp], e⟩
      · intro x hx
        simp only [List.mem_cons] at hx
        rcases hx with rfl | hx
        · exact ⟨(u.toArr, x.toArr), by simp, rfl⟩
        · obtain ⟨p, hp, e⟩ := b x hx
          exact ⟨p, by simp [hp], e⟩

/-- specification of the constructor call on stored vectors that every derived operation goes through -/
theorem ofVecs_ok {us vs : List (DVec α)} {ul vl : Int} {D : Carrier α} (h : ofVecs us vs ul vl = .ok D) :
    us.length = vs.length ∧ WF D ∧ (∀ i j, dense D i j = dsum us vs i j)
    ∧ D.c = (us.any (·.c) || vs.any (·.c))
    ∧ (0 ≤ ul → D.ulen = ul) ∧ (0 ≤ vl → D.vlen = vl)
    ∧ (us = [] → D = empty ul vl)
    ∧ (∀ x ∈ us, (x.len : Int) = D.ulen) ∧ (∀ x ∈ vs, (x.len : Int) = D.vlen) := by
  unfold ofVecs new addDyad at h
  simp only [Option.getD_some, List.length_map] at h
  split_ifs at h with hl
  · simp only [ne_eq, not_not] at hl
    cases h1 : addLoop none (empty ul vl) ((us.map DVec.toArr).zip (vs.map DVec.toArr)) with
    | mk C1 e =>
      rw [h1] at h
      cases e with
      | some e => simp at h
      | none =>
        simp only [Except.ok.injEq] at h
        subst h
        obtain ⟨ic, iu, iv, ie, il, iw⟩ := addLoop_ok h1
        obtain ⟨w, d⟩ := iw (wf_empty ul vl)
        obtain ⟨ma, mb⟩ := mem_zip_toArr hl
        refine ⟨hl, w, fun i j => ?_, ?_, iu, iv, ?_, ?_, ?_⟩
        · rw [d, psum_zip_toArr]; simp
        · rw [ic, any_zip_toArr us vs hl]; simp [empty]
        · intro e; subst e; exact ie (by simp)
        · intro x hx
          obtain ⟨p, hp, e⟩ := ma x hx
          have := (il p hp).1
          rw [e, sumLead_toArr] at this; exact this
        · intro x hx
          obtain ⟨p, hp, e⟩ := mb x hx
          have := (il p hp).2
          rw [e, sumLead_toArr] at this; exact this

end PymotoVerif.Dyad
