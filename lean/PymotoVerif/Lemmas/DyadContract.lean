/- helper lemmas for C15: the contraction `Σ_k u_k[rows]ᵀ B v_k[cols]` against the explicit double sum -/
import PymotoVerif.Lemmas.DyadIdx

set_option linter.unusedSectionVars false
set_option linter.unnecessarySeqFocus false
set_option linter.unusedSimpArgs false

namespace PymotoVerif.Dyad
variable {α : Type} [CommRing α] [DecidableEq α]

/-- position selected by an optional (already normalised) index list -/
def selPos (idx : Option (List Nat)) (p : Nat) : Nat :=
  match idx with
  | none => p
  | some l => l.getD p 0

/-- numpy normalisation of a whole optional index list on an axis of length `n` -/
def normAll (n : Nat) (idx : Option (List Int)) : Except Err (Option (List Nat)) :=
  match idx with
  | none => .ok none
  | some r => match r.mapM (normIndex n) with
    | .ok p => .ok (some p)
    | .error e => .error e

/-- number of selected rows -/
def selLen (n : Nat) (idx : Option (List Nat)) : Nat :=
  match idx with
  | none => n
  | some l => l.length

/-- the explicit sum the contraction has to equal: `Σ_p Σ_q A[rows p, cols q] · B[p,q]`, or `Σ_p A[rows p, cols p]`
    without a matrix -/
def cspec (A : Nat → Nat → Cx α) (L : Nat) (rp cp : Option (List Nat)) (mb : Option (Nat × Nat × List (Cx α))) :
    Cx α :=
  match mb with
  | none => rsum L (fun p => A (selPos rp p) (selPos cp p))
  | some (m, n, d) => rsum m (fun p => rsum n (fun q => A (selPos rp p) (selPos cp q) * at0 d (p * n + q)))

theorem cspec_add (A B : Nat → Nat → Cx α) (L : Nat) (rp cp : Option (List Nat))
    (mb : Option (Nat × Nat × List (Cx α))) :
    cspec (fun i j => A i j + B i j) L rp cp mb = cspec A L rp cp mb + cspec B L rp cp mb := by
  cases mb with
  | none => simp only [cspec]; rw [← rsum_add]
  | some t =>
    obtain ⟨m, n, d⟩ := t
    simp only [cspec]
    rw [← rsum_add]
    apply rsum_congr
    intro p _
    rw [← rsum_add]
    apply rsum_congr
    intro q _
    ring

theorem cspec_zero (L : Nat) (rp cp : Option (List Nat)) (mb : Option (Nat × Nat × List (Cx α))) :
    cspec (fun _ _ => (0 : Cx α)) L rp cp mb = 0 := by
  cases mb with
  | none => simp [cspec]
  | some t =>
    obtain ⟨m, n, d⟩ := t
    simp [cspec]

theorem gatherI_ok {x y : DVec α} {idx : List Int} (h : gatherI x idx = .ok y) :
    ∃ pos, idx.mapM (normIndex x.len) = .ok pos ∧ y = gatherV pos x := by
  unfold gatherI at h
  obtain ⟨p, hp, h⟩ := bind_ok_iff.mp h
  simp only [pure, Except.pure, Except.ok.injEq] at h
  exact ⟨p, hp, h.symm⟩

/-- the optional gather of `cterm` -/
theorem optGather_ok {x y : DVec α} {idx : Option (List Int)} {rp : Option (List Nat)}
    (hn : normAll x.len idx = .ok rp)
    (h : optGather x idx = Except.ok y) :
    y.len = selLen x.len rp ∧ ∀ p, p < y.len → y.get p = x.get (selPos rp p) := by
  cases idx with
  | none =>
    simp only [normAll, Except.ok.injEq] at hn
    subst hn
    simp only [optGather, Except.ok.injEq] at h
    subst h
    exact ⟨rfl, fun p _ => rfl⟩
  | some r =>
    simp only [optGather] at h
    obtain ⟨pos, hp, rfl⟩ := gatherI_ok h
    simp only [normAll, hp, Except.ok.injEq] at hn
    subst hn
    exact ⟨by simp [selLen], fun p hp' => by rw [gatherV_get _ _ (by simpa using hp')]; rfl⟩

/-- what a successful `u @ mat @ v` / `u @ v` returns -/
def quadSpec (u v : DVec α) (mb : Option (Nat × Nat × List (Cx α))) (s : Cx α) : Prop :=
  match mb with
  | none => u.len = v.len ∧ s = rsum u.len (fun p => u.get p * v.get p)
  | some (m, n, d) => u.len = m ∧ v.len = n
      ∧ s = rsum m (fun p => rsum n (fun q => u.get p * at0 d (p * n + q) * v.get q))

theorem quad_ok {u v : DVec α} {mb : Option (Nat × Nat × List (Cx α))} {s : Cx α} (h : quad u v mb = .ok s) :
    quadSpec u v mb s := by
  cases mb with
  | none => exact vdot_ok h
  | some t =>
    obtain ⟨m, n, d⟩ := t
    simp only [quad] at h
    split_ifs at h with h1 h2
    simp only [ne_eq, not_not] at h1 h2
    simp only [Except.ok.injEq] at h
    exact ⟨h1, h2, h.symm⟩

/-- the operand shapes conform in the plain sense (no size-1 broadcasting by `einsum`) -/
def conform (lu lv : Nat) (mb : Option (Nat × Nat × List (Cx α))) : Prop :=
  match mb with
  | none => lu = lv
  | some (m, n, _) => lu = m ∧ lv = n

theorem bdim_self (a : Nat) : bdim a a = .ok a := by simp [bdim]

/-- on conforming operands the `einsum` term is the same explicit sum as the `@` term -/
theorem quadB_ok {u v : DVec α} {mb : Option (Nat × Nat × List (Cx α))} {s : Cx α} (hc : conform u.len v.len mb)
    (h : quadB u v mb = .ok s) : quadSpec u v mb s := by
  cases mb with
  | none =>
    simp only [conform] at hc
    simp only [quadB, ← hc, bdim_self, bind, Except.bind, pure, Except.pure, Except.ok.injEq] at h
    refine ⟨hc, ?_⟩
    rw [← h]
    apply rsum_congr
    intro p hp
    by_cases h1 : u.len = 1
    · have : p = 0 := by omega
      subst this; simp [h1]
    · simp [h1]
  | some t =>
    obtain ⟨m, n, d⟩ := t
    simp only [conform] at hc
    obtain ⟨h1, h2⟩ := hc
    simp only [quadB, h1, h2, bdim_self, bind, Except.bind, pure, Except.pure, Except.ok.injEq] at h
    refine ⟨h1, h2, ?_⟩
    rw [← h]
    apply rsum_congr
    intro p hp
    apply rsum_congr
    intro q hq
    have e1 : (if m = 1 then 0 else p) = p := by
      by_cases c : m = 1
      · have : p = 0 := by omega
        simp [c, this]
      · simp [c]
    have e2 : (if n = 1 then 0 else q) = q := by
      by_cases c : n = 1
      · have : q = 0 := by omega
        simp [c, this]
      · simp [c]
    rw [e1, e2]

/-- one term of the contraction is the explicit sum for the rank-one matrix `u vᵀ` -/
theorem cterm_one {bc : Bool} {u v : DVec α} {ridx cidx : Option (List Int)}
    {mb : Option (Nat × Nat × List (Cx α))}
    {rp cp : Option (List Nat)} (hr : normAll u.len ridx = .ok rp) (hc : normAll v.len cidx = .ok cp)
    (hconf : bc = true → conform (selLen u.len rp) (selLen v.len cp) mb) {s : Cx α}
    (h : cterm bc u v ridx cidx mb = .ok s) :
    s = cspec (fun i j => u.get i * v.get j) (selLen u.len rp) rp cp mb := by
  unfold cterm at h
  obtain ⟨ua, hua, h⟩ := bind_ok_iff.mp h
  obtain ⟨va, hva, h⟩ := bind_ok_iff.mp h
  obtain ⟨lu, gu⟩ := optGather_ok hr hua
  obtain ⟨lv, gv⟩ := optGather_ok hc hva
  have hq : quadSpec ua va mb s := by
    cases bc with
    | false => exact quad_ok (by simpa using h)
    | true => exact quadB_ok (u := ua) (v := va) (mb := mb) (by rw [lu, lv]; exact hconf rfl) (by simpa using h)
  cases mb with
  | none =>
    simp only [quadSpec] at hq
    obtain ⟨hl, rfl⟩ := hq
    simp only [cspec]
    rw [← lu]
    exact rsum_congr _ (fun p hp => by rw [gu p hp, gv p (by omega)])
  | some t =>
    obtain ⟨m, n, d⟩ := t
    simp only [quadSpec] at hq
    obtain ⟨h1, h2, rfl⟩ := hq
    simp only [cspec]
    apply rsum_congr
    intro p hp
    apply rsum_congr
    intro q hq'
    rw [gu p (by omega), gv q (by omega)]; ring

/-- summed over all dyads: the explicit sum for the dense matrix -/
theorem cterm_sum {bc : Bool} {ridx cidx : Option (List Int)} {mb : Option (Nat × Nat × List (Cx α))} {Lu Lv : Nat}
    {rp cp : Option (List Nat)} (hr : normAll Lu ridx = .ok rp) (hc : normAll Lv cidx = .ok cp)
    (hconf : bc = true → conform (selLen Lu rp) (selLen Lv cp) mb) :
    ∀ {us vs : List (DVec α)} {ts : List (Cx α)}, (∀ x ∈ us, x.len = Lu) → (∀ x ∈ vs, x.len = Lv) →
      (List.zip us vs).mapM (fun (p : DVec α × DVec α) => cterm bc p.1 p.2 ridx cidx mb) = .ok ts →
      lsum ts = cspec (dsum us vs) (selLen Lu rp) rp cp mb := by
  intro us
  induction us with
  | nil =>
    intro vs ts _ _ h
    simp only [List.zip_nil_left] at h
    rw [mapM_nil_ok] at h; subst h
    have : dsum ([] : List (DVec α)) vs = fun _ _ => 0 := by funext i j; simp
    rw [this, cspec_zero]; rfl
  | cons u us ih =>
    intro vs ts hu hv h
    cases vs with
    | nil =>
      simp only [List.zip_nil_right] at h
      rw [mapM_nil_ok] at h; subst h
      have : dsum (u :: us) ([] : List (DVec α)) = fun _ _ => 0 := by funext i j; simp
      rw [this, cspec_zero]; rfl
    | cons v vs =>
      simp only [List.zip_cons_cons] at h
      obtain ⟨b, bs, hb, hbs, rfl⟩ := mapM_cons_ok.mp h
      have e1 : u.len = Lu := hu u (by simp)
      have e2 : v.len = Lv := hv v (by simp)
      have h1 := cterm_one (by rw [e1]; exact hr) (by rw [e2]; exact hc) (by rw [e1, e2]; exact hconf) hb
      have h2 := ih (fun x hx => hu x (by simp [hx])) (fun x hx => hv x (by simp [hx])) hbs
      have : dsum (u :: us) (v :: vs) = fun i j => u.get i * v.get j + dsum us vs i j := by
        funext i j; simp
      rw [this, cspec_add, ← h2, ← e1, ← h1]
      rfl

theorem mapM_getD {β : Type} {f : β → Except Err (Cx α)} : ∀ {l : List β} {t : List (Cx α)},
    l.mapM f = .ok t → ∀ i (h : i < l.length), f l[i] = .ok (at0 t i) := by
  intro l
  induction l with
  | nil => intro t _ i h; simp at h
  | cons a l ih =>
    intro t ht i h
    obtain ⟨b, bs, hb, hbs, rfl⟩ := mapM_cons_ok.mp ht
    cases i with
    | zero => simpa [at0] using hb
    | succ i =>
      have := ih hbs i (by simpa using h)
      simpa [at0] using this

theorem range_mapM_get {f : Nat → Except Err (Cx α)} {B : Nat} {t : List (Cx α)}
    (h : (List.range B).mapM f = .ok t) {b : Nat} (hb : b < B) : f b = .ok (at0 t b) := by
  have := mapM_getD h b (by simpa using hb)
  simpa using this

/-- batch mode: the per-dyad lists of batch entries, read at one batch entry `b`, are the per-dyad terms at `b` -/
theorem batch_slice {B : Nat} {F : DVec α × DVec α → Nat → Except Err (Cx α)}
    {G1 G2 : DVec α × DVec α → Except Err (DVec α)} :
    ∀ {l : List (DVec α × DVec α)} {ts : List (List (Cx α))},
      l.mapM (fun p => do
        let _ ← G1 p
        let _ ← G2 p
        (List.range B).mapM (F p)) = .ok ts →
      ∀ b, b < B → l.mapM (fun p => F p b) = .ok (ts.map (fun t => at0 t b)) := by
  intro l
  induction l with
  | nil =>
    intro ts h b _
    rw [mapM_nil_ok] at h; subst h
    rfl
  | cons a l ih =>
    intro ts h b hb
    obtain ⟨t, ts', ht, hts, rfl⟩ := mapM_cons_ok.mp h
    obtain ⟨_, _, ht⟩ := bind_ok_iff.mp ht
    obtain ⟨_, _, ht⟩ := bind_ok_iff.mp ht
    rw [mapM_cons_ok]
    exact ⟨at0 t b, ts'.map (fun t => at0 t b), range_mapM_get ht hb, ih hts b hb, rfl⟩

end PymotoVerif.Dyad
