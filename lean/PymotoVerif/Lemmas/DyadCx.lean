/- `Cx α` is a commutative ring when `α` is; conjugation / real / imaginary part laws; `lsum` bridge -/
import PymotoVerif.LA.Dyad
import Mathlib.Algebra.Ring.Defs
import Mathlib.Tactic.Ring
import Mathlib.Algebra.BigOperators.Group.List.Basic
import Mathlib.Algebra.BigOperators.Ring.List

namespace PymotoVerif.Dyad
namespace Cx
variable {α : Type}

theorem ext' {a b : Cx α} (h1 : a.re = b.re) (h2 : a.im = b.im) : a = b := by
  cases a; cases b; simp_all

section ring
variable [CommRing α]

instance : One (Cx α) := ⟨⟨1, 0⟩⟩

@[simp] theorem add_re (a b : Cx α) : (a + b).re = a.re + b.re := rfl
@[simp] theorem add_im (a b : Cx α) : (a + b).im = a.im + b.im := rfl
@[simp] theorem mul_re (a b : Cx α) : (a * b).re = a.re * b.re - a.im * b.im := rfl
@[simp] theorem mul_im (a b : Cx α) : (a * b).im = a.re * b.im + a.im * b.re := rfl
@[simp] theorem neg_re (a : Cx α) : (-a).re = -a.re := rfl
@[simp] theorem neg_im (a : Cx α) : (-a).im = -a.im := rfl
@[simp] theorem sub_re (a b : Cx α) : (a - b).re = a.re - b.re := rfl
@[simp] theorem sub_im (a b : Cx α) : (a - b).im = a.im - b.im := rfl
@[simp] theorem zero_re : (0 : Cx α).re = 0 := rfl
@[simp] theorem zero_im : (0 : Cx α).im = 0 := rfl
@[simp] theorem one_re : (1 : Cx α).re = 1 := rfl
@[simp] theorem one_im : (1 : Cx α).im = 0 := rfl

instance instCommRing : CommRing (Cx α) where
  add := (· + ·)
  zero := 0
  neg := Neg.neg
  sub := (· - ·)
  mul := (· * ·)
  one := 1
  nsmul := nsmulRec
  zsmul := zsmulRec
  add_assoc a b c := by apply ext' <;> simp [add_assoc]
  zero_add a := by apply ext' <;> simp
  add_zero a := by apply ext' <;> simp
  add_comm a b := by apply ext' <;> simp [add_comm]
  neg_add_cancel a := by apply ext' <;> simp
  sub_eq_add_neg a b := by apply ext' <;> simp [sub_eq_add_neg]
  left_distrib a b c := by apply ext' <;> simp <;> ring
  right_distrib a b c := by apply ext' <;> simp <;> ring
  zero_mul a := by apply ext' <;> simp
  mul_zero a := by apply ext' <;> simp
  mul_assoc a b c := by apply ext' <;> simp <;> ring
  one_mul a := by apply ext' <;> simp
  mul_one a := by apply ext' <;> simp
  mul_comm a b := by apply ext' <;> simp <;> ring

@[simp] theorem conj_re (a : Cx α) : (conj a).re = a.re := rfl
@[simp] theorem conj_im (a : Cx α) : (conj a).im = -a.im := rfl
@[simp] theorem rePart_re (a : Cx α) : (rePart a).re = a.re := rfl
@[simp] theorem rePart_im (a : Cx α) : (rePart a).im = 0 := rfl
@[simp] theorem imPart_re (a : Cx α) : (imPart a).re = a.im := rfl
@[simp] theorem imPart_im (a : Cx α) : (imPart a).im = 0 := rfl

theorem conj_zero : conj (0 : Cx α) = 0 := by apply ext' <;> simp
theorem conj_add (a b : Cx α) : conj (a + b) = conj a + conj b := by apply ext' <;> simp [add_comm]
theorem conj_mul (a b : Cx α) : conj (a * b) = conj a * conj b := by apply ext' <;> simp <;> ring
theorem rePart_zero : rePart (0 : Cx α) = 0 := by apply ext' <;> simp
theorem imPart_zero : imPart (0 : Cx α) = 0 := by apply ext' <;> simp
theorem rePart_add (a b : Cx α) : rePart (a + b) = rePart a + rePart b := by apply ext' <;> simp
theorem imPart_add (a b : Cx α) : imPart (a + b) = imPart a + imPart b := by apply ext' <;> simp
/-- the four-term expansion behind `.real` -/
theorem rePart_mul (a b : Cx α) : rePart (a * b) = rePart a * rePart b + (-(imPart a)) * imPart b := by
  apply ext' <;> simp <;> ring
/-- the four-term expansion behind `.imag` -/
theorem imPart_mul (a b : Cx α) : imPart (a * b) = rePart a * imPart b + imPart a * rePart b := by
  apply ext' <;> simp
end ring
end Cx

section
variable {β : Type} [AddCommMonoid β]
theorem lsum_eq_sum (l : List β) : lsum l = l.sum := by
  induction l with
  | nil => rfl
  | cons a l ih => simp [lsum, List.foldr] at ih ⊢; rw [← ih]
end

end PymotoVerif.Dyad
