/- concrete carriers / programs over ℚ used by the non-vacuity `example`s of `Props/C15.lean` -/
import PymotoVerif.Lemmas.DyadProg
import Mathlib.Algebra.Ring.Rat

namespace PymotoVerif.Dyad.Ex

def r (a : ℚ) : Cx ℚ := ⟨a, 0⟩
def z (a b : ℚ) : Cx ℚ := ⟨a, b⟩

/-- a complex 3×2 carrier with two dyads (one real, one complex) -/
def A : Carrier ℚ :=
  ⟨[⟨[r 1, r 2, r 3], false⟩, ⟨[z 0 1, r 0, r 1], true⟩], [⟨[r 1, r (-1)], false⟩, ⟨[r 2, z 0 1], true⟩], 3, 2, true⟩

/-- a real 3×2 carrier -/
def B : Carrier ℚ := ⟨[⟨[r 1, r 0, r (-2)], false⟩], [⟨[r 3, r 1], false⟩], 3, 2, false⟩

def v3 (a b c : ℚ) (cplx : Bool := false) : NArr ℚ := ⟨[3], [r a, r b, r c], cplx⟩
def v2 (a b : ℚ) : NArr ℚ := ⟨[2], [r a, r b], false⟩
/-- a 2×3 block (summed over its leading axis by `add_dyad`) -/
def blk : NArr ℚ := ⟨[2, 3], [r 1, r 2, r 3, r 0, r 1, z 0 1], true⟩
/-- dense 2×2 matrix operand -/
def M22 : NArr ℚ := ⟨[2, 2], [r 1, r 2, z 0 1, r (-1)], true⟩
/-- dense 3×2 matrix operand -/
def M32 : NArr ℚ := ⟨[3, 2], [r 1, r 2, r 0, r 1, r (-1), r 3], false⟩

/-- a program touching every kind of carrier-producing / in-place operation -/
def prog : List (Instr ℚ) :=
  [ .new [v3 1 2 3, blk] (some [v2 1 (-1), v2 2 0]) (-1) (-1),   -- r0 (3×2), second u is a block
    .new [v3 0 0 0] (some [v2 1 1]) 3 2,                          -- r1: only a zero dyad (dropped)
    .un .neg 0,                                                    -- r2
    .iadd 0 0,                                                     -- a += a
    .isub 0 2,
    .un .conj 0, .un .real 0, .un .imag 0, .un .transpose 0,       -- r3 .. r6
    .mul 0 (z 0 1) true, .rmul (r 2) false 0,                      -- r7, r8
    .addD 0 1, .subD 7 8, .addS 0 (r 0), .rsubS (r 0) 0,           -- r9 .. r12
    .matmulM 0 M22, .rmatmulM M22 6, .matmulD 6 0,                 -- r13, r14, r15
    .getitem 0 (.sl (some 1) none none) (.sl none none (some (-1))),    -- r16 : A[1:, ::-1]
    .getitem 0 (.arr ⟨[3], [2, 0, 0]⟩) (.sl none none none),            -- r17 : A[[2,0,0], :]
    .getitem 0 (.int (-1)) (.sl none none none),                        -- value A[-1, :]
    .setitem 0 (.sl none (some 2) none) (.sl none none none) true,      -- A[:2, :] = 0
    .addDyad 0 [v3 1 0 0] (some [v2 0 1]) (some (r (-1))),
    .todense 0, .diagonal 0 (-1), .dotV 0 ⟨[r 1, z 0 1], true⟩, .rdotV ⟨[r 1, r 0, r 2], false⟩ 0,
    .contract 0 (some M32) none none, .contract 0 none (some ⟨[2], [0, 2]⟩) none,
    .contractMulti 0 [.coo ⟨3, 2, [0, 2, 2], [1, 0, 0], [r 1, r 2, r 3], false⟩, .none],
    .addA 0 M32, .subA 0 M32, .rsubA M32 0, .un .copy 0, .un .pos 0, .subS 0 (r 0),
    .setitem 0 (.sl none none none) (.sl none none none) true, .todense 0 ]   -- A[:, :] = 0 clears all dyads

end PymotoVerif.Dyad.Ex
