/- helper lemmas for C15: gather (`x[pos]`), zeroing (`x[pos] = 0`), slicing into a new carrier -/
import PymotoVerif.Lemmas.DyadLin

set_option linter.unusedSectionVars false
set_option linter.unnecessarySeqFocus false
set_option linter.unusedSimpArgs false

namespace PymotoVerif.Dyad
variable {α : Type} [CommRing α] [DecidableEq α]

/-- `x[pos]` as a stored vector -/
def gatherV (pos : List Nat) (x : DVec α) : DVec α := ⟨x.take pos, x.c⟩

theorem gatherV_get (pos : List Nat) (x : DVec α) {p : Nat} (hp : p < pos.length) :
    (gatherV pos x).get p = x.get (pos.getD p 0) := by
  simp only [gatherV, DVec.get, DVec.take, at0]
  rw [List.getD_eq_getElem?_getD, List.getElem?_map, List.getD_eq_getElem?_getD (l := pos)]
  rw [List.getElem?_eq_getElem hp]
  simp [DVec.get, at0]

@[simp] theorem gatherV_len (pos : List Nat) (x : DVec α) : (gatherV pos x).len = pos.length := by
  simp [gatherV, DVec.len, DVec.take]

theorem dsum_gather (upos vpos : List Nat) (us vs : List (DVec α)) {p q : Nat} (hp : p < upos.length)
    (hq : q < vpos.length) :
    dsum (us.map (gatherV upos)) (vs.map (gatherV vpos)) p q = dsum us vs (upos.getD p 0) (vpos.getD q 0) := by
  induction us generalizing vs with
  | nil => simp
  | cons u us ih => cases vs with
    | nil => simp
    | cons v vs => simp only [List.map_cons, dsum_cons, ih, gatherV_get _ _ hp, gatherV_get _ _ hq]

theorem any_c_gather (pos : List Nat) (us : List (DVec α)) : (us.map (gatherV pos)).any (·.c) = us.any (·.c) := by
  induction us with
  | nil => rfl
  | cons u us ih => simp [gatherV, ih]

theorem zeroAt_get (x : DVec α) (pos : List Nat) (i : Nat) :
    (x.zeroAt pos).get i = if pos.contains i then 0 else x.get i := by
  by_cases h : i < x.len
  · simp only [DVec.zeroAt, DVec.get]
    rw [at0_tab _ _ h]
  · simp only [DVec.zeroAt, DVec.get]
    rw [at0_tab_ge _ _ (not_lt.mp h)]
    have : x.get i = 0 := get_ge x (not_lt.mp h)
    simp only [DVec.get] at this
    rw [this]; simp

@[simp] theorem zeroAt_len (x : DVec α) (pos : List Nat) : (x.zeroAt pos).len = x.len := by
  simp [DVec.zeroAt, DVec.len]

theorem dsum_zeroAt_left (pos : List Nat) (us vs : List (DVec α)) (i j : Nat) :
    dsum (us.map (fun x => x.zeroAt pos)) vs i j = if pos.contains i then 0 else dsum us vs i j := by
  induction us generalizing vs with
  | nil => simp
  | cons u us ih => cases vs with
    | nil => simp
    | cons v vs =>
      simp only [List.map_cons, dsum_cons, ih, zeroAt_get]
      split_ifs <;> simp

theorem dsum_zeroAt_right (pos : List Nat) (us vs : List (DVec α)) (i j : Nat) :
    dsum us (vs.map (fun x => x.zeroAt pos)) i j = if pos.contains j then 0 else dsum us vs i j := by
  induction us generalizing vs with
  | nil => simp
  | cons u us ih => cases vs with
    | nil => simp
    | cons v vs =>
      simp only [List.map_cons, dsum_cons, ih, zeroAt_get]
      split_ifs <;> simp


/-- positions hit by a non-null subscript on an axis of length `n` (nothing for `:`) -/
def zeroedSel (n : Nat) (ix : Idx) (i : Nat) : Bool :=
  match zeroSel n ix with
  | .ok p => p.contains i
  | .error _ => false

theorem wf_map_zeroAt_u {C : Carrier α} (w : WF C) (p : List Nat) :
    WF { C with u := C.u.map (fun x => x.zeroAt p) } :=
  ⟨by simp [w.len], fun x hx => by
      simp only [List.mem_map] at hx
      obtain ⟨y, hy, rfl⟩ := hx
      rw [zeroAt_len]; exact w.ul y hy, w.vl⟩

theorem wf_map_zeroAt_v {C : Carrier α} (w : WF C) (p : List Nat) :
    WF { C with v := C.v.map (fun x => x.zeroAt p) } :=
  ⟨by simp [w.len], w.ul, fun x hx => by
      simp only [List.mem_map] at hx
      obtain ⟨y, hy, rfl⟩ := hx
      rw [zeroAt_len]; exact w.vl y hy⟩


/-- numpy membership: position `i` is selected by subscript `ix` on an axis of length `n` (`:` selects everything) -/
def inSel (n : Nat) (ix : Idx) (i : Nat) : Bool :=
  match applyIdx n ix with
  | .ok (_, p) => p.contains i
  | .error _ => false

omit [CommRing α] [DecidableEq α] in
theorem isNull_iff (ix : Idx) : ix.isNull = true ↔ ix = .sl none none none := by
  constructor
  · intro h
    match ix, h with
    | .sl none none none, _ => rfl
  · rintro rfl; rfl

omit [CommRing α] [DecidableEq α] in
theorem applyIdx_null (n : Nat) : applyIdx n (.sl none none none) = .ok ([n], List.range n) := by
  have hp : slicePositions n none none none = .ok (List.range n) := by
    unfold slicePositions
    simp only [Option.getD_none]
    rw [if_neg (by decide)]
    simp only [show ¬ ((1 : Int) < 0) by decide, if_false, show (1 : Int) > 0 by decide, if_true]
    have hlen : (if (0 : Int) < (n : Int) then (((n : Int) - 0 - 1) / 1 + 1).toNat else 0) = n := by
      split_ifs with h
      · simp
      · omega
    rw [hlen]
    congr 1
    apply List.ext_getElem (by simp)
    intro k h1 h2
    simp
  simp only [applyIdx, hp, bind, Except.bind, pure, Except.pure, List.length_range]

omit [CommRing α] [DecidableEq α] in
theorem inSel_null (n i : Nat) : inSel n (.sl none none none) i = decide (i < n) := by
  simp [inSel, applyIdx_null]

end PymotoVerif.Dyad
