/- helper lemmas for C15: tabulated lists, range sums, `mapM` in `Except`, products with dense operands -/
import PymotoVerif.Lemmas.DyadOps

set_option linter.unusedSectionVars false
set_option linter.unnecessarySeqFocus false
set_option linter.unusedSimpArgs false

namespace PymotoVerif.Dyad
variable {α : Type} [CommRing α] [DecidableEq α]

theorem at0_tab (n : Nat) (f : Nat → Cx α) {t : Nat} (h : t < n) : at0 ((List.range n).map f) t = f t := by
  unfold at0
  rw [List.getD_eq_getElem?_getD, List.getElem?_map, List.getElem?_range h]; rfl

theorem at0_tab_ge (n : Nat) (f : Nat → Cx α) {t : Nat} (h : n ≤ t) : at0 ((List.range n).map f) t = 0 := by
  unfold at0
  rw [List.getD_eq_getElem?_getD, List.getElem?_eq_none (by simpa using h)]; rfl

/-- `Σ_{k<n} f k` as executed by the model -/
def rsum (n : Nat) (f : Nat → Cx α) : Cx α := lsum ((List.range n).map f)

theorem rsum_eq (n : Nat) (f : Nat → Cx α) : rsum n f = ((List.range n).map f).sum := lsum_eq_sum _

theorem rsum_add (n : Nat) (f g : Nat → Cx α) : rsum n (fun k => f k + g k) = rsum n f + rsum n g := by
  simp only [rsum_eq]; exact List.sum_map_add
theorem rsum_mul_left (n : Nat) (c : Cx α) (f : Nat → Cx α) : rsum n (fun k => c * f k) = c * rsum n f := by
  simp only [rsum_eq]; exact List.sum_map_mul_left _ _ _
theorem rsum_mul_right (n : Nat) (c : Cx α) (f : Nat → Cx α) : rsum n (fun k => f k * c) = rsum n f * c := by
  simp only [rsum_eq]; exact List.sum_map_mul_right _ _ _
@[simp] theorem rsum_zero (n : Nat) : rsum n (fun _ => (0 : Cx α)) = 0 := by
  simp [rsum_eq]
theorem rsum_congr (n : Nat) {f g : Nat → Cx α} (h : ∀ k < n, f k = g k) : rsum n f = rsum n g := by
  unfold rsum
  congr 1
  exact List.map_congr_left (fun k hk => h k (List.mem_range.mp hk))

theorem mapM_cons_ok {β γ : Type} {f : β → Except Err γ} {a : β} {l : List β} {r : List γ} :
    (a :: l).mapM f = .ok r ↔ ∃ b bs, f a = .ok b ∧ l.mapM f = .ok bs ∧ r = b :: bs := by
  rw [List.mapM_cons]
  constructor
  · intro h
    obtain ⟨b, hb, h⟩ := bind_ok_iff.mp h
    obtain ⟨bs, hbs, h⟩ := bind_ok_iff.mp h
    simp only [pure, Except.pure, Except.ok.injEq] at h
    exact ⟨b, bs, hb, hbs, h.symm⟩
  · rintro ⟨b, bs, hb, hbs, rfl⟩
    simp [hb, hbs, bind, Except.bind, pure, Except.pure]

theorem mapM_nil_ok {β γ : Type} {f : β → Except Err γ} {r : List γ} :
    ([] : List β).mapM f = .ok r ↔ r = [] := by
  simp [List.mapM_nil, pure, Except.pure, eq_comm]

/-- `lsum (zipWith (*) a b)` is the range sum when the lengths agree -/
theorem zip_dot (a b : List (Cx α)) (h : a.length = b.length) :
    lsum (List.zipWith (· * ·) a b) = rsum a.length (fun k => at0 a k * at0 b k) := by
  induction a generalizing b with
  | nil => simp [rsum, lsum]
  | cons x a ih => cases b with
    | nil => simp at h
    | cons y b =>
      simp only [List.length_cons, Nat.add_right_cancel_iff] at h
      have := ih b h
      simp only [List.zipWith_cons_cons, lsum, List.foldr_cons] at this ⊢
      rw [this, rsum_eq, rsum_eq, List.length_cons, List.range_succ_eq_map, List.map_cons, List.sum_cons,
        List.map_map]
      rfl

theorem vdot_ok {a b : DVec α} {s : Cx α} (h : vdot a b = .ok s) :
    a.len = b.len ∧ s = rsum a.len (fun k => a.get k * b.get k) := by
  unfold vdot at h
  split_ifs at h with hl
  simp only [ne_eq, not_not] at hl
  simp only [Except.ok.injEq] at h
  exact ⟨hl, by rw [← h]; exact zip_dot a.d b.d hl⟩

/-- entries of `x @ M` -/
theorem vecMat_ok {x y : DVec α} {M : NArr α} (h : vecMat x M = .ok y) :
    ∃ m n, M.shape = [m, n] ∧ x.len = m ∧ y.len = n ∧ y.c = (x.c || M.c)
      ∧ ∀ j, j < n → y.get j = rsum m (fun k => x.get k * at0 M.data (k * n + j)) := by
  unfold vecMat at h
  split at h
  · rename_i m n hs
    split_ifs at h with hl
    simp only [ne_eq, not_not] at hl
    simp only [Except.ok.injEq] at h
    subst h
    exact ⟨m, n, hs, hl, by simp [DVec.len], rfl, fun j hj => at0_tab n _ hj⟩
  · simp at h

/-- entries of `M @ x` -/
theorem matVec_ok {x y : DVec α} {M : NArr α} (h : matVec M x = .ok y) :
    ∃ m n, M.shape = [m, n] ∧ x.len = n ∧ y.len = m ∧ y.c = (x.c || M.c)
      ∧ ∀ i, i < m → y.get i = rsum n (fun k => at0 M.data (i * n + k) * x.get k) := by
  unfold matVec at h
  split at h
  · rename_i m n hs
    split_ifs at h with hl
    simp only [ne_eq, not_not] at hl
    simp only [Except.ok.injEq] at h
    subst h
    exact ⟨m, n, hs, hl, by simp [DVec.len], rfl, fun i hi => at0_tab m _ hi⟩
  · simp at h

/-- a stored vector is zero beyond its length -/
theorem get_ge (x : DVec α) {i : Nat} (h : x.len ≤ i) : x.get i = 0 := by
  unfold DVec.get at0
  rw [List.getD_eq_getElem?_getD, List.getElem?_eq_none (by simpa [DVec.len] using h)]; rfl

/-- the dense matrix of a well-formed carrier vanishes outside its shape -/
theorem dense_outside {C : Carrier α} (w : WF C) {i j : Nat} (h : C.ulen ≤ i ∨ C.vlen ≤ j) : dense C i j = 0 := by
  unfold dense
  have hu := w.ul; have hv := w.vl
  generalize C.u = us at hu ⊢
  generalize C.v = vs at hv ⊢
  induction us generalizing vs with
  | nil => simp
  | cons u us ih => cases vs with
    | nil => simp
    | cons v vs =>
      rw [dsum_cons, ih (fun x hx => hu x (by simp [hx])) vs (fun x hx => hv x (by simp [hx]))]
      have h1 := hu u (by simp); have h2 := hv v (by simp)
      rcases h with h | h
      · rw [get_ge u (by omega)]; simp
      · rw [get_ge v (by omega)]; simp


/-- `[vi @ M for vi in vs0]` : dense effect, lengths, dtype flags -/
theorem mapM_vecMat_dsum {M : NArr α} {m n : Nat} (hs : M.shape = [m, n]) :
    ∀ {vs0 vs : List (DVec α)}, vs0.mapM (fun vi => vecMat vi M) = .ok vs →
      vs.length = vs0.length
      ∧ vs.any (·.c) = (vs0.any (·.c) || (!vs0.isEmpty && M.c))
      ∧ ∀ (us : List (DVec α)) (i j : Nat), j < n →
          dsum us vs i j = rsum m (fun k => dsum us vs0 i k * at0 M.data (k * n + j)) := by
  intro vs0
  induction vs0 with
  | nil =>
    intro vs h
    rw [mapM_nil_ok] at h; subst h
    exact ⟨rfl, rfl, fun us i j _ => by simp⟩
  | cons x xs ih =>
    intro vs h
    obtain ⟨y, ys, hy, hys, rfl⟩ := mapM_cons_ok.mp h
    obtain ⟨l1, a1, d1⟩ := ih hys
    obtain ⟨m', n', hs', _, _, yc, yg⟩ := vecMat_ok hy
    rw [hs] at hs'
    simp only [List.cons.injEq, and_true] at hs'
    obtain ⟨rfl, rfl⟩ := hs'
    refine ⟨by simp [l1], ?_, fun us i j hj => ?_⟩
    · simp only [List.any_cons, a1, yc, List.isEmpty_cons, Bool.not_false, Bool.true_and]
      cases x.c <;> cases M.c <;> cases xs.isEmpty <;> simp
    · cases us with
      | nil => simp
      | cons u us =>
        have e : rsum m (fun k => dsum (u :: us) (x :: xs) i k * at0 M.data (k * n + j))
            = u.get i * rsum m (fun k => x.get k * at0 M.data (k * n + j))
              + rsum m (fun k => dsum us xs i k * at0 M.data (k * n + j)) := by
          rw [rsum_congr m (g := fun k => u.get i * (x.get k * at0 M.data (k * n + j))
              + dsum us xs i k * at0 M.data (k * n + j)) (fun k _ => by rw [dsum_cons]; ring)]
          rw [rsum_add, rsum_mul_left]
        rw [dsum_cons, d1 us i j hj, yg j hj, e]

/-- `[M @ ui for ui in us0]` -/
theorem mapM_matVec_dsum {M : NArr α} {m n : Nat} (hs : M.shape = [m, n]) :
    ∀ {us0 us : List (DVec α)}, us0.mapM (fun ui => matVec M ui) = .ok us →
      us.length = us0.length
      ∧ us.any (·.c) = (us0.any (·.c) || (!us0.isEmpty && M.c))
      ∧ ∀ (vs : List (DVec α)) (i j : Nat), i < m →
          dsum us vs i j = rsum n (fun k => at0 M.data (i * n + k) * dsum us0 vs k j) := by
  intro us0
  induction us0 with
  | nil =>
    intro us h
    rw [mapM_nil_ok] at h; subst h
    exact ⟨rfl, rfl, fun vs i j _ => by simp⟩
  | cons x xs ih =>
    intro us h
    obtain ⟨y, ys, hy, hys, rfl⟩ := mapM_cons_ok.mp h
    obtain ⟨l1, a1, d1⟩ := ih hys
    obtain ⟨m', n', hs', _, _, yc, yg⟩ := matVec_ok hy
    rw [hs] at hs'
    simp only [List.cons.injEq, and_true] at hs'
    obtain ⟨rfl, rfl⟩ := hs'
    refine ⟨by simp [l1], ?_, fun vs i j hi => ?_⟩
    · simp only [List.any_cons, a1, yc, List.isEmpty_cons, Bool.not_false, Bool.true_and]
      cases x.c <;> cases M.c <;> cases xs.isEmpty <;> simp
    · cases vs with
      | nil => simp
      | cons v vs =>
        have e : rsum n (fun k => at0 M.data (i * n + k) * dsum (x :: xs) (v :: vs) k j)
            = rsum n (fun k => at0 M.data (i * n + k) * x.get k) * v.get j
              + rsum n (fun k => at0 M.data (i * n + k) * dsum xs vs k j) := by
          rw [rsum_congr n (g := fun k => (at0 M.data (i * n + k) * x.get k) * v.get j
              + at0 M.data (i * n + k) * dsum xs vs k j) (fun k _ => by rw [dsum_cons]; ring)]
          rw [rsum_add, rsum_mul_right]
        rw [dsum_cons, d1 vs i j hi, yg i hi, e]

/-- the accumulation loop of `__dot__` : `Σ_k u_k[i] (v_k · x) = Σ_l A[i,l] x[l]` -/
theorem mapM_dot_dsum {x : DVec α} : ∀ {us vs : List (DVec α)} {cs : List (Cx α × DVec α)},
    (List.zip us vs).mapM (fun (p : DVec α × DVec α) => do
        let s ← vdot p.2 x
        pure (s, p.1)) = .ok cs →
    ∀ i, lsum (cs.map (fun (t : Cx α × DVec α) => t.2.get i * t.1)) = rsum x.len (fun l => dsum us vs i l * x.get l) := by
  intro us
  induction us with
  | nil =>
    intro vs cs h i
    simp only [List.zip_nil_left] at h
    rw [mapM_nil_ok] at h; subst h
    simp [lsum]
  | cons u us ih =>
    intro vs cs h i
    cases vs with
    | nil =>
      simp only [List.zip_nil_right] at h
      rw [mapM_nil_ok] at h; subst h
      simp [lsum]
    | cons v vs =>
      simp only [List.zip_cons_cons] at h
      obtain ⟨b, bs, hb, hbs, rfl⟩ := mapM_cons_ok.mp h
      obtain ⟨s, hsx, hb⟩ := bind_ok_iff.mp hb
      simp only [pure, Except.pure, Except.ok.injEq] at hb
      subst hb
      obtain ⟨hl, rfl⟩ := vdot_ok hsx
      have := ih hbs i
      simp only [List.map_cons, lsum, List.foldr_cons] at this ⊢
      have e : rsum x.len (fun l => dsum (u :: us) (v :: vs) i l * x.get l)
          = u.get i * rsum x.len (fun l => v.get l * x.get l) + rsum x.len (fun l => dsum us vs i l * x.get l) := by
        rw [rsum_congr x.len (g := fun l => u.get i * (v.get l * x.get l) + dsum us vs i l * x.get l)
            (fun l _ => by rw [dsum_cons]; ring)]
        rw [rsum_add, rsum_mul_left]
      rw [this, hl, e]

/-- the accumulation loop of `__rdot__` : `Σ_k v_k[j] (x · u_k) = Σ_l x[l] A[l,j]` -/
theorem mapM_rdot_dsum {x : DVec α} : ∀ {us vs : List (DVec α)} {cs : List (Cx α × DVec α)},
    (List.zip us vs).mapM (fun (p : DVec α × DVec α) => do
        let s ← vdot x p.1
        pure (s, p.2)) = .ok cs →
    ∀ j, lsum (cs.map (fun (t : Cx α × DVec α) => t.2.get j * t.1)) = rsum x.len (fun l => x.get l * dsum us vs l j) := by
  intro us
  induction us with
  | nil =>
    intro vs cs h j
    simp only [List.zip_nil_left] at h
    rw [mapM_nil_ok] at h; subst h
    simp [lsum]
  | cons u us ih =>
    intro vs cs h j
    cases vs with
    | nil =>
      simp only [List.zip_nil_right] at h
      rw [mapM_nil_ok] at h; subst h
      simp [lsum]
    | cons v vs =>
      simp only [List.zip_cons_cons] at h
      obtain ⟨b, bs, hb, hbs, rfl⟩ := mapM_cons_ok.mp h
      obtain ⟨s, hsx, hb⟩ := bind_ok_iff.mp hb
      simp only [pure, Except.pure, Except.ok.injEq] at hb
      subst hb
      obtain ⟨hl, rfl⟩ := vdot_ok hsx
      have := ih hbs j
      simp only [List.map_cons, lsum, List.foldr_cons] at this ⊢
      have e : rsum x.len (fun l => x.get l * dsum (u :: us) (v :: vs) l j)
          = rsum x.len (fun l => x.get l * u.get l) * v.get j + rsum x.len (fun l => x.get l * dsum us vs l j) := by
        rw [rsum_congr x.len (g := fun l => (x.get l * u.get l) * v.get j + x.get l * dsum us vs l j)
            (fun l _ => by rw [dsum_cons]; ring)]
        rw [rsum_add, rsum_mul_right]
      rw [this, e]; ring


/-- `[vi @ O for vi in vs0]` for a carrier `O` (each `vi @ O` is `O.__rdot__(vi)`) -/
theorem mapM_rdotD_dsum {O : Carrier α} {L : Nat} :
    ∀ {vs0 vs : List (DVec α)}, (∀ x ∈ vs0, x.len = L) →
      vs0.mapM (fun vi => do
        let r ← rdotV vi O
        pure (⟨r.data, r.c⟩ : DVec α)) = .ok vs →
      vs.length = vs0.length
      ∧ ∀ (us : List (DVec α)) (i j : Nat), j < O.vlen.toNat →
          dsum us vs i j = rsum L (fun l => dsum us vs0 i l * dense O l j) := by
  intro vs0
  induction vs0 with
  | nil =>
    intro vs _ h
    rw [mapM_nil_ok] at h; subst h
    exact ⟨rfl, fun us i j _ => by simp⟩
  | cons x xs ih =>
    intro vs hl h
    obtain ⟨y, ys, hy, hys, rfl⟩ := mapM_cons_ok.mp h
    obtain ⟨l1, d1⟩ := ih (fun z hz => hl z (by simp [hz])) hys
    obtain ⟨r, hr, hy⟩ := bind_ok_iff.mp hy
    simp only [pure, Except.pure, Except.ok.injEq] at hy
    subst hy
    have hx : x.len = L := hl x (by simp)
    refine ⟨by simp [l1], fun us i j hj => ?_⟩
    cases us with
    | nil => simp
    | cons u us =>
      have yg : (⟨r.data, r.c⟩ : DVec α).get j = rsum L (fun l => x.get l * dense O l j) := by
        unfold rdotV at hr
        obtain ⟨cs, hcs, hr⟩ := bind_ok_iff.mp hr
        simp only [pure, Except.pure, Except.ok.injEq] at hr
        subst hr
        simp only [DVec.get, accum]
        rw [at0_tab _ _ hj, ← hx]
        exact mapM_rdot_dsum hcs j
      have e : rsum L (fun l => dsum (u :: us) (x :: xs) i l * dense O l j)
          = u.get i * rsum L (fun l => x.get l * dense O l j) + rsum L (fun l => dsum us xs i l * dense O l j) := by
        rw [rsum_congr L (g := fun l => u.get i * (x.get l * dense O l j) + dsum us xs i l * dense O l j)
            (fun l _ => by rw [dsum_cons]; ring)]
        rw [rsum_add, rsum_mul_left]
      rw [dsum_cons, d1 us i j hj, yg, e]

end PymotoVerif.Dyad
