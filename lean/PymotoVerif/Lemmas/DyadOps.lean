/- helper lemmas for C15: how `dsum` behaves under the vector maps used by the operations -/
import PymotoVerif.Lemmas.Dyad

set_option linter.unusedSectionVars false
set_option linter.unnecessarySeqFocus false

namespace PymotoVerif.Dyad
variable {α : Type} [CommRing α] [DecidableEq α]

theorem WF.nil_of_neg_u {C : Carrier α} (w : WF C) (h : C.ulen < 0) : C.u = [] ∧ C.v = [] := by
  have hu : C.u = [] := by
    cases hC : C.u with
    | nil => rfl
    | cons x xs =>
      have := w.ul x (by simp [hC])
      have : (0 : Int) ≤ x.len := Int.natCast_nonneg _
      omega
  refine ⟨hu, ?_⟩
  have := w.len
  rw [hu] at this
  exact List.eq_nil_of_length_eq_zero this.symm

theorem WF.nil_of_neg_v {C : Carrier α} (w : WF C) (h : C.vlen < 0) : C.u = [] ∧ C.v = [] := by
  have hv : C.v = [] := by
    cases hC : C.v with
    | nil => rfl
    | cons x xs =>
      have := w.vl x (by simp [hC])
      have : (0 : Int) ≤ x.len := Int.natCast_nonneg _
      omega
  refine ⟨?_, hv⟩
  have := w.len
  rw [hv] at this
  exact List.eq_nil_of_length_eq_zero this

/-- result shape of a constructor call that passes the operand's own shape -/
theorem ofVecs_shape {us vs : List (DVec α)} {ul vl : Int} {D : Carrier α} (h : ofVecs us vs ul vl = .ok D)
    (hu : us = [] ∨ 0 ≤ ul) (hv : us = [] ∨ 0 ≤ vl) : D.ulen = ul ∧ D.vlen = vl := by
  obtain ⟨_, _, _, _, su, sv, se, _, _⟩ := ofVecs_ok h
  constructor
  · rcases hu with e | e
    · rw [se e]; rfl
    · exact su e
  · rcases hv with e | e
    · rw [se e]; rfl
    · exact sv e

theorem WF.shape_ok {C : Carrier α} (w : WF C) : (C.u = [] ∨ 0 ≤ C.ulen) ∧ (C.u = [] ∨ 0 ≤ C.vlen) := by
  constructor
  · by_cases h : C.ulen < 0
    · exact Or.inl (w.nil_of_neg_u h).1
    · exact Or.inr (not_lt.mp h)
  · by_cases h : C.vlen < 0
    · exact Or.inl (w.nil_of_neg_v h).1
    · exact Or.inr (not_lt.mp h)

theorem dsum_map_left {F : DVec α → DVec α} {c : Cx α} {i : Nat} (hF : ∀ u, (F u).get i = c * u.get i)
    (us vs : List (DVec α)) (j : Nat) : dsum (us.map F) vs i j = c * dsum us vs i j := by
  induction us generalizing vs with
  | nil => simp
  | cons u us ih => cases vs with
    | nil => simp
    | cons v vs => simp only [List.map_cons, dsum_cons, ih, hF]; ring

theorem dsum_map_right {G : DVec α → DVec α} {c : Cx α} {j : Nat} (hG : ∀ v, (G v).get j = v.get j * c)
    (us vs : List (DVec α)) (i : Nat) : dsum us (vs.map G) i j = dsum us vs i j * c := by
  induction us generalizing vs with
  | nil => simp
  | cons u us ih => cases vs with
    | nil => simp
    | cons v vs => simp only [List.map_cons, dsum_cons, ih, hG]; ring

theorem dsum_swap (us vs : List (DVec α)) (i j : Nat) : dsum vs us j i = dsum us vs i j := by
  induction us generalizing vs with
  | nil => simp
  | cons u us ih => cases vs with
    | nil => simp
    | cons v vs => simp only [dsum_cons, ih]; ring

theorem dsum_conj (us vs : List (DVec α)) (i j : Nat) :
    dsum (us.map (DVec.map Cx.conj)) (vs.map (DVec.map Cx.conj)) i j = Cx.conj (dsum us vs i j) := by
  induction us generalizing vs with
  | nil => simp [Cx.conj_zero]
  | cons u us ih => cases vs with
    | nil => simp [Cx.conj_zero]
    | cons v vs =>
      simp only [List.map_cons, dsum_cons, ih, get_map Cx.conj_zero, Cx.conj_add, Cx.conj_mul]

@[simp] theorem get_re (x : DVec α) (i : Nat) : x.re.get i = Cx.rePart (x.get i) := at0_map Cx.rePart_zero x.d i
@[simp] theorem get_im (x : DVec α) (i : Nat) : x.im.get i = Cx.imPart (x.get i) := at0_map Cx.imPart_zero x.d i
@[simp] theorem get_negIm (x : DVec α) (i : Nat) : x.negIm.get i = -Cx.imPart (x.get i) :=
  at0_map (f := fun z => -(Cx.imPart z)) (by simp [Cx.imPart_zero]) x.d i

theorem dsum_real (us vs : List (DVec α)) (i j : Nat) :
    dsum (us.map DVec.re) (vs.map DVec.re) i j + dsum (us.map DVec.negIm) (vs.map DVec.im) i j
      = Cx.rePart (dsum us vs i j) := by
  induction us generalizing vs with
  | nil => simp [Cx.rePart_zero]
  | cons u us ih => cases vs with
    | nil => simp [Cx.rePart_zero]
    | cons v vs =>
      simp only [List.map_cons, dsum_cons, get_re, get_im, get_negIm, Cx.rePart_add, Cx.rePart_mul, ← ih]; ring

theorem dsum_imag (us vs : List (DVec α)) (i j : Nat) :
    dsum (us.map DVec.re) (vs.map DVec.im) i j + dsum (us.map DVec.im) (vs.map DVec.re) i j
      = Cx.imPart (dsum us vs i j) := by
  induction us generalizing vs with
  | nil => simp [Cx.imPart_zero]
  | cons u us ih => cases vs with
    | nil => simp [Cx.imPart_zero]
    | cons v vs =>
      simp only [List.map_cons, dsum_cons, get_re, get_im, Cx.imPart_add, Cx.imPart_mul, ← ih]; ring


/-- the carrier's dtype flag is exactly the promotion of its stored vectors' dtypes. A carrier whose flag is complex
    while no stored vector is (the complex dyads were zero and dropped) is *loose*: the code recomputes the flag
    from the stored vectors in every derived operation (open finding `dtype_lost_on_copy`). -/
def Tight (C : Carrier α) : Prop := C.c = (C.u.any (·.c) || C.v.any (·.c))

@[simp] theorem any_c_map (f : Cx α → Cx α) (us : List (DVec α)) :
    (us.map (DVec.map f)).any (·.c) = us.any (·.c) := by
  induction us with
  | nil => rfl
  | cons u us ih => simp [DVec.map, ih]

@[simp] theorem any_c_re (us : List (DVec α)) : (us.map DVec.re).any (·.c) = false := by
  induction us with
  | nil => rfl
  | cons u us ih => simp [DVec.re]
@[simp] theorem any_c_im (us : List (DVec α)) : (us.map DVec.im).any (·.c) = false := by
  induction us with
  | nil => rfl
  | cons u us ih => simp [DVec.im]
@[simp] theorem any_c_negIm (us : List (DVec α)) : (us.map DVec.negIm).any (·.c) = false := by
  induction us with
  | nil => rfl
  | cons u us ih => simp [DVec.negIm]


theorem fmul_add (fac : Option (Cx α)) (a b : Cx α) : fmul fac (a + b) = fmul fac a + fmul fac b := by
  cases fac <;> simp [fmul, mul_add]
theorem fmul_mul (fac : Option (Cx α)) (a b : Cx α) : fmul fac a * b = fmul fac (a * b) := by
  cases fac <;> simp [fmul, mul_assoc]
@[simp] theorem fmul_zero (fac : Option (Cx α)) : fmul fac (0 : Cx α) = 0 := by
  cases fac <;> simp [fmul]

theorem psum_zip_toArr_fac (fac : Option (Cx α)) (us vs : List (DVec α)) (i j : Nat) :
    psum fac ((us.map DVec.toArr).zip (vs.map DVec.toArr)) i j = fmul fac (dsum us vs i j) := by
  induction us generalizing vs with
  | nil => simp
  | cons u us ih => cases vs with
    | nil => simp
    | cons v vs => simp [ih, fmul_add, fmul_mul]

theorem negOne_eq : (negOne : Cx α) = -1 := by
  apply Cx.ext' <;> simp [negOne]

/-- specification of `add_dyad(other.u, other.v, fac)` on stored vectors (`+=`, `-=`) -/
theorem addVecs_ok {C R : Carrier α} {us vs : List (DVec α)} {fac : Option (Cx α)}
    (h : addDyad C (us.map DVec.toArr) (some (vs.map DVec.toArr)) fac = (R, none)) :
    us.length = vs.length
    ∧ R.c = (C.c || us.any (·.c) || vs.any (·.c))
    ∧ (0 ≤ C.ulen → R.ulen = C.ulen) ∧ (0 ≤ C.vlen → R.vlen = C.vlen)
    ∧ (us = [] → R = C)
    ∧ (∀ x ∈ us, (x.len : Int) = R.ulen) ∧ (∀ x ∈ vs, (x.len : Int) = R.vlen)
    ∧ (WF C → WF R ∧ ∀ i j, dense R i j = dense C i j + fmul fac (dsum us vs i j)) := by
  unfold addDyad at h
  simp only [Option.getD_some, List.length_map] at h
  split_ifs at h with hl
  · simp at h
  · simp only [ne_eq, not_not] at hl
    obtain ⟨ic, iu, iv, ie, il, iw⟩ := addLoop_ok h
    obtain ⟨ma, mb⟩ := mem_zip_toArr hl
    refine ⟨hl, ?_, iu, iv, ?_, ?_, ?_, ?_⟩
    · rw [ic, any_zip_toArr us vs hl, Bool.or_assoc]
    · intro e; subst e; exact ie (by simp)
    · intro x hx
      obtain ⟨p, hp, e⟩ := ma x hx
      have := (il p hp).1
      rw [e, sumLead_toArr] at this; exact this
    · intro x hx
      obtain ⟨p, hp, e⟩ := mb x hx
      have := (il p hp).2
      rw [e, sumLead_toArr] at this; exact this
    · intro w
      obtain ⟨w', d⟩ := iw w
      exact ⟨w', fun i j => by rw [d, psum_zip_toArr_fac]⟩

theorem get_scaleL (z : Cx α) (zc : Bool) (x : DVec α) (i : Nat) :
    (⟨x.d.map (fun w => z * w), x.c || zc⟩ : DVec α).get i = z * x.get i :=
  at0_map (f := fun w => z * w) (by simp) x.d i
theorem get_scaleR (z : Cx α) (zc : Bool) (x : DVec α) (i : Nat) :
    (⟨x.d.map (fun w => w * z), x.c || zc⟩ : DVec α).get i = x.get i * z :=
  at0_map (f := fun w => w * z) (by simp) x.d i

theorem any_c_scale (g : Cx α → Cx α) (zc : Bool) (us : List (DVec α)) :
    (us.map (fun x => (⟨x.d.map g, x.c || zc⟩ : DVec α))).any (·.c) = (us.any (·.c) || (!us.isEmpty && zc)) := by
  induction us with
  | nil => rfl
  | cons u us ih =>
    simp only [List.map_cons, List.any_cons, ih, List.isEmpty_cons, Bool.not_false, Bool.true_and]
    cases u.c <;> cases zc <;> cases us.isEmpty <;> simp


/-! ### success: conforming vectors are never rejected -/

theorem addOne_succeeds {fac : Option (Cx α)} {C : Carrier α} {ui vi : NArr α} {L1 L2 : Nat}
    (h1 : (sumLead ui).len = L1) (h2 : (sumLead vi).len = L2)
    (hu : C.ulen < 0 ∨ C.ulen = L1) (hv : C.vlen < 0 ∨ C.vlen = L2) :
    (addOne fac C ui vi).2 = none ∧ (addOne fac C ui vi).1.ulen = L1 ∧ (addOne fac C ui vi).1.vlen = L2 := by
  subst h1; subst h2
  have e1 : (if C.ulen < 0 then ((sumLead ui).len : Int) else C.ulen) = (sumLead ui).len := by
    rcases hu with h | h
    · rw [if_pos h]
    · rw [if_neg (by omega), h]
  have e2 : (if C.vlen < 0 then ((sumLead vi).len : Int) else C.vlen) = (sumLead vi).len := by
    rcases hv with h | h
    · rw [if_pos h]
    · rw [if_neg (by omega), h]
  unfold addOne
  simp only [e1, e2, ne_eq, not_true_eq_false, if_false]
  split_ifs <;> exact ⟨rfl, rfl, rfl⟩

theorem addLoop_succeeds {fac : Option (Cx α)} {L1 L2 : Nat} : ∀ {pairs : List (NArr α × NArr α)} {C : Carrier α},
    (∀ p ∈ pairs, (sumLead p.1).len = L1 ∧ (sumLead p.2).len = L2) →
    (C.ulen < 0 ∨ C.ulen = L1) → (C.vlen < 0 ∨ C.vlen = L2) → (addLoop fac C pairs).2 = none := by
  intro pairs
  induction pairs with
  | nil => intro C _ _ _; rfl
  | cons p ps ih =>
    intro C hp hu hv
    obtain ⟨ui, vi⟩ := p
    obtain ⟨a, b, c⟩ := addOne_succeeds (fac := fac) (hp (ui, vi) (by simp)).1 (hp (ui, vi) (by simp)).2 hu hv
    simp only [addLoop]
    cases h : addOne fac C ui vi with
    | mk C1 e =>
      rw [h] at a b c
      simp only at a b c
      subst a
      simp only
      exact ih (fun q hq => hp q (by simp [hq])) (Or.inr b) (Or.inr c)

/-- the constructor call of the derived operations never raises on conforming stored vectors -/
theorem ofVecs_succeeds {us vs : List (DVec α)} {ul vl : Int} {L1 L2 : Nat} (hl : us.length = vs.length)
    (h1 : ∀ x ∈ us, x.len = L1) (h2 : ∀ x ∈ vs, x.len = L2) (hu : ul < 0 ∨ ul = L1) (hv : vl < 0 ∨ vl = L2) :
    ∃ D, ofVecs us vs ul vl = .ok D := by
  unfold ofVecs new addDyad
  simp only [Option.getD_some, List.length_map, hl, ne_eq, not_true_eq_false, if_false]
  have := addLoop_succeeds (fac := (none : Option (Cx α))) (L1 := L1) (L2 := L2)
    (pairs := (us.map DVec.toArr).zip (vs.map DVec.toArr)) (C := empty ul vl) (fun p hp => by
      obtain ⟨a, b⟩ := List.of_mem_zip hp
      simp only [List.mem_map] at a b
      obtain ⟨x, hx, ex⟩ := a
      obtain ⟨y, hy, ey⟩ := b
      rw [← ex, ← ey, sumLead_toArr, sumLead_toArr]
      exact ⟨h1 x hx, h2 y hy⟩) hu hv
  cases h : addLoop none (empty ul vl) ((us.map DVec.toArr).zip (vs.map DVec.toArr)) with
  | mk C1 e =>
    rw [h] at this
    simp only at this
    subst this
    exact ⟨C1, rfl⟩

/-- shape hypotheses of `ofVecs_succeeds` from well-formedness -/
theorem WF.lens {C : Carrier α} (w : WF C) :
    (∀ x ∈ C.u, x.len = C.ulen.toNat) ∧ (∀ x ∈ C.v, x.len = C.vlen.toNat)
      ∧ (C.ulen < 0 ∨ C.ulen = (C.ulen.toNat : Int)) ∧ (C.vlen < 0 ∨ C.vlen = (C.vlen.toNat : Int)) :=
  ⟨fun x hx => by have := w.ul x hx; omega, fun x hx => by have := w.vl x hx; omega, by omega, by omega⟩

end PymotoVerif.Dyad
