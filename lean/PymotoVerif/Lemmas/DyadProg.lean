/- C15: the DENSE interpreter of operation programs (the specification side of `dyad_program_refines_dense`),
   the abstraction of a register file, and the admissibility predicate ("the dense operation is defined"). -/
import PymotoVerif.Lemmas.DyadContract

set_option linter.unusedSectionVars false
set_option linter.unnecessarySeqFocus false
set_option linter.unusedSimpArgs false

namespace PymotoVerif.Dyad
variable {α : Type} [CommRing α] [DecidableEq α]

/-- a dense matrix: shape (as stored by the carrier, `-1` = unset) and entries (0 outside the shape) -/
structure DMat (α : Type) where
  ulen : Int
  vlen : Int
  f : Nat → Nat → Cx α

/-- abstraction function on carriers: shape and `Σ_k u_k ⊗ v_k` -/
def absM (C : Carrier α) : DMat α := ⟨C.ulen, C.vlen, dense C⟩

/-- dense meaning of the unary operations -/
def dUn (op : UnOp) (M : DMat α) : DMat α :=
  match op with
  | .copy => M
  | .pos => M
  | .neg => ⟨M.ulen, M.vlen, fun i j => - M.f i j⟩
  | .conj => ⟨M.ulen, M.vlen, fun i j => Cx.conj (M.f i j)⟩
  | .real => ⟨M.ulen, M.vlen, fun i j => Cx.rePart (M.f i j)⟩
  | .imag => ⟨M.ulen, M.vlen, fun i j => Cx.imPart (M.f i j)⟩
  | .transpose => ⟨M.vlen, M.ulen, fun i j => M.f j i⟩

/-- the argument pairs of `add_dyad(u, v)` (`v = None`: symmetric) -/
def pairsOf (u : List (NArr α)) (v : Option (List (NArr α))) : List (NArr α × NArr α) := u.zip (v.getD u)

/-- shape fixed by the first dyad when unset -/
def fixLen (l : Int) (first : Option Nat) : Int :=
  if l < 0 then (match first with | some n => (n : Int) | none => l) else l

/-- dense meaning of `DyadCarrier(u, v, shape)` : `Σ_k (Σ-leading u_k) ⊗ (Σ-leading v_k)` -/
def dNew (u : List (NArr α)) (v : Option (List (NArr α))) (ul vl : Int) : DMat α :=
  let ps := pairsOf u v
  ⟨fixLen ul (ps.head?.map (fun p => (sumLead p.1).len)), fixLen vl (ps.head?.map (fun p => (sumLead p.2).len)),
   psum none ps⟩

/-- dense step: what the same instruction does to a list of dense matrices. Instructions returning values leave the
    list unchanged. -/
def dstep (denv : List (DMat α)) : Instr α → List (DMat α)
  | .new u v ul vl => denv ++ [dNew u v ul vl]
  | .addDyad r u v fac =>
    match denv[r]? with
    | some M => denv.set r ⟨M.ulen, M.vlen, fun i j => M.f i j + psum fac (pairsOf u v) i j⟩
    | none => denv
  | .getitem r i0 i1 =>
    match denv[r]? with
    | some M =>
      if M.ulen < 0 ∧ M.vlen < 0 then denv ++ [⟨-1, -1, fun _ _ => 0⟩]
      else match applyIdx M.ulen.toNat i0, applyIdx M.vlen.toNat i1 with
        | .ok (ush, upos), .ok (vsh, vpos) =>
          if ush.isEmpty || vsh.isEmpty || (i0.isArr && i1.isArr) then denv
          else denv ++ [⟨upos.length, vpos.length,
            fun p q => if p < upos.length ∧ q < vpos.length then M.f (upos.getD p 0) (vpos.getD q 0) else 0⟩]
        | _, _ => denv
    | none => denv
  | .setitem r i0 i1 _ =>
    match denv[r]? with
    | some M => denv.set r ⟨M.ulen, M.vlen, fun i j =>
        if inSel M.ulen.toNat i0 i && inSel M.vlen.toNat i1 j then 0 else M.f i j⟩   -- numpy: `A[i0, i1] = 0`
    | none => denv
  | .un op r =>
    match denv[r]? with
    | some M => denv ++ [dUn op M]
    | none => denv
  | .iadd r s =>
    match denv[r]?, denv[s]? with
    | some M, some N => denv.set r ⟨M.ulen, M.vlen, fun i j => M.f i j + N.f i j⟩
    | _, _ => denv
  | .isub r s =>
    match denv[r]?, denv[s]? with
    | some M, some N => denv.set r ⟨M.ulen, M.vlen, fun i j => M.f i j - N.f i j⟩
    | _, _ => denv
  | .addS r _ =>
    match denv[r]? with
    | some M => denv ++ [M]
    | none => denv
  | .subS r _ =>
    match denv[r]? with
    | some M => denv ++ [M]
    | none => denv
  | .rsubS _ r =>
    match denv[r]? with
    | some M => denv ++ [⟨M.ulen, M.vlen, fun i j => - M.f i j⟩]
    | none => denv
  | .addD r s =>
    match denv[r]?, denv[s]? with
    | some M, some N => denv ++ [⟨M.ulen, M.vlen, fun i j => M.f i j + N.f i j⟩]
    | _, _ => denv
  | .subD r s =>
    match denv[r]?, denv[s]? with
    | some M, some N => denv ++ [⟨M.ulen, M.vlen, fun i j => M.f i j - N.f i j⟩]
    | _, _ => denv
  | .mul r z _ =>
    match denv[r]? with
    | some M => denv ++ [⟨M.ulen, M.vlen, fun i j => M.f i j * z⟩]
    | none => denv
  | .rmul z _ r =>
    match denv[r]? with
    | some M => denv ++ [⟨M.ulen, M.vlen, fun i j => z * M.f i j⟩]
    | none => denv
  | .matmulM r B =>
    match denv[r]? with
    | some M =>
      let m := B.shape.getD 0 0
      let n := B.shape.getD 1 0
      denv ++ [⟨M.ulen, n, fun i j => if j < n then rsum m (fun k => M.f i k * at0 B.data (k * n + j)) else 0⟩]
    | none => denv
  | .rmatmulM B r =>
    match denv[r]? with
    | some M =>
      let m := B.shape.getD 0 0
      let n := B.shape.getD 1 0
      denv ++ [⟨m, M.vlen, fun i j => if i < m then rsum n (fun k => at0 B.data (i * n + k) * M.f k j) else 0⟩]
    | none => denv
  | .matmulD r s =>
    match denv[r]?, denv[s]? with
    | some M, some N =>
      denv ++ [⟨M.ulen, N.vlen, fun i j =>
        if j < N.vlen.toNat then rsum M.vlen.toNat (fun l => M.f i l * N.f l j) else 0⟩]
    | _, _ => denv
  | .addA .. => denv
  | .subA .. => denv
  | .rsubA .. => denv
  | .contract .. => denv
  | .contractMulti .. => denv
  | .todense .. => denv
  | .diagonal .. => denv
  | .dotV .. => denv
  | .rdotV .. => denv

def drun : List (DMat α) → List (Instr α) → List (DMat α)
  | denv, [] => denv
  | denv, i :: rest => drun (dstep denv i) rest

/-- the instruction succeeded -/
def Out.isOk : Out α → Bool
  | .err _ => false
  | .badReg => false
  | _ => true

def shaped (C : Carrier α) : Prop := 0 ≤ C.ulen ∧ 0 ≤ C.vlen

instance (C : Carrier α) : Decidable (shaped C) := by unfold shaped; infer_instance

/-- a condition on register `r`, if it exists -/
def withReg (env : Env α) (r : Nat) (P : Carrier α → Prop) : Prop :=
  match env[r]? with
  | some C => P C
  | none => True

instance (env : Env α) (r : Nat) (P : Carrier α → Prop) [∀ C, Decidable (P C)] : Decidable (withReg env r P) := by
  unfold withReg; split <;> infer_instance

theorem withReg_elim {env : Env α} {r : Nat} {P : Carrier α → Prop} (h : withReg env r P) {C : Carrier α}
    (hC : env[r]? = some C) : P C := by
  simpa [withReg, hC] using h

/-- the selection on an axis of length `n` is a scalar, one-dimensional, or part of an array × array subscript -/
def idxOK (n : Nat) (ix : Idx) (np : Bool) : Prop :=
  match applyIdx n ix with
  | .ok (sh, p) => sh = [] ∨ sh = [p.length] ∨ np = true
  | .error _ => True

instance (n : Nat) (ix : Idx) (np : Bool) : Decidable (idxOK n ix np) := by
  unfold idxOK; split <;> infer_instance

theorem idxOK_elim {n : Nat} {ix : Idx} {np : Bool} (h : idxOK n ix np) {sh p : List Nat}
    (hp : applyIdx n ix = .ok (sh, p)) : sh = [] ∨ sh = [p.length] ∨ np = true := by
  simpa [idxOK, hp] using h

/-- side conditions under which the dense operation is defined (operands with a definite shape, 2-d matrix operand,
    1-d index arrays in the slicing form) -/
def Adm (env : Env α) : Instr α → Prop
  | .addDyad r .. => withReg env r shaped
  | .iadd r _ => withReg env r shaped
  | .isub r _ => withReg env r shaped
  | .addD r _ => withReg env r shaped
  | .subD r _ => withReg env r shaped
  | .matmulM r B => B.shape.length = 2 ∧ withReg env r (fun C => C.vlen = (B.shape.getD 0 0 : Nat))
  | .rmatmulM B r => B.shape.length = 2 ∧ withReg env r (fun C => C.ulen = (B.shape.getD 1 0 : Nat))
  | .matmulD r s => withReg env s (fun O => 0 ≤ O.vlen ∧ withReg env r (fun C => C.vlen = O.ulen))
  | .getitem r i0 i1 => withReg env r (fun C =>
      (C.ulen < 0 ↔ C.vlen < 0) ∧ idxOK C.ulen.toNat i0 (i0.isArr && i1.isArr)
        ∧ idxOK C.vlen.toNat i1 (i0.isArr && i1.isArr))
  | _ => True

instance (env : Env α) (i : Instr α) : Decidable (Adm env i) := by
  cases i <;> unfold Adm <;> infer_instance

def AdmRun : Env α → List (Instr α) → Prop
  | _, [] => True
  | env, i :: rest => Adm env i ∧ AdmRun (step env i).1 rest

instance instDecAdmRun : ∀ (env : Env α) (prog : List (Instr α)), Decidable (AdmRun env prog)
  | _, [] => isTrue trivial
  | env, i :: rest =>
    have := instDecAdmRun (step env i).1 rest
    by unfold AdmRun; infer_instance


/-- the register an instruction modifies in place (none: the instruction only creates a new register / a value) -/
def Instr.target : Instr α → Option Nat
  | .addDyad r .. => some r
  | .setitem r .. => some r
  | .iadd r _ => some r
  | .isub r _ => some r
  | _ => none

theorem abs_eq {D : Carrier α} {M : DMat α} (h1 : D.ulen = M.ulen) (h2 : D.vlen = M.vlen)
    (h3 : ∀ i j, dense D i j = M.f i j) : absM D = M := by
  cases M with
  | mk a b f =>
    simp only [absM, DMat.mk.injEq]
    exact ⟨h1, h2, funext fun i => funext fun j => h3 i j⟩

theorem push_sim {env : Env α} {res : Except Err (Carrier α)} {M : DMat α} (wf : ∀ C ∈ env, WF C)
    (hok : (pushRes env res).2.isOk = true) (hres : ∀ D, res = .ok D → absM D = M ∧ WF D) :
    (pushRes env res).1.map absM = env.map absM ++ [M] ∧ ∀ C ∈ (pushRes env res).1, WF C := by
  cases res with
  | error e => simp [pushRes, Out.isOk] at hok
  | ok D =>
    obtain ⟨a, w⟩ := hres D rfl
    simp only [pushRes, List.map_append, List.map_cons, List.map_nil, a, true_and]
    intro C hC
    rcases List.mem_append.mp hC with h | h
    · exact wf C h
    · simp only [List.mem_singleton] at h; subst h; exact w

theorem inplace_sim {env : Env α} {r : Nat} {res : Carrier α × Option Err} {M : DMat α} (wf : ∀ C ∈ env, WF C)
    (hok : (inplace env r res).2.isOk = true) (hres : res.2 = none → absM res.1 = M ∧ WF res.1) :
    (inplace env r res).1.map absM = (env.map absM).set r M ∧ ∀ C ∈ (inplace env r res).1, WF C := by
  obtain ⟨R, e⟩ := res
  cases e with
  | some e => simp [inplace, Out.isOk] at hok
  | none =>
    obtain ⟨a, w⟩ := hres rfl
    simp only [inplace, List.map_set, a, true_and]
    intro C hC
    rcases List.mem_or_eq_of_mem_set hC with h | h
    · exact wf C h
    · subst h; exact w

theorem mem_of_getElem? {env : Env α} {r : Nat} {C : Carrier α} (h : env[r]? = some C) : C ∈ env :=
  List.mem_of_getElem? h


/-- C-order flat index arithmetic -/
theorem idx2 {r c i j : Nat} (hi : i < r) (hj : j < c) :
    i * c + j < r * c ∧ (i * c + j) / c = i ∧ (i * c + j) % c = j := by
  refine ⟨?_, ?_, ?_⟩
  · calc i * c + j < i * c + c := by omega
      _ = (i + 1) * c := by ring
      _ ≤ r * c := Nat.mul_le_mul_right _ hi
  · rw [Nat.add_comm, Nat.add_mul_div_right _ _ (by omega), Nat.div_eq_of_lt hj, Nat.zero_add]
  · rw [Nat.add_comm, Nat.add_mul_mod_self_right, Nat.mod_eq_of_lt hj]

/-- `Σ_k u_k[i] · d · v_k[j] = A[i,j] · d` -/
theorem dsum_scaled (us vs : List (DVec α)) (i j : Nat) (d : Cx α) :
    lsum (List.zipWith (fun (ui vi : DVec α) => ui.get i * d * vi.get j) us vs) = dsum us vs i j * d := by
  induction us generalizing vs with
  | nil => simp [lsum]
  | cons u us ih => cases vs with
    | nil => simp [lsum]
    | cons v vs =>
      have := ih vs
      simp only [List.zipWith_cons_cons, lsum, List.foldr_cons, dsum_cons] at this ⊢
      rw [this]; ring

/-- the explicit sum a COO contraction has to equal: `Σ_e data_e · A[row_e, col_e]` (negative indices wrap) -/
def cooSpec (A : Nat → Nat → Cx α) (n1 n2 : Nat) (m : Coo α) : Cx α :=
  lsum ((List.zip (List.zip m.row m.col) m.data).map (fun (e : (Int × Int) × Cx α) =>
    match normIndex n1 e.1.1, normIndex n2 e.1.2 with
    | .ok i, .ok j => A i j * e.2
    | _, _ => 0))


theorem coo_entries_sum {C : Carrier α} : ∀ {es : List ((Int × Int) × Cx α)} {ts : List (Cx α)},
    es.mapM (fun (e : (Int × Int) × Cx α) => do
      let i ← normIndex C.ulen.toNat e.1.1
      let j ← normIndex C.vlen.toNat e.1.2
      pure (lsum (List.zipWith (fun (ui vi : DVec α) => ui.get i * e.2 * vi.get j) C.u C.v))) = .ok ts →
    lsum ts = lsum (es.map (fun (e : (Int × Int) × Cx α) =>
      match normIndex C.ulen.toNat e.1.1, normIndex C.vlen.toNat e.1.2 with
      | .ok i, .ok j => dense C i j * e.2
      | _, _ => 0)) := by
  intro es
  induction es with
  | nil => intro ts h; rw [mapM_nil_ok] at h; subst h; rfl
  | cons e es ih =>
    intro ts h
    obtain ⟨b, bs, hb, hbs, rfl⟩ := mapM_cons_ok.mp h
    obtain ⟨i, hi, hb⟩ := bind_ok_iff.mp hb
    obtain ⟨j, hj, hb⟩ := bind_ok_iff.mp hb
    simp only [pure, Except.pure, Except.ok.injEq] at hb
    subst hb
    have := ih hbs
    simp only [List.map_cons, lsum, List.foldr_cons] at this ⊢
    rw [this, hi, hj]
    simp only
    have := dsum_scaled C.u C.v i j e.2
    simp only [lsum] at this
    rw [this]; rfl

theorem cooSpec_zero (n1 n2 : Nat) (m : Coo α) : cooSpec (fun _ _ => (0 : Cx α)) n1 n2 m = 0 := by
  unfold cooSpec
  generalize List.zip (List.zip m.row m.col) m.data = es
  induction es with
  | nil => rfl
  | cons e es ih =>
    simp only [List.map_cons, lsum, List.foldr_cons] at ih ⊢
    rw [ih]
    split <;> simp

end PymotoVerif.Dyad
