/- helper lemmas for Props/C11.lean -/
import PymotoVerif.LA.Eigen
import PymotoVerif.Lemmas.LinSys
import Mathlib.Tactic.Ring
import Mathlib.Tactic.FieldSimp
import Mathlib.Tactic.LinearCombination

namespace PymotoVerif.Eigen
open Matrix PymotoVerif.LinSys

variable {α : Type*} [Field α]

theorem applyB_smul {n : ℕ} (B : Option (Matrix (Fin n) (Fin n) α)) (c : α) (q : Fin n → α) :
    applyB B (c • q) = c • applyB B q := by
  cases B with
  | none => rfl
  | some B => simp [applyB, Matrix.mulVec_smul]

theorem average_smul {n : ℕ} (c : α) (q : Fin n → α) : average (c • q) = c * average q := by
  simp only [average, Pi.smul_apply, smul_eq_mul]
  rw [← Finset.mul_sum, mul_div_assoc]

/-- `⟪u vᵀ, M⟫ = u · (M v)` -/
theorem pair_vecMulVec {n : ℕ} (u v : Fin n → α) (M : Matrix (Fin n) (Fin n) α) :
    pair (vecMulVec u v) M = u ⬝ᵥ (M *ᵥ v) := by
  simp only [pair, vecMulVec_apply, dotProduct, mulVec, Finset.mul_sum]
  refine Finset.sum_congr rfl fun i _ => Finset.sum_congr rfl fun j _ => ?_
  ring

/-- what a successful `postprocess` returns: the values in the order `isort`, each column scaled by its factor -/
theorem postprocess_ok [DecidableEq α] {n m : ℕ} {sqrt : α → α} {nonneg : α → Bool}
    {B : Option (Matrix (Fin n) (Fin n) α)} {W : Fin m → α} {Q : Matrix (Fin n) (Fin m) α} {isort : Fin m → Fin m}
    {W' : Fin m → α} {Q' : Matrix (Fin n) (Fin m) α}
    (h : postprocess sqrt nonneg B W Q isort = .ok (W', Q')) :
    W' = (fun i => W (isort i)) ∧
      ∀ i, ∃ s, scaleFactor sqrt nonneg B (fun r => Q r (isort i)) = some s ∧ ∀ r, Q' r i = s * Q r (isort i) := by
  simp only [postprocess, Tab.get_tabulate, submatrix_apply, id] at h
  split at h
  · rename_i hall
    have h' := Except.ok.inj h
    have hW := congrArg Prod.fst h'
    have hQ := congrArg Prod.snd h'
    simp only at hW hQ
    refine ⟨hW.symm, fun i => ?_⟩
    rw [List.all_eq_true] at hall
    have hi := hall i (List.mem_finRange i)
    obtain ⟨s, hs⟩ := Option.isSome_iff_exists.mp hi
    refine ⟨s, hs, fun r => ?_⟩
    rw [← hQ]
    show (scaleFactor sqrt nonneg B fun r => Q r (isort i)).getD 0 * Q r (isort i) = s * Q r (isort i)
    rw [hs]
    rfl
  · exact absurd h (by simp)

/-- the scale factor, when it exists, is `±1 / normval` with `normval ≠ 0` -/
theorem scaleFactor_some [DecidableEq α] {n : ℕ} {sqrt : α → α} {nonneg : α → Bool}
    {B : Option (Matrix (Fin n) (Fin n) α)} {q : Fin n → α} {s : α}
    (h : scaleFactor sqrt nonneg B q = some s) :
    sqrt (q ⬝ᵥ applyB B q) ≠ 0 ∧
      s = (if nonneg (average q) then (1 : α) else -1) / sqrt (q ⬝ᵥ applyB B q) := by
  simp only [scaleFactor] at h
  split at h
  · exact absurd h (by simp)
  · rename_i hne
    exact ⟨hne, (Option.some.inj h).symm⟩

end PymotoVerif.Eigen
