/- helper lemmas for Props/C11.lean: differentiating the eigen-equation `A(s) q(s) = λ(s) B(s) q(s)` and the normalisation
   `q(s)ᵀ B(s) q(s) = 1` along a differentiable curve (entrywise `HasDerivAt`; scalars ℝ or ℂ, real curve parameter) -/
import Mathlib.Analysis.Calculus.Deriv.Add
import Mathlib.Analysis.Calculus.Deriv.Mul
import Mathlib.Data.Matrix.Mul

namespace PymotoVerif.Eigen
open Matrix Filter Topology

variable {𝕜 : Type*} [NontriviallyNormedField 𝕜] [NormedAlgebra ℝ 𝕜]

/-- a normed field over ℝ (ℝ, ℂ) has `2 ≠ 0` -/
theorem two_ne_zero_of_real_algebra : (2 : 𝕜) ≠ 0 := by
  intro h
  have h' : algebraMap ℝ 𝕜 2 = algebraMap ℝ 𝕜 0 := by rw [map_ofNat, map_zero]; exact h
  exact two_ne_zero ((algebraMap ℝ 𝕜).injective h')

/-- `d/ds (u(s) · v(s)) = u' · v + u · v'` -/
theorem hasDerivAt_dotProduct {n : ℕ} {u v : ℝ → Fin n → 𝕜} {u' v' : Fin n → 𝕜} {t : ℝ}
    (hu : ∀ i, HasDerivAt (fun s => u s i) (u' i) t) (hv : ∀ i, HasDerivAt (fun s => v s i) (v' i) t) :
    HasDerivAt (fun s => u s ⬝ᵥ v s) (u' ⬝ᵥ v t + u t ⬝ᵥ v') t := by
  have h := HasDerivAt.fun_sum (u := Finset.univ) (fun i _ => (hu i).mul (hv i))
  simp only [dotProduct, ← Finset.sum_add_distrib]
  exact h

/-- `d/ds (M(s) v(s)) = M' v + M v'`, entrywise -/
theorem hasDerivAt_mulVec {n : ℕ} {M : ℝ → Matrix (Fin n) (Fin n) 𝕜} {v : ℝ → Fin n → 𝕜}
    {M' : Matrix (Fin n) (Fin n) 𝕜} {v' : Fin n → 𝕜} {t : ℝ}
    (hM : ∀ i j, HasDerivAt (fun s => M s i j) (M' i j) t) (hv : ∀ i, HasDerivAt (fun s => v s i) (v' i) t) (i : Fin n) :
    HasDerivAt (fun s => (M s *ᵥ v s) i) ((M' *ᵥ v t + M t *ᵥ v') i) t := by
  have h := hasDerivAt_dotProduct (u := fun s => M s i) (u' := M' i) (hM i) hv
  simpa only [Pi.add_apply, mulVec] using h

/-- the tangent `(A', B', λ', q')` of a differentiable curve of eigenpairs satisfies the linearised eigen-equation and the
linearised normalisation -/
theorem eigen_curve_tangent {n : ℕ} {A B : ℝ → Matrix (Fin n) (Fin n) 𝕜} {lam : ℝ → 𝕜} {q : ℝ → Fin n → 𝕜}
    {A' B' : Matrix (Fin n) (Fin n) 𝕜} {lam' : 𝕜} {q' : Fin n → 𝕜} {t : ℝ}
    (hA : ∀ i j, HasDerivAt (fun s => A s i j) (A' i j) t) (hB : ∀ i j, HasDerivAt (fun s => B s i j) (B' i j) t)
    (hlam : HasDerivAt lam lam' t) (hq : ∀ i, HasDerivAt (fun s => q s i) (q' i) t)
    (hE : ∀ᶠ s in 𝓝 t, A s *ᵥ q s = lam s • (B s *ᵥ q s))
    (hN : ∀ᶠ s in 𝓝 t, q s ⬝ᵥ (B s *ᵥ q s) = 1) :
    A' *ᵥ q t + A t *ᵥ q' - lam' • (B t *ᵥ q t) - lam t • (B' *ᵥ q t) - lam t • (B t *ᵥ q') = 0 ∧
    q' ⬝ᵥ (B t *ᵥ q t) + q t ⬝ᵥ (B' *ᵥ q t) + q t ⬝ᵥ (B t *ᵥ q') = 0 := by
  constructor
  · funext i
    have h1 := hasDerivAt_mulVec hA hq i
    have h2 := hlam.mul (hasDerivAt_mulVec hB hq i)
    have h3 := h1.sub h2
    have hz : (fun s => (A s *ᵥ q s) i - (lam * fun s => (B s *ᵥ q s) i) s) =ᶠ[𝓝 t] fun _ => (0 : 𝕜) := by
      filter_upwards [hE] with s hs
      rw [hs]
      simp
    have h0 := (hasDerivAt_const t (0 : 𝕜)).congr_of_eventuallyEq hz
    have hu := h3.unique h0
    simp only [Pi.add_apply, Pi.sub_apply, Pi.smul_apply, smul_eq_mul, Pi.zero_apply] at hu ⊢
    linear_combination hu
  · have hBq : ∀ i, HasDerivAt (fun s => (B s *ᵥ q s) i) ((B' *ᵥ q t + B t *ᵥ q') i) t :=
      fun i => hasDerivAt_mulVec hB hq i
    have h1 := hasDerivAt_dotProduct hq hBq
    have hz : (fun s => q s ⬝ᵥ (B s *ᵥ q s)) =ᶠ[𝓝 t] fun _ => (1 : 𝕜) := by
      filter_upwards [hN] with s hs
      exact hs
    have h0 := (hasDerivAt_const t (1 : 𝕜)).congr_of_eventuallyEq hz
    have hu := h1.unique h0
    rw [dotProduct_add] at hu
    linear_combination hu

/-- `d/ds Σₖ (wqₖ · qₖ(s) + wlₖ λₖ(s)) = Σₖ (wqₖ · qₖ' + wlₖ λₖ')` for constant seeds -/
theorem hasDerivAt_seed_sum {n m : ℕ} {lam : Fin m → ℝ → 𝕜} {q : Fin m → ℝ → Fin n → 𝕜} {lam' : Fin m → 𝕜}
    {q' : Fin m → Fin n → 𝕜} {t : ℝ} (hlam : ∀ k, HasDerivAt (lam k) (lam' k) t)
    (hq : ∀ k i, HasDerivAt (fun s => q k s i) (q' k i) t) (wq : Fin m → Fin n → 𝕜) (wl : Fin m → 𝕜) :
    HasDerivAt (fun s => ∑ k, (wq k ⬝ᵥ q k s + wl k * lam k s)) (∑ k, (wq k ⬝ᵥ q' k + wl k * lam' k)) t := by
  refine HasDerivAt.fun_sum fun k _ => ?_
  have h1 := hasDerivAt_dotProduct (u := fun _ => wq k) (u' := 0) (fun i => hasDerivAt_const t (wq k i)) (hq k)
  have h2 := (hlam k).const_mul (wl k)
  have h := h1.fun_add h2
  simpa only [zero_dotProduct, zero_add] using h

end PymotoVerif.Eigen
