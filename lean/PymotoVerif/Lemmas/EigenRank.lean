/- helper lemma for Props/C11.lean: for a symmetric matrix whose kernel is spanned by one vector `q ≠ 0` (a simple
   eigenvalue of a symmetric pencil) the range is the whole orthogonal complement of `q` (rank–nullity) -/
import Mathlib.LinearAlgebra.Matrix.ToLin
import Mathlib.LinearAlgebra.FiniteDimensional.Lemmas
import Mathlib.LinearAlgebra.FiniteDimensional.Basic
import PymotoVerif.Lemmas.EigenSens

namespace PymotoVerif.Eigen
open Matrix Module PymotoVerif.LinSys

variable {α : Type*} [Field α]

theorem range_of_simple_kernel {n : ℕ} (Z : Matrix (Fin n) (Fin n) α) (hZ : Zᵀ = Z) (q : Fin n → α) (hq0 : q ≠ 0)
    (hZq : Z *ᵥ q = 0) (hker : ∀ x, Z *ᵥ x = 0 → ∃ t : α, x = t • q) :
    ∀ y, q ⬝ᵥ y = 0 → ∃ x, Z *ᵥ x = y := by
  set f : (Fin n → α) →ₗ[α] (Fin n → α) := Z.mulVecLin with hf
  set g : (Fin n → α) →ₗ[α] α := dotProductBilin α α q with hg
  have hgy : ∀ y, g y = q ⬝ᵥ y := fun y => rfl
  have hle : LinearMap.range f ≤ LinearMap.ker g := by
    rintro y ⟨x, rfl⟩
    rw [LinearMap.mem_ker, hgy, hf, Matrix.mulVecLin_apply, Matrix.dotProduct_mulVec, ← Matrix.mulVec_transpose, hZ, hZq,
      zero_dotProduct]
  have hkf : LinearMap.ker f = Submodule.span α {q} := by
    ext x
    rw [LinearMap.mem_ker, hf, Matrix.mulVecLin_apply, Submodule.mem_span_singleton]
    constructor
    · intro hx
      obtain ⟨t, ht⟩ := hker x hx
      exact ⟨t, ht.symm⟩
    · rintro ⟨t, rfl⟩
      rw [Matrix.mulVec_smul, hZq, smul_zero]
  have hk1 : finrank α (LinearMap.ker f) = 1 := by rw [hkf]; exact finrank_span_singleton hq0
  have hrf := LinearMap.finrank_range_add_finrank_ker f
  have hrg := LinearMap.finrank_range_add_finrank_ker g
  have hsurj : LinearMap.range g = ⊤ := by
    rw [LinearMap.range_eq_top]
    obtain ⟨i, hi⟩ : ∃ i, q i ≠ 0 := by
      by_contra hcon
      simp only [not_exists, not_not] at hcon
      exact hq0 (funext hcon)
    intro c
    refine ⟨(c / q i) • Pi.single i 1, ?_⟩
    rw [hgy, dotProduct_smul, dotProduct_single_one, smul_eq_mul]
    field_simp
  have hg1 : finrank α (LinearMap.range g) = 1 := by rw [hsurj, finrank_top, finrank_self]
  have heq : LinearMap.range f = LinearMap.ker g := by
    apply Submodule.eq_of_le_of_finrank_eq hle
    omega
  intro y hy
  have : y ∈ LinearMap.ker g := by rw [LinearMap.mem_ker, hgy, hy]
  rw [← heq] at this
  obtain ⟨x, hx⟩ := this
  exact ⟨x, hx⟩

/-- a symmetric pencil at a simple eigenvalue: `A − λB` is symmetric, annihilates `q ≠ 0`, and its range is `q^⊥` -/
theorem pencil_range_of_simple {n : ℕ} {A B : Matrix (Fin n) (Fin n) α} (hA : Aᵀ = A) (hB : Bᵀ = B) {lam : α}
    {q : Fin n → α} (hq : A *ᵥ q = lam • (B *ᵥ q)) (hqBq : q ⬝ᵥ (B *ᵥ q) = 1)
    (hsimple : ∀ x, (A - lam • B) *ᵥ x = 0 → ∃ c : α, x = c • q) :
    (A - lam • B)ᵀ = A - lam • B ∧ ∀ y, q ⬝ᵥ y = 0 → ∃ x, (A - lam • B) *ᵥ x = y := by
  have hZ : (A - lam • B)ᵀ = A - lam • B := by rw [transpose_sub, transpose_smul, hA, hB]
  have hq0 : q ≠ 0 := by
    rintro rfl
    rw [zero_dotProduct] at hqBq
    exact zero_ne_one hqBq
  have hZq : (A - lam • B) *ᵥ q = 0 := by rw [sub_mulVec, smul_mulVec, hq, sub_self]
  exact ⟨hZ, range_of_simple_kernel _ hZ q hq0 hZq hsimple⟩

/-- the inner-solver contract ("returns SOME solution of a consistent system") applies to the right-hand side of
`_sparse_eigvec_sens` at a simple eigenvalue of a symmetric pencil with `qᵀBq = 1` -/
theorem eigvec_solve_of_contract {n : ℕ} (zsolveT : (Fin n → α) → (Fin n → α)) {A B : Matrix (Fin n) (Fin n) α}
    (hA : Aᵀ = A) (hB : Bᵀ = B) {lam : α} {q : Fin n → α} (w : Fin n → α) (hq : A *ᵥ q = lam • (B *ᵥ q))
    (hqBq : q ⬝ᵥ (B *ᵥ q) = 1)
    (hcontract : ∀ r, (∃ x, (A - lam • B)ᵀ *ᵥ x = r) → (A - lam • B)ᵀ *ᵥ zsolveT r = r)
    (hsimple : ∀ x, (A - lam • B) *ᵥ x = 0 → ∃ c : α, x = c • q) :
    (A - lam • B)ᵀ *ᵥ zsolveT (eigvecRhs B q w) = eigvecRhs B q w := by
  obtain ⟨hZ, hrange⟩ := pencil_range_of_simple hA hB hq hqBq hsimple
  apply hcontract
  rw [hZ]
  exact hrange _ (eigvecRhs_orth B q w hqBq)

end PymotoVerif.Eigen
