/- helper lemmas for Props/C11.lean: the sparse eigenvector sensitivity (`_sparse_eigvec_sens`), the list → Finset bridge
   for the DyadCarrier sums, and existence / uniqueness of the tangent of the eigen-equations at a simple eigenvalue -/
import PymotoVerif.Lemmas.Eigen
import Mathlib.Algebra.BigOperators.Fin

namespace PymotoVerif.Eigen
open Matrix PymotoVerif.LinSys

variable {α : Type*} [Field α]

/-! ## one mode of `_sparse_eigvec_sens` -/

/-- the right-hand side `r = dφ + α Bᵀφ`, `α = −φ·dφ`, of the singular adjoint system -/
def eigvecRhs {n : ℕ} (B : Matrix (Fin n) (Fin n) α) (phi dphi : Fin n → α) : Fin n → α :=
  dphi + (-(phi ⬝ᵥ dphi)) • (Bᵀ *ᵥ phi)

/-- the total adjoint `v = vp + c φ`, `c = −vp·Bφ`, built from the solver's particular solution `vp` -/
def eigvecAdj {n : ℕ} (zsolveT : (Fin n → α) → (Fin n → α)) (B : Matrix (Fin n) (Fin n) α) (phi dphi : Fin n → α) :
    Fin n → α :=
  zsolveT (eigvecRhs B phi dphi) + (-(zsolveT (eigvecRhs B phi dphi) ⬝ᵥ (B *ᵥ phi))) • phi

/-- `sparseEigvecMode` without the evaluation markers -/
theorem sparseEigvecMode_eq {n : ℕ} (zsolveT : (Fin n → α) → (Fin n → α)) (B : Matrix (Fin n) (Fin n) α) (lam : α)
    (phi dphi : Fin n → α) :
    sparseEigvecMode zsolveT B lam phi dphi =
      ((-(eigvecAdj zsolveT B phi dphi), phi),
       ((-(phi ⬝ᵥ dphi) / 2) • phi + lam • eigvecAdj zsolveT B phi dphi, phi)) := by
  simp only [sparseEigvecMode, Tab.get_tabulate, replicateCol_apply]
  rfl

/-- a symmetric pencil: the right eigenvector is also a left eigenvector -/
theorem pencil_transpose_mulVec_eigvec {n : ℕ} {A B : Matrix (Fin n) (Fin n) α} (hA : Aᵀ = A) (hB : Bᵀ = B)
    {lam : α} {q : Fin n → α} (hq : A *ᵥ q = lam • (B *ᵥ q)) : (A - lam • B)ᵀ *ᵥ q = 0 := by
  rw [transpose_sub, transpose_smul, hA, hB, sub_mulVec, smul_mulVec, hq, sub_self]

/-- the right-hand side is orthogonal to the eigenvector (so the singular system is consistent) when `φᵀBφ = 1` -/
theorem eigvecRhs_orth {n : ℕ} (B : Matrix (Fin n) (Fin n) α) (q w : Fin n → α) (hqBq : q ⬝ᵥ (B *ᵥ q) = 1) :
    q ⬝ᵥ eigvecRhs B q w = 0 := by
  have h : q ⬝ᵥ (Bᵀ *ᵥ q) = q ⬝ᵥ (B *ᵥ q) := by
    rw [Matrix.mulVec_transpose, dotProduct_comm, ← Matrix.dotProduct_mulVec]
  rw [eigvecRhs, dotProduct_add, dotProduct_smul, smul_eq_mul, h, hqBq]
  ring

/-- the total adjoint solves the singular system and is `B`-orthogonal to the eigenvector -/
theorem eigvecAdj_props {n : ℕ} (zsolveT : (Fin n → α) → (Fin n → α)) {A B : Matrix (Fin n) (Fin n) α}
    (hA : Aᵀ = A) (hB : Bᵀ = B) {lam : α} {q : Fin n → α} (w : Fin n → α) (hq : A *ᵥ q = lam • (B *ᵥ q))
    (hqBq : q ⬝ᵥ (B *ᵥ q) = 1)
    (hsolve : (A - lam • B)ᵀ *ᵥ zsolveT (eigvecRhs B q w) = eigvecRhs B q w) :
    (A - lam • B)ᵀ *ᵥ eigvecAdj zsolveT B q w = eigvecRhs B q w ∧ eigvecAdj zsolveT B q w ⬝ᵥ (B *ᵥ q) = 0 := by
  constructor
  · rw [eigvecAdj, mulVec_add, mulVec_smul, pencil_transpose_mulVec_eigvec hA hB hq, smul_zero, add_zero, hsolve]
  · rw [eigvecAdj, add_dotProduct, smul_dotProduct, smul_eq_mul, hqBq]
    ring

/-- the adjoint identity for ANY `v` that solves the singular system and is `B`-orthogonal to the eigenvector -/
theorem eigvec_adjoint_core {n : ℕ} (h2 : (2 : α) ≠ 0) (A B : Matrix (Fin n) (Fin n) α) (hB : Bᵀ = B) (lam : α)
    (q w v : Fin n → α) (hv : (A - lam • B)ᵀ *ᵥ v = eigvecRhs B q w) (hvB : v ⬝ᵥ (B *ᵥ q) = 0)
    (dA dB : Matrix (Fin n) (Fin n) α) (dq : Fin n → α) (dlam : α)
    (hlin : dA *ᵥ q + A *ᵥ dq - dlam • (B *ᵥ q) - lam • (dB *ᵥ q) - lam • (B *ᵥ dq) = 0)
    (hnorm : dq ⬝ᵥ (B *ᵥ q) + q ⬝ᵥ (dB *ᵥ q) + q ⬝ᵥ (B *ᵥ dq) = 0) :
    w ⬝ᵥ dq = -(v ⬝ᵥ (dA *ᵥ q)) + (-(q ⬝ᵥ w) / 2) * (q ⬝ᵥ (dB *ᵥ q)) + lam * (v ⬝ᵥ (dB *ᵥ q)) := by
  have h0 := congrArg (fun x => v ⬝ᵥ x) hlin
  simp only [dotProduct_sub, dotProduct_add, dotProduct_smul, smul_eq_mul, dotProduct_zero] at h0
  have h1 : v ⬝ᵥ (A *ᵥ dq) - lam * (v ⬝ᵥ (B *ᵥ dq)) = w ⬝ᵥ dq - (q ⬝ᵥ w) * (q ⬝ᵥ (B *ᵥ dq)) := by
    have h := congrArg (fun x => x ⬝ᵥ dq) hv
    simp only [eigvecRhs] at h
    rw [Matrix.mulVec_transpose, ← Matrix.dotProduct_mulVec, sub_mulVec, smul_mulVec, dotProduct_sub, dotProduct_smul,
      smul_eq_mul, add_dotProduct, smul_dotProduct, smul_eq_mul, Matrix.mulVec_transpose,
      ← Matrix.dotProduct_mulVec] at h
    rw [h]; ring
  have h3 : dq ⬝ᵥ (B *ᵥ q) = q ⬝ᵥ (B *ᵥ dq) := by
    rw [Matrix.dotProduct_mulVec, ← Matrix.mulVec_transpose, hB, dotProduct_comm]
  rw [h3] at hnorm
  rw [hvB] at h0
  field_simp
  linear_combination (2 : α) * h0 - 2 * h1 + (q ⬝ᵥ w) * hnorm

/-- the pairing of the mode's two dyads -/
theorem sparseEigvecMode_pair {n : ℕ} (zsolveT : (Fin n → α) → (Fin n → α)) (B : Matrix (Fin n) (Fin n) α) (lam : α)
    (q w : Fin n → α) (dA dB : Matrix (Fin n) (Fin n) α) :
    pair (vecMulVec (sparseEigvecMode zsolveT B lam q w).1.1 (sparseEigvecMode zsolveT B lam q w).1.2) dA
      + pair (vecMulVec (sparseEigvecMode zsolveT B lam q w).2.1 (sparseEigvecMode zsolveT B lam q w).2.2) dB =
    -(eigvecAdj zsolveT B q w ⬝ᵥ (dA *ᵥ q)) + (-(q ⬝ᵥ w) / 2) * (q ⬝ᵥ (dB *ᵥ q))
      + lam * (eigvecAdj zsolveT B q w ⬝ᵥ (dB *ᵥ q)) := by
  rw [sparseEigvecMode_eq]
  simp only
  rw [pair_vecMulVec, pair_vecMulVec, neg_dotProduct, add_dotProduct, smul_dotProduct, smul_dotProduct, smul_eq_mul,
    smul_eq_mul]
  ring

/-- solver independence: two particular solutions of the singular system give the same total adjoint when the kernel of
`(A − λB)ᵀ` is spanned by the eigenvector (simple eigenvalue) and `φᵀBφ = 1` -/
theorem eigvecAdj_unique {n : ℕ} (z1 z2 : (Fin n → α) → (Fin n → α)) (A B : Matrix (Fin n) (Fin n) α) (lam : α)
    (q w : Fin n → α) (hqBq : q ⬝ᵥ (B *ᵥ q) = 1)
    (hker : ∀ x, (A - lam • B)ᵀ *ᵥ x = 0 → ∃ t : α, x = t • q)
    (h1 : (A - lam • B)ᵀ *ᵥ z1 (eigvecRhs B q w) = eigvecRhs B q w)
    (h2 : (A - lam • B)ᵀ *ᵥ z2 (eigvecRhs B q w) = eigvecRhs B q w) :
    eigvecAdj z1 B q w = eigvecAdj z2 B q w := by
  obtain ⟨t, ht⟩ := hker (z1 (eigvecRhs B q w) - z2 (eigvecRhs B q w)) (by rw [mulVec_sub, h1, h2, sub_self])
  have e : z1 (eigvecRhs B q w) = z2 (eigvecRhs B q w) + t • q := by
    rw [← ht]; abel
  rw [eigvecAdj, eigvecAdj, e, add_dotProduct, smul_dotProduct, smul_eq_mul, hqBq]
  funext i
  simp only [Pi.add_apply, Pi.smul_apply, smul_eq_mul]
  ring

/-! ## DyadCarrier sums over the selected modes -/

theorem Dyads.toDense_flatMap_filter {n m : ℕ} {ι : Type*} (l : List ι) (p : ι → Bool) (f : ι → Dyads n m α) :
    Dyads.toDense ((l.filter p).flatMap f) = (l.map fun i => if p i then (f i).toDense else 0).sum := by
  induction l with
  | nil => simp
  | cons a l ih =>
    by_cases h : p a
    · simp [h, Dyads.toDense_append, ih]
    · simp [h, ih]

/-- the dense meaning of `Σ_{i selected} DyadCarrier(…)` over `range(m)` -/
theorem Dyads.toDense_modes {n k m : ℕ} (p : Fin m → Bool) (f : Fin m → Dyads n k α) :
    Dyads.toDense (((List.finRange m).filter p).flatMap f) = ∑ i, if p i then (f i).toDense else 0 := by
  rw [Dyads.toDense_flatMap_filter, Fin.sum_univ_def]

theorem Dyads.toDense_singleton {n m : ℕ} (d : (Fin n → α) × (Fin m → α)) :
    Dyads.toDense [d] = vecMulVec d.1 d.2 := by
  rw [Dyads.toDense_cons, Dyads.toDense_nil, add_zero]

theorem applyB_eq {n : ℕ} (B : Option (Matrix (Fin n) (Fin n) α)) (q : Fin n → α) :
    applyB B q = B.getD 1 *ᵥ q := by
  cases B with
  | none => simp [applyB]
  | some B => rfl

/-- `Re ⟪Re G, D⟫ = Re ⟪G, D⟫` for a real direction `D`, and nothing to do when the flag says "complex" -/
theorem re_pair_flag {n : ℕ} (R : RealPart α) (isreal : Bool) (G D : Matrix (Fin n) (Fin n) α)
    (hD : isreal = true → ∀ i j, R.IsReal (D i j)) :
    R.re (pair (if isreal then G.map R.re else G) D) = R.re (pair G D) := by
  cases isreal with
  | false => rfl
  | true => exact re_pair_map_left R G D (hD rfl)

/-- `Re ⟪Σ_{i selected} (Re) uᵢvᵢᵀ, D⟫ = Re Σ_{i selected} ⟪uᵢvᵢᵀ, D⟫` (real direction `D` when the flag says "real") -/
theorem re_pair_modes {n m : ℕ} (R : RealPart α) (isreal : Bool) (p : Fin m → Bool)
    (dy : Fin m → (Fin n → α) × (Fin n → α)) (D : Matrix (Fin n) (Fin n) α)
    (hD : isreal = true → ∀ i j, R.IsReal (D i j)) :
    R.re (pair (Dyads.toDense (((List.finRange m).filter p).flatMap
        fun i => if isreal then Dyads.real R [dy i] else [dy i])) D) =
      R.re (∑ i, if p i then pair (vecMulVec (dy i).1 (dy i).2) D else 0) := by
  rw [Dyads.toDense_modes, pair_sum_left, R.re_sum, R.re_sum]
  refine Finset.sum_congr rfl fun i _ => ?_
  by_cases hp : p i
  · simp only [hp, if_true]
    cases isreal with
    | false => simp [Dyads.toDense_singleton]
    | true =>
      simp only [if_true]
      rw [Dyads.toDense_real, Dyads.toDense_singleton]
      exact re_pair_map_left R _ D (hD rfl)
  · simp [hp, pair_zero_left]

/-- the meaning of the two DyadCarriers returned by `_sparse_eigvec_sens`, paired with a direction `(dA, dB)`: the sum over
the modes of the eigenvalue dyads (modes with `dW[i] ≠ 0`) and the eigenvector dyads (modes with a non-zero seed column) -/
theorem sparseEigvecSens_re_pair [DecidableEq α] {n m : ℕ} (R : RealPart α) (Areal Breal : Bool)
    (zsolveT : Fin m → (Fin n → α) → (Fin n → α))
    (B : Option (Matrix (Fin n) (Fin n) α)) (W : Fin m → α) (Q : Matrix (Fin n) (Fin m) α)
    (dW : Option (Fin m → α)) (dQ : Matrix (Fin n) (Fin m) α) (dA dB : Matrix (Fin n) (Fin n) α)
    (hdA : Areal = true → ∀ i j, R.IsReal (dA i j)) (hdB : Breal = true → ∀ i j, R.IsReal (dB i j)) :
    R.re (pair (sparseEigvecSens R Areal Breal zsolveT B W Q dW dQ).1.toDense dA
        + pair (sparseEigvecSens R Areal Breal zsolveT B W Q dW dQ).2.toDense dB) =
      R.re (∑ i, ((if dW.getD 0 i = 0 then 0 else
          pair (vecMulVec ((dW.getD 0 i / ((fun r => Q r i) ⬝ᵥ applyB B fun r => Q r i)) • fun r => Q r i) fun r => Q r i) dA
          + pair (vecMulVec (-((W i * dW.getD 0 i / ((fun r => Q r i) ⬝ᵥ applyB B fun r => Q r i)) • fun r => Q r i))
              fun r => Q r i) dB)
        + (if ∀ r, dQ r i = 0 then 0 else
          pair (vecMulVec (sparseEigvecMode (zsolveT i) (B.getD 1) (W i) (fun r => Q r i) fun r => dQ r i).1.1
              (sparseEigvecMode (zsolveT i) (B.getD 1) (W i) (fun r => Q r i) fun r => dQ r i).1.2) dA
          + pair (vecMulVec (sparseEigvecMode (zsolveT i) (B.getD 1) (W i) (fun r => Q r i) fun r => dQ r i).2.1
              (sparseEigvecMode (zsolveT i) (B.getD 1) (W i) (fun r => Q r i) fun r => dQ r i).2.2) dB))) := by
  have hvec : R.re (pair (Dyads.toDense (((List.finRange m).filter fun i => !decide (∀ r, dQ r i = 0)).flatMap fun i =>
        if Areal then Dyads.real R [(sparseEigvecMode (zsolveT i) (B.getD 1) (W i) (fun r => Q r i) fun r => dQ r i).1]
        else [(sparseEigvecMode (zsolveT i) (B.getD 1) (W i) (fun r => Q r i) fun r => dQ r i).1])) dA)
      + R.re (pair (Dyads.toDense (((List.finRange m).filter fun i => !decide (∀ r, dQ r i = 0)).flatMap fun i =>
        if Breal then Dyads.real R [(sparseEigvecMode (zsolveT i) (B.getD 1) (W i) (fun r => Q r i) fun r => dQ r i).2]
        else [(sparseEigvecMode (zsolveT i) (B.getD 1) (W i) (fun r => Q r i) fun r => dQ r i).2])) dB) =
      R.re (∑ i, if ∀ r, dQ r i = 0 then 0 else
          pair (vecMulVec (sparseEigvecMode (zsolveT i) (B.getD 1) (W i) (fun r => Q r i) fun r => dQ r i).1.1
              (sparseEigvecMode (zsolveT i) (B.getD 1) (W i) (fun r => Q r i) fun r => dQ r i).1.2) dA
          + pair (vecMulVec (sparseEigvecMode (zsolveT i) (B.getD 1) (W i) (fun r => Q r i) fun r => dQ r i).2.1
              (sparseEigvecMode (zsolveT i) (B.getD 1) (W i) (fun r => Q r i) fun r => dQ r i).2.2) dB) := by
    rw [re_pair_modes R Areal _ _ dA hdA, re_pair_modes R Breal _ _ dB hdB, ← R.re_add, ← Finset.sum_add_distrib]
    congr 1
    refine Finset.sum_congr rfl fun i _ => ?_
    by_cases h : ∀ r, dQ r i = 0 <;> simp [h]
  cases dW with
  | none =>
    simp only [sparseEigvecSens, List.nil_append, Option.getD_none, Pi.zero_apply, if_true, zero_add]
    rw [R.re_add, hvec]
  | some d =>
    have hval : R.re (pair (sparseEigvalSens R Areal Breal B W Q d).1.toDense dA)
        + R.re (pair (sparseEigvalSens R Areal Breal B W Q d).2.toDense dB) =
        R.re (∑ i, if d i = 0 then 0 else
          pair (vecMulVec ((d i / ((fun r => Q r i) ⬝ᵥ applyB B fun r => Q r i)) • fun r => Q r i) fun r => Q r i) dA
          + pair (vecMulVec (-((W i * d i / ((fun r => Q r i) ⬝ᵥ applyB B fun r => Q r i)) • fun r => Q r i))
              fun r => Q r i) dB) := by
      simp only [sparseEigvalSens]
      rw [re_pair_modes R Areal _ _ dA hdA, re_pair_modes R Breal _ _ dB hdB, ← R.re_add, ← Finset.sum_add_distrib]
      congr 1
      refine Finset.sum_congr rfl fun i _ => ?_
      by_cases h : d i = 0 <;> simp [h]
    simp only [sparseEigvecSens, Option.getD_some]
    rw [Dyads.toDense_append, Dyads.toDense_append, pair_add_left, pair_add_left, add_add_add_comm, R.re_add, R.re_add,
      R.re_add, hval, hvec, ← R.re_add, ← Finset.sum_add_distrib]

/-- one mode of `_sparse_eigvec_sens`, linearised-constraint adjoint identity, for a solver that solved THIS right-hand
side -/
theorem sparseEigvecMode_adjoint {n : ℕ} (h2 : (2 : α) ≠ 0) (zsolveT : (Fin n → α) → (Fin n → α))
    (A B : Matrix (Fin n) (Fin n) α) (hA : Aᵀ = A) (hB : Bᵀ = B) (lam : α) (q w : Fin n → α)
    (hq : A *ᵥ q = lam • (B *ᵥ q)) (hqBq : q ⬝ᵥ (B *ᵥ q) = 1)
    (hsolve : (A - lam • B)ᵀ *ᵥ zsolveT (eigvecRhs B q w) = eigvecRhs B q w)
    (dA dB : Matrix (Fin n) (Fin n) α) (dq : Fin n → α) (dlam : α)
    (hlin : dA *ᵥ q + A *ᵥ dq - dlam • (B *ᵥ q) - lam • (dB *ᵥ q) - lam • (B *ᵥ dq) = 0)
    (hnorm : dq ⬝ᵥ (B *ᵥ q) + q ⬝ᵥ (dB *ᵥ q) + q ⬝ᵥ (B *ᵥ dq) = 0) :
    w ⬝ᵥ dq =
      pair (vecMulVec (sparseEigvecMode zsolveT B lam q w).1.1 (sparseEigvecMode zsolveT B lam q w).1.2) dA
      + pair (vecMulVec (sparseEigvecMode zsolveT B lam q w).2.1 (sparseEigvecMode zsolveT B lam q w).2.2) dB := by
  obtain ⟨hv, hvB⟩ := eigvecAdj_props zsolveT hA hB w hq hqBq hsolve
  rw [sparseEigvecMode_pair]
  exact eigvec_adjoint_core h2 A B hB lam q w _ hv hvB dA dB dq dlam hlin hnorm

/-- real data (`.real` is the identity): the dtype flags of `_dense_sens` do not matter -/
theorem denseSens_id_flags [DecidableEq α] {n m : ℕ} (ac bc : Bool)
    (linsolve : Matrix (Fin n ⊕ Unit) (Fin n ⊕ Unit) α → (Fin n ⊕ Unit → α) → (Fin n ⊕ Unit → α))
    (A : Matrix (Fin n) (Fin n) α) (B : Option (Matrix (Fin n) (Fin n) α))
    (W : Fin m → α) (Q : Matrix (Fin n) (Fin m) α)
    (dW : Option (Fin m → α)) (dQ : Option (Matrix (Fin n) (Fin m) α)) :
    denseSens (RealPart.id α) ac bc linsolve A B W Q dW dQ
      = denseSens (RealPart.id α) true true linsolve A B W Q dW dQ := by
  cases ac <;> cases bc <;> rfl

/-- `Re ⟪g_A, dA⟫` of `_dense_sens` does not depend on the dtype flag of `A` when the direction is real for a real `A` -/
theorem denseSens_re_pair_fst [DecidableEq α] {n m : ℕ} (R : RealPart α) (ac bc ac' bc' : Bool)
    (linsolve : Matrix (Fin n ⊕ Unit) (Fin n ⊕ Unit) α → (Fin n ⊕ Unit → α) → (Fin n ⊕ Unit → α))
    (A : Matrix (Fin n) (Fin n) α) (B : Option (Matrix (Fin n) (Fin n) α))
    (W : Fin m → α) (Q : Matrix (Fin n) (Fin m) α)
    (dW : Option (Fin m → α)) (dQ : Option (Matrix (Fin n) (Fin m) α)) (D : Matrix (Fin n) (Fin n) α)
    (hD : ac = false → ∀ i j, R.IsReal (D i j)) (hD' : ac' = false → ∀ i j, R.IsReal (D i j)) :
    R.re (pair (denseSens R ac' bc' linsolve A B W Q dW dQ).1 D) = R.re (pair (denseSens R ac bc linsolve A B W Q dW dQ).1 D) := by
  simp only [denseSens]
  rw [pair_sum_left, pair_sum_left, R.re_sum, R.re_sum]
  refine Finset.sum_congr rfl fun i _ => ?_
  split
  · rfl
  · cases ac <;> cases ac' <;> simp only [Bool.false_eq_true, if_false, if_true]
    · exact (re_pair_map_left R _ D (hD rfl)).symm
    · exact re_pair_map_left R _ D (hD' rfl)

theorem denseSens_re_pair_snd [DecidableEq α] {n m : ℕ} (R : RealPart α) (ac bc ac' bc' : Bool)
    (linsolve : Matrix (Fin n ⊕ Unit) (Fin n ⊕ Unit) α → (Fin n ⊕ Unit → α) → (Fin n ⊕ Unit → α))
    (A : Matrix (Fin n) (Fin n) α) (B : Option (Matrix (Fin n) (Fin n) α))
    (W : Fin m → α) (Q : Matrix (Fin n) (Fin m) α)
    (dW : Option (Fin m → α)) (dQ : Option (Matrix (Fin n) (Fin m) α)) (D : Matrix (Fin n) (Fin n) α)
    (hD : bc = false → ∀ i j, R.IsReal (D i j)) (hD' : bc' = false → ∀ i j, R.IsReal (D i j)) :
    R.re (pair (denseSens R ac' bc' linsolve A B W Q dW dQ).2 D) = R.re (pair (denseSens R ac bc linsolve A B W Q dW dQ).2 D) := by
  simp only [denseSens]
  rw [pair_sum_left, pair_sum_left, R.re_sum, R.re_sum]
  refine Finset.sum_congr rfl fun i _ => ?_
  split
  · rfl
  · cases bc <;> cases bc' <;> simp only [Bool.false_eq_true, if_false, if_true]
    · exact (re_pair_map_left R _ D (hD rfl)).symm
    · exact re_pair_map_left R _ D (hD' rfl)

/-! ## the tangent of the eigen-equations at a simple eigenvalue -/

/-- EXISTENCE: when the range of `A − λB` contains everything orthogonal to the eigenvector (a simple eigenvalue of a
symmetric pencil), every perturbation `(dA, dB)` has a first-order perturbation `(dλ, dq)` of the eigenpair -/
theorem eigen_tangent_exists {n : ℕ} (h2 : (2 : α) ≠ 0) (A B : Matrix (Fin n) (Fin n) α) (hB : Bᵀ = B)
    (lam : α) (q : Fin n → α) (hq : A *ᵥ q = lam • (B *ᵥ q)) (hqBq : q ⬝ᵥ (B *ᵥ q) = 1)
    (hrange : ∀ y, q ⬝ᵥ y = 0 → ∃ x, (A - lam • B) *ᵥ x = y)
    (dA dB : Matrix (Fin n) (Fin n) α) :
    ∃ (dq : Fin n → α) (dlam : α),
      dA *ᵥ q + A *ᵥ dq - dlam • (B *ᵥ q) - lam • (dB *ᵥ q) - lam • (B *ᵥ dq) = 0 ∧
      dq ⬝ᵥ (B *ᵥ q) + q ⬝ᵥ (dB *ᵥ q) + q ⬝ᵥ (B *ᵥ dq) = 0 := by
  set dl : α := q ⬝ᵥ (dA *ᵥ q) - lam * (q ⬝ᵥ (dB *ᵥ q)) with hdl
  set y : Fin n → α := -(dA *ᵥ q) + dl • (B *ᵥ q) + lam • (dB *ᵥ q) with hy
  have hqy : q ⬝ᵥ y = 0 := by
    rw [hy, dotProduct_add, dotProduct_add, dotProduct_neg, dotProduct_smul, dotProduct_smul, smul_eq_mul, smul_eq_mul,
      hqBq, hdl]
    ring
  obtain ⟨x, hx⟩ := hrange y hqy
  have hZq : (A - lam • B) *ᵥ q = 0 := by rw [sub_mulVec, smul_mulVec, hq, sub_self]
  have hsym : x ⬝ᵥ (B *ᵥ q) = q ⬝ᵥ (B *ᵥ x) := by
    rw [Matrix.dotProduct_mulVec, ← Matrix.mulVec_transpose, hB, dotProduct_comm]
  set t : α := -(q ⬝ᵥ (dB *ᵥ q) + 2 * (q ⬝ᵥ (B *ᵥ x))) / 2 with ht
  refine ⟨x + t • q, dl, ?_, ?_⟩
  · have hZ : (A - lam • B) *ᵥ (x + t • q) = y := by rw [mulVec_add, mulVec_smul, hZq, smul_zero, add_zero, hx]
    rw [sub_mulVec, smul_mulVec] at hZ
    funext i
    have hi := congrFun hZ i
    simp only [hy, Pi.add_apply, Pi.sub_apply, Pi.smul_apply, Pi.neg_apply, smul_eq_mul, Pi.zero_apply] at hi ⊢
    linear_combination hi
  · rw [add_dotProduct, smul_dotProduct, mulVec_add, mulVec_smul, dotProduct_add, dotProduct_smul, smul_eq_mul,
      hqBq, hsym, ht]
    field_simp
    ring

/-- UNIQUENESS: when the kernel of `A − λB` is spanned by the eigenvector, the first-order perturbation `(dλ, dq)` of the
eigenpair is determined by `(dA, dB)` -/
theorem eigen_tangent_unique {n : ℕ} (h2 : (2 : α) ≠ 0) (A B : Matrix (Fin n) (Fin n) α) (hA : Aᵀ = A) (hB : Bᵀ = B)
    (lam : α) (q : Fin n → α) (hq : A *ᵥ q = lam • (B *ᵥ q)) (hqBq : q ⬝ᵥ (B *ᵥ q) = 1)
    (hker : ∀ x, (A - lam • B) *ᵥ x = 0 → ∃ t : α, x = t • q)
    (dA dB : Matrix (Fin n) (Fin n) α) (dq dq' : Fin n → α) (dlam dlam' : α)
    (hlin : dA *ᵥ q + A *ᵥ dq - dlam • (B *ᵥ q) - lam • (dB *ᵥ q) - lam • (B *ᵥ dq) = 0)
    (hnorm : dq ⬝ᵥ (B *ᵥ q) + q ⬝ᵥ (dB *ᵥ q) + q ⬝ᵥ (B *ᵥ dq) = 0)
    (hlin' : dA *ᵥ q + A *ᵥ dq' - dlam' • (B *ᵥ q) - lam • (dB *ᵥ q) - lam • (B *ᵥ dq') = 0)
    (hnorm' : dq' ⬝ᵥ (B *ᵥ q) + q ⬝ᵥ (dB *ᵥ q) + q ⬝ᵥ (B *ᵥ dq') = 0) :
    dlam = dlam' ∧ dq = dq' := by
  have hqA : ∀ x, q ⬝ᵥ (A *ᵥ x) = lam * (q ⬝ᵥ (B *ᵥ x)) := by
    intro x
    rw [Matrix.dotProduct_mulVec, ← Matrix.mulVec_transpose, hA, hq, smul_dotProduct, smul_eq_mul]
    congr 1
    rw [dotProduct_comm, Matrix.dotProduct_mulVec, ← Matrix.mulVec_transpose, hB, dotProduct_comm]
  have e := congrArg (fun v => q ⬝ᵥ v) hlin
  have e' := congrArg (fun v => q ⬝ᵥ v) hlin'
  simp only [dotProduct_sub, dotProduct_add, dotProduct_smul, smul_eq_mul, dotProduct_zero, hqA, hqBq] at e e'
  have hl : dlam = dlam' := by linear_combination e' - e
  refine ⟨hl, ?_⟩
  subst hl
  have hd : (A - lam • B) *ᵥ (dq - dq') = 0 := by
    rw [sub_mulVec, smul_mulVec]
    funext i
    have h1 := congrFun hlin i
    have h2' := congrFun hlin' i
    simp only [mulVec_sub, Pi.add_apply, Pi.sub_apply, Pi.smul_apply, smul_eq_mul, Pi.zero_apply] at h1 h2' ⊢
    linear_combination h1 - h2'
  obtain ⟨t, ht⟩ := hker _ hd
  have hsym : ∀ x, x ⬝ᵥ (B *ᵥ q) = q ⬝ᵥ (B *ᵥ x) := by
    intro x
    rw [Matrix.dotProduct_mulVec, ← Matrix.mulVec_transpose, hB, dotProduct_comm]
  have hdq : dq = dq' + t • q := by rw [← ht]; abel
  rw [hsym] at hnorm hnorm'
  rw [hdq, mulVec_add, mulVec_smul, dotProduct_add, dotProduct_smul, smul_eq_mul, hqBq] at hnorm
  have ht0 : t = 0 := by
    have : (2 : α) * t = 0 := by linear_combination hnorm - hnorm'
    rcases mul_eq_zero.mp this with h | h
    · exact absurd h h2
    · exact h
  rw [hdq, ht0, zero_smul, add_zero]

end PymotoVerif.Eigen
