/- helper lemmas for `Core/Einsum.lean`: sums over index assignments, flat C-order indices, re-ordering of index letters -/
import PymotoVerif.Core.Einsum
import PymotoVerif.Lemmas.Sum
import Mathlib.Tactic.Ring
import Mathlib.Tactic.Linarith

namespace PymotoVerif.Einsum
open PymotoVerif Finset

/-! ### splitting a flat range -/

theorem sumRange_congr {α} [AddCommMonoid α] (n : Nat) (f g : Nat → α) (h : ∀ i, i < n → f i = g i) :
    sumRange n f = sumRange n g := by
  simp only [sumRange_eq]
  exact Finset.sum_congr rfl (fun i hi => h i (Finset.mem_range.mp hi))

theorem sumRange_mul_split {α} [AddCommMonoid α] (d s : Nat) (g : Nat → α) :
    sumRange (d * s) g = sumRange d (fun v => sumRange s (fun r => g (v * s + r))) := by
  induction d with
  | zero => simp [sumRange]
  | succ d ih =>
    have h : (d + 1) * s = d * s + s := by ring
    rw [h, sumRange_eq, Finset.sum_range_add, ← sumRange_eq, ih]
    simp only [sumRange, sumRange_eq]

theorem sumRange_add_fun {α} [AddCommMonoid α] (n : Nat) (f g : Nat → α) :
    sumRange n (fun i => f i + g i) = sumRange n f + sumRange n g := by
  simp only [sumRange_eq, Finset.sum_add_distrib]

theorem sumRange_mul_left {α} [NonUnitalNonAssocSemiring α] (n : Nat) (c : α) (f : Nat → α) :
    c * sumRange n f = sumRange n (fun i => c * f i) := by
  simp only [sumRange_eq, Finset.mul_sum]

theorem sumRange_comm {α} [AddCommMonoid α] (n m : Nat) (f : Nat → Nat → α) :
    sumRange n (fun i => sumRange m (fun j => f i j)) = sumRange m (fun j => sumRange n (fun i => f i j)) := by
  simp only [sumRange_eq]; exact Finset.sum_comm

/-! ### `upd`, `decode`, `flatIdx` -/

@[simp] theorem upd_same (σ : Nat → Nat) (l v : Nat) : upd σ l v l = v := by simp [upd]
theorem upd_other (σ : Nat → Nat) (l v k : Nat) (h : k ≠ l) : upd σ l v k = σ k := by simp [upd, h]

theorem upd_comm (σ : Nat → Nat) (a b va vb : Nat) (h : a ≠ b) :
    upd (upd σ a va) b vb = upd (upd σ b vb) a va := by
  funext k
  unfold upd
  by_cases h1 : k = b
  · have h2 : k ≠ a := fun h2 => h (h2.symm.trans h1)
    rw [if_pos h1, if_neg h2, if_pos h1]
  · by_cases h2 : k = a
    · rw [if_neg h1, if_pos h2, if_pos h2]
    · rw [if_neg h1, if_neg h2, if_neg h2, if_neg h1]

theorem decode_not_mem (dim : Nat → Nat) (ls : List Nat) (o : Nat) (σ : Nat → Nat) (l : Nat) (h : l ∉ ls) :
    decode dim ls o σ l = σ l := by
  induction ls generalizing o σ with
  | nil => rfl
  | cons k ks ih =>
    simp only [List.mem_cons, not_or] at h
    simp only [decode]
    rw [ih _ _ h.2, upd_other _ _ _ _ h.1]

theorem size_pos_of_lt (dim : Nat → Nat) (l : Nat) (ls : List Nat) (o : Nat) (h : o < size dim (l :: ls)) :
    0 < size dim ls := by
  simp only [size] at h
  rcases Nat.eq_zero_or_pos (size dim ls) with h0 | h0
  · rw [h0, Nat.mul_zero] at h; exact absurd h (Nat.not_lt_zero _)
  · exact h0

theorem flat_decode (dim : Nat → Nat) (ls : List Nat) (hnd : ls.Nodup) (o : Nat) (σ : Nat → Nat)
    (ho : o < size dim ls) : flatIdx dim ls (decode dim ls o σ) = o := by
  induction ls generalizing o σ with
  | nil => simp only [size] at ho; simp only [flatIdx]; omega
  | cons l ls ih =>
    have hs := size_pos_of_lt dim l ls o ho
    rw [List.nodup_cons] at hnd
    simp only [flatIdx, decode]
    rw [decode_not_mem dim ls _ _ l hnd.1, upd_same, ih hnd.2 _ _ (Nat.mod_lt _ hs)]
    exact Nat.div_add_mod' o (size dim ls)

theorem flat_lt (dim : Nat → Nat) (ls : List Nat) (τ : Nat → Nat) (h : ∀ l ∈ ls, τ l < dim l) :
    flatIdx dim ls τ < size dim ls := by
  induction ls with
  | nil => simp [flatIdx, size]
  | cons l ls ih =>
    have h1 := h l (List.mem_cons_self ..)
    have h2 := ih (fun k hk => h k (List.mem_cons_of_mem _ hk))
    simp only [flatIdx, size]
    calc τ l * size dim ls + flatIdx dim ls τ < τ l * size dim ls + size dim ls := by omega
      _ = (τ l + 1) * size dim ls := by ring
      _ ≤ dim l * size dim ls := Nat.mul_le_mul_right _ h1

theorem decode_flat (dim : Nat → Nat) (ls : List Nat) (hnd : ls.Nodup) (τ σ : Nat → Nat)
    (h : ∀ l ∈ ls, τ l < dim l) : ∀ l ∈ ls, decode dim ls (flatIdx dim ls τ) σ l = τ l := by
  induction ls generalizing σ with
  | nil => intro l hl; cases hl
  | cons k ks ih =>
    rw [List.nodup_cons] at hnd
    have hlt := flat_lt dim ks τ (fun l hl => h l (List.mem_cons_of_mem _ hl))
    have hs : 0 < size dim ks := Nat.lt_of_le_of_lt (Nat.zero_le _) hlt
    have hmod : (τ k * size dim ks + flatIdx dim ks τ) % size dim ks = flatIdx dim ks τ := by
      rw [Nat.add_comm, Nat.add_mul_mod_self_right, Nat.mod_eq_of_lt hlt]
    have hdiv : (τ k * size dim ks + flatIdx dim ks τ) / size dim ks = τ k := by
      rw [Nat.add_comm, Nat.add_mul_div_right _ _ hs, Nat.div_eq_of_lt hlt, Nat.zero_add]
    intro l hl
    simp only [flatIdx, decode, hmod, hdiv]
    rcases List.mem_cons.mp hl with rfl | hl'
    · rw [decode_not_mem dim ks _ _ _ hnd.1, upd_same]
    · exact ih hnd.2 _ (fun l hl => h l (List.mem_cons_of_mem _ hl)) l hl'

/-- the flat index only looks at the letters of the tensor -/
theorem flatIdx_congr (dim : Nat → Nat) (ls : List Nat) (τ τ' : Nat → Nat) (h : ∀ l ∈ ls, τ l = τ' l) :
    flatIdx dim ls τ = flatIdx dim ls τ' := by
  induction ls with
  | nil => rfl
  | cons l ls ih =>
    simp only [flatIdx]
    rw [h l (List.mem_cons_self ..), ih (fun k hk => h k (List.mem_cons_of_mem _ hk))]

/-! ### sums over assignments -/
section sums
variable {α : Type} [CommRing α]

/-- the flat sum over a tensor is the sum over the assignments of its letters -/
theorem sum_decode (dim : Nat → Nat) (ls : List Nat) (σ : Nat → Nat) (g : (Nat → Nat) → α) :
    sumRange (size dim ls) (fun o => g (decode dim ls o σ)) = sumAssign dim ls σ g := by
  induction ls generalizing σ with
  | nil => simp [size, sumRange, decode, sumAssign]
  | cons l ls ih =>
    simp only [size, sumAssign]
    rw [sumRange_mul_split]
    apply sumRange_congr; intro v _
    rw [← ih]
    rcases Nat.eq_zero_or_pos (size dim ls) with h0 | hs
    · simp [h0, sumRange]
    apply sumRange_congr; intro r hr
    simp only [decode]
    have hmod : (v * size dim ls + r) % size dim ls = r := by
      rw [Nat.add_comm, Nat.add_mul_mod_self_right, Nat.mod_eq_of_lt hr]
    have hdiv : (v * size dim ls + r) / size dim ls = v := by
      rw [Nat.add_comm, Nat.add_mul_div_right _ _ hs, Nat.div_eq_of_lt hr, Nat.zero_add]
    rw [hmod, hdiv]

/-- pairing over the flat index of a tensor with distinct letters = sum over assignments -/
theorem sum_flat (dim : Nat → Nat) (ls : List Nat) (hnd : ls.Nodup) (σ : Nat → Nat) (g : Nat → (Nat → Nat) → α) :
    sumRange (size dim ls) (fun o => g o (decode dim ls o σ))
      = sumAssign dim ls σ (fun τ => g (flatIdx dim ls τ) τ) := by
  rw [← sum_decode]
  apply sumRange_congr; intro o ho
  rw [flat_decode dim ls hnd o σ ho]

/-- congruence: the summand and the base assignment may change as long as the values agree on all assignments that occur -/
theorem sumAssign_congr (dim : Nat → Nat) (ls : List Nat) (σ σ' : Nat → Nat) (f f' : (Nat → Nat) → α)
    (h : ∀ τ τ' : Nat → Nat, (∀ l ∈ ls, τ l = τ' l ∧ τ l < dim l) → (∀ l, l ∉ ls → τ l = σ l ∧ τ' l = σ' l) → f τ = f' τ') :
    sumAssign dim ls σ f = sumAssign dim ls σ' f' := by
  induction ls generalizing σ σ' with
  | nil => exact h σ σ' (fun l hl => by cases hl) (fun l _ => ⟨rfl, rfl⟩)
  | cons l ls ih =>
    simp only [sumAssign]
    apply sumRange_congr; intro v hv
    apply ih
    intro τ τ' h1 h2
    apply h τ τ'
    · intro k hk
      by_cases hk' : k ∈ ls
      · exact h1 k hk'
      · have hkl : k = l := by
          rcases List.mem_cons.mp hk with h | h
          · exact h
          · exact absurd h hk'
        subst hkl
        have := h2 k hk'
        rw [upd_same, upd_same] at this
        exact ⟨this.1.trans this.2.symm, this.1 ▸ hv⟩
    · intro k hk
      simp only [List.mem_cons, not_or] at hk
      have := h2 k hk.2
      rwa [upd_other _ _ _ _ hk.1, upd_other _ _ _ _ hk.1] at this

theorem sumAssign_append (dim : Nat → Nat) (ls ls' : List Nat) (σ : Nat → Nat) (f : (Nat → Nat) → α) :
    sumAssign dim (ls ++ ls') σ f = sumAssign dim ls σ (fun τ => sumAssign dim ls' τ f) := by
  induction ls generalizing σ with
  | nil => rfl
  | cons l ls ih => simp only [List.cons_append, sumAssign, ih]

theorem sumAssign_mul_left (dim : Nat → Nat) (ls : List Nat) (σ : Nat → Nat) (c : α) (f : (Nat → Nat) → α) :
    c * sumAssign dim ls σ f = sumAssign dim ls σ (fun τ => c * f τ) := by
  induction ls generalizing σ with
  | nil => rfl
  | cons l ls ih => simp only [sumAssign, sumRange_mul_left, ih]

theorem sumAssign_add (dim : Nat → Nat) (ls : List Nat) (σ : Nat → Nat) (f g : (Nat → Nat) → α) :
    sumAssign dim ls σ (fun τ => f τ + g τ) = sumAssign dim ls σ f + sumAssign dim ls σ g := by
  induction ls generalizing σ with
  | nil => rfl
  | cons l ls ih => simp only [sumAssign, ih, sumRange_add_fun]

/-- the order of the summed letters is irrelevant -/
theorem sumAssign_perm (dim : Nat → Nat) (ls ls' : List Nat) (hp : ls.Perm ls') (σ : Nat → Nat) (f : (Nat → Nat) → α) :
    sumAssign dim ls σ f = sumAssign dim ls' σ f := by
  induction hp generalizing σ with
  | nil => rfl
  | cons x _ ih => simp only [sumAssign, ih]
  | swap x y l =>
    simp only [sumAssign]
    by_cases hxy : x = y
    · subst hxy; rfl
    · rw [sumRange_comm]
      apply sumRange_congr; intro vx _
      apply sumRange_congr; intro vy _
      rw [upd_comm σ y x vy vx (fun h => hxy h.symm)]
  | trans _ _ ih1 ih2 => rw [ih1, ih2]

end sums

/-! ### `dedup` -/

theorem mem_dedup (ls : List Nat) (l : Nat) : l ∈ dedup ls ↔ l ∈ ls := by
  induction ls with
  | nil => simp [dedup]
  | cons k ks ih =>
    simp only [dedup, List.mem_cons, List.mem_filter, ih, bne_iff_ne, ne_eq]
    constructor
    · rintro (h | ⟨h, _⟩)
      · exact Or.inl h
      · exact Or.inr h
    · rintro (h | h)
      · exact Or.inl h
      · by_cases hl : l = k
        · exact Or.inl hl
        · exact Or.inr ⟨h, hl⟩

theorem nodup_dedup (ls : List Nat) : (dedup ls).Nodup := by
  induction ls with
  | nil => simp [dedup]
  | cons k ks ih =>
    simp only [dedup, List.nodup_cons, List.mem_filter, bne_self_eq_false, Bool.false_eq_true, and_false,
      not_false_eq_true, true_and]
    exact ih.filter _

/-! ### letters of operand lists -/
section ops
variable {α : Type}

theorem mem_letters (ops : List (Operand α)) (l : Nat) : l ∈ letters ops ↔ ∃ op ∈ ops, l ∈ op.ls := by
  simp [letters, List.mem_flatMap]

theorem mem_letters_cons (op : Operand α) (ops : List (Operand α)) (l : Nat) :
    l ∈ letters (op :: ops) ↔ l ∈ op.ls ∨ l ∈ letters ops := by
  simp [letters]

theorem mem_letters_insert (pre post : List (Operand α)) (op : Operand α) (l : Nat) :
    l ∈ letters (pre ++ op :: post) ↔ l ∈ op.ls ∨ l ∈ letters (pre ++ post) := by
  simp only [letters, List.flatMap_append, List.flatMap_cons, List.mem_append]
  tauto

theorem letters_insert_ls (pre post : List (Operand α)) (ls : List Nat) (x y : Nat → α) :
    letters (pre ++ ⟨ls, x⟩ :: post) = letters (pre ++ ⟨ls, y⟩ :: post) := by
  simp [letters]

theorem mem_summedLetters (ops : List (Operand α)) (out : List Nat) (l : Nat) :
    l ∈ summedLetters ops out ↔ l ∈ letters ops ∧ l ∉ out := by
  simp [summedLetters, mem_dedup, List.mem_filter]

theorem nodup_summedLetters (ops : List (Operand α)) (out : List Nat) : (summedLetters ops out).Nodup :=
  nodup_dedup _

end ops

section pairing
variable {α : Type} [CommRing α]

theorem prodOps_cons (dim : Nat → Nat) (op : Operand α) (ops : List (Operand α)) (τ : Nat → Nat) :
    prodOps dim (op :: ops) τ = op.val (flatIdx dim op.ls τ) * prodOps dim ops τ := rfl

theorem prodOps_insert (dim : Nat → Nat) (pre post : List (Operand α)) (op : Operand α) (τ : Nat → Nat) :
    prodOps dim (pre ++ op :: post) τ = op.val (flatIdx dim op.ls τ) * prodOps dim (pre ++ post) τ := by
  induction pre with
  | nil => rfl
  | cons p pre ih =>
    simp only [List.cons_append, prodOps_cons, ih]
    ring

theorem prodOps_congr (dim : Nat → Nat) (ops : List (Operand α)) (τ τ' : Nat → Nat)
    (h : ∀ l ∈ letters ops, τ l = τ' l) : prodOps dim ops τ = prodOps dim ops τ' := by
  induction ops with
  | nil => rfl
  | cons op ops ih =>
    simp only [prodOps_cons]
    rw [flatIdx_congr dim op.ls τ τ' (fun l hl => h l ((mem_letters_cons op ops l).mpr (Or.inl hl))),
      ih (fun l hl => h l ((mem_letters_cons op ops l).mpr (Or.inr hl)))]

theorem sumAssign_congr_fun (dim : Nat → Nat) (ls : List Nat) (σ : Nat → Nat) (f f' : (Nat → Nat) → α)
    (h : ∀ τ : Nat → Nat, (∀ l ∈ ls, τ l < dim l) → (∀ l, l ∉ ls → τ l = σ l) → f τ = f' τ) :
    sumAssign dim ls σ f = sumAssign dim ls σ f' := by
  apply sumAssign_congr
  intro τ τ' h1 h2
  have : τ = τ' := by
    funext l
    by_cases hl : l ∈ ls
    · exact (h1 l hl).1
    · exact (h2 l hl).1.trans (h2 l hl).2.symm
  subst this
  exact h τ (fun l hl => (h1 l hl).2) (fun l hl => (h2 l hl).1)

/-- a factor that does not look at the summed letters can be moved inside -/
theorem sumAssign_mul_indep (dim : Nat → Nat) (ls : List Nat) (σ : Nat → Nat) (c f : (Nat → Nat) → α)
    (hc : ∀ τ : Nat → Nat, (∀ l, l ∉ ls → τ l = σ l) → c τ = c σ) :
    c σ * sumAssign dim ls σ f = sumAssign dim ls σ (fun τ => c τ * f τ) := by
  rw [sumAssign_mul_left]
  apply sumAssign_congr_fun
  intro τ _ h2
  rw [hc τ h2]

/-- pairing of an arbitrary `u` with an einsum result = one sum over the assignments of all letters -/
theorem einsum_pairing (dim : Nat → Nat) (ops : List (Operand α)) (out : List Nat) (hout : out.Nodup) (u : Nat → α) :
    sumRange (size dim out) (fun o => u o * einsum dim ops out o)
      = sumAssign dim (out ++ summedLetters ops out) (fun _ => 0)
          (fun τ => u (flatIdx dim out τ) * prodOps dim ops τ) := by
  unfold einsum
  rw [sum_flat dim out hout (fun _ => 0)
    (fun o τ => u o * sumAssign dim (summedLetters ops out) τ (prodOps dim ops)), sumAssign_append]
  apply sumAssign_congr_fun
  intro τ _ _
  apply sumAssign_mul_indep dim (summedLetters ops out) τ (fun τ' => u (flatIdx dim out τ'))
  intro τ' h
  show u (flatIdx dim out τ') = u (flatIdx dim out τ)
  rw [flatIdx_congr dim out τ' τ]
  intro l hl
  apply h
  rw [mem_summedLetters]
  exact fun hh => hh.2 hl

/-- einsum is additive in every operand -/
theorem einsum_add_slot (dim : Nat → Nat) (pre post : List (Operand α)) (lsA out : List Nat) (x v : Nat → α) (o : Nat) :
    einsum dim (pre ++ ⟨lsA, fun k => x k + v k⟩ :: post) out o
      = einsum dim (pre ++ ⟨lsA, x⟩ :: post) out o + einsum dim (pre ++ ⟨lsA, v⟩ :: post) out o := by
  unfold einsum summedLetters
  rw [letters_insert_ls pre post lsA (fun k => x k + v k) x, letters_insert_ls pre post lsA v x, ← sumAssign_add]
  apply sumAssign_congr_fun
  intro τ _ _
  simp only [prodOps_insert]
  ring

/-- the coded sensitivity of one operand (letters `lsA`, the other operands `others`) -/
theorem einsumSens_insert (dim : Nat → Nat) (pre post : List (Operand α)) (lsA out : List Nat) (x w : Nat → α) :
    einsumSens dim (pre ++ ⟨lsA, x⟩ :: post) out w pre.length
      = fun k => einsum dim (⟨out, w⟩ :: (pre ++ post))
          (lsA.filter (fun c => (letters (⟨out, w⟩ :: (pre ++ post))).contains c))
          (flatIdx dim (lsA.filter (fun c => (letters (⟨out, w⟩ :: (pre ++ post))).contains c))
            (decode dim lsA k (fun _ => 0))) := by
  have he : (pre ++ (⟨lsA, x⟩ : Operand α) :: post).eraseIdx pre.length = pre ++ post := by
    rw [List.eraseIdx_append_of_length_le (Nat.le_refl _)]
    simp
  unfold einsumSens
  simp [he]

/-- pairing of the coded sensitivity with a direction = the same total sum -/
theorem einsumSens_pairing (dim : Nat → Nat) (others : List (Operand α)) (lsA out : List Nat) (hA : lsA.Nodup)
    (w v : Nat → α) :
    let indIn : List (Operand α) := ⟨out, w⟩ :: others
    let red := lsA.filter (fun c => (letters indIn).contains c)
    sumRange (size dim lsA) (fun k => einsum dim indIn red (flatIdx dim red (decode dim lsA k (fun _ => 0))) * v k)
      = sumAssign dim (lsA ++ summedLetters indIn red) (fun _ => 0)
          (fun τ => v (flatIdx dim lsA τ) * (w (flatIdx dim out τ) * prodOps dim others τ)) := by
  intro indIn red
  have hred : red.Nodup := hA.filter _
  have hmemred : ∀ l, l ∈ red ↔ l ∈ lsA ∧ l ∈ letters indIn := by
    intro l; simp [red, List.mem_filter]
  rw [sum_flat dim lsA hA (fun _ => 0)
    (fun k τ => einsum dim indIn red (flatIdx dim red τ) * v k), sumAssign_append]
  apply sumAssign_congr_fun
  intro τ hτ _
  -- the einsum entry addressed through `red` is the sum over the remaining letters starting from τ
  have h1 : einsum dim indIn red (flatIdx dim red τ) = sumAssign dim (summedLetters indIn red) τ (prodOps dim indIn) := by
    unfold einsum
    apply sumAssign_congr
    intro τ1 τ2 ha hb
    apply prodOps_congr
    intro l hl
    by_cases hs : l ∈ summedLetters indIn red
    · exact (ha l hs).1
    · have hlred : l ∈ red := by
        by_contra hn
        exact hs ((mem_summedLetters indIn red l).mpr ⟨hl, hn⟩)
      rw [(hb l hs).1, (hb l hs).2]
      exact decode_flat dim red hred τ _ (fun k hk => hτ k ((hmemred k).mp hk).1) l hlred
  rw [h1, mul_comm]
  rw [sumAssign_mul_indep dim (summedLetters indIn red) τ (fun τ' => v (flatIdx dim lsA τ')) (prodOps dim indIn)]
  · rfl
  · intro τ' h
    show v (flatIdx dim lsA τ') = v (flatIdx dim lsA τ)
    rw [flatIdx_congr dim lsA τ' τ]
    intro l hl
    apply h
    rw [mem_summedLetters]
    rintro ⟨h1, h2⟩
    exact h2 ((hmemred l).mpr ⟨hl, h1⟩)

omit [CommRing α] in
/-- both index orders enumerate the same letters -/
theorem letters_perm (pre post : List (Operand α)) (lsA out : List Nat) (hout : out.Nodup) (hA : lsA.Nodup)
    (w z : Nat → α) :
    let indIn : List (Operand α) := ⟨out, w⟩ :: (pre ++ post)
    let red := lsA.filter (fun c => (letters indIn).contains c)
    (out ++ summedLetters (pre ++ ⟨lsA, z⟩ :: post) out).Perm (lsA ++ summedLetters indIn red) := by
  intro indIn red
  have hmemred : ∀ l, l ∈ red ↔ l ∈ lsA ∧ l ∈ letters indIn := by
    intro l; simp [red, List.mem_filter]
  have hIn : ∀ l, l ∈ letters indIn ↔ l ∈ out ∨ l ∈ letters (pre ++ post) := fun l => mem_letters_cons _ _ l
  rw [List.perm_ext_iff_of_nodup]
  · intro l
    simp only [List.mem_append, mem_summedLetters, mem_letters_insert, hmemred, hIn]
    tauto
  · rw [List.nodup_append]
    refine ⟨hout, nodup_summedLetters _ _, ?_⟩
    intro a ha b hb hab
    subst hab
    exact ((mem_summedLetters _ _ _).mp hb).2 ha
  · rw [List.nodup_append]
    refine ⟨hA, nodup_summedLetters _ _, ?_⟩
    intro a ha b hb hab
    subst hab
    have := (mem_summedLetters _ _ _).mp hb
    exact this.2 ((hmemred a).mpr ⟨ha, this.1⟩)

end pairing

/-! ### the repeated-index guard -/

theorem hasDup_eq_false_iff (ls : List Nat) : hasDup ls = false ↔ ls.Nodup := by
  induction ls with
  | nil => simp [hasDup]
  | cons l ls ih => simp [hasDup, List.nodup_cons, ih]

theorem hasDup_short (ls : List Nat) (h : hasDup ls = true) (hlen : ¬ ls.length > 2) : ∃ i, ls = [i, i] := by
  match ls, h, hlen with
  | [], h, _ => simp [hasDup] at h
  | [a], h, _ => simp [hasDup] at h
  | [a, b], h, _ =>
    simp [hasDup] at h
    exact ⟨a, by rw [h]⟩
  | _ :: _ :: _ :: _, _, hlen => simp at hlen

end PymotoVerif.Einsum
