/- complex pairs `Cx α` over a commutative ring form a commutative ring (with the operations of `Core/Einsum.lean`),
   so every generic statement about `einsum` / `unbroadcast` can be instantiated at complex data -/
import PymotoVerif.Core.Einsum
import PymotoVerif.Lemmas.Sum
import Mathlib.Tactic.Ring
import Mathlib.Algebra.Ring.Defs

namespace PymotoVerif.Einsum
open PymotoVerif PymotoVerif.Pointwise

section
variable {α : Type}

theorem Cx.ext' {a b : Cx α} (h1 : a.re = b.re) (h2 : a.im = b.im) : a = b := by
  cases a; cases b; simp_all

variable [CommRing α]

@[simp] theorem add_re (a b : Cx α) : (a + b).re = a.re + b.re := rfl
@[simp] theorem add_im (a b : Cx α) : (a + b).im = a.im + b.im := rfl
@[simp] theorem mul_re (a b : Cx α) : (a * b).re = a.re * b.re - a.im * b.im := rfl
@[simp] theorem mul_im (a b : Cx α) : (a * b).im = a.re * b.im + a.im * b.re := rfl
@[simp] theorem zero_re : (0 : Cx α).re = 0 := rfl
@[simp] theorem zero_im : (0 : Cx α).im = 0 := rfl
@[simp] theorem one_re : (1 : Cx α).re = 1 := rfl
@[simp] theorem one_im : (1 : Cx α).im = 0 := rfl
@[simp] theorem ofRe_re (x : α) : (ofRe x).re = x := rfl
@[simp] theorem ofRe_im (x : α) : (ofRe x).im = 0 := rfl

instance : Neg (Cx α) := ⟨fun a => ⟨-a.re, -a.im⟩⟩
@[simp] theorem neg_re (a : Cx α) : (-a).re = -a.re := rfl
@[simp] theorem neg_im (a : Cx α) : (-a).im = -a.im := rfl

instance instCommRingCx : CommRing (Cx α) where
  add := (· + ·)
  mul := (· * ·)
  zero := 0
  one := 1
  neg := Neg.neg
  nsmul := nsmulRec
  zsmul := zsmulRec
  add_assoc a b c := by apply Cx.ext' <;> simp only [add_re, add_im] <;> ring
  zero_add a := by apply Cx.ext' <;> simp only [add_re, add_im, zero_re, zero_im] <;> ring
  add_zero a := by apply Cx.ext' <;> simp only [add_re, add_im, zero_re, zero_im] <;> ring
  add_comm a b := by apply Cx.ext' <;> simp only [add_re, add_im] <;> ring
  neg_add_cancel a := by apply Cx.ext' <;> simp only [add_re, add_im, neg_re, neg_im, zero_re, zero_im] <;> ring
  mul_assoc a b c := by apply Cx.ext' <;> simp only [mul_re, mul_im] <;> ring
  one_mul a := by apply Cx.ext' <;> simp only [mul_re, mul_im, one_re, one_im] <;> ring
  mul_one a := by apply Cx.ext' <;> simp only [mul_re, mul_im, one_re, one_im] <;> ring
  left_distrib a b c := by apply Cx.ext' <;> simp only [mul_re, mul_im, add_re, add_im] <;> ring
  right_distrib a b c := by apply Cx.ext' <;> simp only [mul_re, mul_im, add_re, add_im] <;> ring
  zero_mul a := by apply Cx.ext' <;> simp only [mul_re, mul_im, zero_re, zero_im] <;> ring
  mul_zero a := by apply Cx.ext' <;> simp only [mul_re, mul_im, zero_re, zero_im] <;> ring
  mul_comm a b := by apply Cx.ext' <;> simp only [mul_re, mul_im] <;> ring

@[simp] theorem sub_re (a b : Cx α) : (a - b).re = a.re - b.re := by
  rw [sub_eq_add_neg, add_re, neg_re, sub_eq_add_neg]
@[simp] theorem sub_im (a b : Cx α) : (a - b).im = a.im - b.im := by
  rw [sub_eq_add_neg, add_im, neg_im, sub_eq_add_neg]

theorem ofRe_add (x y : α) : (ofRe (x + y) : Cx α) = ofRe x + ofRe y := by
  apply Cx.ext' <;> simp

theorem re_sumRange (n : Nat) (f : Nat → Cx α) : (sumRange n f).re = sumRange n (fun i => (f i).re) := by
  induction n with
  | zero => rfl
  | succ n ih => simp only [sumRange, add_re, ih]

theorem mul_ofRe_re (a : Cx α) (x : α) : (a * ofRe x).re = a.re * x := by
  simp

end
end PymotoVerif.Einsum
