/- helper lemmas for C19: frame properties of the C02 model (`response` touches states only,
   `sensitivity` / `reset` touch sensitivities only) and the loop structure of `Core/FD.lean` -/
import PymotoVerif.Core.FD
import PymotoVerif.Lemmas.Network

namespace PymotoVerif.FD
open PymotoVerif PymotoVerif.Net

section
variable {α : Type} [Add α] [Mul α] [Sub α] [Div α] [OfNat α 0] [OfNat α 1] [DecidableEq α]

/-! ### `Signal.state = v` -/

theorem setState_se (s : Sig) (v : Nat → α) (σ σ' : Store α) (h : setState s v σ = .ok σ') :
    σ'.se = σ.se ∧ σ'.hasSe = σ.hasSe := by
  unfold setState at h
  split_ifs at h <;> (cases h; exact ⟨rfl, rfl⟩)

theorem setState_st (s : Sig) (v : Nat → α) (σ σ' : Store α) (h : setState s v σ = .ok σ') :
    σ'.st = writeFrom s.ents 0 v σ.st := by
  unfold setState at h
  split_ifs at h <;> (cases h; rfl)

theorem setState_hasSt (s : Sig) (v : Nat → α) (σ σ' : Store α) (h : setState s v σ = .ok σ')
    (b : Nat) (hb : σ.hasSt b = true) : σ'.hasSt b = true := by
  unfold setState at h
  split_ifs at h
  · cases h; exact hb
  · cases h
    simp only [setB]
    split_ifs <;> simp [hb]

/-! ### frame properties of the C02 program model -/

theorem writeOuts_se (outs : List Sig) (zs : List Nat) (off : Nat) (y : Nat → α) (σ σ' : Store α)
    (h : writeOuts outs zs off y σ = .ok σ') : σ'.se = σ.se ∧ σ'.hasSe = σ.hasSe := by
  induction outs generalizing zs off σ with
  | nil => simp only [writeOuts] at h; cases h; exact ⟨rfl, rfl⟩
  | cons s ss ih =>
    cases zs with
    | nil => simp only [writeOuts] at h; cases h; exact ⟨rfl, rfl⟩
    | cons z zs =>
      simp only [writeOuts] at h
      cases h1 : setState s (fun j => y (off + j)) σ with
      | error e => rw [h1] at h; cases h
      | ok σ1 =>
        rw [h1] at h
        obtain ⟨a, b⟩ := setState_se _ _ _ _ h1
        obtain ⟨c, d⟩ := ih _ _ _ h
        exact ⟨c.trans a, d.trans b⟩

/-- states outside the entries of the outputs are not touched; allocated states stay allocated -/
theorem writeOuts_st (outs : List Sig) (zs : List Nat) (off : Nat) (y : Nat → α) (σ σ' : Store α)
    (h : writeOuts outs zs off y σ = .ok σ') :
    (∀ e, e ∉ entsOf outs → σ'.st e = σ.st e) ∧ (∀ b, σ.hasSt b = true → σ'.hasSt b = true) := by
  induction outs generalizing zs off σ with
  | nil => simp only [writeOuts] at h; cases h; exact ⟨fun _ _ => rfl, fun _ hb => hb⟩
  | cons s ss ih =>
    cases zs with
    | nil => simp only [writeOuts] at h; cases h; exact ⟨fun _ _ => rfl, fun _ hb => hb⟩
    | cons z zs =>
      simp only [writeOuts] at h
      cases h1 : setState s (fun j => y (off + j)) σ with
      | error e => rw [h1] at h; cases h
      | ok σ1 =>
        rw [h1] at h
        obtain ⟨c, d⟩ := ih _ _ _ h
        refine ⟨fun e he => ?_, fun b hb => d b (setState_hasSt _ _ _ _ h1 b hb)⟩
        have he' : e ∉ s.ents ∧ e ∉ entsOf ss := by
          simp only [entsOf, List.flatMap_cons, List.mem_append, not_or] at he
          exact he
        rw [c e he'.2, setState_st _ _ _ _ h1, writeFrom_not_mem _ _ _ _ _ he'.1]

theorem Prim.response_se (p : Prim α) (σ σ' : Store α) (h : p.response σ = .ok σ') :
    σ'.se = σ.se ∧ σ'.hasSe = σ.hasSe := by
  unfold Prim.response at h
  split_ifs at h
  exact writeOuts_se _ _ _ _ _ _ h

theorem Prim.response_st (p : Prim α) (σ σ' : Store α) (h : p.response σ = .ok σ') :
    (∀ e, e ∉ entsOf p.outs → σ'.st e = σ.st e) ∧ (∀ b, σ.hasSt b = true → σ'.hasSt b = true) := by
  unfold Prim.response at h
  split_ifs at h
  exact writeOuts_st _ _ _ _ _ _ h

/-- all entries written by a program -/
def progOutEnts : Prog α → List Nat
  | .done => []
  | .prim p r => entsOf p.outs ++ progOutEnts r
  | .sub i r => progOutEnts i ++ progOutEnts r

/-- all signals of a program (inputs and outputs of every module) -/
def progSigs : Prog α → List Sig
  | .done => []
  | .prim p r => p.outs ++ p.ins ++ progSigs r
  | .sub i r => progSigs i ++ progSigs r

theorem Prog.response_se (g : Prog α) (σ σ' : Store α) (h : g.response σ = .ok σ') :
    σ'.se = σ.se ∧ σ'.hasSe = σ.hasSe := by
  induction g generalizing σ σ' with
  | done => simp only [Prog.response] at h; cases h; exact ⟨rfl, rfl⟩
  | prim p r ih =>
    simp only [Prog.response] at h
    cases h1 : p.response σ with
    | error e => rw [h1] at h; cases h
    | ok σ1 =>
      rw [h1] at h
      obtain ⟨a, b⟩ := Prim.response_se _ _ _ h1
      obtain ⟨c, d⟩ := ih _ _ h
      exact ⟨c.trans a, d.trans b⟩
  | sub i r ihi ihr =>
    simp only [Prog.response] at h
    cases h1 : i.response σ with
    | error e => rw [h1] at h; cases h
    | ok σ1 =>
      rw [h1] at h
      obtain ⟨a, b⟩ := ihi _ _ h1
      obtain ⟨c, d⟩ := ihr _ _ h
      exact ⟨c.trans a, d.trans b⟩

theorem Prog.response_st (g : Prog α) (σ σ' : Store α) (h : g.response σ = .ok σ') :
    (∀ e, e ∉ progOutEnts g → σ'.st e = σ.st e) ∧ (∀ b, σ.hasSt b = true → σ'.hasSt b = true) := by
  induction g generalizing σ σ' with
  | done => simp only [Prog.response] at h; cases h; exact ⟨fun _ _ => rfl, fun _ hb => hb⟩
  | prim p r ih =>
    simp only [Prog.response] at h
    cases h1 : p.response σ with
    | error e => rw [h1] at h; cases h
    | ok σ1 =>
      rw [h1] at h
      obtain ⟨a, b⟩ := Prim.response_st _ _ _ h1
      obtain ⟨c, d⟩ := ih _ _ h
      refine ⟨fun e he => ?_, fun b' hb => d b' (b b' hb)⟩
      simp only [progOutEnts, List.mem_append, not_or] at he
      rw [c e he.2, a e he.1]
  | sub i r ihi ihr =>
    simp only [Prog.response] at h
    cases h1 : i.response σ with
    | error e => rw [h1] at h; cases h
    | ok σ1 =>
      rw [h1] at h
      obtain ⟨a, b⟩ := ihi _ _ h1
      obtain ⟨c, d⟩ := ihr _ _ h
      refine ⟨fun e he => ?_, fun b' hb => d b' (b b' hb)⟩
      simp only [progOutEnts, List.mem_append, not_or] at he
      rw [c e he.2, a e he.1]

/-! `sensitivity` and `reset` never touch a state -/

theorem addSens_st (L : Layout) (s : Sig) (d : Option (Nat → α)) (σ σ' : Store α)
    (h : addSens L s d σ = .ok σ') : σ'.st = σ.st ∧ σ'.hasSt = σ.hasSt := by
  unfold addSens at h
  cases d with
  | none => cases h; exact ⟨rfl, rfl⟩
  | some d =>
    simp only at h
    split_ifs at h
    cases h
    unfold addSensT
    split_ifs <;> exact ⟨rfl, rfl⟩

theorem addAll_st (L : Layout) (ins : List Sig) (off : Nat) (d : Nat → α) (σ σ' : Store α)
    (h : addAll L ins off d σ = .ok σ') : σ'.st = σ.st ∧ σ'.hasSt = σ.hasSt := by
  induction ins generalizing off σ with
  | nil => simp only [addAll] at h; cases h; exact ⟨rfl, rfl⟩
  | cons s ss ih =>
    simp only [addAll] at h
    cases h1 : addSens L s (some fun j => d (off + j)) σ with
    | error e => rw [h1] at h; cases h
    | ok σ1 =>
      rw [h1] at h
      obtain ⟨a, b⟩ := addSens_st _ _ _ _ _ h1
      obtain ⟨c, e⟩ := ih _ _ h
      exact ⟨c.trans a, e.trans b⟩

theorem Prim.sensitivity_st (L : Layout) (p : Prim α) (σ σ' : Store α)
    (h : p.sensitivity L σ = .ok σ') : σ'.st = σ.st ∧ σ'.hasSt = σ.hasSt := by
  unfold Prim.sensitivity at h
  split_ifs at h
  · cases h; exact ⟨rfl, rfl⟩
  · exact addAll_st _ _ _ _ _ _ h

theorem Prog.sensitivity_st (L : Layout) (g : Prog α) (σ σ' : Store α)
    (h : g.sensitivity L σ = .ok σ') : σ'.st = σ.st ∧ σ'.hasSt = σ.hasSt := by
  induction g generalizing σ σ' with
  | done => simp only [Prog.sensitivity] at h; cases h; exact ⟨rfl, rfl⟩
  | prim p r ih =>
    simp only [Prog.sensitivity] at h
    cases h1 : r.sensitivity L σ with
    | error e => rw [h1] at h; cases h
    | ok σ1 =>
      rw [h1] at h
      obtain ⟨a, b⟩ := ih _ _ h1
      obtain ⟨c, d⟩ := Prim.sensitivity_st _ _ _ _ h
      exact ⟨c.trans a, d.trans b⟩
  | sub i r ihi ihr =>
    simp only [Prog.sensitivity] at h
    cases h1 : r.sensitivity L σ with
    | error e => rw [h1] at h; cases h
    | ok σ1 =>
      rw [h1] at h
      obtain ⟨a, b⟩ := ihr _ _ h1
      obtain ⟨c, d⟩ := ihi _ _ h
      exact ⟨c.trans a, d.trans b⟩

theorem resetSig_st (L : Layout) (s : Sig) (σ : Store α) :
    (resetSig L s σ).st = σ.st ∧ (resetSig L s σ).hasSt = σ.hasSt := by
  unfold resetSig
  split_ifs <;> exact ⟨rfl, rfl⟩

theorem foldl_resetSig_st (L : Layout) (l : List Sig) (σ : Store α) :
    (l.foldl (fun σ s => resetSig L s σ) σ).st = σ.st ∧
    (l.foldl (fun σ s => resetSig L s σ) σ).hasSt = σ.hasSt := by
  induction l generalizing σ with
  | nil => exact ⟨rfl, rfl⟩
  | cons s ss ih =>
    simp only [List.foldl_cons]
    obtain ⟨a, b⟩ := ih (resetSig L s σ)
    obtain ⟨c, d⟩ := resetSig_st L s σ
    exact ⟨a.trans c, b.trans d⟩

theorem Prog.reset_st (L : Layout) (g : Prog α) (σ : Store α) :
    (g.reset L σ).st = σ.st ∧ (g.reset L σ).hasSt = σ.hasSt := by
  induction g generalizing σ with
  | done => exact ⟨rfl, rfl⟩
  | prim p r ih =>
    simp only [Prog.reset, Prim.reset]
    obtain ⟨a, b⟩ := foldl_resetSig_st L p.ins (p.outs.foldl (fun σ s => resetSig L s σ) (r.reset L σ))
    obtain ⟨c, d⟩ := foldl_resetSig_st L p.outs (r.reset L σ)
    obtain ⟨e, f⟩ := ih σ
    exact ⟨a.trans (c.trans e), b.trans (d.trans f)⟩
  | sub i r ihi ihr =>
    simp only [Prog.reset]
    obtain ⟨a, b⟩ := ihi (r.reset L σ)
    obtain ⟨c, d⟩ := ihr σ
    exact ⟨a.trans c, b.trans d⟩

/-! ### after `reset` no signal of the program carries a sensitivity -/

/-- the sensitivity of `s` is `None` or zero on all its entries -/
def SigClear (s : Sig) (σ : Store α) : Prop :=
  σ.hasSe s.base = true → ∀ e ∈ s.ents, σ.se e = 0

/-- `Signal.reset` only writes zeros and only clears flags -/
theorem resetSig_mono (L : Layout) (t : Sig) (σ : Store α) :
    (∀ b, (resetSig L t σ).hasSe b = true → σ.hasSe b = true) ∧
    (∀ e, (resetSig L t σ).se e = 0 ∨ (resetSig L t σ).se e = σ.se e) := by
  unfold resetSig
  split_ifs
  · refine ⟨fun b hb => hb, fun e => ?_⟩
    simp only [writeFrom_const]; split_ifs <;> simp
  · refine ⟨fun b hb => hb, fun e => ?_⟩
    simp only [writeFrom_const]; split_ifs <;> simp
  · refine ⟨fun b hb => ?_, fun e => ?_⟩
    · simp only [setB] at hb
      split_ifs at hb with hbb
      exact hb
    · simp only [writeFrom_const]; split_ifs <;> simp
  · exact ⟨fun b hb => hb, fun e => Or.inr rfl⟩

theorem resetSig_clear_self (L : Layout) (s : Sig) (σ : Store α) : SigClear s (resetSig L s σ) := by
  intro hb e he
  unfold resetSig at hb ⊢
  split_ifs at hb ⊢ with h1 h2 h3
  · simp only [writeFrom_const, he, if_true]
  · simp only [writeFrom_const, he, if_true]
  · simp only [writeFrom_const, he, if_true]
  · exact absurd hb (by simpa using h1)

theorem resetSig_clear_keep (L : Layout) (t s : Sig) (σ : Store α) (h : SigClear s σ) :
    SigClear s (resetSig L t σ) := by
  intro hb e he
  obtain ⟨m1, m2⟩ := resetSig_mono L t σ
  rcases m2 e with h0 | h0
  · exact h0
  · rw [h0]; exact h (m1 _ hb) e he

theorem foldl_resetSig_clear_keep (L : Layout) (l : List Sig) (s : Sig) (σ : Store α) (h : SigClear s σ) :
    SigClear s (l.foldl (fun σ t => resetSig L t σ) σ) := by
  induction l generalizing σ with
  | nil => exact h
  | cons t ts ih => exact ih _ (resetSig_clear_keep L t s σ h)

theorem foldl_resetSig_clear (L : Layout) (l : List Sig) (σ : Store α) :
    ∀ s ∈ l, SigClear s (l.foldl (fun σ t => resetSig L t σ) σ) := by
  induction l generalizing σ with
  | nil => intro s hs; cases hs
  | cons t ts ih =>
    intro s hs
    simp only [List.foldl_cons]
    rcases List.mem_cons.mp hs with rfl | hs'
    · exact foldl_resetSig_clear_keep L ts _ _ (resetSig_clear_self L _ σ)
    · exact ih _ s hs'

theorem Prog.reset_clear_keep (L : Layout) (g : Prog α) (s : Sig) (σ : Store α) (h : SigClear s σ) :
    SigClear s (g.reset L σ) := by
  induction g generalizing σ with
  | done => exact h
  | prim p r ih =>
    simp only [Prog.reset, Prim.reset]
    exact foldl_resetSig_clear_keep L _ _ _ (foldl_resetSig_clear_keep L _ _ _ (ih σ h))
  | sub i r ihi ihr =>
    simp only [Prog.reset]
    exact ihi _ (ihr σ h)

theorem Prog.reset_clear (L : Layout) (g : Prog α) (σ : Store α) :
    ∀ s ∈ progSigs g, SigClear s (g.reset L σ) := by
  induction g generalizing σ with
  | done => intro s hs; cases hs
  | prim p r ih =>
    intro s hs
    simp only [progSigs, List.mem_append] at hs
    simp only [Prog.reset, Prim.reset]
    rcases hs with (ho | hi) | hr
    · exact foldl_resetSig_clear_keep L _ _ _ (foldl_resetSig_clear L p.outs _ s ho)
    · exact foldl_resetSig_clear L p.ins _ s hi
    · exact foldl_resetSig_clear_keep L _ _ _ (foldl_resetSig_clear_keep L _ _ _ (ih σ s hr))
  | sub i r ihi ihr =>
    intro s hs
    simp only [progSigs, List.mem_append] at hs
    simp only [Prog.reset]
    rcases hs with hi | hr
    · exact ihi _ s hi
    · exact Prog.reset_clear_keep L i s _ (ihr σ s hr)

/-! ### what the procedure needs of a block, and the C02 programs provide it -/

/-- `S` = the store entries the block does not write -/
structure BlkOK (B : Blk α) (S : Nat → Prop) : Prop where
  resp_se : ∀ σ σ', B.response σ = .ok σ' → σ'.se = σ.se ∧ σ'.hasSe = σ.hasSe
  resp_st : ∀ σ σ', B.response σ = .ok σ' → ∀ e, S e → σ'.st e = σ.st e
  sens_st : ∀ σ σ', B.sensitivity σ = .ok σ' → σ'.st = σ.st
  reset_st : ∀ σ, (B.reset σ).st = σ.st

theorem progBlk_ok (L : Layout) (g gs : Prog α) : BlkOK (progBlk L g gs) (fun e => e ∉ progOutEnts g) where
  resp_se := fun σ σ' h => Prog.response_se g σ σ' h
  resp_st := fun σ σ' h e he => (Prog.response_st g σ σ' h).1 e he
  sens_st := fun σ σ' h => (Prog.sensitivity_st L gs σ σ' h).1
  reset_st := fun σ => (Prog.reset_st L g σ).1

theorem seed_st (L : Layout) (s : Sig) (v : Option (Nat → α)) (σ σ' : Store α) (h : seed L s v σ = .ok σ') :
    σ'.st = σ.st := by
  unfold seed at h
  split_ifs at h <;> cases v <;> (cases h <;> rfl)

/-! ### the analytical pass -/

/-- provenance of one record of the analytical pass: the seed used, the back-propagation it comes
    from and the reference response -/
def RecOK (ops : Ops α) (B : Blk α) (L : Layout) (inps : List InSig) (st0 : Nat → α) (o : OutSig α)
    (r : OutRec α) : Prop :=
  ∃ σpre σa σb, σpre.st = st0 ∧ seed L o.sig (some (seedVals ops o)) σpre = .ok σa ∧
    B.sensitivity σa = .ok σb ∧ r.f0 = sigVals o.sig st0 ∧
    r.dxan = inps.map (fun i => if i.sig.hasSens σb then some (sigVals i.sig σb.se) else none) ∧
    r.w = seedVals ops o

theorem resetAll_st (B : Blk α) (S : Nat → Prop) (hB : BlkOK B S) (L : Layout) (extra : List Sig)
    (σ : Store α) : (resetAll B L extra σ).st = σ.st := by
  unfold resetAll
  rw [(foldl_resetSig_st L extra (B.reset σ)).1, hB.reset_st]

theorem analytical_spec (ops : Ops α) (B : Blk α) (S : Nat → Prop) (hB : BlkOK B S) (L : Layout)
    (extra : List Sig) (inps : List InSig) (P : Store α → Prop)
    (hP : ∀ τ τ' : Store α, τ'.se = τ.se → τ'.hasSe = τ.hasSe → P τ → P τ')
    (hreset : ∀ τ, P (resetAll B L extra τ))
    (outps : List (OutSig α)) (σ σ' : Store α) (recs : List (Option (OutRec α)))
    (h : analytical ops B L extra inps outps σ = .ok (σ', recs)) :
    σ'.st = σ.st ∧ (P σ → P σ') ∧ recs.length = outps.length ∧
    ∀ (k : Nat) o r, outps[k]? = some o → recs[k]? = some (some r) → RecOK ops B L inps σ.st o r := by
  induction outps generalizing σ recs with
  | nil =>
    simp only [analytical] at h; cases h
    exact ⟨rfl, id, rfl, fun k o r ho => by simp at ho⟩
  | cons o os ih =>
    simp only [analytical] at h
    cases h1 : analyticalOne ops B L extra inps o σ with
    | error e => rw [h1] at h; cases h
    | ok pr =>
      obtain ⟨σ1, r1⟩ := pr
      rw [h1] at h
      simp only at h
      cases h2 : analytical ops B L extra inps os σ1 with
      | error e => rw [h2] at h; cases h
      | ok pr2 =>
        obtain ⟨σ2, rs⟩ := pr2
        rw [h2] at h
        simp only at h
        cases h
        obtain ⟨a1, a2, a3, a4⟩ := ih σ1 rs h2
        -- the head
        have hhead : σ1.st = σ.st ∧ (P σ → P σ1) ∧ ∀ r, r1 = some r → RecOK ops B L inps σ.st o r := by
          unfold analyticalOne at h1
          by_cases hs : (!o.sig.hasState σ) = true
          · rw [if_pos hs] at h1; cases h1; exact ⟨rfl, id, fun r hr => by cases hr⟩
          · rw [if_neg hs] at h1
            simp only at h1
            cases h3 : seed L o.sig (some (seedVals ops o)) σ with
            | error e => rw [h3] at h1; cases h1
            | ok σa =>
              rw [h3] at h1
              simp only at h1
              cases h4 : B.sensitivity σa with
              | error e => rw [h4] at h1; cases h1
              | ok σb =>
                rw [h4] at h1
                simp only at h1
                cases h1
                have e1 : σa.st = σ.st := seed_st L _ _ _ _ h3
                have e2 : σb.st = σa.st := hB.sens_st _ _ h4
                refine ⟨by rw [resetAll_st B S hB, e2, e1], fun _ => hreset _, fun r hr => ?_⟩
                cases hr
                exact ⟨σ, σa, σb, rfl, h3, h4, rfl, rfl, rfl⟩
        obtain ⟨b1, b2, b3⟩ := hhead
        refine ⟨a1.trans b1, fun hp => a2 (b2 hp), by simp [a3], ?_⟩
        intro k o' r ho hr
        cases k with
        | zero =>
          simp only [List.getElem?_cons_zero, Option.some.injEq] at ho hr
          subst ho
          exact b3 r hr
        | succ k =>
          simp only [List.getElem?_cons_succ] at ho hr
          have := a4 k o' r ho hr
          rw [b1] at this
          exact this

/-! ### the perturbation loops -/

/-- every call produced by the loop over the outputs carries the tags and values of its output -/
theorem outCalls_spec (ops : Ops α) (dx den : α) (imag : Bool) (iin j : Nat) (x0 : α) (σr : Store α)
    (k0 : Nat) (outps : List (OutSig α)) (recs : List (Option (OutRec α))) (cs : List (Call α))
    (h : outCalls ops dx den imag iin j x0 σr k0 outps recs = .ok cs) :
    ∀ c ∈ cs, c.iin = iin ∧ c.j = j ∧ c.imag = imag ∧ c.x0 = x0 ∧ c.dx = dx ∧
      ∃ m o r, c.iout = k0 + m ∧ outps[m]? = some o ∧ recs[m]? = some (some r) ∧
        o.sig.hasState σr = true ∧
        c.an = anVal ops imag r iin j ∧ c.fd = fdVal ops imag den o r σr := by
  induction outps generalizing k0 recs cs with
  | nil => simp only [outCalls] at h; cases h; intro c hc; cases hc
  | cons o os ih =>
    cases recs with
    | nil => simp only [outCalls] at h; cases h; intro c hc; cases hc
    | cons r rs =>
      simp only [outCalls] at h
      have shift : ∀ cs', outCalls ops dx den imag iin j x0 σr (k0 + 1) os rs = .ok cs' →
          ∀ c ∈ cs', c.iin = iin ∧ c.j = j ∧ c.imag = imag ∧ c.x0 = x0 ∧ c.dx = dx ∧
          ∃ m o' r', c.iout = k0 + m ∧ (o :: os)[m]? = some o' ∧ (r :: rs)[m]? = some (some r') ∧
            o'.sig.hasState σr = true ∧
            c.an = anVal ops imag r' iin j ∧ c.fd = fdVal ops imag den o' r' σr := by
        intro cs' h' c hc
        obtain ⟨a1, a2, a3, a4, a5, m, o', r', e1, e2, e3, e4, e5, e6⟩ := ih (k0 + 1) rs cs' h' c hc
        exact ⟨a1, a2, a3, a4, a5, m + 1, o', r', by omega, by simpa using e2, by simpa using e3, e4, e5, e6⟩
      split_ifs at h with hs
      · exact shift cs h
      · cases r with
        | none => cases h
        | some rec =>
          simp only at h
          cases h2 : outCalls ops dx den imag iin j x0 σr (k0 + 1) os rs with
          | error e => rw [h2] at h; cases h
          | ok rest =>
            rw [h2] at h
            simp only at h
            cases h
            intro c hc
            rcases List.mem_cons.mp hc with rfl | hc'
            · refine ⟨rfl, rfl, rfl, rfl, rfl, 0, o, rec, rfl, rfl, rfl, ?_, rfl, rfl⟩
              simpa using hs
            · exact shift rest h2 c hc'

/-- the perturbation that produced a call: the store it started from agrees with `st0` on `S`,
    the perturbed input, the perturbed response and the loop over the outputs -/
def CallOK (ops : Ops α) (B : Blk α) (cfg : Cfg α) (outps : List (OutSig α))
    (recs : List (Option (OutRec α))) (S : Nat → Prop) (st0 : Nat → α) (i : InSig) (iin : Nat)
    (x : Nat → α) (c : Call α) : Prop :=
  c.j < i.sig.ents.length ∧ skipEntry cfg i (x c.j) = false ∧ (c.imag = true → i.cx = true) ∧
  ∃ σ σp σr cs',
    (∀ e, S e → σ.st e = st0 e) ∧
    setState i.sig (fun k => if k = c.j then x k + (if c.imag then cfg.dx * ops.I * scaleF ops cfg (x c.j)
        else cfg.dx * scaleF ops cfg (x c.j)) else x k) σ = .ok σp ∧
    B.response σp = .ok σr ∧
    outCalls ops cfg.dx (if c.imag then cfg.dx * ops.I * scaleF ops cfg (x c.j)
        else cfg.dx * scaleF ops cfg (x c.j)) c.imag iin c.j (x c.j) σr 0 outps recs = .ok cs' ∧ c ∈ cs'

theorem callOK_of_pass (ops : Ops α) (B : Blk α) (cfg : Cfg α) (outps : List (OutSig α))
    (recs : List (Option (OutRec α))) (S : Nat → Prop) (st0 : Nat → α) (i : InSig) (iin : Nat)
    (x : Nat → α) (c : Call α) (j : Nat) (imag : Bool) (step : α) (hcj : c.j = j) (him : c.imag = imag)
    (hj : j < i.sig.ents.length) (hsk : skipEntry cfg i (x j) = false) (hcx : imag = true → i.cx = true)
    (σ σp σr : Store α) (cs' : List (Call α)) (h0 : ∀ e, S e → σ.st e = st0 e)
    (hset : setState i.sig (fun k => if k = j then x k + step else x k) σ = .ok σp)
    (hresp : B.response σp = .ok σr)
    (hout : outCalls ops cfg.dx step imag iin j (x j) σr 0 outps recs = .ok cs') (hc : c ∈ cs')
    (hstep : step = if imag then cfg.dx * ops.I * scaleF ops cfg (x j) else cfg.dx * scaleF ops cfg (x j)) :
    CallOK ops B cfg outps recs S st0 i iin x c := by
  subst hstep
  obtain ⟨ci, cj, cim, co, cx0, cdx, can, cfd⟩ := c
  simp only at hcj him
  subst hcj; subst him
  exact ⟨hj, hsk, hcx, σ, σp, σr, cs', h0, hset, hresp, hout, hc⟩

theorem passStep_spec (ops : Ops α) (B : Blk α) (S : Nat → Prop) (hB : BlkOK B S) (dx : α) (i : InSig)
    (hn : i.sig.ents.Nodup) (iin j : Nat) (x : Nat → α) (step : α) (imag : Bool)
    (outps : List (OutSig α)) (recs : List (Option (OutRec α))) (σ σq : Store α) (cs : List (Call α))
    (hx : ∀ e ∈ i.sig.ents, x (i.sig.ents.idxOf e) = σ.st e)
    (h : passStep ops B dx i iin j x step imag outps recs σ = .ok (σq, cs)) :
    (∀ e, S e → σq.st e = σ.st e) ∧ (∀ e ∈ i.sig.ents, σq.st e = σ.st e) ∧
    σq.se = σ.se ∧ σq.hasSe = σ.hasSe ∧
    ∃ σp σr, setState i.sig (fun k => if k = j then x k + step else x k) σ = .ok σp ∧
      B.response σp = .ok σr ∧ outCalls ops dx step imag iin j (x j) σr 0 outps recs = .ok cs := by
  unfold passStep at h
  cases h1 : setState i.sig (fun k => if k = j then x k + step else x k) σ with
  | error e => rw [h1] at h; cases h
  | ok σp =>
    rw [h1] at h; simp only at h
    cases h2 : B.response σp with
    | error e => rw [h2] at h; cases h
    | ok σr =>
      rw [h2] at h; simp only at h
      cases h3 : outCalls ops dx step imag iin j (x j) σr 0 outps recs with
      | error e => rw [h3] at h; cases h
      | ok cs1 =>
        rw [h3] at h; simp only at h
        cases h4 : setState i.sig x σr with
        | error e => rw [h4] at h; cases h
        | ok σq1 =>
          rw [h4] at h; simp only at h
          cases h
          have hmem : ∀ e ∈ i.sig.ents, σq.st e = σ.st e := by
            intro e he
            rw [setState_st _ _ _ _ h4, writeFrom_mem _ hn _ _ _ _ he, Nat.zero_add]
            exact hx e he
          obtain ⟨s1, s2⟩ := setState_se _ _ _ _ h1
          obtain ⟨s3, s4⟩ := hB.resp_se _ _ h2
          obtain ⟨s5, s6⟩ := setState_se _ _ _ _ h4
          refine ⟨fun e he => ?_, hmem, s5.trans (s3.trans s1), s6.trans (s4.trans s2), σp, σr, by first | exact h1 | rfl, by first | exact h2 | rfl, by first | exact h3 | rfl⟩
          by_cases hm : e ∈ i.sig.ents
          · exact hmem e hm
          · rw [setState_st _ _ _ _ h4, writeFrom_not_mem _ _ _ _ _ hm, hB.resp_st _ _ h2 e he,
              setState_st _ _ _ _ h1, writeFrom_not_mem _ _ _ _ _ hm]

theorem entryStep_spec (ops : Ops α) (B : Blk α) (S : Nat → Prop) (hB : BlkOK B S) (cfg : Cfg α)
    (i : InSig) (hn : i.sig.ents.Nodup) (iin : Nat) (outps : List (OutSig α))
    (recs : List (Option (OutRec α))) (x : Nat → α) (j : Nat) (hj : j < i.sig.ents.length)
    (st0 : Nat → α) (σ σ' : Store α) (cs : List (Call α))
    (hx : ∀ e ∈ i.sig.ents, x (i.sig.ents.idxOf e) = σ.st e) (h0 : ∀ e, S e → σ.st e = st0 e)
    (h : entryStep ops B cfg i iin outps recs x j σ = .ok (σ', cs)) :
    (∀ e, S e → σ'.st e = σ.st e) ∧ (∀ e ∈ i.sig.ents, σ'.st e = σ.st e) ∧
    σ'.se = σ.se ∧ σ'.hasSe = σ.hasSe ∧
    (∀ c ∈ cs, c.iin = iin ∧ c.j = j ∧ CallOK ops B cfg outps recs S st0 i iin x c) ∧
    (skipEntry cfg i (x j) = true → cs = []) := by
  unfold entryStep at h
  by_cases hsk : skipEntry cfg i (x j) = true
  · rw [if_pos hsk] at h
    cases h
    exact ⟨fun _ _ => rfl, fun _ _ => rfl, rfl, rfl, by simp, fun _ => rfl⟩
  · rw [if_neg hsk] at h
    simp only at h
    have hsk' : skipEntry cfg i (x j) = false := by simpa using hsk
    cases h1 : passStep ops B cfg.dx i iin j x (cfg.dx * scaleF ops cfg (x j)) false outps recs σ with
    | error e => rw [h1] at h; cases h
    | ok pr =>
      obtain ⟨σ1, c1⟩ := pr
      rw [h1] at h; simp only at h
      obtain ⟨a1, a2, a3, a4, σp, σr, a5, a6, a7⟩ := passStep_spec ops B S hB _ i hn _ _ _ _ _ _ _ _ _ _ hx h1
      have call1 : ∀ c ∈ c1, c.iin = iin ∧ c.j = j ∧ CallOK ops B cfg outps recs S st0 i iin x c := by
        intro c hc
        obtain ⟨b1, b2, b3, _⟩ := outCalls_spec ops _ _ _ _ _ _ _ _ _ _ _ a7 c hc
        exact ⟨b1, b2, callOK_of_pass ops B cfg outps recs S st0 i iin x c j false _ b2 b3 hj hsk'
          (fun hi => by cases hi) σ σp σr c1 h0 a5 a6 a7 hc rfl⟩
      split_ifs at h with hcx
      · cases h2 : passStep ops B cfg.dx i iin j x (cfg.dx * ops.I * scaleF ops cfg (x j)) true outps recs σ1 with
        | error e => rw [h2] at h; cases h
        | ok pr2 =>
          obtain ⟨σ2, c2⟩ := pr2
          rw [h2] at h; simp only at h
          cases h
          have hx1 : ∀ e ∈ i.sig.ents, x (i.sig.ents.idxOf e) = σ1.st e := fun e he => by
            rw [a2 e he]; exact hx e he
          obtain ⟨d1, d2, d3, d4, σp2, σr2, d5, d6, d7⟩ :=
            passStep_spec ops B S hB _ i hn _ _ _ _ _ _ _ _ _ _ hx1 h2
          refine ⟨fun e he => (d1 e he).trans (a1 e he), fun e he => (d2 e he).trans (a2 e he),
            d3.trans a3, d4.trans a4, ?_, fun hs => by rw [hs] at hsk'; cases hsk'⟩
          intro c hc
          rcases List.mem_append.mp hc with hc | hc
          · exact call1 c hc
          · obtain ⟨b1, b2, b3, _⟩ := outCalls_spec ops _ _ _ _ _ _ _ _ _ _ _ d7 c hc
            exact ⟨b1, b2, callOK_of_pass ops B cfg outps recs S st0 i iin x c j true _ b2 b3 hj hsk'
              (fun _ => hcx) σ1 σp2 σr2 c2 (fun e he => (a1 e he).trans (h0 e he)) d5 d6 d7 hc rfl⟩
      · cases h
        exact ⟨a1, a2, a3, a4, call1, fun hs => by rw [hs] at hsk'; cases hsk'⟩

theorem entryLoop_spec (ops : Ops α) (B : Blk α) (S : Nat → Prop) (hB : BlkOK B S) (cfg : Cfg α)
    (i : InSig) (hn : i.sig.ents.Nodup) (iin : Nat) (outps : List (OutSig α))
    (recs : List (Option (OutRec α))) (x : Nat → α) (st0 : Nat → α) (js : List Nat)
    (hjs : ∀ j ∈ js, j < i.sig.ents.length) (σ σ' : Store α) (cs : List (Call α))
    (hx : ∀ e ∈ i.sig.ents, x (i.sig.ents.idxOf e) = σ.st e) (h0 : ∀ e, S e → σ.st e = st0 e)
    (h : entryLoop ops B cfg i iin outps recs x js σ = .ok (σ', cs)) :
    (∀ e, S e → σ'.st e = σ.st e) ∧ (∀ e ∈ i.sig.ents, σ'.st e = σ.st e) ∧
    σ'.se = σ.se ∧ σ'.hasSe = σ.hasSe ∧
    (∀ c ∈ cs, c.iin = iin ∧ c.j ∈ js ∧ CallOK ops B cfg outps recs S st0 i iin x c) := by
  induction js generalizing σ cs with
  | nil =>
    simp only [entryLoop] at h; cases h
    exact ⟨fun _ _ => rfl, fun _ _ => rfl, rfl, rfl, by simp⟩
  | cons j js ih =>
    simp only [entryLoop] at h
    cases h1 : entryStep ops B cfg i iin outps recs x j σ with
    | error e => rw [h1] at h; cases h
    | ok pr =>
      obtain ⟨σ1, c1⟩ := pr
      rw [h1] at h; simp only at h
      cases h2 : entryLoop ops B cfg i iin outps recs x js σ1 with
      | error e => rw [h2] at h; cases h
      | ok pr2 =>
        obtain ⟨σ2, c2⟩ := pr2
        rw [h2] at h; simp only at h
        cases h
        obtain ⟨a1, a2, a3, a4, a5, _⟩ :=
          entryStep_spec ops B S hB cfg i hn iin outps recs x j (hjs j (by simp)) st0 σ σ1 c1 hx h0 h1
        have hx1 : ∀ e ∈ i.sig.ents, x (i.sig.ents.idxOf e) = σ1.st e := fun e he => by
          rw [a2 e he]; exact hx e he
        obtain ⟨d1, d2, d3, d4, d5⟩ := ih (fun j' hj' => hjs j' (by simp [hj'])) σ1 c2 hx1
          (fun e he => (a1 e he).trans (h0 e he)) h2
        refine ⟨fun e he => (d1 e he).trans (a1 e he), fun e he => (d2 e he).trans (a2 e he),
          d3.trans a3, d4.trans a4, ?_⟩
        intro c hc
        rcases List.mem_append.mp hc with hc | hc
        · obtain ⟨b1, b2, b3⟩ := a5 c hc
          exact ⟨b1, by simp [b2], b3⟩
        · obtain ⟨b1, b2, b3⟩ := d5 c hc
          exact ⟨b1, by simp [b2], b3⟩

theorem inputLoop_spec (ops : Ops α) (B : Blk α) (S : Nat → Prop) (hB : BlkOK B S) (cfg : Cfg α)
    (outps : List (OutSig α)) (recs : List (Option (OutRec α))) (st0 : Nat → α) (iin0 : Nat)
    (inps : List InSig) (hn : ∀ i ∈ inps, i.sig.ents.Nodup) (hS : ∀ i ∈ inps, ∀ e ∈ i.sig.ents, S e)
    (hv : ∀ i ∈ inps, ∀ j ∈ i.visit, j < i.sig.ents.length)
    (σ σ' : Store α) (cs : List (Call α)) (h0 : ∀ e, S e → σ.st e = st0 e)
    (h : inputLoop ops B cfg outps recs iin0 inps σ = .ok (σ', cs)) :
    (∀ e, S e → σ'.st e = σ.st e) ∧ σ'.se = σ.se ∧ σ'.hasSe = σ.hasSe ∧
    (∀ c ∈ cs, ∃ k i x, c.iin = iin0 + k ∧ inps[k]? = some i ∧ c.j ∈ i.visit ∧
      (∀ m, m < i.sig.ents.length → x m = st0 (i.sig.ents.getD m 0)) ∧
      CallOK ops B cfg outps recs S st0 i c.iin x c) := by
  induction inps generalizing iin0 σ cs with
  | nil =>
    simp only [inputLoop] at h; cases h
    exact ⟨fun _ _ => rfl, rfl, rfl, by simp⟩
  | cons i is ih =>
    simp only [inputLoop] at h
    split_ifs at h with hst hun
    cases h1 : entryLoop ops B cfg i iin0 outps recs (sigVals i.sig σ.st) i.visit σ with
    | error e => rw [h1] at h; cases h
    | ok pr =>
      obtain ⟨σ1, c1⟩ := pr
      rw [h1] at h; simp only at h
      cases h2 : inputLoop ops B cfg outps recs (iin0 + 1) is σ1 with
      | error e => rw [h2] at h; cases h
      | ok pr2 =>
        obtain ⟨σ2, c2⟩ := pr2
        rw [h2] at h; simp only at h
        cases h
        have hni := hn i (by simp)
        have hx : ∀ e ∈ i.sig.ents, sigVals i.sig σ.st (i.sig.ents.idxOf e) = σ.st e := fun e he => by
          unfold sigVals; rw [getD_idxOf _ _ he]
        obtain ⟨a1, _, a3, a4, a5⟩ := entryLoop_spec ops B S hB cfg i hni iin0 outps recs _ st0
          i.visit (hv i (by simp)) σ σ1 c1 hx h0 h1
        obtain ⟨d1, d3, d4, d5⟩ := ih (iin0 + 1) (fun i' hi' => hn i' (by simp [hi']))
          (fun i' hi' => hS i' (by simp [hi'])) (fun i' hi' => hv i' (by simp [hi'])) σ1 c2
          (fun e he => (a1 e he).trans (h0 e he)) h2
        refine ⟨fun e he => (d1 e he).trans (a1 e he), d3.trans a3, d4.trans a4, ?_⟩
        intro c hc
        rcases List.mem_append.mp hc with hc | hc
        · obtain ⟨b1, b2, b3⟩ := a5 c hc
          refine ⟨0, i, sigVals i.sig σ.st, by simpa using b1, rfl, b2, fun m hm => ?_, by rw [b1]; exact b3⟩
          unfold sigVals
          apply h0
          apply hS i (by simp)
          rw [List.getD_eq_getElem _ _ hm]; exact List.getElem_mem hm
        · obtain ⟨k, i', x, e1, e2, e2', e3, e4⟩ := d5 c hc
          exact ⟨k + 1, i', x, by omega, by simpa using e2, e2', e3, e4⟩

/-- `fdCore` unfolded into its three stages -/
theorem fdCore_stages (ops : Ops α) (B : Blk α) (L : Layout) (cfg : Cfg α) (inps : List InSig)
    (outps : List (OutSig α)) (σ : Store α) (res : Res α)
    (h : fdCore ops B L cfg inps outps σ = .ok res) :
    ∃ σ2 σ3 recs, B.response (resetAll B L (inps.map (·.sig) ++ outps.map (·.sig)) σ) = .ok σ2 ∧
      analytical ops B L (inps.map (·.sig) ++ outps.map (·.sig)) inps outps σ2 = .ok (σ3, recs) ∧
      inputLoop ops B cfg outps recs 0 inps σ3 = .ok (res.store, res.calls) := by
  unfold fdCore at h
  simp only at h
  cases h1 : B.response (resetAll B L (inps.map (·.sig) ++ outps.map (·.sig)) σ) with
  | error e => rw [h1] at h; cases h
  | ok σ2 =>
    rw [h1] at h; simp only at h
    cases h2 : analytical ops B L (inps.map (·.sig) ++ outps.map (·.sig)) inps outps σ2 with
    | error e => rw [h2] at h; cases h
    | ok pr =>
      obtain ⟨σ3, recs⟩ := pr
      rw [h2] at h; simp only at h
      cases h3 : inputLoop ops B cfg outps recs 0 inps σ3 with
      | error e => rw [h3] at h; cases h
      | ok pr3 =>
        obtain ⟨σ4, cs⟩ := pr3
        rw [h3] at h; simp only at h
        cases h
        exact ⟨σ2, σ3, recs, rfl, by first | exact h2 | rfl, by first | exact h3 | rfl⟩

/-! ### splitting a network at a top-level position -/

theorem response_split (n : Nat) (g : Prog α) (σ : Store α) :
    g.response σ = match (takeI n g).response σ with
      | .error e => .error e
      | .ok σ1 => (dropI n g).response σ1 := by
  induction n generalizing g σ with
  | zero => simp [takeI, dropI, Prog.response]
  | succ n ih =>
    cases g with
    | done => simp [takeI, dropI, Prog.response]
    | prim p r =>
      simp only [takeI, dropI, Prog.response]
      cases p.response σ with
      | error e => rfl
      | ok σ1 => exact ih r σ1
    | sub i r =>
      simp only [takeI, dropI, Prog.response]
      cases i.response σ with
      | error e => rfl
      | ok σ1 => exact ih r σ1

end
end PymotoVerif.FD
