/- helper lemmas for C19 (smooth modules): the forward difference quotient of a twice differentiable real
   function differs from the derivative by at most `M·|h|/2` (Cauchy mean value theorem twice = Taylor with
   Lagrange remainder of order 2), and the numerical value of `Core/FD.lean` (`fdVal`, real data) IS that
   difference quotient of the seeded response. -/
import PymotoVerif.Lemmas.FD
import PymotoVerif.Lemmas.Sum
import Mathlib.Analysis.Calculus.Deriv.MeanValue
import Mathlib.Analysis.Calculus.Deriv.Mul
import Mathlib.Analysis.Calculus.Deriv.Add
import Mathlib.Analysis.Calculus.Deriv.Comp
import Mathlib.Analysis.Calculus.ContDiff.Basic
import Mathlib.Analysis.Calculus.ContDiff.Deriv
import Mathlib.Algebra.BigOperators.Field
import Mathlib.Tactic.Ring
import Mathlib.Tactic.FieldSimp
import Mathlib.Tactic.Linarith

namespace PymotoVerif.FD
open PymotoVerif PymotoVerif.Net Finset

/-! ## Taylor, order 2, for the forward difference -/

/-- **Lagrange form**: `φ` has derivative `φ'` on `[0, h]` (one-sided at the ends), `φ'` is continuous on `[0, h]`
    and has derivative `φ''` inside; then `(φ h − φ 0)/h − φ' 0 = h · φ''(d) / 2` for some `d ∈ (0, h)`. -/
theorem fwd_diff_lagrange {φ φ' φ'' : ℝ → ℝ} {h : ℝ} (hh : 0 < h)
    (hd1 : ∀ s ∈ Set.Icc 0 h, HasDerivWithinAt φ (φ' s) (Set.Icc 0 h) s)
    (hc : ContinuousOn φ' (Set.Icc 0 h))
    (hd2 : ∀ s ∈ Set.Ioo 0 h, HasDerivAt φ' (φ'' s) s) :
    ∃ d ∈ Set.Ioo 0 h, (φ h - φ 0) / h - φ' 0 = h * φ'' d / 2 := by
  -- `F s = φ s − φ 0 − s·φ' 0` against `G s = s·s`
  have hFc : ContinuousOn (fun s => φ s - φ 0 - s * φ' 0) (Set.Icc 0 h) := by
    have h1 : ContinuousOn φ (Set.Icc 0 h) := fun s hs => (hd1 s hs).continuousWithinAt
    exact (h1.sub continuousOn_const).sub (continuousOn_id.mul continuousOn_const)
  have hFd : ∀ s ∈ Set.Ioo 0 h, HasDerivAt (fun s => φ s - φ 0 - s * φ' 0) (φ' s - φ' 0) s := by
    intro s hs
    have h1 : HasDerivAt φ (φ' s) s := (hd1 s ⟨hs.1.le, hs.2.le⟩).hasDerivAt (Icc_mem_nhds hs.1 hs.2)
    have h2 : HasDerivAt (fun s : ℝ => s * φ' 0) (1 * φ' 0) s := (hasDerivAt_id s).mul_const (φ' 0)
    exact ((h1.sub_const (φ 0)).sub h2).congr_deriv (by ring)
  have hGc : ContinuousOn (fun s : ℝ => s * s) (Set.Icc 0 h) := continuousOn_id.mul continuousOn_id
  have hGd : ∀ s ∈ Set.Ioo 0 h, HasDerivAt (fun s : ℝ => s * s) (1 * s + s * 1) s :=
    fun s _ => (hasDerivAt_id s).mul (hasDerivAt_id s)
  obtain ⟨c, hcm, hce⟩ := exists_ratio_hasDerivAt_eq_ratio_slope (fun s => φ s - φ 0 - s * φ' 0)
    (fun s => φ' s - φ' 0) hh hFc hFd (fun s : ℝ => s * s) (fun s => 1 * s + s * 1) hGc hGd
  -- mean value theorem for `φ'` on `[0, c]`
  have hc' : ContinuousOn φ' (Set.Icc 0 c) := hc.mono (Set.Icc_subset_Icc le_rfl hcm.2.le)
  obtain ⟨d, hdm, hde⟩ := exists_hasDerivAt_eq_slope φ' φ'' hcm.1 hc'
    (fun s hs => hd2 s ⟨hs.1, lt_trans hs.2 hcm.2⟩)
  refine ⟨d, ⟨hdm.1, lt_trans hdm.2 hcm.2⟩, ?_⟩
  have hcpos : c ≠ 0 := hcm.1.ne'
  have hhne : h ≠ 0 := hh.ne'
  have e1 : φ' c - φ' 0 = φ'' d * c := by
    rw [hde, sub_zero]; field_simp
  rw [e1] at hce
  -- hce : (h*h − 0*0) * (φ'' d * c) = (φ h − φ 0 − h·φ' 0 − (φ 0 − φ 0 − 0·φ' 0)) * (1*c + c*1)
  have e2 : (φ h - φ 0 - h * φ' 0) * 2 = h * h * φ'' d := by
    have : c * ((φ h - φ 0 - h * φ' 0) * 2) = c * (h * h * φ'' d) := by
      linear_combination -hce
    exact mul_left_cancel₀ hcpos this
  field_simp
  linear_combination e2

/-- **remainder bound**: with `|φ''| ≤ M` inside, `|(φ h − φ 0)/h − φ' 0| ≤ M·h/2` -/
theorem fwd_diff_error {φ φ' φ'' : ℝ → ℝ} {h M : ℝ} (hh : 0 < h)
    (hd1 : ∀ s ∈ Set.Icc 0 h, HasDerivWithinAt φ (φ' s) (Set.Icc 0 h) s)
    (hc : ContinuousOn φ' (Set.Icc 0 h))
    (hd2 : ∀ s ∈ Set.Ioo 0 h, HasDerivAt φ' (φ'' s) s)
    (hM : ∀ s ∈ Set.Ioo 0 h, |φ'' s| ≤ M) :
    |(φ h - φ 0) / h - φ' 0| ≤ M * h / 2 := by
  obtain ⟨d, hdm, hde⟩ := fwd_diff_lagrange hh hd1 hc hd2
  rw [hde, abs_div, abs_mul, abs_of_pos hh, abs_of_pos (by norm_num : (0:ℝ) < 2)]
  have := hM d hdm
  have : h * |φ'' d| ≤ M * h := by rw [mul_comm]; exact mul_le_mul_of_nonneg_right this hh.le
  linarith

/-- the same for a NEGATIVE step (backward difference): derivatives on `[h, 0]`, error `M·|h|/2` -/
theorem fwd_diff_error_neg {φ φ' φ'' : ℝ → ℝ} {h M : ℝ} (hh : h < 0)
    (hd1 : ∀ s ∈ Set.Icc h 0, HasDerivWithinAt φ (φ' s) (Set.Icc h 0) s)
    (hc : ContinuousOn φ' (Set.Icc h 0))
    (hd2 : ∀ s ∈ Set.Ioo h 0, HasDerivAt φ' (φ'' s) s)
    (hM : ∀ s ∈ Set.Ioo h 0, |φ'' s| ≤ M) :
    |(φ h - φ 0) / h - φ' 0| ≤ M * |h| / 2 := by
  have hmaps : Set.MapsTo (fun s : ℝ => -s) (Set.Icc 0 (-h)) (Set.Icc h 0) := by
    intro s hs; simp only [Set.mem_Icc] at hs ⊢; constructor <;> linarith [hs.1, hs.2]
  have hneg : ∀ s : ℝ, HasDerivAt (fun s : ℝ => -s) (-1) s := fun s => (hasDerivAt_id s).neg
  have key := fwd_diff_error (φ := fun s => φ (-s)) (φ' := fun s => -φ' (-s)) (φ'' := fun s => φ'' (-s))
    (h := -h) (M := M) (by linarith)
    (by
      intro s hs
      have h1 := hd1 (-s) (hmaps hs)
      exact (h1.scomp s (hneg s).hasDerivWithinAt hmaps).congr_deriv (by simp))
    (by
      have h1 : ContinuousOn (fun s : ℝ => φ' (-s)) (Set.Icc 0 (-h)) :=
        hc.comp continuous_neg.continuousOn hmaps
      exact h1.neg)
    (by
      intro s hs
      have hs' : -s ∈ Set.Ioo h 0 := by simp only [Set.mem_Ioo] at hs ⊢; constructor <;> linarith [hs.1, hs.2]
      exact ((hd2 (-s) hs').scomp s (hneg s)).neg.congr_deriv (by simp))
    (by
      intro s hs
      have hs' : -s ∈ Set.Ioo h 0 := by simp only [Set.mem_Ioo] at hs ⊢; constructor <;> linarith [hs.1, hs.2]
      exact hM (-s) hs')
  simp only [neg_neg, neg_zero] at key
  have e : (φ h - φ 0) / h - φ' 0 = -((φ h - φ 0) / -h - -φ' 0) := by
    have : h ≠ 0 := hh.ne
    field_simp
    ring
  rw [e, abs_neg, abs_of_neg hh]
  exact key

/-- `C²` on an open set containing `[0, h]`: the hypotheses of `fwd_diff_error` hold with `deriv φ` and
    `deriv (deriv φ)` -/
theorem fwd_diff_error_contDiffOn {φ : ℝ → ℝ} {U : Set ℝ} {h M : ℝ} (hh : 0 < h) (hU : IsOpen U)
    (hsub : Set.Icc 0 h ⊆ U) (hφ : ContDiffOn ℝ 2 φ U)
    (hM : ∀ s ∈ Set.Ioo 0 h, |deriv (deriv φ) s| ≤ M) :
    |(φ h - φ 0) / h - deriv φ 0| ≤ M * h / 2 := by
  have h2 : ContDiffOn ℝ (1 + 1) φ U := by
    have : ((1 : WithTop ℕ∞) + 1) = 2 := by norm_num
    rw [this]; exact hφ
  obtain ⟨hdφ, _, hφ'⟩ := (contDiffOn_succ_iff_deriv_of_isOpen hU).1 h2
  have hdφ' : DifferentiableOn ℝ (deriv φ) U := hφ'.differentiableOn one_ne_zero
  apply fwd_diff_error hh (φ' := deriv φ) (φ'' := deriv (deriv φ))
  · intro s hs
    exact ((hdφ s (hsub hs)).differentiableAt (hU.mem_nhds (hsub hs))).hasDerivAt.hasDerivWithinAt
  · exact hdφ'.continuousOn.mono hsub
  · intro s hs
    have hs' : s ∈ U := hsub ⟨hs.1.le, hs.2.le⟩
    exact ((hdφ' s hs').differentiableAt (hU.mem_nhds hs')).hasDerivAt
  · exact hM

/-! ## the numerical value of the model is the difference quotient of the seeded response -/

section field
variable {α : Type} [Field α]

/-- real data (`re = id`): `dgdx_fd = (⟨fp, w⟩ − ⟨f0, w⟩) / den` -/
theorem fdVal_real_eq (ops : Ops α) (hre : ops.re = id) (o : OutSig α) (r : OutRec α) (σr : Store α) (h : α) :
    fdVal ops false h o r σr
      = ((∑ m ∈ range o.sig.ents.length, σr.st (o.sig.ents.getD m 0) * r.w m)
          - ∑ m ∈ range o.sig.ents.length, r.f0 m * r.w m) / h := by
  unfold fdVal
  simp only [hre, id, Bool.false_eq_true, if_false, sumRange_eq]
  rw [← Finset.sum_sub_distrib, Finset.sum_div]
  apply Finset.sum_congr rfl
  intro m _
  ring

end field

/-- the seeded response along a path of outputs `F s m` (entry `m` of the output when the input entry is perturbed
    by `s`): `φ s = Σ_m F s m · w m` -/
def seeded (n : Nat) (w : Nat → ℝ) (F : ℝ → Nat → ℝ) (s : ℝ) : ℝ := ∑ m ∈ range n, F s m * w m

/-- entrywise derivatives give the derivative of the seeded response -/
theorem seeded_hasDerivWithinAt (n : Nat) (w : Nat → ℝ) (F F' : ℝ → Nat → ℝ) (S : Set ℝ) (s : ℝ)
    (hF : ∀ m, m < n → HasDerivWithinAt (fun s => F s m) (F' s m) S s) :
    HasDerivWithinAt (seeded n w F) (seeded n w F' s) S s := by
  unfold seeded
  have := HasDerivWithinAt.fun_sum (u := range n) (A := fun m s => F s m * w m) (A' := fun m => F' s m * w m)
    (fun m hm => (hF m (Finset.mem_range.mp hm)).mul_const (w m))
  exact this

theorem seeded_hasDerivAt (n : Nat) (w : Nat → ℝ) (F F' : ℝ → Nat → ℝ) (s : ℝ)
    (hF : ∀ m, m < n → HasDerivAt (fun s => F s m) (F' s m) s) :
    HasDerivAt (seeded n w F) (seeded n w F' s) s := by
  rw [← hasDerivWithinAt_univ]
  exact seeded_hasDerivWithinAt n w F F' Set.univ s (fun m hm => (hF m hm).hasDerivWithinAt)

theorem seeded_continuousOn (n : Nat) (w : Nat → ℝ) (F : ℝ → Nat → ℝ) (S : Set ℝ)
    (hF : ∀ m, m < n → ContinuousOn (fun s => F s m) S) : ContinuousOn (seeded n w F) S := by
  unfold seeded
  exact continuousOn_finsetSum _ (fun m hm => (hF m (Finset.mem_range.mp hm)).mul continuousOn_const)

theorem seeded_abs_le (n : Nat) (w : Nat → ℝ) (F : ℝ → Nat → ℝ) (K : Nat → ℝ) (s : ℝ)
    (hK : ∀ m, m < n → |F s m| ≤ K m) : |seeded n w F s| ≤ ∑ m ∈ range n, K m * |w m| := by
  unfold seeded
  refine le_trans (Finset.abs_sum_le_sum_abs _ _) (Finset.sum_le_sum fun m hm => ?_)
  rw [abs_mul]
  exact mul_le_mul_of_nonneg_right (hK m (Finset.mem_range.mp hm)) (abs_nonneg _)

end PymotoVerif.FD
